(* C15 - independence across subsystems: partial traces of the dissipator on the bipartite register 2x2
   (index (a,b) = a*dB+b as qutip.tensor), arbitrary tables rho = mk n f, C = mk d c.
   other_X: a collapse operator on the other subsystem does not move the reduced state;  own_X: a collapse operator on
   subsystem X moves X's reduced state by its own local dissipator. *)
From Coq Require Import List Arith Ring Ring_theory QArith.
From QV Require Import Model.Lindblad Proofs.Lindblad.
Import ListNotations.

Section P.
  Variable R : cring.
  Add Ring RR : (kring R).
  Ltac pushc := repeat (rewrite ?(conj_add R), ?(conj_mul R), ?(conj_sub R), ?(conj_opp R), ?(conj_inv R),
                                ?(conj_half R), ?(conj_s2 R), ?(conj_0 R), ?(conj_1 R)).
  Ltac meq := repeat match goal with
                     | |- cons _ _ = cons _ _ => apply f_equal2
                     | |- @nil _ = @nil _ => reflexivity
                     end.
  Ltac fin := ring [(half_ok R)].
  Ltac unf := cbv -[K k0 k1 kadd kmul ksub kopp conj half s2].
  Ltac mring := unf; meq; pushc; fin.

  (* --- independence: on a bipartite register A (x) B (index (a,b) = a*dB+b as qutip.tensor) a collapse operator
         acting on B alone does not move the reduced state of A, and one acting on A alone moves the reduced
         state of A by its own LOCAL dissipator.  rho and C are arbitrary tables (mk n f for arbitrary f). ---- *)
  Section Bip.
    Variables (f : nat -> nat -> R) (c : nat -> nat -> R).
    Lemma other_B_22 : ptraceB R 2 2 (lind R 4 (kron R 2 2 (ident R 2) (mk R 2 c)) (mk R 4 f)) = mzero R 2.
    Proof. mring. Qed.
    Lemma other_A_22 : ptraceA R 2 2 (lind R 4 (kron R 2 2 (mk R 2 c) (ident R 2)) (mk R 4 f)) = mzero R 2.
    Proof. mring. Qed.
    Lemma own_A_22 : ptraceB R 2 2 (lind R 4 (kron R 2 2 (mk R 2 c) (ident R 2)) (mk R 4 f))
                     = lind R 2 (mk R 2 c) (ptraceB R 2 2 (mk R 4 f)).
    Proof. mring. Qed.
    Lemma own_B_22 : ptraceA R 2 2 (lind R 4 (kron R 2 2 (ident R 2) (mk R 2 c)) (mk R 4 f))
                     = lind R 2 (mk R 2 c) (ptraceA R 2 2 (mk R 4 f)).
    Proof. mring. Qed.
  End Bip.
End P.
