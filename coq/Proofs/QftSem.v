(* C17, QFT half: semantics of the model's gate lists over C (Found/CInst.v) and
   - the CNOT expansion of a controlled phase is exact up to the global phase e^{i phi/2} (symbolic rule, all angles,
     all placements), lifted to the whole generated circuit for ALL N: [to_cnot_upto_phase];
   - closed gates / re-parametrisation lemmas shared with QftDft.v. *)
From Coq Require Import Reals Lra Lia List String FunctionalExtensionality Ring QArith Qreals Bool ZArith.
From Coquelicot Require Import Coquelicot.
From QV Require Import Found.Base Found.Lemmas Found.Table Found.KS Found.KSProofs Found.Sym Found.SymProofs Found.Conj Found.CInst.
From QV Require Import Gen.Gates Gen.SingleQubit Model.SingleQubit Model.Qft Proofs.C17Sem Proofs.QftStruct.
Import ListNotations.
Local Open Scope string_scope.
Local Open Scope list_scope.

(* ---- denotation of a model gate: the generated library matrix of its name at its real angle ---- *)
Definition aval (a : ang) : R := (IZR (anum a) * PI / 2 ^ aexp a)%R.
Definition oval (a : option ang) : R := match a with Some x => aval x | None => 0%R end.
Definition th1 (x : R) : nat -> R := fun j => match j with O => x | S _ => 0%R end.
Definition gmexp (name : string) : mexp :=
  if String.eqb name "GLOBALPHASE" then MLit [[globalphase_ex]]
  else match sassoc name dispatch with Some m => m | None => MLit [] end.
Definition gqubits (g : qg) : list nat := if String.eqb (gname g) "GLOBALPHASE" then [] else gcontrols g ++ gtargets g.
Definition qden (g : qg) : gate Cops := (cmat (th1 (oval (garg g))) (gmexp (gname g)), gqubits g).

Local Open Scope R_scope.

Lemma pow2_pos n : 0 < 2 ^ n. Proof. apply pow_lt. lra. Qed.
Lemma aval_half a : aval (ang_half a) = aval a / 2.
Proof. unfold aval, ang_half. cbn [anum aexp pow]. pose proof (pow2_pos (aexp a)). field. lra. Qed.
Lemma aval_neg a : aval (ang_neg a) = - aval a.
Proof. unfold aval, ang_neg. cbn [anum aexp]. rewrite opp_IZR. pose proof (pow2_pos (aexp a)). field. lra. Qed.
Lemma IZR_pow2 k : IZR (2 ^ Z.of_nat k) = 2 ^ k.
Proof. rewrite <- pow_IZR. reflexivity. Qed.
Lemma aval_add a b : aval (ang_add a b) = aval a + aval b.
Proof.
  unfold aval, ang_add. cbn [anum aexp]. set (K := Nat.max (aexp a) (aexp b)).
  assert (Ha : (aexp a <= K)%nat) by (unfold K; lia). assert (Hb : (aexp b <= K)%nat) by (unfold K; lia).
  rewrite plus_IZR, !mult_IZR, !IZR_pow2.
  assert (Ea : 2 ^ K = 2 ^ (K - aexp a) * 2 ^ aexp a) by (rewrite <- pow_add; f_equal; lia).
  assert (Eb : 2 ^ K = 2 ^ (K - aexp b) * 2 ^ aexp b) by (rewrite <- pow_add; f_equal; lia).
  pose proof (pow2_pos (K - aexp a)). pose proof (pow2_pos (K - aexp b)). pose proof (pow2_pos (aexp a)). pose proof (pow2_pos (aexp b)).
  pose proof (pow2_pos K).
  transitivity (IZR (anum a) * 2 ^ (K - aexp a) * PI / 2 ^ K + IZR (anum b) * 2 ^ (K - aexp b) * PI / 2 ^ K); [field; lra|].
  f_equal.
  - rewrite Ea. field. split; lra.
  - rewrite Eb. field. split; lra.
Qed.

(* ---- closed expressions do not depend on the parameter values ---- *)
Fixpoint closedb (e : ex) : bool :=
  match e with
  | Var _ => false
  | Num _ | Imag _ | Pi => true
  | Add a b | Sub a b | Mul a b | Div a b => closedb a && closedb b
  | Neg a | Cos a | Sin a | Exp a | Sqrt a => closedb a
  end.
Fixpoint mclosedb (m : mexp) : bool :=
  match m with
  | MLit rows => forallb (forallb closedb) rows
  | MMul a b => mclosedb a && mclosedb b
  | MScale e a => closedb e && mclosedb a
  | MCtrl _ _ a => mclosedb a
  end.
Lemma cden_closed th1' th2' e : closedb e = true -> cden th1' e = cden th2' e.
Proof.
  induction e; cbn [closedb cden]; intros H; try discriminate; try reflexivity;
    try (apply andb_prop in H; destruct H as [H1 H2]; rewrite (IHe1 H1), (IHe2 H2); reflexivity);
    rewrite (IHe H); reflexivity.
Qed.
Lemma mden_closed th1' th2' m : mclosedb m = true -> forall i j, mden th1' m i j = mden th2' m i j.
Proof.
  induction m as [rows|a IHa b IHb|e a IHa|nc cv a IHa]; cbn [mclosedb mden]; intros H i j.
  - apply cden_closed. rewrite forallb_forall in H.
    destruct (Nat.lt_ge_cases i (length rows)) as [Li|Li].
    + specialize (H (nth i rows []) (nth_In _ _ Li)). rewrite forallb_forall in H.
      destruct (Nat.lt_ge_cases j (length (nth i rows []))) as [Lj|Lj].
      * apply H. apply nth_In. exact Lj.
      * rewrite (nth_overflow _ _ Lj). reflexivity.
    + rewrite (nth_overflow rows [] Li). destruct j; reflexivity.
  - apply andb_prop in H. destruct H as [H1 H2]. apply (Lemmas.ksum_map_ext Cops). intros k _.
    rewrite (IHa H1), (IHb H2). reflexivity.
  - apply andb_prop in H. destruct H as [H1 H2]. rewrite (cden_closed th1' th2' e H1), (IHa H2). reflexivity.
  - cbv zeta. rewrite !(IHa H). reflexivity.
Qed.

(* a closed gate has the same matrix at every parameter value *)
Lemma geq_closed x y m tb ts : mtab m = Some tb -> mdim m = (2 ^ length ts)%nat -> mclosedb m = true ->
  geq (cmat (th1 x) m, ts) (cmat (th1 y) m, ts).
Proof.
  intros H D Cl. apply (geq_cmat _ _ m m tb tb ts H H D D). intros i j _ _. apply mden_closed. exact Cl.
Qed.

(* re-parametrisation: the gate at angle x' is the gate family instantiated by an expression whose value is x' *)
Lemma geq_reparam x x' e m t1 t2 ts : mtab m = Some t1 -> mtab (msubst [e] m) = Some t2 -> mdim m = (2 ^ length ts)%nat ->
  cden (th1 x) e = RtoC x' -> geq (cmat (th1 x') m, ts) (cmat (th1 x) (msubst [e] m), ts).
Proof.
  intros H1 H2 D E. apply (geq_cmat _ _ _ _ t1 t2 ts H1 H2 D); [rewrite mdim_msubst; exact D|].
  intros i j _ _. symmetry. apply mden_msubst. intros [|k]; [exact E|].
  cbn [nth]. destruct k; reflexivity.
Qed.

Lemma cden_globalphase th e x : cden th e = RtoC x -> cden th (subst [e] globalphase_ex) = cis x.
Proof.
  intros H. cbn [subst globalphase_ex nth cden]. rewrite H.
  replace (Q2R (1 # 1)) with 1 by (unfold Q2R; simpl; lra).
  replace (Cmult (Cmult Ci (RtoC 1)) (RtoC x)) with (Cmult Ci (RtoC x)) by (apply Ceq; simpl; ring).
  apply Cexp_i.
Qed.

(* ---- the symbolic rule: RZ(phi/2) t; CNOT c t; RZ(-phi/2) t; CNOT c t; RZ(phi/2) c; e^{i 3phi/4}
        =  CPHASE(phi) c t ; e^{i phi/2}        (local qubits: 0 = control, 1 = target; Var 0 = phi) ---- *)
Definition half : ex := Div (Var 0) (Num (2 # 1)).
Definition e3 : ex := Div (Neg (Add half half)) (Num (2 # 1)).
Definition e6 : ex := Add half (Div half (Num (2 # 1))).
Definition rule_lhs : scirc :=
  [ (msubst [half] (gmexp "RZ"), [1%nat]); (gmexp "CNOT", [0%nat; 1%nat]); (msubst [e3] (gmexp "RZ"), [1%nat]);
    (gmexp "CNOT", [0%nat; 1%nat]); (msubst [half] (gmexp "RZ"), [0%nat]); (msubst [e6] (gmexp "GLOBALPHASE"), []) ].
Definition rule_rhs : scirc := [ (gmexp "CPHASE", [0%nat; 1%nat]); (msubst [half] (gmexp "GLOBALPHASE"), []) ].
Lemma rule_ok : scirc_eqb 2 rule_lhs rule_rhs = true.
Proof. vm_compute. reflexivity. Qed.

Lemma cden_half x : cden (th1 x) half = RtoC (x / 2).
Proof. unfold half. cbn [cden th1]. rewrite Q2R_21. apply RtoC_real_eq; cbn [Cdiv Cmult Cinv RtoC fst snd]; field. Qed.
Lemma cden_div2 th e x : cden th e = RtoC x -> cden th (Div e (Num (2 # 1))) = RtoC (x / 2).
Proof. intros H. cbn [cden]. rewrite H, Q2R_21. apply RtoC_real_eq; cbn [Cdiv Cmult Cinv RtoC fst snd]; field. Qed.
Lemma cden_e3 x : cden (th1 x) e3 = RtoC (- (x / 2 + x / 2) / 2).
Proof.
  unfold e3. apply cden_div2. change (cden (th1 x) (Neg (Add half half))) with
    (Copp (Cplus (cden (th1 x) half) (cden (th1 x) half))). rewrite !cden_half. apply RtoC_real_eq; cbn [Copp Cplus RtoC fst snd]; ring.
Qed.
Lemma cden_e6 x : cden (th1 x) e6 = RtoC (x / 2 + x / 2 / 2).
Proof.
  unfold e6. change (cden (th1 x) (Add half (Div half (Num (2 # 1))))) with
    (Cplus (cden (th1 x) half) (cden (th1 x) (Div half (Num (2 # 1))))).
  rewrite (cden_div2 _ half (x / 2) (cden_half x)), cden_half.
  apply RtoC_real_eq; cbn [Cplus RtoC fst snd]; ring.
Qed.

Lemma geq_phase th m tb s : mtab m = Some tb -> mdim m = 1%nat -> mden th m 0 0 = s -> geq (phase_gate s) (cmat th m, []).
Proof.
  intros H D E. split; [reflexivity|]. cbn [fst snd phase_gate length]. intros r c Hr Hc.
  destruct r; [|discriminate]. destruct c; [|discriminate].
  rewrite (cmat_mden th m tb) by (assumption || (rewrite D; simpl; lia)). symmetry. exact E.
Qed.
Lemma geq_sym g1 g2 : geq g1 g2 -> geq g2 g1.
Proof. intros [H1 H2]. split; [auto|]. intros r c Hr Hc. rewrite <- H1 in *. symmetry. apply H2; assumption. Qed.

Theorem expansion_sem (t c : nat) (phi : ang) : c <> t ->
  sem (map qden (expansion [t] [c] phi)) =
  sem [qden (QG "CPHASE" [t] [c] (Some phi)); phase_gate (cis (aval phi / 2))].
Proof.
  intros Hct. set (x := aval phi).
  pose proof (scirc_eqb_sound (PR_C (th1 x)) 2 rule_lhs rule_rhs [c; t] rule_ok (nodup2 c t Hct) eq_refl) as E.
  transitivity (sem (place [c; t] (SymProofs.cden (PR_C (th1 x)) rule_lhs))); [| rewrite E]; apply sem_ext.
  - (* the six generated gates against the instantiated left-hand side *)
    unfold expansion. cbn [map rule_lhs SymProofs.cden ecirc sden place fst snd pl nth]. unfold qden. cbn [gname garg gtargets gcontrols oval].
    repeat (apply Forall2_cons); try apply Forall2_nil.
    + eapply (geq_reparam x _ half (gmexp "RZ")); [reflexivity|reflexivity|reflexivity|].
      rewrite aval_half. apply cden_half.
    + eapply (geq_closed _ x (gmexp "CNOT")); reflexivity.
    + eapply (geq_reparam x _ e3 (gmexp "RZ")); [reflexivity|reflexivity|reflexivity|].
      rewrite aval_half, aval_neg, aval_add, !aval_half. apply cden_e3.
    + eapply (geq_closed _ x (gmexp "CNOT")); reflexivity.
    + eapply (geq_reparam x _ half (gmexp "RZ")); [reflexivity|reflexivity|reflexivity|].
      rewrite aval_half. apply cden_half.
    + eapply (geq_reparam x _ e6 (gmexp "GLOBALPHASE")); [reflexivity|reflexivity|reflexivity|].
      rewrite aval_add, !aval_half. apply cden_e6.
  - cbn [map rule_rhs SymProofs.cden ecirc sden place fst snd pl nth]. unfold qden. cbn [gname garg gtargets gcontrols oval].
    apply Forall2_cons; [|apply Forall2_cons; [|apply Forall2_nil]].
    + apply geq_refl.
    + apply geq_sym. eapply geq_phase; [reflexivity|reflexivity|].
      cbn [msubst gmexp String.eqb Ascii.eqb Bool.eqb map mden nth]. apply cden_globalphase. apply cden_half.
Qed.

(* ---- lifting to whole gate lists ---- *)
Definition cphase_shape (g : qg) : Prop :=
  gname g = "CPHASE" -> exists t c a, g = QG "CPHASE" [t] [c] (Some a) /\ c <> t.

(* the accumulated global phase angle: phi/2 per expanded controlled phase *)
Definition exp_angle (l : list qg) : R :=
  fold_right (fun g acc => (if String.eqb (gname g) "CPHASE" then oval (garg g) / 2 else 0) + acc) 0 l.

Lemma sem_cons (g : gate Cops) c psi : sem (g :: c) psi = sem c (Base.app (fst g) (snd g) psi).
Proof. reflexivity. Qed.

Lemma sem_expand l : Forall cphase_shape l -> forall psi,
  sem (map qden (flat_map expand l)) psi = sscale (cis (exp_angle l)) (sem (map qden l) psi).
Proof.
  induction 1 as [|g l Hg _ IH]; intros psi.
  - cbn [flat_map map exp_angle fold_right]. rewrite cis_0, sscale_1. reflexivity.
  - cbn [flat_map exp_angle fold_right]. rewrite map_app, (Lemmas.sem_app Cops).
    destruct (String.eqb (gname g) "CPHASE") eqn:E.
    + apply String.eqb_eq in E. destruct (Hg E) as [t [c [a [-> Hct]]]].
      change (expand (QG "CPHASE" [t] [c] (Some a))) with (expansion [t] [c] a).
      rewrite (expansion_sem t c a Hct). cbn [map]. rewrite !sem_cons. cbn [sem fold_left].
      rewrite app_phase, IH, sem_sscale, sscale_sscale. cbn [garg oval]. rewrite <- cis_add.
      fold (exp_angle l). replace (exp_angle l + aval a / 2)%R with (aval a / 2 + exp_angle l)%R by ring. reflexivity.
    + assert (Ex : expand g = [g]) by (unfold expand; rewrite E; reflexivity).
      rewrite Ex. cbn [map]. rewrite !sem_cons. cbn [sem fold_left]. rewrite IH.
      fold (exp_angle l). replace (0 + exp_angle l)%R with (exp_angle l) by ring. reflexivity.
Qed.

Lemma shape_other g : String.eqb (gname g) "CPHASE" = false -> cphase_shape g.
Proof. intros E H. apply String.eqb_eq in H. congruence. Qed.

Lemma body_shape N sw : Forall cphase_shape (qft_body N sw false).
Proof.
  unfold qft_body. destruct (Nat.eqb N 1).
  - constructor; [apply shape_other; reflexivity| constructor].
  - apply Forall_app. split.
    + apply Forall_flat_map. intros i Hi. unfold qft_row. apply Forall_app. split.
      * apply Forall_flat_map. intros j Hj. apply in_seq in Hj. cbn [cgate]. constructor; [|constructor].
        intros _. exists j, i, (qft_angle i j). split; [reflexivity| lia].
      * constructor; [apply shape_other; reflexivity| constructor].
    + destruct sw; [|constructor]. unfold qft_swaps. apply Forall_forall. intros g Hg.
      apply in_map_iff in Hg. destruct Hg as [i [<- _]]. apply shape_other. reflexivity.
Qed.

(* ALL N, both swapping options: the CNOT-expanded circuit acts as the native one times the unit scalar
   e^{i * sum phi/2} *)
Theorem to_cnot_upto_phase N sw lt lf :
  qft_gate_sequence N sw true = Some lt -> qft_gate_sequence N sw false = Some lf ->
  forall psi, sem (map qden lt) psi = sscale (cis (exp_angle lf)) (sem (map qden lf) psi).
Proof.
  intros Ht Hf psi. apply qft_gate_sequence_inv in Ht. apply qft_gate_sequence_inv in Hf.
  destruct Ht as [_ ->]. destruct Hf as [_ ->]. rewrite expanded_is_flat_map. apply sem_expand. apply body_shape.
Qed.

Lemma cphase_to_cnot_sem (t c : nat) (phi : ang) l : c <> t -> cphase_to_cnot [t] [c] phi = Some l ->
  sem (map qden l) = sem [qden (QG "CPHASE" [t] [c] (Some phi)); phase_gate (cis (aval phi / 2))].
Proof.
  intros Hct H. rewrite cphase_to_cnot_eq in H. injection H as <-. apply expansion_sem. exact Hct.
Qed.
