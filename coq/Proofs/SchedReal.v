(* C05: the two hypotheses H1/H2 of the scheduler theorem sched_sem HOLD for the library's real gate matrices
   (Gen.Gates.dispatch, regenerated from the source on every run), embedded by Found.Base.app, in every phase ring R
   and for all parameter values:
     real_H1  gates on disjoint qubits commute                      (Comm.app_comm_disjoint)
     real_H2  gates declared commuting by the FIXED Scheduler.commutation_rules commute
   real_H2 follows the structure of the rule: for every name of the arity table and every coincidence pattern of the
   qubits the rule admits, ONE local symbolic commutation identity with INDEPENDENT parameter values for the two gates
   (Found/Shift.v: comm_check), all collected in the boolean [all_ok] evaluated by vm_compute, then lifted by
   comm_check_sound to every register, placement, ring and pair of parameter values. *)
From Coq Require Import ZArith QArith List String Bool Lia FunctionalExtensionality.
Import ListNotations.
From QV Require Import Found.Circ Found.Comm Found.Closed Found.Shift Gen.Gates Proofs.C09.
From QV Require Import Model.Sched Proofs.SchedC11Inst Proofs.SchedC05.
Local Open Scope string_scope.
Local Open Scope nat_scope.
Local Open Scope list_scope.

(* ------------------------------------------------------------------------------------------------ *)
(* hand-written arity table: name -> (#controls, #targets, #parameters), one entry per name of dispatch and of class_map *)
Definition arity_tab : list (string * (nat * nat * nat)) := [
  ("RX", (0, 1, 1)); ("RY", (0, 1, 1)); ("RZ", (0, 1, 1));
  ("X", (0, 1, 0)); ("Y", (0, 1, 0)); ("CY", (1, 1, 0)); ("Z", (0, 1, 0)); ("CZ", (1, 1, 0));
  ("T", (0, 1, 0)); ("CT", (1, 1, 0)); ("S", (0, 1, 0)); ("CS", (1, 1, 0));
  ("SQRTNOT", (0, 1, 0)); ("SNOT", (0, 1, 0)); ("PHASEGATE", (0, 1, 1));
  ("R", (0, 1, 2)); ("QASMU", (0, 1, 3));
  ("CRX", (1, 1, 1)); ("CRY", (1, 1, 1)); ("CRZ", (1, 1, 1)); ("CPHASE", (1, 1, 1));
  ("CNOT", (1, 1, 0)); ("CSIGN", (1, 1, 0));
  ("BERKELEY", (0, 2, 0)); ("SWAPalpha", (0, 2, 1)); ("SWAP", (0, 2, 0)); ("ISWAP", (0, 2, 0));
  ("SQRTSWAP", (0, 2, 0)); ("SQRTISWAP", (0, 2, 0));
  ("FREDKIN", (1, 2, 0)); ("TOFFOLI", (2, 1, 0)); ("IDLE", (0, 1, 0));
  (* names of GATE_CLASS_MAP that are not in dispatch *)
  ("H", (0, 1, 0)); ("iSWAP", (0, 2, 0)); ("SWAPALPHA", (0, 2, 1)); ("MS", (0, 2, 2)); ("CX", (1, 1, 0));
  ("RZX", (0, 2, 1));
  (* the scalar gate: no qubit, one parameter *)
  ("GLOBALPHASE", (0, 0, 1))].
Definition arity (n : string) : option (nat * nat * nat) := assoc n arity_tab.

(* the matrix of a gate by name: Gate(name).get_compact_qobj (dispatch); names that only have a dedicated class
   (H, iSWAP, SWAPALPHA, MS, CX, RZX: what add_gate(name) instantiates) take the matrix of that class.  For names in both
   tables the two matrices agree (C09: lib_paths_agree). *)
Definition gate_mexp (n : string) : option mexp :=
  if String.eqb n "GLOBALPHASE" then Some (MLit [[globalphase_ex]]) else    (* 1 x 1 matrix on no qubit: e^{i arg} *)
  match assoc n dispatch with
  | Some m => Some m
  | None => match assoc n class_map with Some c => assoc c class_mat | None => None end
  end.

(* a gate with >= 2 parameters needs exactly that many argument values; gates with <= 1 parameter read (at most) the
   atoms of parameter 0 of whatever argument list they carry *)
Definition params_ok (np : nat) (args : list Q) : bool := (np <=? 1) || (length args =? np).

Definition iqubits (g : instr) : list nat := icontrols g ++ itargets g.   (* matrix index order: controls ++ targets *)
Definition ikey (g : instr) : list Q := map Qred (iargs g).              (* argument list up to == of rationals *)

(* the matrix expression of a well-formed instruction *)
Definition wf_instr (g : instr) : option mexp :=
  match arity (iname g), gate_mexp (iname g) with
  | Some (nc, nt, np), Some m =>
      if (length (icontrols g) =? nc) && (length (itargets g) =? nt) && nodupb (iqubits g) && params_ok np (iargs g)
      then Some m else None
  | _, _ => None
  end.

(* ------------------------------------------------------------------------------------------------ *)
(* the symbolic obligations *)
Definition shape_ok (nc nt : nat) : bool :=
  match nc, nt with 0, 0 | 0, 1 | 0, 2 | 1, 1 | 1, 2 | 2, 1 => true | _, _ => false end.

(* rule case B: same name, same targets, arbitrary controls *)
Definition chkB2 (m : mexp) : bool :=          (* two controls, one target: {c1,c2} against {c3,c4} *)
  comm_check 3 m [0;1;2] m [0;1;2] && comm_check 3 m [0;1;2] m [1;0;2] &&
  comm_check 4 m [0;1;2] m [0;3;2] && comm_check 4 m [0;1;2] m [1;3;2] &&
  comm_check 4 m [0;1;2] m [3;0;2] && comm_check 4 m [0;1;2] m [3;1;2] &&
  comm_check 5 m [0;1;2] m [3;4;2].
Definition chkB (nc nt : nat) (m : mexp) : bool :=
  match nc with
  | 0 => comm_check nt m (seq 0 nt) m (seq 0 nt)
  | 1 => comm_check (1 + nt) m (seq 0 (1 + nt)) m (seq 0 (1 + nt)) &&
         comm_check (2 + nt) m (0 :: seq 2 nt) m (1 :: seq 2 nt)
  | 2 => (nt =? 1) && chkB2 m
  | _ => false
  end.
(* rule case C: same name, same non-empty controls, disjoint targets *)
Definition chkC (nc nt : nat) (m : mexp) : bool :=
  match nc with
  | 0 => true
  | _ => comm_check (nc + nt + nt) m (seq 0 nc ++ seq nc nt) m (seq 0 nc ++ seq (nc + nt) nt)
  end.
Definition name_ok (e : string * (nat * nat * nat)) : bool :=
  let '(n, (nc, nt, np)) := e in
  match gate_mexp n with
  | Some m => shape_ok nc nt && (if np <=? 1 then chkB nc nt m else nc =? 0) && chkC nc nt m
  | None => false
  end.
(* rule case A: CNOT with X / RX on its target, with Z / RZ on its control *)
Definition pair_check (na nb : string) (k : nat) (la lb : list nat) : bool :=
  match gate_mexp na, gate_mexp nb with
  | Some ma, Some mb => comm_check k ma la mb lb
  | _, _ => false
  end.
Definition chkA : bool :=
  pair_check "CNOT" "X" 2 [0;1] [1] && pair_check "CNOT" "RX" 2 [0;1] [1] &&
  pair_check "CNOT" "Z" 2 [0;1] [0] && pair_check "CNOT" "RZ" 2 [0;1] [0].
Definition cover : bool :=
  forallb (fun p : string * mexp => match arity (fst p) with Some _ => true | None => false end) dispatch &&
  forallb (fun p : string * string => match arity (fst p) with Some _ => true | None => false end) class_map.

Definition all_ok : bool := forallb name_ok arity_tab && chkA && cover.
Lemma all_ok_true : all_ok = true. Proof. vm_compute. reflexivity. Qed.

(* Instruction sorts its target and control lists: the matrices with two targets / two controls are invariant *)
Definition sym_ok (e : string * (nat * nat * nat)) : bool :=
  let '(n, (nc, nt, np)) := e in
  match gate_mexp n with
  | Some m =>
      (if (nt =? 2) && negb (String.eqb n "RZX") then scirc_eqb (nc + 2) [(m, seq 0 nc ++ [nc; nc + 1])] [(m, seq 0 nc ++ [nc + 1; nc])] else true) &&
      (if nc =? 2 then scirc_eqb (2 + nt) [(m, 0 :: 1 :: seq 2 nt)] [(m, 1 :: 0 :: seq 2 nt)] else true)
  | None => false
  end.
Definition sym_all : bool := forallb sym_ok arity_tab.
Lemma sorted_faithful : sym_all = true. Proof. vm_compute. reflexivity. Qed.
Global Opaque scirc_eqb.

Global Opaque comm_check.

(* ------------------------------------------------------------------------------------------------ *)
(* list / boolean helpers *)
Lemma assoc_In {X} n (l : list (string * X)) v : assoc n l = Some v -> In (n, v) l.
Proof.
  induction l as [|[k w] l IH]; intro H; [discriminate|]. cbn [assoc] in H.
  destruct (String.eqb n k) eqn:E.
  - apply String.eqb_eq in E. injection H as ->. subst. left. reflexivity.
  - right. apply IH. exact H.
Qed.

Lemma nodupb_NoDup l : nodupb l = true -> NoDup l.
Proof.
  induction l as [|x l IH]; intro H; [constructor|]. cbn [nodupb] in H.
  apply andb_prop in H. destruct H as [H1 H2]. constructor; [|apply IH; exact H2].
  intro Hin. apply negb_true_iff in H1.
  assert (existsb (Nat.eqb x) l = true) by (apply existsb_exists; exists x; split; [exact Hin| apply Nat.eqb_refl]).
  congruence.
Qed.

Lemma list_eqb_eq a : forall b, Sched.list_eqb a b = true -> a = b.
Proof.
  induction a as [|x a IH]; intros [|y b] H; cbn [Sched.list_eqb] in H; try discriminate; [reflexivity|].
  apply andb_prop in H. destruct H as [H1 H2]. apply Nat.eqb_eq in H1. rewrite H1, (IH b H2). reflexivity.
Qed.

Lemma args_eqb_key a : forall b, args_eqb a b = true -> map Qred a = map Qred b.
Proof.
  induction a as [|x a IH]; intros [|y b] H; cbn [args_eqb] in H; try discriminate; [reflexivity|].
  apply andb_prop in H. destruct H as [H1 H2]. cbn [map]. rewrite (IH b H2). f_equal.
  apply Qred_complete. unfold Qsame in H1. apply Z.eqb_eq in H1. unfold Qeq. exact H1.
Qed.

Lemma disjointb_Forall a b : disjointb a b = true -> Forall (fun x => ~ In x b) a.
Proof.
  unfold disjointb. intro H. apply negb_true_iff in H. apply Forall_forall. intros x Ha Hb.
  assert (existsb (fun x => memb x b) a = true); [|congruence].
  apply existsb_exists. exists x. split; [exact Ha|]. unfold memb. apply existsb_exists.
  exists x. split; [exact Hb| apply Nat.eqb_refl].
Qed.

Lemma wf_spec g m : wf_instr g = Some m ->
  exists nc nt np, arity (iname g) = Some (nc, nt, np) /\ gate_mexp (iname g) = Some m /\
    length (icontrols g) = nc /\ length (itargets g) = nt /\ NoDup (iqubits g) /\ params_ok np (iargs g) = true.
Proof.
  unfold wf_instr. destruct (arity (iname g)) as [[[nc nt] np]|]; [|discriminate].
  destruct (gate_mexp (iname g)) as [m'|]; [|discriminate].
  destruct (_ && _) eqn:E; [|discriminate]. intro H. injection H as <-.
  apply andb_prop in E. destruct E as [E E4]. apply andb_prop in E. destruct E as [E E3].
  apply andb_prop in E. destruct E as [E1 E2]. apply Nat.eqb_eq in E1, E2.
  exists nc, nt, np. repeat split; auto. apply nodupb_NoDup. exact E3.
Qed.

Lemma NoDup_nodupb l : NoDup l -> nodupb l = true.
Proof.
  induction 1 as [|x l Hx Hn IH]; [reflexivity|]. cbn [nodupb]. rewrite IH, andb_true_r.
  apply negb_true_iff. destruct (existsb (Nat.eqb x) l) eqn:E; [|reflexivity].
  apply existsb_exists in E. destruct E as [y [Hy E]]. apply Nat.eqb_eq in E. subst. contradiction.
Qed.

Lemma wf_iff g m : wf_instr g = Some m <->
  exists nc nt np, arity (iname g) = Some (nc, nt, np) /\ gate_mexp (iname g) = Some m /\
    length (icontrols g) = nc /\ length (itargets g) = nt /\ NoDup (icontrols g ++ itargets g) /\
    (np <= 1 \/ length (iargs g) = np).
Proof.
  split.
  - intro H. destruct (wf_spec g m H) as (nc & nt & np & H1 & H2 & H3 & H4 & H5 & H6).
    exists nc, nt, np. repeat split; auto. unfold params_ok in H6. apply orb_prop in H6.
    destruct H6 as [H6|H6]; [left; apply Nat.leb_le| right; apply Nat.eqb_eq]; exact H6.
  - intros (nc & nt & np & H1 & H2 & H3 & H4 & H5 & H6). unfold wf_instr. rewrite H1, H2.
    apply Nat.eqb_eq in H3, H4. unfold iqubits. rewrite H3, H4, (NoDup_nodupb _ H5). cbn [andb].
    replace (params_ok np (iargs g)) with true; [reflexivity|]. symmetry. unfold params_ok. apply orb_true_iff.
    destruct H6 as [H6|H6]; [left; apply Nat.leb_le| right; apply Nat.eqb_eq]; exact H6.
Qed.

Lemma arity_cover n : (exists m, In (n, m) dispatch) \/ (exists c, In (n, c) class_map) -> exists ar, arity n = Some ar.
Proof.
  intro H. pose proof all_ok_true as K. unfold all_ok in K. apply andb_prop in K. destruct K as [_ K].
  unfold cover in K. apply andb_prop in K. destruct K as [K1 K2]. rewrite forallb_forall in K1, K2.
  destruct H as [[m H]|[c H]]; [specialize (K1 _ H); cbn [fst] in K1| specialize (K2 _ H); cbn [fst] in K2];
    destruct (arity n) as [ar|]; try discriminate; exists ar; reflexivity.
Qed.

(* every name the commutation rule knows has an arity (so none of them is silently treated as the identity) *)
Lemma rule_names_covered n : In n rule_names -> exists ar, arity n = Some ar.
Proof.
  assert (K : forallb (fun n => match arity n with Some _ => true | None => false end) rule_names = true)
    by (vm_compute; reflexivity).
  rewrite forallb_forall in K. intro H. specialize (K n H). destruct (arity n) as [ar|]; [exists ar; reflexivity| discriminate].
Qed.

Ltac dlen := repeat match goal with
  | H : length ?l = 0 |- _ => is_var l; destruct l; [clear H | discriminate H]
  | H : length ?l = S _ |- _ => is_var l; destruct l; [discriminate H | cbn [length] in H; apply eq_add_S in H]
  end.
Ltac ndinv := cbn [List.app] in *; repeat match goal with
  | H : NoDup (_ :: _) |- _ => apply NoDup_cons_iff in H; destruct H
  | H : NoDup [] |- _ => clear H
  | H : Forall _ (_ :: _) |- _ => apply Forall_cons_iff in H; destruct H
  | H : Forall _ [] |- _ => clear H
  end; cbn [In] in *.
Ltac nd := repeat (apply NoDup_cons; [cbn [In]; intuition congruence|]); apply NoDup_nil.

Section Real.
Variable R : PhaseRing.
Variable env : list Q -> atoms R.       (* parameter values of a gate, keyed by its (reduced) argument list *)

Definition act_real (g : instr) (st : state R) : state R :=
  match wf_instr g with
  | Some m => Base.app (gmat R (env (ikey g)) m) (iqubits g) st
  | None => st            (* ill-formed instructions have no unitary: identity *)
  end.

Definition commutes (A B : atoms R) (ma mb : mexp) (qa qb : list nat) : Prop :=
  forall s : state R, Base.app (gmat R A ma) qa (Base.app (gmat R B mb) qb s)
                    = Base.app (gmat R B mb) qb (Base.app (gmat R A ma) qa s).

Ltac fin H ts := let s := fresh "s" in
  intro s; refine (comm_check_sound _ _ _ _ _ H R _ _ ts _ eq_refl s); nd.

(* ---- H1 ---- *)
Theorem real_H1 a b : disjoint_qubits a b -> forall s, act_real a (act_real b s) = act_real b (act_real a s).
Proof.
  intros D s. unfold act_real.
  destruct (wf_instr a) as [ma|]; [|reflexivity]. destruct (wf_instr b) as [mb|]; [|reflexivity].
  apply (app_comm_disjoint R (PR_ring R)). intros i Ha Hb. apply (D i); unfold uses, iqubits in *.
  - apply in_app_or in Ha. apply in_or_app. tauto.
  - apply in_app_or in Hb. apply in_or_app. tauto.
Qed.

(* ---- case B ---- *)
Lemma caseB m nc nt : shape_ok nc nt = true -> chkB nc nt m = true ->
  forall A B ca cb t, length ca = nc -> length cb = nc -> length t = nt -> NoDup (ca ++ t) -> NoDup (cb ++ t) ->
  commutes A B m m (ca ++ t) (cb ++ t).
Proof.
  intros Hs Hc A B ca cb t La Lb Lt Na Nb.
  destruct nc as [|[|[|nc]]]; destruct nt as [|[|[|nt]]]; try discriminate Hs; cbn [chkB] in Hc;
    destruct ca as [|c1 [|c2 [|c3 ca]]]; try discriminate La;
    destruct cb as [|d1 [|d2 [|d3 cb]]]; try discriminate Lb;
    destruct t as [|t1 [|t2 [|t3 t]]]; try discriminate Lt; ndinv.
  - (* no qubit: two scalars *) fin Hc (@nil nat).
  - (* 0 controls, 1 target *) fin Hc [t1].
  - (* 0 controls, 2 targets *) fin Hc [t1; t2].
  - (* 1 control, 1 target *)
    apply andb_prop in Hc. destruct Hc as [Q1 Q2].
    destruct (Nat.eq_dec c1 d1) as [->|N]; [fin Q1 [d1; t1] | fin Q2 [c1; d1; t1]].
  - (* 1 control, 2 targets *)
    apply andb_prop in Hc. destruct Hc as [Q1 Q2].
    destruct (Nat.eq_dec c1 d1) as [->|N]; [fin Q1 [d1; t1; t2] | fin Q2 [c1; d1; t1; t2]].
  - (* 2 controls, 1 target *)
    apply andb_prop in Hc. destruct Hc as [_ Hc]. unfold chkB2 in Hc.
    apply andb_prop in Hc; destruct Hc as [Hc K7]. apply andb_prop in Hc; destruct Hc as [Hc K6].
    apply andb_prop in Hc; destruct Hc as [Hc K5]. apply andb_prop in Hc; destruct Hc as [Hc K4].
    apply andb_prop in Hc; destruct Hc as [Hc K3]. apply andb_prop in Hc; destruct Hc as [K1 K2].
    destruct (Nat.eq_dec d1 c1) as [E11|E11]; destruct (Nat.eq_dec d1 c2) as [E12|E12];
    destruct (Nat.eq_dec d2 c1) as [E21|E21]; destruct (Nat.eq_dec d2 c2) as [E22|E22];
      try (exfalso; intuition congruence); subst.
    + fin K1 [c1; c2; t1].
    + fin K3 [c1; c2; t1; d2].
    + fin K2 [c1; c2; t1].
    + fin K4 [c1; c2; t1; d2].
    + fin K5 [c1; c2; t1; d1].
    + fin K6 [c1; c2; t1; d1].
    + fin K7 [c1; c2; t1; d1; d2].
Qed.

(* ---- case C ---- *)
Lemma caseC m nc nt : shape_ok nc nt = true -> nc <> 0 -> chkC nc nt m = true ->
  forall A B c ta tb, length c = nc -> length ta = nt -> length tb = nt -> NoDup (c ++ ta) -> NoDup (c ++ tb) ->
  Forall (fun x => ~ In x tb) ta -> commutes A B m m (c ++ ta) (c ++ tb).
Proof.
  intros Hs Hnc Hc A B c ta tb Lc La Lb Na Nb D.
  destruct nc as [|[|[|nc]]]; destruct nt as [|[|[|nt]]]; try discriminate Hs; try (exfalso; apply Hnc; reflexivity);
    cbn [chkC] in Hc;
    destruct c as [|c1 [|c2 [|c3 c]]]; try discriminate Lc;
    destruct ta as [|t1 [|t2 [|t3 ta]]]; try discriminate La;
    destruct tb as [|u1 [|u2 [|u3 tb]]]; try discriminate Lb; ndinv.
  - fin Hc [c1; t1; u1].
  - fin Hc [c1; t1; t2; u1; u2].
  - fin Hc [c1; c2; t1; u1].
Qed.

(* ---- case A ---- *)
Lemma caseA_X A B mc mx nx : gate_mexp "CNOT" = Some mc -> gate_mexp nx = Some mx ->
  pair_check "CNOT" nx 2 [0;1] [1] = true ->
  forall c t, c <> t -> commutes A B mc mx [c; t] [t].
Proof.
  intros Ec Ex H c t N. unfold pair_check in H. rewrite Ec, Ex in H. fin H [c; t].
Qed.
Lemma caseA_Z A B mc mz nz : gate_mexp "CNOT" = Some mc -> gate_mexp nz = Some mz ->
  pair_check "CNOT" nz 2 [0;1] [0] = true ->
  forall c t, c <> t -> commutes A B mc mz [c; t] [c].
Proof.
  intros Ec Ez H c t N. unfold pair_check in H. rewrite Ec, Ez in H. fin H [c; t].
Qed.

Lemma chkA_parts : pair_check "CNOT" "X" 2 [0;1] [1] = true /\ pair_check "CNOT" "RX" 2 [0;1] [1] = true /\
  pair_check "CNOT" "Z" 2 [0;1] [0] = true /\ pair_check "CNOT" "RZ" 2 [0;1] [0] = true.
Proof.
  pose proof all_ok_true as K. unfold all_ok in K. apply andb_prop in K. destruct K as [K _].
  apply andb_prop in K. destruct K as [_ K]. unfold chkA in K.
  apply andb_prop in K; destruct K as [K K4]. apply andb_prop in K; destruct K as [K K3].
  apply andb_prop in K; destruct K as [K1 K2]. auto.
Qed.

Lemma name_facts n nc nt np : arity n = Some (nc, nt, np) ->
  exists m, gate_mexp n = Some m /\ shape_ok nc nt = true /\
            (if np <=? 1 then chkB nc nt m = true else nc = 0) /\ chkC nc nt m = true.
Proof.
  intro Ha. apply assoc_In in Ha.
  pose proof all_ok_true as K. unfold all_ok in K. apply andb_prop in K. destruct K as [K _].
  apply andb_prop in K. destruct K as [K _]. rewrite forallb_forall in K. specialize (K _ Ha).
  unfold name_ok in K. destruct (gate_mexp n) as [m|]; [|discriminate]. exists m.
  apply andb_prop in K; destruct K as [K K3]. apply andb_prop in K; destruct K as [K1 K2].
  repeat split; auto. destruct (np <=? 1); [exact K2| apply Nat.eqb_eq; exact K2].
Qed.

(* the rule for different names, on the pair sorted by name *)
Definition diff_core (x y : instr) : bool :=
  if String.eqb (iname x) "CNOT" && name_in (iname y) ["X"; "RX"]
  then Sched.list_eqb (itargets x) (itargets y)
  else if String.eqb (iname x) "CNOT" && name_in (iname y) ["Z"; "RZ"]
       then Sched.list_eqb (icontrols x) (itargets y)
       else false.

Lemma name_in2 n a b : name_in n [a; b] = true -> n = a \/ n = b.
Proof.
  unfold name_in. cbn [existsb]. intro H. apply orb_prop in H. destruct H as [H|H].
  - left. apply String.eqb_eq. exact H.
  - apply orb_prop in H. destruct H as [H|H]; [|discriminate]. right. apply String.eqb_eq. exact H.
Qed.

Lemma diff_comm x y mx my A B : wf_instr x = Some mx -> wf_instr y = Some my -> diff_core x y = true ->
  commutes A B mx my (iqubits x) (iqubits y).
Proof.
  intros Wx Wy H.
  destruct (wf_spec x mx Wx) as (ncx & ntx & npx & Ax & Dx & Lcx & Ltx & Nx & _).
  destruct (wf_spec y my Wy) as (ncy & nty & npy & Ay & Dy & Lcy & Lty & Ny & _).
  destruct chkA_parts as (KX & KRX & KZ & KRZ).
  unfold diff_core in H.
  destruct (String.eqb (iname x) "CNOT") eqn:Ec; [|discriminate H]. apply String.eqb_eq in Ec.
  rewrite Ec in Ax, Dx. vm_compute in Ax. injection Ax as <- <- <-.
  unfold iqubits in *.
  destruct (icontrols x) as [|c [|? ?]]; try discriminate Lcx.
  destruct (itargets x) as [|t [|? ?]]; try discriminate Ltx.
  cbn [andb] in H.
  destruct (name_in (iname y) ["X"; "RX"]) eqn:E1.
  - apply list_eqb_eq in H. apply name_in2 in E1.
    assert (Ay' : arity (iname y) = Some (0, 1, npy) /\ (iname y = "X" \/ iname y = "RX")).
    { split; [|exact E1]. destruct E1 as [E|E]; rewrite E in Ay |- *; vm_compute in Ay; injection Ay as <- <- <-; reflexivity. }
    destruct Ay' as [Ay' _]. rewrite Ay' in Ay. injection Ay as <- <-.
    destruct (icontrols y) as [|? ?]; try discriminate Lcy. rewrite <- H. cbn [List.app] in *. ndinv.
    destruct E1 as [E|E]; rewrite E in Dy.
    + apply (caseA_X A B mx my "X" Dx Dy KX). intuition congruence.
    + apply (caseA_X A B mx my "RX" Dx Dy KRX). intuition congruence.
  - destruct (name_in (iname y) ["Z"; "RZ"]) eqn:E2; [|discriminate H].
    apply list_eqb_eq in H. apply name_in2 in E2.
    assert (Ay' : arity (iname y) = Some (0, 1, npy)).
    { destruct E2 as [E|E]; rewrite E in Ay |- *; vm_compute in Ay; injection Ay as <- <- <-; reflexivity. }
    rewrite Ay' in Ay. injection Ay as <- <-.
    destruct (icontrols y) as [|? ?]; try discriminate Lcy. rewrite <- H. cbn [List.app] in *. ndinv.
    destruct E2 as [E|E]; rewrite E in Dy.
    + apply (caseA_Z A B mx my "Z" Dx Dy KZ). intuition congruence.
    + apply (caseA_Z A B mx my "RZ" Dx Dy KRZ). intuition congruence.
Qed.

Lemma commutes_sym A B ma mb qa qb : commutes A B ma mb qa qb -> commutes B A mb ma qb qa.
Proof. intros H s. symmetry. apply H. Qed.

(* ---- H2 ---- *)
Theorem real_H2 a b : commutation_rules a b = true ->
  forall s, act_real a (act_real b s) = act_real b (act_real a s).
Proof.
  intros Hr s. unfold act_real.
  destruct (wf_instr a) as [ma|] eqn:Wa; [|reflexivity].
  destruct (wf_instr b) as [mb|] eqn:Wb; [|reflexivity].
  revert s. change (commutes (env (ikey a)) (env (ikey b)) ma mb (iqubits a) (iqubits b)).
  unfold commutation_rules in Hr.
  destruct (String.eqb (iname a) (iname b)) eqn:En; cbn [negb] in Hr.
  - (* same name *)
    apply String.eqb_eq in En.
    destruct (wf_spec a ma Wa) as (nc & nt & np & Aa & Da & Lca & Lta & Na & Pa).
    destruct (wf_spec b mb Wb) as (nc' & nt' & np' & Ab & Db & Lcb & Ltb & Nb & Pb).
    rewrite <- En in Ab, Db. rewrite Aa in Ab. injection Ab as <- <- <-. rewrite Da in Db. injection Db as <-.
    destruct (name_facts _ _ _ _ Aa) as (m & Dm & Hs & HB & HC). rewrite Da in Dm. injection Dm as <-.
    unfold iqubits in *.
    destruct (name_in (iname a) rule_names); cbn [negb] in Hr.
    2:{ (* a user-defined name: identical operators *)
      apply andb_prop in Hr. destruct Hr as [Hr Hg]. apply andb_prop in Hr. destruct Hr as [Hc Ht].
      apply list_eqb_eq in Hc, Ht. apply args_eqb_key in Hg. unfold ikey. rewrite Hc, Ht, Hg. intro s. reflexivity. }
    destruct (Sched.list_eqb (itargets a) (itargets b)) eqn:Et.
    + apply list_eqb_eq in Et. rewrite <- Et in *.
      destruct (np <=? 1) eqn:Enp.
      * apply (caseB ma nc nt Hs HB); auto.
      * (* >= 2 parameters: equal argument lists, no controls: the same gate twice *)
        rewrite HB in Lca, Lcb. unfold params_ok in Pa, Pb. rewrite Enp in Pa, Pb. cbn [orb] in Pa, Pb.
        apply Nat.eqb_eq in Pa, Pb. apply Nat.leb_gt in Enp.
        unfold same_action in Hr.
        replace (length (iargs a) <=? 1) with false in Hr by (symmetry; apply Nat.leb_gt; lia).
        cbn [andb orb] in Hr. apply args_eqb_key in Hr. unfold ikey. rewrite Hr.
        destruct (icontrols a) as [|? ?]; try discriminate Lca.
        destruct (icontrols b) as [|? ?]; try discriminate Lcb.
        intro s. reflexivity.
    + destruct (icontrols a) as [|c0 ca] eqn:Eca; [discriminate Hr|]. cbn [andb] in Hr.
      destruct (Sched.list_eqb (c0 :: ca) (icontrols b)) eqn:Ecb; [|discriminate Hr].
      apply list_eqb_eq in Ecb. rewrite <- Ecb in *. apply disjointb_Forall in Hr.
      apply (caseC ma nc nt Hs); auto. rewrite <- Lca. discriminate.
  - (* different names *)
    unfold rules_diff_name in Hr.
    destruct (String.ltb (iname b) (iname a)).
    + apply commutes_sym. apply diff_comm; assumption.
    + apply diff_comm; assumption.
Qed.
(* ---- Instruction's sorted qubit lists ---- *)
Lemma nodupb_perm l l' : Permutation.Permutation l l' -> nodupb l = nodupb l'.
Proof.
  intro P. destruct (nodupb l) eqn:E1; destruct (nodupb l') eqn:E2; try reflexivity.
  - apply nodupb_NoDup in E1. apply (Permutation.Permutation_NoDup P) in E1. apply NoDup_nodupb in E1. congruence.
  - apply nodupb_NoDup in E2. apply (Permutation.Permutation_NoDup (Permutation.Permutation_sym P)) in E2.
    apply NoDup_nodupb in E2. congruence.
Qed.

Lemma sym_facts n nc nt np m : arity n = Some (nc, nt, np) -> gate_mexp n = Some m ->
  (nt = 2 -> n <> "RZX" -> scirc_eqb (nc + 2) [(m, seq 0 nc ++ [nc; nc + 1])] [(m, seq 0 nc ++ [nc + 1; nc])] = true) /\
  (nc = 2 -> scirc_eqb (2 + nt) [(m, 0 :: 1 :: seq 2 nt)] [(m, 1 :: 0 :: seq 2 nt)] = true).
Proof.
  intros Ha D. apply assoc_In in Ha. pose proof sorted_faithful as K. unfold sym_all in K.
  rewrite forallb_forall in K. specialize (K _ Ha). unfold sym_ok in K. rewrite D in K.
  apply andb_prop in K. destruct K as [K1 K2]. split; [intros -> N| intros ->; exact K2].
  apply String.eqb_neq in N. rewrite N in K1. exact K1.
Qed.

Theorem act_real_target_order n c t1 t2 args d st : n <> "RZX" ->
  act_real (mkInstr n [t1; t2] c args d) st = act_real (mkInstr n [t2; t1] c args d) st.
Proof.
  intro NZ. unfold act_real, wf_instr, iqubits, ikey. cbn [iname icontrols itargets iargs].
  destruct (arity n) as [[[nc nt] np]|] eqn:Ar; [|reflexivity].
  destruct (gate_mexp n) as [m|] eqn:D; [|reflexivity].
  rewrite (nodupb_perm (c ++ [t2; t1]) (c ++ [t1; t2]))
    by (apply Permutation.Permutation_app_head; apply Permutation.perm_swap).
  destruct (_ && _) eqn:E; [|reflexivity].
  apply andb_prop in E. destruct E as [E _]. apply andb_prop in E. destruct E as [E E3].
  apply andb_prop in E. destruct E as [E1 E2]. apply Nat.eqb_eq in E1, E2. cbn [length] in E2. subst nt.
  apply nodupb_NoDup in E3.
  destruct (name_facts _ _ _ _ Ar) as (m' & _ & Hs & _). destruct (sym_facts _ _ _ _ _ Ar D) as [K _].
  specialize (K eq_refl NZ).
  destruct nc as [|[|[|nc]]]; try discriminate Hs; destruct c as [|c1 [|c2 c]]; try discriminate E1; ndinv.
  - assert (ND : NoDup [t1; t2]) by nd.
    pose proof (rule_sound R (env (map Qred args)) _ _ _ [t1; t2] K ND eq_refl) as Q.
    apply (f_equal (fun f => f st)) in Q. exact Q.
  - assert (ND : NoDup [c1; t1; t2]) by nd.
    pose proof (rule_sound R (env (map Qred args)) _ _ _ [c1; t1; t2] K ND eq_refl) as Q.
    apply (f_equal (fun f => f st)) in Q. exact Q.
Qed.

Theorem act_real_control_order n t c1 c2 args d st :
  act_real (mkInstr n t [c1; c2] args d) st = act_real (mkInstr n t [c2; c1] args d) st.
Proof.
  unfold act_real, wf_instr, iqubits, ikey. cbn [iname icontrols itargets iargs].
  destruct (arity n) as [[[nc nt] np]|] eqn:Ar; [|reflexivity].
  destruct (gate_mexp n) as [m|] eqn:D; [|reflexivity].
  rewrite (nodupb_perm ([c2; c1] ++ t) ([c1; c2] ++ t))
    by (apply Permutation.Permutation_app_tail; apply Permutation.perm_swap).
  destruct (_ && _) eqn:E; [|reflexivity].
  apply andb_prop in E. destruct E as [E _]. apply andb_prop in E. destruct E as [E E3].
  apply andb_prop in E. destruct E as [E1 E2]. apply Nat.eqb_eq in E1, E2. cbn [length] in E1. subst nc.
  apply nodupb_NoDup in E3.
  destruct (name_facts _ _ _ _ Ar) as (m' & _ & Hs & _). destruct (sym_facts _ _ _ _ _ Ar D) as [_ K].
  specialize (K eq_refl).
  destruct nt as [|[|[|nt]]]; try discriminate Hs; destruct t as [|t1 [|t2 t]]; try discriminate E2; ndinv.
  assert (ND : NoDup [c1; c2; t1]) by nd.
  pose proof (rule_sound R (env (map Qred args)) _ _ _ [c1; c2; t1] K ND eq_refl) as Q.
  apply (f_equal (fun f => f st)) in Q. exact Q.
Qed.
End Real.
