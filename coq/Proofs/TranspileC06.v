(* C13 -> C06: the transpiled circuit of a spin-chain processor is a well-formed circuit in the sense of the C06 development
   (Proofs/SpinChainSem.v `wf_circuit`, the hypothesis c13_transpile_native of Props/C06.v spinchain_reproduces_circuit):
   every pulse-compiled gate (ISWAP, RX, RZ, SQRTISWAP) has pairwise different targets inside the chain and the number of
   targets of its Hamiltonian.  The C06 gate record [ngate] carries name, targets and a numeric argument; the statement is
   for ANY ngate list with the names and targets of the transpiled circuit. *)
From Coq Require Import List String Bool Arith Lia.
From QV Require Import Model.ResolveTypes Gen.Decompose Model.Resolve Proofs.ResolveSem.
From QV Require Import Model.TranspileTypes Gen.Devices Model.Transpile Proofs.TranspileShape Proofs.TranspileRoute Proofs.TranspileMain.
From QV Require Model.SpinChainTypes Gen.SpinChain Model.SpinChain Proofs.SpinChainCal Spec.SpinChainSpec Proofs.SpinChainSem.
From QV Require Model.Route.
Import ListNotations.
Local Open Scope string_scope.
Local Open Scope nat_scope.

(* the gate kinds the spin-chain compiler drives by a pulse, their number of qubits, and their shape class in C13 *)
Definition pulse_table_ok : bool :=
  forallb (fun n => match SpinChainCal.gate_cal n with
                    | Some (k, _, _) =>
                        if Route.is_swapk n then (SpinChainSpec.hqubits k =? 2) && negb (Route.is_ctrl n)
                        else rot1 n && negb (Route.is_ctrl n) && (SpinChainSpec.hqubits k =? 1)
                    | None => false
                    end) SpinChainCal.pulse_gates.
Lemma pulse_table_ok_true : pulse_table_ok = true. Proof. vm_compute. reflexivity. Qed.

Definition same_gate (o : mgate) (g : SpinChain.ngate) : Prop :=
  SpinChain.g_name g = gname o /\ SpinChain.g_targets g = gtargets o.

Lemma NoDup_app_r {A} (a b : list A) : NoDup (a ++ b) -> NoDup b.
Proof. induction a as [|x a IH]; [auto|]. cbn. intros H. inversion H; subst. auto. Qed.

Lemma out_ok_wf_pulse d N M (cc : SpinChain.cfg) o g : SpinChain.c_n cc = N -> M <= N -> out_ok d N M o -> same_gate o g ->
  SpinChainSem.is_pulse_gate g = true -> SpinChainSem.wf_pulse_gate cc g.
Proof.
  intros HN HM [_ [_ [Hr [Hnd Hk]]]] [En Et] Hp.
  pose proof (SpinChainSem.is_pulse_gate_in g Hp) as Hin.
  pose proof pulse_table_ok_true as T. unfold pulse_table_ok in T. rewrite forallb_forall in T. specialize (T _ Hin).
  unfold SpinChainSem.wf_pulse_gate. rewrite Et, HN. split; [exact Hin|].
  apply in_range_iff in Hr. unfold qubits in *.
  split; [exact (NoDup_app_r _ _ Hnd)|]. split.
  - rewrite Forall_forall in *. intros t Ht. apply Nat.lt_le_trans with M; [|exact HM]. apply Hr. apply in_or_app. right. exact Ht.
  - rewrite En in T |- *. destruct (SpinChainCal.gate_cal (gname o)) as [[[k s] a]|]; [|discriminate].
    unfold kindshape in Hk. destruct (Route.is_swapk (gname o)) eqn:Es.
    + apply andb_prop in T. destruct T as [T1 T2]. apply negb_true_iff in T2. rewrite T2 in Hk.
      apply andb_prop in Hk. destruct Hk as [Hk _]. apply andb_prop in Hk. destruct Hk as [_ H2].
      apply Nat.eqb_eq in H2. apply Nat.eqb_eq in T1. congruence.
    + apply andb_prop in T. destruct T as [T T3]. apply andb_prop in T. destruct T as [T1 T2]. apply negb_true_iff in T2.
      rewrite T2, T1 in Hk. apply andb_prop in Hk. destruct Hk as [_ H2]. apply Nat.eqb_eq in H2. apply Nat.eqb_eq in T3. congruence.
Qed.

Theorem transpile_wf_circuit_on_proof d N M c out (cc : SpinChain.cfg) (gs : list SpinChain.ngate) :
  In d devices -> Forall wf_gate c -> Forall (fun g => in_range M g = true) c -> transpile_on d N M c = Ok out ->
  SpinChain.c_n cc = N -> Forall2 same_gate out gs -> SpinChainSem.wf_circuit cc gs.
Proof.
  intros Hd Hw Hr H HN H2.
  assert (HPc : Forall (fun g => (fun _ : string => True) (gname g)) c) by (apply Forall_forall; intros; exact I).
  destruct (transpile_structure (fun _ => True) d N M c out Hd I Hw HPc Hr H) as [HM Ho].
  clear H. unfold SpinChainSem.wf_circuit. induction H2 as [|o g out gs Hs _ IH]; [constructor|].
  inversion Ho as [|? ? Ho1 Ho2]; subst. constructor; [|exact (IH Ho2)].
  destruct (SpinChainSem.is_pulse_gate g) eqn:Ep; [|exact I].
  exact (out_ok_wf_pulse d _ M cc o g eq_refl HM Ho1 Hs Ep).
Qed.

(* the circuit as wide as the chain (the form used by Proofs/SpinChainC13.v) *)
Theorem transpile_wf_circuit_proof d N c out (cc : SpinChain.cfg) (gs : list SpinChain.ngate) :
  In d devices -> Forall wf_gate c -> Forall (fun g => in_range N g = true) c -> transpile d N c = Ok out ->
  SpinChain.c_n cc = N -> Forall2 same_gate out gs -> SpinChainSem.wf_circuit cc gs.
Proof. unfold transpile. apply transpile_wf_circuit_on_proof. Qed.
