(* Executable checkers for a timetable / a cycle list, proved sound w.r.t. the predicates of Props/C11.v and
   Props/C05.v.  The harness evaluates them inside Coq on the REAL scheduler's output for inputs that cannot be tied
   exactly to the model (more than 8 instructions: CPython's set iteration order is then not ascending). *)
From Coq Require Import String Ascii.
From Coq Require Import List Arith Bool QArith PeanoNat Lia Lqa Permutation.
From QV Require Import Model.Sched Proofs.SchedBase Proofs.SchedList Proofs.SchedGraph Proofs.SchedDist
  Proofs.SchedC11 Proofs.SchedC11Inst Proofs.SchedC05.
Import ListNotations.
Open Scope nat_scope.

Definition fin (instrs : list instr) (st : list Q) (i : nat) : Q := (stt st i + idur (ith instrs i))%Q.

Definition valid_timetable (commI : instr -> instr -> bool) (perm : bool) (instrs : list instr) (st : list Q) : bool :=
  let n := length instrs in
  Nat.eqb (length st) n &&
  forallb (fun i => Qle_bool 0 (stt st i)) (seq 0 n) &&
  existsb (fun i => Qeq_bool (stt st i) 0) (seq 0 n) &&
  forallb (fun i => Qle_bool (fin instrs st i) (sum_durations instrs)) (seq 0 n) &&
  forallb (fun j => forallb (fun i =>
      if shares (usedI instrs) i j then
        (Qle_bool (fin instrs st i) (stt st j) || Qle_bool (fin instrs st j) (stt st i)) &&
        (commN commI perm instrs j i || Qle_bool (fin instrs st i) (stt st j))
      else true) (seq 0 j)) (seq 0 n).

Definition valid_cycles (commI : instr -> instr -> bool) (perm : bool) (instrs : list instr) (cycles : list (list nat)) : bool :=
  let n := length instrs in
  perm_check (concat cycles) (seq 0 n) &&
  forallb (fun c => forallb (fun a => forallb (fun b => Nat.eqb a b || negb (shares (usedI instrs) a b)) c) c) cycles &&
  forallb (fun j => forallb (fun i =>
      if shares (usedI instrs) i j && negb (commN commI perm instrs j i)
      then Nat.ltb (cidx cycles i) (cidx cycles j) else true) (seq 0 j)) (seq 0 n).

Lemma forallb_seq : forall f n, forallb f (seq 0 n) = true -> forall i, i < n -> f i = true.
Proof. intros f n H i Hi. rewrite forallb_forall in H. apply H. apply in_seq. lia. Qed.

Theorem valid_timetable_sound : forall commI perm instrs st, valid_timetable commI perm instrs st = true ->
  length st = length instrs /\
  (forall i, i < length instrs -> (0 <= stt st i)%Q) /\
  (exists i, i < length instrs /\ (stt st i == 0)%Q) /\
  (forall i, i < length instrs -> (stt st i + idur (ith instrs i) <= sum_durations instrs)%Q) /\
  (forall i j, i < j -> j < length instrs -> (exists q, uses (ith instrs i) q /\ uses (ith instrs j) q) ->
      ((stt st i + idur (ith instrs i) <= stt st j)%Q \/ (stt st j + idur (ith instrs j) <= stt st i)%Q) /\
      (commN commI perm instrs j i = false -> (stt st i + idur (ith instrs i) <= stt st j)%Q)).
Proof.
  intros commI perm instrs st H. unfold valid_timetable in H.
  repeat (apply andb_true_iff in H; destruct H as [H ?]).
  rename H into H1, H0 into H5, H1 into H4, H2 into H3, H3 into H2.
  split; [apply Nat.eqb_eq; exact H1|]. split; [|split; [|split]].
  - intros i Hi. apply Qle_bool_iff. apply (forallb_seq _ _ H2 i Hi).
  - apply existsb_exists in H3. destruct H3 as (i & Hi & He). apply in_seq in Hi. exists i. split; [lia|].
    apply Qeq_bool_iff. exact He.
  - intros i Hi. apply Qle_bool_iff. apply (forallb_seq _ _ H4 i Hi).
  - intros i j Hij Hj Hs. pose proof (forallb_seq _ _ H5 j Hj) as Hrow. cbv beta in Hrow.
    pose proof (forallb_seq _ _ Hrow i Hij) as Hc. cbv beta in Hc.
    rewrite (inst_shares instrs i j Hs) in Hc. apply andb_true_iff in Hc. destruct Hc as [Ha Hb]. unfold fin in *. split.
    + apply orb_true_iff in Ha. destruct Ha as [Ha|Ha]; apply Qle_bool_iff in Ha; tauto.
    + intros Hcm. rewrite Hcm in Hb. simpl in Hb. apply Qle_bool_iff. exact Hb.
Qed.

Section Sem.
  Variable commI : instr -> instr -> bool.
  Variable perm : bool.
  Variable instrs : list instr.
  Variable cycles : list (list nat).
  Hypothesis Hp : Permutation (concat cycles) (seq 0 (length instrs)).
  Hypothesis Hord : forall i j, i < j -> j < length instrs -> shares (usedI instrs) i j = true ->
      commN commI perm instrs j i = false -> cidx cycles i < cidx cycles j.
  Variable St : Type.
  Variable act : instr -> St -> St.
  Hypothesis H1 : forall a b, disjoint_qubits a b -> forall s, act a (act b s) = act b (act a s).
  Hypothesis H2 : forall a b, commI a b = true -> forall s, act a (act b s) = act b (act a s).

  Lemma cycles_sem_generic : forall s,
    fold_left (fun s i => act (ith instrs i) s) (concat cycles) s = fold_left (fun s g => act g s) instrs s.
  Proof.
    intros s. set (f := fun i => act (ith instrs i)).
    change (run St f (concat cycles) s = fold_left (fun s g => act g s) instrs s).
    rewrite <- (run_isort St f (concat cycles) s).
    - rewrite (isort_seq _ _ Hp). unfold run, f, ith.
      apply (fold_seq_nth instr St act dummy_instr instrs [] s).
    - intros l1 x l2 He y Hy Hlt. unfold commutes, f.
      assert (Hnd : NoDup (concat cycles)) by (eapply Permutation_NoDup; [apply Permutation_sym; exact Hp | apply seq_NoDup]).
      assert (Hin : forall z, In z (concat cycles) <-> z < length instrs).
      { intros z. split; intros Hz.
        - apply (Permutation_in _ Hp) in Hz. apply in_seq in Hz. lia.
        - apply (Permutation_in _ (Permutation_sym Hp)). apply in_seq. lia. }
      assert (Hx : x < length instrs) by (apply Hin; rewrite He; apply in_app_iff; right; left; reflexivity).
      destruct (shares (usedI instrs) y x) eqn:Hs.
      + destruct (commN commI perm instrs x y) eqn:Hc.
        * unfold commN in Hc. destruct perm; [|discriminate]. apply H2. exact Hc.
        * exfalso. pose proof (Hord y x Hlt Hx Hs Hc) as Hlt'.
          assert (Hb : beforeC cycles y x).
          { unfold beforeC. repeat split; [apply Hin; lia | apply Hin; exact Hx | exact Hlt']. }
          pose proof (beforeC_prefix cycles y x l1 l2 Hb He) as Hyl1.
          rewrite He in Hnd. apply (NoDup_app_disj _ _ y Hnd Hyl1). right. exact Hy.
      + intros s0. apply H1. apply shares_false_disjoint. rewrite shares_sym. exact Hs.
  Qed.
End Sem.

Theorem valid_cycles_sound : forall commI perm instrs cycles, valid_cycles commI perm instrs cycles = true ->
  Permutation (concat cycles) (seq 0 (length instrs)) /\
  (forall c, In c cycles -> forall a b, In a c -> In b c -> a <> b -> disjoint_qubits (ith instrs a) (ith instrs b)) /\
  (forall i j, i < j -> j < length instrs -> (exists q, uses (ith instrs i) q /\ uses (ith instrs j) q) ->
      commN commI perm instrs j i = false -> cidx cycles i < cidx cycles j) /\
  (forall (St : Type) (act : instr -> St -> St),
      (forall a b, disjoint_qubits a b -> forall s, act a (act b s) = act b (act a s)) ->
      (forall a b, commI a b = true -> forall s, act a (act b s) = act b (act a s)) ->
      forall s, fold_left (fun s i => act (ith instrs i) s) (concat cycles) s = fold_left (fun s g => act g s) instrs s).
Proof.
  intros commI perm instrs cycles H. unfold valid_cycles in H.
  apply andb_true_iff in H. destruct H as [H H3]. apply andb_true_iff in H. destruct H as [H1 H2].
  assert (Hp : Permutation (concat cycles) (seq 0 (length instrs))) by (apply perm_check_sound; exact H1).
  assert (Hord : forall i j, i < j -> j < length instrs -> shares (usedI instrs) i j = true ->
      commN commI perm instrs j i = false -> cidx cycles i < cidx cycles j).
  { intros i j Hij Hj Hs Hc. pose proof (forallb_seq _ _ H3 j Hj) as Hrow. cbv beta in Hrow.
    pose proof (forallb_seq _ _ Hrow i Hij) as Hx. cbv beta in Hx. rewrite Hs, Hc in Hx. simpl in Hx.
    apply Nat.ltb_lt. exact Hx. }
  split; [exact Hp|]. split; [|split].
  - intros c Hc a b Ha Hb Hne. rewrite forallb_forall in H2. specialize (H2 c Hc).
    rewrite forallb_forall in H2. specialize (H2 a Ha). rewrite forallb_forall in H2. specialize (H2 b Hb).
    apply orb_true_iff in H2. destruct H2 as [He|Hn]; [apply Nat.eqb_eq in He; congruence|].
    apply shares_false_disjoint. apply negb_true_iff. exact Hn.
  - intros i j Hij Hj Hs Hc. apply (Hord i j Hij Hj (inst_shares instrs i j Hs) Hc).
  - intros St act Hd Hc s. apply (cycles_sem_generic commI perm instrs cycles Hp Hord St act Hd Hc s).
Qed.
