(* C02 -- the laws assumed of the abstract state space [Sys] (Model/Sim.v), and their first consequences. *)
From Coq Require Import List Arith NArith Bool Field Ring.
From QV Require Import Model.Sim Spec.Branch.
Import ListNotations.

Definition fpos (X : Sys) (p : F X) : Prop := fle X (f0 X) p /\ p <> f0 X.

Record SysLaws (X : Sys) : Prop := mkLaws {
  (* probabilities live in an ordered field *)
  L_field : field_theory (f0 X) (f1 X) (fadd X) (fmul X) (fsub X) (fopp X) (fdiv X) (finv X) eq;
  L_feqb : forall a b, feqb X a b = true <-> a = b;
  L_le_add : forall a b, fle X (f0 X) a -> fle X (f0 X) b -> fle X (f0 X) (fadd X a b);
  L_le_add0 : forall a b, fle X (f0 X) a -> fle X (f0 X) b -> fadd X a b = f0 X -> a = f0 X /\ b = f0 X;
  L_le_00 : fle X (f0 X) (f0 X);
  (* an outcome that survives the tolerance tests has non-zero probability *)
  L_keep : forall p, keepb X p = true -> p <> f0 X;
  (* kets *)
  L_nrm_pos : forall s, fle X (f0 X) (nrm X s);
  L_complete : forall q s, fadd X (nrm X (proj X q false s)) (nrm X (proj X q true s)) = nrm X s;
  L_unitary : forall g s, nrm X (gate X g s) = nrm X s;
  L_nrm_renorm : forall p s, fpos X p -> nrm X (renorm X p s) = fdiv X (nrm X s) p;
  L_gate_renorm : forall g p s, fpos X p -> gate X g (renorm X p s) = renorm X p (gate X g s);
  L_proj_renorm : forall q b p s, fpos X p -> proj X q b (renorm X p s) = renorm X p (proj X q b s);
  L_renorm_renorm : forall a b s, fpos X a -> fpos X b -> renorm X a (renorm X b s) = renorm X (fmul X a b) s;
  L_renorm_1 : forall s, renorm X (f1 X) s = s;
  (* density matrices *)
  L_dadd_comm : forall a b, dadd X a b = dadd X b a;
  L_dadd_assoc : forall a b c, dadd X a (dadd X b c) = dadd X (dadd X a b) c;
  L_dadd_0l : forall a, dadd X (dzero X) a = a;
  L_dgate_of : forall g s, dgate X g (dm_of X s) = dm_of X (gate X g s);
  L_dgate_add : forall g a b, dgate X g (dadd X a b) = dadd X (dgate X g a) (dgate X g b);
  L_dgate_0 : forall g, dgate X g (dzero X) = dzero X;
  L_dproj_of : forall q b s, dproj X q b (dm_of X s) = dm_of X (proj X q b s);
  L_dproj_add : forall q b x y, dproj X q b (dadd X x y) = dadd X (dproj X q b x) (dproj X q b y);
  L_dproj_0 : forall q b, dproj X q b (dzero X) = dzero X;
  L_dtr_of : forall s, dtr X (dm_of X s) = nrm X s;
  L_dtr_add : forall a b, dtr X (dadd X a b) = fadd X (dtr X a) (dtr X b);
  L_dtr_0 : dtr X (dzero X) = f0 X;
  L_dscale_dscale : forall a b x, dscale X a (dscale X b x) = dscale X (fmul X a b) x;
  L_dscale_1 : forall x, dscale X (f1 X) x = x;
  L_dm_of_0 : forall s, nrm X s = f0 X -> dm_of X s = dzero X
}.

Section Laws.
Variable X : Sys.
Hypothesis L : SysLaws X.

Add Field FF : (L_field X L).

Notation "0" := (f0 X).
Notation "1" := (f1 X).
Infix "+" := (fadd X).
Infix "*" := (fmul X).
Infix "/" := (fdiv X).

Lemma f1_neq_0 : 1 <> 0.
Proof. exact (F_1_neq_0 (L_field X L)). Qed.

Lemma fmul_neq_0 : forall a b, a <> 0 -> b <> 0 -> a * b <> 0.
Proof.
  intros a b Ha Hb H. apply Hb.
  assert (E : b = finv X a * (a * b)) by (field; exact Ha).
  rewrite E, H. ring.
Qed.

Lemma fdiv_neq_0 : forall a b, a <> 0 -> b <> 0 -> a / b <> 0.
Proof.
  intros a b Ha Hb H. apply Ha.
  assert (E : a = (a / b) * b) by (field; exact Hb).
  rewrite E, H. ring.
Qed.

Lemma feqb_false : forall a b, feqb X a b = false <-> a <> b.
Proof.
  intros a b. split.
  - intros H E. apply (L_feqb X L) in E. congruence.
  - intros H. destruct (feqb X a b) eqn:E; [|reflexivity]. apply (L_feqb X L) in E. contradiction.
Qed.

Lemma feqb_refl : forall a, feqb X a a = true.
Proof. intros. apply (L_feqb X L). reflexivity. Qed.

Lemma fpos_nrm : forall s, nrm X s <> 0 -> fpos X (nrm X s).
Proof. intros s H. split; [apply (L_nrm_pos X L)|exact H]. Qed.

(* a vector of norm 0 stays of norm 0 *)
Lemma proj_nrm0 : forall q b s, nrm X s = 0 -> nrm X (proj X q b s) = 0.
Proof.
  intros q b s H.
  pose proof (L_complete X L q s) as C. rewrite H in C.
  destruct (L_le_add0 X L _ _ (L_nrm_pos X L _) (L_nrm_pos X L _) C) as [A B].
  destruct b; assumption.
Qed.

Lemma ubranch_nrm0 : forall ops r s cb, nrm X s = 0 -> nrm X (fst (ubranch X ops r s cb)) = 0.
Proof.
  induction ops as [|o tl IH]; intros r s cb H; cbn [ubranch fst]; [exact H|].
  destruct o as [g [[cc v]|]|q st].
  - apply IH. destruct (cond_true cc v cb); [rewrite (L_unitary X L)|]; exact H.
  - apply IH. rewrite (L_unitary X L). exact H.
  - destruct r as [|b r']; [exact H|]. apply IH. apply proj_nrm0. exact H.
Qed.

(* pok: kept, or exactly zero *)
Lemma pok_cases : forall p, pok X p = true -> keepb X p = false -> p = 0.
Proof.
  intros p H K. unfold pok in H. rewrite K in H. cbn in H. apply (L_feqb X L). exact H.
Qed.

End Laws.
