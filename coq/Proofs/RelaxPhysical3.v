(* C15 - positive semidefiniteness of the closed-form solution of the THREE-level truncation (Proofs/RelaxSolution3.v)
   for every t >= 0 and every accepted pair (t2 <= 2 t1): if the initial Hermitian table has a non-negative quadratic
   form v^dag rho v, so has rho(t).  Structure of the proof (all identities are polynomial identities over R):
     rho(t) = M o sigma      (entrywise product),   M_ij = q^((i-j)^2),  q = e^{-(1/t2 - 1/(2 t1)) t} in (0,1]
     sigma  = K0 rho K0^dag + K1 rho K1^dag + K2 rho K2^dag      (amplitude damping of the truncated oscillator)
   - Kraus identity:  v^dag sigma v = Q(K0^dag v) + (1-e) Q(0, v0, sqrt2 s v1) + (1-e)^2 Q(0, 0, v0),  s^2 = e = e^{-t/t1};
   - Schur split:     v^dag (M o sigma) v = (c o v)^dag sigma (c o v) + [2x2 form of B o sigma'],  c = (1, q, q^4),
                      B = M - c c^T = [[1-q^2, q-q^5], [q-q^5, 1-q^8]] with det B = (1-q^2)^3 (1+q^2) >= 0;
   - 2x2 Schur product: B and sigma' positive semidefinite  =>  B o sigma' positive semidefinite.
   q <= 1 is where t2 <= 2 t1 enters. *)
From Coq Require Import Reals Lra Psatz QArith Qreals List.
From Coquelicot Require Import Coquelicot.
From QV Require Import Model.Relax Model.Lindblad Gen.Noise Proofs.Relax Proofs.Lindblad Proofs.RelaxLaw Proofs.LindbladC
                       Proofs.RelaxSolution Proofs.RelaxPhysical Proofs.RelaxSolution3.
Import ListNotations.
Local Open Scope R_scope.

(* Hermitian 3x3 table in real coordinates: diagonal a0 a1 a2, upper entries (x01,y01) (x02,y02) (x12,y12);
   vector v = ((p0,q0),(p1,q1),(p2,q2)).  QH = v^dag rho v. *)
Definition cross (x y p q p' q' : R) : R := x * (p * p' + q * q') - y * (p * q' - q * p').
Definition QH (a0 a1 a2 x01 y01 x02 y02 x12 y12 p0 q0 p1 q1 p2 q2 : R) : R :=
  a0 * (p0 * p0 + q0 * q0) + a1 * (p1 * p1 + q1 * q1) + a2 * (p2 * p2 + q2 * q2)
  + 2 * cross x01 y01 p0 q0 p1 q1 + 2 * cross x02 y02 p0 q0 p2 q2 + 2 * cross x12 y12 p1 q1 p2 q2.
Definition QH2 (a d x y p q p' q' : R) : R :=
  a * (p * p + q * q) + d * (p' * p' + q' * q') + 2 * cross x y p q p' q'.

(* 2x2: non-negative form  <->  diag >= 0 and det >= 0 *)
Lemma QH2_nonneg a d x y : 0 <= a -> 0 <= d -> 0 <= a * d - (x * x + y * y) -> forall p q p' q', 0 <= QH2 a d x y p q p' q'.
Proof.
  intros A D Dt p q p' q'. unfold QH2, cross.
  destruct (Req_dec a 0) as [Za|Za].
  - subst a. assert (x * x + y * y <= 0) by lra. assert (x = 0) by nra. assert (y = 0) by nra. subst. nra.
  - assert (Pa : 0 < a) by lra. apply Rmult_le_reg_l with a; [exact Pa|]. rewrite Rmult_0_r.
    set (X := a * p + x * p' - y * q'). set (Y := a * q + x * q' + y * p').
    assert (0 <= X * X + Y * Y + (a * d - (x * x + y * y)) * (p' * p' + q' * q')) by nra.
    unfold X, Y in *. nra.
Qed.

Lemma QH2_det a d x y : (forall p q p' q', 0 <= QH2 a d x y p q p' q') -> 0 <= a /\ 0 <= d /\ 0 <= a * d - (x * x + y * y).
Proof.
  intro H. assert (A : 0 <= a) by (specialize (H 1 0 0 0); unfold QH2, cross in H; lra).
  assert (D : 0 <= d) by (specialize (H 0 0 1 0); unfold QH2, cross in H; lra).
  split; [exact A|]. split; [exact D|].
  destruct (Req_dec a 0) as [Za|Za].
  - subst a. destruct (Rle_lt_dec (x * x + y * y) 0) as [L|L]; [lra|]. exfalso.
    (* vector (-k x, k y ; 1, 0): form = d - 2 k (x^2 + y^2) *)
    pose (k := (d + 1) / (2 * (x * x + y * y))).
    assert (Hk : k * (2 * (x * x + y * y)) = d + 1) by (unfold k; field; lra).
    specialize (H (- k * x) (- k * y) 1 0). unfold QH2, cross in H. clearbody k.
    match type of H with 0 <= ?g => replace g with (d - k * (2 * (x * x + y * y))) in H by ring end.
    rewrite Hk in H. lra.
  - assert (Pa : 0 < a) by lra.
    specialize (H (- x) (- y) a 0). unfold QH2, cross in H.
    match type of H with 0 <= ?g => replace g with (a * (a * d - (x * x + y * y))) in H by ring end.
    nra.
Qed.

(* 2x2 Schur product with a real symmetric positive semidefinite B = [[b1, b], [b, b2]] *)
Lemma schur2 b1 b2 b a d x y :
  0 <= b1 -> 0 <= b2 -> b * b <= b1 * b2 -> 0 <= a -> 0 <= d -> 0 <= a * d - (x * x + y * y) ->
  forall p q p' q', 0 <= QH2 (b1 * a) (b2 * d) (b * x) (b * y) p q p' q'.
Proof.
  intros B1 B2 Bd A D Dt. apply QH2_nonneg.
  - apply Rmult_le_pos; assumption.
  - apply Rmult_le_pos; assumption.
  - replace (b1 * a * (b2 * d) - (b * x * (b * x) + b * y * (b * y)))
      with ((b1 * b2 - b * b) * (a * d) + (b * b) * (a * d - (x * x + y * y))) by ring.
    assert (0 <= (b1 * b2 - b * b) * (a * d)) by (apply Rmult_le_pos; [lra | apply Rmult_le_pos; assumption]).
    assert (0 <= b * b * (a * d - (x * x + y * y))) by (apply Rmult_le_pos; [nra | assumption]).
    lra.
Qed.

(* the amplitude-damped table sigma (no dephasing), s*s = e, w*w = 2 *)
Section Damp.
  Variables (a0 a1 a2 x01 y01 x02 y02 x12 y12 : R) (s w : R).
  Hypothesis Hw : w * w = 2.
  Let e := s * s.
  Definition sg0 := a0 + (1 - e) * a1 + (1 - e) * (1 - e) * a2.
  Definition sg1 := e * (a1 + 2 * (1 - e) * a2).
  Definition sg2 := e * e * a2.
  Definition sx01 := s * (x01 + w * (1 - e) * x12).
  Definition sy01 := s * (y01 + w * (1 - e) * y12).
  Definition sx02 := e * x02.
  Definition sy02 := e * y02.
  Definition sx12 := s * e * x12.
  Definition sy12 := s * e * y12.

  Lemma kraus_identity p0 q0 p1 q1 p2 q2 :
    QH sg0 sg1 sg2 sx01 sy01 sx02 sy02 sx12 sy12 p0 q0 p1 q1 p2 q2
    = QH a0 a1 a2 x01 y01 x02 y02 x12 y12 p0 q0 (s * p1) (s * q1) (e * p2) (e * q2)
      + (1 - e) * QH a0 a1 a2 x01 y01 x02 y02 x12 y12 0 0 p0 q0 (w * s * p1) (w * s * q1)
      + (1 - e) * (1 - e) * QH a0 a1 a2 x01 y01 x02 y02 x12 y12 0 0 0 0 p0 q0.
  Proof.
    unfold QH, cross, sg0, sg1, sg2, sx01, sy01, sx02, sy02, sx12, sy12, e.
    replace 2 with (w * w) at 1 by exact Hw.
    (* the only use of w*w: the term 2 (1-e) e a2 |v1|^2 *)
    ring_simplify. rewrite <- ?Hw. ring.
  Qed.
End Damp.

(* entrywise product with M_ij = q^((i-j)^2) splits into a congruence with c = (1, q, q^4) and a 2x2 remainder *)
Lemma schur_split a0 a1 a2 x01 y01 x02 y02 x12 y12 q p0 q0 p1 q1 p2 q2 :
  let q4 := q * q * q * q in
  QH a0 a1 a2 (q * x01) (q * y01) (q4 * x02) (q4 * y02) (q * x12) (q * y12) p0 q0 p1 q1 p2 q2
  = QH a0 a1 a2 x01 y01 x02 y02 x12 y12 p0 q0 (q * p1) (q * q1) (q4 * p2) (q4 * q2)
    + QH2 ((1 - q * q) * a1) ((1 - q4 * q4) * a2) ((q - q4 * q) * x12) ((q - q4 * q) * y12) p1 q1 p2 q2.
Proof. cbv zeta. unfold QH, QH2, cross. ring. Qed.

Lemma gram_block q : 0 < q <= 1 ->
  let q4 := q * q * q * q in
  0 <= 1 - q * q /\ 0 <= 1 - q4 * q4 /\ (q - q4 * q) * (q - q4 * q) <= (1 - q * q) * (1 - q4 * q4).
Proof.
  intros [Q0 Q1]. cbv zeta.
  replace (q * q * q * q) with ((q * q) * (q * q)) by ring. set (u := q * q).
  assert (U : 0 < u <= 1) by (unfold u; nra).
  assert (U2 : u * u <= 1) by nra. assert (U4 : u * u * (u * u) <= 1) by nra.
  split; [lra|]. split; [nra|].
  apply Rminus_le.
  replace ((q - u * u * q) * (q - u * u * q) - (1 - u) * (1 - u * u * (u * u)))
    with (- ((1 - u) * (1 - u) * (1 - u) * (1 + u))) by (unfold u; ring).
  assert (0 <= (1 - u) * (1 - u) * (1 - u) * (1 + u)) by (repeat apply Rmult_le_pos; lra).
  lra.
Qed.

(* real-coordinate form of the main statement *)
Theorem psd_preserved_real a0 a1 a2 x01 y01 x02 y02 x12 y12 s q w :
  w * w = 2 -> 0 < s <= 1 -> 0 < q <= 1 ->
  (forall p0 q0 p1 q1 p2 q2, 0 <= QH a0 a1 a2 x01 y01 x02 y02 x12 y12 p0 q0 p1 q1 p2 q2) ->
  let q4 := q * q * q * q in
  forall p0 q0 p1 q1 p2 q2,
  0 <= QH (sg0 a0 a1 a2 s) (sg1 a1 a2 s) (sg2 a2 s)
          (q * sx01 x01 x12 s w) (q * sy01 y01 y12 s w) (q4 * sx02 x02 s) (q4 * sy02 y02 s)
          (q * sx12 x12 s) (q * sy12 y12 s) p0 q0 p1 q1 p2 q2.
Proof.
  intros Hw [S0 S1] Hq H0. cbv zeta.
  assert (E : 0 <= 1 - s * s) by nra.
  (* sigma has a non-negative form *)
  assert (Hs : forall p0 q0 p1 q1 p2 q2,
             0 <= QH (sg0 a0 a1 a2 s) (sg1 a1 a2 s) (sg2 a2 s) (sx01 x01 x12 s w) (sy01 y01 y12 s w) (sx02 x02 s) (sy02 y02 s)
                     (sx12 x12 s) (sy12 y12 s) p0 q0 p1 q1 p2 q2).
  { intros. rewrite (kraus_identity a0 a1 a2 x01 y01 x02 y02 x12 y12 s w Hw).
    pose proof (H0 p0 q0 (s * p1) (s * q1) (s * s * p2) (s * s * q2)).
    pose proof (H0 0 0 p0 q0 (w * s * p1) (w * s * q1)).
    pose proof (H0 0 0 0 0 p0 q0).
    assert (0 <= (1 - s * s) * QH a0 a1 a2 x01 y01 x02 y02 x12 y12 0 0 p0 q0 (w * s * p1) (w * s * q1)) by (apply Rmult_le_pos; assumption).
    assert (0 <= (1 - s * s) * (1 - s * s) * QH a0 a1 a2 x01 y01 x02 y02 x12 y12 0 0 0 0 p0 q0)
      by (apply Rmult_le_pos; [apply Rmult_le_pos|]; assumption).
    lra. }
  (* its lower-right 2x2 block *)
  assert (Hb : forall p q' p' q'', 0 <= QH2 (sg1 a1 a2 s) (sg2 a2 s) (sx12 x12 s) (sy12 y12 s) p q' p' q'').
  { intros. pose proof (Hs 0 0 p q' p' q'') as X. unfold QH, cross in X. unfold QH2, cross. lra. }
  destruct (QH2_det _ _ _ _ Hb) as [A1 [A2 Dt]].
  destruct (gram_block q Hq) as [B1 [B2 Bd]]. cbv zeta in B1, B2, Bd.
  intros. rewrite schur_split. cbv zeta.
  pose proof (Hs p0 q0 (q * p1) (q * q1) (q * q * q * q * p2) (q * q * q * q * q2)).
  pose proof (schur2 _ _ _ _ _ _ _ B1 B2 Bd A1 A2 Dt p1 q1 p2 q2).
  lra.
Qed.

(* ---------------------------------------------------------------------------------------------- *)
(* matrix level                                                                                    *)
(* ---------------------------------------------------------------------------------------------- *)
Definition m_ (m : mat CC) (i j : nat) : C := entry CC m i j.
(* v^dag m v for v = (v0, v1, v2), all nine terms *)
Definition quad3 (m : mat CC) (v0 v1 v2 : C) : C :=
  let t i j vi vj := Cmult (Cconj vi) (Cmult (m_ m i j) vj) in
  Cplus (Cplus (Cplus (t 0%nat 0%nat v0 v0) (Cplus (t 0%nat 1%nat v0 v1) (t 0%nat 2%nat v0 v2)))
               (Cplus (t 1%nat 0%nat v1 v0) (Cplus (t 1%nat 1%nat v1 v1) (t 1%nat 2%nat v1 v2))))
        (Cplus (t 2%nat 0%nat v2 v0) (Cplus (t 2%nat 1%nat v2 v1) (t 2%nat 2%nat v2 v2))).
Definition QM (m : mat CC) (p0 q0 p1 q1 p2 q2 : R) : R :=
  QH (fst (m_ m 0 0)) (fst (m_ m 1 1)) (fst (m_ m 2 2)) (fst (m_ m 0 1)) (snd (m_ m 0 1)) (fst (m_ m 0 2)) (snd (m_ m 0 2))
     (fst (m_ m 1 2)) (snd (m_ m 1 2)) p0 q0 p1 q1 p2 q2.

(* for a Hermitian table the quadratic form is real and equals QM *)
Lemma quad3_QM m p0 q0 p1 q1 p2 q2 : herm3 m -> quad3 m (p0, q0) (p1, q1) (p2, q2) = RtoC (QM m p0 q0 p1 q1 p2 q2).
Proof.
  unfold herm3, quad3, QM, m_. intros [H10 [H20 [H21 [I0 [I1 I2]]]]]. cbv zeta. rewrite H10, H20, H21.
  destruct (entry CC m 0 0) as [a0 a0'], (entry CC m 1 1) as [a1 a1'], (entry CC m 2 2) as [a2 a2'],
           (entry CC m 0 1) as [x01 y01], (entry CC m 0 2) as [x02 y02], (entry CC m 1 2) as [x12 y12].
  simpl in I0, I1, I2. subst a0' a1' a2'.
  unfold QH, cross, Cmult, Cplus, Cconj, RtoC. simpl. apply injective_projections; simpl; ring.
Qed.

Definition psd3 (m : mat CC) : Prop := herm3 m /\ forall p0 q0 p1 q1 p2 q2, 0 <= QM m p0 q0 p1 q1 p2 q2.

Theorem sol3full_psd a b r00 r01 r02 r10 r11 r12 r20 r21 r22 : valid a -> valid b -> compat a b ->
  psd3 (gen3 CC r00 r01 r02 r10 r11 r12 r20 r21 r22) ->
  forall t, 0 <= t -> psd3 (sol3full a b r00 r01 r02 r10 r11 r12 r20 r21 r22 t).
Proof.
  intros Va Vb Vc [Hh H0] t Ht. split; [apply sol3full_hermitian; exact Hh|].
  pose proof (gp_nonneg a Va) as Gp. pose proof (rates_compat a b Va Vb Vc) as Gc.
  set (p := gp a) in *. set (c := gc a b) in *.
  set (s := exp (- (p / 2) * t)). set (q := exp (- (c - p / 2) * t)).
  assert (S : 0 < s <= 1) by (split; [apply exp_pos | rewrite <- exp_0; apply exp_le; nra]).
  assert (Q : 0 < q <= 1) by (split; [apply exp_pos | rewrite <- exp_0; apply exp_le; nra]).
  assert (Ee : exp (- p * t) = s * s) by (unfold s; rewrite <- exp_plus; f_equal; field).
  assert (Ef : exp (- c * t) = s * q) by (unfold s, q; rewrite <- exp_plus; f_equal; field).
  assert (Eg : exp (- (4 * c - p) * t) = (q * q * q * q) * (s * s)).
  { unfold s, q. rewrite <- !exp_plus. f_equal. field. }
  unfold herm3 in Hh. unfold QM, m_ in H0. cbn [entry gen3 nth] in Hh, H0.
  destruct Hh as [H10 [H20 [H21 [I0 [I1 I2]]]]]. subst r10 r20 r21.
  destruct r00 as [a0 a0'], r11 as [a1 a1'], r22 as [a2 a2'], r01 as [x01 y01], r02 as [x02 y02], r12 as [x12 y12].
  simpl in I0, I1, I2, H0. subst a0' a1' a2'.
  intros p0 q0 p1 q1 p2 q2.
  pose proof (psd_preserved_real a0 a1 a2 x01 y01 x02 y02 x12 y12 s q (sqrt 2) sqrt2_sq S Q H0 p0 q0 p1 q1 p2 q2) as HR.
  cbv zeta in HR.
  unfold QM, m_, sol3full. cbv zeta. cbn [entry gen3 nth]. fold p c. rewrite Ee, Ef, Eg.
  unfold sc, Cmult, Cplus, RtoC. simpl.
  match goal with |- 0 <= ?g => match type of HR with 0 <= ?h => replace g with h; [exact HR|] end end.
  unfold QH, cross, sg0, sg1, sg2, sx01, sy01, sx02, sy02, sx12, sy12. ring.
Qed.

(* a full physical state stays a full physical state *)
Definition state3 (m : mat CC) : Prop := psd3 m /\ trace CC 3 m = RtoC 1.
Theorem sol3full_physical a b r00 r01 r02 r10 r11 r12 r20 r21 r22 : valid a -> valid b -> compat a b ->
  state3 (gen3 CC r00 r01 r02 r10 r11 r12 r20 r21 r22) ->
  forall t, 0 <= t -> state3 (sol3full a b r00 r01 r02 r10 r11 r12 r20 r21 r22 t).
Proof.
  intros Va Vb Vc [P T] t Ht. split; [apply sol3full_psd; assumption|].
  rewrite sol3full_trace. rewrite <- T. unfold trace, sumn. cbn [seq map ksum entry gen3 nth kadd k0 CC].
  destruct r00, r11, r22. unfold Cplus, RtoC. simpl. apply injective_projections; simpl; ring.
Qed.
