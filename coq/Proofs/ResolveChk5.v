(* C03: semantic obligations for basis configurations 320 .. 383 of all_cfgs (20 gate kinds each) *)
From QV Require Import Model.Resolve Proofs.ResolveChkDefs.
Lemma chk_sem_5 : sem_ok (slice 5) = true.
Proof. vm_compute. reflexivity. Qed.
