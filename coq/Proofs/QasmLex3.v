(* C10 export_valid, lexer half, part 3: the numbers, parameter lists, qubit lists and statement lines the exporter
   prints are read by the strict lexer as the expected tokens. *)
From Coq Require Import Lia Ascii String.
From QV Require Import Spec.QasmStrict Model.QasmImport Model.QasmExport Proofs.QasmLex Proofs.QasmLex2.
Local Open Scope nat_scope.
Local Open Scope list_scope.

(* ---- str(n) ---- *)
Lemma digit_char d : d < 10 -> la (digit d) = [chr (48 + d)] /\ is_digit (chr (48 + d)) = true /\ code (chr (48 + d)) = 48 + d.
Proof.
  intros H. unfold digit, chr, is_digit, code. cbn [la]. rewrite nat_ascii_embedding by lia. repeat split.
  apply andb_true_intro. split; apply Nat.leb_le; lia.
Qed.
Lemma dec_ok f : forall n, n < f ->
  forallb is_digit (la (dec_fuel f n)) = true /\
  exists a r, la (dec_fuel f n) = a :: r /\ (0 < n -> (code a =? 48) = false) /\ (n = 0 -> r = []).
Proof.
  induction f as [|f IH]; intros n Hn; [lia|]. cbn [dec_fuel]. destruct (Nat.ltb_spec n 10) as [H10|H10].
  - destruct (digit_char n H10) as [E [D C]]. rewrite E. split; [cbn [forallb]; rewrite D; reflexivity|].
    exists (chr (48 + n)), []. repeat split. intros Hp. rewrite C. apply Nat.eqb_neq. lia.
  - assert (Hq : n / 10 < f). { assert (n / 10 < n) by (apply Nat.div_lt; lia). lia. }
    assert (Hq0 : 0 < n / 10). { apply Nat.div_str_pos. lia. }
    destruct (IH (n / 10) Hq) as [F [a [r [E [Hz _]]]]].
    destruct (digit_char (n mod 10) (Nat.mod_upper_bound n 10 ltac:(lia))) as [E2 [D2 _]].
    rewrite la_app, E2. split; [rewrite forallb_app, F; cbn [forallb]; rewrite D2; reflexivity|].
    exists a, (r ++ [chr (48 + n mod 10)]). rewrite E. repeat split; [intros _; apply Hz; exact Hq0|lia].
Qed.
Lemma str_nat_digits n : digits (la (str_nat n)) /\ no_leading_zero (la (str_nat n)).
Proof.
  unfold str_nat. destruct (dec_ok (S n) n (Nat.lt_succ_diag_r n)) as [F [a [r [E [Hz Hr]]]]]. rewrite E in *. split.
  - split; [discriminate|exact F].
  - destruct r as [|b r]; [exact I|]. cbn [no_leading_zero]. apply Hz. destruct n; [discriminate (Hr eq_refl)|lia].
Qed.

(* ---- numbers ---- *)
Definition digs (s : string) : Prop := digits (la s).
Definition shape_ok (x : pynum) : Prop :=
  match x with
  | NInt _ _ => True
  | NFloat (FDec _ ip fp) => digs ip /\ digs fp
  | NFloat (FExp _ ip fp _ ed) => digs ip /\ (match fp with Some d => digs d | None => True end) /\ digs ed
  | NFloat _ => True
  end.
Definition num_tok (t : tok) : Prop := match t with TInt _ | TReal _ => True | _ => False end.
Definition num_toks (ts : list tok) : Prop := exists t, num_tok t /\ (ts = [t] \/ ts = [TSym "-"%string; t]).

Lemma digits_head ds : digits ds -> exists d r, ds = d :: r /\ is_digit d = true.
Proof. intros [Hn H]. destruct ds as [|d r]; [contradiction|]. cbn [forallb] in H. apply andb_prop in H. destruct H. eauto. Qed.
Lemma signed (neg : bool) num t : num_tok t -> (exists d r, num = d :: r /\ is_digit d = true) -> LXc num [t] ->
  exists ts, num_toks ts /\ LXc (la (sgn neg) ++ num) ts.
Proof.
  intros Ht [d [r [-> Hd]]] H. destruct neg; cbn [sgn la app].
  - exists [TSym "-"%string; t]. split; [exists t; auto|]. apply (LXc_minus d r [t] Hd H).
  - exists [t]. split; [exists t; auto|exact H].
Qed.
Lemma digits_zero : digits (la "0"%string).
Proof. split; [discriminate|reflexivity]. Qed.

Lemma number_lx x t : shape_ok x -> qasm_number x = Some t -> exists ts, num_toks ts /\ LXc (la t) ts.
Proof.
  intros Hs Hq. destruct x as [neg n|[neg ip fp|neg ip fp eneg ed|b|]]; cbn [qasm_number shape_ok] in *; try discriminate; injection Hq as <-.
  - rewrite la_app. destruct (str_nat_digits n) as [Hd Hz].
    apply (signed neg _ (TInt (digits_val 0%Z (la (str_nat n)))) I (digits_head _ Hd)). apply LXc_int; assumption.
  - destruct Hs as [Hi Hf]. rewrite !la_app. cbn [la app].
    apply (signed neg _ (TReal (real_val (la ip) (la fp) false [])) I).
    + destruct (digits_head _ Hi) as [d [r [E Hd]]]. rewrite E. cbn [app]. eauto.
    + apply (LXc_real_dec (la ip) (la fp) Hi Hf).
  - destruct Hs as [Hi [Hf He]].
    set (fp' := match fp with Some d => d | None => "0"%string end).
    assert (Hf' : digits (la fp')) by (subst fp'; destruct fp; [exact Hf|exact digits_zero]).
    destruct (digits_head _ Hi) as [d [r [E Hd]]].
    destruct eneg; rewrite !la_app; cbn [la app]; rewrite ?la_app; cbn [la app].
    + apply (signed neg _ (TReal (real_val (la ip) (la fp') true (la ed))) I); [rewrite E; cbn [app]; eauto|].
      exact (LXc_real_exp (la ip) (la fp') true (la ed) Hi Hf' He).
    + apply (signed neg _ (TReal (real_val (la ip) (la fp') false (la ed))) I); [rewrite E; cbn [app]; eauto|].
      exact (LXc_real_exp (la ip) (la fp') false (la ed) Hi Hf' He).
Qed.

Lemma number_nonempty x t : shape_ok x -> qasm_number x = Some t -> la t <> [].
Proof.
  intros Hs Hq. destruct x as [neg n|[neg ip fp|neg ip fp eneg ed|b|]]; cbn [qasm_number shape_ok] in *; try discriminate; injection Hq as <-.
  - rewrite la_app. destruct (str_nat_digits n) as [Hd _]. destruct (digits_head _ Hd) as [d [r [E _]]]. rewrite E. destruct neg; discriminate.
  - destruct Hs as [Hi _]. rewrite !la_app. destruct (digits_head _ Hi) as [d [r [E _]]]. rewrite E. destruct neg; discriminate.
  - destruct Hs as [Hi _]. rewrite !la_app. destruct (digits_head _ Hi) as [d [r [E _]]]. rewrite E. destruct neg; discriminate.
Qed.

(* ---- closers used by the exporter ---- *)
Lemma closer_code n : n < 256 -> is_idchar (chr n) = false -> (n =? 46) = false -> closer (chr n).
Proof. intros Hn H1 H2. split; [exact H1|]. unfold code, chr. rewrite nat_ascii_embedding by exact Hn. exact H2. Qed.
Ltac closer_tac := apply closer_code; [lia|reflexivity|reflexivity].
Lemma sym1_code n : n < 256 -> In n [40; 41; 91; 93; 123; 125; 59; 44] -> sym1 (chr n).
Proof. intros Hn H. unfold sym1, code, chr. rewrite nat_ascii_embedding by exact Hn. exact H. Qed.
Ltac sym_tac := apply sym1_code; [lia|cbn; tauto].

(* ---- comma separated lists ---- *)
Fixpoint sep_toks (l : list (list tok)) : list tok :=
  match l with [] => [] | [x] => x | x :: l' => x ++ TSym ","%string :: sep_toks l' end.
Lemma join_cons x y l : join "," (x :: y :: l) = (x ++ "," ++ join "," (y :: l))%string.
Proof. reflexivity. Qed.

Lemma args_lx l : l <> [] -> Forall shape_ok l -> forall ts, omap qasm_number l = Some ts ->
  exists tokss, Forall num_toks tokss /\ length tokss = length l /\ LXc (la (join "," ts)) (sep_toks tokss).
Proof.
  induction l as [|x l IH]; intros Hne Hs ts Ho; [contradiction|]. inversion Hs as [|? ? Hx Hl]; subst.
  cbn [omap] in Ho. destruct (qasm_number x) as [tx|] eqn:Ex; [|discriminate]. destruct (omap qasm_number l) as [tl|] eqn:El; [|discriminate].
  injection Ho as <-. destruct (number_lx x tx Hx Ex) as [tk [Hn Hk]].
  destruct l as [|y l'].
  - injection El as <-. exists [tk]. repeat split; [constructor; [exact Hn|constructor]|exact Hk].
  - destruct tl as [|ty tl']; [cbn [omap] in El; destruct (qasm_number y); [destruct (omap qasm_number l')|]; discriminate|].
    destruct (IH ltac:(discriminate) Hl (ty :: tl') eq_refl) as [tokss [Hf [Hlen Hlx]]].
    exists (tk :: tokss). split; [constructor; assumption|]. split; [cbn [length] in *; lia|].
    rewrite join_cons, !la_app. cbn [la app].
    destruct tokss as [|t2 tokss']; [discriminate|].
    change (sep_toks (tk :: t2 :: tokss')) with (tk ++ TSym ","%string :: sep_toks (t2 :: tokss')).
    apply (LXc_LXc _ _ (chr 44)); [closer_tac|exact Hk|].
    apply (LX_LXc [chr 44] [TSym ","%string] (la (join "," (ty :: tl'))) (sep_toks (t2 :: tokss')));
      [apply (LX_sym (chr 44)); sym_tac|exact Hlx].
Qed.

(* ---- qubit arguments q[i] ---- *)
Definition qtoks (i : nat) : list tok := [TId "q"%string; TSym "["%string; TInt (digits_val 0%Z (la (str_nat i))); TSym "]"%string].
Lemma idx_lx (r : ascii) i : ident_chars [r] ->
  LX (r :: chr 91 :: la (str_nat i) ++ [chr 93]) [TId (str_of [r]); TSym "["%string; TInt (digits_val 0%Z (la (str_nat i))); TSym "]"%string].
Proof.
  intros Hr. destruct (str_nat_digits i) as [Hd Hz].
  change (r :: chr 91 :: la (str_nat i) ++ [chr 93]) with ([r] ++ chr 91 :: (la (str_nat i) ++ [chr 93])).
  apply (LXc_LX [r] [TId (str_of [r])] (chr 91) _ [TSym "["%string; TInt (digits_val 0%Z (la (str_nat i))); TSym "]"%string]);
    [closer_tac|apply LXc_ident; exact Hr|].
  change (chr 91 :: la (str_nat i) ++ [chr 93]) with ([chr 91] ++ (la (str_nat i) ++ [chr 93])).
  apply (LX_app [chr 91] [TSym "["%string]); [apply (LX_sym (chr 91)); sym_tac|].
  apply (LXc_LX _ [TInt (digits_val 0%Z (la (str_nat i)))] (chr 93) [] [TSym "]"%string]); [closer_tac|apply LXc_int; assumption|].
  apply (LX_sym (chr 93)). sym_tac.
Qed.
Lemma ident_q : ident_chars [chr 113]. Proof. split; reflexivity. Qed.
Lemma ident_c : ident_chars [chr 99]. Proof. split; reflexivity. Qed.
Lemma qreg_text_lx i : LX (la (qreg_text i)) (qtoks i).
Proof. unfold qreg_text. rewrite !la_app. cbn [la app]. exact (idx_lx (chr 113) i ident_q). Qed.
Lemma qubits_lx l : l <> [] -> LX (la (join "," (map qreg_text l))) (sep_toks (map qtoks l)).
Proof.
  induction l as [|x l IH]; intros Hne; [contradiction|]. destruct l as [|y l'].
  - cbn [map join sep_toks]. apply qreg_text_lx.
  - cbn [map]. rewrite join_cons, !la_app. cbn [la app].
    change (sep_toks (qtoks x :: qtoks y :: map qtoks l')) with (qtoks x ++ TSym ","%string :: sep_toks (map qtoks (y :: l'))).
    apply LX_app; [apply qreg_text_lx|].
    apply (LX_app [chr 44] [TSym ","%string] (la (join "," (map qreg_text (y :: l')))) (sep_toks (map qtoks (y :: l'))));
      [apply (LX_sym (chr 44)); sym_tac|apply IH; discriminate].
Qed.

(* ---- comments ---- *)
Lemma LX_comment body : forallb (fun x => negb (code x =? 10)) body = true -> LX (chr 47 :: chr 47 :: body ++ [chr 10]) [].
Proof.
  intros Hb. exists 2. split; [cbn [length]; lia|]. intros f rest. cbn [plus app].
  change (lex (S (S f)) (chr 47 :: chr 47 :: (body ++ [chr 10]) ++ rest)) with
    (lex (S f) (snd (span (fun x => negb (code x =? 10)) (chr 47 :: (body ++ [chr 10]) ++ rest)))).
  rewrite <- app_assoc. cbn [app]. change (chr 47 :: body ++ chr 10 :: rest) with ((chr 47 :: body) ++ chr 10 :: rest).
  rewrite (span_all _ (chr 47 :: body)); [|cbn [forallb]; rewrite Hb; reflexivity|reflexivity].
  cbn [snd lex]. change (is_space (chr 10)) with true. cbn iota. symmetry. apply kont_nil.
Qed.

(* ---- one gate statement ---- *)
Definition shape_ok_val (a : pyval) : Prop :=
  match a with PNone => True | PNum x => shape_ok x | PList l | PTuple l | PArray l => Forall shape_ok l end.
(* tokens of "name(args) q[i],..;" resp. "name q[i],..;" *)
Definition stmt_toks (q : string) (atoks : list tok) (qs : list nat) : list tok :=
  TId q :: (match atoks with [] => [] | _ => TSym "("%string :: atoks ++ [TSym ")"%string] end)
        ++ sep_toks (map qtoks qs) ++ [TSym ";"%string].

Lemma join_nonempty x l ts : Forall shape_ok (x :: l) -> omap qasm_number (x :: l) = Some ts -> la (join "," ts) <> [].
Proof.
  intros Hs E. inversion Hs as [|? ? Hx _]; subst. cbn [omap] in E. destruct (qasm_number x) as [tx|] eqn:Ex; [|discriminate].
  destruct (omap qasm_number l) as [tl|]; [|discriminate]. injection E as <-. pose proof (number_nonempty x tx Hx Ex) as N.
  destruct tl as [|ty tl']; [exact N|]. rewrite join_cons, la_app. destruct (la tx); [contradiction|discriminate].
Qed.
Lemma args_text_lx a t : shape_ok_val a -> args_text a = Some t ->
  t = EmptyString \/ (la t <> [] /\ exists tokss, tokss <> [] /\ Forall num_toks tokss /\ LXc (la t) (sep_toks tokss)).
Proof.
  intros Hs Ht. destruct a as [|x|l|l|l]; cbn [args_text shape_ok_val] in *.
  - injection Ht as <-. left. reflexivity.
  - right. split; [exact (number_nonempty x t Hs Ht)|]. destruct (number_lx x t Hs Ht) as [tk [Hn Hk]]. exists [tk]. repeat split; [discriminate|constructor; [exact Hn|constructor]|exact Hk].
  - destruct (omap qasm_number l) as [ts|] eqn:E; [|discriminate]. injection Ht as <-. destruct l as [|x l']; [injection E as <-; left; reflexivity|].
    right. split; [apply (join_nonempty x l' ts Hs E)|].
    destruct (args_lx (x :: l') ltac:(discriminate) Hs ts E) as [tokss [Hf [Hl Hx]]]. exists tokss. repeat split; auto. intros ->. discriminate.
  - destruct (omap qasm_number l) as [ts|] eqn:E; [|discriminate]. injection Ht as <-. destruct l as [|x l']; [injection E as <-; left; reflexivity|].
    right. split; [apply (join_nonempty x l' ts Hs E)|].
    destruct (args_lx (x :: l') ltac:(discriminate) Hs ts E) as [tokss [Hf [Hl Hx]]]. exists tokss. repeat split; auto. intros ->. discriminate.
  - destruct (omap qasm_number l) as [ts|] eqn:E; [|discriminate]. injection Ht as <-. destruct l as [|x l']; [injection E as <-; left; reflexivity|].
    right. split; [apply (join_nonempty x l' ts Hs E)|].
    destruct (args_lx (x :: l') ltac:(discriminate) Hs ts E) as [tokss [Hf [Hl Hx]]]. exists tokss. repeat split; auto. intros ->. discriminate.
Qed.
Lemma sep_toks_nonnil tokss : tokss <> [] -> Forall num_toks tokss -> sep_toks tokss <> [].
Proof.
  intros Hne Hf. destruct tokss as [|t l]; [contradiction|]. inversion Hf as [|? ? [x [_ [E|E]]] _]; subst; destruct l; cbn; discriminate.
Qed.

(* every statement line (followed by a newline) is read as the tokens of a statement *)
Theorem stmt_lx q controls targets a line :
  ident_chars (la q) -> shape_ok_val a -> qasm_str q controls targets a = Some line ->
  exists atoks, LX (la line ++ [chr 10]) (stmt_toks (str_of (la q)) atoks (controls ++ targets)) /\
                (atoks = [] \/ exists tokss, tokss <> [] /\ Forall num_toks tokss /\ atoks = sep_toks tokss).
Proof.
  intros Hq Hs Hl. unfold qasm_str in Hl. destruct targets as [|t0 targets']; [discriminate|].
  set (qs := controls ++ t0 :: targets') in *. assert (Hqs : qs <> []) by (subst qs; destruct controls; discriminate).
  destruct (args_text a) as [t|] eqn:Ea; [|discriminate].
  pose proof (qubits_lx qs Hqs) as Lq.
  assert (Ltail : LX (la (join "," (map qreg_text qs)) ++ [chr 59; chr 10]) (sep_toks (map qtoks qs) ++ [TSym ";"%string])).
  { apply LX_app; [exact Lq|]. change [chr 59; chr 10] with ([chr 59] ++ [chr 10]). rewrite <- (app_nil_r [TSym ";"%string]).
    apply LX_app; [apply (LX_sym (chr 59)); sym_tac|apply (LX_space (chr 10)); reflexivity]. }
  destruct (args_text_lx a t Hs Ea) as [->|[Hnon [tokss [Hne [Hf Hx]]]]].
  - injection Hl as <-. exists []. split; [|left; reflexivity].
    rewrite !la_app. cbn [la app]. rewrite <- !app_assoc. cbn [app]. unfold stmt_toks. cbn [app].
    change (TId (str_of (la q)) :: sep_toks (map qtoks qs) ++ [TSym ";"%string]) with ([TId (str_of (la q))] ++ ([] ++ (sep_toks (map qtoks qs) ++ [TSym ";"%string]))).
    apply (LXc_LX (la q) _ (chr 32)); [closer_tac|apply LXc_ident; exact Hq|].
    apply (LX_app [chr 32] [] _ _); [apply (LX_space (chr 32)); reflexivity|first [exact Ltail | rewrite ?la_app; cbn [la app]; rewrite <- ?app_assoc; exact Ltail]].
  - destruct t as [|c0 t'] eqn:Et.
    + exfalso. apply Hnon. reflexivity.
    + rewrite <- Et in Hl, Hx, Hnon. injection Hl as <-. exists (sep_toks tokss). split; [|right; exists tokss; auto].
      rewrite !la_app. cbn [la app]. rewrite <- !app_assoc. cbn [app]. unfold stmt_toks.
      destruct (sep_toks tokss) as [|s0 sl] eqn:Es; [exfalso; exact (sep_toks_nonnil tokss Hne Hf Es)|].
      cbn [app]. rewrite <- app_assoc.
      apply (LXc_LX (la q) [TId (str_of (la q))] (chr 40) _
               (TSym "("%string :: s0 :: sl ++ [TSym ")"%string] ++ sep_toks (map qtoks qs) ++ [TSym ";"%string]));
        [closer_tac|apply LXc_ident; exact Hq|].
      apply (LX_app [chr 40] [TSym "("%string] _ (s0 :: sl ++ [TSym ")"%string] ++ sep_toks (map qtoks qs) ++ [TSym ";"%string]));
        [apply (LX_sym (chr 40)); sym_tac|].
      rewrite ?la_app; cbn [la app]; rewrite <- ?app_assoc; cbn [app].
      apply (LXc_LX (la t) (s0 :: sl) (chr 41) _ (TSym ")"%string :: sep_toks (map qtoks qs) ++ [TSym ";"%string])); [closer_tac|exact Hx|].
      apply (LX_app [chr 41] [TSym ")"%string] _ (sep_toks (map qtoks qs) ++ [TSym ";"%string])); [apply (LX_sym (chr 41)); sym_tac|].
      apply (LX_app [chr 32] [] _ _); [apply (LX_space (chr 32)); reflexivity|].
      first [exact Ltail | rewrite ?la_app; cbn [la app]; rewrite <- ?app_assoc; exact Ltail].
Qed.

(* the names under which gates are exported are identifiers *)
Definition identb (s : string) : bool :=
  match la s with a :: _ => (is_lower a || is_upper a) && forallb is_idchar (la s) | [] => false end.
Lemma identb_sound s : identb s = true -> ident_chars (la s).
Proof. unfold identb, ident_chars. destruct (la s) as [|a w]; [discriminate|]. intros H. apply andb_prop in H. exact H. Qed.
