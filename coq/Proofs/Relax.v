(* C15 - proofs about the relaxation set-up as translated from the CURRENT source (Gen.Noise) and interpreted by
   Model.Relax: validation, totality on the admissible domain (boundary t2 = 2 t1 included), the exact rates,
   and that no non-finite coefficient can be produced.  Witnesses against the unchanged code (`_v0`). *)
From Coq Require Import QArith List Bool ZArith Lia Lqa Psatz.
From QV Require Import Model.Relax Gen.Noise.
Import ListNotations.
Local Open Scope Q_scope.

Definition S := setup ttl_rules relax_lencheck relax_body.
Definition S0 := setup ttl_rules_v0 true relax_body_v0.     (* the unchanged code *)

Definition valid (o : option Q) : Prop := match o with None => True | Some t => 0 < t end.
Definition validb (o : option Q) : bool := match o with None => true | Some t => Qlt_bool 0 t end.
Definition compat (a b : option Q) : Prop := match a, b with Some t1, Some t2 => t2 <= 2 * t1 | _, _ => True end.

Definition run_body (body : stmt) (a b : option Q) : outcome (list emit) :=
  match exec body [(0%nat, oval a); (1%nat, oval b)] [] with
  | XNext _ ops | XCont ops => Ok ops
  | XStop (Raised e) => Raised e
  | XStop NonFinite => NonFinite
  | XStop _ => Unsupported
  end.
Definition spec_ops (a b : option Q) : list emit := match run_body relax_body a b with Ok ts => ts | _ => [] end.
Definition tag (q : nat) (e : emit) : term := (q, fst (fst e), snd (fst e), snd e).

Definition opk_eqb (a b : opk) : bool := match a, b with KDestroy, KDestroy | KNum, KNum => true | _, _ => false end.
Fixpoint rate_of (k : opk) (ts : list emit) : Q :=
  match ts with [] => 0 | e :: r => if opk_eqb (fst (fst e)) k then snd e + rate_of k r else rate_of k r end.

(* total damping rate = 1/t1, damping + dephasing = 2/t2 (so coherence decays at 1/t2); division-free *)
Definition rates_ok (a b : option Q) (ts : list emit) : Prop :=
  (match a with Some t1 => rate_of KDestroy ts * t1 == 1 | None => rate_of KDestroy ts == 0 end) /\
  (match b with
   | Some t2 => (rate_of KDestroy ts + rate_of KNum ts) * t2 == 2
   | None => rate_of KNum ts == 0 end) /\
  Forall (fun e => snd (fst e) = 1%Z /\ 0 < snd e) ts.

Definition is_rejected {A} (o : outcome A) : bool := match o with Raised _ => true | _ => false end.

(* ---------------------------------------------------------------------------------------------- *)
Lemma Qlt_bool_true a b : Qlt_bool a b = true -> a < b.
Proof. unfold Qlt_bool. intro H. apply negb_true_iff in H. apply Qnot_le_lt. intro L. apply Qle_bool_iff in L. congruence. Qed.
Lemma Qlt_bool_false a b : Qlt_bool a b = false -> b <= a.
Proof. unfold Qlt_bool. intro H. apply negb_false_iff in H. apply Qle_bool_iff. exact H. Qed.
Lemma Qlt_bool_intro a b : a < b -> Qlt_bool a b = true.
Proof. intro H. destruct (Qlt_bool a b) eqn:E; [reflexivity|]. apply Qlt_bool_false in E. lra. Qed.
Lemma Qlt_bool_intro_f a b : b <= a -> Qlt_bool a b = false.
Proof. intro H. destruct (Qlt_bool a b) eqn:E; [|reflexivity]. apply Qlt_bool_true in E. lra. Qed.

Lemma Qsgn_pos q : 0 < q -> Qsgn q = 1%Z.
Proof. unfold Qsgn, Qlt. simpl. intro H. apply Z.sgn_pos. lia. Qed.

Lemma inv_pos r : 0 < r -> 0 < 1 / r.
Proof. intro H. unfold Qdiv. rewrite Qmult_1_l. apply Qinv_lt_0_compat. exact H. Qed.

(* The pure-dephasing rate is recognised SEMANTICALLY: whatever expression r the source uses for it
   (1/t2 - 1/2/t1, 1/t2 - 0.5/t1, 1/t2 - 1/(2*t1), ...), `field` shows r == (2 t1 - t2)/(2 t1 t2) and everything
   else is derived from that canonical form, with r abstracted to a variable. *)
Lemma rate_inner t1 t2 r : 0 < t1 -> 0 < t2 -> t2 < 2 * t1 -> r == (2 * t1 - t2) / (2 * t1 * t2) -> 0 < r /\ 0 < 1 / r.
Proof.
  intros H1 H2 H Hr. assert (P : 0 < r) by (rewrite Hr; apply Qlt_shift_div_l; nra).
  split; [exact P | apply inv_pos; exact P].
Qed.
Lemma rate_bdry t1 t2 r : 0 < t1 -> 0 < t2 -> t2 == 2 * t1 -> r == (2 * t1 - t2) / (2 * t1 * t2) -> r == 0.
Proof. intros H1 H2 H Hr. rewrite Hr, H. field. lra. Qed.
Lemma rate_outer t1 t2 r : 0 < t1 -> 0 < t2 -> 2 * t1 < t2 -> r == (2 * t1 - t2) / (2 * t1 * t2) -> r < 0.
Proof.
  intros H1 H2 H Hr. rewrite Hr. apply Qlt_shift_div_r; nra.
Qed.
Lemma g2_canon t1 t2 r : 0 < t1 -> 0 < t2 -> r == (2 * t1 - t2) / (2 * t1 * t2) -> 2 * r == 2 / t2 - 1 / t1.
Proof. intros H1 H2 Hr. rewrite Hr. field. split; lra. Qed.
Lemma g2_pos t1 t2 : 0 < t1 -> 0 < t2 -> t2 < 2 * t1 -> 0 < 2 / t2 - 1 / t1.
Proof.
  intros H1 H2 H. setoid_replace (2 / t2 - 1 / t1) with ((2 * t1 - t2) / (t1 * t2)) by (field; split; lra).
  apply Qlt_shift_div_l; nra.
Qed.

Ltac ex := cbn [exec evc evq evr has_sqrt lookup obind oval stop Nat.eqb orb andb negb fst snd app map].
Ltac btest :=
  match goal with
  | |- context [Qlt_bool ?a ?b] => let E := fresh "E" in destruct (Qlt_bool a b) eqn:E; [apply Qlt_bool_true in E | apply Qlt_bool_false in E]
  | |- context [Qeq_bool ?a ?b] => let E := fresh "E" in destruct (Qeq_bool a b) eqn:E; [apply Qeq_bool_iff in E | apply Qeq_bool_neq in E]
  | |- context [Qle_bool ?a ?b] => let E := fresh "E" in destruct (Qle_bool a b) eqn:E; [apply Qle_bool_iff in E | apply Qlt_bool_true; unfold Qlt_bool; rewrite E; reflexivity ]
  end.
(* name the dephasing-rate expression (the first tested expression that mentions both times) and derive its sign *)
Ltac pose_rate t1 t2 :=
  match goal with
  | |- context [Qeq_bool ?r ?z] =>
      match r with context [t1] => match r with context [t2] =>
        let rr := fresh "rr" in let Err := fresh "Err" in let Hr := fresh "Hr" in
        remember r as rr eqn:Err;
        assert (Hr : rr == (2 * t1 - t2) / (2 * t1 * t2)) by (rewrite Err; field; repeat split; lra);
        clear Err;
        try (let X := fresh "Hin" in assert (X : 0 < rr /\ 0 < 1 / rr) by (apply (rate_inner t1 t2 rr); assumption); destruct X);
        try (assert (rr == 0) by (apply (rate_bdry t1 t2 rr); assumption));
        try (assert (rr < 0) by (apply (rate_outer t1 t2 rr); assumption))
      end end
  end.
Ltac kill := try (exfalso; lra); try (exfalso; auto; fail).
Ltac run := unfold run_body, relax_body; ex; repeat (btest; ex; kill).
Ltac run2 t1 t2 := unfold run_body, relax_body; ex; repeat (first [pose_rate t1 t2 | btest]; ex; kill).
Ltac sgn := repeat match goal with |- context [Qsgn ?x] => rewrite (Qsgn_pos x) by lra end.

(* result shapes (the rate expressions themselves are whatever the source computes) *)
Definition shape0 (o : outcome (list emit)) : Prop := match o with Ok [] => True | _ => False end.
Definition shape1 (k : opk) (o : outcome (list emit)) (P : Q -> Prop) : Prop :=
  match o with Ok [(k', s, g)] => opk_eqb k' k = true /\ s = 1%Z /\ P g | _ => False end.
Definition shape2 (o : outcome (list emit)) (P : Q -> Q -> Prop) : Prop :=
  match o with
  | Ok [(KDestroy, s1, g1); (KNum, s2, g2)] => s1 = 1%Z /\ s2 = 1%Z /\ P g1 g2
  | _ => False end.

(* ---------------------------------------------------------------------------------------------- *)
(* the loop body, one qubit                                                                        *)
(* ---------------------------------------------------------------------------------------------- *)
Lemma body_none_none : run_body relax_body None None = Ok [].
Proof. reflexivity. Qed.

Lemma body_t1_only t1 : 0 < t1 -> shape1 KDestroy (run_body relax_body (Some t1) None) (fun g => g == 1 / t1).
Proof.
  intro H1. unfold shape1. run. sgn. repeat split; try reflexivity; try (field; lra).
Qed.

Lemma body_t2_only t2 : 0 < t2 -> shape1 KNum (run_body relax_body None (Some t2)) (fun g => g == 2 / t2).
Proof.
  intro H2. unfold shape1. run. sgn. repeat split; try reflexivity; try (field; lra).
Qed.

Lemma body_both_inner t1 t2 : 0 < t1 -> 0 < t2 -> t2 < 2 * t1 ->
  shape2 (run_body relax_body (Some t1) (Some t2)) (fun g1 g2 => g1 == 1 / t1 /\ g2 == 2 / t2 - 1 / t1).
Proof.
  intros H1 H2 H. unfold shape2. run2 t1 t2. sgn. split; [reflexivity|]. split; [reflexivity|]. split.
  - field. lra.
  - match goal with Hr : ?rr == (2 * t1 - t2) / (2 * t1 * t2) |- _ =>
      rewrite <- (g2_canon t1 t2 rr H1 H2 Hr); field; repeat split; lra end.
Qed.

Lemma body_both_boundary t1 t2 : 0 < t1 -> 0 < t2 -> t2 == 2 * t1 ->
  shape1 KDestroy (run_body relax_body (Some t1) (Some t2)) (fun g => g == 1 / t1).
Proof.
  intros H1 H2 H. unfold shape1. run2 t1 t2. sgn. repeat split; try reflexivity; try (field; lra).
Qed.

Lemma body_reject t1 t2 : 0 < t1 -> 0 < t2 -> 2 * t1 < t2 ->
  run_body relax_body (Some t1) (Some t2) = Raised ErrValue.
Proof. intros H1 H2 H. run2 t1 t2; try reflexivity. Qed.

Lemma body_rates a b : valid a -> valid b -> compat a b ->
  exists ts, run_body relax_body a b = Ok ts /\ rates_ok a b ts.
Proof.
  intros Ha Hb Hc. destruct a as [t1|], b as [t2|]; simpl in Ha, Hb, Hc.
  - destruct (Qlt_le_dec t2 (2 * t1)) as [L|L].
    + pose proof (body_both_inner t1 t2 Ha Hb L) as Hs. unfold shape2 in Hs.
      destruct (run_body relax_body (Some t1) (Some t2)) as [[|[[k s] g] [|[[k' s'] g'] [|? ?]]]| | |]; try contradiction;
        destruct k; try contradiction; destruct k'; try contradiction.
      destruct Hs as [-> [-> [Hg Hg']]]. eexists. split; [reflexivity|].
      pose proof (g2_pos t1 t2 Ha Hb L) as Hp.
      unfold rates_ok. cbn [rate_of opk_eqb fst snd].
      split; [rewrite Hg; field; lra|]. split; [rewrite Hg, Hg'; field; split; lra|].
      repeat constructor; cbn [fst snd]; try reflexivity; [rewrite Hg; apply Qlt_shift_div_l; lra | rewrite Hg'; exact Hp].
    + assert (E : t2 == 2 * t1) by lra.
      pose proof (body_both_boundary t1 t2 Ha Hb E) as Hs. unfold shape1 in Hs.
      destruct (run_body relax_body (Some t1) (Some t2)) as [[|[[k s] g] [|? ?]]| | |]; try contradiction.
      destruct Hs as [Hk [-> Hg]]. destruct k; try discriminate Hk. eexists. split; [reflexivity|].
      unfold rates_ok. cbn [rate_of opk_eqb fst snd].
      split; [rewrite Hg; field; lra|]. split; [rewrite Hg, E; field; lra|].
      repeat constructor; cbn [fst snd]; try reflexivity. rewrite Hg. apply Qlt_shift_div_l; lra.
  - pose proof (body_t1_only t1 Ha) as Hs. unfold shape1 in Hs.
    destruct (run_body relax_body (Some t1) None) as [[|[[k s] g] [|? ?]]| | |]; try contradiction.
    destruct Hs as [Hk [-> Hg]]. destruct k; try discriminate Hk. eexists. split; [reflexivity|].
    unfold rates_ok. cbn [rate_of opk_eqb fst snd].
    split; [rewrite Hg; field; lra|]. split; [reflexivity|].
    repeat constructor; cbn [fst snd]; try reflexivity. rewrite Hg. apply Qlt_shift_div_l; lra.
  - pose proof (body_t2_only t2 Hb) as Hs. unfold shape1 in Hs.
    destruct (run_body relax_body None (Some t2)) as [[|[[k s] g] [|? ?]]| | |]; try contradiction.
    destruct Hs as [Hk [-> Hg]]. destruct k; try discriminate Hk. eexists. split; [reflexivity|].
    unfold rates_ok. cbn [rate_of opk_eqb fst snd].
    split; [reflexivity|]. split; [rewrite Hg; field; lra|].
    repeat constructor; cbn [fst snd]; try reflexivity. rewrite Hg. apply Qlt_shift_div_l; lra.
  - exists []. split; [reflexivity|]. unfold rates_ok. cbn. repeat split; try reflexivity. constructor.
Qed.

(* the body never produces inf/nan, ZeroDivisionError or anything unmodelled on validated times *)
Definition signs_ok (ts : list emit) : Prop := Forall (fun e => snd (fst e) = 1%Z) ts.

Lemma rates_signs a b ts : rates_ok a b ts -> signs_ok ts.
Proof. intros [_ [_ H]]. unfold signs_ok. eapply Forall_impl; [|exact H]. intros e [He _]. exact He. Qed.

Lemma body_total a b : valid a -> valid b ->
  (exists ts, run_body relax_body a b = Ok ts /\ signs_ok ts) \/ run_body relax_body a b = Raised ErrValue.
Proof.
  intros Ha Hb. destruct a as [t1|] eqn:Ea, b as [t2|] eqn:Eb.
  - simpl in Ha, Hb. destruct (Qlt_le_dec (2 * t1) t2) as [L|L].
    + right. apply body_reject; assumption.
    + left. destruct (body_rates (Some t1) (Some t2)) as [ts [H Hr]]; simpl; auto. eauto using rates_signs.
  - left. destruct (body_rates (Some t1) None) as [ts [H Hr]]; simpl; auto. eauto using rates_signs.
  - left. destruct (body_rates None (Some t2)) as [ts [H Hr]]; simpl; auto. eauto using rates_signs.
  - left. exists []. split; [apply body_none_none | constructor].
Qed.

(* ---------------------------------------------------------------------------------------------- *)
(* _T_to_list                                                                                      *)
(* ---------------------------------------------------------------------------------------------- *)
Lemma ttl_none N : t_to_list ttl_rules N TNone = Ok (repeat None N).
Proof. reflexivity. Qed.

Lemma ttl_scalar N t : t_to_list ttl_rules N (TScalar t) = if Qlt_bool 0 t then Ok (repeat (Some t) N) else Raised ErrValue.
Proof. unfold ttl_rules. cbn [t_to_list geval]. destruct (Qlt_bool 0 t); reflexivity. Qed.

Lemma gall_fold N l acc :
  fold_left (fun acc o => match acc with
                          | Some true => geval N (GOr GIsNone (GAnd GIsReal GPos)) (elt o)
                          | a => a end) l acc
  = match acc with Some true => Some (forallb validb l) | a => a end.
Proof.
  revert acc. induction l as [|o l IH]; intro acc.
  - destruct acc as [[|]|]; reflexivity.
  - cbn [fold_left forallb]. rewrite IH. destruct acc as [[|]|]; try reflexivity.
    destruct o as [q|]; cbn [elt geval validb]; [destruct (Qlt_bool 0 q)|]; reflexivity.
Qed.

Definition elt_guard := GOr GIsNone (GAnd GIsReal GPos).
Lemma gall_eval N l : geval N (GAll elt_guard) (TList l) = Some (forallb validb l).
Proof. exact (gall_fold N l (Some true)). Qed.

Lemma guard2 N l :
  geval N (GAnd GIsIter (GAnd GLenEqN (GAll elt_guard))) (TList l) = Some (Nat.eqb (length l) N && forallb validb l).
Proof.
  change (geval N (GAnd GIsIter (GAnd GLenEqN (GAll elt_guard))) (TList l))
    with (match Some (Nat.eqb (length l) N) with Some true => geval N (GAll elt_guard) (TList l) | x => x end).
  rewrite gall_eval. destruct (Nat.eqb (length l) N); reflexivity.
Qed.

Lemma ttl_list N l :
  t_to_list ttl_rules N (TList l) = if Nat.eqb (length l) N && forallb validb l then Ok l else Raised ErrValue.
Proof.
  unfold ttl_rules. cbn [t_to_list].
  change (geval N (GOr (GAnd GIsReal GPos) GIsNone) (TList l)) with (Some false).
  fold elt_guard. rewrite guard2.
  destruct (Nat.eqb (length l) N && forallb validb l); reflexivity.
Qed.

Lemma validb_valid o : validb o = true <-> valid o.
Proof.
  destruct o as [q|]; simpl; [|tauto]. split; [apply Qlt_bool_true | apply Qlt_bool_intro].
Qed.

(* every accepted T becomes a list of length N whose entries are None or positive; everything else is ValueError *)
Lemma ttl_total N T :
  (exists l, t_to_list ttl_rules N T = Ok l /\ length l = N /\ Forall valid l) \/ t_to_list ttl_rules N T = Raised ErrValue.
Proof.
  destruct T as [|t|l].
  - left. exists (repeat None N). rewrite ttl_none, repeat_length. repeat split.
    apply Forall_forall. intros x Hx. apply repeat_spec in Hx. subst. exact I.
  - rewrite ttl_scalar. destruct (Qlt_bool 0 t) eqn:E; [left|right; reflexivity].
    exists (repeat (Some t) N). rewrite repeat_length. repeat split.
    apply Forall_forall. intros x Hx. apply repeat_spec in Hx. subst. simpl. apply Qlt_bool_true. exact E.
  - rewrite ttl_list. destruct (Nat.eqb (length l) N) eqn:E1; cbn [andb]; [|right; reflexivity].
    destruct (forallb validb l) eqn:E2; [left|right; reflexivity].
    exists l. apply Nat.eqb_eq in E1. repeat split; auto.
    apply Forall_forall. intros x Hx. apply validb_valid. rewrite forallb_forall in E2. auto.
Qed.

(* ---------------------------------------------------------------------------------------------- *)
(* the loop and the whole set-up                                                                   *)
(* ---------------------------------------------------------------------------------------------- *)
Lemma qubit_terms_run body l1 l2 q :
  qubit_terms body l1 l2 q =
  match nth_error l1 q, nth_error l2 q with
  | Some a, Some b => obind (run_body body a b) (fun ops => Ok (map (tag q) ops))
  | _, _ => Raised ErrIndex
  end.
Proof.
  unfold qubit_terms, run_body. destruct (nth_error l1 q); [|reflexivity]. destruct (nth_error l2 q); [|reflexivity].
  destruct (exec body _ _) as [r ops|ops|[u|e| |]]; reflexivity.
Qed.

Lemma nth_error_nth_None (l : list (option Q)) q : (q < length l)%nat -> nth_error l q = Some (nth q l None).
Proof. intro H. apply nth_error_nth'. exact H. Qed.

Lemma loop_ok l1 l2 N ts :
  length l1 = N -> length l2 = N ->
  (forall q, In q ts -> (q < N)%nat /\ valid (nth q l1 None) /\ valid (nth q l2 None) /\ compat (nth q l1 None) (nth q l2 None)) ->
  loop relax_body l1 l2 ts
  = Ok (flat_map (fun q => map (tag q) (spec_ops (nth q l1 None) (nth q l2 None))) ts).
Proof.
  intros L1 L2. induction ts as [|q ts IH]; intro H; [reflexivity|].
  cbn [loop flat_map]. rewrite qubit_terms_run.
  destruct (H q (or_introl eq_refl)) as [Hq [Va [Vb Vc]]].
  rewrite !nth_error_nth_None by lia.
  destruct (body_rates _ _ Va Vb Vc) as [ops [Hr _]].
  unfold spec_ops. rewrite Hr. cbn [obind]. rewrite IH by (intros; apply H; right; assumption).
  reflexivity.
Qed.

Definition tsigns_ok (ops : list term) : Prop := Forall (fun t => snd (fst t) = 1%Z) ops.

Lemma tsigns_no_nan ops : tsigns_ok ops -> existsb nanb ops = false.
Proof.
  intro H. apply not_true_is_false. intro E. apply existsb_exists in E. destruct E as [t [Ht Hn]].
  unfold tsigns_ok in H. rewrite Forall_forall in H. specialize (H t Ht). unfold nanb in Hn. rewrite H in Hn. discriminate.
Qed.

Lemma tsigns_map q ts : signs_ok ts -> tsigns_ok (map (tag q) ts).
Proof. intro H. unfold tsigns_ok. apply Forall_map. eapply Forall_impl; [|exact H]. intros e He. exact He. Qed.

Lemma loop_total l1 l2 ts :
  Forall valid l1 -> Forall valid l2 ->
  (exists ops, loop relax_body l1 l2 ts = Ok ops /\ tsigns_ok ops)
  \/ (exists e, loop relax_body l1 l2 ts = Raised e /\ e <> ErrZeroDiv /\ e <> ErrType).
Proof.
  intros V1 V2. induction ts as [|q ts IH]; [left; exists []; split; [reflexivity|constructor]|].
  cbn [loop]. rewrite qubit_terms_run.
  destruct (nth_error l1 q) as [a|] eqn:E1; [|right; exists ErrIndex; repeat split; discriminate].
  destruct (nth_error l2 q) as [b|] eqn:E2; [|right; exists ErrIndex; repeat split; discriminate].
  assert (Va : valid a) by (rewrite Forall_forall in V1; apply V1; eapply nth_error_In; eauto).
  assert (Vb : valid b) by (rewrite Forall_forall in V2; apply V2; eapply nth_error_In; eauto).
  destruct (body_total a b Va Vb) as [[ops [Hr Hs]]|Hr]; rewrite Hr; cbn [obind].
  - destruct IH as [[ops' [Hl Hs']]|[e [Hl He]]]; rewrite Hl; cbn [obind]; [left | right; eauto].
    eexists. split; [reflexivity|]. apply Forall_app. split; [apply tsigns_map; exact Hs | exact Hs'].
  - right. exists ErrValue. repeat split; discriminate.
Qed.

Lemma lencheck_pass (l1 l2 : list (option Q)) N : length l1 = N -> length l2 = N ->
  relax_lencheck && negb (Nat.eqb (length l1) N && Nat.eqb (length l2) N) = false.
Proof. intros -> <-. rewrite !Nat.eqb_refl. destruct relax_lencheck; reflexivity. Qed.

(* --- totality on the admissible domain, with the exact result -------------------------------------------- *)
Definition admissible (N : nat) (l1 l2 : list (option Q)) : Prop :=
  length l1 = N /\ length l2 = N /\
  forall q, (q < N)%nat -> valid (nth q l1 None) /\ valid (nth q l2 None) /\ compat (nth q l1 None) (nth q l2 None).

Lemma spec_ops_rates a b : valid a -> valid b -> compat a b -> rates_ok a b (spec_ops a b).
Proof. intros Va Vb Vc. destruct (body_rates a b Va Vb Vc) as [ts [Hr Ho]]. unfold spec_ops. rewrite Hr. exact Ho. Qed.

Lemma admissible_forall N l1 l2 : admissible N l1 l2 -> forallb validb l1 = true /\ forallb validb l2 = true.
Proof.
  intros [L1 [L2 H]]. split; apply forallb_forall; intros x Hx; apply validb_valid;
    apply (In_nth _ _ None) in Hx; destruct Hx as [q [Hq Hn]]; subst x.
  - apply H. lia.
  - apply H. lia.
Qed.

Lemma setup_lists_ok N l1 l2 : admissible N l1 l2 ->
  S N None (TList l1) (TList l2)
  = Ok (flat_map (fun q => map (tag q) (spec_ops (nth q l1 None) (nth q l2 None))) (seq 0 N)).
Proof.
  intro A. destruct (admissible_forall _ _ _ A) as [F1 F2]. destruct A as [L1 [L2 H]].
  unfold S, setup. rewrite !ttl_list, F1, F2.
  rewrite (proj2 (Nat.eqb_eq _ _) L1), (proj2 (Nat.eqb_eq _ _) L2). cbn [andb negb obind].
  rewrite lencheck_pass by assumption.
  rewrite (loop_ok l1 l2 N); auto; [|intros q Hq; apply in_seq in Hq; split; [lia|]; apply H; lia].
  cbn [obind]. rewrite tsigns_no_nan; [reflexivity|].
  unfold tsigns_ok. apply Forall_forall. intros t Ht. apply in_flat_map in Ht. destruct Ht as [q [Hq Ht]].
  apply in_seq in Hq. destruct (H q) as [Va [Vb Vc]]; [lia|].
  pose proof (tsigns_map q _ (rates_signs _ _ _ (spec_ops_rates _ _ Va Vb Vc))) as F.
  unfold tsigns_ok in F. rewrite Forall_forall in F. apply F. exact Ht.
Qed.

(* scalars (and None) are the constant lists *)
Definition as_list (N : nat) (T : tval) : list (option Q) :=
  match T with TNone => repeat None N | TScalar t => repeat (Some t) N | TList l => l end.
Definition scalar_ok (T : tval) : Prop := match T with TScalar t => 0 < t | _ => True end.

Lemma setup_as_list N tg T1 T2 : scalar_ok T1 -> scalar_ok T2 ->
  S N tg T1 T2 = S N tg (TList (as_list N T1)) (TList (as_list N T2)).
Proof.
  assert (X : forall T, scalar_ok T -> t_to_list ttl_rules N T = t_to_list ttl_rules N (TList (as_list N T))).
  { intros [|t|l] Hs; cbn [as_list]; [| |reflexivity].
    - rewrite ttl_none, ttl_list, repeat_length, Nat.eqb_refl. cbn [andb].
      replace (forallb validb (repeat None N)) with true; [reflexivity|].
      symmetry. apply forallb_forall. intros x Hx. apply repeat_spec in Hx. subst. reflexivity.
    - simpl in Hs. rewrite ttl_scalar, ttl_list, repeat_length, Nat.eqb_refl, (Qlt_bool_intro _ _ Hs). cbn [andb].
      replace (forallb validb (repeat (Some t) N)) with true; [reflexivity|].
      symmetry. apply forallb_forall. intros x Hx. apply repeat_spec in Hx. subst. simpl. apply Qlt_bool_intro. exact Hs. }
  intros H1 H2. unfold S, setup. rewrite (X T1 H1), (X T2 H2). reflexivity.
Qed.

Lemma nth_repeat {A} (x d : A) N q : (q < N)%nat -> nth q (repeat x N) d = x.
Proof. revert q. induction N; intros q H; [lia|]. destruct q; simpl; [reflexivity|]. apply IHN. lia. Qed.

Lemma flat_map_ext_in' {A B} (f g : A -> list B) l : (forall a, In a l -> f a = g a) -> flat_map f l = flat_map g l.
Proof.
  induction l as [|x l IH]; intro H; [reflexivity|]. cbn [flat_map]. rewrite (H x (or_introl eq_refl)), IH; [reflexivity|].
  intros a Ha. apply H. right. exact Ha.
Qed.

Lemma setup_scalars_ok N (a b : option Q) : valid a -> valid b -> compat a b ->
  S N None (match a with Some t => TScalar t | None => TNone end) (match b with Some t => TScalar t | None => TNone end)
  = Ok (flat_map (fun q => map (tag q) (spec_ops a b)) (seq 0 N)).
Proof.
  intros Va Vb Vc.
  rewrite setup_as_list by (destruct a, b; simpl; auto).
  rewrite setup_lists_ok.
  - f_equal. apply flat_map_ext_in'. intros q Hq. apply in_seq in Hq.
    destruct a, b; cbn [as_list]; rewrite !nth_repeat by lia; reflexivity.
  - unfold admissible. destruct a, b; cbn [as_list]; rewrite !repeat_length; repeat split; intros;
      rewrite ?nth_repeat by lia; simpl; auto.
Qed.

(* --- validation ------------------------------------------------------------------------------------------- *)
Lemma reject_T1 N tg T1 T2 : t_to_list ttl_rules N T1 = Raised ErrValue -> S N tg T1 T2 = Raised ErrValue.
Proof. intro H. unfold S, setup. rewrite H. reflexivity. Qed.

Lemma reject_T2 N tg T1 T2 : t_to_list ttl_rules N T2 = Raised ErrValue -> is_rejected (S N tg T1 T2) = true.
Proof.
  intro H. unfold S, setup. destruct (ttl_total N T1) as [[l [Hl _]]|Hl]; rewrite Hl; cbn [obind]; [|reflexivity].
  rewrite H. reflexivity.
Qed.

Lemma ttl_nonpos_scalar N t : t <= 0 -> t_to_list ttl_rules N (TScalar t) = Raised ErrValue.
Proof. intro H. rewrite ttl_scalar, (Qlt_bool_intro_f _ _ H). reflexivity. Qed.

Lemma ttl_wrong_length N l : length l <> N -> t_to_list ttl_rules N (TList l) = Raised ErrValue.
Proof. intro H. rewrite ttl_list. apply Nat.eqb_neq in H. rewrite H. reflexivity. Qed.

Lemma ttl_nonpos_entry N l t : In (Some t) l -> t <= 0 -> t_to_list ttl_rules N (TList l) = Raised ErrValue.
Proof.
  intros Hi Ht. rewrite ttl_list. replace (forallb validb l) with false; [rewrite andb_false_r; reflexivity|].
  symmetry. apply not_true_is_false. intro F. rewrite forallb_forall in F. specialize (F _ Hi). simpl in F.
  apply Qlt_bool_true in F. lra.
Qed.

Lemma loop_reject l1 l2 ts q t1 t2 :
  Forall valid l1 -> Forall valid l2 -> In q ts ->
  nth_error l1 q = Some (Some t1) -> nth_error l2 q = Some (Some t2) -> 2 * t1 < t2 ->
  is_rejected (loop relax_body l1 l2 ts) = true.
Proof.
  intros V1 V2 Hin E1 E2 Hlt. induction ts as [|p ts IH]; [destruct Hin|].
  cbn [loop]. destruct Hin as [->|Hin].
  - rewrite qubit_terms_run, E1, E2.
    assert (Va : 0 < t1) by (rewrite Forall_forall in V1; apply (V1 (Some t1)); eapply nth_error_In; eauto).
    assert (Vb : 0 < t2) by (rewrite Forall_forall in V2; apply (V2 (Some t2)); eapply nth_error_In; eauto).
    rewrite (body_reject t1 t2 Va Vb Hlt). reflexivity.
  - specialize (IH Hin). rewrite qubit_terms_run.
    destruct (nth_error l1 p) as [a|] eqn:F1; [|reflexivity]. destruct (nth_error l2 p) as [b|] eqn:F2; [|reflexivity].
    assert (Va : valid a) by (rewrite Forall_forall in V1; apply V1; eapply nth_error_In; eauto).
    assert (Vb : valid b) by (rewrite Forall_forall in V2; apply V2; eapply nth_error_In; eauto).
    destruct (body_total a b Va Vb) as [[ops [Hr _]]|Hr]; rewrite Hr; cbn [obind]; [|reflexivity].
    destruct (loop relax_body l1 l2 ts); try discriminate IH. reflexivity.
Qed.

Lemma setup_reject_t2_gt_2t1 N tg T1 T2 q t1 t2 :
  In q (match tg with None => seq 0 N | Some ts => ts end) ->
  nth_error (as_list N T1) q = Some (Some t1) -> nth_error (as_list N T2) q = Some (Some t2) -> 2 * t1 < t2 ->
  is_rejected (S N tg T1 T2) = true.
Proof.
  intros Hin E1 E2 Hlt. unfold S, setup.
  destruct (ttl_total N T1) as [[l1 [Hl1 [L1 V1]]]|Hl1]; rewrite Hl1; cbn [obind]; [|reflexivity].
  destruct (ttl_total N T2) as [[l2 [Hl2 [L2 V2]]]|Hl2]; rewrite Hl2; cbn [obind]; [|reflexivity].
  rewrite lencheck_pass by assumption.
  assert (X : forall T l, t_to_list ttl_rules N T = Ok l -> l = as_list N T).
  { intros [|t|l'] l H.
    - rewrite ttl_none in H. inversion H. reflexivity.
    - rewrite ttl_scalar in H. destruct (Qlt_bool 0 t); inversion H. reflexivity.
    - rewrite ttl_list in H. destruct (_ && _); inversion H. reflexivity. }
  rewrite (X _ _ Hl1) in *. rewrite (X _ _ Hl2) in *.
  match goal with |- context [loop ?b ?x ?y ?z] => pose proof (loop_reject x y z q t1 t2 V1 V2 Hin E1 E2 Hlt) as Hrj;
    destruct (loop b x y z); try discriminate Hrj; reflexivity end.
Qed.

(* --- nothing non-finite, no ZeroDivisionError, nothing unmodelled: for EVERY input ----------------------- *)
Lemma setup_outcomes N tg T1 T2 :
  (exists ops, S N tg T1 T2 = Ok ops) \/ (exists e, S N tg T1 T2 = Raised e /\ e <> ErrZeroDiv /\ e <> ErrType).
Proof.
  unfold S, setup.
  destruct (ttl_total N T1) as [[l1 [Hl1 [L1 V1]]]|Hl1]; rewrite Hl1; cbn [obind];
    [|right; exists ErrValue; repeat split; discriminate].
  destruct (ttl_total N T2) as [[l2 [Hl2 [L2 V2]]]|Hl2]; rewrite Hl2; cbn [obind];
    [|right; exists ErrValue; repeat split; discriminate].
  rewrite lencheck_pass by assumption.
  match goal with |- context [loop ?b ?x ?y ?z] => destruct (loop_total x y z V1 V2) as [[ops [Hl Hs]]|[e [Hl He]]] end;
    rewrite Hl; cbn [obind].
  - left. rewrite (tsigns_no_nan _ Hs). eauto.
  - right. eauto.
Qed.

(* --- the unchanged code: witnesses ------------------------------------------------------------------------ *)
Lemma v0_boundary_zerodiv : S0 1 None (TScalar 1) (TScalar 2) = Raised ErrZeroDiv.
Proof. vm_compute. reflexivity. Qed.
Lemma v0_boundary_list_zerodiv : S0 2 None (TList [Some (1#2); Some 3]) (TList [Some 1; Some 6]) = Raised ErrZeroDiv.
Proof. vm_compute. reflexivity. Qed.
Lemma v0_negative_entry_nonfinite : S0 1 None (TList [Some (-1)]) TNone = NonFinite.
Proof. vm_compute. reflexivity. Qed.
Lemma v0_zero_entry_nonfinite : S0 1 None TNone (TList [Some 0]) = NonFinite.
Proof. vm_compute. reflexivity. Qed.

(* --- validation, stated on the whole set-up ----------------------------------------------------------------- *)
Lemma validation_scalar_t1 N tg t T2 : t <= 0 -> S N tg (TScalar t) T2 = Raised ErrValue.
Proof. intro H. apply reject_T1, ttl_nonpos_scalar, H. Qed.
Lemma validation_scalar_t2 N tg t T1 : t <= 0 -> is_rejected (S N tg T1 (TScalar t)) = true.
Proof. intro H. apply reject_T2, ttl_nonpos_scalar, H. Qed.
Lemma validation_length_t1 N tg l T2 : length l <> N -> S N tg (TList l) T2 = Raised ErrValue.
Proof. intro H. apply reject_T1, ttl_wrong_length, H. Qed.
Lemma validation_length_t2 N tg l T1 : length l <> N -> is_rejected (S N tg T1 (TList l)) = true.
Proof. intro H. apply reject_T2, ttl_wrong_length, H. Qed.
Lemma validation_entry_t1 N tg l t T2 : In (Some t) l -> t <= 0 -> S N tg (TList l) T2 = Raised ErrValue.
Proof. intros H H'. apply reject_T1. eapply ttl_nonpos_entry; eauto. Qed.
Lemma validation_entry_t2 N tg l t T1 : In (Some t) l -> t <= 0 -> is_rejected (S N tg T1 (TList l)) = true.
Proof. intros H H'. apply reject_T2. eapply ttl_nonpos_entry; eauto. Qed.

(* concrete runs used as non-vacuity examples *)
Lemma ex_boundary : S 2 None (TScalar 1) (TScalar 2) = Ok [(0%nat, KDestroy, 1%Z, 1 * 1 / 1); (1%nat, KDestroy, 1%Z, 1 * 1 / 1)].
Proof. vm_compute. reflexivity. Qed.
Lemma ex_admissible : admissible 2 [Some (1#2); None] [Some 1; Some 3].
Proof.
  unfold admissible. repeat split; destruct q as [|[|q]]; simpl; try lia; try exact I; try reflexivity; try discriminate.
Qed.

Lemma total_refuted_v0 : exists N a b, valid a /\ valid b /\ compat a b /\
  S0 N None (match a with Some t => TScalar t | None => TNone end) (match b with Some t => TScalar t | None => TNone end)
  = Raised ErrZeroDiv.
Proof.
  exists 1%nat, (Some 1), (Some 2). split; [reflexivity|]. split; [reflexivity|]. split; [simpl; lra|]. exact v0_boundary_zerodiv.
Qed.
Lemma outcomes_refuted_v0 : exists N tg T1 T2, S0 N tg T1 T2 = NonFinite.
Proof. exists 1%nat, None, (TList [Some (-1)]), TNone. exact v0_negative_entry_nonfinite. Qed.
