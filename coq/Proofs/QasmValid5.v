(* C10 export_valid, step 5: the statements of the program the strict reader returns for the exported text are exactly the
   statements export_denotes / roundtrip (Proofs/QasmExport.v) speak about: statement i is  q(numerals) q[i1],..,q[ik];  for gate i
   of the circuit, with (gate name, q) exportable, k and the number of numerals as in qsig, the qubits distinct, and - when the
   gate has no qelib1 counterpart - the definition of q in the program is the one std_stmt / imp_stmt expand. *)
From Coq Require Import Lia Ascii String ZArith.
From QV Require Import Spec.QasmStrict Model.QasmImport Model.QasmExport Gen.Qasm.
From QV Require Import Proofs.QasmLex Proofs.QasmLex2 Proofs.QasmLex3 Proofs.QasmLex4 Proofs.QasmLex5.
From QV Require Import Proofs.QasmValid1 Proofs.QasmValid2 Proofs.QasmValid3 Proofs.QasmValid4.
From QV Require Proofs.QasmExport.
Local Open Scope string_scope.
Local Open Scope nat_scope.
Local Open Scope list_scope.

Lemma exp_pairs_exportable : exp_pairs = QasmExport.exportable. Proof. reflexivity. Qed.

Definition sig_eqb (a b : option (nat * nat)) : bool :=
  match a, b with Some (x, y), Some (u, v) => (x =? u) && (y =? v) | None, None => true | _, _ => false end.
Lemma sig_eqb_eq a b : sig_eqb a b = true -> a = b.
Proof.
  destruct a as [[x y]|], b as [[u v]|]; cbn; intros H; try discriminate; [|reflexivity].
  apply andb_prop in H. destruct H as [H1 H2]. apply Nat.eqb_eq in H1. apply Nat.eqb_eq in H2. subst. reflexivity.
Qed.
Lemma name_sig_qsig_tbl : forallb (fun p => sig_eqb (name_sig (fst p)) (QasmExport.qsig (fst p) (snd p))) exp_pairs = true.
Proof. vm_compute. reflexivity. Qed.
Lemma name_sig_qsig g q : In (g, q) exp_pairs -> name_sig g = QasmExport.qsig g q.
Proof. intros H. pose proof name_sig_qsig_tbl as C. rewrite forallb_forall in C. exact (sig_eqb_eq _ _ (C _ H)). Qed.
Lemma names_without_defn : forallb (fun p => match sassoc (fst p) export_defns with None => true | Some _ => false end) export_names = true.
Proof. vm_compute. reflexivity. Qed.

Lemma nnodup_NoDup l : nnodup l = true -> NoDup l.
Proof.
  induction l as [|x l IH]; intros H; [constructor|]. cbn [nnodup] in H. apply andb_prop in H. destruct H as [H1 H2].
  constructor; [|exact (IH H2)]. intros Hin. apply Bool.negb_true_iff in H1.
  assert (existsb (Nat.eqb x) l = true) by (apply existsb_exists; exists x; split; [exact Hin|apply Nat.eqb_refl]). congruence.
Qed.

(* what one statement of the parsed program is, relative to the gate it comes from *)
Definition stmt_of_gate (c : ecirc) (o : eop) (s : op) : Prop :=
  match o with
  | EGate name t ct a _ =>
      exists q np nq,
        In (name, q) QasmExport.exportable /\ QasmExport.qsig name q = Some (np, nq) /\
        s = OApp q (List.map numexpr (arg_nums a)) (List.map (AIdx "q") (ct ++ t)) /\
        length (arg_nums a) = np /\ length (ct ++ t) = nq /\ NoDup (ct ++ t) /\ Forall (fun i => i < e_N c) (ct ++ t) /\
        (QasmExport.defn_of name = Some None \/
         exists d, QasmExport.defn_of name = Some (Some (q, d)) /\ In (GDef q d) (p_gates (prog_of c)))
  | EMeas _ _ => False
  end.

Theorem stmts_link c txt : export c = Some txt -> no_meas c = true -> circ_wf c = true ->
  Forall2 (stmt_of_gate c) (e_ops c) (p_ops (prog_of c)).
Proof.
  intros He Hnm Hwf. destruct (export_inv c txt He) as [[stmts Hst] [Hns Hexp]].
  unfold circ_wf in Hwf. apply andb_prop in Hwf. destruct Hwf as [_ Hg].
  assert (Hfresh : forall n, In n (def_names export_names (e_ops c)) -> sassoc n export_names = None) by (intros n Hin; exact (def_names_fresh _ _ _ Hin)).
  unfold prog_of at 1. cbn [p_ops]. unfold no_meas in Hnm.
  assert (G : forall ops stmts, omap (op_text (final_map c)) ops = Some stmts ->
            forallb (fun o => match o with EMeas _ _ => false | _ => true end) ops = true -> forallb (gate_wf (e_N c)) ops = true ->
            Forall2 (stmt_of_gate c) ops (flat_map (op_prog (final_map c)) ops)); [|exact (G _ _ Hst Hnm Hg)].
  clear stmts Hst Hnm Hg. intros ops. induction ops as [|o ops IH]; intros stmts Hst Hnm Hg; [constructor|].
  cbn [omap] in Hst. destruct (op_text (final_map c) o) as [line|] eqn:Eo; [|discriminate].
  destruct (omap (op_text (final_map c)) ops) as [rest|] eqn:Er; [|discriminate].
  cbn [forallb] in Hnm, Hg. apply andb_prop in Hnm. destruct Hnm as [Hn1 Hn2]. apply andb_prop in Hg. destruct Hg as [Hg1 Hg2].
  destruct o as [name t ct a cc|t s]; [|discriminate]. destruct (op_text_gate _ _ _ _ _ _ _ Eo) as [q [Eq [-> Es]]].
  cbn [flat_map op_prog]. rewrite Eq. cbn [app]. constructor; [|apply (IH rest); auto].
  cbn [gate_wf] in Hg1. destruct (name_sig name) as [[np nq]|] eqn:Esig; [|discriminate].
  apply andb_prop in Hg1. destruct Hg1 as [Hg1 Hd]. apply andb_prop in Hg1. destruct Hg1 as [Hg1 Hr]. apply andb_prop in Hg1. destruct Hg1 as [Ha Hq].
  apply Nat.eqb_eq in Ha. apply Nat.eqb_eq in Hq. pose proof (Hexp _ _ Eq) as Hin.
  cbn [stmt_of_gate]. exists q, np, nq. rewrite <- exp_pairs_exportable. split; [exact Hin|]. split; [rewrite <- (name_sig_qsig _ _ Hin); exact Esig|].
  split; [reflexivity|]. split; [exact Ha|]. split; [exact Hq|]. split; [exact (nnodup_NoDup _ Hd)|]. split.
  { apply Forall_forall. intros i Hi. rewrite forallb_forall in Hr. apply Nat.ltb_lt. exact (Hr i Hi). }
  unfold final_map in Eq. rewrite sassoc_app in Eq.
  destruct (sassoc name (rev (low_pairs (def_names export_names (e_ops c))))) as [q'|] eqn:E1.
  - right. injection Eq as ->. apply sassoc_in in E1. apply in_rev in E1. unfold low_pairs in E1. apply in_map_iff in E1.
    destruct E1 as [n [E Hn]]. injection E as -> <-. rewrite Forall_forall in Hns. pose proof (Hns _ Hn) as Hd'.
    destruct (defn_facts name Hd') as [d [Eg _]]. exists d. split.
    + unfold QasmExport.defn_of. unfold dtext, gitem_of in Eg. destruct (sassoc name export_defns) as [tx|]; [|contradiction].
      destruct (parse_defn tx) as [[n' d'|]|]; try discriminate Eg. injection Eg as -> ->. reflexivity.
    + unfold prog_of. cbn [p_gates]. apply in_map_iff. exists name. split; [exact Eg|exact Hn].
  - left. unfold QasmExport.defn_of. pose proof names_without_defn as C. rewrite forallb_forall in C. specialize (C _ (sassoc_in _ _ _ Eq)). cbn [fst] in C.
    destruct (sassoc name export_defns); [discriminate|reflexivity].
Qed.
