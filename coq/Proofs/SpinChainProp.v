(* C06, composition layer, part 2: for SEQUENTIAL compilation (schedule_mode None) the composition principle is PROVED
   inside a model instead of assumed.

   Model of the propagation: the ordered product over the slices of the merged grid of slice propagators
   P (coefficient vector of the controls) (duration) -- exactly the (dt_n, (c_m)_m) list that C14's predicate
   Spec/FillSpec.slices_ok describes and that Props/C14.v slices_are_piecewise_H proves of the loop of run_analytically.
   P is an ABSTRACT Section variable standing for  exp(-i dt sum_m c_m H_m) ; what is used of it:
     P_time, P_zero, P_add (one-parameter group in the duration), P_idle (all coefficients zero), and
     P_cal : on the coefficient vector of ONE compiled instruction, for that instruction's duration, P is the closed-form
             pulse unitary of the instruction (the closed forms are the ones calibration_ok is about).
   Proved: the whole propagator is the ordered product of the per-instruction closed forms (windows_are_pulses), hence
   (pulses_are_gates) the semantics of the transpiled circuit, hence -- with the phase factors -- the original circuit. *)
From Coq Require Import ZArith QArith String List Bool Lia Lqa FunctionalExtensionality.
From QV Require Import Found.Base Found.Lemmas Found.KS Found.KSProofs Found.Sym Found.SymProofs Found.Circ
  Model.SpinChainTypes Gen.SpinChain Model.Concat Model.SpinChain Model.Fill Spec.FillSpec
  Proofs.SpinChainCal Proofs.SpinChainRule Proofs.SpinChainSem Proofs.SpinChainSlices.
Import ListNotations.
Local Open Scope string_scope.

Lemma ivec_nil labels : Forall (fun c => (c == 0)%Q) (ivec labels []).
Proof. unfold ivec. apply Forall_forall. intros x Hx. apply in_map_iff in Hx. destruct Hx as [m [<- _]]. reflexivity. Qed.

(* the executable slicing of a sequentially compiled table (Model/SpinChain.v seq_slices: one slice per instruction of
   positive duration) has the propagator of the instruction windows *)
Lemma seq_slices_windows St (P : list Q -> Q -> St -> St) labels
  (P_time : forall h a b s, (a == b)%Q -> P h a s = P h b s) (P_zero : forall h s, P h 0%Q s = s) :
  forall il, Forall (fun i => (0 <= fst i)%Q) il ->
  forall x, prop_slices St P (seq_slices labels il) x = prop_windows St P (windows_of labels il) x.
Proof.
  induction il as [|[d ps] il IH]; intros Hd x; [reflexivity|]. inversion Hd as [|? ? H0 Hr]; subst. cbn [fst] in H0.
  cbn [seq_slices flat_map windows_of map fst snd]. fold (seq_slices labels il). fold (windows_of labels il).
  unfold prop_windows. cbn [fold_left fst snd]. fold (prop_windows St P (windows_of labels il)).
  destruct (Qlt_b 0 d) eqn:E.
  - cbn [app]. unfold prop_slices. cbn [fold_left fst snd]. fold (prop_slices St P (seq_slices labels il)). apply IH. exact Hr.
  - cbn [app]. rewrite IH by exact Hr.
    assert (d == 0)%Q. { apply SpinChainCal.Qlt_b_false in E. lra. }
    rewrite (P_time _ d 0%Q) by assumption. rewrite P_zero. reflexivity.
Qed.

Lemma prop_windows_cons St (P : list Q -> Q -> St -> St) w ws x :
  prop_windows St P (w :: ws) x = prop_windows St P ws (P (snd w) (fst w) x).
Proof. reflexivity. Qed.

Section Sequential.
Variable R : PhaseRing.
Variable env : nat -> atoms R.
Variable labels : list label.
Variable P : list Q -> Q -> state R -> state R.
Hypothesis P_time : forall h a b s, (a == b)%Q -> P h a s = P h b s.
Hypothesis P_zero : forall h s, P h 0%Q s = s.
Hypothesis P_add : forall h a b s, (0 <= a)%Q -> (0 <= b)%Q -> P h (a + b)%Q s = P h b (P h a s).
Hypothesis P_idle : forall h t s, Forall (fun c => (c == 0)%Q) h -> P h t s = s.

Variable c : cfg.
Variable gs : list ngate.
(* the slice propagator of the calibrated single-pulse Hamiltonian of instruction i, for the instruction's duration, is
   the closed-form pulse unitary (closed form of the label's Hamiltonian kind at the phase scale * area, on the label's
   qubits, at the parameter values of gate i) *)
Hypothesis P_cal : forall i g d lb co sp s,
  nth_error gs i = Some g -> compile_gate c g = Ok (CInstr d [(lb, co)]) -> pulse_sgate c (g_name g) lb = Some sp ->
  P (ivec labels [(lb, co)]) d s = sem [gden R (env i) sp] s.

Lemma windows_are_pulses : forall l i p il ph pc,
  (forall k g, nth_error l k = Some g -> nth_error gs (i + k) = Some g) ->
  compile_gates c l p = Ok (il, ph) -> pulse_icirc c l i = Some pc ->
  forall x, prop_windows (state R) P (windows_of labels il) x = sem (iden R env pc) x.
Proof.
  induction l as [|g r IH]; intros i p il ph pc Hidx Hc Hp x.
  - cbn [compile_gates] in Hc. injection Hc as <- _. cbn [pulse_icirc] in Hp. injection Hp as <-. reflexivity.
  - assert (Hidx' : forall k g0, nth_error r k = Some g0 -> nth_error gs (S i + k) = Some g0).
    { intros k g0 H. replace (S i + k)%nat with (i + S k)%nat by lia. apply Hidx. exact H. }
    cbn [compile_gates] in Hc. cbn [pulse_icirc] in Hp.
    destruct (compile_gate c g) as [y|] eqn:Eg; cbn [rbind] in Hc; [|discriminate].
    destruct (is_pulse_gate g) eqn:Ep.
    + destruct (pulse_single c g y Ep Eg) as [d [lb [co ->]]].
      destruct (compile_gates c r p) as [[il' ph']|] eqn:Er; cbn [rbind fst snd] in Hc; [|discriminate].
      injection Hc as <- _.
      destruct (pulse_sgate c (g_name g) lb) as [sp|] eqn:Esp; [|discriminate].
      destruct (pulse_icirc c r (S i)) as [l'|] eqn:El; [|discriminate]. injection Hp as <-.
      cbn [windows_of map]. rewrite prop_windows_cons. cbn [fst snd]. fold (windows_of labels il').
      rewrite (P_cal i g d lb co sp x); [|replace i with (i + 0)%nat by lia; apply Hidx; reflexivity|exact Eg|exact Esp].
      rewrite (IH (S i) p il' ph' l' Hidx' Er El).
      cbn [iden map fst snd]. symmetry. apply (sem_cons R).
    + pose proof (not_pulse_no_pulses c g y Ep Eg) as Hy.
      destruct y as [d ps|a|].
      * subst ps. destruct (compile_gates c r p) as [[il' ph']|] eqn:Er; cbn [rbind fst snd] in Hc; [|discriminate].
        injection Hc as <- _. cbn [windows_of map]. rewrite prop_windows_cons. cbn [fst snd]. fold (windows_of labels il').
        rewrite P_idle by apply ivec_nil. exact (IH (S i) p il' ph' pc Hidx' Er Hp x).
      * exact (IH (S i) _ il ph pc Hidx' Hc Hp x).
      * exact (IH (S i) _ il ph pc Hidx' Hc Hp x).
Qed.

(* ---- the composition principle for sequential compilation, proved ---- *)
Variable fs : list (Q -> Q).               (* the compiled table read as functions of time, in the order of [labels] *)
Theorem sequential_composition il ph pc full sl :
  compile_gates c gs 0%Q = Ok (il, ph) -> pulse_icirc c gs 0 = Some pc ->
  (* interface with C12 (the table is the scheduled waveforms) and C14 (the loop's slices are piecewise H): *)
  grid_windows 0%Q (windows_of labels il) full -> slices_ok fs full sl -> wave_is fs 0%Q (windows_of labels il) ->
  forall x, prop_slices (state R) P sl x = sem (iden R env pc) x.
Proof.
  intros Hc Hp G S W x.
  rewrite (windows_prop (state R) P P_time P_zero P_add P_idle fs (windows_of labels il) 0%Q full sl G S W x).
  apply (windows_are_pulses gs 0 0%Q il ph pc); [intros k g H; exact H|exact Hc|exact Hp].
Qed.

(* ---- end-to-end for sequential compilation: no composition hypothesis ---- *)
Variable original_sem : state R -> state R.
Hypothesis c13_transpile_native : wf_circuit c gs.
Hypothesis c13_transpile_sem : original_sem = sem (iden R env (full_icirc gs 0)).

Theorem sequential_reproduces_circuit il ph full sl :
  setup_ok c -> compile_gates c gs 0%Q = Ok (il, ph) ->
  grid_windows 0%Q (windows_of labels il) full -> slices_ok fs full sl -> wave_is fs 0%Q (windows_of labels il) ->
  (forall psi, sem (iden R env (phase_icirc gs 0)) (prop_slices (state R) P sl psi) = original_sem psi) /\
  (ph == sum_phase gs)%Q.
Proof.
  intros Hs Hc G S W. split.
  - intros psi. destruct (pulses_are_gates c gs Hs c13_transpile_native 0%Q il ph 0%nat Hc) as [pc [Hpc Hsem]].
    rewrite (sequential_composition il ph pc full sl Hc Hpc G S W psi), (Hsem R env), c13_transpile_sem.
    symmetry. apply full_split.
  - rewrite (compile_gates_phase c gs 0%Q il ph Hc). ring.
Qed.

(* the same for the EXECUTABLE slicing of the model (Model/SpinChain.v seq_run / seq_slices, tied to the real
   get_full_tlist / get_full_coeffs by the correspondence check): no interface hypothesis at all *)
Theorem sequential_run_reproduces_circuit il ph :
  setup_ok c -> compile_gates c gs 0%Q = Ok (il, ph) -> Forall (fun i => (0 <= fst i)%Q) il ->
  (forall psi, sem (iden R env (phase_icirc gs 0)) (prop_slices (state R) P (seq_slices labels il) psi) = original_sem psi) /\
  (ph == sum_phase gs)%Q.
Proof.
  intros Hs Hc Hd. split.
  - intros psi. destruct (pulses_are_gates c gs Hs c13_transpile_native 0%Q il ph 0%nat Hc) as [pc [Hpc Hsem]].
    rewrite (seq_slices_windows (state R) P labels P_time P_zero il Hd psi).
    rewrite (windows_are_pulses gs 0 0%Q il ph pc (fun k g H => H) Hc Hpc psi), (Hsem R env), c13_transpile_sem.
    symmetry. apply full_split.
  - rewrite (compile_gates_phase c gs 0%Q il ph Hc). ring.
Qed.
End Sequential.
