(* C10: export_denotes / roundtrip restated for the statements of the PARSED exported text: statement i of the program the
   strict reader returns is the statement of gate i, and its standard meaning (resp. what the importer model builds from it),
   placed on the gate's own qubits, has the gate's action up to the explicit phase - for all parameter values. *)
From QV Require Import Model.QasmImport Model.QasmExport Spec.QasmStrict Spec.QasmSem Found.Circ Gen.Gates Gen.Qasm.
From QV Require Import Proofs.QasmShortcut Proofs.QasmExport Proofs.QasmLex5 Proofs.QasmValid2 Proofs.QasmValid3 Proofs.QasmValid4 Proofs.QasmValid5.
Local Open Scope string_scope.
Local Open Scope nat_scope.
Local Open Scope list_scope.

Definition stmt_denotes (R : PhaseRing) (A : atoms R) (o : eop) (s : op) : Prop :=
  match o with
  | EGate name t ct a _ =>
      exists q, In (name, q) exportable /\ s = OApp q (List.map numexpr (arg_nums a)) (List.map (AIdx "q") (List.app ct t)) /\
        (forall c1 c2, gate_sym name q = Some c1 -> std_stmt name q = Some c2 ->
           sem (place (List.app ct t) (List.map (gden R A) c1)) =
           sem (place (List.app ct t) (List.map (gden R A) (with_phase (std_phase name) c2)))) /\
        (forall c1 c2, gate_sym name q = Some c1 -> imp_stmt name q = Some c2 ->
           sem (place (List.app ct t) (List.map (gden R A) c1)) =
           sem (place (List.app ct t) (List.map (gden R A) (with_phase (imp_phase name) c2))))
  | EMeas _ _ => False
  end.

Theorem stmts_denote (R : PhaseRing) (A : atoms R) (c : QV.Model.QasmExport.ecirc) txt :
  export c = Some txt -> no_meas c = true -> circ_wf c = true ->
  Forall2 (stmt_denotes R A) (e_ops c) (p_ops (prog_of c)).
Proof.
  intros He Hnm Hwf. pose proof (stmts_link c txt He Hnm Hwf) as L.
  induction L as [|o s ops ss H _ IH]; [constructor|]. constructor; [|exact IH].
  destruct o as [name t ct a cc|]; [|destruct H]. cbn [stmt_of_gate stmt_denotes] in *.
  destruct H as [q [np [nq [Hin [Hs [-> [_ [Hq [Hnd _]]]]]]]]]. exists q. split; [exact Hin|]. split; [reflexivity|]. split.
  - intros c1 c2 H1 H2. exact (denotes_sem R A name q np nq c1 c2 _ Hin Hs H1 H2 Hnd Hq).
  - intros c1 c2 H1 H2. exact (roundtrip_sem R A name q np nq c1 c2 _ Hin Hs H1 H2 Hnd Hq).
Qed.
