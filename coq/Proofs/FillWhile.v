(* C14 -- the repaired resampling loop (advance WHILE the next old grid point has been reached) computes the
   step function of the pulse for every NON-DECREASING grid (repeated time points allowed) *)
From Coq Require Import String.
From Coq Require Import List QArith Bool Arith Lia Lqa Sorted.
From QV Require Import Model.Fill Spec.FillSpec Proofs.FillStep Proofs.FillGrid Proofs.FillMain.
Import ListNotations.
Open Scope Q_scope.

Lemma le_tail_ge (x : Q) l : StronglySorted Qle (x :: l) -> forall y, In y l -> x <= y.
Proof.
  intros H y Hy. inversion H as [|? ? _ Hall]; subst. rewrite Forall_forall in Hall. auto.
Qed.
Lemma le_tail (x : Q) l : StronglySorted Qle (x :: l) -> StronglySorted Qle l.
Proof. intros H. inversion H; auto. Qed.

Lemma nondecrb_sorted l : nondecrb l = true -> StronglySorted Qle l.
Proof.
  induction l as [|x l IH]; intros H; [constructor|].
  cbn [nondecrb] in H. destruct l as [|y l'].
  - constructor; constructor.
  - apply andb_true_iff in H. destruct H as [Hxy Hr]. apply Qle_bool_iff in Hxy.
    specialize (IH Hr). constructor; [exact IH|].
    apply Forall_forall. intros z [<-|Hz]; [exact Hxy|].
    pose proof (le_tail_ge _ _ IH _ Hz). lra.
Qed.

Lemma last_opt_le_sorted l : StronglySorted Qle l -> l <> [] ->
  exists z, last_opt l = Some z /\ In z l /\ forall x, In x l -> x <= z.
Proof.
  induction l as [|a l IH]; intros Hs Hne; [congruence|].
  destruct l as [|b r].
  - exists a. split; [reflexivity|]. split; [left; reflexivity|].
    intros x [<-|[]]. lra.
  - destruct IH as [z [Hz [Hin Hmax]]]; [eapply le_tail; eauto|discriminate|].
    exists z. rewrite last_opt_cons. split; [exact Hz|]. split; [right; exact Hin|].
    intros x [<-|Hx]; [|auto].
    pose proof (le_tail_ge _ _ Hs b (or_introl eq_refl)).
    specialize (Hmax b (or_introl eq_refl)). lra.
Qed.

(* ---------- the loop in suffix form ---------- *)
Fixpoint adv_sfx (o0 : Q) (ost cs : list Q) (bound : Q) : Q * list Q * list Q :=
  match ost with
  | [] => (o0, ost, cs)
  | nx :: ost' => if Qle_bool nx bound then adv_sfx nx ost' (tl cs) bound else (o0, ost, cs)
  end.

Fixpoint fill_sfx2 (tol first last o0 : Q) (ost cs F : list Q) : option (list Q) :=
  match F with
  | [] => Some []
  | t :: rest =>
    if Qltb tol (first - t) then option_map (cons 0) (fill_sfx2 tol first last o0 ost cs rest)
    else if Qltb tol (t - last) then option_map (cons 0) (fill_sfx2 tol first last o0 ost cs rest)
    else match adv_sfx o0 ost cs (t + tol) with
         | (p0, post, cs') =>
             match nth_error cs' 0 with
             | None => None
             | Some c => option_map (cons c) (fill_sfx2 tol first last p0 post cs' rest)
             end
         end
  end.

Lemma adv_index : forall ost ot oc i o0 b, skipn i ot = o0 :: ost ->
  exists p0 post, adv_sfx o0 ost (skipn i oc) b = (p0, post, skipn (advance ost b i) oc) /\
                  skipn (advance ost b i) ot = p0 :: post.
Proof.
  induction ost as [|nx ost IH]; intros ot oc i o0 b H.
  - exists o0, []. split; [reflexivity|exact H].
  - cbn [adv_sfx advance]. destruct (Qle_bool nx b).
    + rewrite tl_skipn. apply IH. rewrite <- tl_skipn, H. reflexivity.
    + exists o0, (nx :: ost). split; [reflexivity|exact H].
Qed.

Lemma fill_loop_sfx2 tol first last ot oc : forall F i o0 ost,
  skipn i ot = o0 :: ost ->
  fill_loop tol first last ot oc F i = fill_sfx2 tol first last o0 ost (skipn i oc) F.
Proof.
  induction F as [|t rest IH]; intros i o0 ost H; [reflexivity|].
  cbn [fill_loop fill_sfx2].
  destruct (Qltb tol (first - t)); [rewrite (IH i o0 ost H); reflexivity|].
  destruct (Qltb tol (t - last)); [rewrite (IH i o0 ost H); reflexivity|].
  rewrite <- tl_skipn, H. cbn [tl].
  destruct (adv_index ost ot oc i o0 (t + tol) H) as [p0 [post [E1 E2]]].
  rewrite E1. rewrite (nth_error_skipn oc (advance ost (t + tol) i) 0).
  replace (advance ost (t + tol) i + 0)%nat with (advance ost (t + tol) i) by lia.
  destruct (nth_error oc (advance ost (t + tol) i)); [|reflexivity].
  rewrite (IH _ p0 post E2). reflexivity.
Qed.

(* ---------- correctness ---------- *)
Section Loop2.
  Variables tol first last : Q.
  Variable pts : list Q.
  Variable g : Q -> Q.
  Hypothesis Htol : 0 <= tol.
  Hypothesis Hsep : forall x y, In x pts -> In y pts -> x == y \/ tol < x - y \/ tol < y - x.
  Hypothesis Hfirst : In first pts.
  Hypothesis Hlastp : In last pts.
  Hypothesis Hglow : forall t, t < first -> g t = 0.

  Definition Inv (F : list Q) (o0 : Q) (ost cs : list Q) : Prop :=
    StronglySorted Qle (o0 :: ost) /\ incl (o0 :: ost) pts /\
    (exists z, In z (o0 :: ost) /\ z == last) /\ (forall x, In x (o0 :: ost) -> x <= last) /\
    first <= o0 /\ (forall u, In u F -> first <= u -> o0 <= u) /\
    (forall x, In x ost -> exists y, In y F /\ x == y) /\
    length cs = length (o0 :: ost) /\ nth_error cs (length ost) = Some 0 /\
    (forall u, o0 <= u -> g u = step_fn (o0 :: ost) cs u).

  Lemma adv_inv : forall ost o0 cs t rest,
    StronglySorted Qlt (t :: rest) -> incl (t :: rest) pts -> first <= t ->
    Inv (t :: rest) o0 ost cs ->
    forall p0 post cs', adv_sfx o0 ost cs (t + tol) = (p0, post, cs') ->
    Inv (t :: rest) p0 post cs' /\ (forall nn, hd_error post = Some nn -> t + tol < nn).
  Proof.
    induction ost as [|nx ost IH]; intros o0 cs t rest HsF HiF Hft HI p0 post cs' E.
    - cbn in E. injection E as <- <- <-. split; [exact HI|]. intros nn Hn. discriminate.
    - cbn [adv_sfx] in E. destruct (Qle_bool nx (t + tol)) eqn:Eadv.
      + apply Qle_bool_iff in Eadv.
        destruct HI as [I1 [I2 [I3 [I4 [I5 [I6 [I7 [I8 [I9 I10]]]]]]]]].
        assert (Htp : In t pts) by (apply HiF; left; reflexivity).
        assert (Hnxp : In nx pts) by (apply I2; right; left; reflexivity).
        assert (Ho0nx : o0 <= nx) by (apply (le_tail_ge _ _ I1); left; reflexivity).
        assert (Hnxl : nx <= last) by (apply I4; right; left; reflexivity).
        assert (Hnxt : nx == t).
        { destruct (I7 nx (or_introl eq_refl)) as [y [Hy Exy]].
          destruct Hy as [Hy|Hy]; [rewrite <- Hy in Exy; exact Exy|].
          pose proof (sorted_tail_gt _ _ HsF _ Hy) as Hty.
          assert (Hyp : In y pts) by (apply HiF; right; exact Hy).
          destruct (Hsep y t Hyp Htp) as [H|[H|H]]; lra. }
        destruct cs as [|c cs2]; [cbn in I8; lia|].
        eapply IH; [exact HsF|exact HiF|exact Hft| |exact E].
        cbn [tl]. repeat split.
        * eapply le_tail; eauto.
        * intros x Hx. apply I2. right; exact Hx.
        * destruct I3 as [z [[Hz|Hz] Ez]]; [|exists z; split; [exact Hz|exact Ez]].
          exists nx. split; [left; reflexivity|]. rewrite <- Hz in Ez. lra.
        * intros x Hx. apply I4. right; exact Hx.
        * lra.
        * intros u [Hu|Hu] Hfu; [rewrite <- Hu; lra|].
          pose proof (sorted_tail_gt _ _ HsF _ Hu). lra.
        * intros x Hx. apply I7. right; exact Hx.
        * cbn [length] in I8 |- *. lia.
        * exact I9.
        * intros u Hu. rewrite I10 by lra. apply step_fn_skip. exact Hu.
      + apply Qle_bool_false in Eadv. injection E as <- <- <-. split; [exact HI|].
        intros nn Hn. cbn in Hn. injection Hn as <-. exact Eadv.
  Qed.

  Lemma fill_sfx2_ok : forall F o0 ost cs,
    StronglySorted Qlt F -> incl F pts -> Inv F o0 ost cs ->
    ((exists y, In y F /\ y == first) \/ (forall t, In t F -> first <= t)) ->
    exists res, fill_sfx2 tol first last o0 ost cs F = Some res /\ ok_out g F res.
  Proof.
    induction F as [|t rest IH]; intros o0 ost cs HsF HiF HI Hfst.
    { exists []. split; [reflexivity|constructor]. }
    assert (Htp : In t pts) by (apply HiF; left; reflexivity).
    assert (Hrgt : forall y, In y rest -> t < y) by (apply sorted_tail_gt; auto).
    assert (HsR : StronglySorted Qlt rest) by (eapply sorted_tail; eauto).
    assert (HiR : incl rest pts) by (intros y Hy; apply HiF; right; exact Hy).
    pose proof HI as [I1 [I2 [I3 [I4 [I5 [I6 [I7 [I8 [I9 I10]]]]]]]]].
    assert (Ho0last : o0 <= last) by (apply I4; left; reflexivity).
    cbn [fill_sfx2].
    destruct (Qltb tol (first - t)) eqn:Elow.
    - (* before the pulse starts *)
      apply Qltb_true in Elow.
      assert (Htf : t < first) by lra.
      destruct Hfst as [[y [Hy Hyf]]|Hall]; [|specialize (Hall t (or_introl eq_refl)); lra].
      destruct Hy as [Hy|Hy]; [rewrite Hy in Htf; lra|].
      assert (HI' : Inv rest o0 ost cs).
      { repeat split; auto.
        - intros u Hu Hfu. apply I6; [right; exact Hu|exact Hfu].
        - intros x Hx. destruct (I7 x Hx) as [z [[Hz|Hz] Hxz]]; [|eauto].
          pose proof (le_tail_ge _ _ I1 _ Hx). rewrite <- Hz in Hxz. lra. }
      destruct (IH o0 ost cs HsR HiR HI') as [res [Hres Hok]]; [left; eauto|].
      exists (0 :: res). rewrite Hres. split; [reflexivity|].
      apply ok_out_cons; auto. intros t2 Ht2 t' H1 H2.
      pose proof (sorted_hd_le _ _ _ HsR Ht2 Hy). symmetry. apply Hglow. lra.
    - apply Qltb_false in Elow.
      assert (Hft : first <= t).
      { destruct (Hsep first t Hfirst Htp) as [H|[H|H]]; lra. }
      assert (Hot : o0 <= t) by (apply I6; [left; reflexivity|exact Hft]).
      assert (Hfst' : (exists z, In z rest /\ z == first) \/ (forall u, In u rest -> first <= u)).
      { right. intros u Hu. specialize (Hrgt u Hu). lra. }
      destruct (Qltb tol (t - last)) eqn:Ehigh.
      + (* after the pulse has ended *)
        apply Qltb_true in Ehigh.
        assert (HI' : Inv rest o0 ost cs).
        { repeat split; auto.
          - intros u Hu Hfu. apply I6; [right; exact Hu|exact Hfu].
          - intros x Hx. destruct (I7 x Hx) as [z [[Hz|Hz] Hxz]]; [|eauto].
            assert (x <= last) by (apply I4; right; exact Hx). rewrite <- Hz in Hxz. lra. }
        destruct (IH o0 ost cs HsR HiR HI' Hfst') as [res [Hres Hok]].
        exists (0 :: res). rewrite Hres. split; [reflexivity|].
        apply ok_out_cons; auto. intros t2 Ht2 t' H1 H2.
        rewrite I10 by lra. symmetry. apply step_fn_after.
        intros x Hx. specialize (I4 x Hx). lra.
      + (* inside the pulse *)
        apply Qltb_false in Ehigh.
        destruct (adv_sfx o0 ost cs (t + tol)) as [[p0 post] cs'] eqn:Eadv.
        destruct (adv_inv ost o0 cs t rest HsF HiF Hft HI p0 post cs' Eadv) as [HJ Hnext].
        destruct HJ as [J1 [J2 [J3 [J4 [J5 [J6 [J7 [J8 [J9 J10]]]]]]]]].
        assert (Hp0t : p0 <= t) by (apply J6; [left; reflexivity|exact Hft]).
        destruct cs' as [|c cs2]; [cbn in J8; lia|].
        cbn [nth_error].
        assert (Hpost_rest : forall x, In x post -> exists z, In z rest /\ x == z).
        { intros x Hx. destruct (J7 x Hx) as [z [[Hz|Hz] Hxz]]; [|eauto].
          exfalso. rewrite <- Hz in Hxz.
          destruct post as [|nn post']; [destruct Hx|].
          specialize (Hnext nn eq_refl).
          assert (nn <= x).
          { destruct Hx as [<-|Hx]; [lra|].
            apply (le_tail_ge _ _ (le_tail _ _ J1)). exact Hx. }
          lra. }
        assert (HI' : Inv rest p0 post (c :: cs2)).
        { repeat split; auto.
          intros u Hu Hfu. specialize (Hrgt u Hu). lra. }
        destruct (IH p0 post (c :: cs2) HsR HiR HI' Hfst') as [res [Hres Hok]].
        exists (c :: res). rewrite Hres. split; [reflexivity|].
        apply ok_out_cons; auto. intros t2 Ht2 t' H1 H2.
        rewrite J10 by lra.
        destruct post as [|nn post'].
        * cbn [length nth_error] in J9. injection J9 as ->.
          destruct cs2; reflexivity.
        * symmetry. apply step_fn_here; [lra|].
          destruct (Hpost_rest nn (or_introl eq_refl)) as [z [Hz Ez]].
          pose proof (sorted_hd_le _ _ _ HsR Ht2 Hz). lra.
  Qed.
End Loop2.

(* ---------- one row ---------- *)
Section Row2.
  Variable tol : Q.
  Variable pts : list Q.
  Hypothesis Htol : 0 <= tol.
  Hypothesis Hsep : forall x y, In x pts -> In y pts -> x == y \/ tol < x - y \/ tol < y - x.

  Lemma fill_coeff_ok cf tl full :
    StronglySorted Qlt full -> incl full pts ->
    StronglySorted Qle tl -> incl tl pts -> (1 <= length tl)%nat ->
    (length cf + 1 = length tl \/ length cf = length tl)%nat ->
    (forall x, In x tl -> exists y, In y full /\ y == x) ->
    exists row, fill_coeff tol cf tl full = Some row /\ ok_out (step_fn tl cf) full row.
  Proof.
    intros HsF HiF HsT HiT Hlen1 Hlen Hcov.
    destruct (pad_coeff_ok cf tl Hlen1 Hlen) as [Hplen [Hpz Hpst]].
    unfold fill_coeff, fill_with, fill_gen. destruct full as [|f0 full'] eqn:EF.
    { exists []. split; [reflexivity|constructor]. }
    rewrite <- EF in *. clear EF f0 full'.
    destruct tl as [|o0 ost]; [cbn in Hlen1; lia|].
    destruct (last_opt_le_sorted (o0 :: ost) HsT) as [z [Hz [Hzin Hzmax]]]; [discriminate|].
    cbn [nth_error]. rewrite Hz.
    rewrite (fill_loop_sfx2 tol o0 z (o0 :: ost) (pad_coeff cf (o0 :: ost)) full 0 o0 ost eq_refl).
    cbn [skipn].
    destruct (fill_sfx2_ok tol o0 z pts (step_fn (o0 :: ost) (pad_coeff cf (o0 :: ost))) Htol Hsep)
      with (F := full) (o0 := o0) (ost := ost) (cs := pad_coeff cf (o0 :: ost)) as [row [Hrow Hok]]; auto.
    - apply HiT. left; reflexivity.
    - intros t Ht. apply step_fn_before.
      intros x [<-|Hx]; [exact Ht|]. pose proof (le_tail_ge _ _ HsT _ Hx). lra.
    - unfold Inv. repeat split; auto.
      + exists z. split; [exact Hzin|reflexivity].
      + lra.
      + intros x Hx. destruct (Hcov x (or_intror Hx)) as [y [Hy Exy]]. exists y. split; [exact Hy|lra].
      + cbn [length] in Hpz. replace (S (length ost) - 1)%nat with (length ost) in Hpz by lia. exact Hpz.
    - left. apply Hcov. left; reflexivity.
    - exists row. split; [exact Hrow|]. eapply ok_out_ext; [|exact Hok]. exact Hpst.
  Qed.
End Row2.

(* ---------- all rows ---------- *)
Lemma inputs_okb_unpack tol ps : inputs_okb tol ps = true ->
  0 <= tol /\ (forall p, In p ps -> pulse_okb p = true) /\
  (forall x y, In x (all_points ps) -> In y (all_points ps) -> x == y \/ tol < x - y \/ tol < y - x) /\
  all_tlists ps <> [].
Proof.
  unfold inputs_okb. intros H.
  apply andb_true_iff in H. destruct H as [H H4].
  apply andb_true_iff in H. destruct H as [H H3].
  apply andb_true_iff in H. destruct H as [H1 H2].
  split; [apply Qle_bool_iff; exact H1|]. split; [apply forallb_forall; exact H2|].
  split; [apply wellsepb_sep; exact H3|].
  destruct (all_tlists ps); [discriminate|discriminate].
Qed.

Lemma pulse_okb_valid p : pulse_okb p = true -> pulse_valid p = true.
Proof.
  unfold pulse_okb, pulse_valid. destruct (pco p) as [| |cf]; auto.
  destruct (ptl p) as [tl|]; [|discriminate].
  intros H. apply andb_true_iff in H. destruct H as [_ H]. exact H.
Qed.

Lemma coeffs_ok tol ps :
  inputs_okb tol ps = true ->
  exists full rows,
    get_full_tlist tol ps = Some full /\ get_full_coeffs tol ps = Some rows /\
    Forall2 (fun p row => ok_out (pulse_fn p) full row) ps rows.
Proof.
  intros Hok. destruct (inputs_okb_unpack _ _ Hok) as [Htol [Hp [Hsep Hne]]].
  destruct (get_full_tlist tol ps) as [full|] eqn:Efull.
  2:{ unfold get_full_tlist in Efull. destruct (all_tlists ps); [congruence|discriminate]. }
  exists full.
  pose proof (full_tlist_sorted _ _ _ Efull) as HsF.
  pose proof (full_tlist_in _ _ _ Efull) as HiF.
  pose proof (full_tlist_complete _ _ _ Htol Hsep Efull) as Hcomp.
  unfold get_full_coeffs, full_coeffs_with.
  assert (Hval : forallb pulse_valid ps = true).
  { apply forallb_forall. intros p Hin. apply pulse_okb_valid. auto. }
  rewrite Hval, Efull.
  assert (Hps : ps <> []) by (intro E; subst ps; apply Hne; reflexivity).
  destruct (mapM_Forall2 (row_with fill_coeff tol full)
              (fun p row => ok_out (pulse_fn p) full row) ps) as [rows [Hrows HF]].
  { apply Forall_forall. intros p Hin. specialize (Hp p Hin).
    unfold pulse_okb in Hp. unfold row_with, pulse_fn.
    destruct (pco p) as [|b|cf] eqn:Eco.
    - destruct (ptl p); [discriminate|]. eexists. split; [reflexivity|]. apply ok_out_repeat.
    - eexists. split; [reflexivity|]. apply ok_out_repeat.
    - destruct (ptl p) as [tl|] eqn:Etl; [|discriminate].
      apply andb_true_iff in Hp. destruct Hp as [Hp Hlen].
      apply andb_true_iff in Hp. destruct Hp as [Hinc Hl1].
      apply Nat.leb_le in Hl1.
      assert (HiT : incl tl (all_points ps)).
      { intros x Hx. unfold all_points. apply in_concat. exists tl. split; [|exact Hx].
        eapply in_all_tlists; eauto. }
      eapply (fill_coeff_ok tol (all_points ps) Htol Hsep cf tl full); auto.
      + apply nondecrb_sorted. exact Hinc.
      + apply orb_true_iff in Hlen. destruct Hlen as [E|E]; apply Nat.eqb_eq in E; auto.
  }
  exists rows. destruct ps; [congruence|]. split; [reflexivity|]. split; [exact Hrows|exact HF].
Qed.

Lemma run_slices_ok tol ps :
  inputs_okb tol ps = true ->
  exists full sl,
    get_full_tlist tol ps = Some full /\ run_slices tol ps = Some sl /\
    slices_ok (map pulse_fn ps) full sl /\
    Forall (fun s => 0 < fst s) sl /\
    (forall t0 F', full = t0 :: F' -> total_time sl == last full t0 - t0).
Proof.
  intros H. destruct (coeffs_ok _ _ H) as [full [rows [Hf [Hr HF]]]].
  destruct (slices_okL _ _ _ HF) as [sl [Hsl Hok]].
  exists full, sl. split; [exact Hf|]. split.
  - unfold run_slices, run_slices_with. destruct ps as [|p0 ps']; [vm_compute in H; destruct tol; discriminate|].
    unfold run_slices_strict_with. unfold get_full_coeffs in Hr. rewrite Hf, Hr. exact Hsl.
  - split; [exact Hok|]. split.
    + eapply slices_positive; eauto. eapply full_tlist_sorted; eauto.
    + eapply slices_total; eauto.
Qed.

(* the processor without any pulse *)
Lemma no_pulse tol :
  get_full_tlist tol [] = None /\ get_full_coeffs tol [] = None /\
  run_slices tol [] = Some [] /\ run_slices_v2 tol [] = None.
Proof. repeat split; reflexivity. Qed.
