(* C04 layer C: the temporary circuit the importer builds for a user-defined gate (recursive expansion with substitution
   of evaluated parameters and of qubit indices) is, leaf by leaf, the standard's macro expansion of the gate down to the
   library level, each leaf translated by the importer's table of predefined gates.  For every nesting depth. *)
From Coq Require Import Lia.
From QV Require Import Model.QasmImport Gen.Qasm.
Local Open Scope string_scope.
Local Open Scope nat_scope.
Local Open Scope list_scope.

(* the gate applications of a body (barriers dropped), as _initialize_pass stores them *)
Definition calls (b : list bstmt) : list (string * list expr * list string) :=
  flat_map (fun s => match s with BCall h a q => [(h, a, q)] | BBarrier _ => [] end) b.
Definition conv (Gs : genv) : list (string * idef) :=
  map (fun p => (fst p, mkIdef (gd_params (snd p)) (gd_qubits (snd p)) (calls (gd_body (snd p))))) Gs.
Lemma conv_cons g d Gs : conv ((g, d) :: Gs) = (g, mkIdef (gd_params d) (gd_qubits d) (calls (gd_body d))) :: conv Gs.
Proof. reflexivity. Qed.
Arguments conv : simpl never.

Lemma sassoc_map_mem {X} (f : string -> X) g l : sassoc g (map (fun x => (x, f x)) l) = if smem g l then Some (f g) else None.
Proof.
  induction l as [|x l IH]; [reflexivity|]. cbn [map sassoc smem existsb].
  destruct (String.eqb g x) eqn:E; cbn [orb].
  - apply String.eqb_eq in E. subst. reflexivity.
  - exact IH.
Qed.
Lemma sig0_mem g : sassoc g sig0 = None <-> smem g predefined = false.
Proof. unfold sig0. rewrite sassoc_map_mem. destruct (smem g predefined); split; intros; congruence. Qed.

Section C.
Variable A : VAlg.

(* the importer's translation of a list of library-level leaves *)
Fixpoint flat_pre (ls : list (leaf A)) : option (list (igate A)) :=
  match ls with
  | [] => Some []
  | (h, vs, qs) :: r => match add_predefined h qs vs, flat_pre r with Some a, Some b => Some (a ++ b) | _, _ => None end
  end.
Lemma flat_pre_app l1 l2 a b : flat_pre l1 = Some a -> flat_pre l2 = Some b -> flat_pre (l1 ++ l2) = Some (a ++ b).
Proof.
  revert a. induction l1 as [|[[h vs] qs] l1 IH]; intros a H1 H2.
  - injection H1 as <-. exact H2.
  - cbn [flat_pre app] in *. destruct (add_predefined h qs vs) as [x|]; [|discriminate].
    destruct (flat_pre l1) as [y|]; [|discriminate]. injection H1 as <-.
    rewrite (IH y eq_refl H2). rewrite app_assoc. reflexivity.
Qed.

Theorem custom_sound : forall (Gs : genv) g vals regs gs ls,
  custom A (conv Gs) g vals regs = Some gs -> expand A sig0 Gs g vals regs = Some ls -> flat_pre ls = Some gs.
Proof.
  induction Gs as [|[g' d] Gs IH]; intros g vals regs gs ls Hc He.
  - change (conv []) with (@nil (string * idef)) in Hc. cbn [custom expand] in Hc, He.
    destruct (sassoc g sig0) as [[np nq]|] eqn:Es.
    + assert (Hm : smem g predefined = true).
      { destruct (smem g predefined) eqn:M; [reflexivity|]. apply sig0_mem in M. congruence. }
      rewrite Hm in Hc. destruct (_ && _); [|discriminate]. injection He as <-.
      cbn [flat_pre]. rewrite Hc, app_nil_r. reflexivity.
    + discriminate.
  - rewrite conv_cons in Hc. cbn [custom expand] in Hc, He.
    destruct (sassoc g sig0) as [[np nq]|] eqn:Es.
    + assert (Hm : smem g predefined = true).
      { destruct (smem g predefined) eqn:M; [reflexivity|]. apply sig0_mem in M. congruence. }
      rewrite Hm in Hc. destruct (_ && _); [|discriminate]. injection He as <-.
      cbn [flat_pre]. rewrite Hc, app_nil_r. reflexivity.
    + assert (Hm : smem g predefined = false) by (apply sig0_mem; exact Es).
      rewrite Hm in Hc. destruct (String.eqb g g').
      * cbn [id_params id_qubits id_body] in Hc.
        destruct (_ && _); [|discriminate].
        revert gs ls Hc He. generalize (gd_body d) as b.
        induction b as [|s b IHb]; intros gs ls Hc He.
        -- simpl in Hc, He. inversion Hc. inversion He. subst. reflexivity.
        -- destruct s as [h args hq|qs0].
           ++ simpl in Hc, He.
              destruct (omap (eval A (combine (gd_params d) vals)) args) as [vs|]; [|discriminate].
              destruct (omap (fun x => sassoc x (combine (gd_qubits d) regs)) hq) as [hqs|]; [|discriminate].
              destruct (custom A (conv Gs) h vs hqs) as [l1|] eqn:C1; [|discriminate].
              destruct (expand A sig0 Gs h vs hqs) as [e1|] eqn:E1; [|discriminate].
              match type of Hc with match ?X with _ => _ end = _ => destruct X as [r1|] eqn:C2; [|discriminate] end.
              match type of He with match ?X with _ => _ end = _ => destruct X as [r2|] eqn:E2; [|discriminate] end.
              injection Hc as <-. injection He as <-.
              apply flat_pre_app; [exact (IH h vs hqs l1 e1 C1 E1)| exact (IHb r1 r2 eq_refl eq_refl)].
           ++ simpl in Hc, He. exact (IHb gs ls Hc He).
      * exact (IH g vals regs gs ls Hc He).
Qed.
End C.

(* the definitions collected by _initialize_pass are the program's definitions with the barriers dropped *)
Lemma init_body_calls Sg params qubits b r : init_body Sg params qubits b = Some r -> r = calls b.
Proof.
  revert r. induction b as [|s b IH]; intros r H.
  - injection H as <-. reflexivity.
  - destruct s as [h args hq|qs]; cbn [init_body] in H.
    + destruct (sassoc h Sg) as [[np nq]|]; [|discriminate]. destruct (_ && _); [|discriminate].
      destruct (init_body Sg params qubits b) as [r'|]; [|discriminate]. injection H as <-.
      rewrite (IH r' eq_refl). reflexivity.
    + apply IH. exact H.
Qed.
Lemma init_gates_conv items : forall Sg Gi acc Sg' Gi' Gs,
  Gi = conv acc -> init_gates Sg Gi items = Some (Sg', Gi') -> gdefs items acc = Some Gs -> Gi' = conv Gs.
Proof.
  induction items as [|i items IH]; intros Sg Gi acc Sg' Gi' Gs HG Hi Hd.
  - injection Hi as _ <-. injection Hd as <-. exact HG.
  - destruct i as [n d|n ps qs]; [|discriminate]. cbn [init_gates gdefs] in Hi, Hd.
    destruct (init_body Sg (gd_params d) (gd_qubits d) (gd_body d)) as [cs|] eqn:Eb; try discriminate.
    eapply IH with (acc := (n, d) :: acc); [reflexivity| |exact Hd].
    rewrite conv_cons. rewrite <- HG. rewrite <- (init_body_calls _ _ _ _ _ Eb). exact Hi.
Qed.

Section T.
Variable A : VAlg.
(* for the gates of a whole program *)
Theorem custom_prog_sound p Sg Gi Gs g vals regs gs ls :
  init_gates sig0 [] (p_gates p) = Some (Sg, Gi) -> gdefs (p_gates p) [] = Some Gs ->
  custom A Gi g vals regs = Some gs -> expand A sig0 Gs g vals regs = Some ls -> flat_pre A ls = Some gs.
Proof.
  intros Hi Hd Hc He. rewrite (init_gates_conv _ sig0 [] [] Sg Gi Gs eq_refl Hi Hd) in Hc.
  exact (custom_sound A Gs g vals regs gs ls Hc He).
Qed.
End T.
