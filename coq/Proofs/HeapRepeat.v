(* C16 -- repeatability of EVERY modelled operation: the same call made twice in a row on the same objects
   returns results that are equal as structures (isomorphic trees with equal tokens, i.e. equal up to the
   renaming of the freshly allocated locations).  From purity (the second call sees the same caller objects),
   closedness of the heap, equivariance of the heap programs under renaming (HeapEquiv) and the resets of the
   service objects. *)
From Coq Require Import List Arith Bool Lia.
From QV Require Import Model.Heap Proofs.HeapBase Proofs.HeapPure Proofs.HeapFresh Proofs.HeapClosed
                       Proofs.HeapEquiv Proofs.HeapService.
Import ListNotations.

(* structural equality of two results living in two heaps: to every depth k the trees they unfold to are equal *)
Definition iso (h1 : heap) (r1 : val) (h2 : heap) (r2 : val) : Prop := forall k, snap k h1 r1 = snap k h2 r2.

Lemma map_rv_ok n d o : Forall (val_ok n) o -> ro n d o = o.
Proof.
  induction 1 as [|v o Hv Ho IH]; simpl; auto. f_equal; auto.
  apply rv_old. intros l ->. exact Hv.
Qed.

Lemma Rel_start h h1 :
  heap_closed h -> (forall l, l < length h -> nth_error h1 l = nth_error h l) -> length h <= length h1 ->
  Rel (length h) (length h1 - length h) h h1.
Proof.
  intros Hc Ha Hl. split; [lia|]. split; [lia|]. intros l.
  destruct (lt_dec l (length h)) as [Hlt|Hge].
  - rewrite rl_lt by auto. rewrite Ha by auto. destruct (nth_error h l) as [o|] eqn:E; simpl; auto.
    f_equal. symmetry. apply map_rv_ok. eapply Hc; eauto.
  - rewrite rl_ge by lia. rewrite (proj2 (nth_error_None h l)) by lia. simpl.
    apply nth_error_None. unfold heap, obj in *. lia.
Qed.

Lemma rv_ok n d v : val_ok n v -> rv n d v = v.
Proof. intros H. apply rv_old. intros l ->. exact H. Qed.

(* a heap function that is equivariant gives isomorphic results when run again on its own output heap *)
Lemma repeat_eqv (F : heap -> val -> option (heap * val)) h v h1 r1 h2 r2 :
  (forall n d, eqv n d F) -> heap_closed h -> val_ok (length h) v ->
  (forall l, l < length h -> nth_error h1 l = nth_error h l) -> length h <= length h1 ->
  F h v = Some (h1, r1) -> F h1 v = Some (h2, r2) -> iso h1 r1 h2 r2.
Proof.
  intros HF Hc Hv Ha Hl E1 E2.
  pose proof (Rel_start h h1 Hc Ha Hl) as HR.
  destruct (HF _ _ _ _ _ _ _ HR E1) as (h2' & E2' & R2).
  rewrite (rv_ok _ _ _ Hv) in E2'. rewrite E2 in E2'. inversion E2'; subst.
  intros k. symmetry. apply (snap_rel _ _ _ _ R2).
Qed.

Lemma iso_tok_objs h1 h2 o : Forall (fun v => exists t, v = Tok t) o ->
  iso (h1 ++ [o]) (Ref (length h1)) (h2 ++ [o]) (Ref (length h2)).
Proof.
  intros Ho k. destruct k; simpl; auto.
  rewrite !nth_error_app2 by lia. rewrite !Nat.sub_diag. simpl. f_equal.
  apply map_ext_in. intros v Hin. rewrite Forall_forall in Ho. destruct (Ho _ Hin) as [t ->]. now destruct k.
Qed.

Lemma nth_upd_cases {A} (l : list A) i x d :
  nth i (upd l i x) d = x \/ (nth i (upd l i x) d = nth i l d /\ length l <= i).
Proof.
  destruct (lt_dec i (length l)) as [H|H].
  - left. now apply nth_upd_eq.
  - right. rewrite upd_ge by lia. split; auto. lia.
Qed.

Lemma readonly_eqv k n d : eqv n d (fun h _ => Some (alloc h [Tok k])).
Proof.
  intros H H' v H1 r HR E. unfold alloc in *. inversion E; subst.
  destruct (alloc_rel n d H H' [Tok k] HR) as [R1 Ev]. eexists. split; [|exact R1]. simpl ro. rewrite <- Ev. reflexivity.
Qed.

(* ---------------- the theorem ---------------- *)
Theorem history_repeatable_lemma fl w c w1 r1 w2 r2 :
  flags_pure fl = true -> flags_service fl = true ->
  world_ok w -> call_ok w c -> guard fl w c = true ->
  exec fl w c = Some (w1, r1) -> exec fl w1 c = Some (w2, r2) ->
  iso (hp w1) r1 (hp w2) r2.
Proof.
  intros Hp Hs Hw Hc G E1 E2.
  pose proof (call_ok_wf _ _ Hw Hc) as Hwf.
  pose proof (exec_inv fl w c w1 r1 (length (hp w)) (hp w) Hp G Hwf (le_n _) (inv_refl _ _ (le_n _)) E1) as [Ha Hl].
  pose proof Hw as [Hcl Hsims].
  pose proof (Rel_start (hp w) (hp w1) Hcl Ha Hl) as HR.
  set (n := length (hp w)) in *. set (d := length (hp w1) - n) in *.
  unfold flags_service in Hs.
  apply andb_prop in Hs; destruct Hs as [Hs Hargs].
  apply andb_prop in Hs; destruct Hs as [Hs Hgp].
  apply andb_prop in Hs; destruct Hs as [Hs Hfc].
  apply andb_prop in Hs; destruct Hs as [Hs Hsets].
  apply andb_prop in Hs; destruct Hs as [Hs Hclr].
  apply andb_prop in Hs; destruct Hs as [Hs Hlist].
  apply andb_prop in Hs; destruct Hs as [Hre Hcopy].
  destruct c; simpl in Hc.
  - (* CSimRun *)
    cbv beta iota zeta delta [exec] in E1, E2. rewrite Hre in E1, E2.
    set (sm := nth s (sims w) dsim) in *.
    destruct (run_core fl (s_dm sm) (hp w) (s_qc sm) cb mr) as [h1 cbv] eqn:Er.
    rewrite !Nat.add_0_r in E1.
    destruct (result_of h1 st cbv) as [h2 r] eqn:Eres.
    inversion E1; subst w1 r1. clear E1. simpl hp in *. simpl sims in E2.
    assert (Hq : s_qc (nth s (upd (sims w) s (mkSim (s_qc sm) (s_dm sm) cbv (S (s_dirty sm)))) dsim) = s_qc sm /\
                 s_dm (nth s (upd (sims w) s (mkSim (s_qc sm) (s_dm sm) cbv (S (s_dirty sm)))) dsim) = s_dm sm).
    { destruct (nth_upd_cases (sims w) s (mkSim (s_qc sm) (s_dm sm) cbv (S (s_dirty sm))) dsim) as [->|[-> _]]; auto. }
    destruct Hq as [Hq1 Hq2]. rewrite Hq1, Hq2 in E2.
    destruct (run_core_rel n d _ _ _ _ _ _ _ _ _ HR Er) as (h1' & Er' & R1).
    assert (Hqc : rv n d (s_qc sm) = s_qc sm) by (apply rv_ok; apply (sim_qc_ok w s Hw)).
    rewrite Hqc, (rv_ok n d _ Hc) in Er'. rewrite Er' in E2.
    rewrite !Nat.add_0_r in E2.
    destruct (result_of_rel n d _ _ _ _ _ _ R1 Eres) as (h2' & Eres' & R2). rewrite Eres' in E2.
    inversion E2; subst. simpl. intros k. symmetry. apply (snap_rel _ _ _ _ R2).
  - (* CSimStats *)
    cbv beta iota zeta delta [exec] in E1, E2. rewrite Hre in E1, E2.
    set (sm := nth s (sims w) dsim) in *.
    destruct (stats_loop fl (s_dm sm) (hp w) (s_qc sm) cb (tuples (n_meas (hp w) (s_qc sm))) []) as [[h1 cbs] last] eqn:El.
    rewrite !Nat.add_0_r in E1.
    destruct (stats_result h1 st cbs) as [h2 r] eqn:Eres.
    inversion E1; subst w1 r1. clear E1. simpl hp in *. simpl sims in E2.
    assert (Hq : s_qc (nth s (upd (sims w) s (mkSim (s_qc sm) (s_dm sm) last (S (s_dirty sm)))) dsim) = s_qc sm /\
                 s_dm (nth s (upd (sims w) s (mkSim (s_qc sm) (s_dm sm) last (S (s_dirty sm)))) dsim) = s_dm sm).
    { destruct (nth_upd_cases (sims w) s (mkSim (s_qc sm) (s_dm sm) last (S (s_dirty sm))) dsim) as [->|[-> _]]; auto. }
    destruct Hq as [Hq1 Hq2]. rewrite Hq1, Hq2 in E2.
    assert (Hqc : rv n d (s_qc sm) = s_qc sm) by (apply rv_ok; apply (sim_qc_ok w s Hw)).
    pose proof (n_meas_rel n d _ _ (s_qc sm) HR) as Hnm. rewrite Hqc in Hnm. rewrite Hnm in E2.
    destruct (stats_loop_rel n d _ _ _ _ _ _ _ _ _ _ _ HR El) as (h1' & El' & R1).
    rewrite Hqc, (rv_ok n d _ Hc) in El'. simpl ro in El'. rewrite El' in E2.
    rewrite !Nat.add_0_r in E2.
    destruct (stats_result_rel n d _ _ _ _ _ _ R1 Eres) as (h2' & Eres' & R2). rewrite Eres' in E2.
    inversion E2; subst. simpl. intros k. symmetry. apply (snap_rel _ _ _ _ R2).
  - (* CQcRun: the result is a value *)
    cbv beta iota zeta delta [exec] in E1, E2.
    destruct (run_core fl dm (hp w) qc cb mr). destruct (run_core fl dm (hp w1) qc cb mr).
    inversion E1; inversion E2; subst. intros k. now destruct k.
  - (* CQcStats *)
    destruct Hc as [Hq Hb].
    cbv beta iota zeta delta [exec] in E1, E2.
    destruct (stats_loop fl dm (hp w) qc cb (tuples (n_meas (hp w) qc)) []) as [[h1 cbs] last] eqn:El.
    destruct (stats_result h1 st cbs) as [h2 r] eqn:Eres.
    inversion E1; subst w1 r1. clear E1. simpl hp in *.
    pose proof (n_meas_rel n d _ _ qc HR) as Hnm. rewrite (rv_ok n d _ Hq) in Hnm. rewrite Hnm in E2.
    destruct (stats_loop_rel n d _ _ _ _ _ _ _ _ _ _ _ HR El) as (h1' & El' & R1).
    rewrite (rv_ok n d _ Hq), (rv_ok n d _ Hb) in El'. simpl ro in El'. rewrite El' in E2.
    destruct (stats_result_rel n d _ _ _ _ _ _ R1 Eres) as (h2' & Eres' & R2). rewrite Eres' in E2.
    inversion E2; subst. simpl. intros k. symmetry. apply (snap_rel _ _ _ _ R2).
  - (* CResolve *)
    cbv beta iota zeta delta [exec] in E1, E2.
    destruct (op_resolve fl (hp w) qc) as [[h1 x1]|] eqn:F1; try discriminate. inversion E1; subst w1 r1. simpl hp in *.
    destruct (op_resolve fl h1 qc) as [[h2 x2]|] eqn:F2; try discriminate. inversion E2; subst. simpl.
    eapply (repeat_eqv (op_resolve fl)); eauto. intros. apply op_pass_eqv.
  - (* CAdjacent *)
    cbv beta iota zeta delta [exec] in E1, E2.
    destruct (op_adjacent fl (hp w) qc) as [[h1 x1]|] eqn:F1; try discriminate. inversion E1; subst w1 r1. simpl hp in *.
    destruct (op_adjacent fl h1 qc) as [[h2 x2]|] eqn:F2; try discriminate. inversion E2; subst. simpl.
    eapply (repeat_eqv (op_adjacent fl)); eauto. intros. apply op_pass_eqv.
  - (* CChain *)
    cbv beta iota zeta delta [exec] in E1, E2.
    destruct (op_chain fl modes (hp w) qc) as [[h1 x1]|] eqn:F1; try discriminate. inversion E1; subst w1 r1. simpl hp in *.
    destruct (op_chain fl modes h1 qc) as [[h2 x2]|] eqn:F2; try discriminate. inversion E2; subst. simpl.
    eapply (repeat_eqv (op_chain fl modes)); eauto. intros. apply op_pass_eqv.
  - (* CReverse *)
    cbv beta iota zeta delta [exec] in E1, E2.
    destruct (op_reverse fl (hp w) qc) as [[h1 x1]|] eqn:F1; try discriminate. inversion E1; subst w1 r1. simpl hp in *.
    destruct (op_reverse fl h1 qc) as [[h2 x2]|] eqn:F2; try discriminate. inversion E2; subst. simpl.
    eapply (repeat_eqv (op_reverse fl)); eauto. intros. apply op_pass_eqv.
  - (* CAddCircuit *)
    cbv beta iota zeta delta [exec] in E1, E2.
    destruct (op_addc fl (hp w) qc) as [[h1 x1]|] eqn:F1; try discriminate. inversion E1; subst w1 r1. simpl hp in *.
    destruct (op_addc fl h1 qc) as [[h2 x2]|] eqn:F2; try discriminate. inversion E2; subst. simpl.
    eapply (repeat_eqv (op_addc fl)); eauto. intros. apply op_pass_eqv.
  - (* CReadOnly *)
    cbv beta iota zeta delta [exec] in E1, E2. unfold alloc in E1, E2.
    inversion E1; subst w1 r1. simpl hp in *. inversion E2; subst. simpl.
    apply iso_tok_objs. repeat constructor. eauto.
  - (* CSchedule *)
    cbv beta iota zeta delta [exec] in E1, E2.
    destruct (op_schedule fl is_circ (hp w) a) as [[h1 x1]|] eqn:F1; try discriminate. inversion E1; subst w1 r1. simpl hp in *.
    destruct (op_schedule fl is_circ h1 a) as [[h2 x2]|] eqn:F2; try discriminate. inversion E2; subst. simpl.
    eapply (repeat_eqv (op_schedule fl is_circ)); eauto. intros. apply op_schedule_eqv.
  - (* CInstr *)
    cbv beta iota zeta delta [exec] in E1, E2.
    destruct (instr_of (f_instr_copy fl) (hp w) g) as [[h1 x1]|] eqn:F1; try discriminate. inversion E1; subst w1 r1. simpl hp in *.
    destruct (instr_of (f_instr_copy fl) h1 g) as [[h2 x2]|] eqn:F2; try discriminate. inversion E2; subst. simpl.
    eapply (repeat_eqv (instr_of (f_instr_copy fl))); eauto. intros. apply instr_of_eqv.
  - (* CCompile: the result holds tokens only; they do not depend on what the compiler kept *)
    cbv beta iota zeta delta [exec] in E1, E2.
    destruct (compile_heap fl (hp w) (if is_circ then fld (hp w) a 0 else a)) as [h1|] eqn:F1; try discriminate.
    destruct (comp_run fl (nth k (comps w) dcomp) args dphi) as [[k1 e1] g1] eqn:C1.
    unfold alloc in E1. inversion E1; subst w1 r1. clear E1. simpl hp in *. simpl comps in E2.
    match type of E2 with context [compile_heap fl ?x ?y] => destruct (compile_heap fl x y) as [h2|] eqn:F2; try discriminate end.
    destruct (comp_run fl (nth k (upd (comps w) k k1) dcomp) args dphi) as [[k2 e2] g2] eqn:C2.
    unfold alloc in E2. inversion E2; subst. simpl.
    assert (He : e2 = e1 /\ g2 = g1).
    { unfold comp_run in C1, C2. rewrite Hgp, Hargs in C1, C2.
      destruct (nth_upd_cases (comps w) k k1 dcomp) as [Hk|[Hk _]]; rewrite Hk in C2.
      - inversion C1; subst. simpl in C2. inversion C2; subst. destruct args; auto.
      - rewrite C1 in C2. inversion C2; auto. }
    destruct He as [-> ->]. apply iso_tok_objs. repeat constructor; eauto.
  - (* CLoad *)
    cbv beta iota zeta delta [exec] in E1.
    destruct (match chain with Some ms => op_chain fl ms (hp w) qc | None => Some (hp w, qc) end) as [[h1 qc1]|] eqn:F1; try discriminate.
    destruct (op_resolve fl h1 qc1) as [[h2 qc2]|] eqn:F2; try discriminate.
    destruct (compile_heap fl h2 (fld h2 qc2 0)) as [h3|] eqn:F3; try discriminate.
    set (pr := nth p (procs w) dproc) in *.
    set (kin := match k with Some k0 => nth k0 (comps w) dcomp | None => dcomp end) in *.
    destruct (comp_run fl kin 0 dphi) as [[k1 e1] g1] eqn:C1.
    destruct (comp_run fl (mkComp (k_gp0 kin) (k_gp0 kin) (k_args0 kin) (k_args0 kin)) 0 dphi) as [[k0 e0] g0] eqn:C0.
    unfold alloc in E1.
    set (len := length (objof h2 (fld h2 qc2 0))) in *.
    match type of E1 with context [h3 ++ [?o]] => set (o1 := o) in * end.
    inversion E1 as [[Ew1 Er1]].
    assert (Hhp : hp w1 = h3 ++ [o1]) by (rewrite <- Ew1; reflexivity).
    assert (Hcomps : comps w1 = match k with Some k2 => upd (comps w) k2 k1 | None => comps w end) by (rewrite <- Ew1; reflexivity).
    match type of Ew1 with context [upd (procs w) p ?x] =>
      assert (Hprocs : procs w1 = upd (procs w) p x) by (rewrite <- Ew1; reflexivity) end.
    clear Ew1 E1.
    cbv beta iota zeta delta [exec] in E2.
    (* the heap part of the second call is the renamed heap part of the first *)
    assert (X1 : exists h1', (match chain with Some ms => op_chain fl ms (hp w1) qc | None => Some (hp w1, qc) end) = Some (h1', rv n d qc1) /\ Rel n d h1 h1').
    { destruct chain as [ms|].
      - destruct (op_pass_eqv n d _ _ _ _ _ _ _ _ _ _ _ HR F1) as (h1' & F1' & R1).
        rewrite (rv_ok n d _ Hc) in F1'. eauto.
      - inversion F1; subst. exists (hp w1). rewrite (rv_ok n d _ Hc). auto. }
    destruct X1 as (h1' & F1' & R1). rewrite F1' in E2.
    destruct (op_pass_eqv n d _ _ _ _ _ _ _ _ _ _ _ R1 F2) as (h2' & F2' & R2).
    unfold op_resolve in E2 at 1. rewrite F2' in E2.
    destruct (compile_heap_rel n d _ _ _ _ _ R2 F3) as (h3' & F3' & R3).
    rewrite (fld_rel n d _ _ qc2 0 R2), F3' in E2.
    rewrite (objof_rel n d _ _ _ R2) in E2. unfold ro in E2. rewrite map_length in E2. fold len in E2.
    rewrite Hcomps, Hprocs in E2.
    (* the compiler and the processor the second call sees *)
    match type of E2 with context [comp_run fl ?kk 0 dphi] => set (kin2 := kk) in * end.
    assert (Hk2 : exists kk, comp_run fl kin2 0 dphi = (kk, e1, g1)).
    { unfold comp_run in *. rewrite Hgp, Hargs in *. simpl. eexists.
      subst kin2 kin. destruct k as [k2|].
      - destruct (nth_upd_cases (comps w) k2 k1 dcomp) as [Hk|[Hk _]]; rewrite Hk.
        + inversion C1; subst. reflexivity.
        + inversion C1; subst. reflexivity.
      - inversion C1; subst. reflexivity. }
    destruct Hk2 as [kk Hk2]. rewrite Hk2 in E2.
    match type of E2 with context [comp_run fl ?kk0 0 dphi] => destruct (comp_run fl kk0 0 dphi) as [[k0' e0'] g0'] end.
    unfold alloc in E2.
    match type of E2 with context [h3' ++ [?o]] => set (o2 := o) in * end.
    assert (Ho : o2 = o1).
    { subst o2 o1. rewrite Hclr. simpl app. f_equal. f_equal. f_equal.
      rewrite Hsets. destruct sets_gp; auto.
      match goal with |- p_gp (nth p (upd (procs w) p ?x) dproc) = _ =>
        destruct (nth_upd_cases (procs w) p x dproc) as [Hk|[Hk _]]; rewrite Hk end; auto. }
    inversion E2; subst w2 r2; try subst r1. simpl hp. rewrite ?Hhp. simpl hp. rewrite Ho.
    apply iso_tok_objs. subst o1. repeat constructor; eauto.
  - (* CQobjevo *)
    pose proof (query_repeatable fl w (CQobjevo p noisy) w1 r1 w2 r2 Hcopy Hlist eq_refl E1 E2) as ->.
    cbv beta iota zeta delta [exec] in E2. destruct noisy; [destruct (noisy_query fl true _)|]; inversion E2; subst; intros k; now destruct k.
  - pose proof (query_repeatable fl w (CNoisyPulses p dn) w1 r1 w2 r2 Hcopy Hlist eq_refl E1 E2) as ->.
    cbv beta iota zeta delta [exec] in E2. destruct (noisy_query fl dn _). inversion E2; subst; intros k; now destruct k.
  - pose proof (query_repeatable fl w (CRunAnalytic p) w1 r1 w2 r2 Hcopy Hlist eq_refl E1 E2) as ->.
    cbv beta iota zeta delta [exec] in E2. inversion E2; subst; intros k; now destruct k.
  - pose proof (query_repeatable fl w (CHeld p) w1 r1 w2 r2 Hcopy Hlist eq_refl E1 E2) as ->.
    cbv beta iota zeta delta [exec] in E2. inversion E2; subst; intros k; now destruct k.
  - cbv beta iota zeta delta [exec] in E1, E2. inversion E1; inversion E2; subst. intros k; now destruct k.
Qed.
