(* C04 layer B: the importer's resolution of register arguments (indexed / whole register, broadcast by zip) is the
   standard's broadcast rule, for every declaration list and every argument list (registers non-empty). *)
From Coq Require Import Lia.
From QV Require Import Model.QasmImport.
Local Open Scope string_scope.
Local Open Scope nat_scope.
Local Open Scope list_scope.

Definition r2i (a : rarg) : ireg := match a with RBit b => IBit b | RAll bs => IAll bs end.

Lemma ireg1_resolve L a : ireg1 L a = option_map r2i (resolve L a).
Proof.
  destruct a as [r|r i]; simpl; destruct (sassoc r L) as [[off n]|]; try reflexivity.
  destruct (i <? n); reflexivity.
Qed.
Lemma omap_ireg1 L qs : omap (ireg1 L) qs = option_map (map r2i) (omap (resolve L) qs).
Proof.
  induction qs as [|a qs IH]; [reflexivity|]. simpl. rewrite ireg1_resolve, IH.
  destruct (resolve L a); [|reflexivity]. simpl. destruct (omap (resolve L) qs); reflexivity.
Qed.

Lemma all_eq_refl_cons n m ms : all_eq n (m :: ms) = (n =? m) && all_eq n ms. Proof. reflexivity. Qed.
Lemma all_eq_sym_step n m ms : (n =? m) = true -> all_eq n ms = all_eq m ms.
Proof. intros H. apply Nat.eqb_eq in H. subst. reflexivity. Qed.

Lemma common_size_sizes rs :
  common_size rs = match whole_sizes (map r2i rs) with
                   | [] => Some None
                   | n :: ns => if all_eq n ns then Some (Some n) else None end.
Proof.
  induction rs as [|a rs IH]; [reflexivity|].
  cbn [common_size map]. rewrite IH. destruct a as [b|bs]; cbn [r2i whole_sizes rsize].
  - destruct (whole_sizes (map r2i rs)) as [|m ms]; [reflexivity|]. destruct (all_eq m ms); reflexivity.
  - destruct (whole_sizes (map r2i rs)) as [|m ms]; [reflexivity|].
    rewrite all_eq_refl_cons. destruct (Nat.eqb_spec (length bs) m) as [Heq|Hne].
    + rewrite Heq. destruct (all_eq m ms); cbn [andb]; rewrite ?Nat.eqb_refl; reflexivity.
    + destruct (all_eq m ms); cbn [andb]; [|reflexivity].
      destruct (Nat.eqb_spec (length bs) m); [contradiction|reflexivity].
Qed.

Lemma omap_some {X Y} (f : X -> Y) l : omap (fun x => Some (f x)) l = Some (map f l).
Proof. induction l as [|a l IH]; [reflexivity|]. simpl. rewrite IH. reflexivity. Qed.
Lemma omap_ext_in {X Y} (f g : X -> option Y) l : (forall x, In x l -> f x = g x) -> omap f l = omap g l.
Proof.
  induction l as [|a l IH]; intros H; [reflexivity|]. simpl. rewrite (H a (or_introl eq_refl)), IH; [reflexivity|].
  intros x Hx. apply H. right. exact Hx.
Qed.

(* every whole-register argument has n elements *)
Definition sized (n : nat) (a : rarg) : Prop := match a with RBit _ => True | RAll bs => length bs = n end.
Lemma sized_of_sizes n rs : forallb (Nat.eqb n) (whole_sizes (map r2i rs)) = true -> Forall (sized n) rs.
Proof.
  induction rs as [|a rs IH]; intros H; [constructor|]. destruct a as [b|bs]; cbn [map r2i whole_sizes forallb] in H.
  - constructor; [exact I|apply IH; exact H].
  - apply andb_prop in H. destruct H as [H1 H2]. apply Nat.eqb_eq in H1. constructor; [symmetry; exact H1|apply IH; exact H2].
Qed.
Lemma ielem_pick n rs j : Forall (sized n) rs -> j < n -> omap (ielem j) (map r2i rs) = Some (map (pick j) rs).
Proof.
  intros HF Hj. induction HF as [|a rs Ha HF IH]; [reflexivity|]. cbn [map omap]. rewrite IH.
  destruct a as [b|bs]; cbn [r2i ielem pick]; [reflexivity|].
  cbn [sized] in Ha. rewrite (nth_error_nth' bs 0) by lia. reflexivity.
Qed.
Lemma no_whole_pick rs : whole_sizes (map r2i rs) = [] -> omap (ielem 0) (map r2i rs) = Some (map (pick 0) rs).
Proof.
  induction rs as [|a rs IH]; intros H; [reflexivity|]. destruct a as [b|bs]; cbn [map r2i whole_sizes] in H; [|discriminate].
  cbn [map omap r2i ielem pick]. rewrite (IH H). reflexivity.
Qed.
Lemma all_eq_last n ns : all_eq n ns = true -> last (n :: ns) 0 = n /\ fold_right Nat.min n (n :: ns) = n.
Proof.
  revert n. induction ns as [|m ns IH]; intros n H; [split; [reflexivity|apply Nat.min_id]|].
  rewrite all_eq_refl_cons in H. apply andb_prop in H. destruct H as [H1 H2]. apply Nat.eqb_eq in H1. subst m.
  destruct (IH n H2) as [L F]. split.
  - change (last (n :: n :: ns) 0) with (last (n :: ns) 0). exact L.
  - cbn [fold_right] in *. rewrite F. apply Nat.min_id.
Qed.

(* registers are non-empty: the sizes of whole-register arguments are positive *)
Lemma sizes_pos L : (forall r off n, sassoc r L = Some (off, n) -> 0 < n) ->
  forall qs rs, omap (resolve L) qs = Some rs -> Forall (fun n => 0 < n) (whole_sizes (map r2i rs)).
Proof.
  intros HL qs. induction qs as [|a qs IH]; intros rs H.
  - injection H as <-. constructor.
  - cbn [omap] in H. destruct (resolve L a) as [x|] eqn:E; [|discriminate].
    destruct (omap (resolve L) qs) as [rs'|]; [|discriminate]. injection H as <-.
    destruct a as [r|r i]; cbn [resolve] in E; destruct (sassoc r L) as [[off n]|] eqn:Er; try discriminate.
    + injection E as <-. cbn [map r2i whole_sizes]. constructor; [rewrite seq_length; eapply HL; eauto|apply IH; reflexivity].
    + destruct (i <? n); [|discriminate]. injection E as <-. cbn [map r2i whole_sizes]. apply IH. reflexivity.
Qed.

Theorem regs_ok L qs : (forall r off n, sassoc r L = Some (off, n) -> 0 < n) ->
  regs_gate true L qs = match omap (resolve L) qs with Some rs => broadcast rs | None => None end.
Proof.
  intros HL. unfold regs_gate. rewrite omap_ireg1.
  destruct (omap (resolve L) qs) as [rs|] eqn:E; [|reflexivity]. cbn [option_map].
  pose proof (sizes_pos L HL qs rs E) as Hpos.
  unfold broadcast. rewrite common_size_sizes.
  destruct (whole_sizes (map r2i rs)) as [|n ns] eqn:W.
  - rewrite (no_whole_pick rs W). reflexivity.
  - cbn [andb]. destruct (all_eq n ns) eqn:Ae; cbn [negb]; [|reflexivity].
    destruct (all_eq_last n ns Ae) as [HLst HMin]. rewrite HLst.
    inversion Hpos as [|? ? Hn _]; subst.
    destruct (Nat.eqb_spec n 0) as [->|_]; [lia|].
    replace (fold_right Nat.min n (n :: ns)) with n by (symmetry; exact HMin).
    assert (HF : Forall (sized n) rs).
    { apply sized_of_sizes. rewrite W. cbn [forallb]. rewrite Nat.eqb_refl. exact Ae. }
    rewrite (omap_ext_in _ (fun j => Some (map (pick j) rs))).
    + apply omap_some.
    + intros j Hj. apply in_seq in Hj. apply (ielem_pick n rs j HF). lia.
Qed.
