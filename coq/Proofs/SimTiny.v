(* C02 -- a concrete state space satisfying EVERY law of Proofs/SimLaws.v (so the theorems are not vacuous):
   one qubit with real rational amplitudes.  A ket (k, a, b), k > 0, denotes sqrt(k) * (a, b); gates X, H
   (= [[1,1],[1,-1]]/sqrt 2) and the rational rotation R = [[3,-4],[4,3]]/5; density matrices are real 2x2
   matrices; the tolerance is 0 (an outcome is kept iff its probability is > 0). *)
From Coq Require Import List Arith NArith Bool ZArith QArith Qcanon Lia Lqa Field Eqdep_dec.
From QV Require Import Model.Sim Spec.Branch Proofs.SimLaws.
Import ListNotations.
Local Open Scope Qc_scope.

Definition posb (k : Qc) : bool := Z.ltb 0 (Qnum (this k)).

Lemma posb_lt : forall k, posb k = true <-> (0 < this k)%Q.
Proof. intros k. unfold posb, Qlt. cbn. rewrite Z.ltb_lt. lia. Qed.

Lemma this_mult : forall a b : Qc, (this (a * b) == this a * this b)%Q.
Proof. intros. unfold Qcmult, Q2Qc. cbn [this]. apply Qred_correct. Qed.
Lemma this_plus : forall a b : Qc, (this (a + b) == this a + this b)%Q.
Proof. intros. unfold Qcplus, Q2Qc. cbn [this]. apply Qred_correct. Qed.
Lemma this_inv : forall a : Qc, (this (/ a) == / this a)%Q.
Proof. intros. unfold Qcinv, Q2Qc. cbn [this]. apply Qred_correct. Qed.
Lemma this_div : forall a b : Qc, (this (a / b) == this a / this b)%Q.
Proof. intros. unfold Qcdiv. rewrite this_mult, this_inv. reflexivity. Qed.

Lemma posb_div : forall k p, posb k = true -> posb p = true -> posb (k / p) = true.
Proof.
  intros k p Hk Hp. apply posb_lt in Hk. apply posb_lt in Hp. apply posb_lt. rewrite this_div.
  apply Qmult_lt_0_compat; [exact Hk|apply Qinv_lt_0_compat; exact Hp].
Qed.

Lemma Qc_le0_add : forall a b : Qc, 0 <= a -> 0 <= b -> 0 <= a + b.
Proof. intros a b Ha Hb. unfold Qcle in *. rewrite this_plus. change (this 0) with 0%Q in *. lra. Qed.

Lemma Qc_le0_add0 : forall a b : Qc, 0 <= a -> 0 <= b -> a + b = 0 -> a = 0 /\ b = 0.
Proof.
  intros a b Ha Hb H. unfold Qcle in *. change (this 0) with 0%Q in *.
  assert (E : (this (a + b) == 0)%Q) by (rewrite H; reflexivity). rewrite this_plus in E.
  split; apply Qc_is_canon; change (this 0) with 0%Q; lra.
Qed.

Lemma Qc_sq_nonneg : forall a : Qc, (0 <= this a * this a)%Q.
Proof. intros. nra. Qed.

Lemma Qc_nrm_pos : forall k a b : Qc, posb k = true -> 0 <= k * (a * a + b * b).
Proof.
  intros k a b Hk. apply posb_lt in Hk. unfold Qcle. change (this 0) with 0%Q.
  rewrite this_mult, this_plus, !this_mult.
  pose proof (Qc_sq_nonneg a). pose proof (Qc_sq_nonneg b). nra.
Qed.

Lemma Qc_nrm_zero : forall k a b : Qc, posb k = true -> k * (a * a + b * b) = 0 -> a = 0 /\ b = 0.
Proof.
  intros k a b Hk H. apply posb_lt in Hk.
  assert (E : (this (k * (a * a + b * b)) == 0)%Q) by (rewrite H; reflexivity).
  rewrite this_mult, this_plus, !this_mult in E.
  pose proof (Qc_sq_nonneg a) as Ha. pose proof (Qc_sq_nonneg b) as Hb.
  assert (S : (this a * this a + this b * this b == 0)%Q).
  { destruct (Qmult_integral _ _ E) as [Z|Z]; [lra|exact Z]. }
  assert (Za : (this a * this a == 0)%Q) by lra. assert (Zb : (this b * this b == 0)%Q) by lra.
  split; apply Qc_is_canon; change (this 0) with 0%Q.
  - destruct (Qmult_integral _ _ Za); assumption.
  - destruct (Qmult_integral _ _ Zb); assumption.
Qed.

(* ---- kets ---------------------------------------------------------------------------------------- *)
Record tket := mkT { tk : Qc; ta : Qc; tb : Qc; tpos : posb tk = true }.

Lemma tket_eq : forall s s', tk s = tk s' -> ta s = ta s' -> tb s = tb s' -> s = s'.
Proof.
  intros [k a b H] [k' a' b' H']. cbn. intros -> -> ->. f_equal. apply UIP_dec. apply bool_dec.
Qed.

Inductive tgate := GX | GH | GR.
(* small constants written with the field operations, so that [field] can compute with them *)
Definition q2 : Qc := 1 + 1.
Definition q3 : Qc := 1 + 1 + 1.
Definition q4 : Qc := (1 + 1) * (1 + 1).
Definition q5 : Qc := (1 + 1) * (1 + 1) + 1.
Definition tdiv (g : tgate) : Qc := match g with GX => 1 | GH => q2 | GR => q5 * q5 end.
(* matrix entries m00 m01 m10 m11 *)
Definition tm (g : tgate) : Qc * Qc * Qc * Qc :=
  match g with
  | GX => (0, 1, 1, 0)
  | GH => (1, 1, 1, - (1))
  | GR => (q3, - q4, q4, q3)
  end.
Lemma tdiv_pos : forall g, posb (tdiv g) = true.
Proof. destruct g; reflexivity. Qed.

Definition t_gate (g : tgate) (s : tket) : tket :=
  let '(m00, m01, m10, m11) := tm g in
  mkT (tk s / tdiv g) (m00 * ta s + m01 * tb s) (m10 * ta s + m11 * tb s) (posb_div _ _ (tpos s) (tdiv_pos g)).
Definition t_proj (_ : unit) (b : bool) (s : tket) : tket :=
  if b then mkT (tk s) 0 (tb s) (tpos s) else mkT (tk s) (ta s) 0 (tpos s).
Definition t_nrm (s : tket) : Qc := tk s * (ta s * ta s + tb s * tb s).
Definition posb_dec (p : Qc) : {posb p = true} + {posb p = false} :=
  match posb p as c return ({c = true} + {c = false}) with true => left eq_refl | false => right eq_refl end.
Definition t_renorm (p : Qc) (s : tket) : tket :=
  match posb_dec p with
  | left H => mkT (tk s / p) (ta s) (tb s) (posb_div _ _ (tpos s) H)
  | right _ => s
  end.

Lemma t_renorm_pos : forall p s, posb p = true -> tk (t_renorm p s) = tk s / p /\ ta (t_renorm p s) = ta s /\ tb (t_renorm p s) = tb s.
Proof. intros p s H. unfold t_renorm. destruct (posb_dec p) as [H'|H']; [cbn; auto|congruence]. Qed.

(* ---- density matrices ------------------------------------------------------------------------------ *)
Definition tdm := (Qc * Qc * Qc * Qc)%type.
Definition t_dm_of (s : tket) : tdm :=
  (tk s * (ta s * ta s), tk s * (ta s * tb s), tk s * (tb s * ta s), tk s * (tb s * tb s)).
Definition t_dadd (x y : tdm) : tdm :=
  let '(a, b, c, d) := x in let '(a', b', c', d') := y in (a + a', b + b', c + c', d + d').
Definition t_dscale (k : Qc) (x : tdm) : tdm := let '(a, b, c, d) := x in (k * a, k * b, k * c, k * d).
Definition t_dgate (g : tgate) (x : tdm) : tdm :=
  let '(m00, m01, m10, m11) := tm g in
  let '(a, b, c, d) := x in
  (* M x M^T / div *)
  ((m00 * (a * m00 + b * m01) + m01 * (c * m00 + d * m01)) / tdiv g,
   (m00 * (a * m10 + b * m11) + m01 * (c * m10 + d * m11)) / tdiv g,
   (m10 * (a * m00 + b * m01) + m11 * (c * m00 + d * m01)) / tdiv g,
   (m10 * (a * m10 + b * m11) + m11 * (c * m10 + d * m11)) / tdiv g).
Definition t_dproj (_ : unit) (b : bool) (x : tdm) : tdm :=
  let '(a, _, _, d) := x in if b then (0, 0, 0, d) else (a, 0, 0, 0).
Definition t_dtr (x : tdm) : Qc := let '(a, _, _, d) := x in a + d.

Definition tiny : Sys :=
  mkSys Qc 0 1 Qcplus Qcmult Qcminus Qcopp Qcdiv Qcinv Qc_eq_bool Qcle posb
        tket tgate unit t_gate t_proj t_nrm t_renorm
        tdm t_dm_of (0, 0, 0, 0) t_dadd t_dscale t_dgate t_dproj t_dtr.

Lemma fpos_posb : forall p : Qc, fpos tiny p -> posb p = true.
Proof.
  intros p [H1 H2]. cbn in H1, H2. apply posb_lt. unfold Qcle in H1. change (this 0) with 0%Q in H1.
  destruct (Qle_lt_or_eq _ _ H1) as [A|A]; [exact A|]. exfalso. apply H2. apply Qc_is_canon. symmetry. exact A.
Qed.

Lemma posb_neq0 : forall p : Qc, posb p = true -> p <> 0.
Proof. intros p H E. subst p. discriminate H. Qed.

(* side conditions of [field]: closed non-zero constants *)
Ltac qcne := repeat split; try assumption;
  match goal with |- _ <> _ => let Hq := fresh in intro Hq; apply (f_equal this) in Hq; vm_compute in Hq; discriminate Hq end.
Ltac tup := apply f_equal2; [apply f_equal2; [apply f_equal2|]|].
Ltac fld := unfold q2, q3, q4, q5; field; qcne.

Theorem tiny_laws : SysLaws tiny.
Proof.
  constructor; cbn [F f0 f1 fadd fmul fsub fopp fdiv finv feqb fle keepb St Gt Qb gate proj nrm renorm
                     Dm dm_of dzero dadd dscale dgate dproj dtr tiny].
  - exact Qcft.
  - intros a b. split; [apply Qc_eq_bool_correct|intros ->]. unfold Qc_eq_bool. destruct (Qc_eq_dec b b); congruence.
  - exact Qc_le0_add.
  - exact Qc_le0_add0.
  - unfold Qcle. apply Qle_refl.
  - exact posb_neq0.
  - intros [k a b H]. apply Qc_nrm_pos. exact H.
  - intros [] [k a b H]. unfold t_nrm, t_proj. cbn [tk ta tb]. ring.
  - intros g [k a b H]. unfold t_nrm, t_gate. destruct g; cbn [tm tdiv tk ta tb]; fld.
  - intros p s Hp. apply fpos_posb in Hp. destruct (t_renorm_pos p s Hp) as [A [B C]].
    unfold t_nrm. rewrite A, B, C. field. apply posb_neq0. exact Hp.
  - intros g p s Hp. apply fpos_posb in Hp. pose proof (posb_neq0 p Hp) as Hp0.
    destruct (t_renorm_pos p s Hp) as [A [B C]]. destruct (t_renorm_pos p (t_gate g s) Hp) as [A' [B' C']].
    apply tket_eq; rewrite ?A', ?B', ?C'; destruct g; unfold t_gate; cbn [tm tdiv tk ta tb]; rewrite ?A, ?B, ?C;
      try reflexivity; fld.
  - intros [] b p s Hp. apply fpos_posb in Hp.
    destruct (t_renorm_pos p s Hp) as [A [B C]]. destruct (t_renorm_pos p (t_proj tt b s) Hp) as [A' [B' C']].
    apply tket_eq; rewrite ?A', ?B', ?C'; destruct b; unfold t_proj; cbn [tk ta tb]; rewrite ?A, ?B, ?C; reflexivity.
  - intros a b s Ha Hb. apply fpos_posb in Ha. apply fpos_posb in Hb.
    assert (Hab : posb (a * b) = true).
    { apply posb_lt in Ha. apply posb_lt in Hb. apply posb_lt. rewrite this_mult. apply Qmult_lt_0_compat; assumption. }
    destruct (t_renorm_pos b s Hb) as [A [B C]]. destruct (t_renorm_pos a (t_renorm b s) Ha) as [A' [B' C']].
    destruct (t_renorm_pos (a * b) s Hab) as [A2 [B2 C2]].
    apply tket_eq; rewrite ?A', ?B', ?C', ?A2, ?B2, ?C2, ?A, ?B, ?C; try reflexivity.
    field. split; apply posb_neq0; assumption.
  - intros s. assert (H1 : posb 1 = true) by reflexivity. destruct (t_renorm_pos 1 s H1) as [A [B C]].
    apply tket_eq; rewrite ?A, ?B, ?C; try reflexivity. fld.
  - intros [[[a b] c] d] [[[a' b'] c'] d']. unfold t_dadd. tup; ring.
  - intros [[[a b] c] d] [[[a' b'] c'] d'] [[[a2 b2] c2] d2]. unfold t_dadd. tup; ring.
  - intros [[[a b] c] d]. unfold t_dadd. tup; ring.
  - intros g [k a b H]. unfold t_dgate, t_dm_of, t_gate. destruct g; cbn [tm tdiv tk ta tb]; tup; fld.
  - intros g [[[a b] c] d] [[[a' b'] c'] d']. unfold t_dgate, t_dadd. destruct g; cbn [tm tdiv]; tup; fld.
  - intros g. unfold t_dgate. destruct g; cbn [tm tdiv]; tup; fld.
  - intros [] b [k a0 b0 H]. unfold t_dproj, t_dm_of, t_proj. destruct b; cbn [tk ta tb]; tup; ring.
  - intros [] b [[[a0 b0] c0] d0] [[[a' b'] c'] d']. unfold t_dproj, t_dadd. destruct b; tup; ring.
  - intros [] b. unfold t_dproj. destruct b; reflexivity.
  - intros [k a b H]. unfold t_dtr, t_dm_of, t_nrm. cbn [tk ta tb]. ring.
  - intros [[[a b] c] d] [[[a' b'] c'] d']. unfold t_dtr, t_dadd. ring.
  - unfold t_dtr. ring.
  - intros a b [[[x y] z] w]. unfold t_dscale. tup; ring.
  - intros [[[x y] z] w]. unfold t_dscale. tup; ring.
  - intros [k a b H] Hn. unfold t_nrm in Hn. cbn [tk ta tb] in Hn. destruct (Qc_nrm_zero k a b H Hn) as [-> ->].
    unfold t_dm_of. cbn [tk ta tb]. tup; ring.
Qed.

(* ---- a concrete, non-trivial input ------------------------------------------------------------------ *)
Definition ket0 : tket := mkT 1 1 0 eq_refl.
(* H; measure -> c0; X if c0 == 1; measure -> c1     (one qubit, two classical bits) *)
Definition ex_ops : list (op tiny) :=
  [ OGate (X:=tiny) GH None; OMeas (X:=tiny) tt (Some 0%nat);
    OGate (X:=tiny) GX (Some ([0%nat], 1%N)); OMeas (X:=tiny) tt (Some 1%nat) ].
Definition ex_circ : circ tiny := mkCirc ex_ops 2.
(* the same with a rational rotation in front: probabilities 9/25, 16/25 *)
Definition ex_ops2 : list (op tiny) :=
  [ OGate (X:=tiny) GR None; OMeas (X:=tiny) tt (Some 1%nat); OGate (X:=tiny) GX (Some ([1%nat; 0%nat], 3%N)) ].
Definition ex_circ2 : circ tiny := mkCirc ex_ops2 2.
(* a circuit the density-matrix guard accepts: the conditioned gate reads a bit no measurement stores into *)
Definition ex_ops3 : list (op tiny) :=
  [ OGate (X:=tiny) GH None; OGate (X:=tiny) GX (Some ([1%nat], 1%N)); OMeas (X:=tiny) tt (Some 0%nat); OGate (X:=tiny) GR None ].
Definition ex_circ3 : circ tiny := mkCirc ex_ops3 2.
