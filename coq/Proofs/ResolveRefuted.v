(* C03: witnesses - what the UNCHANGED code gets wrong (the two proposed fixes), the two input classes excluded by the
   guard of resolve_in_basis (recorded known findings), and concrete inputs inhabiting the hypotheses of the theorems. *)
From Coq Require Import List String Bool Arith Lia.
From QV Require Import Found.Circ Model.ResolveTypes Gen.Decompose Gen.Gates Model.Resolve.
From QV Require Import Proofs.ResolveLemmas Proofs.ResolveChkDefs Proofs.ResolveSem.
Import ListNotations.
Local Open Scope string_scope.

Definition gX (q s : nat) := MG "X" [q] [] [] s.
Definition gT (q s : nat) := MG "T" [q] [] [] s.
Definition gRZ (q s : nat) := MG "RZ" [q] [] [Var 0] s.
Definition gSWAP (a b s : nat) := MG "SWAP" [a; b] [] [] s.
Definition phase (a : ex) : sgate := (MLit [[Exp (Mul (Imag 1) a)]], []).

(* 1. as coded (marker appended to qc_temp.gates), X in the default basis becomes RX(pi) alone: the table of the result
      differs from the table of X, and equals it once the lost GLOBALPHASE(pi/2) is put back *)
Lemma sem_refuted_unfixed : exists b c out, Forall wf_gate c /\
  resolve_gen false cur_flags basis_2q_order b c = Ok out /\
  scirc_eqb 1 (map to_sgate out) (map to_sgate c) = false /\
  scirc_eqb 1 (phase (Div Pi (Num 2)) :: map to_sgate out) (map to_sgate c) = true.
Proof.
  exists (BList default_basis), [gX 0 0], [MG "RX" [0%nat] [] [Pi] 0%nat].
  split; [|split; [vm_compute; reflexivity|split; vm_compute; reflexivity]].
  constructor; [|constructor]. exists 0%nat, 1%nat, 0%nat. simpl.
  split; [tauto|]. repeat split; try reflexivity. constructor; [simpl; tauto|constructor].
Qed.

(* 2. as coded (`gate.name in basis` with basis a str), a T gate is passed through for basis="CNOT" although it has no
      rule and is not the requested gate *)
Lemma refuses_refuted_unfixed : exists c, find_rule "T" = None /\ String.eqb "T" "CNOT" = false /\
  resolve_gen true (PF false rot_normalised) basis_2q_order (BStr "CNOT") c = Ok c /\ In (gT 0 0) c.
Proof. exists [gT 0 0]. repeat split; try (vm_compute; reflexivity). left. reflexivity. Qed.

(* 3. as coded before fixes/C03-basis-rotations-only (basis_1q not reduced to its rotations): an IDLE entry is counted by
      len(basis_1q) == 2, so with [CNOT; RX; RY; IDLE] the third rotation is not eliminated - the request is accepted, names a
      two-qubit gate, and the result contains RZ *)
Definition old_flags : pflags := PF str_basis_listified false.
Lemma in_basis_refuted_idle_unfixed : exists b c out cf keep, Forall wf_gate c /\ parse_basis_gen old_flags b = Ok (cf, keep) /\
  c2q cf <> [] /\ resolve_gen pauli_marker_to_temp old_flags basis_2q_order b c = Ok out /\
  existsb (fun g => negb (in_basis cf g)) out = true.
Proof.
  exists (BList ["CNOT"; "RX"; "RY"; "IDLE"]), [gRZ 0 0], [gRZ 0 0]. eexists. eexists.
  split; [|split; [reflexivity|split; [vm_compute; discriminate|split; vm_compute; reflexivity]]].
  constructor; [|constructor]. exists 0%nat, 1%nat, 1%nat. simpl.
  split; [tauto|]. repeat split; try reflexivity. constructor; [simpl; tauto|constructor].
Qed.

(* 4. as coded before fixes/C03-iswap-pass-first (pass precedence CSIGN, ISWAP, ...): with both CSIGN and ISWAP requested a
      SWAP is kept for the ISWAP pass, but the CSIGN pass runs and leaves it in the result *)
Definition old_order : list string := ["CSIGN"; "ISWAP"; "SQRTSWAP"; "SQRTISWAP"].
Lemma in_basis_refuted_csign_iswap_unfixed : exists b c out cf keep, Forall wf_gate c /\ parse_basis b = Ok (cf, keep) /\
  c2q cf <> [] /\ resolve_gen pauli_marker_to_temp cur_flags old_order b c = Ok out /\
  existsb (fun g => negb (in_basis cf g)) out = true.
Proof.
  exists (BList ["CSIGN"; "ISWAP"; "RX"; "RY"; "RZ"]), [gSWAP 0 1 0], [gSWAP 0 1 0]. eexists. eexists.
  split; [|split; [reflexivity|split; [vm_compute; discriminate|split; vm_compute; reflexivity]]].
  constructor; [|constructor]. exists 0%nat, 2%nat, 0%nat. simpl.
  split; [tauto|]. repeat split; try reflexivity.
  constructor; [simpl; intros [H|[]]; discriminate|constructor; [simpl; tauto|constructor]].
Qed.

(* 5. the remaining guard of resolve_in_basis is necessary: a list basis naming no two-qubit gate is accepted, and a CNOT of
      the circuit stays in the result *)
Lemma in_basis_refuted_no_2q : exists b c out cf keep, Forall wf_gate c /\ parse_basis b = Ok (cf, keep) /\
  c2q cf = [] /\ resolve b c = Ok out /\ existsb (fun g => negb (in_basis cf g)) out = true.
Proof.
  exists (BList ["RX"; "RY"]), [MG "CNOT" [1%nat] [0%nat] [] 0%nat], [MG "CNOT" [1%nat] [0%nat] [] 0%nat]. eexists. eexists.
  split; [|split; [reflexivity|split; [vm_compute; reflexivity|split; vm_compute; reflexivity]]].
  constructor; [|constructor]. exists 1%nat, 1%nat, 0%nat. simpl.
  split; [tauto|]. repeat split; try reflexivity.
  constructor; [simpl; intros [H|[]]; discriminate|constructor; [simpl; tauto|constructor]].
Qed.

(* the repaired code on the two formerly failing requests: accepted, and the result is in the basis *)
Lemma repaired_requests : forallb (fun bc => match parse_basis (fst bc), resolve (fst bc) (snd bc) with
                                             | Ok ck, Ok out => forallb (in_basis (fst ck)) out | _, _ => false end)
  [(BList ["CNOT"; "RX"; "RY"; "IDLE"], [gRZ 0 0]); (BList ["CNOT"; "IDLE"], [gRZ 0 0; gX 1 1]);
   (BList ["CSIGN"; "ISWAP"; "RX"; "RY"; "RZ"], [gSWAP 0 1 0; MG "CNOT" [1%nat] [0%nat] [] 1%nat])] = true.
Proof. vm_compute. reflexivity. Qed.

(* ---- non-vacuity ---------------------------------------------------------------------------------------------------- *)
Definition ex_circ : list mgate :=
  [gX 3 0; MG "TOFFOLI" [0] [4; 2] [] 1; MG "PHASEGATE" [1] [] [Var 0] 2; gSWAP 2 0 3; MG "FREDKIN" [1; 5] [0] [] 4;
   MG "RY" [2] [] [Var 0] 5; MG "GLOBALPHASE" [] [] [Var 0] 6]%nat.

Lemma ex_circ_wf : Forall wf_gate ex_circ.
Proof.
  unfold ex_circ.
  repeat (constructor; [
    first [ exists 0%nat, 1%nat, 0%nat; simpl; split; [tauto|]
          | exists 2%nat, 1%nat, 0%nat; simpl; split; [tauto|]
          | exists 0%nat, 1%nat, 1%nat; simpl; split; [tauto|]
          | exists 0%nat, 2%nat, 0%nat; simpl; split; [tauto|]
          | exists 1%nat, 2%nat, 0%nat; simpl; split; [tauto|]
          | exists 0%nat, 0%nat, 1%nat; simpl; split; [tauto|] ];
    repeat split; try reflexivity;
    repeat (constructor; [simpl; intuition discriminate|]); constructor |]).
  constructor.
Qed.

Lemma ex_circ_resolves : exists out cf keep, parse_basis (BList ["SQRTISWAP"; "RY"; "RZ"]) = Ok (cf, keep) /\ valid_cfg cf = true /\
  resolve (BList ["SQRTISWAP"; "RY"; "RZ"]) ex_circ = Ok out /\ (100 < length out)%nat.
Proof.
  eexists. eexists. eexists. split; [reflexivity|]. split; [vm_compute; reflexivity|].
  split; [vm_compute; reflexivity|]. vm_compute. lia.
Qed.

Lemma ex_refused : resolve (BStr "CSIGN") [MG "CS" [1] [0] [] 0]%nat = Error /\ find_rule "CS" = None /\
  resolve (BList default_basis) [MG "BERKELEY" [0; 1] [] [] 0]%nat = Error /\ find_rule "BERKELEY" = Some RRaise /\
  find_rule "SWAPalpha" = Some RRaise /\ find_rule "SQRTSWAP" = Some RRaise /\ find_rule "SQRTISWAP" = Some RRaise.
Proof. repeat split; vm_compute; reflexivity. Qed.
