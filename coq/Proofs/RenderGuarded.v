(* C20 -- final forms of the theorems: for the repaired renderer (fx = true) without restriction, and for
   the unchanged renderer (fx = false) under the guard box_contiguous *)
From Coq Require Import List NArith Arith Bool Lia.
Import ListNotations.
From QV Require Import Model.Render Spec.RenderSpec Proofs.RenderBase Proofs.RenderStep Proofs.RenderSeg
     Proofs.RenderInv Proofs.RenderRead Proofs.RenderLinks Proofs.RenderUnfixed.

Lemma wire_at_order nq nc i : i < nq + nc -> nth i (print_order nq nc) 0 = wire_at nq nc i.
Proof. apply print_order_nth. Qed.

Lemma wire_at_bound nq nc i : i < nq + nc -> wire_at nq nc i < nq + nc.
Proof. intro L. rewrite <- wire_at_order by exact L. apply print_order_bound. exact L. Qed.

Lemma printed_rows_l fx sty nq nc ops st xs :
  layout_full fx sty nq nc ops = Some (st, xs) ->
  layout fx sty nq nc ops = Some (rows_of nq nc st) /\
  forall i j, i < nq + nc -> j < 3 ->
    nth (3 * i + j) (rows_of nq nc st) [] =
    nth j [top (wire_of st (wire_at nq nc i)); mid (wire_of st (wire_at nq nc i));
           bot (wire_of st (wire_at nq nc i))] [].
Proof.
  intro H. split.
  - unfold layout. rewrite H. reflexivity.
  - intros i j Li Lj. rewrite (nth_rows_of nq nc st i j Li Lj). cbv zeta.
    rewrite wire_at_order by exact Li. reflexivity.
Qed.

Lemma wire_order_f sty nq nc ops rows :
  wf_input sty nq nc ops = true -> layout true sty nq nc ops = Some rows ->
  forall i, i < nq + nc ->
    exists rest, nth (3 * i + 1) rows [] = wire_prefix sty nq nc (wire_at nq nc i) ++ rest.
Proof. intros WF HL i Li. apply (wire_order_l sty nq nc ops rows WF HL i Li). Qed.

Lemma labels_in_order_f sty nq nc ops rows :
  wf_input sty nq nc ops = true -> Forall text_ok ops ->
  layout true sty nq nc ops = Some rows ->
  forall i, i < nq + nc ->
    read_labels sty nq nc (nth (3 * i + 1) rows []) = circuit_labels ops (wire_at nq nc i).
Proof.
  intros WF TK HL i Li. rewrite <- wire_at_order by exact Li.
  apply (labels_in_order_l sty nq nc ops rows WF TK HL i Li).
Qed.

(* ---- the unchanged renderer under the guard ---- *)
Lemma layout_succeeds_g sty nq nc ops :
  wf_input sty nq nc ops = true -> forallb box_contiguous ops = true ->
  exists rows, layout false sty nq nc ops = Some rows.
Proof. intros WF G. rewrite (layout_unfixed_eq sty nq nc ops G). apply layout_succeeds_l. exact WF. Qed.

Lemma rows_equal_width_g sty nq nc ops rows :
  wf_input sty nq nc ops = true -> forallb box_contiguous ops = true ->
  layout false sty nq nc ops = Some rows ->
  exists width, forall r, In r rows -> length r = width.
Proof.
  intros WF G HL. rewrite (layout_unfixed_eq sty nq nc ops G) in HL.
  apply (rows_equal_width_l sty nq nc ops rows WF HL).
Qed.

Lemma wire_order_g sty nq nc ops rows :
  wf_input sty nq nc ops = true -> forallb box_contiguous ops = true ->
  layout false sty nq nc ops = Some rows ->
  forall i, i < nq + nc ->
    exists rest, nth (3 * i + 1) rows [] = wire_prefix sty nq nc (wire_at nq nc i) ++ rest.
Proof.
  intros WF G HL. rewrite (layout_unfixed_eq sty nq nc ops G) in HL.
  apply (wire_order_f sty nq nc ops rows WF HL).
Qed.

Lemma labels_in_order_g sty nq nc ops rows :
  wf_input sty nq nc ops = true -> forallb box_contiguous ops = true -> Forall text_ok ops ->
  layout false sty nq nc ops = Some rows ->
  forall i, i < nq + nc ->
    read_labels sty nq nc (nth (3 * i + 1) rows []) = circuit_labels ops (wire_at nq nc i).
Proof.
  intros WF G TK HL. rewrite (layout_unfixed_eq sty nq nc ops G) in HL.
  apply (labels_in_order_f sty nq nc ops rows WF TK HL).
Qed.

Lemma links_reach_g sty nq nc ops st xs :
  wf_input sty nq nc ops = true -> forallb box_contiguous ops = true ->
  layout_full false sty nq nc ops = Some (st, xs) ->
  length xs = length ops /\
  forall k o x, nth_error ops k = Some o -> nth_error xs k = Some x ->
    (forall f, In f (op_links (padw sty) nq nc o) -> holds st x f) /\
    (forall b, In b (op_boxes (padw sty) nq o) -> box_holds st x b).
Proof.
  intros WF G HL. rewrite (layout_full_unfixed_eq sty nq nc ops G) in HL.
  apply (links_reach_l sty nq nc ops st xs WF HL).
Qed.
