(* C02 -- density-matrix mode: for circuits in which no conditioned gate reads a measured bit, the evolution
   returns the probability-weighted mixture of the branches (sum over all records of |u_r><u_r|). *)
From Coq Require Import List Arith NArith Bool Lia Field Ring.
From QV Require Import Model.Sim Spec.Branch Proofs.SimLaws Proofs.SimCond Proofs.SimRun Proofs.SimStats.
Import ListNotations.

Lemma nth_error_set_nth : forall {A} (l : list A) c x i,
  nth_error (set_nth l c x) i =
  if Nat.eqb i c then match nth_error l c with Some _ => Some x | None => None end else nth_error l i.
Proof.
  induction l as [|y l IH]; intros c x i; cbn [set_nth].
  - destruct (Nat.eqb i c); destruct c, i; reflexivity.
  - destruct c as [|c]; destruct i as [|i]; cbn [nth_error Nat.eqb]; try reflexivity. apply IH.
Qed.

Lemma flat_map_single : forall {A} (l : list A), flat_map (fun u => [u]) l = l.
Proof. induction l; cbn; congruence. Qed.

Lemma flat_map_map' : forall {A B C} (f : B -> list C) (g : A -> B) l, flat_map f (map g l) = flat_map (fun x => f (g x)) l.
Proof. induction l; cbn; congruence. Qed.

Lemma flat_map_app' : forall {A B} (f : A -> list B) l1 l2, flat_map f (l1 ++ l2) = flat_map f l1 ++ flat_map f l2.
Proof. induction l1; intros; cbn; [reflexivity|]. rewrite IHl1, app_assoc. reflexivity. Qed.

Lemma flat_map_flat_map : forall {A B C} (f : B -> list C) (g : A -> list B) l,
  flat_map f (flat_map g l) = flat_map (fun x => flat_map f (g x)) l.
Proof. induction l; cbn; [reflexivity|]. rewrite flat_map_app', IHl. reflexivity. Qed.

Lemma flat_map_ext' : forall {A B} (f g : A -> list B) l, (forall x, f x = g x) -> flat_map f l = flat_map g l.
Proof. intros. induction l; cbn; congruence. Qed.

Section DM.
Variable X : Sys.
Hypothesis L : SysLaws X.

Add Field FF4 : (L_field X L).

Notation fO := (f0 X).
Notation fI := (f1 X).

(* ---- the spec side: the list of all branch vectors ------------------------------------------------ *)
Lemma ubranch_cb_irrel : forall ops r u cb cb',
  (forall i, In i (reads X ops) -> nth_error cb i = nth_error cb' i) ->
  fst (ubranch X ops r u cb) = fst (ubranch X ops r u cb').
Proof.
  induction ops as [|o tl IH]; intros r u cb cb' H; [reflexivity|].
  destruct o as [g [[cc v]|]|q st]; cbn [ubranch].
  - rewrite (cond_true_agree cc v cb cb').
    2:{ intros i Hi. apply H. cbn [reads flat_map reads_op]. apply in_or_app. left. exact Hi. }
    apply IH. intros i Hi. apply H. cbn [reads flat_map]. apply in_or_app. right. exact Hi.
  - apply IH. intros i Hi. apply H. exact Hi.
  - destruct r as [|b r']; [reflexivity|]. apply IH. intros i Hi.
    assert (Hi' : nth_error cb i = nth_error cb' i) by (apply H; exact Hi).
    destruct st as [c|]; cbn [write]; [|exact Hi'].
    rewrite !nth_error_set_nth. destruct (Nat.eqb i c) eqn:E; [|exact Hi'].
    apply Nat.eqb_eq in E. subst c. rewrite Hi'. reflexivity.
Qed.

Definition estep (cb0 : list nat) (o : op X) (E : list (St X)) : list (St X) :=
  match o with
  | OGate g None => map (gate X g) E
  | OGate g (Some (cc, v)) => if cond_true cc v cb0 then map (gate X g) E else E
  | OMeas q _ => flat_map (fun u => [proj X q false u; proj X q true u]) E
  end.

Definition all_branches (cb0 : list nat) (ops : list (op X)) (E : list (St X)) : list (St X) :=
  flat_map (fun u => map (fun r => bvec X ops r u cb0) (all_records (nmeas X ops))) E.

Lemma esteps_all_branches : forall cb0 ops E, dm_safe X ops = true ->
  fold_left (fun E o => estep cb0 o E) ops E = all_branches cb0 ops E.
Proof.
  intros cb0. induction ops as [|o tl IH]; intros E Hs.
  - unfold all_branches, bvec, nmeas. cbn. symmetry. apply flat_map_single.
  - cbn [fold_left]. destruct o as [g [[cc v]|]|q st]; cbn [dm_safe] in Hs.
    + rewrite IH by exact Hs. unfold all_branches, bvec. rewrite nmeas_cons_gate. cbn [estep ubranch].
      destruct (cond_true cc v cb0); [apply flat_map_map'|reflexivity].
    + rewrite IH by exact Hs. unfold all_branches, bvec. rewrite nmeas_cons_gate. cbn [estep ubranch]. apply flat_map_map'.
    + assert (Hs' : dm_safe X tl = true /\ forall i, In i (reads X tl) -> forall b, nth_error (write st b cb0) i = nth_error cb0 i).
      { destruct st as [c|]; [|split; [exact Hs|reflexivity]]. apply andb_true_iff in Hs. destruct Hs as [Hn Hs]. split; [exact Hs|].
        intros i Hi b. cbn [write]. rewrite nth_error_set_nth. destruct (Nat.eqb i c) eqn:Eic; [|reflexivity].
        apply Nat.eqb_eq in Eic. subst i. exfalso. apply negb_true_iff in Hn.
        assert (existsb (Nat.eqb c) (reads X tl) = true); [|congruence].
        apply existsb_exists. exists c. split; [exact Hi|apply Nat.eqb_refl]. }
      destruct Hs' as [Hs' Hw]. rewrite IH by exact Hs'. unfold all_branches, bvec. rewrite nmeas_cons_meas. cbn [estep all_records].
      rewrite flat_map_flat_map. apply flat_map_ext'. intros u. cbn [flat_map]. rewrite app_nil_r, map_app, !map_map.
      cbn [ubranch]. f_equal; apply map_ext; intros r; apply ubranch_cb_irrel; intros i Hi; symmetry; apply Hw; exact Hi.
Qed.

(* ---- the density-matrix side -------------------------------------------------------------------------- *)
Lemma dadd_0r : forall a, dadd X a (dzero X) = a.
Proof. intros. rewrite (L_dadd_comm X L). apply (L_dadd_0l X L). Qed.

Definition mix (E : list (St X)) : Dm X := dsum X (map (dm_of X) E).

Lemma dgate_mix : forall g E, dgate X g (mix E) = mix (map (gate X g) E).
Proof.
  intros g. unfold mix, dsum. induction E as [|u E IH]; cbn [map fold_right].
  - apply (L_dgate_0 X L).
  - rewrite (L_dgate_add X L), (L_dgate_of X L), IH. reflexivity.
Qed.

Lemma dproj_mix : forall q b E, dproj X q b (mix E) = mix (map (proj X q b) E).
Proof.
  intros q b. unfold mix, dsum. induction E as [|u E IH]; cbn [map fold_right].
  - apply (L_dproj_0 X L).
  - rewrite (L_dproj_add X L), (L_dproj_of X L), IH. reflexivity.
Qed.

Lemma dtr_mix : forall E, dtr X (mix E) = fsum X (map (nrm X) E).
Proof.
  unfold mix, dsum, fsum. induction E as [|u E IH]; cbn [map fold_right].
  - apply (L_dtr_0 X L).
  - rewrite (L_dtr_add X L), (L_dtr_of X L), IH. reflexivity.
Qed.

Lemma fsum_nrm_pos : forall E, fle X fO (fsum X (map (nrm X) E)).
Proof.
  unfold fsum. induction E as [|u E IH]; cbn [map fold_right]; [apply (L_le_00 X L)|].
  apply (L_le_add X L); [apply (L_nrm_pos X L)|exact IH].
Qed.

(* a mixture of trace 0 is the zero operator *)
Lemma mix_tr0 : forall E, fsum X (map (nrm X) E) = fO -> mix E = dzero X.
Proof.
  unfold mix, dsum. induction E as [|u E IH]; intros H; cbn [map fold_right]; [reflexivity|].
  unfold fsum in H. cbn [map fold_right] in H.
  destruct (L_le_add0 X L _ _ (L_nrm_pos X L u) (fsum_nrm_pos E) H) as [A B].
  rewrite (L_dm_of_0 X L u A), (IH B). apply (L_dadd_0l X L).
Qed.

Lemma mix_interleave : forall (f g : St X -> St X) E,
  dadd X (mix (map f E)) (mix (map g E)) = mix (flat_map (fun u => [f u; g u]) E).
Proof.
  intros f g. unfold mix, dsum. induction E as [|u E IH]; cbn [map flat_map app fold_right].
  - apply (L_dadd_0l X L).
  - rewrite <- IH.
    set (a := dm_of X (f u)). set (b := dm_of X (g u)).
    set (A := fold_right (dadd X) (dzero X) (map (dm_of X) (map f E))).
    set (B := fold_right (dadd X) (dzero X) (map (dm_of X) (map g E))).
    (* (a + A) + (b + B) = a + (b + (A + B)) *)
    rewrite (L_dadd_assoc X L (dadd X a A) b B).
    rewrite <- (L_dadd_assoc X L a A b).
    rewrite (L_dadd_comm X L A b).
    rewrite (L_dadd_assoc X L a b A).
    rewrite (L_dadd_assoc X L a b (dadd X A B)).
    rewrite (L_dadd_assoc X L (dadd X a b) A B).
    reflexivity.
Qed.

(* one measurement in density-matrix mode, on a mixture *)
Lemma dm_meas_mix : forall q E,
  let p0 := dtr X (dproj X q false (mix E)) in
  let p1 := dtr X (dproj X q true (mix E)) in
  pok X p0 = true -> pok X p1 = true -> keepb X p0 || keepb X p1 = true ->
  dm_meas X q (mix E) = Ok (dadd X (dproj X q false (mix E)) (dproj X q true (mix E))).
Proof.
  intros q E p0 p1 H0 H1 Hk.
  assert (Hkept : forall b, keepb X (dtr X (dproj X q b (mix E))) = true ->
            dscale X (dtr X (dproj X q b (mix E))) (dscale X (finv X (dtr X (dproj X q b (mix E)))) (dproj X q b (mix E)))
            = dproj X q b (mix E)).
  { intros b Hb. apply (L_keep X L) in Hb. rewrite (L_dscale_dscale X L).
    replace (fmul X (dtr X (dproj X q b (mix E))) (finv X (dtr X (dproj X q b (mix E))))) with fI by (field; exact Hb).
    apply (L_dscale_1 X L). }
  assert (Hdrop : forall b, pok X (dtr X (dproj X q b (mix E))) = true -> keepb X (dtr X (dproj X q b (mix E))) = false ->
            dproj X q b (mix E) = dzero X).
  { intros b Hp Hb. pose proof (pok_cases X L _ Hp Hb) as Hz. rewrite dproj_mix in Hz |- *. rewrite dtr_mix in Hz.
    apply mix_tr0. exact Hz. }
  unfold dm_meas, dmeas_out. fold p0 p1.
  destruct (keepb X p0) eqn:E0; destruct (keepb X p1) eqn:E1; try discriminate Hk.
  - unfold p0, p1. rewrite (Hkept false E0), (Hkept true E1). reflexivity.
  - unfold p0. rewrite (Hkept false E0), (Hdrop true H1 E1), dadd_0r. reflexivity.
  - unfold p1. rewrite (Hkept true E1), (Hdrop false H0 E0), (L_dadd_0l X L). reflexivity.
Qed.

Lemma check_cc_opt : forall ncb cbo cb0 g cc v,
  (cbo = Some cb0 \/ (cbo = None /\ cb0 = [])) -> length cb0 = ncb ->
  wf_op X ncb (OGate (X:=X) g (Some (cc, v))) = true ->
  check_cc cc v cbo = Ok (cond_true cc v cb0).
Proof.
  intros ncb cbo cb0 g cc v Hc Hlen Hwf. cbn in Hwf. apply andb_true_iff in Hwf. destruct Hwf as [Hin Hv].
  rewrite forallb_forall in Hin. apply N.ltb_lt in Hv.
  destruct Hc as [->|[-> ->]].
  - apply check_cc_spec; [|exact Hv]. intros i Hi. specialize (Hin i Hi). apply Nat.ltb_lt in Hin. lia.
  - cbn in Hlen. subst ncb. destruct cc as [|i cc].
    + cbn in Hv. assert (v = 0%N) by lia. subst v. reflexivity.
    + specialize (Hin i (or_introl eq_refl)). cbn in Hin. discriminate Hin.
Qed.

Lemma dm_ops_mix : forall ncb cbo cb0, (cbo = Some cb0 \/ (cbo = None /\ cb0 = [])) -> length cb0 = ncb ->
  forall ops E, wf X ncb ops = true -> dm_clear X ops cb0 (mix E) = true ->
  dm_ops X ops cbo (mix E) = Ok (mix (fold_left (fun E o => estep cb0 o E) ops E)).
Proof.
  intros ncb cbo cb0 Hc Hlen. induction ops as [|o tl IH]; intros E Hwf Hcl; [reflexivity|].
  cbn [wf forallb] in Hwf. apply andb_true_iff in Hwf. destruct Hwf as [Hwo Hwt].
  cbn [dm_ops fold_left]. destruct o as [g [[cc v]|]|q st]; cbn [dm_step estep dm_clear] in *.
  - rewrite (check_cc_opt ncb cbo cb0 g cc v Hc Hlen Hwo).
    destruct (cond_true cc v cb0).
    + rewrite dgate_mix in Hcl |- *. apply IH; assumption.
    + apply IH; assumption.
  - rewrite dgate_mix in Hcl |- *. apply IH; assumption.
  - rewrite !andb_true_iff in Hcl. destruct Hcl as [[[H0 H1] Hk] Hcl].
    rewrite (dm_meas_mix q E H0 H1 Hk).
    rewrite !dproj_mix, mix_interleave in Hcl |- *. apply IH; assumption.
Qed.

(* dm_is_mixture *)
Lemma dm_run_mixture : forall (c : circ X) s0 cbarg h,
  wf X (c_ncb X c) (c_ops X c) = true -> valid_arg h cbarg ->
  dm_safe X (c_ops X c) = true ->
  dm_clear X (c_ops X c) (init_cbits (c_ncb X c) (arg_val h cbarg)) (dm_of X s0) = true ->
  exists h' ref, dm_run_orig X false c (dm_of X s0) cbarg h
                 = Ok (h', (mixture X (c_ops X c) s0 (init_cbits (c_ncb X c) (arg_val h cbarg)), fI, ref))
                 /\ untouched h h'.
Proof.
  intros c s0 cbarg h Hwf V Hsafe Hcl. unfold dm_run_orig.
  set (cb0 := init_cbits (c_ncb X c) (arg_val h cbarg)) in *.
  assert (Hlen0 : length cb0 = c_ncb X c) by apply init_cbits_length.
  assert (E1 : dm_of X s0 = mix [s0]) by (unfold mix, dsum; cbn [map fold_right]; symmetry; apply dadd_0r).
  assert (Hmixt : mix (fold_left (fun E o => estep cb0 o E) (c_ops X c) [s0]) = mixture X (c_ops X c) s0 cb0).
  { rewrite esteps_all_branches by exact Hsafe. unfold all_branches, mixture, mix. cbn [flat_map]. rewrite app_nil_r, map_map. reflexivity. }
  rewrite E1 in Hcl |- *.
  destruct (initialize_fresh (c_ncb X c) cbarg h V) as [[Hpos Hini]|[Hz [Hini Hnil]]]; rewrite Hini; fold cb0 in Hini |- *.
  - rewrite hget_app_new.
    rewrite (dm_ops_mix (c_ncb X c) (Some cb0) cb0 (or_introl eq_refl) Hlen0 (c_ops X c) [s0] Hwf Hcl).
    rewrite Hmixt. eexists. eexists. split; [reflexivity|].
    split; [rewrite app_length; lia|]. intros x Hx. apply hget_app_old. exact Hx.
  - rewrite (dm_ops_mix (c_ncb X c) None cb0 (or_intror (conj eq_refl Hnil)) Hlen0 (c_ops X c) [s0] Hwf Hcl).
    rewrite Hmixt. eexists. eexists. split; [reflexivity|]. apply untouched_refl.
Qed.

End DM.
