(* C12: statements in their final form *)
From Coq Require Import List QArith Qabs Qround ZArith Bool Lia Lqa.
From QV Require Import Model.Concat Proofs.ConcatBasics Proofs.ConcatGrid Proofs.ConcatWave
     Proofs.ConcatAll Proofs.ConcatChannels.
Import ListNotations.
Open Scope Q_scope.

Lemma compile_structure fx gx sched il out :
  il <> [] -> compile fx gx sched il = Some out ->
  exists sil chs outs,
    scheduled sched il = Some sil /\ build_channels sil = Some chs /\
    NoDup (map fst chs) /\ (forall n l, In (n, l) chs -> l = pulses_of n sil) /\
    concatenate_pulses fx gx (map snd chs) = Some outs /\ out = combine (map fst chs) outs.
Proof.
  intros Hne H. destruct (compile_decompose _ _ _ _ _ Hne H) as (sil & chs & outs & A & B & C & D).
  destruct (build_channels_spec _ _ B) as [E F].
  exists sil, chs, outs. repeat split; assumption.
Qed.

Lemma compile_grid_starts_zero sched il out n ts cs :
  compile true true sched il = Some out -> In (n, (ts, cs)) out -> exists r, ts = 0 :: r.
Proof.
  intros H HI. destruct il as [|i0 il].
  - cbn in H. inversion H; subst. destruct HI.
  - assert (Hne : i0 :: il <> []) by discriminate.
    destruct (compile_decompose _ _ _ _ _ Hne H) as (sil & chs & outs & _ & _ & C & ->).
    apply in_combine_r in HI. apply In_nth_error in HI. destruct HI as [k Hk].
    exact (all_start_zero _ _ _ _ _ C Hk).
Qed.

Lemma window_waveform chs outs k l ts cs :
  concatenate_pulses true true chs = Some outs ->
  nth_error chs k = Some l -> nth_error outs k = Some (ts, cs) ->
  chain_ord 0 l -> gaps_ok (gap_tol true (res_of chs)) 0 l -> Forall (fun i => is_discrete (p_wave i)) l ->
  forall i t, In i l -> p_start i <= t -> t < p_end i ->
  eval_step ts cs t = eval_step (w_ts (p_wave i)) (w_cs (p_wave i)) (t - p_start i).
Proof.
  intros H Hl Ho HC HG HD i t Hi H1 H2.
  rewrite (all_waveform _ _ _ _ _ _ H Hl Ho HC HG HD t).
  exact (spec_in_window _ _ _ _ HC Hi H1 H2).
Qed.

Lemma zero_elsewhere chs outs k l ts cs :
  concatenate_pulses true true chs = Some outs ->
  nth_error chs k = Some l -> nth_error outs k = Some (ts, cs) ->
  chain_ord 0 l -> gaps_ok (gap_tol true (res_of chs)) 0 l -> Forall (fun i => is_discrete (p_wave i)) l ->
  forall t, (forall i, In i l -> ~ (p_start i <= t /\ t < p_end i)) -> eval_step ts cs t = 0.
Proof.
  intros H Hl Ho HC HG HD t Hout.
  rewrite (all_waveform _ _ _ _ _ _ H Hl Ho HC HG HD t).
  exact (spec_outside _ _ Hout).
Qed.

Lemma scheduled_sorted st il sil :
  scheduled (Some st) il = Some sil ->
  sorted_starts sil /\ forall y, In y sil <-> In y (combine st il).
Proof.
  unfold scheduled. destruct (all_some (map (fun i => duration (i_tl i)) il)); [|discriminate].
  intro H. inversion H; subst. split; [apply order_by_start_sorted|apply order_by_start_in].
Qed.

(* ---------- a concrete, non-trivial input that satisfies every hypothesis ---------- *)
Definition ex_chA : list pinstr := [mkP 0 (Scalar 1 3); mkP 3 (Sampled [0; 1; 2] [5; 7])].
Definition ex_chB : list pinstr :=
  [mkP 0 (Sampled [0; 1; 2] [0; 4; 2]); mkP 2 (Sampled [0; 1 # 2; 1] [0; 6; 0])].
Definition ex_chs : list (list pinstr) := [ex_chA; ex_chB].

Lemma wf_sampled t1 r cs :
  incr_from 0 (t1 :: r) ->
  (length (0 :: t1 :: r) = S (length cs) \/ length (0 :: t1 :: r) = length cs) ->
  wf_wave (Sampled (0 :: t1 :: r) cs).
Proof.
  intros Hi Hl. exists 0, (t1 :: r). split; [reflexivity|]. split; [reflexivity|].
  split; [congruence|]. split; [exact Hi|exact Hl].
Qed.

Lemma wf_scalar' d c : 0 < d -> wf_wave (Scalar d c).
Proof.
  intro H. exists 0, [d]. split; [reflexivity|]. split; [reflexivity|]. split; [congruence|].
  split; [cbn; split; [exact H|exact I]|]. left. reflexivity.
Qed.

Lemma ex_chain : Forall (chain_ord 0) ex_chs.
Proof.
  unfold ex_chs, ex_chA, ex_chB. repeat apply Forall_cons; try apply Forall_nil.
  - split; [apply wf_scalar'; reflexivity|]. split; [cbn; lra|].
    split; [apply wf_sampled; [cbn; repeat split; lra|left; reflexivity]|].
    split; [unfold p_end, wave_end; cbn; lra|exact I].
  - split; [apply wf_sampled; [cbn; repeat split; lra|right; reflexivity]|]. split; [cbn; lra|].
    split; [apply wf_sampled; [cbn; repeat split; lra|right; reflexivity]|].
    split; [unfold p_end, wave_end; cbn; lra|exact I].
Qed.

Lemma ex_gaps : Forall (gaps_ok (gap_tol true (res_of ex_chs)) 0) ex_chs.
Proof.
  unfold ex_chs, ex_chA, ex_chB. repeat apply Forall_cons; try apply Forall_nil.
  - split; [left; reflexivity|]. split; [|exact I]. right. vm_compute. reflexivity.
  - split; [left; reflexivity|]. split; [|exact I]. left. unfold p_end, wave_end. cbn. lra.
Qed.

Lemma ex_discrete : Forall (fun i => is_discrete (p_wave i)) ex_chA.
Proof. repeat constructor. Qed.

Lemma ex_continuous : Forall wf_cont ex_chB.
Proof.
  pose proof ex_chain as H. apply Forall_inv_tail in H. apply Forall_inv in H.
  destruct H as (A & _ & B & _ & _).
  unfold ex_chB. repeat apply Forall_cons; try apply Forall_nil; (split; [assumption|reflexivity]).
Qed.

Lemma ex_compiles :
  exists oA oB, concatenate_pulses true true ex_chs = Some [oA; oB] /\
                eval_step (fst oA) (snd oA) (7 # 2) = 5 /\ eval_step (fst oA) (snd oA) 2 = 0 /\
                length (fst oA) = 5%nat /\ length (fst oB) = 25%nat.
Proof. do 2 eexists. split; [vm_compute; reflexivity|]. vm_compute. repeat split; reflexivity. Qed.
