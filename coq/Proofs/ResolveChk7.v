(* C03: semantic obligations for basis configurations 448 .. 511 of all_cfgs (20 gate kinds each) *)
From QV Require Import Model.Resolve Proofs.ResolveChkDefs.
Lemma chk_sem_7 : sem_ok (slice 7) = true.
Proof. vm_compute. reflexivity. Qed.
