(* C02 -- run / run_statistics of the FIXED simulator (alias := false) against Spec/Branch.v:
   post-selected run, unconstrained run, enumeration of all records, Born sum. *)
From Coq Require Import List Arith NArith Bool Lia Field Ring.
From QV Require Import Model.Sim Spec.Branch Proofs.SimLaws Proofs.SimCond Proofs.SimRun.
Import ListNotations.

Definition valid_arg (h : heap) (cbarg : option nat) : Prop :=
  match cbarg with Some r => r < length h | None => True end.
Definition arg_val (h : heap) (cbarg : option nat) : option (list nat) :=
  match cbarg with Some r => hget h r | None => None end.

(* no list object that existed before has changed *)
Definition untouched (h h' : heap) : Prop :=
  length h <= length h' /\ forall x, x < length h -> hget h' x = hget h x.

Lemma untouched_refl : forall h, untouched h h.
Proof. split; auto. Qed.
Lemma untouched_trans : forall a b c, untouched a b -> untouched b c -> untouched a c.
Proof. intros a b c [A B] [C D]. split; [lia|]. intros x H. rewrite D by lia. apply B. exact H. Qed.

Lemma untouched_arg : forall h h' cbarg, valid_arg h cbarg -> untouched h h' ->
  valid_arg h' cbarg /\ arg_val h' cbarg = arg_val h cbarg.
Proof. intros h h' [r|] V [A B]; cbn in *; [split; [lia|apply B; exact V]|auto]. Qed.

Lemma hget_app_new : forall (h : heap) l, hget (h ++ [l]) (length h) = Some l.
Proof. intros. unfold hget. rewrite nth_error_app2 by lia. rewrite Nat.sub_diag. reflexivity. Qed.
Lemma hget_app_old : forall (h : heap) l x, x < length h -> hget (h ++ [l]) x = hget h x.
Proof. intros. unfold hget. apply nth_error_app1. exact H. Qed.

Lemma init_cbits_length : forall ncb arg, length (init_cbits ncb arg) = ncb.
Proof.
  intros ncb [l|]; cbn; [|apply repeat_length].
  destruct (negb (is_nil l) && Nat.eqb (length l) ncb) eqn:E; [|apply repeat_length].
  apply andb_true_iff in E. destruct E as [_ E]. apply Nat.eqb_eq in E. exact E.
Qed.

Section Stats.
Variable X : Sys.
Hypothesis L : SysLaws X.

Add Field FF3 : (L_field X L).

Notation fO := (f0 X).
Notation fI := (f1 X).

(* initialize of the fixed code always creates the register of the run (or has none) *)
Lemma initialize_fresh : forall ncb cbarg h, valid_arg h cbarg ->
  (0 < ncb /\ initialize false ncb cbarg h = Ok (h ++ [init_cbits ncb (arg_val h cbarg)], Some (length h))) \/
  (ncb = 0 /\ initialize false ncb cbarg h = Ok (h, None) /\ init_cbits ncb (arg_val h cbarg) = []).
Proof.
  intros ncb cbarg h V. unfold initialize, init_cbits.
  assert (D : (0 < ncb /\ (if Nat.ltb 0 ncb then let (h', r) := halloc h (repeat 0 ncb) in Ok (h', Some r) else Ok (h, None))
                          = Ok (h ++ [repeat 0 ncb], Some (length h)))
              \/ (ncb = 0 /\ (if Nat.ltb 0 ncb then let (h', r) := halloc h (repeat 0 ncb) in Ok (h', Some r) else Ok (h, None : option nat))
                          = Ok (h, None) /\ repeat 0 ncb = [])).
  { destruct ncb; [right; auto|left]. split; [lia|reflexivity]. }
  destruct cbarg as [r|]; cbn [arg_val valid_arg] in *.
  - destruct (hget h r) as [l|] eqn:E.
    2:{ unfold hget in E. apply nth_error_None in E. lia. }
    destruct (negb (is_nil l) && Nat.eqb (length l) ncb) eqn:Ec; [|exact D].
    left. apply andb_true_iff in Ec. destruct Ec as [Hn Hl]. apply Nat.eqb_eq in Hl.
    split; [destruct l; [discriminate|cbn in Hl; lia]|reflexivity].
  - exact D.
Qed.

(* ---- one post-selected run -------------------------------------------------------------------- *)
(* what the caller sees of the classical bits of a result *)
Definition cb_ok (ncb : nat) (h h' : heap) (ref : option nat) (cbf : list nat) : Prop :=
  match ref with
  | Some x => 0 < ncb /\ length h <= x /\ x < length h' /\ hget h' x = Some cbf
  | None => ncb = 0
  end.

Definition entry_ok (c : circ X) (s0 : St X) (cb0 : list nat) (h h' : heap) (r : list bool) (e : result1 X) : Prop :=
  let '(st, p, ref) := e in
  (bprob X (c_ops X c) r s0 cb0 <> fO ->
     st = Some (bstate X (c_ops X c) r s0 cb0) /\ p = bprob X (c_ops X c) r s0 cb0 /\
     cb_ok (c_ncb X c) h h' ref (bcbits X (c_ops X c) r s0 cb0)) /\
  (bprob X (c_ops X c) r s0 cb0 = fO -> st = None /\ p = fO) /\
  match ref with Some x => length h <= x /\ x < length h' | None => True end.

Lemma run_post : forall (c : circ X) s0 cbarg r orc h,
  wf X (c_ncb X c) (c_ops X c) = true -> valid_arg h cbarg -> nrm X s0 = fI ->
  length r = nmeas X (c_ops X c) ->
  clear X (c_ops X c) r s0 (init_cbits (c_ncb X c) (arg_val h cbarg)) = true ->
  exists h' e, run X false c s0 cbarg (Some r) orc h = Ok (h', e) /\ untouched h h' /\
               length h' <= S (length h) /\
               entry_ok c s0 (init_cbits (c_ncb X c) (arg_val h cbarg)) h h' r e.
Proof.
  intros c s0 cbarg r orc h Hwf V Hn Hlr Hcl. unfold run.
  set (cb0 := init_cbits (c_ncb X c) (arg_val h cbarg)) in *.
  assert (Hlen0 : length cb0 = c_ncb X c) by apply init_cbits_length.
  destruct (initialize_fresh (c_ncb X c) cbarg h V) as [[Hpos Hini]|[Hz [Hini Hnil]]]; rewrite Hini; fold cb0 in Hini |- *.
  - (* a fresh register at location (length h) *)
    destruct (run_ops_post X L orc (c_ncb X c) r (c_ops X c) (h ++ [cb0])
                (mkMach X (Some s0) (Some (length h)) fI 0%nat 0%nat) s0 cb0 fI) as [h' [m' [Hrun Hpost]]];
      cbn [m_st m_cb m_prob m_mind skipn]; auto.
    { apply hget_app_new. }
    { rewrite (L_renorm_1 X L). reflexivity. }
    { apply (f1_neq_0 X L). }
    { lia. }
    { rewrite (L_renorm_1 X L). exact Hcl. }
    rewrite Hrun. cbn [m_cb skipn] in Hpost. destruct Hpost as [Hfr [Hcb [Hnz Hz]]]. cbn [frame] in Hfr. destruct Hfr as [Hfl Hfo].
    rewrite app_length in Hfl. cbn [length] in Hfl.
    eexists. eexists. split; [reflexivity|]. split.
    { split; [lia|]. intros x Hx. rewrite Hfo by lia. apply hget_app_old. exact Hx. }
    split; [lia|]. unfold entry_ok. rewrite Hcb. split; [|split].
    + intros Hp. destruct (Hnz Hp) as [A [B C]]. split; [exact A|]. split; [exact B|].
      cbn [cb_ok cbrel] in *. split; [exact Hpos|]. split; [lia|]. split; [lia|exact C].
    + exact Hz.
    + lia.
  - (* no classical register *)
    destruct (run_ops_post X L orc (c_ncb X c) r (c_ops X c) h
                (mkMach X (Some s0) None fI 0%nat 0%nat) s0 cb0 fI) as [h' [m' [Hrun Hpost]]];
      cbn [m_st m_cb m_prob m_mind skipn]; auto.
    { rewrite (L_renorm_1 X L). reflexivity. }
    { apply (f1_neq_0 X L). }
    { lia. }
    { rewrite (L_renorm_1 X L). exact Hcl. }
    rewrite Hrun. cbn [m_cb skipn] in Hpost. destruct Hpost as [Hfr [Hcb [Hnz Hz']]]. cbn [frame] in Hfr. subst h'.
    eexists. eexists. split; [reflexivity|]. split; [apply untouched_refl|]. split; [lia|].
    unfold entry_ok. rewrite Hcb. split; [|split; [exact Hz'|exact I]].
    intros Hp. destruct (Hnz Hp) as [A [B C]]. split; [exact A|]. split; [exact B|]. exact Hz.
Qed.

(* ---- unconstrained run --------------------------------------------------------------------------- *)
Lemma run_rand : forall (c : circ X) s0 cbarg mres orc h,
  truthy mres = None ->
  wf X (c_ncb X c) (c_ops X c) = true -> valid_arg h cbarg -> nrm X s0 = fI ->
  clear_all X (c_ops X c) s0 (init_cbits (c_ncb X c) (arg_val h cbarg)) = true ->
  exists r h' e, length r = nmeas X (c_ops X c) /\
     run X false c s0 cbarg mres orc h = Ok (h', e) /\ untouched h h' /\
     bprob X (c_ops X c) r s0 (init_cbits (c_ncb X c) (arg_val h cbarg)) <> fO /\
     entry_ok c s0 (init_cbits (c_ncb X c) (arg_val h cbarg)) h h' r e.
Proof.
  intros c s0 cbarg mres orc h Htr Hwf V Hn Hcl. unfold run.
  set (cb0 := init_cbits (c_ncb X c) (arg_val h cbarg)) in *.
  assert (Hlen0 : length cb0 = c_ncb X c) by apply init_cbits_length.
  assert (Hcl' : forall r, length r = nmeas X (c_ops X c) -> clear X (c_ops X c) r (renorm X fI s0) cb0 = true).
  { intros r Hr. rewrite (L_renorm_1 X L). unfold clear_all in Hcl. rewrite forallb_forall in Hcl. apply Hcl.
    clear - Hr. revert r Hr. generalize (nmeas X (c_ops X c)). induction n; intros [|b r] Hr; cbn in Hr; try discriminate.
    - left. reflexivity.
    - cbn [all_records]. apply in_or_app. injection Hr as Hr. destruct b; [right|left]; apply in_map; apply IHn; exact Hr. }
  destruct (initialize_fresh (c_ncb X c) cbarg h V) as [[Hpos Hini]|[Hz [Hini Hnil]]]; rewrite Hini; fold cb0 in Hini |- *.
  - destruct (run_ops_rand X L orc (c_ncb X c) mres Htr (c_ops X c) (h ++ [cb0])
                (mkMach X (Some s0) (Some (length h)) fI 0%nat 0%nat) s0 cb0 fI) as [r [h' [m' [Hlr [Hrun [Hnz0 Hpost]]]]]];
      cbn [m_st m_cb m_prob m_mind]; auto.
    { apply hget_app_new. }
    { rewrite (L_renorm_1 X L). reflexivity. }
    { apply (f1_neq_0 X L). }
    rewrite Hrun. cbn [m_cb] in Hpost. destruct Hpost as [Hfr [Hcb [Hnz Hz]]]. cbn [frame] in Hfr. destruct Hfr as [Hfl Hfo].
    rewrite app_length in Hfl. cbn [length] in Hfl.
    exists r. eexists. eexists. split; [exact Hlr|]. split; [reflexivity|]. split.
    { split; [lia|]. intros x Hx. rewrite Hfo by lia. apply hget_app_old. exact Hx. }
    split; [exact Hnz0|]. unfold entry_ok. rewrite Hcb. split; [|split].
    + intros Hp. destruct (Hnz Hp) as [A [B C]]. split; [exact A|]. split; [exact B|].
      cbn [cb_ok cbrel] in *. split; [exact Hpos|]. split; [lia|]. split; [lia|exact C].
    + exact Hz.
    + lia.
  - destruct (run_ops_rand X L orc (c_ncb X c) mres Htr (c_ops X c) h
                (mkMach X (Some s0) None fI 0%nat 0%nat) s0 cb0 fI) as [r [h' [m' [Hlr [Hrun [Hnz0 Hpost]]]]]];
      cbn [m_st m_cb m_prob m_mind]; auto.
    { rewrite (L_renorm_1 X L). reflexivity. }
    { apply (f1_neq_0 X L). }
    rewrite Hrun. cbn [m_cb] in Hpost. destruct Hpost as [Hfr [Hcb [Hnz Hz']]]. cbn [frame] in Hfr. subst h'.
    exists r. eexists. eexists. split; [exact Hlr|]. split; [reflexivity|]. split; [apply untouched_refl|].
    split; [exact Hnz0|].
    unfold entry_ok. rewrite Hcb. split; [|split; [exact Hz'|exact I]].
    intros Hp. destruct (Hnz Hp) as [A [B C]]. split; [exact A|]. split; [exact B|]. exact Hz.
Qed.

(* ---- enumeration of the records -------------------------------------------------------------------- *)
Definition refs_of (es : list (result1 X)) : list nat :=
  flat_map (fun e => match snd e with Some x => [x] | None => [] end) es.

Lemma entry_ok_later : forall c s0 cb0 h h1 h2 r e, entry_ok c s0 cb0 h h1 r e -> untouched h1 h2 ->
  entry_ok c s0 cb0 h h2 r e.
Proof.
  intros c s0 cb0 h h1 h2 r [[st p] ref] [A [B C]] [U1 U2]. unfold entry_ok. split; [|split; [exact B|]].
  - intros Hp. destruct (A Hp) as [A1 [A2 A3]]. split; [exact A1|]. split; [exact A2|].
    destruct ref as [x|]; cbn [cb_ok] in *; [|exact A3]. destruct A3 as [D1 [D2 [D3 D4]]].
    split; [exact D1|]. split; [exact D2|]. split; [lia|]. rewrite U2 by exact D3. exact D4.
  - destruct ref; [|exact I]. lia.
Qed.

Lemma entry_ok_earlier : forall c s0 cb0 h0 h h' r e, entry_ok c s0 cb0 h h' r e -> length h0 <= length h ->
  entry_ok c s0 cb0 h0 h' r e.
Proof.
  intros c s0 cb0 h0 h h' r [[st p] ref] [A [B C]] Hl. unfold entry_ok. split; [|split; [exact B|]].
  - intros Hp. destruct (A Hp) as [A1 [A2 A3]]. split; [exact A1|]. split; [exact A2|].
    destruct ref as [x|]; cbn [cb_ok] in *; [|exact A3]. destruct A3 as [D1 [D2 [D3 D4]]]. repeat split; try assumption; lia.
  - destruct ref; [|exact I]. lia.
Qed.

Lemma stats_loop_spec : forall (c : circ X) s0 cbarg recs h,
  wf X (c_ncb X c) (c_ops X c) = true -> valid_arg h cbarg -> nrm X s0 = fI ->
  (forall r, In r recs -> length r = nmeas X (c_ops X c) /\
                          clear X (c_ops X c) r s0 (init_cbits (c_ncb X c) (arg_val h cbarg)) = true) ->
  exists h' es, stats_loop X false c s0 cbarg recs h = Ok (h', es) /\ untouched h h' /\
    Forall2 (entry_ok c s0 (init_cbits (c_ncb X c) (arg_val h cbarg)) h h') recs es /\
    NoDup (refs_of es).
Proof.
  intros c s0 cbarg. induction recs as [|r tl IH]; intros h Hwf V Hn Hall; cbn [stats_loop].
  - exists h, []. split; [reflexivity|]. split; [apply untouched_refl|]. split; constructor.
  - destruct (Hall r (or_introl eq_refl)) as [Hlr Hcl].
    destruct (run_post c s0 cbarg r (fun _ => false) h Hwf V Hn Hlr Hcl) as [h1 [e [Hrun [U1 [Hl1 He]]]]].
    rewrite Hrun.
    destruct (untouched_arg h h1 cbarg V U1) as [V1 Ea].
    destruct (IH h1 Hwf V1 Hn) as [h2 [es [Hloop [U2 [HF ND]]]]].
    { intros r' Hr'. rewrite Ea. apply Hall. right. exact Hr'. }
    rewrite Hloop. exists h2, (e :: es). split; [reflexivity|]. split; [eapply untouched_trans; eassumption|].
    rewrite Ea in HF. split.
    + constructor; [eapply entry_ok_later; eassumption|].
      clear - HF U1. destruct U1 as [U1 _]. induction HF; constructor; [eapply entry_ok_earlier; eassumption|assumption].
    + unfold refs_of. cbn [flat_map]. destruct e as [[st p] [x|]]; cbn [snd app]; [|exact ND].
      constructor; [|exact ND].
      destruct He as [_ [_ [_ Hx]]].
      intros Hin. clear - HF Hin Hx. induction HF as [|r0 e0 rs es0 H0 HF IH]; cbn [refs_of flat_map] in Hin; [exact Hin|].
      apply in_app_or in Hin. destruct Hin as [Hin|Hin]; [|apply IH; exact Hin].
      destruct e0 as [[st0 p0] [y|]]; cbn [snd] in Hin; [|exact Hin]. destruct Hin as [<-|[]].
      destruct H0 as [_ [_ [Hy _]]]. lia.
Qed.

(* the value of a spec entry as the caller sees it *)
Definition spec_view (c : circ X) (s0 : St X) (cb0 : list nat) (r : list bool) : option (St X) * F X * option (list nat) :=
  (Some (bstate X (c_ops X c) r s0 cb0), bprob X (c_ops X c) r s0 cb0,
   if Nat.eqb (c_ncb X c) 0 then None else Some (bcbits X (c_ops X c) r s0 cb0)).
Definition possible (c : circ X) (s0 : St X) (cb0 : list nat) (r : list bool) : bool :=
  negb (feqb X (bprob X (c_ops X c) r s0 cb0) fO).

Lemma entries_view : forall c s0 cb0 h h' recs es,
  Forall2 (entry_ok c s0 cb0 h h') recs es ->
  map (view X h') (filter (has_state X) es) = map (spec_view c s0 cb0) (filter (possible c s0 cb0) recs).
Proof.
  intros c s0 cb0 h h' recs es HF. induction HF as [|r e rs es0 H HF IH]; [reflexivity|].
  cbn [filter]. destruct e as [[st p] ref]. destruct H as [A [B C]]. unfold possible at 1.
  destruct (feqb X (bprob X (c_ops X c) r s0 cb0) fO) eqn:E; cbn [negb].
  - apply (L_feqb X L) in E. destruct (B E) as [-> ->]. cbn. exact IH.
  - apply (feqb_false X L) in E. destruct (A E) as [-> [-> D]]. cbn [has_state fst map]. f_equal; [|exact IH].
    unfold view, spec_view. cbn [fst snd]. f_equal.
    destruct ref as [x|]; cbn [cb_ok] in D.
    + destruct D as [D1 [_ [_ D4]]]. rewrite D4. destruct (c_ncb X c); [lia|reflexivity].
    + rewrite D. reflexivity.
Qed.

Lemma has_state_refs : forall es, NoDup (refs_of es) -> NoDup (refs_of (filter (has_state X) es)).
Proof.
  induction es as [|e es IH]; intros ND; [constructor|]. cbn [filter]. unfold refs_of in *. cbn [flat_map] in ND.
  assert (ND2 : NoDup (flat_map (fun e0 : result1 X => match snd e0 with Some x => [x] | None => [] end) es)).
  { destruct (snd e); [inversion ND; assumption|exact ND]. }
  destruct (has_state X e); [|apply IH; exact ND2].
  cbn [flat_map]. destruct (snd e) as [x|]; cbn [app] in *; [|apply IH; exact ND2].
  inversion ND as [|? ? Hni _]; subst. constructor; [|apply IH; exact ND2].
  intros Hin. apply Hni. clear - Hin. induction es as [|e0 es IH]; [exact Hin|]. cbn [filter] in Hin. cbn [flat_map].
  apply in_or_app. destruct (has_state X e0); [cbn [flat_map] in Hin; apply in_app_or in Hin; destruct Hin; [left|right; apply IH]; assumption|right; apply IH; exact Hin].
Qed.

Lemma all_records_length : forall m r, In r (all_records m) -> length r = m.
Proof.
  induction m; intros r H; cbn [all_records] in H.
  - destruct H as [<-|[]]. reflexivity.
  - apply in_app_or in H. destruct H as [H|H]; apply in_map_iff in H; destruct H as [r' [<- H]]; cbn; f_equal; apply IHm; exact H.
Qed.

(* run_statistics of the fixed code: exactly the possible branches, in record order, each with its Born
   probability, normalised state and classical bits; fresh lists; nothing that existed before is modified *)
Lemma run_statistics_spec : forall (c : circ X) s0 cbarg h,
  wf X (c_ncb X c) (c_ops X c) = true -> valid_arg h cbarg -> nrm X s0 = fI ->
  clear_all X (c_ops X c) s0 (init_cbits (c_ncb X c) (arg_val h cbarg)) = true ->
  exists h' es, run_statistics X false c s0 cbarg h = Ok (h', es) /\ untouched h h' /\
    map (view X h') es = map (spec_view c s0 (init_cbits (c_ncb X c) (arg_val h cbarg)))
                             (filter (possible c s0 (init_cbits (c_ncb X c) (arg_val h cbarg)))
                                     (all_records (nmeas X (c_ops X c)))) /\
    NoDup (refs_of es) /\ Forall (fun x => length h <= x) (refs_of es).
Proof.
  intros c s0 cbarg h Hwf V Hn Hcl. unfold run_statistics.
  destruct (stats_loop_spec c s0 cbarg (all_records (nmeas X (c_ops X c))) h Hwf V Hn) as [h' [es [Hloop [U [HF ND]]]]].
  { intros r Hr. split; [apply all_records_length; exact Hr|]. unfold clear_all in Hcl. rewrite forallb_forall in Hcl. apply Hcl. exact Hr. }
  rewrite Hloop. eexists. eexists. split; [reflexivity|]. split; [exact U|]. split; [eapply entries_view; exact HF|].
  split; [apply has_state_refs; exact ND|].
  clear - HF. induction HF as [|r e rs es0 H HF IH]; [constructor|]. cbn [filter].
  assert (T : Forall (fun x : nat => length h <= x) (refs_of [e])).
  { unfold refs_of. cbn [flat_map]. destruct e as [[st p] [x|]]; cbn; [|constructor]. constructor; [|constructor].
    destruct H as [_ [_ [Hx _]]]. exact Hx. }
  destruct (has_state X e); [|exact IH].
  unfold refs_of in *. cbn [flat_map] in *. rewrite app_nil_r in T. apply Forall_app. split; assumption.
Qed.

(* ---- Born sum -------------------------------------------------------------------------------------- *)
Lemma fsum_app : forall a b, fsum X (a ++ b) = fadd X (fsum X a) (fsum X b).
Proof.
  induction a as [|x a IH]; intros b; unfold fsum in *; cbn [app fold_right].
  - ring.
  - rewrite IH. ring.
Qed.

Lemma born_sum : forall ops s cb,
  fsum X (map (fun r => bprob X ops r s cb) (all_records (nmeas X ops))) = nrm X s.
Proof.
  induction ops as [|o tl IH]; intros s cb.
  - unfold fsum, bprob, bvec, nmeas. cbn [filter length all_records map fold_right ubranch fst]. ring.
  - destruct o as [g [[cc v]|]|q st].
    + rewrite nmeas_cons_gate. unfold bprob, bvec in *. cbn [ubranch]. rewrite IH.
      destruct (cond_true cc v cb); [apply (L_unitary X L)|reflexivity].
    + rewrite nmeas_cons_gate. unfold bprob, bvec in *. cbn [ubranch]. rewrite IH. apply (L_unitary X L).
    + rewrite nmeas_cons_meas. cbn [all_records]. rewrite map_app, fsum_app, !map_map.
      unfold bprob, bvec in *. cbn [ubranch]. rewrite !IH. apply (L_complete X L).
Qed.

Lemma fsum_possible : forall c s0 cb0 recs,
  fsum X (map (fun r => bprob X (c_ops X c) r s0 cb0) (filter (possible c s0 cb0) recs))
  = fsum X (map (fun r => bprob X (c_ops X c) r s0 cb0) recs).
Proof.
  intros c s0 cb0. induction recs as [|r rs IH]; [reflexivity|]. cbn [filter]. unfold possible at 1.
  destruct (feqb X (bprob X (c_ops X c) r s0 cb0) fO) eqn:E; cbn [negb map]; unfold fsum in *; cbn [fold_right].
  - apply (L_feqb X L) in E. rewrite IH, E. ring.
  - rewrite IH. reflexivity.
Qed.

End Stats.
