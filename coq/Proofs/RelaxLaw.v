(* C15 - the decay law: the collapse terms that the (translated) set-up code emits for one subsystem generate
   d/dt rho_11 = - rho_11 / t1  and  d/dt rho_01 = - rho_01 / t2   (stated division-free as t * (L rho)_ij = - rho_ij),
   in every commutative ring with involution that contains the rationals (R = C is the intended instance). *)
From Coq Require Import QArith List Bool ZArith Lia Lqa Ring Ring_theory.
From QV Require Import Model.Relax Model.Lindblad Gen.Noise Proofs.Relax Proofs.Lindblad.
Import ListNotations.

Section Law.
  Variable R : cring.
  Variable h : qhom R.
  Add Ring RR : (kring R).
  Notation ph := (phi R h).
  Notation z0 := (k0 R). Notation o1 := (k1 R). Notation hf := (half R).
  Notation "a +' b" := (kadd R a b) (at level 50, left associativity).
  Notation "a *' b" := (kmul R a b) (at level 40, left associativity).
  Notation "-' a" := (kopp R a) (at level 35).

  Definition opmat2 (k : opk) : mat R := match k with KDestroy => destroy2 R | KNum => num2 R end.
  Definition opmat3 (k : opk) : mat R := match k with KDestroy => destroy3 R | KNum => num3 R end.

  (* the generator of a list of emitted terms (kind, sign, rate) acting on one subsystem of dimension n:
     each term is the collapse operator c * op with c^2 = rate, i.e. the dissipator rate * D[op] (lind_scale2/3) *)
  Fixpoint gen_terms (n : nat) (opm : opk -> mat R) (ts : list emit) (rho : mat R) : mat R :=
    match ts with
    | [] => mzero R n
    | e :: r => madd R n (lindr R n (ph (snd e)) (opm (fst (fst e))) rho) (gen_terms n opm r rho)
    end.

  Lemma phi_zero : ph 0%Q = z0.
  Proof.
    assert (E : ph 0%Q = ph 0%Q +' ph 0%Q) by (rewrite <- (phi_add R h); apply (phi_eq R h); reflexivity).
    transitivity (ksub R (ph 0%Q +' ph 0%Q) (ph 0%Q)); [ring | rewrite <- E; ring].
  Qed.
  Lemma phi_two : ph 2%Q = o1 +' o1.
  Proof. rewrite <- (phi_one R h), <- (phi_add R h). apply (phi_eq R h). reflexivity. Qed.

  Ltac meq := repeat match goal with
                     | |- cons _ _ = cons _ _ => apply f_equal2
                     | |- @nil _ = @nil _ => reflexivity
                     end.
  Ltac unf := cbv -[K k0 k1 kadd kmul ksub kopp conj half s2].
  Ltac pushc := repeat (rewrite ?(conj_add R), ?(conj_mul R), ?(conj_sub R), ?(conj_opp R), ?(conj_inv R),
                                ?(conj_half R), ?(conj_s2 R), ?(conj_0 R), ?(conj_1 R)).
  Ltac mring := unf; pushc; meq; ring [(half_ok R) (s2_ok R)].

  (* linearity of the per-subsystem generator in the two rates *)
  Lemma gen2_add g1 g2 g1' g2' r00 r01 r10 r11 :
    madd R 2 (relax_gen2 R g1 g2 (gen2 R r00 r01 r10 r11)) (relax_gen2 R g1' g2' (gen2 R r00 r01 r10 r11))
    = relax_gen2 R (g1 +' g1') (g2 +' g2') (gen2 R r00 r01 r10 r11).
  Proof. mring. Qed.
  Lemma gen2_destroy g r00 r01 r10 r11 :
    lindr R 2 g (destroy2 R) (gen2 R r00 r01 r10 r11) = relax_gen2 R g z0 (gen2 R r00 r01 r10 r11).
  Proof. mring. Qed.
  Lemma gen2_num g r00 r01 r10 r11 :
    lindr R 2 g (num2 R) (gen2 R r00 r01 r10 r11) = relax_gen2 R z0 g (gen2 R r00 r01 r10 r11).
  Proof. mring. Qed.
  Lemma gen2_zero r00 r01 r10 r11 : mzero R 2 = relax_gen2 R z0 z0 (gen2 R r00 r01 r10 r11).
  Proof. mring. Qed.

  Lemma gen3_add g1 g2 g1' g2' r0 r1 r2 r3 r4 r5 r6 r7 r8 :
    madd R 3 (relax_gen3 R g1 g2 (gen3 R r0 r1 r2 r3 r4 r5 r6 r7 r8)) (relax_gen3 R g1' g2' (gen3 R r0 r1 r2 r3 r4 r5 r6 r7 r8))
    = relax_gen3 R (g1 +' g1') (g2 +' g2') (gen3 R r0 r1 r2 r3 r4 r5 r6 r7 r8).
  Proof. mring. Qed.
  Lemma gen3_destroy g r0 r1 r2 r3 r4 r5 r6 r7 r8 :
    lindr R 3 g (destroy3 R) (gen3 R r0 r1 r2 r3 r4 r5 r6 r7 r8) = relax_gen3 R g z0 (gen3 R r0 r1 r2 r3 r4 r5 r6 r7 r8).
  Proof. mring. Qed.
  Lemma gen3_num g r0 r1 r2 r3 r4 r5 r6 r7 r8 :
    lindr R 3 g (num3 R) (gen3 R r0 r1 r2 r3 r4 r5 r6 r7 r8) = relax_gen3 R z0 g (gen3 R r0 r1 r2 r3 r4 r5 r6 r7 r8).
  Proof. mring. Qed.
  Lemma gen3_zero r0 r1 r2 r3 r4 r5 r6 r7 r8 : mzero R 3 = relax_gen3 R z0 z0 (gen3 R r0 r1 r2 r3 r4 r5 r6 r7 r8).
  Proof. mring. Qed.

  (* the generator of ANY list of emitted terms only depends on the two total rates *)
  Lemma gen_terms2_total ts r00 r01 r10 r11 :
    gen_terms 2 opmat2 ts (gen2 R r00 r01 r10 r11)
    = relax_gen2 R (ph (rate_of KDestroy ts)) (ph (rate_of KNum ts)) (gen2 R r00 r01 r10 r11).
  Proof.
    induction ts as [|[[k sg] g] ts IH].
    - cbn [gen_terms rate_of]. rewrite phi_zero. apply gen2_zero.
    - cbn [gen_terms rate_of fst snd]. rewrite IH. destruct k; cbn [opmat2 opk_eqb].
      + rewrite gen2_destroy, gen2_add, (phi_add R h). f_equal; ring.
      + rewrite gen2_num, gen2_add, (phi_add R h). f_equal; ring.
  Qed.

  Lemma gen_terms3_total ts r0 r1 r2 r3 r4 r5 r6 r7 r8 :
    gen_terms 3 opmat3 ts (gen3 R r0 r1 r2 r3 r4 r5 r6 r7 r8)
    = relax_gen3 R (ph (rate_of KDestroy ts)) (ph (rate_of KNum ts)) (gen3 R r0 r1 r2 r3 r4 r5 r6 r7 r8).
  Proof.
    induction ts as [|[[k sg] g] ts IH].
    - cbn [gen_terms rate_of]. rewrite phi_zero. apply gen3_zero.
    - cbn [gen_terms rate_of fst snd]. rewrite IH. destruct k; cbn [opmat3 opk_eqb].
      + rewrite gen3_destroy, gen3_add, (phi_add R h). f_equal; ring.
      + rewrite gen3_num, gen3_add, (phi_add R h). f_equal; ring.
  Qed.

  (* what rates_ok says inside the ring *)
  Definition law (a b : option Q) (gd gn : R) : Prop :=
    (match a with Some t1 => gd *' ph t1 = o1 | None => gd = z0 end) /\
    (match b with Some t2 => (gd +' gn) *' ph t2 = o1 +' o1 | None => gn = z0 end).

  Lemma rates_law a b ts : rates_ok a b ts -> law a b (ph (rate_of KDestroy ts)) (ph (rate_of KNum ts)).
  Proof.
    intros [Ha [Hb _]]. split.
    - destruct a as [t1|].
      + rewrite <- (phi_mul R h), <- (phi_one R h). apply (phi_eq R h). exact Ha.
      + rewrite <- phi_zero. apply (phi_eq R h). exact Ha.
    - destruct b as [t2|].
      + rewrite <- (phi_add R h), <- (phi_mul R h), <- phi_two. apply (phi_eq R h). exact Hb.
      + rewrite <- phi_zero. apply (phi_eq R h). exact Hb.
  Qed.

  (* the decay law of a generator with total rates gd, gn obeying `law` *)
  Definition decays (a b : option Q) (L11 L01 r11 r01 : R) : Prop :=
    (match a with Some t1 => ph t1 *' L11 = -' r11 | None => L11 = z0 end) /\
    (match b with
     | Some t2 => ph t2 *' L01 = -' r01                             (* coherence rate 1/t2 *)
     | None => match a with
               | Some t1 => (o1 +' o1) *' ph t1 *' L01 = -' r01      (* t1 only: coherence rate 1/(2 t1) *)
               | None => L01 = z0 end
     end).

  Lemma law_decays a b gd gn r11 r01 : law a b gd gn ->
    decays a b (-' (gd *' r11)) (-' (hf *' (gd +' gn) *' r01)) r11 r01.
  Proof.
    intros [Ha Hb]. split.
    - destruct a as [t1|]; [|rewrite Ha; ring].
      transitivity (-' ((gd *' ph t1) *' r11)); [ring | rewrite Ha; ring].
    - destruct b as [t2|].
      + transitivity (-' (hf *' ((gd +' gn) *' ph t2) *' r01)); [ring | rewrite Hb; ring [(half_ok R)]].
      + rewrite Hb. destruct a as [t1|]; [|rewrite Ha; ring].
        transitivity (-' ((hf +' hf) *' (gd *' ph t1) *' r01)); [ring | rewrite Ha, (half_ok R); ring].
  Qed.

  (* two-level subsystem *)
  Theorem decay_law2 a b : valid a -> valid b -> compat a b -> forall r00 r01 r10 r11,
    let G := gen_terms 2 opmat2 (spec_ops a b) (gen2 R r00 r01 r10 r11) in
    decays a b (entry R G 1 1) (entry R G 0 1) r11 r01 /\ decays a b (entry R G 1 1) (entry R G 1 0) r11 r10 /\
    entry R G 0 0 = -' entry R G 1 1.
  Proof.
    intros Va Vb Vc r00 r01 r10 r11 G. subst G.
    pose proof (rates_law a b _ (spec_ops_rates a b Va Vb Vc)) as Hl.
    rewrite gen_terms2_total, relax2_generator.
    set (gd := ph (rate_of KDestroy (spec_ops a b))) in *. set (gn := ph (rate_of KNum (spec_ops a b))) in *.
    cbn [entry gen2 nth].
    split; [apply law_decays; exact Hl|]. split; [apply law_decays; exact Hl|]. ring.
  Qed.

  (* three-level subsystem, state in the qubit subspace: stays there and obeys the same law *)
  Theorem decay_law3_qubit a b : valid a -> valid b -> compat a b -> forall r00 r01 r10 r11,
    let G := gen_terms 3 opmat3 (spec_ops a b) (gen3 R r00 r01 z0 r10 r11 z0 z0 z0 z0) in
    decays a b (entry R G 1 1) (entry R G 0 1) r11 r01 /\ decays a b (entry R G 1 1) (entry R G 1 0) r11 r10 /\
    entry R G 0 0 = -' entry R G 1 1 /\
    entry R G 0 2 = z0 /\ entry R G 1 2 = z0 /\ entry R G 2 0 = z0 /\ entry R G 2 1 = z0 /\ entry R G 2 2 = z0.
  Proof.
    intros Va Vb Vc r00 r01 r10 r11 G. subst G.
    pose proof (rates_law a b _ (spec_ops_rates a b Va Vb Vc)) as Hl.
    rewrite gen_terms3_total, relax3_generator_qubit.
    set (gd := ph (rate_of KDestroy (spec_ops a b))) in *. set (gn := ph (rate_of KNum (spec_ops a b))) in *.
    cbn [entry gen3 nth].
    split; [apply law_decays; exact Hl|]. split; [apply law_decays; exact Hl|]. repeat split; try reflexivity. ring.
  Qed.

  (* three-level subsystem, ANY state: <n> = tr(n rho) decays at 1/t1 and <a> = tr(a rho) at 1/t2 *)
  Theorem decay_law3_moments a b : valid a -> valid b -> compat a b -> forall r0 r1 r2 r3 r4 r5 r6 r7 r8,
    let rho := gen3 R r0 r1 r2 r3 r4 r5 r6 r7 r8 in
    let G := gen_terms 3 opmat3 (spec_ops a b) rho in
    decays a b (trace R 3 (mmul R 3 (num3 R) G)) (trace R 3 (mmul R 3 (destroy3 R) G))
               (trace R 3 (mmul R 3 (num3 R) rho)) (trace R 3 (mmul R 3 (destroy3 R) rho)).
  Proof.
    intros Va Vb Vc r0 r1 r2 r3 r4 r5 r6 r7 r8 rho G. subst G rho.
    pose proof (rates_law a b _ (spec_ops_rates a b Va Vb Vc)) as Hl.
    rewrite gen_terms3_total, relax3_number, relax3_lowering.
    apply law_decays. exact Hl.
  Qed.
End Law.
