(* C09 over the complex numbers: for every assignment th of REAL values to the gate parameters, the complex matrix
   denoted by each definition path equals the complex matrix denoted by the documented expression, and is unitary. *)
From Coq Require Import Reals.
From Coquelicot Require Import Coquelicot.
From QV Require Import Found.Base Found.KS Found.KSProofs Found.Sym Found.Conj Found.CInst Gen.Gates Spec.GateSpec Proofs.C09.

Lemma list_eqb_length {A} (eqb : A -> A -> bool) : forall a b, list_eqb eqb a b = true -> length a = length b.
Proof.
  induction a as [|x a IH]; intros [|y b] E; simpl in *; try discriminate; [reflexivity|].
  apply andb_prop in E. destruct E as [_ E]. f_equal. apply IH. exact E.
Qed.

Lemma meqb_real (th : nat -> R) (m s : mexp) : meqb m s = true ->
  mdim m = mdim s /\ forall i j, (i < mdim m)%nat -> (j < mdim m)%nat -> mden th m i j = mden th s i j.
Proof.
  unfold meqb. destruct (mtab m) as [A|] eqn:Em; [|discriminate]. destruct (mtab s) as [B|] eqn:Es; [|discriminate].
  intros E. destruct (mtab_sound th m A Em) as [LA HA]. destruct (mtab_sound th s B Es) as [LB HB].
  assert (Hd : mdim m = mdim s).
  { rewrite <- LA, <- LB. apply (list_eqb_length tvec_eqb). exact E. }
  split; [exact Hd|]. intros i j Hi Hj.
  rewrite <- HA by assumption. rewrite <- HB by (rewrite <- Hd; assumption).
  apply (ptab_eqb_sound (PR_C th)). exact E.
Qed.

Lemma doc_ok_real th name m : doc_ok name m = true ->
  exists ar s, assoc name spec = Some (ar, s) /\ mdim m = mdim s /\
    forall i j, (i < mdim m)%nat -> (j < mdim m)%nat -> mden th m i j = mden th s i j.
Proof.
  unfold doc_ok. destruct (assoc name spec) as [[ar s]|]; [|discriminate].
  intros H. exists ar, s. split; [reflexivity|]. apply meqb_real. exact H.
Qed.

Lemma dispatch_doc_real th name m : In (name, m) dispatch ->
  exists ar s, assoc name spec = Some (ar, s) /\ mdim m = mdim s /\
    forall i j, (i < mdim m)%nat -> (j < mdim m)%nat -> mden th m i j = mden th s i j.
Proof.
  intros H. pose proof chk_dispatch_true as C. unfold chk_dispatch in C. rewrite forallb_forall in C.
  apply doc_ok_real. apply (C (name, m) H).
Qed.

Lemma class_doc_real th name cls m : In (name, cls) class_map -> assoc cls class_mat = Some m ->
  exists ar s, assoc name spec = Some (ar, s) /\ mdim m = mdim s /\
    forall i j, (i < mdim m)%nat -> (j < mdim m)%nat -> mden th m i j = mden th s i j.
Proof.
  intros H Hm. pose proof chk_classes_true as C. unfold chk_classes in C. rewrite forallb_forall in C.
  specialize (C (name, cls) H). cbn [fst snd] in C. rewrite Hm in C. apply doc_ok_real. exact C.
Qed.

Lemma assoc_in {A} k (l : list (string * A)) v : assoc k l = Some v -> In (k, v) l.
Proof.
  induction l as [|[k' v'] l IH]; simpl; [discriminate|].
  destruct (String.eqb_spec k k') as [->|N]; [intros [= ->]; left; reflexivity| intros H; right; apply IH; exact H].
Qed.

Lemma spec_unitary_real th name ar s : assoc name spec = Some (ar, s) ->
  forall i j, (i < mdim s)%nat -> (j < mdim s)%nat ->
  @ksum Cops (map (fun k => Cmult (mden th s i k) (Cconj (mden th s j k))) (seq 0 (mdim s)))
  = if Nat.eqb i j then RtoC 1 else RtoC 0.
Proof.
  intros H. apply assoc_in in H. pose proof chk_unitary_true as C. unfold chk_unitary in C. rewrite forallb_forall in C.
  specialize (C _ H). cbn [fst snd] in C. unfold unitary_ok in C.
  destruct (mtab s) as [U|] eqn:E; [|discriminate].
  apply andb_prop in C. destruct C as [C _]. apply andb_prop in C. destruct C as [Sq Hu].
  apply (munitary_sound th s U E Sq Hu).
Qed.
