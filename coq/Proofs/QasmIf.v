(* C04 layer B, if-statements: the (classical_controls, classical_control_value) the importer attaches to a gate fires
   exactly when the standard's condition  sum c[i] 2^i = k  holds; the value passed by the unchanged code does not. *)
From Coq Require Import Lia.
From QV Require Import Model.QasmImport.
Local Open Scope nat_scope.

Lemma to_bits_length n : forall k, length (to_bits_lsb n k) = n.
Proof. induction n; intros k; simpl; [reflexivity| rewrite IHn; reflexivity]. Qed.

Lemma from_bits_acc l : forall acc, from_bits_msb acc l = acc * 2 ^ length l + from_bits_msb 0 l.
Proof.
  induction l as [|b l IH]; intros acc; simpl.
  - lia.
  - rewrite (IH (acc + (acc + 0) + _)). rewrite (IH (if b then 1 else 0)). destruct b; lia.
Qed.
Lemma from_bits_lt l : from_bits_msb 0 l < 2 ^ length l.
Proof.
  induction l as [|b l IH]; simpl; [lia|].
  rewrite from_bits_acc. destruct b; simpl; lia.
Qed.

Lemma msb_bits_high n : forall a r, msb_bits n (a * 2 ^ n + r) = msb_bits n r.
Proof.
  induction n as [|n IH]; intros a r; [reflexivity|].
  cbn [msb_bits]. f_equal.
  - replace (a * 2 ^ S n + r) with ((2 * a) * 2 ^ n + r) by (rewrite Nat.pow_succ_r'; lia).
    rewrite Nat.div_add_l by (apply Nat.pow_nonzero; lia).
    rewrite Nat.add_comm. rewrite Nat.odd_add_mul_2. reflexivity.
  - replace (a * 2 ^ S n + r) with ((2 * a) * 2 ^ n + r) by (rewrite Nat.pow_succ_r'; lia). apply IH.
Qed.

(* the bits of the value read from an n-bit list (first = highest) are the list *)
Lemma msb_bits_from l : msb_bits (length l) (from_bits_msb 0 l) = l.
Proof.
  induction l as [|b l IH]; [reflexivity|].
  cbn [length msb_bits from_bits_msb]. rewrite from_bits_acc.
  pose proof (from_bits_lt l) as Hlt. f_equal.
  - rewrite Nat.div_add_l by (apply Nat.pow_nonzero; lia).
    rewrite (Nat.div_small _ _ Hlt). destruct b; reflexivity.
  - rewrite msb_bits_high. exact IH.
Qed.

Lemma odd_mod2 k : Nat.odd k = (k mod 2 =? 1).
Proof.
  rewrite (Nat.div_mod k 2) at 1 by lia. rewrite Nat.add_comm, Nat.odd_add_mul_2.
  pose proof (Nat.mod_upper_bound k 2). destruct (k mod 2) as [|[|m]]; try reflexivity; lia.
Qed.

(* matching the low bits, lowest first, is the standard's integer comparison *)
Lemma match_lsb cb cs : forall k, k < 2 ^ length cs ->
  match_bits cb cs (to_bits_lsb (length cs) k) = (reg_value cb cs =? k).
Proof.
  induction cs as [|c cs IH]; intros k Hk.
  - simpl in *. assert (k = 0) by lia. subst. reflexivity.
  - cbn [length to_bits_lsb match_bits reg_value].
    assert (Hk2 : k / 2 < 2 ^ length cs).
    { apply Nat.div_lt_upper_bound; [lia|]. cbn [length] in Hk. rewrite Nat.pow_succ_r' in Hk. lia. }
    rewrite (IH _ Hk2). rewrite odd_mod2.
    pose proof (Nat.div_mod k 2 ltac:(lia)) as Hd. pose proof (Nat.mod_upper_bound k 2 ltac:(lia)) as Hm.
    destruct (cb c); destruct (Nat.eqb_spec (k mod 2) 1); destruct (Nat.eqb_spec (reg_value cb cs) (k / 2));
      cbn [Bool.eqb andb]; symmetry; (apply Nat.eqb_eq || apply Nat.eqb_neq); lia.
Qed.

Lemma reg_value_lt cb cs : reg_value cb cs < 2 ^ length cs.
Proof. induction cs as [|c cs IH]; simpl; [lia|]. destruct (cb c); lia. Qed.

(* fixed code: value int(format(k, "0nb")[::-1], 2) on the register's bits in declaration order *)
Theorem if_ok (cb : nat -> bool) (cs : list nat) (k : nat) : k < 2 ^ length cs ->
  cc_fires cb (cs, bitrev (length cs) k) = cond_fires cb (cs, k).
Proof.
  intros Hk. unfold cc_fires, cond_fires, bitrev. cbn [fst snd].
  rewrite <- (to_bits_length (length cs) k) at 1. rewrite msb_bits_from. apply match_lsb. exact Hk.
Qed.
(* a value the register cannot hold: the statement never fires, which is why nothing is added *)
Theorem if_never (cb : nat -> bool) (cs : list nat) (k : nat) : 2 ^ length cs <= k -> cond_fires cb (cs, k) = false.
Proof.
  intros Hk. unfold cond_fires. cbn [fst snd]. pose proof (reg_value_lt cb cs). apply Nat.eqb_neq. lia.
Qed.

(* unchanged code: if(c==1) on creg c[2] fires for c[0]=0, c[1]=1, and not for c[0]=1, c[1]=0 *)
Theorem if_unfixed_refuted : exists (cb : nat -> bool) cs k, k < 2 ^ length cs /\
  cc_fires cb (cs, if_value_unfixed (length cs) k) <> cond_fires cb (cs, k).
Proof. exists (fun i => Nat.eqb i 1), [0; 1], 1. split; [simpl; lia| vm_compute; discriminate]. Qed.
