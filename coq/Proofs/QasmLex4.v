(* C10 export_valid, lexer half, part 4: the strict lexer is compositional over newline-terminated lines.
   No token of Spec/QasmStrict.v extends over a newline, hence: if a text that ends in a newline is read (on its own) as the
   tokens [toks], then it is read as [toks] whatever follows it (lex_nl, LX_line).  This turns the lexing of every CONCRETE
   line the exporter emits (header, include, emitted gate definitions) into a vm_compute check. *)
From Coq Require Import Lia Ascii String.
From QV Require Import Spec.QasmStrict Model.QasmImport Proofs.QasmLex Proofs.QasmLex2.
Local Open Scope nat_scope.
Local Open Scope list_scope.

Definition nlc : ascii := chr 10.

(* a scan that stops at the newline at the latest does not see what follows the newline *)
Lemma span_nl p : p nlc = false -> forall l0, exists a b0, forall rest, span p (l0 ++ nlc :: rest) = (a, b0 ++ nlc :: rest).
Proof.
  intros Hp l0. induction l0 as [|c l0 [a [b0 IH]]].
  - exists [], []. intros rest. cbn [app span]. rewrite Hp. reflexivity.
  - destruct (p c) eqn:Ec.
    + exists (c :: a), b0. intros rest. cbn [app span]. rewrite Ec, IH. reflexivity.
    + exists [], (c :: l0). intros rest. cbn [app span]. rewrite Ec. reflexivity.
Qed.

(* ---- the numeral branch of the lexer, cut into its scans ---- *)
Definition scan_frac (r1 : list ascii) : bool * list ascii * list ascii :=
  match r1 with
  | d :: r1' => if code d =? 46 then let (fp, r2) := span is_digit r1' in (true, fp, r2) else (false, [], r1)
  | [] => (false, [], r1) end.
Definition scan_exp (r2 : list ascii) : bool * bool * list ascii * list ascii :=
  match r2 with
  | e :: r2' =>
      if (code e =? 101) || (code e =? 69) then
        let '(eneg, r2'') := match r2' with
                             | s :: t => if code s =? 45 then (true, t) else if code s =? 43 then (false, t) else (false, r2')
                             | [] => (false, r2') end in
        let (ed, r3) := span is_digit r2'' in (true, eneg, ed, r3)
      else (false, false, [], r2)
  | [] => (false, false, [], r2) end.
Definition num_finish (ip : list ascii) (dot : bool) (fp : list ascii) (hasexp eneg : bool) (ed r3 : list ascii) : option tok :=
  let follows_ok := match r3 with x :: _ => negb (is_idchar x) | [] => true end in
  if negb follows_ok then None
  else if hasexp && (match ed with [] => true | _ => false end) then None
  else if dot then Some (TReal (real_val ip fp eneg ed))
  else if hasexp then None
  else if (match ip with z :: _ :: _ => code z =? 48 | _ => false end) then None
  else Some (TInt (digits_val 0%Z ip)).
Definition numscan (l : list ascii) : option tok * list ascii :=
  let (ip, r1) := span is_digit l in
  let '(dot, fp, r2) := scan_frac r1 in
  let '(hasexp, eneg, ed, r3) := scan_exp r2 in
  (num_finish ip dot fp hasexp eneg ed r3, r3).
Definition lexnum (f : nat) (l : list ascii) : option (list tok) :=
  match numscan l with
  | (Some t, r3) => match lex f r3 with Some ts => Some (t :: ts) | None => None end
  | (None, _) => None end.

Lemma lex_num_eq f c r :
  is_space c = false -> ((code c =? 47) && (match r with d :: _ => code d =? 47 | [] => false end)) = false ->
  (is_lower c || is_upper c) = false ->
  (is_digit c || ((code c =? 46) && (match r with d :: _ => is_digit d | [] => false end))) = true ->
  lex (S f) (c :: r) = lexnum f (c :: r).
Proof.
  intros H1 H2 H3 H4. cbn [lex]. rewrite H1, H2, H3, H4. unfold lexnum, numscan, scan_frac, scan_exp, num_finish.
  destruct (span is_digit (c :: r)) as [ip r1].
  destruct r1 as [|d r1']; [|destruct (code d =? 46); [destruct (span is_digit r1') as [fp r2]|]];
  repeat match goal with
         | |- context [span is_digit ?x] => destruct (span is_digit x)
         | |- context [match ?x with _ => _ end] =>
             match x with
             | lex _ _ => fail 1
             | _ => destruct x
             end
         end; try reflexivity.
Qed.

Lemma nl_facts : is_digit nlc = false /\ (code nlc =? 46) = false /\ ((code nlc =? 101) || (code nlc =? 69)) = false
  /\ (code nlc =? 45) = false /\ (code nlc =? 43) = false /\ is_idchar nlc = false /\ is_space nlc = true /\ (code nlc =? 47) = false
  /\ (code nlc =? 62) = false /\ (code nlc =? 61) = false.
Proof. repeat split. Qed.

Lemma scan_frac_nl b0 : exists dot fp b1, forall rest, scan_frac (b0 ++ nlc :: rest) = (dot, fp, b1 ++ nlc :: rest).
Proof.
  destruct b0 as [|d b0'].
  - exists false, [], []. intros rest. reflexivity.
  - cbn [app scan_frac]. destruct (code d =? 46).
    + destruct (span_nl is_digit eq_refl b0') as [a [b1 H]]. exists true, a, b1. intros rest. rewrite H. reflexivity.
    + exists false, [], (d :: b0'). intros rest. reflexivity.
Qed.
Lemma scan_exp_nl b0 : exists he en ed b1, forall rest, scan_exp (b0 ++ nlc :: rest) = (he, en, ed, b1 ++ nlc :: rest).
Proof.
  destruct b0 as [|e b0'].
  - exists false, false, [], []. intros rest. reflexivity.
  - cbn [app scan_exp]. destruct ((code e =? 101) || (code e =? 69)).
    + destruct b0' as [|s t].
      * exists true, false, [], []. intros rest. reflexivity.
      * cbn [app]. destruct (code s =? 45).
        { destruct (span_nl is_digit eq_refl t) as [a [b1 H]]. exists true, true, a, b1. intros rest. rewrite H. reflexivity. }
        destruct (code s =? 43).
        { destruct (span_nl is_digit eq_refl t) as [a [b1 H]]. exists true, false, a, b1. intros rest. rewrite H. reflexivity. }
        destruct (span_nl is_digit eq_refl (s :: t)) as [a [b1 H]]. exists true, false, a, b1. intros rest.
        change (s :: t ++ nlc :: rest) with ((s :: t) ++ nlc :: rest). rewrite H. reflexivity.
    + exists false, false, [], (e :: b0'). intros rest. reflexivity.
Qed.
Lemma num_finish_nl ip dot fp he en ed b0 rest :
  num_finish ip dot fp he en ed (b0 ++ nlc :: rest) = num_finish ip dot fp he en ed (b0 ++ [nlc]).
Proof. unfold num_finish. destruct b0; reflexivity. Qed.
Lemma numscan_nl l0 : exists ot b0, forall rest, numscan (l0 ++ nlc :: rest) = (ot, b0 ++ nlc :: rest).
Proof.
  destruct (span_nl is_digit eq_refl l0) as [ip [b1 H1]]. destruct (scan_frac_nl b1) as [dot [fp [b2 H2]]].
  destruct (scan_exp_nl b2) as [he [en [ed [b3 H3]]]].
  exists (num_finish ip dot fp he en ed (b3 ++ [nlc])), b3. intros rest. unfold numscan. rewrite H1, H2, H3, num_finish_nl. reflexivity.
Qed.

Lemma two_char_nl c : two_char_sym c nlc = None.
Proof. unfold two_char_sym. destruct (code c =? 45); destruct (code c =? 61); reflexivity. Qed.

(* the main lemma: a newline-terminated text is lexed independently of what follows *)
Lemma lex_nl : forall fuel l0 toks, lex fuel (l0 ++ [nlc]) = Some toks ->
  exists k, k <= fuel /\ forall f rest, lex (k + f) (l0 ++ nlc :: rest) = kont f rest toks.
Proof.
  induction fuel as [|f0 IH]; intros l0 toks H.
  { destruct l0; discriminate H. }
  destruct l0 as [|c l1].
  - cbn in H. destruct f0; injection H as <-; exists 1; (split; [lia|]); intros f rest; cbn [plus app lex];
      change (is_space nlc) with true; cbn iota; symmetry; apply kont_nil.
  - destruct (is_space c) eqn:Hsp.
    { cbn [app lex] in H. rewrite Hsp in H. destruct (IH l1 toks H) as [k [Hk E]]. exists (S k). split; [lia|].
      intros f rest. cbn [plus app lex]. rewrite Hsp. apply E. }
    destruct ((code c =? 47) && (match l1 ++ [nlc] with d :: _ => code d =? 47 | [] => false end)) eqn:Hcm.
    { (* comment *)
      destruct l1 as [|d l2]; [cbn in Hcm; rewrite Bool.andb_false_r in Hcm; discriminate|].
      cbn [app lex] in H. rewrite Hsp in H. cbn [app] in Hcm. rewrite Hcm in H.
      destruct (span_nl (fun x => negb (code x =? 10)) eq_refl (d :: l2)) as [a [b0 Hs]].
      change (d :: l2 ++ [nlc]) with ((d :: l2) ++ [nlc]) in H. rewrite Hs in H. cbn [snd] in H.
      destruct (IH b0 toks H) as [k [Hk E]]. exists (S k). split; [lia|]. intros f rest. cbn [plus app lex]. rewrite Hsp, Hcm.
      change (d :: l2 ++ nlc :: rest) with ((d :: l2) ++ nlc :: rest). rewrite Hs. cbn [snd]. apply E. }
    assert (Hcm' : forall rest, ((code c =? 47) && (match l1 ++ nlc :: rest with d :: _ => code d =? 47 | [] => false end)) = false).
    { intros rest. destruct l1; exact Hcm. }
    destruct (is_lower c || is_upper c) eqn:Hid.
    { (* identifier *)
      cbn [app lex] in H. rewrite Hsp, Hcm, Hid in H.
      assert (Hic : is_idchar c = true).
      { unfold is_idchar. apply Bool.orb_true_iff in Hid. destruct Hid as [->| ->]; rewrite ?Bool.orb_true_r; reflexivity. }
      destruct (span_nl is_idchar eq_refl l1) as [a [b0 Hs]].
      cbn [span] in H. rewrite Hic, Hs in H.
      destruct (lex f0 (b0 ++ [nlc])) as [ts|] eqn:El; [|discriminate]. injection H as <-.
      destruct (IH b0 ts El) as [k [Hk E]]. exists (S k). split; [lia|]. intros f rest. cbn [plus app lex]. rewrite Hsp, Hcm', Hid.
      cbn [span]. rewrite Hic, Hs, E. unfold kont. destruct (lex f rest); reflexivity. }
    destruct (is_digit c || ((code c =? 46) && (match l1 ++ [nlc] with d :: _ => is_digit d | [] => false end))) eqn:Hnum.
    { (* numeral *)
      assert (Hnum' : forall rest, (is_digit c || ((code c =? 46) && (match l1 ++ nlc :: rest with d :: _ => is_digit d | [] => false end))) = true).
      { intros rest. destruct l1; exact Hnum. }
      change ((c :: l1) ++ [nlc]) with (c :: (l1 ++ [nlc])) in H. rewrite (lex_num_eq f0 c _ Hsp Hcm Hid Hnum) in H.
      destruct (numscan_nl (c :: l1)) as [ot [b0 Hs]]. unfold lexnum in H.
      change (c :: l1 ++ [nlc]) with ((c :: l1) ++ [nlc]) in H. rewrite Hs in H.
      destruct ot as [t|]; [|discriminate]. destruct (lex f0 (b0 ++ [nlc])) as [ts|] eqn:El; [|discriminate]. injection H as <-.
      destruct (IH b0 ts El) as [k [Hk E]]. exists (S k). split; [lia|]. intros f rest. cbn [plus].
      change ((c :: l1) ++ nlc :: rest) with (c :: (l1 ++ nlc :: rest)). rewrite (lex_num_eq (k + f) c _ Hsp (Hcm' rest) Hid (Hnum' rest)).
      unfold lexnum. change (c :: l1 ++ nlc :: rest) with ((c :: l1) ++ nlc :: rest). rewrite Hs, E.
      unfold kont. destruct (lex f rest); reflexivity. }
    assert (Hnum' : forall rest, (is_digit c || ((code c =? 46) && (match l1 ++ nlc :: rest with d :: _ => is_digit d | [] => false end))) = false).
    { intros rest. destruct l1; exact Hnum. }
    destruct (code c =? 34) eqn:Hq.
    { (* string *)
      cbn [app lex] in H. rewrite Hsp, Hcm, Hid, Hnum, Hq in H.
      destruct (span_nl (fun x => negb (code x =? 34) && negb (code x =? 10)) eq_refl l1) as [a [b0 Hs]]. rewrite Hs in H.
      destruct b0 as [|q b1].
      - cbn [app] in H. destruct (lex f0 []) as [ts|] eqn:El; [|discriminate]. injection H as <-.
        assert (ts = []) by (destruct f0; cbn in El; congruence). subst ts.
        exists 1. split; [lia|]. intros f rest. cbn [plus app lex]. rewrite Hsp, Hcm', Hid, Hnum', Hq, Hs. cbn [app]. reflexivity.
      - cbn [app] in H. destruct (lex f0 (b1 ++ [nlc])) as [ts|] eqn:El; [|discriminate]. injection H as <-.
        destruct (IH b1 ts El) as [k [Hk E]]. exists (S k). split; [lia|]. intros f rest. cbn [plus app lex].
        rewrite Hsp, Hcm', Hid, Hnum', Hq, Hs. cbn [app]. rewrite E. unfold kont. destruct (lex f rest); reflexivity. }
    (* symbols *)
    cbn [app lex] in H. rewrite Hsp, Hcm, Hid, Hnum, Hq in H.
    destruct l1 as [|d l2].
    + cbn [app] in H. rewrite two_char_nl in H. destruct (one_char_sym c) eqn:Ho; [|discriminate].
      destruct (lex f0 [nlc]) as [ts|] eqn:El; [|discriminate]. injection H as <-.
      destruct (IH [] ts El) as [k [Hk E]]. exists (S k). split; [lia|]. intros f rest.
      pose proof (Hcm' rest) as C1. pose proof (Hnum' rest) as C2. cbn [app] in C1, C2. cbn [plus app lex].
      rewrite Hsp, C1, Hid, C2, Hq. rewrite two_char_nl, Ho.
      change (nlc :: rest) with ([] ++ nlc :: rest). rewrite E. unfold kont. destruct (lex f rest); reflexivity.
    + cbn [app] in H. destruct (two_char_sym c d) as [s|] eqn:Et.
      * destruct (lex f0 (l2 ++ [nlc])) as [ts|] eqn:El; [|discriminate]. injection H as <-.
        destruct (IH l2 ts El) as [k [Hk E]]. exists (S k). split; [lia|]. intros f rest.
        pose proof (Hcm' rest) as C1. pose proof (Hnum' rest) as C2. cbn [app] in C1, C2. cbn [plus app lex].
        rewrite Hsp, C1, Hid, C2, Hq. rewrite Et, E. unfold kont. destruct (lex f rest); reflexivity.
      * destruct (one_char_sym c) eqn:Ho; [|discriminate].
        destruct (lex f0 (d :: l2 ++ [nlc])) as [ts|] eqn:El; [|discriminate]. injection H as <-.
        destruct (IH (d :: l2) ts El) as [k [Hk E]]. exists (S k). split; [lia|]. intros f rest.
        pose proof (Hcm' rest) as C1. pose proof (Hnum' rest) as C2. cbn [app] in C1, C2. cbn [plus app lex].
        rewrite Hsp, C1, Hid, C2, Hq. rewrite Et, Ho.
        change (d :: l2 ++ nlc :: rest) with ((d :: l2) ++ nlc :: rest). rewrite E. unfold kont. destruct (lex f rest); reflexivity.
Qed.

(* a line (with its newline) that the lexer reads on its own within one step per character is read the same in any context *)
Theorem LX_line l0 toks : lex (S (length l0)) (l0 ++ [nlc]) = Some toks -> LX (l0 ++ [nlc]) toks.
Proof.
  intros H. destruct (lex_nl _ l0 toks H) as [k [Hk E]]. exists k. split; [rewrite app_length; cbn [length]; lia|].
  intros f rest. rewrite <- app_assoc. cbn [app]. apply E.
Qed.
