(* C17: non-vacuity of the hypotheses of the decomposition theorems - functions satisfying the specifications of
   cmath.phase / complex sqrt / arctan2 exist (built from acos), and a unitary with determinant -1. *)
From Coq Require Import Reals Lra Lia.
From Coquelicot Require Import Coquelicot.
From QV Require Import Found.CInst Model.SingleQubit.
Local Open Scope R_scope.

Definition carg (z : C) : R :=
  if Req_EM_T (Cmod z) 0 then 0
  else if Rle_dec 0 (snd z) then acos (fst z / Cmod z) else - acos (fst z / Cmod z).

Lemma Cmod_sqr (z : C) : Cmod z * Cmod z = fst z * fst z + snd z * snd z.
Proof. unfold Cmod. rewrite sqrt_sqrt by nra. ring. Qed.

Lemma carg_spec z : z = Cmult (RtoC (Cmod z)) (cis (carg z)).
Proof.
  unfold carg. destruct (Req_EM_T (Cmod z) 0) as [E|NE].
  - apply Cmod_eq_0 in E. subst z. rewrite Cmod_0. apply Ceq; simpl; ring.
  - pose proof (Cmod_ge_0 z) as G. pose proof (Cmod_sqr z) as S. set (m := Cmod z) in *.
    assert (Hm : 0 < m) by lra. set (c := fst z / m).
    assert (Hc : -1 <= c <= 1).
    { unfold c. split.
      - apply Rmult_le_reg_r with m; [lra|]. unfold Rdiv. rewrite Rmult_assoc, Rinv_l by lra. nra.
      - apply Rmult_le_reg_r with m; [lra|]. unfold Rdiv. rewrite Rmult_assoc, Rinv_l by lra. nra. }
    assert (Hcos : cos (acos c) = c) by (apply cos_acos; lra).
    assert (Hsin : sin (acos c) = Rabs (snd z) / m).
    { rewrite sin_acos by lra. unfold Rsqr, c.
      replace (1 - fst z / m * (fst z / m)) with ((snd z / m) * (snd z / m)).
      2:{ field_simplify; [|lra|lra]. replace (snd z ^ 2) with (m * m - fst z * fst z) by (rewrite S; ring). field. lra. }
      change ((snd z / m) * (snd z / m)) with (Rsqr (snd z / m)). rewrite sqrt_Rsqr_abs. unfold Rdiv. rewrite Rabs_mult, (Rabs_right (/ m)); [reflexivity|].
      apply Rle_ge. left. apply Rinv_0_lt_compat. lra. }
    destruct (Rle_dec 0 (snd z)) as [P|P].
    + unfold cis. rewrite Hcos, Hsin, Rabs_right by lra. unfold c. destruct z as [x y]. apply Ceq; simpl in *; field; lra.
    + unfold cis. rewrite cos_neg, sin_neg, Hcos, Hsin, Rabs_left by lra. unfold c. destruct z as [x y]. apply Ceq; simpl in *; field; lra.
Qed.

Definition csqrt_w (z : C) : C := Cmult (RtoC (sqrt (Cmod z))) (cis (carg z / 2)).
Lemma csqrt_w_spec z : Cmult (csqrt_w z) (csqrt_w z) = z.
Proof.
  unfold csqrt_w. pose proof (Cmod_ge_0 z) as G.
  transitivity (Cmult (RtoC (sqrt (Cmod z) * sqrt (Cmod z))) (cis (carg z / 2 + carg z / 2))).
  - rewrite cis_add, RtoC_mult. ring.
  - rewrite (sqrt_sqrt (Cmod z) G). replace (carg z / 2 + carg z / 2)%R with (carg z) by lra. symmetry. apply carg_spec.
Qed.

Definition atan2_w (y x : R) : R := carg (x, y).
Lemma atan2_w_spec y x : 0 < x * x + y * y ->
  cos (atan2_w y x) = x / sqrt (x * x + y * y) /\ sin (atan2_w y x) = y / sqrt (x * x + y * y).
Proof.
  intros H. unfold atan2_w. pose proof (carg_spec (x, y)) as S.
  assert (M : Cmod (x, y) = sqrt (x * x + y * y)) by (unfold Cmod; simpl; f_equal; ring).
  rewrite M in S. set (r := sqrt (x * x + y * y)) in *. assert (Hr : 0 < r) by (apply sqrt_lt_R0; exact H).
  pose proof (f_equal fst S) as Sx. pose proof (f_equal snd S) as Sy. unfold cis in Sx, Sy. simpl in Sx, Sy.
  set (cc := cos (carg (x, y))) in *. set (ss := sin (carg (x, y))) in *.
  assert (Ex : x = r * cc) by lra. assert (Ey : y = r * ss) by lra. clearbody cc ss r.
  split; [rewrite Ex | rewrite Ey]; field; lra.
Qed.

Lemma specs_inhabited : exists (cphase : C -> R) (csqrt : C -> C) (atan2 : R -> R -> R),
  (forall z : C, z = Cmult (RtoC (Cmod z)) (cis (cphase z))) /\
  (forall z : C, Cmult (csqrt z) (csqrt z) = z) /\
  (forall y x : R, 0 < x * x + y * y ->
     cos (atan2 y x) = x / sqrt (x * x + y * y) /\ sin (atan2 y x) = y / sqrt (x * x + y * y)).
Proof. exists carg, csqrt_w, atan2_w. split; [exact carg_spec| split; [exact csqrt_w_spec| exact atan2_w_spec]]. Qed.

Lemma unitary_witness : unitary2 (M2 (RtoC 0) Ci (Copp Ci) (RtoC 0)) /\ det2 (M2 (RtoC 0) Ci (Copp Ci) (RtoC 0)) = Copp (RtoC 1).
Proof. unfold unitary2, det2. cbn [u00 u01 u10 u11]. repeat split; apply Ceq; simpl; ring. Qed.
