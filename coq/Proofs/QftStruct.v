(* C17, QFT half, structural theorems about Model/Qft.v for ALL N and all options. *)
From Coq Require Import List ZArith QArith String Bool Lia.
From QV Require Import Found.Sym Gen.SingleQubit Model.Qft.
Import ListNotations.
Local Open Scope string_scope.
Local Open Scope list_scope.

(* ---- generic list facts ---- *)
Lemma flat_map_single {A B} (f : A -> B) l : flat_map (fun x => [f x]) l = map f l.
Proof. induction l; simpl; congruence. Qed.
Lemma map_flat_map {A B C} (f : B -> C) (g : A -> list B) l : map f (flat_map g l) = flat_map (fun x => map f (g x)) l.
Proof. induction l; simpl; [reflexivity|]. rewrite map_app, IHl. reflexivity. Qed.
Lemma flat_map_flat_map {A B C} (f : B -> list C) (g : A -> list B) l :
  flat_map f (flat_map g l) = flat_map (fun x => flat_map f (g x)) l.
Proof. induction l; simpl; [reflexivity|]. rewrite flat_map_app, IHl. reflexivity. Qed.
Lemma flat_map_ext_in {A B} (f g : A -> list B) l : (forall x, In x l -> f x = g x) -> flat_map f l = flat_map g l.
Proof. induction l; simpl; intros H; [reflexivity|]. rewrite H by (left; reflexivity). rewrite IHl; [reflexivity|]. intros; apply H; right; assumption. Qed.

(* ---- the expansion of one controlled phase, in closed form (computed from the GENERATED tuple) ---- *)
Definition expansion (ts cs : list nat) (phi : ang) : list qg :=
  [ QG "RZ" ts [] (Some (ang_half phi));
    QG "CNOT" ts cs None;
    QG "RZ" ts [] (Some (ang_half (ang_neg (ang_add (ang_half phi) (ang_half phi)))));
    QG "CNOT" ts cs None;
    QG "RZ" cs [] (Some (ang_half phi));
    QG "GLOBALPHASE" [0%nat] [] (Some (ang_add (ang_half phi) (ang_half (ang_half phi)))) ].

Lemma cphase_to_cnot_eq ts cs phi : cphase_to_cnot ts cs phi = Some (expansion ts cs phi).
Proof. reflexivity. Qed.
Lemma cphase_to_cnot_tot_eq ts cs phi : cphase_to_cnot_tot ts cs phi = expansion ts cs phi.
Proof. reflexivity. Qed.
Lemma expansions_ok_true N : expansions_ok N = true.
Proof.
  unfold expansions_ok. apply forallb_forall. intros i _. apply forallb_forall. intros j _. reflexivity.
Qed.

(* the sequence is defined exactly for N >= 1, whatever the options *)
Lemma qft_gate_sequence_some N sw tc : (1 <= N)%nat -> qft_gate_sequence N sw tc = Some (qft_body N sw tc).
Proof.
  intros H. unfold qft_gate_sequence. replace (N <? 1)%nat with false by (symmetry; apply Nat.ltb_ge; lia).
  rewrite expansions_ok_true. rewrite andb_false_r. reflexivity.
Qed.
Lemma qft_gate_sequence_none N sw tc : (N < 1)%nat -> qft_gate_sequence N sw tc = None.
Proof. intros H. unfold qft_gate_sequence. replace (N <? 1)%nat with true by (symmetry; apply Nat.ltb_lt; lia). reflexivity. Qed.
Lemma qft_gate_sequence_inv N sw tc l : qft_gate_sequence N sw tc = Some l -> (1 <= N)%nat /\ l = qft_body N sw tc.
Proof.
  intros H. destruct (Nat.lt_ge_cases N 1) as [L|L].
  - rewrite qft_gate_sequence_none in H by assumption. discriminate.
  - rewrite qft_gate_sequence_some in H by assumption. injection H as <-. auto.
Qed.

(* ---- clause: step list and circuit agree (all N, both swapping options) ---- *)
Lemma steps_row_eq i : map step_of_gate (qft_row false i) = steps_row i.
Proof.
  unfold qft_row, steps_row. rewrite map_app. f_equal.
  unfold cgate. rewrite flat_map_single, map_map. reflexivity.
Qed.

Theorem steps_eq_sequence N sw : qft_steps N sw = option_map (map step_of_gate) (qft_gate_sequence N sw false).
Proof.
  destruct (Nat.lt_ge_cases N 1) as [L|L].
  - rewrite qft_gate_sequence_none by assumption. unfold qft_steps.
    replace (N <? 1)%nat with true by (symmetry; apply Nat.ltb_lt; lia). reflexivity.
  - rewrite qft_gate_sequence_some by assumption. unfold qft_steps.
    replace (N <? 1)%nat with false by (symmetry; apply Nat.ltb_ge; lia). cbn [option_map]. f_equal.
    unfold qft_body. destruct (Nat.eqb N 1); [reflexivity|].
    rewrite map_app, map_flat_map. f_equal.
    + apply flat_map_ext_in. intros i _. symmetry. apply steps_row_eq.
    + destruct sw; [|reflexivity]. unfold qft_swaps. rewrite map_map. reflexivity.
Qed.

(* ---- clause: every gate names distinct qubits of the register ---- *)
Definition gate_wf (N : nat) (g : qg) : Prop :=
  Forall (fun q => q < N)%nat (gcontrols g ++ gtargets g) /\ NoDup (gcontrols g ++ gtargets g).

Lemma Forall_flat_map {A B} (P : B -> Prop) (f : A -> list B) l :
  (forall x, In x l -> Forall P (f x)) -> Forall P (flat_map f l).
Proof. induction l; simpl; intros H; [constructor|]. apply Forall_app. split; [apply H; left; reflexivity| apply IHl; intros; apply H; right; assumption]. Qed.

Lemma nodup2 (a b : nat) : a <> b -> NoDup [a; b].
Proof. intros H. constructor; [simpl; intuition congruence|]. constructor; [simpl; tauto| constructor]. Qed.
Lemma nodup1 (a : nat) : NoDup [a].
Proof. constructor; [simpl; tauto| constructor]. Qed.

Lemma wf1 N name (t : nat) a : (t < N)%nat -> gate_wf N (QG name [t] [] a).
Proof. intros H. split; cbn [gcontrols gtargets app]; [repeat constructor; assumption| apply nodup1]. Qed.
Lemma wf2 N name (t c : nat) a : (t < N)%nat -> (c < N)%nat -> c <> t -> gate_wf N (QG name [t] [c] a).
Proof. intros H1 H2 H3. split; cbn [gcontrols gtargets app]; [repeat constructor; assumption| apply nodup2; assumption]. Qed.
Lemma wf_swap N name (t c : nat) a : (t < N)%nat -> (c < N)%nat -> t <> c -> gate_wf N (QG name [t; c] [] a).
Proof. intros H1 H2 H3. split; cbn [gcontrols gtargets app]; [repeat constructor; assumption| apply nodup2; assumption]. Qed.

Lemma cgate_wf N tc i j : (i < N)%nat -> (j < i)%nat -> Forall (gate_wf N) (cgate tc i j).
Proof.
  intros Hi Hj. unfold cgate. destruct tc.
  - rewrite cphase_to_cnot_tot_eq. unfold expansion.
    repeat (apply Forall_cons; [first [apply wf1; lia | apply wf2; lia]|]). constructor.
  - apply Forall_cons; [apply wf2; lia| constructor].
Qed.

Theorem sequence_wf N sw tc l : qft_gate_sequence N sw tc = Some l -> Forall (gate_wf N) l.
Proof.
  intros H. apply qft_gate_sequence_inv in H. destruct H as [HN ->]. unfold qft_body.
  destruct (Nat.eqb N 1) eqn:E.
  - apply Forall_cons; [apply wf1; lia| constructor].
  - apply Forall_app. split.
    + apply Forall_flat_map. intros i Hi. apply in_seq in Hi. unfold qft_row. apply Forall_app. split.
      * apply Forall_flat_map. intros j Hj. apply in_seq in Hj. apply cgate_wf; lia.
      * apply Forall_cons; [apply wf1; lia| constructor].
    + destruct sw; [|constructor]. unfold qft_swaps. apply Forall_forall. intros g Hg.
      apply in_map_iff in Hg. destruct Hg as [i [<- Hi]]. apply in_seq in Hi.
      assert (N / 2 * 2 <= N)%nat by (pose proof (Nat.div_mod N 2); lia).
      apply wf_swap; lia.
Qed.

(* ---- gate counts ---- *)
Lemma length_flat_map_const {A B} (f : A -> list B) l k : (forall x, In x l -> length (f x) = k) -> length (flat_map f l) = (length l * k)%nat.
Proof. induction l; simpl; intros H; [reflexivity|]. rewrite app_length, IHl by (intros; apply H; right; assumption). rewrite H by (left; reflexivity). lia. Qed.

Fixpoint tri (n : nat) : nat := match n with O => O | S n' => (n' + tri n')%nat end.   (* 0 + 1 + ... + (n-1) *)
Lemma row_length tc i : length (qft_row tc i) = ((if tc then 6 else 1) * i + 1)%nat.
Proof.
  unfold qft_row. rewrite app_length. cbn [length].
  rewrite (length_flat_map_const _ _ (if tc then 6 else 1)%nat).
  - rewrite seq_length. lia.
  - intros j _. unfold cgate. destruct tc; reflexivity.
Qed.
Lemma rows_length tc N : length (flat_map (qft_row tc) (seq 0 N)) = ((if tc then 6 else 1) * tri N + N)%nat.
Proof.
  induction N as [|N IH]; [destruct tc; reflexivity|].
  rewrite seq_S, flat_map_app, app_length, IH. cbn [flat_map plus]. rewrite app_nil_r, row_length.
  cbn [tri]. destruct tc; lia.
Qed.

Theorem sequence_length N sw tc l : qft_gate_sequence N sw tc = Some l ->
  length l = ((if tc then 6 else 1) * tri N + N + (if sw then N / 2 else 0))%nat.
Proof.
  intros H. apply qft_gate_sequence_inv in H. destruct H as [HN ->]. unfold qft_body.
  destruct (Nat.eqb N 1) eqn:E.
  - apply Nat.eqb_eq in E. subst. destruct tc, sw; reflexivity.
  - rewrite app_length, rows_length. f_equal. destruct sw; [|reflexivity].
    unfold qft_swaps. rewrite map_length, seq_length. reflexivity.
Qed.

(* ---- the CNOT-expanded sequence is the native one with every CPHASE replaced by its expansion ---- *)
Definition expand (g : qg) : list qg :=
  match String.eqb (gname g) "CPHASE", garg g with
  | true, Some a => cphase_to_cnot_tot (gtargets g) (gcontrols g) a
  | _, _ => [g]
  end.

Theorem expanded_is_flat_map N sw : qft_body N sw true = flat_map expand (qft_body N sw false).
Proof.
  unfold qft_body. destruct (Nat.eqb N 1); [reflexivity|].
  rewrite flat_map_app, flat_map_flat_map. f_equal.
  - apply flat_map_ext_in. intros i _. unfold qft_row. rewrite flat_map_app, flat_map_flat_map.
    replace (flat_map expand [QG "SNOT" [i] [] None]) with [QG "SNOT" [i] [] None] by reflexivity.
    apply (f_equal (fun l => l ++ [QG "SNOT" [i] [] None])).
    apply flat_map_ext_in. intros j _. unfold cgate. cbn [flat_map]. rewrite app_nil_r. reflexivity.
  - destruct sw; [|reflexivity]. unfold qft_swaps. generalize (seq 0 (N / 2)). intros l.
    induction l; simpl; congruence.
Qed.

Lemma sequence_defined N sw tc :
  ((1 <= N)%nat -> qft_gate_sequence N sw tc = Some (qft_body N sw tc)) /\ ((N < 1)%nat -> qft_gate_sequence N sw tc = None).
Proof. split; [apply qft_gate_sequence_some| apply qft_gate_sequence_none]. Qed.
