(* C12: structure of the per-channel concatenation, coefficient lengths, strictly increasing grids *)
From Coq Require Import List QArith Qabs Qround ZArith Bool Lia Lqa.
From QV Require Import Model.Concat Proofs.ConcatBasics.
Import ListNotations.
Open Scope Q_scope.

(* ---------- one step of the channel loop ---------- *)
Definition head_t (b : bool) : list Q := if b then [0] else [].
Definition head_c (b : bool) (m : mode) : list Q :=
  if b then match m with Continuous => [0] | Discrete => [] end else [].

Lemma concat_chan_inv fx gtl first lst ms md i rest ts cs ms' md' :
  concat_chan fx gtl first lst ms md (i :: rest) = Some (ts, cs, ms', md') ->
  exists gt co step m idl lst' ts' cs',
    process_gate_pulse (p_wave i) = Some (gt, co, step, m) /\
    (if Qlt_b (gtl step) (Qabs (p_start i - lst))
     then idle_tlist m (p_start i) lst step else Some []) = Some idl /\
    last_opt (map (fun x => x + p_start i) gt) = Some lst' /\
    concat_chan fx gtl false lst' (qmin_opt ms step) (Some m) rest = Some (ts', cs', ms', md') /\
    let isfirst := if fx then first else Qlt_b (Qabs lst) (step * tol) in
    ts = head_t isfirst ++ idl ++ map (fun x => x + p_start i) gt ++ ts' /\
    cs = head_c isfirst m ++ zeros idl ++ co ++ cs'.
Proof.
  cbn [concat_chan].
  destruct (process_gate_pulse (p_wave i)) as [[[[gt co] step] m]|] eqn:EP; [|discriminate].
  destruct (if Qlt_b (gtl step) (Qabs (p_start i - lst))
            then idle_tlist m (p_start i) lst step else Some []) as [idl|] eqn:EI; [|discriminate].
  destruct (last_opt (map (fun x => x + p_start i) gt)) as [lst'|] eqn:EL; [|discriminate].
  destruct (concat_chan fx gtl false lst' (qmin_opt ms step) (Some m) rest) as [[[[ts' cs'] ms''] md'']|] eqn:ER;
    [|discriminate].
  intro H. inversion H; subst; clear H.
  exists gt, co, step, m, idl, lst', ts', cs'.
  repeat split; first [assumption | reflexivity].
Qed.

(* mode returned by the classification *)
Lemma pgp_mode w gt co step m :
  process_gate_pulse w = Some (gt, co, step, m) ->
  (m = Discrete /\ is_discrete w) \/ (m = Continuous /\ is_continuous w).
Proof.
  destruct w as [d c|ts cs]; cbn.
  - intro H. left. split; [congruence|reflexivity].
  - unfold is_discrete, is_continuous, w_ts, w_cs. cbn.
    destruct (Nat.eqb (length ts) (S (length cs))) eqn:E1.
    + apply Nat.eqb_eq in E1. destruct ts as [|t0 [|t1 ts]]; try discriminate.
      intro H. left. split; [congruence|exact E1].
    + destruct (Nat.eqb (length ts) (length cs)) eqn:E2; [|discriminate].
      apply Nat.eqb_eq in E2. destruct ts as [|t0 [|t1 ts]]; try discriminate.
      intro H. right. split; [congruence|exact E2].
Qed.

(* ---------- coefficient lengths ---------- *)
Lemma zeros_length l : length (zeros l) = length l.
Proof. apply map_length. Qed.

Lemma chan_lengths_nf fx gtl l lst ms md ts cs ms' md' :
  fx = true ->
  concat_chan fx gtl false lst ms md l = Some (ts, cs, ms', md') -> length ts = length cs.
Proof.
  intros ->. revert lst ms md ts cs ms' md'.
  induction l as [|i rest IH]; intros lst ms md ts cs ms' md' H.
  - cbn in H. injection H as <- <- _ _. reflexivity.
  - apply concat_chan_inv in H.
    destruct H as (gt & co & step & m & idl & lst' & ts' & cs' & EP & EI & EL & ER & Ets & Ecs).
    cbn in Ets, Ecs. subst ts cs.
    apply IH in ER. apply pgp_lengths in EP.
    rewrite !app_length, map_length, zeros_length. lia.
Qed.

(* the whole channel (first = true): the grid has one point more than there are coefficients when the
   channel starts with a discrete pulse, and as many points as coefficients when it starts with a
   continuous one *)
Lemma chan_lengths_first gtl i rest lst ms md ts cs ms' md' :
  concat_chan true gtl true lst ms md (i :: rest) = Some (ts, cs, ms', md') ->
  (is_discrete (p_wave i) /\ length ts = S (length cs)) \/
  (is_continuous (p_wave i) /\ ~ is_discrete (p_wave i) /\ length ts = length cs).
Proof.
  intro H. apply concat_chan_inv in H.
  destruct H as (gt & co & step & m & idl & lst' & ts' & cs' & EP & EI & EL & ER & Ets & Ecs).
  cbn in Ets, Ecs. subst ts cs.
  apply chan_lengths_nf in ER; [|reflexivity]. pose proof (pgp_lengths _ _ _ _ _ EP) as EG.
  apply pgp_mode in EP. destruct EP as [[-> Hd]|[-> Hc]].
  - left. split; [exact Hd|]. cbn [head_t head_c app length].
    rewrite !app_length, map_length, zeros_length. lia.
  - right. split; [exact Hc|]. split.
    + unfold is_discrete, is_continuous in *. lia.
    + cbn [head_t head_c app length]. rewrite !app_length, map_length, zeros_length. lia.
Qed.

(* ---------- min_step_size stays positive ---------- *)
Definition ms_pos (ms : option Q) : Prop := match ms with None => True | Some m => 0 < m end.

Lemma qmin_opt_pos ms s : ms_pos ms -> 0 < s -> ms_pos (qmin_opt ms s).
Proof.
  destruct ms as [m|]; cbn; [|tauto]. intros Hm Hs. destruct (Qlt_b m s); cbn; assumption.
Qed.

Lemma qmin_opt_some ms s : exists m, qmin_opt ms s = Some m.
Proof. destruct ms as [m|]; cbn; [destruct (Qlt_b m s)|]; eauto. Qed.

(* ---------- grids ---------- *)
Lemma wf_pgp_inv w gt co step m :
  wf_wave w -> process_gate_pulse w = Some (gt, co, step, m) ->
  gt = tl (w_ts w) /\ step = step_of w.
Proof.
  intros Hw EP. destruct (pgp_wf w Hw) as (co' & m' & E & _). rewrite E in EP.
  split; congruence.
Qed.

Lemma last_In (l : list Q) d : l <> [] -> In (last l d) l.
Proof.
  induction l as [|x l IH]; [congruence|]. intros _.
  destruct l as [|y l]; [left; reflexivity|]. right. apply IH. congruence.
Qed.

Lemma chain_ord_eq a b l : a == b -> chain_ord a l -> chain_ord b l.
Proof.
  intros E. destruct l as [|j l]; [tauto|]. intros (A & B & C).
  split; [exact A|]. split; [lra|exact C].
Qed.

Lemma chan_grid_nf gtl l : (forall s, 0 < s -> 0 <= gtl s) -> forall lst ms md ts cs ms' md',
  chain_ord lst l -> ms_pos ms ->
  concat_chan true gtl false lst ms md l = Some (ts, cs, ms', md') ->
  incr_from lst ts /\ ms_pos ms' /\ (l <> [] -> ts <> [] /\ exists m, ms' = Some m /\ md' <> None).
Proof.
  intro Hgt. induction l as [|i rest IH]; intros lst ms md ts cs ms' md' HC Hms H.
  - cbn in H. injection H as <- <- <- <-. split; [exact I|]. split; [exact Hms|]. congruence.
  - destruct HC as (Hw & Hle & HC).
    apply concat_chan_inv in H.
    destruct H as (gt & co & step & m & idl & lst' & ts' & cs' & EP & EI & EL & ER & Ets & Ecs).
    cbn in Ets. subst ts. clear Ecs.
    destruct (wf_pgp_inv _ _ _ _ _ Hw EP) as [-> ->].
    pose proof (wf_step_pos _ Hw) as Hs.
    destruct (wf_exec (p_wave i) (p_start i) Hw) as (Ene & Einc & Elast).
    set (ex := map (fun x => x + p_start i) (tl (w_ts (p_wave i)))) in *.
    rewrite (last_opt_last ex (p_start i) Ene) in EL. injection EL as <-.
    assert (HC' : chain_ord (last ex (p_start i)) rest).
    { apply chain_ord_eq with (a := p_end i); [unfold p_end; lra|exact HC]. }
    destruct (IH _ _ _ _ _ _ _ HC' (qmin_opt_pos _ _ Hms Hs) ER) as (Hinc' & Hms' & Hne').
    split; [|split].
    + (* increasing *)
      assert (Htail : incr_from (p_start i) (ex ++ ts')).
      { apply incr_app; [exact Einc|exact Hinc']. }
      destruct (Qlt_b (gtl (step_of (p_wave i))) (Qabs (p_start i - lst))) eqn:EG.
      * qb. rewrite Qabs_pos in EG by lra.
        assert (Hlt : lst < p_start i).
        { pose proof (Hgt _ Hs). lra. }
        destruct (idle_incr _ _ _ _ _ Hs Hlt EI) as [Hi Hb].
        apply incr_app; [exact Hi|].
        apply incr_from_weaken with (a := p_start i); [|exact Htail].
        destruct idl as [|y idl]; [cbn; lra|].
        apply Hb. apply last_In. congruence.
      * injection EI as <-. cbn [app]. apply incr_from_weaken with (a := p_start i); assumption.
    + exact Hms'.
    + intros _. split.
      * destruct idl; destruct ex; cbn; congruence.
      * destruct rest as [|j rest].
        -- cbn in ER. injection ER as _ _ <- <-.
           destruct (qmin_opt_some ms (step_of (p_wave i))) as [m0 E0]. exists m0. split; [exact E0|congruence].
        -- destruct Hne' as [_ Hx]; [congruence|]. exact Hx.
Qed.

(* the arrays do not depend on the threaded min_step_size / pulse_mode *)
Lemma concat_chan_ms_irrel fx gtl l : forall first lst ms md ts cs ms' md' ms2 md2,
  concat_chan fx gtl first lst ms md l = Some (ts, cs, ms', md') ->
  exists ms2' md2', concat_chan fx gtl first lst ms2 md2 l = Some (ts, cs, ms2', md2').
Proof.
  induction l as [|i rest IH]; intros first lst ms md ts cs ms' md' ms2 md2 H.
  - cbn in H. inversion H; subst. cbn. eauto.
  - apply concat_chan_inv in H.
    destruct H as (gt & co & step & m & idl & lst' & ts' & cs' & EP & EI & EL & ER & Ets & Ecs).
    destruct (IH _ _ _ _ _ _ _ _ (qmin_opt ms2 step) (Some m) ER) as (a & b & ER').
    exists a, b. cbn [concat_chan]. rewrite EP, EI, EL, ER'. cbn in Ets, Ecs. subst ts cs.
    unfold head_t, head_c. reflexivity.
Qed.

Lemma chan_incr_nf gtl l lst ms md ts cs ms' md' :
  (forall s, 0 < s -> 0 <= gtl s) -> chain_ord lst l ->
  concat_chan true gtl false lst ms md l = Some (ts, cs, ms', md') -> incr_from lst ts.
Proof.
  intros Hgt HC H.
  destruct (concat_chan_ms_irrel _ _ _ _ _ _ _ _ _ _ _ None None H) as (a & b & H').
  destruct (chan_grid_nf gtl l Hgt lst None None ts cs a b HC I H') as (Hi & _). exact Hi.
Qed.

Lemma concat_first gtl lst ms md i rest ts cs ms' md' :
  concat_chan true gtl true lst ms md (i :: rest) = Some (ts, cs, ms', md') ->
  exists ts0 cs0, concat_chan true gtl false lst ms md (i :: rest) = Some (ts0, cs0, ms', md') /\
                  ts = 0 :: ts0 /\
                  (is_discrete (p_wave i) /\ cs = cs0 \/
                   is_continuous (p_wave i) /\ ~ is_discrete (p_wave i) /\ cs = 0 :: cs0).
Proof.
  intro H. apply concat_chan_inv in H.
  destruct H as (gt & co & step & m & idl & lst' & ts' & cs' & EP & EI & EL & ER & Ets & Ecs).
  cbn in Ets, Ecs.
  exists (idl ++ map (fun x => x + p_start i) gt ++ ts'), (zeros idl ++ co ++ cs').
  split.
  - cbn [concat_chan]. rewrite EP, EI, EL, ER. reflexivity.
  - split; [exact Ets|]. apply pgp_mode in EP. destruct EP as [[-> Hd]|[-> Hc]].
    + left. split; [exact Hd|exact Ecs].
    + right. split; [exact Hc|]. split; [|exact Ecs].
      unfold is_discrete, is_continuous in *. lia.
Qed.

(* the whole channel: the grid starts at 0 and increases strictly *)
Lemma chan_grid gtl l ms md ts cs ms' md' :
  (forall s, 0 < s -> 0 <= gtl s) -> l <> [] -> chain_ord 0 l -> ms_pos ms ->
  concat_chan true gtl true 0 ms md l = Some (ts, cs, ms', md') ->
  (exists r, ts = 0 :: r) /\ strictly_increasing ts /\ ms_pos ms' /\ (exists m, ms' = Some m) /\ md' <> None.
Proof.
  intros Hgt Hne HC Hms H. destruct l as [|i rest]; [congruence|].
  apply concat_first in H. destruct H as (ts0 & cs0 & H & -> & _).
  destruct (chan_grid_nf _ _ Hgt _ _ _ _ _ _ _ HC Hms H) as (Hi & Hp & Hx).
  destruct Hx as (_ & m & -> & Hmd); [congruence|].
  split; [eauto|]. split; [exact Hi|]. split; [exact Hp|]. split; [eauto|exact Hmd].
Qed.

(* the fixed code puts 0 at the head of every channel, whatever the durations *)
Lemma chan_starts_zero gtl i rest lst ms md ts cs ms' md' :
  concat_chan true gtl true lst ms md (i :: rest) = Some (ts, cs, ms', md') -> exists r, ts = 0 :: r.
Proof.
  intro H. apply concat_first in H. destruct H as (ts0 & cs0 & _ & -> & _). eauto.
Qed.
