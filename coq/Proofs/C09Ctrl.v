(* C09, second sentence: the controlled version of a unitary, as built by controlled_gate (block_diag of 2^nc blocks
   with block `control_value` = U, placed on controls ++ targets), applies U exactly when the controls hold that value.
   For every number of controls, every control value, every k-qubit U, every placement, every register, every ring. *)
From Coq Require Import FunctionalExtensionality.
From QV Require Import Found.Base Found.Lemmas Found.Table Found.Comm Found.KS Found.KSProofs Found.Sym Found.Ctrl Found.CtrlTab.

Section S.
Variable R : PhaseRing.
Notation ev := (eval R).

Lemma app_ext (A B : mat R) ts (psi : state R) x :
  (forall y, length y = length ts -> A (map x ts) y = B (map x ts) y) -> Base.app A ts psi x = Base.app B ts psi x.
Proof.
  intros H. unfold Base.app. apply (Lemmas.ksum_map_ext R). intros y Hy. rewrite H; [reflexivity|].
  apply all_bits_length in Hy. exact Hy.
Qed.

Lemma eval_cmat nc cv (U : ptab) r c :
  ev (cmat POps nc cv (smat U) r c) = cmat R nc cv (emat R (smat U)) r c.
Proof.
  unfold cmat, emat. destruct (beqb (firstn nc r) (firstn nc c)); [|apply eval_pzero].
  destruct (Nat.eqb (idx (firstn nc r)) cv); [reflexivity|].
  destruct (beqb (skipn nc r) (skipn nc c)); [apply eval_pone| apply eval_pzero].
Qed.

Theorem controlled_gate_spec nc cv (U : ptab) k cs ts (psi : state R) x :
  length U = (2 ^ k)%nat -> length cs = nc -> length ts = k -> NoDup cs -> disjoint cs ts ->
  Base.app (emat R (smat (ptctrl nc cv U))) (cs ++ ts) psi x =
  if Nat.eqb (idx (map x cs)) cv then Base.app (emat R (smat U)) ts psi x else psi x.
Proof.
  intros HU Hc Ht Hnd D.
  rewrite <- (app_ctrl R (PR_ring R) nc cv (emat R (smat U)) cs ts psi x Hc Hnd D).
  apply app_ext. intros y Hy. unfold emat at 1.
  rewrite (ptctrl_cmat nc cv U k).
  - apply eval_cmat.
  - exact HU.
  - rewrite map_length, app_length. lia.
  - rewrite Hy, app_length. lia.
Qed.
End S.
