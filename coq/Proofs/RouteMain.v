(* C07 - the statements exported to Props/C07.v, a concrete (token-tracking) instance of the
   abstract gate semantics, and the refutations for the unchanged code. *)
From Coq Require Import ZArith List String Bool Lia.
Import ListNotations.
From QV Require Import Model.Route Proofs.RouteLoop Proofs.RouteSem.
Local Open Scope Z_scope.

(* the three laws a gate semantics has to satisfy (facts about the documented gate matrices) *)
Definition sem_laws (S : Type) (act : gate -> S -> S) : Prop :=
  (forall n, is_ctrl n = true -> conj_law S act (Cg n)) /\
  (forall n a, is_swapk n = true -> conj_law S act (SWg n a)) /\
  (forall n a x y st, is_swapk n = true -> act (SWg n a x y) st = act (SWg n a y x) st).

Section Main.
  Variable S : Type.
  Variable act : gate -> S -> S.
  Hypothesis laws : sem_laws S act.

  Let conj_c := proj1 laws.
  Let conj_s := proj1 (proj2 laws).
  Let sym_s := proj2 (proj2 laws).

  (* one handled gate, either topology: routed, same meaning, adjacent, in range *)
  Lemma route_one : forall tp N g,
    wf_handled g = true -> in_rangeb N g = true ->
    exists out, route fixed tp N [g] = Some out /\
                (forall st, run S act out st = act g st) /\
                forallb (adj2b tp N) out = true /\
                forallb (in_rangeb N) out = true.
  Proof.
    intros tp N g Hw Hr.
    destruct (route1_handled_ok S act conj_c conj_s sym_s tp N g Hw Hr) as [out [Ho [H1 [H2 H3]]]].
    exists out. cbn [route]. rewrite Ho. cbn [obind option_map]. rewrite app_nil_r. auto.
  Qed.

  Lemma route_linear_sem : forall N g,
    wf_handled g = true -> in_rangeb N g = true ->
    exists out, route fixed Linear N [g] = Some out /\ forall st, run S act out st = act g st.
  Proof.
    intros N g Hw Hr. destruct (route_one Linear N g Hw Hr) as [out [Ho [H1 _]]]. eauto.
  Qed.

  Lemma route_circular_sem : forall N g,
    wf_handled g = true -> in_rangeb N g = true ->
    exists out, route fixed Circular N [g] = Some out /\ forall st, run S act out st = act g st.
  Proof.
    intros N g Hw Hr. destruct (route_one Circular N g Hw Hr) as [out [Ho [H1 _]]]. eauto.
  Qed.

  Lemma route_many : forall tp N gs,
    Forall (gate_ok N) gs ->
    exists outs, route fixed tp N gs = Some (List.concat outs) /\
                 Forall2 (piece_ok S act tp N) gs outs /\
                 forall st, run S act (List.concat outs) st = run S act gs st.
  Proof. intros. apply route_many_ok; auto. Qed.

  Lemma adjacent_gates_one : forall N g,
    wf_handled g = true -> in_rangeb N g = true ->
    exists out, adjacent_gates fixed [g] = Some out /\
                (forall st, run S act out st = act g st) /\
                forallb (adj2b Linear N) out = true /\
                forallb (in_rangeb N) out = true.
  Proof.
    intros N g Hw Hr.
    destruct (adj1_handled_ok S act conj_c conj_s sym_s N g Hw Hr) as [out [Ho [H1 [H2 H3]]]].
    exists out. cbn [adjacent_gates]. rewrite Ho. cbn [obind option_map]. rewrite app_nil_r. auto.
  Qed.

  Lemma adjacent_gates_many : forall N gs,
    Forall (fun g => wf_handled g = true /\ in_rangeb N g = true) gs ->
    exists outs, adjacent_gates fixed gs = Some (List.concat outs) /\
                 Forall2 (fun g o => routed_ok S act Linear N g o) gs outs /\
                 forall st, run S act (List.concat outs) st = run S act gs st.
  Proof. intros. apply adjacent_gates_many_ok; auto. Qed.

  Lemma track_is_sound : forall l g, track l = Some g ->
    wf_handled g = true /\ forall st, run S act l st = act g st.
  Proof. intros. apply track_sound; auto. Qed.
End Main.

(* clauses that do not depend on the semantics *)
Lemma route_adjacent_in_range : forall tp N g,
  wf_handled g = true -> in_rangeb N g = true ->
  exists out, route fixed tp N [g] = Some out /\
              forallb (adj2b tp N) out = true /\ forallb (in_rangeb N) out = true.
Proof.
  intros tp N g Hw Hr.
  assert (L : sem_laws unit (fun _ s => s)).
  { repeat split. }
  destruct (route_one unit (fun _ s => s) L tp N g Hw Hr) as [out [Ho [_ [H2 H3]]]].
  exists out. auto.
Qed.

Lemma route_passthrough : forall c tp N g r,
  handledb g = false ->
  route c tp N (g :: r) = option_map (cons g) (route c tp N r).
Proof.
  intros c tp N g r H. cbn [route].
  rewrite route1_passthrough by exact H. cbn [obind].
  destruct (route c tp N r); reflexivity.
Qed.

Lemma route_passthrough_all : forall c tp N gs,
  forallb (fun g => negb (handledb g)) gs = true -> route c tp N gs = Some gs.
Proof.
  intros c tp N gs. induction gs as [|g gs IH]; intros H; [reflexivity|].
  cbn [forallb] in H. apply andb_true_iff in H. destruct H as [Hg H].
  apply negb_true_iff in Hg. rewrite route_passthrough by exact Hg. rewrite IH by exact H. reflexivity.
Qed.

Lemma adjacent_gates_unhandled_rejected : forall c gs g,
  fix_adjpass c = false -> In g gs -> handledb g = false -> adjacent_gates c gs = None.
Proof. intros c gs g. apply adjacent_gates_rejects. Qed.

(* adjacent_gates with C07-adjacent-gates-passthrough: unhandled gates are kept, in order *)
Lemma adjacent_gates_passthrough : forall c g r,
  fix_adjpass c = true -> handledb g = false ->
  adjacent_gates c (g :: r) = option_map (cons g) (adjacent_gates c r).
Proof.
  intros c g r Hc H. cbn [adjacent_gates].
  rewrite adj1_passthrough by auto. cbn [obind].
  destruct (adjacent_gates c r); reflexivity.
Qed.

Lemma adjacent_gates_passthrough_all : forall c gs,
  fix_adjpass c = true ->
  forallb (fun g => negb (handledb g)) gs = true -> adjacent_gates c gs = Some gs.
Proof.
  intros c gs Hc. induction gs as [|g gs IH]; intros H; [reflexivity|].
  cbn [forallb] in H. apply andb_true_iff in H. destruct H as [Hg H].
  apply negb_true_iff in Hg. rewrite adjacent_gates_passthrough by auto. rewrite IH by exact H. reflexivity.
Qed.

(* ---- circuits with measurements (operation level) --------------------------------------- *)
Lemma route_ops_gates : forall c tp N gs,
  route_ops c tp N (map OG gs) = option_map (map OG) (route c tp N gs).
Proof.
  intros c tp N gs. induction gs as [|g gs IH]; [reflexivity|].
  cbn [map route_ops route]. rewrite IH.
  destruct (route1 c tp N g) as [o|]; [|reflexivity]. cbn [obind].
  destruct (route c tp N gs) as [r|]; [|reflexivity]. cbn [option_map].
  rewrite map_app. reflexivity.
Qed.

Definition meas_name_ok (n : string) : bool := negb (is_ctrl n || is_swapk n).

Lemma route_ops_measurement_passthrough : forall c tp N n t s r,
  fix_meas c = true -> meas_name_ok n = true ->
  route_ops c tp N (OM n t s :: r) = option_map (cons (OM n t s)) (route_ops c tp N r).
Proof.
  intros c tp N n t s r Hc Hn. unfold meas_name_ok in Hn. apply negb_true_iff in Hn.
  cbn [route_ops]. rewrite Hn, Hc. reflexivity.
Qed.

Lemma route_ops_measurement_wrapped : forall c tp N n t s r,
  fix_meas c = false -> meas_name_ok n = true ->
  route_ops c tp N (OM n t s :: r) = option_map (cons (OG wrapped_measurement)) (route_ops c tp N r).
Proof.
  intros c tp N n t s r Hc Hn. unfold meas_name_ok in Hn. apply negb_true_iff in Hn.
  cbn [route_ops]. rewrite Hn, Hc. reflexivity.
Qed.

(* every operation is either a measurement or a gate the gate-level theorems speak about *)
Definition op_ok (N : Z) (o : op) : Prop :=
  match o with
  | OG g => gate_ok N g
  | OM n _ _ => meas_name_ok n = true
  end.

Lemma adjacent_ops_rejects_measurement : forall c ops n t s,
  In (OM n t s) ops -> adjacent_ops c ops = None.
Proof.
  intros c ops n t s H. unfold adjacent_ops.
  assert (E : existsb is_meas ops = true) by (apply existsb_exists; exists (OM n t s); split; auto).
  rewrite E. reflexivity.
Qed.

(* ------------------------------------------------------------------------------------------ *)
(* A concrete, non-trivial instance of the laws: two tokens sitting on qubits a and b and a    *)
(* counter.  SWAP moves the tokens; a CNOT/CSIGN increments the counter iff its control is on  *)
(* token a and its target on token b; a swap-type gate iff it sits on both tokens.             *)
(* ------------------------------------------------------------------------------------------ *)
Definition tok : Type := (Z * Z * Z)%type.

Definition tact (g : gate) (st : tok) : tok :=
  let '(a, b, k) := st in
  if String.eqb (gname g) "SWAP" then
    match gtargets g with
    | [p; q] => (tau p q a, tau p q b, k)
    | _ => st
    end
  else if is_ctrl (gname g) then
    match gtargets g, gcontrols g with
    | [t], [c] => if (a =? c) && (b =? t) then (a, b, k + 1) else st
    | _, _ => st
    end
  else if is_swapk (gname g) then
    match gtargets g with
    | [x; y] => if ((a =? x) && (b =? y)) || ((a =? y) && (b =? x)) then (a, b, k + 1) else st
    | _ => st
    end
  else st.

Lemma tau_invol : forall p q x, tau p q (tau p q x) = x.
Proof.
  intros p q x. unfold tau.
  destruct (x =? p) eqn:E1.
  - apply Z.eqb_eq in E1. subst. destruct (q =? p) eqn:E2.
    + apply Z.eqb_eq in E2. auto.
    + rewrite Z.eqb_refl. reflexivity.
  - destruct (x =? q) eqn:E2.
    + rewrite Z.eqb_refl. apply Z.eqb_eq in E2. auto.
    + rewrite E1, E2. reflexivity.
Qed.

Lemma tau_eq_iff : forall p q x y, (tau p q x =? y) = (x =? tau p q y).
Proof.
  intros p q x y.
  destruct (x =? tau p q y) eqn:E.
  - apply Z.eqb_eq in E. subst x. rewrite tau_invol. apply Z.eqb_refl.
  - apply Z.eqb_neq. apply Z.eqb_neq in E. intro H. apply E. rewrite <- H. rewrite tau_invol. reflexivity.
Qed.

Lemma tau_conj : forall p q x y a,
  tau p q (tau x y (tau p q a)) = tau (tau p q x) (tau p q y) a.
Proof.
  intros p q x y a.
  assert (E : forall z, tau x y z = if z =? x then y else if z =? y then x else z) by reflexivity.
  rewrite E. rewrite !tau_eq_iff.
  assert (E2 : forall X Y, tau X Y a = if a =? X then Y else if a =? Y then X else a) by reflexivity.
  rewrite (E2 (tau p q x) (tau p q y)).
  destruct (a =? tau p q x); [reflexivity|].
  destruct (a =? tau p q y); [reflexivity|].
  apply tau_invol.
Qed.

Lemma tau_sym : forall x y a, tau x y a = tau y x a.
Proof.
  intros x y a. unfold tau.
  destruct (a =? x) eqn:E1; destruct (a =? y) eqn:E2; try reflexivity.
  apply Z.eqb_eq in E1. apply Z.eqb_eq in E2. congruence.
Qed.

Lemma tok_laws : sem_laws tok tact.
Proof.
  repeat split.
  - intros n Hn p q x y [[a b] k] Hpq Hxy.
    assert (Hs : String.eqb n "SWAP" = false).
    { destruct (String.eqb n "SWAP") eqn:E; [|reflexivity]. apply String.eqb_eq in E. subst n. discriminate. }
    unfold tact. cbn [gname gtargets gcontrols Cg SWAPg]. cbn [String.eqb Ascii.eqb Bool.eqb].
    rewrite Hs, Hn.
    rewrite !tau_eq_iff.
    destruct ((a =? tau p q x) && (b =? tau p q y)); rewrite ?tau_invol; reflexivity.
  - intros n a0 Hn p q x y [[a b] k] Hpq Hxy.
    unfold tact. cbn [gname gtargets gcontrols SWg SWAPg]. cbn [String.eqb Ascii.eqb Bool.eqb].
    destruct (String.eqb n "SWAP") eqn:Es.
    + rewrite !tau_conj. reflexivity.
    + rewrite (swapk_not_ctrl n Hn), Hn.
      rewrite !tau_eq_iff.
      destruct ((a =? tau p q x) && (b =? tau p q y) || (a =? tau p q y) && (b =? tau p q x));
        rewrite ?tau_invol; reflexivity.
  - intros n a0 x y [[a b] k] Hn.
    unfold tact. cbn [gname gtargets gcontrols SWg].
    destruct (String.eqb n "SWAP") eqn:Es.
    + rewrite (tau_sym x y a), (tau_sym x y b). reflexivity.
    + rewrite (swapk_not_ctrl n Hn), Hn.
      rewrite (orb_comm ((a =? x) && (b =? y))). reflexivity.
Qed.

(* ------------------------------------------------------------------------------------------ *)
(* refutations for the code of the unchanged tree (cfg orig)                                   *)
(* ------------------------------------------------------------------------------------------ *)

(* (a) circular, N = 7, CNOT control 0 target 4: the routed circuit is CNOT control 4 target 0.
   In the token instance of the laws the two differ on the state (0, 4, 0). *)
Lemma route_circular_sem_refuted :
  exists N g out,
    wf_handled g = true /\ in_rangeb N g = true /\
    route orig Circular N [g] = Some out /\
    track out = Some (Cg "CNOT" 4 0) /\ g = Cg "CNOT" 0 4 /\
    exists st, run tok tact out st <> tact g st.
Proof.
  exists 7, (Cg "CNOT" 0 4).
  eexists. split; [reflexivity|]. split; [reflexivity|].
  split; [vm_compute; reflexivity|].
  split; [vm_compute; reflexivity|]. split; [reflexivity|].
  exists (0, 4, 0). vm_compute. discriminate.
Qed.

(* (b) circular, N = 9, CNOT control 0 target 5: a SWAP on qubits [8, 9] is emitted *)
Lemma route_in_range_refuted :
  exists N g out,
    wf_handled g = true /\ in_rangeb N g = true /\
    route orig Circular N [g] = Some out /\
    forallb (in_rangeb N) out = false /\ In (SWAPg 8 9) out.
Proof.
  exists 9, (Cg "CNOT" 0 5).
  eexists. split; [reflexivity|]. split; [reflexivity|].
  split; [vm_compute; reflexivity|].
  split; [vm_compute; reflexivity|].
  right; left; reflexivity.
Qed.

(* (c) SWAPalpha: the routed gate has lost its arg_value (both routers, any topology) *)
Lemma route_swapalpha_arg_refuted :
  exists N g out out',
    wf_handled g = true /\ in_rangeb N g = true /\ garg g = Some 4 /\
    route orig Linear N [g] = Some out /\ adjacent_gates orig [g] = Some out' /\
    out = out' /\
    track out = Some (SWg "SWAPalpha" None 0 3) /\ g = SWg "SWAPalpha" (Some 4) 0 3.
Proof.
  exists 4, (SWg "SWAPalpha" (Some 4) 0 3).
  eexists. eexists. split; [reflexivity|]. split; [reflexivity|]. split; [reflexivity|].
  split; [vm_compute; reflexivity|]. split; [vm_compute; reflexivity|].
  split; [reflexivity|]. split; [vm_compute; reflexivity|]. reflexivity.
Qed.

(* (d) before C07-adjacent-gates-passthrough, adjacent_gates does not pass an unhandled gate
   through: it refuses the circuit *)
Lemma adjacent_gates_passthrough_refuted :
  exists gs, Forall (fun g => in_rangeb 2 g = true) gs /\
             forallb (fun g => negb (handledb g)) gs = true /\
             adjacent_gates orig gs = None /\ adjacent_gates stage2 gs = None /\
             adjacent_gates fixed gs = Some gs.
Proof.
  exists [mkGate "X" [0] [] None]. split; [repeat constructor|]. repeat split; reflexivity.
Qed.

(* (e) before C07-measurement-passthrough, to_chain_structure replaces a measurement by the gate
   add_gate builds around it *)
Lemma route_measurement_refuted :
  exists N ops out,
    Forall (op_ok N) ops /\
    route_ops stage2 Linear N ops = Some out /\ route_ops orig Linear N ops = Some out /\
    existsb is_meas ops = true /\ existsb is_meas out = false /\
    route_ops fixed Linear N ops =
      Some [OG (SWAPg 0 1); OG (Cg "CNOT" 1 2); OG (SWAPg 0 1); OM "M0" [0] (Some 0)].
Proof.
  exists 3, [OG (Cg "CNOT" 0 2); OM "M0" [0] (Some 0)]. eexists.
  split; [repeat constructor; right; split; reflexivity|].
  split; [vm_compute; reflexivity|]. repeat split; vm_compute; reflexivity.
Qed.

(* (f) before fixes/C07-alias-names the routers listed only `swap_gates_old`: a gate named "SWAPALPHA" (default name
   of an instance of class SWAPALPHA) or "iSWAP" (GATE_CLASS_MAP alias) was not recognised and stayed where it was.
   With the fix both names are routed like the others, and the emitted gate keeps the input's name. *)
Lemma route_alias_names :
  existsb (String.eqb "SWAPALPHA") swap_gates_old = false /\ existsb (String.eqb "iSWAP") swap_gates_old = false /\
  is_swapk "SWAPALPHA" = true /\ is_swapk "iSWAP" = true /\
  route fixed Linear 4 [SWg "SWAPALPHA" (Some 4) 0 3] =
    Some [SWAPg 0 1; SWAPg 2 3; SWg "SWAPALPHA" (Some 4) 1 2; SWAPg 2 3; SWAPg 0 1] /\
  adjacent_gates fixed [SWg "iSWAP" None 3 1] = Some [SWAPg 1 2; SWg "iSWAP" None 2 3; SWAPg 1 2] /\
  route fixed Circular 5 [SWg "iSWAP" None 4 0] = Some [SWg "iSWAP" None 4 0].
Proof. repeat split. Qed.

(* the fixed model on the same witnesses *)
Lemma fixed_on_witnesses :
  (exists out, route fixed Circular 7 [Cg "CNOT" 0 4] = Some out /\ track out = Some (Cg "CNOT" 0 4)) /\
  (exists out, route fixed Circular 9 [Cg "CNOT" 0 5] = Some out /\ forallb (in_rangeb 9) out = true /\
               forallb (adj2b Circular 9) out = true /\ track out = Some (Cg "CNOT" 0 5)) /\
  (exists out, route fixed Linear 4 [SWg "SWAPalpha" (Some 4) 0 3] = Some out /\
               track out = Some (SWg "SWAPalpha" (Some 4) 0 3)).
Proof.
  split; [|split]; eexists; repeat split; vm_compute; reflexivity.
Qed.

(* ------------------------------------------------------------------------------------------ *)
(* many operations: gates and measurements (fixed code)                                        *)
(* ------------------------------------------------------------------------------------------ *)
Section MainOps.
  Variable S : Type.
  Variable act : gate -> S -> S.
  Hypothesis laws : sem_laws S act.

  (* adjacent_gates on a circuit that mixes routed and other gates *)
  Lemma adjacent_gates_mixed : forall N gs,
    Forall (gate_ok N) gs ->
    exists outs, adjacent_gates fixed gs = Some (List.concat outs) /\
                 Forall2 (piece_ok S act Linear N) gs outs /\
                 forall st, run S act (List.concat outs) st = run S act gs st.
  Proof.
    intros. apply adjacent_gates_mixed_ok; auto; apply laws.
  Qed.

  (* the piece of the output that belongs to one input operation *)
  Definition op_piece_ok (tp : topo) (N : Z) (o : op) (out : list op) : Prop :=
    match o with
    | OM n t s => out = [OM n t s]
    | OG g => exists og, out = map OG og /\ piece_ok S act tp N g og
    end.

  Lemma route_ops_many : forall tp N ops,
    Forall (op_ok N) ops ->
    exists outs, route_ops fixed tp N ops = Some (List.concat outs) /\
                 Forall2 (op_piece_ok tp N) ops outs.
  Proof.
    intros tp N ops H. induction H as [|o ops Ho HF IH].
    - exists []. split; [reflexivity | constructor].
    - destruct IH as [outs [IH1 IH2]]. destruct o as [g|n t s].
      + cbn [op_ok] in Ho.
        destruct (route_many S act laws tp N [g]) as [og [E [P _]]]; [constructor; [exact Ho|constructor]|].
        inversion P as [|g' o1 gs' os' P1 P2]; subst. inversion P2; subst.
        cbn [route] in E. destruct (route1 fixed tp N g) as [o'|] eqn:R1; [|discriminate].
        cbn [obind option_map List.concat] in E. rewrite !app_nil_r in E. inversion E; subst o'.
        exists (map OG o1 :: outs). split.
        * cbn [route_ops]. rewrite R1. cbn [obind]. rewrite IH1. reflexivity.
        * constructor; [exists o1; split; [reflexivity | exact P1] | exact IH2].
      + cbn [op_ok] in Ho. exists ([OM n t s] :: outs). split.
        * rewrite route_ops_measurement_passthrough by (auto; reflexivity). rewrite IH1. reflexivity.
        * constructor; [reflexivity | exact IH2].
  Qed.
End MainOps.
