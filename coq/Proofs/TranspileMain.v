(* C13: the three passes of transpile keep the invariant of Proofs/TranspileRoute.v; hence the transpiled circuit holds
   native gates only, every gate on two or more qubits sits on a coupled pair, and resolvable circuits are not refused. *)
From Coq Require Import ZArith List String Bool Arith Lia.
From QV Require Import Found.Circ Model.ResolveTypes Gen.Decompose Gen.Gates Model.Resolve.
From QV Require Import Proofs.ResolveLemmas Proofs.ResolveChkDefs Proofs.ResolveSem.
From QV Require Import Model.TranspileTypes Gen.Devices Model.Transpile Proofs.TranspileShape Proofs.TranspileRoute.
From QV Require Model.Route Proofs.RouteLoop Proofs.RouteSem Proofs.RouteMain.
Import ListNotations.
Local Open Scope string_scope.
Local Open Scope nat_scope.

(* the shape of ModelProcessor.transpile the proofs are about (read off the source by the translator) *)
Lemma passes_fixed : transpile_passes = [PExpand; PTopology; PResolve]. Proof. reflexivity. Qed.
Lemma threshold_two : expand_threshold = 2. Proof. reflexivity. Qed.

Lemma transpile_unfold d N c :
  transpile d N c = rbind (rbind (run_pass d N PExpand c) (run_pass d N PTopology)) (run_pass d N PResolve).
Proof. unfold transpile, transpile_gen. rewrite passes_fixed. reflexivity. Qed.

Definition small_coupled (t : topo_kind) (N : nat) (g : mgate) : Prop := coupled_gate t N g = true.

Lemma coupled_gate_small t N g : nqubits g <= 1 -> coupled_gate t N g = true.
Proof.
  unfold nqubits, coupled_gate, qubits. rewrite <- app_length.
  destruct (gcontrols g ++ gtargets g)%list as [|a [|b l]]; cbn [List.length]; intros H; try reflexivity; lia.
Qed.

(* ---- pass 1: _decompose_multi_qubit_gates ----------------------------------------------------------------------------- *)
Section Passes.
Variable P : string -> Prop.
Variable l : list string.
Variable keep : string -> bool.
Hypothesis Hparse : parse_basis (BList l) = Ok (cfg_of l, keep).
Hypothesis Hvalid : valid_cfg (cfg_of l) = true.
Hypothesis Hdev : In (cfg_of l) dev_cfgs.
Hypothesis Hall : In (cfg_of l) all_cfgs.
Hypothesis HPswap : P "SWAP".
Let cf := cfg_of l.

Lemma resolve_one g : resolve (BList l) [g] = resolve_gate cf keep g.
Proof. rewrite resolve_unfold, Hparse. cbn [rbind fst snd]. apply rflat_single. Qed.

Lemma expand_gate_ok N g gs : wf_gate g -> P (gname g) -> in_range N g = true -> expand_gate (BList l) g = Ok gs ->
  Forall (midok P cf N) gs.
Proof.
  intros Hw HP Hr H. unfold expand_gate in H. destruct (big g) eqn:Eb.
  - rewrite resolve_one in H.
    pose proof (gate_in_basis cf keep g gs Hall Hvalid Hw H) as Hb. rewrite forallb_forall in Hb.
    pose proof (gate_shape cf keep g gs Hdev Hw H) as Hs. rewrite Forall_forall in Hs.
    apply Forall_forall. intros o Ho. destruct (Hs o Ho) as [Hi [Hnd [Hk _]]].
    repeat split; auto.
    + apply in_range_iff. apply in_range_iff in Hr. rewrite Forall_forall in *. intros q Hq. apply Hr. apply Hi. exact Hq.
  - injection H as <-. constructor; [|constructor].
    unfold big in Eb. rewrite threshold_two in Eb. apply Nat.ltb_ge in Eb.
    repeat split; auto.
    + destruct Hw as [nc [nt [np [_ [_ [_ [Hnd _]]]]]]]. exact Hnd.
    + apply wf_small_shape; assumption.
Qed.

Lemma expand_ok N c pre : Forall wf_gate c -> Forall (fun g => P (gname g)) c -> Forall (fun g => in_range N g = true) c ->
  expand (BList l) c = Ok pre -> Forall (midok P cf N) pre.
Proof.
  unfold expand. revert pre. induction c as [|g c IH]; intros pre Hw HP Hr H.
  - rewrite rflat_nil in H. injection H as <-. constructor.
  - apply rflat_ok_cons in H. destruct H as [x [y [Hx [Hy ->]]]].
    inversion Hw; subst. inversion HP; subst. inversion Hr; subst.
    apply Forall_app. split; [eapply expand_gate_ok; eauto|apply IH; auto].
Qed.

(* ---- pass 2: topology_map --------------------------------------------------------------------------------------------- *)
Lemma route1_unhandled tp N rg : Route.handledb rg = false -> Route.route1 Route.fixed tp N rg = Some [rg].
Proof.
  unfold Route.handledb. intros H. apply orb_false_iff in H. destruct H as [H1 H2].
  unfold Route.route1. rewrite H1, H2. reflexivity.
Qed.

Lemma pieces_ok tp N tbl : forall c k outs,
  (forall j g, nth_error c j = Some g -> nth_error tbl (k + j) = Some g) -> Forall (midok P cf N) c ->
  Forall2 (fun rg o => Route.route1 Route.fixed tp (Z.of_nat N) rg = Some o) (toRs k c) outs ->
  Forall (fun x => midok P cf N x /\ coupled_gate (tk tp) N x = true) (map (fromR tbl) (concat outs)).
Proof.
  induction c as [|g c IH]; intros k outs Htbl Hm H2; cbn [toRs] in H2.
  - inversion H2; subst. constructor.
  - inversion H2 as [|? o ? outs' Ho Hrest]; subst. inversion Hm as [|? ? Hg Hc]; subst.
    cbn [concat]. rewrite map_app. apply Forall_app. split.
    + assert (Hk : nth_error tbl k = Some g) by (rewrite <- (Nat.add_0_r k); apply Htbl; reflexivity).
      destruct (handled_name (gname g)) eqn:Eh.
      * eapply piece_midok; eauto.
      * rewrite route1_unhandled in Ho by (rewrite handled_toR; exact Eh). injection Ho as <-. cbn [map].
        unfold handled_name in Eh. apply orb_false_iff in Eh. destruct Eh as [E1 E2].
        rewrite (fromR_toR tbl k g Hk E1). constructor; [|constructor]. split; [exact Hg|].
        apply coupled_gate_small. destruct Hg as [_ [_ [Hks _]]]. apply kindshape_small; [exact Hks|].
        unfold handled_name. rewrite E1, E2. reflexivity.
    + apply (IH (S k) outs'); auto. intros j g' Hj. replace (S k + j) with (k + S j) by lia. apply Htbl. exact Hj.
Qed.

Lemma topo_ok tp N pre mid : Forall (midok P cf N) pre -> topo_pass tp N pre = Ok mid ->
  Forall (fun x => midok P cf N x /\ coupled_gate (tk tp) N x = true) mid.
Proof.
  intros Hm H. unfold topo_pass in H. destruct (Route.route Route.fixed tp (Z.of_nat N) (toRs 0 pre)) as [r|] eqn:E; [|discriminate].
  injection H as <-. destruct (route_pieces _ _ _ _ _ E) as [outs [-> H2]].
  apply (pieces_ok tp N pre pre 0 outs); auto.
Qed.

(* the topology map never fails on such a circuit *)
Lemma topo_succeeds tp N pre : Forall (midok P cf N) pre -> exists mid, topo_pass tp N pre = Ok mid.
Proof.
  intros Hm. unfold topo_pass.
  assert (L : RouteMain.sem_laws unit (fun _ s => s)) by (repeat split).
  assert (G : Forall (RouteSem.gate_ok (Z.of_nat N)) (toRs 0 pre)).
  { generalize 0 as k. induction Hm as [|g c Hg Hc IH]; intros k; cbn [toRs]; constructor; [|apply IH].
    unfold RouteSem.gate_ok. rewrite handled_toR. destruct (handled_name (gname g)) eqn:Eh; [right|left; reflexivity].
    exact (midok_handled P cf N k g Hg Eh). }
  destruct (RouteMain.route_many unit (fun _ s => s) L tp (Z.of_nat N) (toRs 0 pre) G) as [outs [E _]].
  rewrite E. eexists. reflexivity.
Qed.

(* ---- pass 3: resolve_gates(basis=native_gates) -------------------------------------------------------------------------- *)
Lemma emitted_coupled t N g o : coupled_gate t N g = true -> emitted_from g o -> coupled_gate t N o = true.
Proof.
  intros Hc [Hi [Hnd [Hk _]]].
  assert (Hlen : List.length (qubits o) <= 2) by (apply kindshape_len; exact Hk).
  unfold coupled_gate in *. destruct (qubits o) as [|x [|y [|z r]]] eqn:Eo; try reflexivity; [|cbn [List.length] in Hlen; lia].
  assert (Hx : In x (qubits g)) by (apply Hi; left; reflexivity).
  assert (Hy : In y (qubits g)) by (apply Hi; right; left; reflexivity).
  assert (Hxy : x <> y) by (inversion Hnd as [|? ? Hn _]; subst; intros ->; apply Hn; left; reflexivity).
  destruct (qubits g) as [|a [|b [|? ?]]]; try discriminate; cbn [In] in Hx, Hy.
  - destruct Hx.
  - destruct Hx as [<-|[]]. destruct Hy as [<-|[]]. contradiction.
  - destruct Hx as [<-|[<-|[]]]; destruct Hy as [<-|[<-|[]]]; try contradiction; [exact Hc|rewrite coupled_sym; exact Hc].
Qed.

Lemma emitted_in_range N g o : in_range N g = true -> emitted_from g o -> in_range N o = true.
Proof.
  intros Hr [Hi _]. apply in_range_iff. apply in_range_iff in Hr. rewrite Forall_forall in *. intros q Hq. apply Hr. apply Hi. exact Hq.
Qed.

Lemma final_gate_ok t N g gs : midok P cf N g -> coupled_gate t N g = true -> resolve_gate cf keep g = Ok gs ->
  Forall (fun o => in_basis cf o = true /\ coupled_gate t N o = true /\ in_range N o = true /\ NoDup (qubits o) /\ kindshape o = true) gs.
Proof.
  intros [Hr [Hnd [Hk Hor]]] Hc H. destruct Hor as [[Hw _]|Hb].
  - pose proof (gate_in_basis cf keep g gs Hall Hvalid Hw H) as Hb. rewrite forallb_forall in Hb.
    pose proof (gate_shape cf keep g gs Hdev Hw H) as Hs. rewrite Forall_forall in Hs.
    apply Forall_forall. intros o Ho. specialize (Hs o Ho). repeat split.
    + exact (Hb o Ho).
    + eapply emitted_coupled; eauto.
    + eapply emitted_in_range; eauto.
    + destruct Hs as [_ [H1 _]]. exact H1.
    + destruct Hs as [_ [_ [H1 _]]]. exact H1.
  - rewrite (resolve_native_id cf keep g Hdev Hb) in H. injection H as <-. constructor; [|constructor]. auto.
Qed.

Lemma final_ok t N mid out : Forall (fun x => midok P cf N x /\ coupled_gate t N x = true) mid -> resolve (BList l) mid = Ok out ->
  Forall (fun o => in_basis cf o = true /\ coupled_gate t N o = true /\ in_range N o = true /\ NoDup (qubits o) /\ kindshape o = true) out.
Proof.
  intros Hm H. rewrite resolve_unfold, Hparse in H. cbn [rbind fst snd] in H. fold cf in H.
  revert out H. induction Hm as [|g c [Hg Hc] Hrest IH]; intros out H.
  - rewrite rflat_nil in H. injection H as <-. constructor.
  - apply rflat_ok_cons in H. destruct H as [x [y [Hx [Hy ->]]]]. apply Forall_app. split; [eapply final_gate_ok; eauto|apply IH; exact Hy].
Qed.

Lemma final_succeeds t N mid : (forall n, P n -> sq_name cf n) ->
  Forall (fun x => midok P cf N x /\ coupled_gate t N x = true) mid -> exists out, resolve (BList l) mid = Ok out.
Proof.
  intros HPsq Hm. rewrite resolve_unfold, Hparse. cbn [rbind fst snd]. fold cf.
  induction Hm as [|g c [Hg Hc] Hrest IH]; [eexists; reflexivity|].
  destruct IH as [y Hy].
  assert (Hx : exists x, resolve_gate cf keep g = Ok x).
  { destruct Hg as [_ [_ [_ [[Hw HP]|Hb]]]].
    - apply gate_succeeds; auto. exact (HPsq _ HP).
    - eexists. apply resolve_native_id; assumption. }
  destruct Hx as [x Hx]. rewrite rflat_cons, Hx, Hy. eexists. reflexivity.
Qed.

Lemma expand_succeeds c : (forall n, P n -> sq_name cf n) -> Forall wf_gate c -> Forall (fun g => P (gname g)) c ->
  exists pre, expand (BList l) c = Ok pre.
Proof.
  intros HPsq Hw HP. unfold expand. induction c as [|g c IH]; [eexists; reflexivity|].
  inversion Hw; subst. inversion HP; subst. destruct IH as [y Hy]; auto.
  assert (Hx : exists x, expand_gate (BList l) g = Ok x).
  { unfold expand_gate. destruct (big g); [|eexists; reflexivity]. rewrite resolve_one. apply gate_succeeds; auto. apply HPsq. assumption. }
  destruct Hx as [x Hx]. rewrite rflat_cons, Hx, Hy. eexists. reflexivity.
Qed.
End Passes.

(* ---- the whole pipeline ------------------------------------------------------------------------------------------------- *)
Definition dtk (d : device) : topo_kind := dtopo d.

Lemma in_basis_native d lst g : dnative d = Some lst ->
  (forall n, mem n (c2q (cfg_of lst)) = true \/ mem n (crot (cfg_of lst)) = true -> mem n lst = true) ->
  in_basis (cfg_of lst) g = true -> native_gate d g = true.
Proof.
  intros El Hm Hb. unfold native_gate. rewrite El. unfold in_basis in Hb.
  apply orb_prop in Hb. destruct Hb as [Hb|Hb]; [apply orb_prop in Hb; destruct Hb as [Hb|Hb]; [apply orb_prop in Hb; destruct Hb as [Hb|Hb]|]|].
  - rewrite (Hm _ (or_introl Hb)). reflexivity.
  - rewrite (Hm _ (or_intror Hb)). reflexivity.
  - rewrite Hb. rewrite orb_true_r. reflexivity.
  - rewrite Hb. apply orb_true_r.
Qed.

(* what holds for every gate of a transpiled circuit *)
Definition out_ok (d : device) (N : nat) (o : mgate) : Prop :=
  native_gate d o = true /\ coupled_gate (dtopo d) N o = true /\ in_range N o = true /\ NoDup (qubits o) /\ kindshape o = true.

Lemma coupled_gate_none_of t N g : coupled_gate t N g = true -> coupled_gate TopoNone N g = true.
Proof.
  unfold coupled_gate. destruct (qubits g) as [|a [|b [|? ?]]]; auto. unfold coupled.
  intros H. apply andb_prop in H. destruct H as [H _]. rewrite H. reflexivity.
Qed.

Theorem transpile_structure (P : string -> Prop) d N c out : In d devices -> P "SWAP" ->
  Forall wf_gate c -> Forall (fun g => P (gname g)) c -> Forall (fun g => in_range N g = true) c ->
  transpile d N c = Ok out -> Forall (out_ok d N) out.
Proof.
  intros Hd HP Hw HPc Hr H. destruct (dev_facts d Hd) as [lst [keep [El [Hp [Hv [Hdv [Hal Hm]]]]]]].
  rewrite transpile_unfold in H. unfold run_pass in H. rewrite El in H.
  destruct (expand (BList lst) c) as [pre|] eqn:E1; [|discriminate]. cbn [rbind] in H.
  pose proof (expand_ok P lst keep Hp Hv Hdv Hal N c pre Hw HPc Hr E1) as Hpre.
  assert (Hmid : exists mid, (match dtopo d with TopoNone => Ok pre | TopoLinear => topo_pass Route.Linear N pre
                               | TopoCircular => topo_pass Route.Circular N pre end) = Ok mid /\
                 Forall (fun x => midok P (cfg_of lst) N x /\ coupled_gate (dtopo d) N x = true) mid).
  { destruct (dtopo d) eqn:Et.
    - exists pre. split; [reflexivity|]. eapply Forall_impl; [|exact Hpre]. intros g Hg. split; [exact Hg|].
      (* any pair couples through the cavity: distinct qubits inside the register *)
      destruct Hg as [Hrg [Hnd [Hk _]]]. apply in_range_iff in Hrg.
      assert (Hlen : List.length (qubits g) <= 2) by (apply kindshape_len; exact Hk).
      unfold coupled_gate. destruct (qubits g) as [|a [|b [|? ?]]]; try reflexivity; [|cbn [List.length] in Hlen; lia].
      inversion Hnd as [|? ? Hn _]; subst. inversion Hrg as [|? ? Ha Hr']; subst. inversion Hr' as [|? ? Hb _]; subst.
      unfold coupled. replace (a =? b) with false by (symmetry; apply Nat.eqb_neq; intros ->; apply Hn; left; reflexivity).
      replace (a <? N) with true by (symmetry; apply Nat.ltb_lt; exact Ha).
      replace (b <? N) with true by (symmetry; apply Nat.ltb_lt; exact Hb). reflexivity.
    - destruct (topo_pass Route.Linear N pre) as [mid|] eqn:E2.
      + exists mid. split; [reflexivity|]. exact (topo_ok P lst HP Route.Linear N pre mid Hpre E2).
      + cbn [rbind] in H. discriminate.
    - destruct (topo_pass Route.Circular N pre) as [mid|] eqn:E2.
      + exists mid. split; [reflexivity|]. exact (topo_ok P lst HP Route.Circular N pre mid Hpre E2).
      + cbn [rbind] in H. discriminate. }
  destruct Hmid as [mid [E2 Hmid]]. rewrite E2 in H. cbn [rbind] in H.
  pose proof (final_ok P lst keep Hp Hv Hdv Hal (dtopo d) N mid out Hmid H) as Ho.
  eapply Forall_impl; [|exact Ho]. intros o [H1 H2]. split; [|exact H2].
  eapply in_basis_native; eauto.
Qed.

Theorem transpile_succeeds_proof d N c : In d devices ->
  Forall wf_gate c -> Forall (fun g => in_range N g = true) c ->
  (forall lst, dnative d = Some lst -> Forall (fun g => sq_name (cfg_of lst) (gname g)) c) ->
  exists out, transpile d N c = Ok out.
Proof.
  intros Hd Hw Hr Hsq. destruct (dev_facts d Hd) as [lst [keep [El [Hp [Hv [Hdv [Hal Hm]]]]]]].
  specialize (Hsq lst El). set (P := sq_name (cfg_of lst)).
  assert (HP : P "SWAP") by (intros [E|E]; discriminate).
  assert (HPsq : forall n, P n -> sq_name (cfg_of lst) n) by (intros n H; exact H).
  rewrite transpile_unfold. unfold run_pass. rewrite El.
  destruct (expand_succeeds P lst keep Hp Hv Hal c HPsq Hw Hsq) as [pre E1]. rewrite E1. cbn [rbind].
  pose proof (expand_ok P lst keep Hp Hv Hdv Hal N c pre Hw Hsq Hr E1) as Hpre.
  destruct (dtopo d) eqn:Et.
  - assert (Hc : Forall (fun x => midok P (cfg_of lst) N x /\ coupled_gate TopoNone N x = true) pre).
    { (* reuse the argument of transpile_structure through a trivial topology: coupled_gate is not needed for success *)
      eapply Forall_impl; [|exact Hpre]. intros g Hg. split; [exact Hg|].
      destruct Hg as [Hrg [Hnd [Hk _]]]. apply in_range_iff in Hrg.
      assert (Hlen : List.length (qubits g) <= 2) by (apply kindshape_len; exact Hk).
      unfold coupled_gate. destruct (qubits g) as [|a [|b [|? ?]]]; try reflexivity; [|cbn [List.length] in Hlen; lia].
      inversion Hnd as [|? ? Hn _]; subst. inversion Hrg as [|? ? Ha Hr']; subst. inversion Hr' as [|? ? Hb _]; subst.
      unfold coupled. replace (a =? b) with false by (symmetry; apply Nat.eqb_neq; intros ->; apply Hn; left; reflexivity).
      replace (a <? N) with true by (symmetry; apply Nat.ltb_lt; exact Ha).
      replace (b <? N) with true by (symmetry; apply Nat.ltb_lt; exact Hb). reflexivity. }
    exact (final_succeeds P lst keep Hp Hv Hdv Hal TopoNone N pre HPsq Hc).
  - destruct (topo_succeeds P lst Route.Linear N pre Hpre) as [mid E2]. rewrite E2. cbn [rbind].
    exact (final_succeeds P lst keep Hp Hv Hdv Hal _ N mid HPsq (topo_ok P lst HP Route.Linear N pre mid Hpre E2)).
  - destruct (topo_succeeds P lst Route.Circular N pre Hpre) as [mid E2]. rewrite E2. cbn [rbind].
    exact (final_succeeds P lst keep Hp Hv Hdv Hal _ N mid HPsq (topo_ok P lst HP Route.Circular N pre mid Hpre E2)).
Qed.
