(* C13: the three passes of transpile keep the invariant of Proofs/TranspileRoute.v; hence the transpiled circuit holds
   native gates only, every gate on two or more qubits sits on a coupled pair, and resolvable circuits are not refused. *)
From Coq Require Import ZArith List String Bool Arith Lia.
From QV Require Import Found.Circ Model.ResolveTypes Gen.Decompose Gen.Gates Model.Resolve.
From QV Require Import Proofs.ResolveLemmas Proofs.ResolveChkDefs Proofs.ResolveSem.
From QV Require Import Model.TranspileTypes Gen.Devices Model.Transpile Proofs.TranspileShape Proofs.TranspileRoute.
From QV Require Model.Route Proofs.RouteLoop Proofs.RouteSem Proofs.RouteMain.
Import ListNotations.
Local Open Scope string_scope.
Local Open Scope nat_scope.

(* the shape of ModelProcessor.transpile the proofs are about (read off the source by the translator) *)
Lemma passes_fixed : transpile_passes = [PWidth; PExpand; PTopology; PResolve]. Proof. reflexivity. Qed.
Lemma threshold_two : expand_threshold = 2. Proof. reflexivity. Qed.

Lemma transpile_unfold d Ndev M c :
  transpile_on d Ndev M c =
  rbind (rbind (rbind (run_pass d Ndev M PWidth c) (run_pass d Ndev M PExpand)) (run_pass d Ndev M PTopology)) (run_pass d Ndev M PResolve).
Proof. unfold transpile_on, transpile_gen. rewrite passes_fixed. reflexivity. Qed.

Definition small_coupled (t : topo_kind) (N : nat) (g : mgate) : Prop := coupled_gate t N g = true.

Lemma coupled_gate_small t N g : nqubits g <= 1 -> coupled_gate t N g = true.
Proof.
  unfold nqubits, coupled_gate, qubits. rewrite <- app_length.
  destruct (gcontrols g ++ gtargets g)%list as [|a [|b l]]; cbn [List.length]; intros H; try reflexivity; lia.
Qed.

(* ---- pass 1: _decompose_multi_qubit_gates ----------------------------------------------------------------------------- *)
Section Passes.
Variable P : string -> Prop.
Variable l : list string.
Variable keep : string -> bool.
Hypothesis Hparse : parse_basis (BList l) = Ok (cfg_of l, keep).
Hypothesis Hvalid : valid_cfg (cfg_of l) = true.
Hypothesis Hdev : In (cfg_of l) dev_cfgs.
Hypothesis Hall : In (cfg_of l) all_cfgs.
Hypothesis HPswap : P "SWAP".
Let cf := cfg_of l.

Lemma resolve_one g : resolve (BList l) [g] = resolve_gate cf keep g.
Proof. rewrite resolve_unfold, Hparse. cbn [rbind fst snd]. apply rflat_single. Qed.

Lemma expand_gate_ok N g gs : wf_gate g -> P (gname g) -> in_range N g = true -> expand_gate (BList l) g = Ok gs ->
  Forall (midok P cf N) gs.
Proof.
  intros Hw HP Hr H. unfold expand_gate in H. destruct (big g) eqn:Eb.
  - rewrite resolve_one in H.
    pose proof (gate_in_basis cf keep g gs Hall Hvalid Hw H) as Hb. rewrite forallb_forall in Hb.
    pose proof (gate_shape cf keep g gs Hdev Hw H) as Hs. rewrite Forall_forall in Hs.
    apply Forall_forall. intros o Ho. destruct (Hs o Ho) as [Hi [Hnd [Hk _]]].
    repeat split; auto.
    + apply in_range_iff. apply in_range_iff in Hr. rewrite Forall_forall in *. intros q Hq. apply Hr. apply Hi. exact Hq.
  - injection H as <-. constructor; [|constructor].
    unfold big in Eb. rewrite threshold_two in Eb. apply Nat.ltb_ge in Eb.
    repeat split; auto.
    + destruct Hw as [nc [nt [np [_ [_ [_ [Hnd _]]]]]]]. exact Hnd.
    + apply wf_small_shape; assumption.
Qed.

Lemma expand_ok N c pre : Forall wf_gate c -> Forall (fun g => P (gname g)) c -> Forall (fun g => in_range N g = true) c ->
  expand (BList l) c = Ok pre -> Forall (midok P cf N) pre.
Proof.
  unfold expand. revert pre. induction c as [|g c IH]; intros pre Hw HP Hr H.
  - rewrite rflat_nil in H. injection H as <-. constructor.
  - apply rflat_ok_cons in H. destruct H as [x [y [Hx [Hy ->]]]].
    inversion Hw; subst. inversion HP; subst. inversion Hr; subst.
    apply Forall_app. split; [eapply expand_gate_ok; eauto|apply IH; auto].
Qed.

(* ---- pass 2: topology_map --------------------------------------------------------------------------------------------- *)
Lemma route1_unhandled tp N rg : Route.handledb rg = false -> Route.route1 Route.fixed tp N rg = Some [rg].
Proof.
  unfold Route.handledb. intros H. apply orb_false_iff in H. destruct H as [H1 H2].
  unfold Route.route1. rewrite H1, H2. reflexivity.
Qed.

Lemma pieces_ok tp N tbl : forall c k outs,
  (forall j g, nth_error c j = Some g -> nth_error tbl (k + j) = Some g) -> Forall (midok P cf N) c ->
  Forall2 (fun rg o => Route.route1 Route.fixed tp (Z.of_nat N) rg = Some o) (toRs k c) outs ->
  Forall (fun x => midok P cf N x /\ coupled_gate (tk tp) N x = true) (map (fromR tbl) (concat outs)).
Proof.
  induction c as [|g c IH]; intros k outs Htbl Hm H2; cbn [toRs] in H2.
  - inversion H2; subst. constructor.
  - inversion H2 as [|? o ? outs' Ho Hrest]; subst. inversion Hm as [|? ? Hg Hc]; subst.
    cbn [concat]. rewrite map_app. apply Forall_app. split.
    + assert (Hk : nth_error tbl k = Some g) by (rewrite <- (Nat.add_0_r k); apply Htbl; reflexivity).
      destruct (handled_name (gname g)) eqn:Eh.
      * eapply piece_midok; eauto.
      * rewrite route1_unhandled in Ho by (rewrite handled_toR; exact Eh). injection Ho as <-. cbn [map].
        unfold handled_name in Eh. apply orb_false_iff in Eh. destruct Eh as [E1 E2].
        rewrite (fromR_toR tbl k g Hk E1). constructor; [|constructor]. split; [exact Hg|].
        apply coupled_gate_small. destruct Hg as [_ [_ [Hks _]]]. apply kindshape_small; [exact Hks|].
        unfold handled_name. rewrite E1, E2. reflexivity.
    + apply (IH (S k) outs'); auto. intros j g' Hj. replace (S k + j) with (k + S j) by lia. apply Htbl. exact Hj.
Qed.

Lemma topo_ok tp N pre mid : Forall (midok P cf N) pre -> topo_pass tp N pre = Ok mid ->
  Forall (fun x => midok P cf N x /\ coupled_gate (tk tp) N x = true) mid.
Proof.
  intros Hm H. unfold topo_pass in H. destruct (Route.route Route.fixed tp (Z.of_nat N) (toRs 0 pre)) as [r|] eqn:E; [|discriminate].
  injection H as <-. destruct (route_pieces _ _ _ _ _ E) as [outs [-> H2]].
  apply (pieces_ok tp N pre pre 0 outs); auto.
Qed.

(* the topology map never fails on such a circuit *)
Lemma topo_succeeds tp N pre : Forall (midok P cf N) pre -> exists mid, topo_pass tp N pre = Ok mid.
Proof.
  intros Hm. unfold topo_pass.
  assert (L : RouteMain.sem_laws unit (fun _ s => s)) by (repeat split).
  assert (G : Forall (RouteSem.gate_ok (Z.of_nat N)) (toRs 0 pre)).
  { generalize 0 as k. induction Hm as [|g c Hg Hc IH]; intros k; cbn [toRs]; constructor; [|apply IH].
    unfold RouteSem.gate_ok. rewrite handled_toR. destruct (handled_name (gname g)) eqn:Eh; [right|left; reflexivity].
    exact (midok_handled P cf N k g Hg Eh). }
  destruct (RouteMain.route_many unit (fun _ s => s) L tp (Z.of_nat N) (toRs 0 pre) G) as [outs [E _]].
  rewrite E. eexists. reflexivity.
Qed.

(* ---- pass 3: resolve_gates(basis=native_gates) -------------------------------------------------------------------------- *)
Lemma emitted_coupled t N g o : coupled_gate t N g = true -> emitted_from g o -> coupled_gate t N o = true.
Proof.
  intros Hc [Hi [Hnd [Hk _]]].
  assert (Hlen : List.length (qubits o) <= 2) by (apply kindshape_len; exact Hk).
  unfold coupled_gate in *. destruct (qubits o) as [|x [|y [|z r]]] eqn:Eo; try reflexivity; [|cbn [List.length] in Hlen; lia].
  assert (Hx : In x (qubits g)) by (apply Hi; left; reflexivity).
  assert (Hy : In y (qubits g)) by (apply Hi; right; left; reflexivity).
  assert (Hxy : x <> y) by (inversion Hnd as [|? ? Hn _]; subst; intros ->; apply Hn; left; reflexivity).
  destruct (qubits g) as [|a [|b [|? ?]]]; try discriminate; cbn [In] in Hx, Hy.
  - destruct Hx.
  - destruct Hx as [<-|[]]. destruct Hy as [<-|[]]. contradiction.
  - destruct Hx as [<-|[<-|[]]]; destruct Hy as [<-|[<-|[]]]; try contradiction; [exact Hc|rewrite coupled_sym; exact Hc].
Qed.

Lemma emitted_in_range N g o : in_range N g = true -> emitted_from g o -> in_range N o = true.
Proof.
  intros Hr [Hi _]. apply in_range_iff. apply in_range_iff in Hr. rewrite Forall_forall in *. intros q Hq. apply Hr. apply Hi. exact Hq.
Qed.

Lemma final_gate_ok t N g gs : midok P cf N g -> coupled_gate t N g = true -> resolve_gate cf keep g = Ok gs ->
  Forall (fun o => in_basis cf o = true /\ coupled_gate t N o = true /\ in_range N o = true /\ NoDup (qubits o) /\ kindshape o = true) gs.
Proof.
  intros [Hr [Hnd [Hk Hor]]] Hc H. destruct Hor as [[Hw _]|Hb].
  - pose proof (gate_in_basis cf keep g gs Hall Hvalid Hw H) as Hb. rewrite forallb_forall in Hb.
    pose proof (gate_shape cf keep g gs Hdev Hw H) as Hs. rewrite Forall_forall in Hs.
    apply Forall_forall. intros o Ho. specialize (Hs o Ho). repeat split.
    + exact (Hb o Ho).
    + eapply emitted_coupled; eauto.
    + eapply emitted_in_range; eauto.
    + destruct Hs as [_ [H1 _]]. exact H1.
    + destruct Hs as [_ [_ [H1 _]]]. exact H1.
  - rewrite (resolve_native_id cf keep g Hdev Hb) in H. injection H as <-. constructor; [|constructor]. auto.
Qed.

Lemma final_ok t N mid out : Forall (fun x => midok P cf N x /\ coupled_gate t N x = true) mid -> resolve (BList l) mid = Ok out ->
  Forall (fun o => in_basis cf o = true /\ coupled_gate t N o = true /\ in_range N o = true /\ NoDup (qubits o) /\ kindshape o = true) out.
Proof.
  intros Hm H. rewrite resolve_unfold, Hparse in H. cbn [rbind fst snd] in H. fold cf in H.
  revert out H. induction Hm as [|g c [Hg Hc] Hrest IH]; intros out H.
  - rewrite rflat_nil in H. injection H as <-. constructor.
  - apply rflat_ok_cons in H. destruct H as [x [y [Hx [Hy ->]]]]. apply Forall_app. split; [eapply final_gate_ok; eauto|apply IH; exact Hy].
Qed.

Lemma final_succeeds t N mid : (forall n, P n -> sq_name cf n) ->
  Forall (fun x => midok P cf N x /\ coupled_gate t N x = true) mid -> exists out, resolve (BList l) mid = Ok out.
Proof.
  intros HPsq Hm. rewrite resolve_unfold, Hparse. cbn [rbind fst snd]. fold cf.
  induction Hm as [|g c [Hg Hc] Hrest IH]; [eexists; reflexivity|].
  destruct IH as [y Hy].
  assert (Hx : exists x, resolve_gate cf keep g = Ok x).
  { destruct Hg as [_ [_ [_ [[Hw HP]|Hb]]]].
    - apply gate_succeeds; auto. exact (HPsq _ HP).
    - eexists. apply resolve_native_id; assumption. }
  destruct Hx as [x Hx]. rewrite rflat_cons, Hx, Hy. eexists. reflexivity.
Qed.

Lemma expand_succeeds c : (forall n, P n -> sq_name cf n) -> Forall wf_gate c -> Forall (fun g => P (gname g)) c ->
  exists pre, expand (BList l) c = Ok pre.
Proof.
  intros HPsq Hw HP. unfold expand. induction c as [|g c IH]; [eexists; reflexivity|].
  inversion Hw; subst. inversion HP; subst. destruct IH as [y Hy]; auto.
  assert (Hx : exists x, expand_gate (BList l) g = Ok x).
  { unfold expand_gate. destruct (big g); [|eexists; reflexivity]. rewrite resolve_one. apply gate_succeeds; auto. apply HPsq. assumption. }
  destruct Hx as [x Hx]. rewrite rflat_cons, Hx, Hy. eexists. reflexivity.
Qed.
End Passes.

(* ---- the whole pipeline ------------------------------------------------------------------------------------------------- *)
Lemma in_basis_native d lst g : dnative d = Some lst ->
  (forall n, mem n (c2q (cfg_of lst)) = true \/ mem n (crot (cfg_of lst)) = true -> mem n lst = true) ->
  in_basis (cfg_of lst) g = true -> native_gate d g = true.
Proof.
  intros El Hm Hb. unfold native_gate. rewrite El. unfold in_basis in Hb.
  apply orb_prop in Hb. destruct Hb as [Hb|Hb]; [apply orb_prop in Hb; destruct Hb as [Hb|Hb]; [apply orb_prop in Hb; destruct Hb as [Hb|Hb]|]|].
  - rewrite (Hm _ (or_introl Hb)). reflexivity.
  - rewrite (Hm _ (or_intror Hb)). reflexivity.
  - rewrite Hb. rewrite orb_true_r. reflexivity.
  - rewrite Hb. apply orb_true_r.
Qed.

(* ---- the device table: narrower circuits and refused gates ------------------------------------------------------------ *)
Definition topo_eqb (a b : topo_kind) : bool :=
  match a, b with TopoNone, TopoNone | TopoLinear, TopoLinear | TopoCircular, TopoCircular => true | _, _ => false end.
Definition narrow_kind (d : device) : topo_kind := match dnarrow d with Some t => t | None => dtopo d end.
(* - a processor without topology map has no special cases;
   - a circuit narrower than the processor is routed as an open chain, or as usual when the hardware is not a ring
     (on a ring the wrap-around pair of the NARROWER circuit is not a pair of the hardware);
   - the gates the topology map refuses are none of the resolvable kinds, native two-qubit gates, rotations or markers *)
Definition table_ok (d : device) : bool :=
  match dtopo d with
  | TopoNone => match dnarrow d with None => true | Some _ => false end && match dunrouted d with [] => true | _ => false end
  | _ => true
  end &&
  (topo_eqb (narrow_kind d) TopoLinear || (topo_eqb (narrow_kind d) (dtopo d) && negb (topo_eqb (dtopo d) TopoCircular))) &&
  forallb (fun n => negb (mem n (map fst kinds ++ basis_2q_valid ++ rot_names ++ ["GLOBALPHASE"; "IDLE"]))) (dunrouted d).
Lemma tables_ok : forallb table_ok devices = true. Proof. vm_compute. reflexivity. Qed.

Lemma table_facts d : In d devices -> table_ok d = true.
Proof. intros Hd. pose proof tables_ok as K. rewrite forallb_forall in K. exact (K d Hd). Qed.

Lemma coupled_linear_any t M Ndev a b : M <= Ndev -> coupled TopoLinear M a b = true -> coupled t Ndev a b = true.
Proof.
  intros HM H. unfold coupled in *. apply andb_prop in H. destruct H as [H H4]. apply andb_prop in H. destruct H as [H H3].
  apply andb_prop in H. destruct H as [H1 H2]. apply Nat.ltb_lt in H2. apply Nat.ltb_lt in H3. rewrite H1.
  replace (a <? Ndev) with true by (symmetry; apply Nat.ltb_lt; lia).
  replace (b <? Ndev) with true by (symmetry; apply Nat.ltb_lt; lia). cbn [andb].
  destruct t; [reflexivity|exact H4|].
  apply orb_prop in H4. apply orb_true_iff. destruct H4 as [E|E]; apply Nat.eqb_eq in E; [left|right]; apply Nat.eqb_eq;
    rewrite Nat.mod_small; lia.
Qed.
Lemma coupled_none_wider M Ndev a b : M <= Ndev -> coupled TopoNone M a b = true -> coupled TopoNone Ndev a b = true.
Proof.
  intros HM H. unfold coupled in *. apply andb_prop in H. destruct H as [H _]. apply andb_prop in H. destruct H as [H H3].
  apply andb_prop in H. destruct H as [H1 H2]. apply Nat.ltb_lt in H2. apply Nat.ltb_lt in H3. rewrite H1.
  replace (a <? Ndev) with true by (symmetry; apply Nat.ltb_lt; lia).
  replace (b <? Ndev) with true by (symmetry; apply Nat.ltb_lt; lia). reflexivity.
Qed.

(* what the circuit is routed on is sound for the hardware: a pair coupled in the routing topology on the circuit's width is
   a pair the processor of Ndev >= M qubits couples *)
Lemma route_kind_sound d Ndev M g : In d devices -> M <= Ndev ->
  coupled_gate (route_kind d Ndev M) M g = true -> coupled_gate (dtopo d) Ndev g = true.
Proof.
  intros Hd HM H. pose proof (table_facts d Hd) as T. unfold table_ok in T.
  apply andb_prop in T. destruct T as [T _]. apply andb_prop in T. destruct T as [_ T].
  unfold coupled_gate in *. destruct (qubits g) as [|a [|b [|? ?]]]; try reflexivity; try discriminate.
  unfold route_kind in H. destruct (Nat.ltb M Ndev) eqn:E.
  - fold (narrow_kind d) in H. apply orb_prop in T. destruct T as [T|T].
    + destruct (narrow_kind d); try discriminate. eapply coupled_linear_any; eauto.
    + apply andb_prop in T. destruct T as [T1 T2]. destruct (narrow_kind d), (dtopo d); try discriminate.
      * eapply coupled_none_wider; eauto.
      * eapply coupled_linear_any; eauto.
  - apply Nat.ltb_ge in E. assert (M = Ndev) by lia. subst. exact H.
Qed.

Section Pipeline.
Variable P : string -> Prop.
Hypothesis HP : P "SWAP".
Variable d : device.
Hypothesis Hd : In d devices.
Variable lst : list string.
Variable keep : string -> bool.
Hypothesis El : dnative d = Some lst.
Hypothesis Hp : parse_basis (BList lst) = Ok (cfg_of lst, keep).
Hypothesis Hv : valid_cfg (cfg_of lst) = true.
Hypothesis Hdv : In (cfg_of lst) dev_cfgs.
Hypothesis Hal : In (cfg_of lst) all_cfgs.
Let cf := cfg_of lst.

Lemma cavity_coupled N g : midok P cf N g -> coupled_gate TopoNone N g = true.
Proof.
  (* any pair couples through the cavity: distinct qubits inside the register *)
  intros [Hrg [Hnd [Hk _]]]. apply in_range_iff in Hrg.
  assert (Hlen : List.length (qubits g) <= 2) by (apply kindshape_len; exact Hk).
  unfold coupled_gate. destruct (qubits g) as [|a [|b [|? ?]]]; try reflexivity; [|cbn [List.length] in Hlen; lia].
  inversion Hnd as [|? ? Hn _]; subst. inversion Hrg as [|? ? Ha Hr']; subst. inversion Hr' as [|? ? Hb _]; subst.
  unfold coupled. replace (a =? b) with false by (symmetry; apply Nat.eqb_neq; intros ->; apply Hn; left; reflexivity).
  replace (a <? N) with true by (symmetry; apply Nat.ltb_lt; exact Ha).
  replace (b <? N) with true by (symmetry; apply Nat.ltb_lt; exact Hb). reflexivity.
Qed.

(* no gate between the passes is one of the gates the topology map refuses *)
Lemma midok_not_unrouted N g : midok P cf N g -> mem (gname g) (dunrouted d) = false.
Proof.
  intros [_ [_ [_ Hor]]]. destruct (mem (gname g) (dunrouted d)) eqn:E; [|reflexivity]. exfalso.
  pose proof (table_facts d Hd) as T. unfold table_ok in T. apply andb_prop in T. destruct T as [_ T].
  rewrite forallb_forall in T. apply mem_in in E. specialize (T _ E). apply negb_true_iff in T.
  assert (X : mem (gname g) (map fst kinds ++ basis_2q_valid ++ rot_names ++ ["GLOBALPHASE"; "IDLE"]) = true).
  { apply mem_in. destruct Hor as [[Hw _]|Hb].
    - destruct Hw as [nc [nt [np [Hk _]]]]. apply in_or_app. left. apply in_map_iff. exists (gname g, (nc, nt, np)). auto.
    - apply in_or_app. right. unfold in_basis in Hb.
      apply orb_prop in Hb. destruct Hb as [Hb|Hb]; [apply orb_prop in Hb; destruct Hb as [Hb|Hb]; [apply orb_prop in Hb; destruct Hb as [Hb|Hb]|]|].
      + apply in_or_app. left. apply mem_in in Hb. fold cf in Hb.
        assert (Hc : c2q (cfg_of lst) = filter (fun n => mem n (filter (fun g0 => mem g0 basis_2q_valid) lst)) basis_2q_valid).
        { clear -Hp. unfold cfg_of. cbn [parse_basis parse_basis_gen] in *. unfold parse_basis, parse_basis_gen in *.
          destruct (Nat.eqb _ 1); [discriminate|]. reflexivity. }
        unfold cf in Hb. rewrite Hc in Hb. apply filter_In in Hb. tauto.
      + apply in_or_app. right. apply in_or_app. left. apply mem_in in Hb. fold cf in Hb.
        assert (Hc : exists r1 r2, crot (cfg_of lst) = filter (fun n => mem n r1) rot_names /\ r2 = r1).
        { clear -Hp. unfold cfg_of, parse_basis, parse_basis_gen in *.
          destruct (Nat.eqb _ 1); [discriminate|]. eexists. eexists. split; reflexivity. }
        destruct Hc as [r1 [_ [Hc _]]]. unfold cf in Hb. rewrite Hc in Hb. apply filter_In in Hb. tauto.
      + apply in_or_app. right. apply in_or_app. right. left. symmetry. apply String.eqb_eq. exact Hb.
      + apply in_or_app. right. apply in_or_app. right. right. left. symmetry. apply String.eqb_eq. exact Hb. }
  rewrite X in T. discriminate.
Qed.

Lemma unrouted_pass N pre : Forall (midok P cf N) pre -> unrouted_ok d pre = true.
Proof.
  intros H. unfold unrouted_ok. apply forallb_forall. intros g Hg. rewrite Forall_forall in H.
  rewrite (midok_not_unrouted N g (H g Hg)). reflexivity.
Qed.

(* the topology statement of transpile: never fails on such a circuit, keeps the invariant, and leaves every gate on two
   or more qubits on a pair coupled in the topology the circuit was routed on *)
Lemma topology_step Ndev M pre : Forall (midok P cf M) pre ->
  exists mid, run_pass d Ndev M PTopology pre = Ok mid /\
              Forall (fun x => midok P cf M x /\ coupled_gate (route_kind d Ndev M) M x = true) mid.
Proof.
  intros Hpre. pose proof (table_facts d Hd) as T. unfold table_ok in T.
  apply andb_prop in T. destruct T as [T _]. apply andb_prop in T. destruct T as [T0 _].
  assert (Hcav : forall t, t = TopoNone -> Forall (fun x => midok P cf M x /\ coupled_gate t M x = true) pre).
  { intros t ->. eapply Forall_impl; [|exact Hpre]. intros g Hg. split; [exact Hg|exact (cavity_coupled M g Hg)]. }
  unfold run_pass. destruct (dtopo d) eqn:Et.
  - exists pre. split; [reflexivity|]. apply Hcav. unfold route_kind. rewrite Et.
    apply andb_prop in T0. destruct T0 as [T0 _]. destruct (dnarrow d); [discriminate|]. destruct (Nat.ltb M Ndev); reflexivity.
  - rewrite (unrouted_pass M pre Hpre). destruct (route_kind d Ndev M) eqn:Ek.
    + exists pre. split; [reflexivity|]. apply Hcav. reflexivity.
    + destruct (topo_succeeds P lst Route.Linear M pre Hpre) as [mid E2]. exists mid. split; [exact E2|].
      exact (topo_ok P lst HP Route.Linear M pre mid Hpre E2).
    + destruct (topo_succeeds P lst Route.Circular M pre Hpre) as [mid E2]. exists mid. split; [exact E2|].
      exact (topo_ok P lst HP Route.Circular M pre mid Hpre E2).
  - rewrite (unrouted_pass M pre Hpre). destruct (route_kind d Ndev M) eqn:Ek.
    + exists pre. split; [reflexivity|]. apply Hcav. reflexivity.
    + destruct (topo_succeeds P lst Route.Linear M pre Hpre) as [mid E2]. exists mid. split; [exact E2|].
      exact (topo_ok P lst HP Route.Linear M pre mid Hpre E2).
    + destruct (topo_succeeds P lst Route.Circular M pre Hpre) as [mid E2]. exists mid. split; [exact E2|].
      exact (topo_ok P lst HP Route.Circular M pre mid Hpre E2).
Qed.
End Pipeline.

Lemma pass_width d Ndev M c : run_pass d Ndev M PWidth c = if Nat.ltb Ndev M then Error else Ok c.
Proof. reflexivity. Qed.
Lemma pass_expand d Ndev M lst : dnative d = Some lst -> forall c, run_pass d Ndev M PExpand c = expand (BList lst) c.
Proof. intros El c. unfold run_pass. rewrite El. reflexivity. Qed.
Lemma pass_resolve d Ndev M lst : dnative d = Some lst -> forall c, run_pass d Ndev M PResolve c = resolve (BList lst) c.
Proof. intros El c. unfold run_pass. rewrite El. reflexivity. Qed.

(* what holds for every gate of a transpiled circuit: native, coupled on the hardware of Ndev qubits, inside the circuit *)
Definition out_ok (d : device) (Ndev M : nat) (o : mgate) : Prop :=
  native_gate d o = true /\ coupled_gate (dtopo d) Ndev o = true /\ in_range M o = true /\ NoDup (qubits o) /\ kindshape o = true.

Theorem transpile_structure (P : string -> Prop) d Ndev M c out : In d devices -> P "SWAP" ->
  Forall wf_gate c -> Forall (fun g => P (gname g)) c -> Forall (fun g => in_range M g = true) c ->
  transpile_on d Ndev M c = Ok out -> M <= Ndev /\ Forall (out_ok d Ndev M) out.
Proof.
  intros Hd HP Hw HPc Hr H. destruct (dev_facts d Hd) as [lst [keep [El [Hp [Hv [Hdv [Hal Hm]]]]]]].
  rewrite transpile_unfold, pass_width in H.
  destruct (Nat.ltb Ndev M) eqn:EW; [discriminate|]. apply Nat.ltb_ge in EW. split; [exact EW|].
  cbn [rbind] in H. rewrite (pass_expand d Ndev M lst El) in H.
  destruct (expand (BList lst) c) as [pre|] eqn:E1; [|discriminate]. cbn [rbind] in H.
  pose proof (expand_ok P lst keep Hp Hv Hdv Hal M c pre Hw HPc Hr E1) as Hpre.
  destruct (topology_step P HP d Hd lst keep Hp Ndev M pre Hpre) as [mid [E2 Hmid]].
  rewrite E2 in H. cbn [rbind] in H. rewrite (pass_resolve d Ndev M lst El) in H.
  pose proof (final_ok P lst keep Hp Hv Hdv Hal (route_kind d Ndev M) M mid out Hmid H) as Ho.
  eapply Forall_impl; [|exact Ho]. intros o [H1 [H2 H3]]. split; [eapply in_basis_native; eauto|].
  split; [exact (route_kind_sound d Ndev M o Hd EW H2)|exact H3].
Qed.

Theorem transpile_succeeds_proof d Ndev M c : In d devices -> M <= Ndev ->
  Forall wf_gate c -> Forall (fun g => in_range M g = true) c ->
  (forall lst, dnative d = Some lst -> Forall (fun g => sq_name (cfg_of lst) (gname g)) c) ->
  exists out, transpile_on d Ndev M c = Ok out.
Proof.
  intros Hd HM Hw Hr Hsq. destruct (dev_facts d Hd) as [lst [keep [El [Hp [Hv [Hdv [Hal Hm]]]]]]].
  specialize (Hsq lst El). set (P := sq_name (cfg_of lst)).
  assert (HP : P "SWAP") by (intros [E|E]; discriminate).
  assert (HPsq : forall n, P n -> sq_name (cfg_of lst) n) by (intros n H; exact H).
  rewrite transpile_unfold, pass_width.
  replace (Nat.ltb Ndev M) with false by (symmetry; apply Nat.ltb_ge; exact HM). cbn [rbind]. rewrite (pass_expand d Ndev M lst El).
  destruct (expand_succeeds P lst keep Hp Hv Hal c HPsq Hw Hsq) as [pre E1]. rewrite E1. cbn [rbind].
  pose proof (expand_ok P lst keep Hp Hv Hdv Hal M c pre Hw Hsq Hr E1) as Hpre.
  destruct (topology_step P HP d Hd lst keep Hp Ndev M pre Hpre) as [mid [E2 Hmid]].
  rewrite E2. cbn [rbind]. rewrite (pass_resolve d Ndev M lst El).
  exact (final_succeeds P lst keep Hp Hv Hdv Hal _ M mid HPsq Hmid).
Qed.
