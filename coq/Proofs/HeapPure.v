(* C16 -- purity: under the extracted flags no operation, and therefore no history, changes any object that
   existed before it (Model/Heap.v). *)
From Coq Require Import List Arith Bool Lia.
From QV Require Import Model.Heap Proofs.HeapBase.
Import ListNotations.

Lemma nth_error_Some_lt {A} (l : list A) n x : nth_error l n = Some x -> n < length l.
Proof. intros H. apply nth_error_Some. congruence. Qed.

(* ---------- passes only allocate ---------- *)
Lemma gate_step_extends ac m h g h' g' : gate_step ac m h g = Some (h', g') -> extends h h'.
Proof.
  unfold gate_step. destruct m as [|[|[|m]]]; intros E.
  - eapply dcopy_extends; eauto.
  - inversion E; subst. apply extends_refl.
  - inversion E; subst. now exists [objof h g].
  - destruct (dcopy FUEL h (fld h g 1)) as [[h1 t']|] eqn:E1; try discriminate.
    destruct (dcopy FUEL h1 (fld h g 2)) as [[h2 c']|] eqn:E2; try discriminate.
    destruct (if ac then dcopy FUEL h2 (fld h g 3) else Some (h2, fld h g 3)) as [[h3 a']|] eqn:E3; try discriminate.
    inversion E; subst.
    apply dcopy_extends in E1. apply dcopy_extends in E2.
    assert (extends h2 h3).
    { destruct ac; [eapply dcopy_extends; eauto|inversion E3; subst; apply extends_refl]. }
    eapply extends_trans; [exact E1|]. eapply extends_trans; [exact E2|].
    eapply extends_trans; [eassumption|]. eexists; reflexivity.
Qed.

Lemma map_gates_extends ac d : forall gs ms h h' gs', map_gates ac d ms h gs = Some (h', gs') -> extends h h'.
Proof.
  induction gs as [|g gs IH]; simpl; intros ms h h' gs' E.
  - inversion E; subst. apply extends_refl.
  - destruct (gate_step ac (hd d ms) h g) as [[h1 g']|] eqn:E1; try discriminate.
    destruct (map_gates ac d (tl ms) h1 gs) as [[h2 gs'']|] eqn:E2; try discriminate.
    inversion E; subst. apply gate_step_extends in E1. apply IH in E2. eapply extends_trans; eauto.
Qed.

Lemma op_pass_extends fin sio ac d ms h qc h' r :
  op_pass true fin sio ac d ms h qc = Some (h', r) -> extends h h'.
Proof.
  unfold op_pass, alloc. simpl.
  destruct (map_gates ac d ms h (objof h (fld h qc 0))) as [[h1 gs]|] eqn:E1; try discriminate.
  cbv beta iota zeta.
  match goal with |- context [opt_copy fin ?a ?b] => destruct (opt_copy fin a b) as [[h3 gl']|] eqn:E2; try discriminate end.
  destruct (opt_copy (negb sio) h3 (fld h qc 3)) as [[h4 ins]|] eqn:E3; try discriminate.
  destruct (opt_copy (negb sio) h4 (fld h qc 4)) as [[h5 outs]|] eqn:E4; try discriminate.
  intros E. inversion E; subst.
  apply map_gates_extends in E1.
  apply opt_copy_extends in E2. apply opt_copy_extends in E3. apply opt_copy_extends in E4.
  eapply extends_trans; [exact E1|]. eapply extends_trans; [eexists; reflexivity|].
  repeat (eapply extends_trans; [eassumption|]). eexists; reflexivity.
Qed.

(* ---------- Instruction: the in-place sorts hit the fresh copy only ---------- *)
Lemma fld_tok h t i : fld h (Tok t) i = Tok 0.
Proof. unfold fld. simpl. now destruct i. Qed.

Lemma fresh_val_le n m v : n <= m -> fresh_val m v -> fresh_val n v.
Proof. destruct v; simpl; auto. lia. Qed.

Lemma copy_fld_after_sort h l h1 g1 i j o :
  dcopy FUEL h (Ref l) = Some (h1, g1) -> fresh_val (length h) (fld (setobj h1 (fld h1 g1 i) o) g1 j).
Proof.
  intros E. pose proof (dcopy_fld_fresh _ _ _ _ _ j E) as Hj.
  pose proof E as E'. apply dcopy_spec in E'. destruct E' as [_ (l' & o' & -> & Hl1 & Hl2 & Hn & Hall)].
  destruct (fld_in h1 (Ref l') i) as [Hz|Hin].
  - rewrite Hz. exact Hj.
  - unfold objof in Hin. rewrite Hn in Hin. rewrite Forall_forall in Hall. specialize (Hall _ Hin).
    destruct (fld h1 (Ref l') i) as [t|m]; [exact Hj|].
    simpl. destruct (nth_error h1 m); [|exact Hj].
    assert (Hsame : objof (upd h1 m o) (Ref l') = objof h1 (Ref l')).
    { unfold objof. rewrite upd_nth_ne by lia. reflexivity. }
    unfold fld in *. rewrite Hsame. exact Hj.
Qed.

Lemma instr_of_inv n h0 h g h' r : inv n h0 h -> instr_of true h g = Some (h', r) -> inv n h0 h'.
Proof.
  intros Hi E. unfold instr_of, opt_copy in E.
  destruct (dcopy FUEL h g) as [[h1 g1]|] eqn:Ed; try discriminate.
  inversion E; subst. clear E.
  assert (Hn : n <= length h) by apply Hi.
  eapply inv_extends; [|eexists; reflexivity].
  destruct g as [t|l].
  - simpl in Ed. inversion Ed; subst. unfold sort_fld. rewrite !fld_tok. simpl. exact Hi.
  - pose proof (dcopy_extends _ _ _ _ _ Ed) as He.
    unfold sort_fld. apply inv_setobj.
    + apply inv_setobj; [eapply inv_extends; eauto|].
      eapply fresh_val_le; [exact Hn|]. eapply dcopy_fld_fresh; eauto.
    + eapply fresh_val_le; [exact Hn|]. eapply copy_fld_after_sort; eauto.
Qed.

Lemma mapH_inv n h0 (F : heap -> val -> option (heap * val)) :
  forall vs h h' vs',
  (forall x h1 h2 x', In x vs -> inv n h0 h1 -> F h1 x = Some (h2, x') -> inv n h0 h2) ->
  inv n h0 h -> mapH F h vs = Some (h', vs') -> inv n h0 h'.
Proof.
  induction vs as [|x xs IH]; simpl; intros h h' vs' HF Hi E.
  - inversion E; subst. exact Hi.
  - destruct (F h x) as [[h1 x']|] eqn:E1; try discriminate.
    destruct (mapH F h1 xs) as [[h2 xs']|] eqn:E2; try discriminate.
    inversion E; subst.
    eapply IH; [| |exact E2].
    + intros. eapply HF; eauto.
    + eapply HF; eauto.
Qed.

Lemma node_of_inv n h0 h x h' r : fresh_val n x -> inv n h0 h -> node_of true h x = Some (h', r) -> inv n h0 h'.
Proof.
  intros Hx Hi E. unfold node_of in E. destruct (length (objof h x) =? 3).
  - inversion E; subst. now apply inv_setfld.
  - eapply instr_of_inv; eauto.
Qed.

(* the elements of a freshly deep-copied list *)
Lemma dcopy_elems_fresh h v h' v' :
  dcopy FUEL h v = Some (h', v') -> Forall (fresh_val (length h)) (objof h' v').
Proof.
  intros E. destruct v as [t|l].
  - simpl in E. inversion E; subst. simpl. constructor.
  - apply dcopy_spec in E. destruct E as [_ (l' & o' & -> & _ & _ & Hn & Hall)].
    unfold objof. rewrite Hn. eapply Forall_impl; [|exact Hall]. intros [t|m]; simpl; auto. lia.
Qed.

(* everything allocated by a deep copy refers to the copied region only *)
Lemma mapH_dcopy_region f :
  (forall h v h' v', dcopy f h v = Some (h', v') ->
     forall m o, length h <= m -> nth_error h' m = Some o -> Forall (fresh_val (length h)) o) ->
  forall vs h h1 vs', mapH (dcopy f) h vs = Some (h1, vs') ->
  forall m o, length h <= m -> nth_error h1 m = Some o -> Forall (fresh_val (length h)) o.
Proof.
  intros IH. induction vs as [|x xs IHv]; simpl; intros h h1 vs' E m o Hm Hn.
  - inversion E; subst. apply nth_error_Some_lt in Hn. lia.
  - destruct (dcopy f h x) as [[h2 x']|] eqn:E1; try discriminate.
    destruct (mapH (dcopy f) h2 xs) as [[h3 xs']|] eqn:E2; try discriminate.
    inversion E; subst.
    pose proof (dcopy_extends _ _ _ _ _ E1) as He1.
    assert (He2 : extends h2 h1).
    { eapply mapH_extends; [|exact E2]. intros. eapply dcopy_extends; eauto. }
    destruct (lt_dec m (length h2)) as [Hlt|Hge].
    + rewrite (extends_nth h2 h1) in Hn by auto. eapply IH; eauto.
    + specialize (IHv _ _ _ E2 m o ltac:(lia) Hn).
      apply extends_len in He1.
      eapply Forall_impl; [|exact IHv]. intros v Hv. eapply fresh_val_le; [|exact Hv]. lia.
Qed.

Lemma dcopy_region f : forall h v h' v', dcopy f h v = Some (h', v') ->
  forall m o, length h <= m -> nth_error h' m = Some o -> Forall (fresh_val (length h)) o.
Proof.
  induction f as [|f IH]; intros h v h' v' E m o Hm Hn; destruct v as [t|l]; simpl in E; try discriminate.
  - inversion E; subst. apply nth_error_Some_lt in Hn. lia.
  - inversion E; subst. apply nth_error_Some_lt in Hn. lia.
  - destruct (nth_error h l) as [o0|] eqn:El; try discriminate.
    destruct (mapH (dcopy f) h o0) as [[h1 o']|] eqn:Em; try discriminate.
    inversion E; subst.
    destruct (lt_dec m (length h1)) as [Hlt|Hge].
    + rewrite nth_error_app1 in Hn by auto. eapply mapH_dcopy_region; eauto.
    + assert (m = length h1).
      { apply nth_error_Some_lt in Hn. rewrite app_length in Hn. simpl in Hn. lia. }
      subst m. rewrite nth_error_app2 in Hn by lia. rewrite Nat.sub_diag in Hn. simpl in Hn.
      inversion Hn; subst.
      eapply mapH_fresh; [|exact Em].
      intros hh x hh' x' Ex. split; [eapply dcopy_extends; eauto|eapply dcopy_fresh; eauto].
Qed.

Lemma dcopy_two_level f h v h1 a1 i :
  dcopy f h v = Some (h1, a1) -> Forall (fresh_val (length h)) (objof h1 (fld h1 a1 i)).
Proof.
  intros E. destruct v as [t|l].
  - destruct f; simpl in E; inversion E; subst; rewrite fld_tok; constructor.
  - pose proof (dcopy_fld_fresh _ _ _ _ _ i E) as Hf.
    destruct (fld h1 a1 i) as [t|m]; simpl; [constructor|].
    destruct (nth_error h1 m) as [o|] eqn:Hn; [|constructor].
    eapply dcopy_region; eauto.
Qed.

Lemma op_schedule_inv fl ic n h0 h a h' r :
  f_instr_copy fl = true -> (f_sched_copy fl || f_graph_copy fl) = true ->
  inv n h0 h -> op_schedule fl ic h a = Some (h', r) -> inv n h0 h'.
Proof.
  intros Hic Hc Hi E. unfold op_schedule in E. rewrite Hic in E.
  destruct (opt_copy (f_sched_copy fl) h a) as [[h1 a1]|] eqn:E1; try discriminate.
  set (gl := if ic then fld h1 a1 0 else a1) in *.
  destruct (opt_copy (f_graph_copy fl) h1 gl) as [[h2 gl2]|] eqn:E2; try discriminate.
  destruct (mapH (node_of true) h2 (objof h2 gl2)) as [[h3 nodes]|] eqn:E3; try discriminate.
  inversion E; subst. clear E.
  pose proof (opt_copy_extends _ _ _ _ _ E1) as He1.
  pose proof (opt_copy_extends _ _ _ _ _ E2) as He2.
  assert (Hn : n <= length h) by apply Hi.
  assert (Hi2 : inv n h0 h2).
  { eapply inv_extends; [|exact He2]. eapply inv_extends; eauto. }
  eapply inv_extends; [|eexists; reflexivity].
  (* the elements of the list the graph is built from are copies: one of the two copies was made *)
  assert (Hel : Forall (fresh_val n) (objof h2 gl2)).
  { unfold opt_copy in E2. destruct (f_graph_copy fl) eqn:Hg.
    - apply dcopy_elems_fresh in E2. apply extends_len in He1.
      eapply Forall_impl; [|exact E2]. intros v Hv. eapply fresh_val_le; [|exact Hv]. lia.
    - inversion E2; subst. rewrite orb_false_r in Hc. unfold opt_copy in E1. rewrite Hc in E1.
      subst gl. destruct ic.
      + apply (dcopy_two_level _ _ _ _ _ 0) in E1.
        eapply Forall_impl; [|exact E1]. intros v Hv. eapply fresh_val_le; [|exact Hv]. lia.
      + apply dcopy_elems_fresh in E1.
        eapply Forall_impl; [|exact E1]. intros v Hv. eapply fresh_val_le; [|exact Hv]. lia. }
  eapply mapH_inv; [|exact Hi2|exact E3].
  intros x ha hb x' Hin Hia Hx. rewrite Forall_forall in Hel. eapply node_of_inv; eauto.
Qed.

Lemma compile_heap_inv fl n h0 h gl h' :
  f_instr_copy fl = true -> inv n h0 h -> compile_heap fl h gl = Some h' -> inv n h0 h'.
Proof.
  intros Hic Hi E. unfold compile_heap in E. rewrite Hic in E.
  destruct (mapH (instr_of true) h (objof h gl)) as [[h1 xs]|] eqn:E1; try discriminate.
  inversion E; subst. eapply mapH_inv; [|exact Hi|exact E1].
  intros. eapply instr_of_inv; eauto.
Qed.

(* ---------- simulator ---------- *)
Lemma meas_writes_inv n h0 cbv : fresh_val n cbv -> forall gs h mr, inv n h0 h -> inv n h0 (meas_writes h cbv gs mr).
Proof.
  intros Hc. induction gs as [|g gs IH]; simpl; intros h mr Hi; auto.
  destruct (tokn (fld h g 0)); [destruct (tokn (fld h g 5))|]; auto.
  apply IH. now apply inv_setfld.
Qed.

(* the cbits object a run works on is new unless the caller's list is taken by reference *)
Lemma init_cbits_spec cc h qc cb h1 cbv :
  init_cbits cc h qc cb = (h1, cbv) -> (cc || negb (usable h qc cb)) = true ->
  extends h h1 /\ fresh_val (length h) cbv.
Proof.
  unfold init_cbits. intros E G. destruct (usable h qc cb) eqn:U.
  - rewrite orb_false_r in G. subst cc. unfold alloc in E. inversion E; subst.
    split; [eexists; reflexivity|simpl; lia].
  - destruct (tokn (fld h qc 2)).
    + inversion E; subst. split; [apply extends_refl|exact I].
    + unfold alloc in E. inversion E; subst. split; [eexists; reflexivity|simpl; lia].
Qed.

Lemma run_core_inv fl dm n h0 h qc cb mr h1 cbv :
  (f_sim_cbits_copy fl || negb (usable h qc cb)) = true ->
  inv n h0 h -> run_core fl dm h qc cb mr = (h1, cbv) -> inv n h0 h1 /\ length h <= length h1.
Proof.
  intros G Hi E. unfold run_core in E.
  destruct (init_cbits (f_sim_cbits_copy fl) h qc cb) as [h2 c2] eqn:Ei.
  apply init_cbits_spec in Ei; auto. destruct Ei as [He Hf].
  inversion E; subst. clear E.
  assert (Hi2 : inv n h0 h2) by (eapply inv_extends; eauto).
  assert (Hn : n <= length h) by apply Hi.
  destruct dm.
  - split; auto. now apply extends_len.
  - assert (Hq : forall gs hh mr0, length (meas_writes hh cbv gs mr0) = length hh).
    { induction gs as [|g gs IH]; simpl; intros; auto.
      destruct (tokn (fld hh g 0)); [destruct (tokn (fld hh g 5))|]; auto.
      rewrite IH. unfold setfld. destruct cbv; auto. destruct (nth_error hh l); auto. apply upd_length. }
    split.
    + apply meas_writes_inv; auto. eapply fresh_val_le; [exact Hn|exact Hf].
    + rewrite Hq. now apply extends_len.
Qed.

(* usable only looks at objects that exist; it is stable while the old part of the heap is unchanged *)
Lemma usable_stable n h0 h qc cb :
  inv n h0 h -> (forall l, cb = Ref l -> l < n) -> (forall l, qc = Ref l -> l < n) -> usable h qc cb = usable h0 qc cb.
Proof.
  intros [Ha _] Hcb Hqc. unfold usable. destruct cb as [t|l]; auto.
  rewrite Ha by auto.
  assert (fld h qc 2 = fld h0 qc 2).
  { unfold fld, objof. destruct qc as [t|q]; auto. now rewrite Ha by auto. }
  now rewrite H.
Qed.

Lemma stats_loop_inv fl dm n h0 qc cb :
  (forall l, cb = Ref l -> l < n) -> (forall l, qc = Ref l -> l < n) ->
  (f_sim_cbits_copy fl || negb (usable h0 qc cb)) = true ->
  forall runs h acc h1 cbs last, inv n h0 h -> stats_loop fl dm h qc cb runs acc = (h1, cbs, last) -> inv n h0 h1.
Proof.
  intros Hcb Hqc G. induction runs as [|mr rest IH]; simpl; intros h acc h1 cbs last Hi E.
  - inversion E; subst. exact Hi.
  - destruct (run_core fl dm h qc cb mr) as [h2 cbv] eqn:Er.
    apply run_core_inv with (n := n) (h0 := h0) in Er; auto.
    + destruct rest.
      * inversion E; subst. apply Er.
      * eapply IH; [apply Er|exact E].
    + rewrite (usable_stable n h0 h); auto.
Qed.

(* ---------- one call ---------- *)
Definition in_old (n : nat) (v : val) : Prop := forall l, v = Ref l -> l < n.

(* operands of a call denote objects of the caller that exist *)
Definition call_wf (w : world) (c : call) : Prop :=
  match c with
  | CSimRun s cb _ _ | CSimStats s cb _ => in_old (length (hp w)) cb /\ in_old (length (hp w)) (s_qc (nth s (sims w) dsim))
  | CQcRun qc cb _ _ _ | CQcStats qc cb _ _ => in_old (length (hp w)) cb /\ in_old (length (hp w)) qc
  | _ => True
  end.

Lemma exec_inv fl w c w' r n h0 :
  flags_pure fl = true -> guard fl w c = true -> call_wf w c -> n <= length (hp w) ->
  inv n h0 (hp w) -> exec fl w c = Some (w', r) -> inv n h0 (hp w').
Proof.
  unfold flags_pure. intros Hf G Hwf Hn Hi E.
  apply andb_prop in Hf. destruct Hf as [Hf Hsg]. apply andb_prop in Hf. destruct Hf as [Hci Hic].
  destruct c; cbv beta iota zeta delta [exec] in E.
  - (* CSimRun *)
    destruct (run_core fl (s_dm (nth s (sims w) dsim)) (hp w) (s_qc (nth s (sims w) dsim)) cb mr) as [h1 cbv] eqn:Er.
    destruct (result_of h1 _ cbv) as [h2 r2] eqn:Eres.
    inversion E; subst. simpl.
    apply run_core_inv with (n := n) (h0 := h0) in Er; auto.
    unfold result_of, alloc in Eres. destruct cbv; inversion Eres; subst;
      (eapply inv_extends; [apply Er|]); [eexists; reflexivity|].
    exists [[Ref l]; [Tok (st + (if f_sim_reinit fl then 0 else s_dirty (nth s (sims w) dsim))); Ref (length h1)]].
    now rewrite <- app_assoc.
  - (* CSimStats *)
    destruct (stats_loop fl _ (hp w) _ cb _ []) as [[h1 cbs] last] eqn:El.
    destruct (stats_result h1 _ cbs) as [h2 r2] eqn:Eres.
    inversion E; subst. simpl.
    simpl in Hwf. destruct Hwf as [Hcb Hqc].
    assert (Hi1 : inv n h0 h1).
    { (* run the loop invariant from the heap at call time *)
      assert (Hi0 : inv (length (hp w)) (hp w) (hp w)) by (apply inv_refl; lia).
      pose proof (stats_loop_inv fl _ (length (hp w)) (hp w) _ cb Hcb Hqc G _ _ _ _ _ _ Hi0 El) as [Ha Hl].
      split.
      - intros l Hl'. rewrite Ha by lia. apply Hi. exact Hl'.
      - lia. }
    unfold stats_result, alloc in Eres. inversion Eres; subst.
    eapply inv_extends; [exact Hi1|]. rewrite <- app_assoc. eexists; reflexivity.
  - (* CQcRun *)
    destruct (run_core fl dm (hp w) qc cb mr) as [h1 cbv] eqn:Er.
    inversion E; subst. simpl.
    apply run_core_inv with (n := n) (h0 := h0) in Er; auto. apply Er.
  - (* CQcStats *)
    destruct (stats_loop fl dm (hp w) qc cb _ []) as [[h1 cbs] last] eqn:El.
    destruct (stats_result h1 st cbs) as [h2 r2] eqn:Eres.
    inversion E; subst. simpl.
    simpl in Hwf. destruct Hwf as [Hcb Hqc].
    assert (Hi1 : inv n h0 h1).
    { assert (Hi0 : inv (length (hp w)) (hp w) (hp w)) by (apply inv_refl; lia).
      pose proof (stats_loop_inv fl dm (length (hp w)) (hp w) qc cb Hcb Hqc G _ _ _ _ _ _ Hi0 El) as [Ha Hl].
      split.
      - intros l Hl'. rewrite Ha by lia. apply Hi. exact Hl'.
      - lia. }
    unfold stats_result, alloc in Eres. inversion Eres; subst.
    eapply inv_extends; [exact Hi1|]. rewrite <- app_assoc. eexists; reflexivity.
  - destruct (op_resolve fl (hp w) qc) as [[h1 r1]|] eqn:Eo; try discriminate. inversion E; subst. simpl.
    eapply inv_extends; [exact Hi|]. eapply op_pass_extends; exact Eo.
  - destruct (op_adjacent fl (hp w) qc) as [[h1 r1]|] eqn:Eo; try discriminate. inversion E; subst. simpl.
    eapply inv_extends; [exact Hi|]. eapply op_pass_extends; exact Eo.
  - destruct (op_chain fl modes (hp w) qc) as [[h1 r1]|] eqn:Eo; try discriminate. inversion E; subst. simpl.
    unfold op_chain in Eo. rewrite Hci in Eo.
    eapply inv_extends; [exact Hi|]. eapply op_pass_extends; exact Eo.
  - destruct (op_reverse fl (hp w) qc) as [[h1 r1]|] eqn:Eo; try discriminate. inversion E; subst. simpl.
    eapply inv_extends; [exact Hi|]. eapply op_pass_extends; exact Eo.
  - destruct (op_addc fl (hp w) qc) as [[h1 r1]|] eqn:Eo; try discriminate. inversion E; subst. simpl.
    eapply inv_extends; [exact Hi|]. eapply op_pass_extends; exact Eo.
  - inversion E; subst. simpl. eapply inv_extends; [exact Hi|]. eexists; reflexivity.
  - destruct (op_schedule fl is_circ (hp w) a) as [[h1 r1]|] eqn:Eo; try discriminate. inversion E; subst. simpl.
    eapply op_schedule_inv; eauto.
  - destruct (instr_of (f_instr_copy fl) (hp w) g) as [[h1 r1]|] eqn:Eo; try discriminate. inversion E; subst. simpl.
    rewrite Hic in Eo. eapply instr_of_inv; eauto.
  - destruct (compile_heap fl (hp w) (if is_circ then fld (hp w) a 0 else a)) as [h1|] eqn:Eo; try discriminate.
    destruct (comp_run fl (nth k (comps w) dcomp) args dphi) as [[k' eff] gp].
    inversion E; subst. simpl.
    eapply inv_extends; [eapply (compile_heap_inv fl n h0 (hp w)); [exact Hic|exact Hi|exact Eo]|]. eexists; reflexivity.
  - (* CLoad *)
    destruct (match chain with Some ms => op_chain fl ms (hp w) qc | None => Some (hp w, qc) end) as [[h1 qc1]|] eqn:E1; try discriminate.
    destruct (op_resolve fl h1 qc1) as [[h2 qc2]|] eqn:E2; try discriminate.
    destruct (compile_heap fl h2 (fld h2 qc2 0)) as [h3|] eqn:E3; try discriminate.
    destruct (comp_run fl _ 0 dphi) as [[k' eff] gp].
    inversion E; subst. simpl.
    assert (X1 : extends (hp w) h1).
    { destruct chain; [|inversion E1; subst; apply extends_refl].
      unfold op_chain in E1. rewrite Hci in E1. eapply op_pass_extends; exact E1. }
    assert (X2 : extends h1 h2) by (eapply op_pass_extends; exact E2).
    eapply inv_extends; [|eexists; reflexivity].
    eapply (compile_heap_inv fl n h0 h2); [exact Hic| |exact E3].
    eapply inv_extends; [|exact X2]. eapply inv_extends; eauto.
  - destruct noisy.
    + destruct (noisy_query fl true (nth p (procs w) dproc)). inversion E; subst. exact Hi.
    + inversion E; subst. exact Hi.
  - destruct (noisy_query fl dn (nth p (procs w) dproc)). inversion E; subst. exact Hi.
  - inversion E; subst. exact Hi.
  - inversion E; subst. exact Hi.
  - inversion E; subst. exact Hi.
Qed.

Lemma exec_len fl w c w' r :
  flags_pure fl = true -> guard fl w c = true -> call_wf w c -> exec fl w c = Some (w', r) -> length (hp w) <= length (hp w').
Proof.
  intros Hf G Hwf E.
  assert (Hi : inv (length (hp w)) (hp w) (hp w)) by (apply inv_refl; lia).
  eapply exec_inv in E; eauto. apply E.
Qed.

(* ---------- histories ---------- *)
(* operands of every call of the history exist when the call is made *)
Fixpoint hist_wf (fl : flags) (w : world) (hist : list call) : Prop :=
  match hist with
  | [] => True
  | c :: rest => call_wf w c /\ match exec fl w c with Some (w1, _) => hist_wf fl w1 rest | None => True end
  end.

Theorem history_pure_lemma fl : flags_pure fl = true ->
  forall hist w w' rs, hist_guard fl w hist = true -> hist_wf fl w hist ->
  run_hist fl w hist = Some (w', rs) ->
  forall l, l < length (hp w) -> nth_error (hp w') l = nth_error (hp w) l.
Proof.
  intros Hf.
  assert (Gen : forall hist w w' rs n h0, n <= length (hp w) -> inv n h0 (hp w) ->
                hist_guard fl w hist = true -> hist_wf fl w hist -> run_hist fl w hist = Some (w', rs) -> inv n h0 (hp w')).
  { induction hist as [|c rest IH]; simpl; intros w w' rs n h0 Hn Hi G Hwf E.
    - inversion E; subst. exact Hi.
    - apply andb_prop in G. destruct G as [G1 G2]. destruct Hwf as [W1 W2].
      destruct (exec fl w c) as [[w1 r]|] eqn:Ex; try discriminate.
      destruct (run_hist fl w1 rest) as [[w2 rs2]|] eqn:Er; try discriminate.
      inversion E; subst.
      eapply IH; [| |exact G2|exact W2|exact Er].
      + pose proof (exec_len _ _ _ _ _ Hf G1 W1 Ex). lia.
      + eapply exec_inv; eauto. }
  intros hist w w' rs G Hwf E l Hl.
  assert (Hi : inv (length (hp w)) (hp w) (hp w)) by (apply inv_refl; lia).
  pose proof (Gen _ _ _ _ _ _ (le_n _) Hi G Hwf E) as [Ha _]. now apply Ha.
Qed.
