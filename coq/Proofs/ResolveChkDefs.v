(* C03: the generated symbolic obligations - one per (gate kind, observable basis configuration):
   run the model's whole pipeline on the generic instance of the kind and compare the result with the source gate
   as symbolic circuits over the exact ring KS. *)
From Coq Require Import List String Bool Arith.
From QV Require Import Found.Sym Found.SymProofs Model.ResolveTypes Gen.Decompose Gen.Gates Model.Resolve.
Import ListNotations.

Definition kd := (string * (nat * nat * nat))%type.
Definition no_keep : string -> bool := fun _ => false.

(* semantic obligation: decomposition of the generic gate = the gate, as 2^k x 2^k tables of polynomials *)
Definition check_sem (c : cfg) (k : kd) : bool :=
  let g := generic (fst k) (snd k) 0 in
  match resolve_gate c no_keep g with
  | Ok gs => scirc_eqb (kqubits (snd k)) (map to_sgate gs) [to_sgate g]
  | Error => true
  end.
(* membership obligation *)
Definition check_basis (c : cfg) (k : kd) : bool :=
  match resolve_gate c no_keep (generic (fst k) (snd k) 0) with
  | Ok gs => forallb (in_basis c) gs
  | Error => true
  end.
(* the gate that reaches the dispatch has a rule (so the `gate.name in basis` test is not consulted) *)
Definition check_rule (k : kd) : bool :=
  match pauli (generic (fst k) (snd k) 0) with
  | Ok p => match find_rule (gname (snd p)) with Some _ => true | None => false end
  | Error => false
  end.
(* success obligation: in a valid configuration a kind is refused only if it is SQRTSWAP / SQRTISWAP outside the basis *)
Definition check_ok (c : cfg) (k : kd) : bool :=
  match resolve_gate c no_keep (generic (fst k) (snd k) 0) with
  | Ok _ => true
  | Error => (String.eqb (fst k) "SQRTSWAP" || String.eqb (fst k) "SQRTISWAP") && negb (mem (fst k) (c2q c))
  end.

Definition slice (i : nat) : list cfg := firstn 64 (skipn (64 * i) all_cfgs).
Definition sem_ok (l : list cfg) : bool := forallb (fun c => forallb (check_sem c) kinds) l.
