(* C03: the generated symbolic obligations - one per (gate kind, observable basis configuration):
   run the model's whole pipeline on the generic instance of the kind and compare the result with the source gate
   as symbolic circuits over the exact ring KS.
   The decomposition of one kind observes a configuration only through: is the dispatched name in basis_2q, (for SWAP) is
   ISWAP in basis_2q, which two-qubit pass runs, and the rotation elimination; [canon c k] is the canonical configuration
   with the same observations, so that the 512 x 20 obligations collapse to about a thousand distinct ones. *)
From Coq Require Import List String Bool Arith.
From QV Require Import Found.Sym Found.SymProofs Model.ResolveTypes Gen.Decompose Gen.Gates Model.Resolve.
Import ListNotations.

Definition kd := (string * (nat * nat * nat))%type.
Definition no_keep : string -> bool := fun _ => false.

(* semantic obligation: decomposition of the generic gate = the gate, as 2^k x 2^k tables of polynomials *)
Definition check_sem (c : cfg) (k : kd) : bool :=
  match resolve_gate c no_keep (generic (fst k) (snd k) 0) with
  | Ok gs => scirc_eqb (kqubits (snd k)) (map to_sgate gs) [to_sgate (generic (fst k) (snd k) 0)]
  | Error => true
  end.
(* membership obligation *)
Definition check_basis (c : cfg) (k : kd) : bool :=
  match resolve_gate c no_keep (generic (fst k) (snd k) 0) with
  | Ok gs => forallb (in_basis c) gs
  | Error => true
  end.
(* the gate that reaches the dispatch has a rule (so the `gate.name in basis` test is not consulted) *)
Definition check_rule (k : kd) : bool :=
  match pauli (generic (fst k) (snd k) 0) with
  | Ok p => match find_rule (gname (snd p)) with Some _ => true | None => false end
  | Error => false
  end.
(* success obligation: in a valid configuration a kind is refused only if it is SQRTSWAP / SQRTISWAP outside the basis *)
Definition check_ok (c : cfg) (k : kd) : bool :=
  match resolve_gate c no_keep (generic (fst k) (snd k) 0) with
  | Ok _ => true
  | Error => (String.eqb (fst k) "SQRTSWAP" || String.eqb (fst k) "SQRTISWAP") && negb (mem (fst k) (c2q c))
  end.

(* ---- canonical configurations ------------------------------------------------------------------------------------- *)
Fixpoint list_eqb (a b : list string) : bool :=
  match a, b with
  | [], [] => true
  | x :: a', y :: b' => String.eqb x y && list_eqb a' b'
  | _, _ => false
  end.
Definition opt_eqb (a b : option string) : bool :=
  match a, b with Some x, Some y => String.eqb x y | None, None => true | _, _ => false end.
Definition cfg_eqb (a b : cfg) : bool :=
  list_eqb (c2q a) (c2q b) && list_eqb (crot a) (crot b) && Bool.eqb (celim a) (celim b).
Definition memc (c : cfg) (l : list cfg) : bool := existsb (cfg_eqb c) l.
Fixpoint dedupe (l : list (list string)) : list (list string) :=
  match l with [] => [] | c :: l' => let r := dedupe l' in if existsb (list_eqb c) r then r else c :: r end.

(* the name under which the generic instance of a kind is dispatched (X -> RX, ...) *)
Definition dispatched (k : kd) : string :=
  match pauli (generic (fst k) (snd k) 0) with Ok p => gname (snd p) | Error => fst k end.
(* the part of basis_2q a gate dispatched as n can observe: itself, the gate whose pass runs, ISWAP if n is SWAP *)
Definition canon2q (q : list string) (n : string) : list string :=
  filter (fun x => (String.eqb x n && mem n q)
                   || match find (fun u => mem u q) basis_2q_order with Some u => String.eqb x u | None => false end
                   || (String.eqb n "SWAP" && String.eqb x "ISWAP" && mem "ISWAP" q)) basis_2q_valid.
Definition canon (c : cfg) (k : kd) : cfg :=
  Cfg (canon2q (c2q c) (dispatched k)) (if celim c then crot c else []) (celim c).
Definition rotviews : list (bool * list string) := (false, []) :: map (fun r => (true, r)) (sublists rot_names).
Definition canons (k : kd) : list cfg :=
  let n := dispatched k in
  flat_map (fun q => map (fun rv => Cfg q (snd rv) (fst rv)) rotviews)
           (dedupe (map (fun q => canon2q q n) (sublists basis_2q_valid))).
(* c and c' are indistinguishable for a gate dispatched under the name n *)
Definition agree (c c' : cfg) (n : string) : bool :=
  Bool.eqb (mem n (c2q c)) (mem n (c2q c')) &&
  Bool.eqb (String.eqb n "SWAP" && mem "ISWAP" (c2q c)) (String.eqb n "SWAP" && mem "ISWAP" (c2q c')) &&
  opt_eqb (first_2q c) (first_2q c') && Bool.eqb (celim c) (celim c') && (negb (celim c) || list_eqb (crot c) (crot c')).

(* the semantic obligations of a list of kinds: every canonical configuration of every kind *)
Definition obls_ok (ks : list kd) : bool := forallb (fun k => forallb (fun c => check_sem c k) (canons k)) ks.
(* every configuration of l has its canonical form (for kind k) in cs *)
Definition covered (l : list cfg) (k : kd) (cs : list cfg) : bool := forallb (fun c => memc (canon c k) cs) l.
Definition cover_all (l : list cfg) (ks : list kd) : bool := forallb (fun k => covered l k (canons k)) ks.

(* the kinds, split for parallel compilation *)
Definition kslice (i : nat) : list kd :=
  match i with
  | 0 => firstn 11 kinds
  | 1 => firstn 6 (skipn 11 kinds)
  | 2 => firstn 1 (skipn 17 kinds)
  | _ => skipn 18 kinds
  end%nat.
