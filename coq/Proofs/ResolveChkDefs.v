(* C03: the generated symbolic obligations - one per (gate kind, observable basis configuration):
   run the model's whole pipeline on the generic instance of the kind and compare the result with the source gate
   as symbolic circuits over the exact ring KS.
   The decomposition of one kind observes a configuration only through: is the dispatched name in basis_2q, (for SWAP) is
   ISWAP in basis_2q, which two-qubit pass runs, and the rotation elimination; [canon c k] is the canonical configuration
   with the same observations, so that the 512 x 20 obligations collapse to about a thousand distinct ones. *)
From Coq Require Import List String Bool Arith.
From QV Require Import Found.Sym Found.SymProofs Model.ResolveTypes Gen.Decompose Gen.Gates Model.Resolve.
Import ListNotations.

Definition kd := (string * (nat * nat * nat))%type.
Definition no_keep : string -> bool := fun _ => false.

(* semantic obligation: decomposition of the generic gate = the gate, as 2^k x 2^k tables of polynomials *)
Definition check_sem (c : cfg) (k : kd) : bool :=
  match resolve_gate c no_keep (generic (fst k) (snd k) 0) with
  | Ok gs => scirc_eqb (kqubits (snd k)) (map to_sgate gs) [to_sgate (generic (fst k) (snd k) 0)]
  | Error => true
  end.
(* membership obligation *)
Definition check_basis (c : cfg) (k : kd) : bool :=
  match resolve_gate c no_keep (generic (fst k) (snd k) 0) with
  | Ok gs => forallb (in_basis c) gs
  | Error => true
  end.
(* the gate that reaches the dispatch has a rule (so the `gate.name in basis` test is not consulted) *)
Definition check_rule (k : kd) : bool :=
  match pauli (generic (fst k) (snd k) 0) with
  | Ok p => match find_rule (gname (snd p)) with Some _ => true | None => false end
  | Error => false
  end.
(* success obligation: in a valid configuration a kind is refused only if it is SQRTSWAP / SQRTISWAP outside the basis *)
Definition check_ok (c : cfg) (k : kd) : bool :=
  match resolve_gate c no_keep (generic (fst k) (snd k) 0) with
  | Ok _ => true
  | Error => (String.eqb (fst k) "SQRTSWAP" || String.eqb (fst k) "SQRTISWAP") && negb (mem (fst k) (c2q c))
  end.

(* ---- canonical configurations ------------------------------------------------------------------------------------- *)
Fixpoint list_eqb (a b : list string) : bool :=
  match a, b with
  | [], [] => true
  | x :: a', y :: b' => String.eqb x y && list_eqb a' b'
  | _, _ => false
  end.
Definition opt_eqb (a b : option string) : bool :=
  match a, b with Some x, Some y => String.eqb x y | None, None => true | _, _ => false end.
Definition cfg_eqb (a b : cfg) : bool :=
  list_eqb (c2q a) (c2q b) && list_eqb (crot a) (crot b) && Bool.eqb (celim a) (celim b).
Definition memc (c : cfg) (l : list cfg) : bool := existsb (cfg_eqb c) l.
Fixpoint dedupe (l : list cfg) : list cfg :=
  match l with [] => [] | c :: l' => let r := dedupe l' in if memc c r then r else c :: r end.

(* the name under which the generic instance of a kind is dispatched (X -> RX, ...) *)
Definition dispatched (k : kd) : string :=
  match pauli (generic (fst k) (snd k) 0) with Ok p => gname (snd p) | Error => fst k end.
Definition canon (c : cfg) (k : kd) : cfg :=
  let n := dispatched k in
  Cfg (filter (fun x => (String.eqb x n && mem n (c2q c))
                        || match first_2q c with Some u => String.eqb x u | None => false end
                        || (String.eqb n "SWAP" && String.eqb x "ISWAP" && mem "ISWAP" (c2q c))) basis_2q_valid)
      (if celim c then crot c else []) (celim c).
(* c and c' are indistinguishable for a gate dispatched under the name n *)
Definition agree (c c' : cfg) (n : string) : bool :=
  Bool.eqb (mem n (c2q c)) (mem n (c2q c')) &&
  Bool.eqb (String.eqb n "SWAP" && mem "ISWAP" (c2q c)) (String.eqb n "SWAP" && mem "ISWAP" (c2q c')) &&
  opt_eqb (first_2q c) (first_2q c') && Bool.eqb (celim c) (celim c') && (negb (celim c) || list_eqb (crot c) (crot c')).

Definition canons (k : kd) : list cfg := dedupe (map (fun c => canon c k) all_cfgs).
Definition obl_ok (k : kd) : bool := forallb (fun c => check_sem c k) (canons k).
Definition obls_ok (ks : list kd) : bool := forallb obl_ok ks.

(* the kinds, split for parallel compilation: the two three-qubit kinds, the two-qubit kinds, the rest *)
Definition kslice (i : nat) : list kd :=
  match i with
  | 0 => filter (fun k => String.eqb (fst k) "TOFFOLI") kinds
  | 1 => filter (fun k => String.eqb (fst k) "FREDKIN") kinds
  | 2 => filter (fun k => Nat.eqb (kqubits (snd k)) 2) kinds
  | _ => filter (fun k => Nat.ltb (kqubits (snd k)) 2) kinds
  end%nat.
