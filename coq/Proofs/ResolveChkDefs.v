(* C03: the generated symbolic obligations - one per (gate kind, observable basis configuration):
   run the model's whole pipeline on the generic instance of the kind and compare the result with the source gate
   as symbolic circuits over the exact ring KS.
   The decomposition of one kind observes a configuration only through: is the dispatched name in basis_2q, (for SWAP) is
   ISWAP in basis_2q, which two-qubit pass runs, and the rotation elimination; [canon c k] is the canonical configuration
   with the same observations, so that the 512 x 20 obligations collapse to about a thousand distinct ones. *)
From Coq Require Import List String Bool Arith.
From QV Require Import Found.Sym Found.SymProofs Model.ResolveTypes Gen.Decompose Gen.Gates Model.Resolve.
Import ListNotations.

Definition kd := (string * (nat * nat * nat))%type.
Definition no_keep : string -> bool := fun _ => false.

(* the model's decomposition of the generic instance of kind k in configuration c *)
Definition fres (k : kd) (c : cfg) : result (list mgate) := resolve_gate c no_keep (generic (fst k) (snd k) 0).
(* semantic obligation: decomposition of the generic gate = the gate, as 2^k x 2^k tables of polynomials *)
Definition ok_res (k : kd) (r : result (list mgate)) : bool :=
  match r with
  | Ok gs => scirc_eqb (kqubits (snd k)) (map to_sgate gs) [to_sgate (generic (fst k) (snd k) 0)]
  | Error => true
  end.
Definition check_sem (c : cfg) (k : kd) : bool := ok_res k (fres k c).
(* membership obligation *)
Definition check_basis (c : cfg) (k : kd) : bool :=
  match resolve_gate c no_keep (generic (fst k) (snd k) 0) with
  | Ok gs => forallb (in_basis c) gs
  | Error => true
  end.
(* the gate that reaches the dispatch has a rule (so the `gate.name in basis` test is not consulted) *)
Definition check_rule (k : kd) : bool :=
  match pauli (generic (fst k) (snd k) 0) with
  | Ok p => match find_rule (gname (snd p)) with Some _ => true | None => false end
  | Error => false
  end.
(* success obligation: in a valid configuration a kind is refused only if it is SQRTSWAP / SQRTISWAP outside the basis *)
Definition check_ok (c : cfg) (k : kd) : bool :=
  match resolve_gate c no_keep (generic (fst k) (snd k) 0) with
  | Ok _ => true
  | Error => (String.eqb (fst k) "SQRTSWAP" || String.eqb (fst k) "SQRTISWAP") && negb (mem (fst k) (c2q c))
  end.

(* ---- canonical configurations ------------------------------------------------------------------------------------- *)
Fixpoint list_eqb (a b : list string) : bool :=
  match a, b with
  | [], [] => true
  | x :: a', y :: b' => String.eqb x y && list_eqb a' b'
  | _, _ => false
  end.
Definition opt_eqb (a b : option string) : bool :=
  match a, b with Some x, Some y => String.eqb x y | None, None => true | _, _ => false end.
Definition cfg_eqb (a b : cfg) : bool :=
  list_eqb (c2q a) (c2q b) && list_eqb (crot a) (crot b) && Bool.eqb (celim a) (celim b).
Definition memc (c : cfg) (l : list cfg) : bool := existsb (cfg_eqb c) l.
Fixpoint dedupe (l : list (list string)) : list (list string) :=
  match l with [] => [] | c :: l' => let r := dedupe l' in if existsb (list_eqb c) r then r else c :: r end.

(* the name under which the generic instance of a kind is dispatched (X -> RX, ...) *)
Definition dispatched (k : kd) : string :=
  match pauli (generic (fst k) (snd k) 0) with Ok p => gname (snd p) | Error => fst k end.
(* the part of basis_2q a gate dispatched as n can observe: itself, the gate whose pass runs, ISWAP if n is SWAP *)
Definition canon2q (q : list string) (n : string) : list string :=
  filter (fun x => (String.eqb x n && mem n q)
                   || match find (fun u => mem u q) basis_2q_order with Some u => String.eqb x u | None => false end
                   || (String.eqb n "SWAP" && String.eqb x "ISWAP" && mem "ISWAP" q)) basis_2q_valid.
Definition canon (c : cfg) (k : kd) : cfg :=
  Cfg (canon2q (c2q c) (dispatched k)) (if celim c then crot c else []) (celim c).
Definition rotviews : list (bool * list string) := (false, []) :: map (fun r => (true, r)) (sublists rot_names).
Definition canons (k : kd) : list cfg :=
  let n := dispatched k in
  flat_map (fun q => map (fun rv => Cfg q (snd rv) (fst rv)) rotviews)
           (dedupe (map (fun q => canon2q q n) (sublists basis_2q_valid))).
(* q and q' are indistinguishable for a gate dispatched under the name n *)
Definition agree2q (q q' : list string) (n : string) : bool :=
  Bool.eqb (mem n q) (mem n q') &&
  Bool.eqb (String.eqb n "SWAP" && mem "ISWAP" q) (String.eqb n "SWAP" && mem "ISWAP" q') &&
  opt_eqb (find (fun u => mem u q) basis_2q_order) (find (fun u => mem u q') basis_2q_order).
Definition agree_all : bool :=
  forallb (fun k => forallb (fun q => agree2q q (canon2q q (dispatched k)) (dispatched k)) (sublists basis_2q_valid)) kinds.

(* ---- distinct decompositions ----------------------------------------------------------------------------------------
   Different canonical configurations often give the same gate list (a one-qubit gate does not care which two-qubit pass
   runs); the expensive symbolic comparison is done once per distinct result.  The equalities below are only used to
   group results - nothing relies on them being correct: [outs_eq] re-checks the grouping by plain conversion. *)
Definition q_eqb (a b : Q) : bool := Z.eqb (Qnum a) (Qnum b) && Pos.eqb (Qden a) (Qden b).
Fixpoint ex_eqb (a b : ex) : bool :=
  match a, b with
  | Num p, Num q => q_eqb p q | Imag p, Imag q => q_eqb p q | Pi, Pi => true | Var i, Var j => Nat.eqb i j
  | Add a1 a2, Add b1 b2 | Sub a1 a2, Sub b1 b2 | Mul a1 a2, Mul b1 b2 | Div a1 a2, Div b1 b2 => ex_eqb a1 b1 && ex_eqb a2 b2
  | Neg a1, Neg b1 | Cos a1, Cos b1 | Sin a1, Sin b1 | Exp a1, Exp b1 | Sqrt a1, Sqrt b1 => ex_eqb a1 b1
  | _, _ => false
  end.
Fixpoint lst_eqb {A} (e : A -> A -> bool) (a b : list A) : bool :=
  match a, b with [], [] => true | x :: a', y :: b' => e x y && lst_eqb e a' b' | _, _ => false end.
Definition mgate_eqb (a b : mgate) : bool :=
  String.eqb (gname a) (gname b) && lst_eqb Nat.eqb (gtargets a) (gtargets b) && lst_eqb Nat.eqb (gcontrols a) (gcontrols b)
  && lst_eqb ex_eqb (gargs a) (gargs b) && Nat.eqb (gsrc a) (gsrc b).
Definition res_eqb (a b : result (list mgate)) : bool :=
  match a, b with Ok x, Ok y => lst_eqb mgate_eqb x y | Error, Error => true | _, _ => false end.
Fixpoint dedupe_r (l : list (result (list mgate))) : list (result (list mgate)) :=
  match l with [] => [] | r :: l' => let d := dedupe_r l' in if existsb (res_eqb r) d then d else r :: d end.
Fixpoint index_r (r : result (list mgate)) (l : list (result (list mgate))) : nat :=
  match l with [] => 0 | x :: l' => if res_eqb r x then 0 else S (index_r r l') end.

Definition outs (k : kd) : list (result (list mgate)) := dedupe_r (map (fres k) (canons k)).
Definition idxs (k : kd) : list nat := let o := outs k in map (fun r => index_r r o) (map (fres k) (canons k)).
(* the semantic obligations of a list of kinds: every distinct decomposition of every kind *)
Definition obls_ok (ks : list kd) : bool := forallb (fun k => forallb (ok_res k) (outs k)) ks.
(* every decomposition under a canonical configuration is one of the distinct ones (or a refusal) *)
Definition outs_eq (ks : list kd) : Prop :=
  map (fun k => map (fres k) (canons k)) ks = map (fun k => let o := outs k in map (fun i => nth i o Error) (idxs k)) ks.

(* the kinds, split for parallel compilation *)
Definition kslice (i : nat) : list kd :=
  match i with
  | 0 => firstn 11 kinds
  | 1 => firstn 6 (skipn 11 kinds)
  | 2 => firstn 1 (skipn 17 kinds)
  | _ => skipn 18 kinds
  end%nat.
