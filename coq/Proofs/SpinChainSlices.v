(* C06, composition layer, part 1 (independent of the spin chain): the ordered product of slice propagators over a
   merged grid equals the ordered product of one propagator per instruction window.

   The slice list is characterised by C14's own predicate Spec/FillSpec.slices_ok (what Props/C14.v
   slices_are_piecewise_H proves of the loop of run_analytically): the slices tile the grid in order and on every
   slice the coefficient vector is (c_m(t))_m.  The slice propagator P (coefficient vector) (duration) is an ABSTRACT
   Section variable (the matrix exponential is external); only the laws below are used. *)
From Coq Require Import QArith Qabs List Bool Lia Lqa FunctionalExtensionality.
From QV Require Import Model.Fill Spec.FillSpec.
Import ListNotations.
Open Scope Q_scope.

Fixpoint incr (l : list Q) : Prop :=
  match l with
  | a :: ((b :: _) as r) => a < b /\ incr r
  | _ => True
  end.

Lemma incr_last_ge l : forall a d, incr (a :: l) -> a <= last (a :: l) d.
Proof.
  induction l as [|b l IH]; intros a d H; [cbn; lra|].
  destruct H as [Hab Hr]. specialize (IH b d Hr). change (last (a :: b :: l) d) with (last (b :: l) d). lra.
Qed.

Section Slices.
Variable St : Type.
Variable P : list Q -> Q -> St -> St.
(* laws of the slice propagator  P h t = "exp(-i t sum_m h_m H_m)" *)
Hypothesis P_time : forall h a b s, a == b -> P h a s = P h b s.
Hypothesis P_zero : forall h s, P h 0 s = s.
Hypothesis P_add : forall h a b s, 0 <= a -> 0 <= b -> P h (a + b) s = P h b (P h a s).
Hypothesis P_idle : forall h t s, Forall (fun c => c == 0) h -> P h t s = s.

Definition prop_slices (sl : list (Q * list Q)) (s : St) : St :=
  fold_left (fun x e => P (snd e) (fst e) x) sl s.

Lemma prop_app sl1 sl2 s : prop_slices (sl1 ++ sl2) s = prop_slices sl2 (prop_slices sl1 s).
Proof. unfold prop_slices. apply fold_left_app. Qed.

Variable fs : list (Q -> Q).
Definition vec (t : Q) : list Q := map (fun f => f t) fs.

(* one window with a constant coefficient vector *)
Lemma const_window h F sl : slices_ok fs F sl -> incr F -> F <> [] ->
  (forall t, hd 0 F <= t -> t < last F 0 -> vec t = h) ->
  forall s, prop_slices sl s = P h (last F 0 - hd 0 F) s.
Proof.
  induction 1 as [|t|t1 t2 F dt cs sl Hdt Hcs Hrest IH]; intros Hi Hne Hw s.
  - contradiction.
  - cbn. rewrite (P_time h (t - t) 0) by lra. rewrite P_zero. reflexivity.
  - destruct Hi as [H12 Hi].
    assert (Hle : t2 <= last (t2 :: F) 0) by (apply incr_last_ge; exact Hi).
    change (last (t1 :: t2 :: F) 0) with (last (t2 :: F) 0) in *. cbn [hd] in *.
    assert (Ecs : cs = h). { rewrite (Hcs t1) by lra. apply Hw; lra. }
    cbn [prop_slices fold_left fst snd]. fold (prop_slices sl). rewrite IH; [|exact Hi|discriminate|].
    + cbn [hd]. subst cs dt. rewrite <- P_add by lra. apply P_time. lra.
    + intros t Ht1 Ht2. cbn [hd] in Ht1. apply Hw; lra.
Qed.

Lemma idle_slices F sl : slices_ok fs F sl -> incr F ->
  (forall t, hd 0 F <= t -> Forall (fun c => c == 0) (vec t)) -> forall s, prop_slices sl s = s.
Proof.
  induction 1 as [|t|t1 t2 F dt cs sl Hdt Hcs Hrest IH]; intros Hi Hz s; try reflexivity.
  destruct Hi as [H12 Hi]. cbn [prop_slices fold_left fst snd]. fold (prop_slices sl). cbn [hd] in *.
  rewrite IH; [|exact Hi|intros t Ht; apply Hz; cbn [hd] in Ht; lra].
  apply P_idle. rewrite (Hcs t1) by lra. apply Hz. lra.
Qed.

Lemma slices_split G1 : forall b G2 sl, slices_ok fs (G1 ++ b :: G2) sl ->
  exists sl1 sl2, sl = sl1 ++ sl2 /\ slices_ok fs (G1 ++ [b]) sl1 /\ slices_ok fs (b :: G2) sl2.
Proof.
  induction G1 as [|a G1 IH]; intros b G2 sl H.
  - exists [], sl. split; [reflexivity|]. split; [constructor|exact H].
  - destruct G1 as [|a2 G1].
    + cbn [app] in *. inversion H as [| |t1 t2 F dt cs sl' Hdt Hcs Hrest]; subst.
      exists [(b - a, cs)], sl'. split; [reflexivity|]. split; [|exact Hrest].
      econstructor; [reflexivity|exact Hcs|constructor].
    + cbn [app] in H. inversion H as [| |t1 t2 F dt cs sl' Hdt Hcs Hrest]; subst.
      destruct (IH b G2 sl' Hrest) as [sl1 [sl2 [-> [H1 H2]]]].
      exists ((a2 - a, cs) :: sl1), sl2. split; [reflexivity|]. split; [|exact H2].
      cbn [app]. econstructor; [reflexivity|exact Hcs|exact H1].
Qed.

(* ---- instruction windows ---- *)
Definition win := (Q * list Q)%type.            (* duration, coefficient vector during the window *)

(* the coefficient vector as a function of time: h_j throughout window j (windows follow each other without gap from
   time s on), zero after the last window *)
Fixpoint wave_is (s : Q) (ws : list win) : Prop :=
  match ws with
  | [] => forall t, s <= t -> Forall (fun c => c == 0) (vec t)
  | (d, h) :: r => (forall t, s <= t -> t < s + d -> vec t = h) /\ wave_is (s + d) r
  end.

Lemma wave_is_shift ws : forall s s', s == s' -> wave_is s ws -> wave_is s' ws.
Proof.
  induction ws as [|[d h] r IH]; intros s s' E H; cbn [wave_is] in *.
  - intros t Ht. apply H. lra.
  - destruct H as [H1 H2]. split; [intros t A B; apply H1; lra|]. apply (IH (s + d)); [lra|exact H2].
Qed.

(* the grid contains the window boundaries: it is the concatenation of one segment per window, consecutive segments
   sharing their boundary point; after the last window any increasing tail *)
Inductive grid_windows : Q -> list win -> list Q -> Prop :=
| gw_nil : forall s a F, a == s -> incr (a :: F) -> grid_windows s [] (a :: F)
| gw_cons : forall s d h ws pre b G2,
    incr (pre ++ [b]) -> hd 0 (pre ++ [b]) == s -> b == s + d ->
    grid_windows (s + d) ws (b :: G2) ->
    grid_windows s ((d, h) :: ws) (pre ++ b :: G2).

Definition prop_windows (ws : list win) (s : St) : St := fold_left (fun x w => P (snd w) (fst w) x) ws s.

Lemma last_snoc (l : list Q) b d : last (l ++ [b]) d = b.
Proof. apply last_last. Qed.

Theorem windows_prop ws : forall s full sl,
  grid_windows s ws full -> slices_ok fs full sl -> wave_is s ws ->
  forall x, prop_slices sl x = prop_windows ws x.
Proof.
  induction ws as [|[d h] ws IH]; intros s full sl G S W x; inversion G; subst.
  - cbn [prop_windows fold_left]. apply (idle_slices (a :: F) sl S); [assumption|].
    intros t Ht. cbn [hd] in Ht. apply W. lra.
  - destruct (slices_split pre b G2 sl S) as [sl1 [sl2 [-> [S1 S2]]]].
    destruct W as [W1 W2]. rewrite prop_app.
    rewrite (const_window h (pre ++ [b]) sl1 S1); [| assumption | destruct pre; discriminate |].
    + rewrite last_snoc. cbn [prop_windows fold_left fst snd]. fold (prop_windows ws).
      rewrite (IH (s + d) (b :: G2) sl2); [|assumption|assumption|exact W2].
      unfold prop_windows. f_equal. apply P_time. lra.
    + rewrite last_snoc. intros t A B. apply W1; lra.
Qed.
End Slices.
