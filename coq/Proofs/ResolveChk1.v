(* C03: semantic obligations (every canonical basis configuration) for the gate kinds of slice 1 *)
From QV Require Import Model.Resolve Proofs.ResolveChkDefs.
Lemma chk_sem_1 : obls_ok (kslice 1) = true.
Proof. vm_compute. reflexivity. Qed.
