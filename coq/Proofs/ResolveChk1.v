(* C03: semantic obligations for basis configurations 64 .. 127 of all_cfgs (20 gate kinds each) *)
From QV Require Import Model.Resolve Proofs.ResolveChkDefs.
Lemma chk_sem_1 : sem_ok (slice 1) = true.
Proof. vm_compute. reflexivity. Qed.
