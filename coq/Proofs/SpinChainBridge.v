(* C06 x C13, bridge: the per-instruction and circuit-level theorems of Proofs/SpinChainSem.v restated so that every gate of
   the transpiled circuit is denoted exactly as C13's transpile_sem denotes it -- with the atoms of its SOURCE gate
   (gsrc) and its argument expressions over the source parameters substituted into the matrices (gargs) -- so that the
   composition with transpile_sem needs no hypothesis about transpilation. *)
From Coq Require Import ZArith QArith String List Bool Lia FunctionalExtensionality.
From QV Require Import Found.Base Found.Lemmas Found.KS Found.KSProofs Found.Sym Found.SymProofs Found.Circ Found.Comm
  Gen.Gates Model.SpinChainTypes Gen.SpinChain Model.Concat Model.SpinChain Spec.SpinChainSpec
  Proofs.SpinChainCal Proofs.SpinChainRule Proofs.SpinChainSem.
Import ListNotations.
Local Open Scope string_scope.

(* ---- the local symbolic check under a matrix transformer T (T = msubst args) ---- *)
Definition sem_okT (T : mexp -> mexp) (name : string) : bool :=
  match gate_cal name, lib_matrix name with
  | Some (k, s, a), Some m =>
      match pulse_phase s a with
      | Some ph =>
          match k with
          | HXY => scirc_eqb 2 [(T (msubst [ph] (closed k)), [0; 1])] [(T m, [0; 1])] &&
                   scirc_eqb 2 [(T (msubst [ph] (closed k)), [1; 0])] [(T m, [0; 1])]
          | _ => scirc_eqb 1 [(T (msubst [ph] (closed k)), [0])] [(T m, [0])]
          end
      | None => false end
  | _, _ => false
  end%nat.

Lemma sem_okT_1q T name k s a m t :
  gate_cal name = Some (k, s, a) -> lib_matrix name = Some m -> sem_okT T name = true -> hqubits k = 1%nat ->
  exists ph, pulse_phase s a = Some ph /\
    forall (R : PhaseRing) (A : atoms R), sem [gden R A (T (msubst [ph] (closed k)), [t])] = sem [gden R A (T m, [t])].
Proof.
  intros Hc Hm. unfold sem_okT. rewrite Hc, Hm. destruct (pulse_phase s a) as [ph|]; [|discriminate].
  intros H Hk. exists ph. split; [reflexivity|]. intros R A.
  destruct k; try discriminate;
    (pose proof (rule_sound R A 1 _ _ [t] H (NoDup_cons t (@in_nil _ t) (NoDup_nil _)) eq_refl) as E;
     rewrite !place1 in E; exact E).
Qed.

Lemma sem_okT_2q T name k s a m x y :
  gate_cal name = Some (k, s, a) -> lib_matrix name = Some m -> sem_okT T name = true -> hqubits k = 2%nat -> x <> y ->
  exists ph, pulse_phase s a = Some ph /\ forall (R : PhaseRing) (A : atoms R),
    sem [gden R A (T (msubst [ph] (closed k)), [x; y])] = sem [gden R A (T m, [x; y])] /\
    sem [gden R A (T (msubst [ph] (closed k)), [y; x])] = sem [gden R A (T m, [x; y])].
Proof.
  intros Hc Hm. unfold sem_okT. rewrite Hc, Hm. destruct (pulse_phase s a) as [ph|]; [|discriminate].
  intros H Hk Hxy. exists ph. split; [reflexivity|]. intros R A. destruct k; try discriminate.
  apply andb_prop in H. destruct H as [H1 H2].
  assert (Hnd : NoDup [x; y]).
  { constructor; [intros [E|[]]; apply Hxy; symmetry; exact E|]. constructor; [intros []|constructor]. }
  split.
  - pose proof (rule_sound R A 2 _ _ [x; y] H1 Hnd eq_refl) as E. rewrite !place2 in E. exact E.
  - pose proof (rule_sound R A 2 _ _ [x; y] H2 Hnd eq_refl) as E. rewrite place2r, place2 in E. exact E.
Qed.

(* one instruction, matrices transformed by T: the pulse of the compiled label = the gate on its targets *)
Theorem instr_is_gate_T (T : mexp -> mexp) c g d lb co :
  setup_ok c -> wf_pulse_gate c g -> compile_gate c g = Ok (CInstr d [(lb, co)]) -> sem_okT T (g_name g) = true ->
  exists M tp m, pulse_sgate c (g_name g) lb = Some (M, tp) /\ lib_matrix (g_name g) = Some m /\
                 forall (R : PhaseRing) (A : atoms R), sem [gden R A (T M, tp)] = sem [gden R A (T m, g_targets g)].
Proof.
  intros Hs [Hin [Hnd [Hr Hlen]]] Hc Hok. 
  destruct g as [name ts arg]. cbn [g_name g_targets] in *.
  unfold pulse_gates in Hin. cbn in Hin. destruct Hin as [<-|[<-|[<-|[<-|[]]]]].
  - (* ISWAP *)
    change (gate_cal "ISWAP") with (Some (HXY, fam_scale "g", area_of "ISWAP")) in Hlen. cbn [hqubits] in Hlen.
    destruct ts as [|x [|y [|? ?]]]; try discriminate.
    unfold compile_gate in Hc. cbn [g_name] in Hc.
    change (SpinChain.assoc "ISWAP" gate_methods) with (Some (MSwap (area_of "ISWAP"))) in Hc. cbv beta iota in Hc.
    destruct (swap_compiles_coupled c (mkG "ISWAP" [x; y] arg) _ _ Hs Hr Hc) as [q1 [q2 [lb' [co' [du [tz [H1 [H2 [Hcp [Hi [Hctl Ho]]]]]]]]]]].
    injection Hi as <- <- <-. cbn [g_targets zmin zmax fold_left] in H1, H2. injection H1 as <-. injection H2 as <-.
    assert (Hxy : x <> y) by (inversion Hnd as [|? ? Hn _]; intro E; apply Hn; left; symmetry; exact E).
    destruct (sem_okT_2q T "ISWAP" HXY (fam_scale "g") (area_of "ISWAP") _ x y eq_refl eq_refl Hok eq_refl Hxy) as [ph [Hph E12]].
    assert (Hfam : family_of (fst lb) = Some (mkCF "g" HXY (fam_scale "g") INumCoupling [ILoop; IMod (IAdd ILoop (IConst 1)) IN])).
    { unfold swap_compiler in Hc. destruct (swap_label c _) as [l0|] eqn:El; [|discriminate]. cbn [rbind] in Hc.
      assert (lb = l0).
      { repeat match type of Hc with rbind ?x _ = _ => destruct x; cbn [rbind] in Hc; [|discriminate] end.
        injection Hc as _ <- _. reflexivity. }
      subst l0. unfold swap_label, swap_label_with in El. cbn [g_targets] in El. rewrite rule_closed_form in El.
      unfold family_of.
      destruct (_ =? 1)%Z; [|destruct (_ && _ && _)%bool; [|discriminate]];
        (destruct (ieval _ _); [|discriminate]; injection El as <-; cbn [fst]; rewrite family_g; reflexivity). }
    unfold pulse_sgate. cbn [g_name g_targets]. rewrite Hctl, Hfam.
    change (method_area "ISWAP") with (Some (area_of "ISWAP")). cbn [cf_scale cf_kind] in Hph |- *. rewrite Hph.
    change (lib_matrix "ISWAP") with (Some fn_iswap).
    eexists. eexists. eexists. split; [reflexivity|]. split; [reflexivity|].
    destruct (pair_of_minmax x y Hxy) as [[Ea Eb]|[Ea Eb]]; destruct Ho as [->| ->]; cbn [map]; rewrite Ea, Eb, !Nat2Z.id; intros R A; apply (E12 R A).
  - (* RX *)
    change (gate_cal "RX") with (Some (HX, fam_scale "sx", rot_area)) in Hlen. cbn [hqubits] in Hlen.
    destruct ts as [|t [|? ?]]; try discriminate.
    unfold compile_gate in Hc. cbn [g_name] in Hc. change (SpinChain.assoc "RX" gate_methods) with (Some (MRot "sx" "sx")) in Hc. cbv beta iota in Hc.
    rewrite (rotation_label c (mkG "RX" [t] arg) _ _ _ _ _ t eq_refl Hc).
    destruct (sem_okT_1q T "RX" HX (fam_scale "sx") rot_area _ t eq_refl eq_refl Hok eq_refl) as [ph [Hph E]].
    unfold pulse_sgate, family_of. cbn [fst g_name g_targets].
    rewrite (control_1q c "sx" _ _ (Z.of_nat t) family_sx eq_refl eq_refl) by (inversion Hr; lia).
    rewrite family_sx. change (method_area "RX") with (Some rot_area). cbn [cf_scale cf_kind] in Hph |- *. rewrite Hph.
    change (lib_matrix "RX") with (Some (msubst [Var 0] fn_rx)).
    eexists. eexists. eexists. split; [reflexivity|]. split; [reflexivity|]. cbn [map]. rewrite Nat2Z.id. exact E.
  - (* RZ *)
    change (gate_cal "RZ") with (Some (HZ, fam_scale "sz", rot_area)) in Hlen. cbn [hqubits] in Hlen.
    destruct ts as [|t [|? ?]]; try discriminate.
    unfold compile_gate in Hc. cbn [g_name] in Hc. change (SpinChain.assoc "RZ" gate_methods) with (Some (MRot "sz" "sz")) in Hc. cbv beta iota in Hc.
    rewrite (rotation_label c (mkG "RZ" [t] arg) _ _ _ _ _ t eq_refl Hc).
    destruct (sem_okT_1q T "RZ" HZ (fam_scale "sz") rot_area _ t eq_refl eq_refl Hok eq_refl) as [ph [Hph E]].
    unfold pulse_sgate, family_of. cbn [fst g_name g_targets].
    rewrite (control_1q c "sz" _ _ (Z.of_nat t) family_sz eq_refl eq_refl) by (inversion Hr; lia).
    rewrite family_sz. change (method_area "RZ") with (Some rot_area). cbn [cf_scale cf_kind] in Hph |- *. rewrite Hph.
    change (lib_matrix "RZ") with (Some (msubst [Var 0] fn_rz)).
    eexists. eexists. eexists. split; [reflexivity|]. split; [reflexivity|]. cbn [map]. rewrite Nat2Z.id. exact E.
  - (* SQRTISWAP *)
    change (gate_cal "SQRTISWAP") with (Some (HXY, fam_scale "g", area_of "SQRTISWAP")) in Hlen. cbn [hqubits] in Hlen.
    destruct ts as [|x [|y [|? ?]]]; try discriminate.
    unfold compile_gate in Hc. cbn [g_name] in Hc.
    change (SpinChain.assoc "SQRTISWAP" gate_methods) with (Some (MSwap (area_of "SQRTISWAP"))) in Hc. cbv beta iota in Hc.
    destruct (swap_compiles_coupled c (mkG "SQRTISWAP" [x; y] arg) _ _ Hs Hr Hc) as [q1 [q2 [lb' [co' [du [tz [H1 [H2 [Hcp [Hi [Hctl Ho]]]]]]]]]]].
    injection Hi as <- <- <-. cbn [g_targets zmin zmax fold_left] in H1, H2. injection H1 as <-. injection H2 as <-.
    assert (Hxy : x <> y) by (inversion Hnd as [|? ? Hn _]; intro E; apply Hn; left; symmetry; exact E).
    destruct (sem_okT_2q T "SQRTISWAP" HXY (fam_scale "g") (area_of "SQRTISWAP") _ x y eq_refl eq_refl Hok eq_refl Hxy) as [ph [Hph E12]].
    assert (Hfam : family_of (fst lb) = Some (mkCF "g" HXY (fam_scale "g") INumCoupling [ILoop; IMod (IAdd ILoop (IConst 1)) IN])).
    { unfold swap_compiler in Hc. destruct (swap_label c _) as [l0|] eqn:El; [|discriminate]. cbn [rbind] in Hc.
      assert (lb = l0).
      { repeat match type of Hc with rbind ?x _ = _ => destruct x; cbn [rbind] in Hc; [|discriminate] end.
        injection Hc as _ <- _. reflexivity. }
      subst l0. unfold swap_label, swap_label_with in El. cbn [g_targets] in El. rewrite rule_closed_form in El.
      unfold family_of.
      destruct (_ =? 1)%Z; [|destruct (_ && _ && _)%bool; [|discriminate]];
        (destruct (ieval _ _); [|discriminate]; injection El as <-; cbn [fst]; rewrite family_g; reflexivity). }
    unfold pulse_sgate. cbn [g_name g_targets]. rewrite Hctl, Hfam.
    change (method_area "SQRTISWAP") with (Some (area_of "SQRTISWAP")). cbn [cf_scale cf_kind] in Hph |- *. rewrite Hph.
    change (lib_matrix "SQRTISWAP") with (Some fn_sqrtiswap).
    eexists. eexists. eexists. split; [reflexivity|]. split; [reflexivity|].
    destruct (pair_of_minmax x y Hxy) as [[Ea Eb]|[Ea Eb]]; destruct Ho as [->| ->]; cbn [map]; rewrite Ea, Eb, !Nat2Z.id; intros R A; apply (E12 R A).
Qed.
