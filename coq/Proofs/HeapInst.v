(* C16 -- the generated obligation (flags of the current sources) and the refutation witnesses *)
From Coq Require Import List Arith Bool Lia.
From QV Require Import Model.Heap Proofs.HeapBase Proofs.HeapPure Proofs.HeapFresh Proofs.HeapClosed Proofs.HeapRepeat Gen.Purity.
Import ListNotations.

(* obligation generated from the sources: every defensive copy / reset the theorems rest on is in place *)
Lemma src_flags_ok : flags_ok src_flags = true.
Proof. vm_compute. reflexivity. Qed.

Lemma src_flags_pure : flags_pure src_flags = true.
Proof. vm_compute. reflexivity. Qed.

(* ---- a small concrete world: one circuit (SNOT q0; M q0 -> c0; X q1 if c0) with 2 classical bits,
        a caller cbits list [0;0], a gate with unsorted targets, one simulator, one compiler, one processor ---- *)
Definition ex_heap : heap :=
  [ [Tok 0]                                          (* 0: targets of gate 0 *)
  ; [Tok 1; Ref 0; Tok 0; Tok 0; Tok 0; Tok 0]       (* 1: SNOT q0 *)
  ; [Tok 0]                                          (* 2 *)
  ; [Tok 0; Ref 2; Tok 0; Tok 0; Tok 0; Tok 1]       (* 3: measurement q0 -> c0 *)
  ; [Tok 2; Tok 0]                                   (* 4: unsorted targets [2;0] *)
  ; [Tok 1; Ref 4; Tok 0; Tok 0; Tok 0; Tok 0]       (* 5: ISWAP [2;0] *)
  ; [Ref 1; Ref 3; Ref 5]                            (* 6: gates *)
  ; [Tok 0; Tok 0; Tok 0]                            (* 7: input_states *)
  ; [Tok 0; Tok 0; Tok 0]                            (* 8: output_states *)
  ; [Ref 6; Tok 3; Tok 2; Ref 7; Ref 8]              (* 9: the circuit *)
  ; [Tok 0; Tok 0] ].                                (* 10: the caller's cbits list *)

Definition ex_world : world :=
  mkWorld ex_heap [mkSim (Ref 9) false (Tok 0) 0] [mkComp 0 0 0 0] [mkProc [] 0 1 true [] 0].

Definition good_flags : flags :=
  mkFlags true true true true true true true true true true true true true true true true true true true true true.
(* the unchanged code base (before the fixes proposed for C16 and C02) *)
Definition shipped_flags : flags :=
  mkFlags true true true true false false true false true true true false true true true true true true true false false.

Lemma good_flags_ok : flags_ok good_flags = true.
Proof. reflexivity. Qed.

(* (a) shipped: run(state, cbits=cb) with measurement outcome 1 changes the caller's list and the result holds it *)
Lemma cbits_by_reference_refuted :
  exists w' r, exec shipped_flags ex_world (CSimRun 0 (Ref 10) 1 [1]) = Some (w', r) /\
               nth_error (hp w') 10 <> nth_error (hp ex_world) 10 /\
               meets (reachl FUEL (hp w') r) [10] = true.
Proof. eexists. eexists. split; [vm_compute; reflexivity|]. split; [vm_compute; discriminate|reflexivity]. Qed.

(* with the copy the same call leaves the list alone and the result does not reach it *)
Example cbits_copied_ok :
  exists w' r, exec good_flags ex_world (CSimRun 0 (Ref 10) 1 [1]) = Some (w', r) /\
               nth_error (hp w') 10 = nth_error (hp ex_world) 10 /\
               meets (reachl FUEL (hp w') r) [10] = false.
Proof. eexists. eexists. split; [vm_compute; reflexivity|]. split; reflexivity. Qed.

(* (b) shipped: a user-supplied compiler accumulates its recorded global phase: the second identical
       compile call returns something else, and a used compiler differs from a fresh one *)
Lemma compiler_phase_accumulates_refuted :
  exists w1 r1 w2 r2,
    exec shipped_flags ex_world (CCompile 0 (Ref 9) true 0 1) = Some (w1, r1) /\
    exec shipped_flags w1 (CCompile 0 (Ref 9) true 0 1) = Some (w2, r2) /\
    objof (hp w1) r1 <> objof (hp w2) r2.
Proof. do 4 eexists. split; [vm_compute; reflexivity|]. split; [vm_compute; reflexivity|]. vm_compute. discriminate. Qed.

Lemma compiler_args_persist_refuted :
  exists w1 r1 w2 r2 w3 r3,
    exec shipped_flags ex_world (CCompile 0 (Ref 9) true 2 0) = Some (w1, r1) /\
    exec shipped_flags w1 (CCompile 0 (Ref 9) true 0 0) = Some (w2, r2) /\
    exec shipped_flags ex_world (CCompile 0 (Ref 9) true 0 0) = Some (w3, r3) /\
    objof (hp w2) r2 <> objof (hp w3) r3.
Proof. do 6 eexists. repeat (split; [vm_compute; reflexivity|]). vm_compute. discriminate. Qed.

(* (c) shipped: reverse_circuit, to_chain_structure and add_circuit return circuits that share mutable objects
       with the circuit passed in *)
Lemma reverse_aliases_refuted :
  exists w' r, exec shipped_flags ex_world (CReverse (Ref 9)) = Some (w', r) /\
               meets (reachl FUEL (hp w') r) (reachl FUEL (hp w') (Ref 9)) = true.
Proof. do 2 eexists. split; [vm_compute; reflexivity|reflexivity]. Qed.

Lemma chain_aliases_refuted :
  exists w' r, exec shipped_flags ex_world (CChain (Ref 9) [1; 1; 0]) = Some (w', r) /\
               meets (reachl FUEL (hp w') r) (reachl FUEL (hp w') (Ref 9)) = true.
Proof. do 2 eexists. split; [vm_compute; reflexivity|reflexivity]. Qed.

Definition ex_heap_listarg : heap :=
  [ [Tok 1]; [Tok 3; Tok 4]; [Tok 1; Ref 0; Tok 0; Ref 1; Tok 0; Tok 0]; [Ref 2]; [Tok 0; Tok 0]; [Tok 0; Tok 0];
    [Ref 3; Tok 2; Tok 0; Ref 4; Ref 5] ].

Lemma add_circuit_aliases_refuted :
  exists w' r, exec shipped_flags (mkWorld ex_heap_listarg [] [] []) (CAddCircuit (Ref 6)) = Some (w', r) /\
               meets (reachl FUEL (hp w') r) (reachl FUEL (hp w') (Ref 6)) = true.
Proof. do 2 eexists. split; [vm_compute; reflexivity|reflexivity]. Qed.

Example passes_fresh_when_fixed :
  forall c, In c [CReverse (Ref 9); CChain (Ref 9) [1; 1; 0]; CResolve (Ref 9); CAdjacent (Ref 9); CAddCircuit (Ref 9)] ->
  exists w' r, exec good_flags ex_world c = Some (w', r) /\
               meets (reachl FUEL (hp w') r) (reachl FUEL (hp w') (Ref 9)) = false.
Proof.
  intros c [<-|[<-|[<-|[<-|[<-|[]]]]]]; do 2 eexists; (split; [vm_compute; reflexivity|reflexivity]).
Qed.

(* what the defensive copies protect: without Instruction's deepcopy the caller's gate is sorted in place *)
Definition no_instr_copy : flags :=
  mkFlags true true true true true true true true true true false true true true true true true true true true true.
Lemma instr_copy_needed :
  exists w' r, exec no_instr_copy ex_world (CInstr (Ref 5)) = Some (w', r) /\
               nth_error (hp w') 4 <> nth_error (hp ex_world) 4.
Proof. do 2 eexists. split; [vm_compute; reflexivity|vm_compute; discriminate]. Qed.

(* an 8-call history on shared objects satisfying the hypotheses of history_pure *)
Definition ex_history : list call :=
  [CSimRun 0 (Ref 10) 1 [1]; CSimRun 0 (Tok 0) 1 [0]; CSimStats 0 (Ref 10) 2; CReverse (Ref 9);
   CSchedule (Ref 9) true; CInstr (Ref 5); CCompile 0 (Ref 9) true 1 1; CLoad 0 (Ref 9) (Some 0) (Some [1; 1; 0]) true 1].

Example history_example :
  hist_guard good_flags ex_world ex_history = true /\ hist_wf good_flags ex_world ex_history /\
  exists w' rs, run_hist good_flags ex_world ex_history = Some (w', rs) /\ length rs = 8 /\ length (hp ex_world) < length (hp w').
Proof.
  split; [vm_compute; reflexivity|]. split.
  - vm_compute. repeat split; intros l H; inversion H; subst; repeat constructor.
  - do 2 eexists. split; [vm_compute; reflexivity|]. split; [reflexivity|]. vm_compute. repeat constructor.
Qed.

Example result_fresh_example :
  exists w' l, exec good_flags ex_world (CSimStats 0 (Ref 10) 2) = Some (w', Ref l) /\ length (hp ex_world) <= l /\
               guard good_flags ex_world (CSimStats 0 (Ref 10) 2) = true /\ call_wf ex_world (CSimStats 0 (Ref 10) 2).
Proof.
  do 2 eexists. split; [vm_compute; reflexivity|]. split; [vm_compute; repeat constructor|]. split; [reflexivity|].
  vm_compute. split; intros l H; inversion H; subst; repeat constructor.
Qed.

(* ---------- stage 3: the sources copy the caller's cbits, so the guard is vacuous for them ---------- *)
Lemma src_cbits_copy : f_sim_cbits_copy src_flags = true.
Proof. vm_compute. reflexivity. Qed.

Lemma hist_guard_copy fl : f_sim_cbits_copy fl = true -> forall hist w, hist_guard fl w hist = true.
Proof.
  intros Hc. induction hist as [|c rest IH]; simpl; intros w; auto.
  unfold guard. rewrite Hc. simpl. destruct (exec fl w c) as [[w1 r]|]; auto.
Qed.

Lemma guard_copy fl w c : f_sim_cbits_copy fl = true -> guard fl w c = true.
Proof. intros Hc. unfold guard. now rewrite Hc. Qed.

Lemma src_flags_fresh : flags_fresh src_flags = true.
Proof. pose proof src_flags_ok as H. unfold flags_ok in H. apply andb_prop in H. apply H. Qed.

Lemma src_flags_service : flags_service src_flags = true.
Proof. pose proof src_flags_ok as H. unfold flags_ok in H. apply andb_prop in H. apply H. Qed.

(* the theorems for the CURRENT sources, without any guard *)
Theorem history_pure_src hist w w' rs :
  hist_wf src_flags w hist -> run_hist src_flags w hist = Some (w', rs) ->
  forall l, l < length (hp w) -> nth_error (hp w') l = nth_error (hp w) l.
Proof.
  intros Hwf E. eapply history_pure_lemma; eauto.
  - apply src_flags_pure.
  - apply hist_guard_copy, src_cbits_copy.
Qed.

Theorem results_unaliased_src hist w w' rs :
  world_ok w -> hist_ok src_flags w hist -> run_hist src_flags w hist = Some (w', rs) ->
  (forall v m, val_ok (length (hp w)) v -> reach (hp w') v m -> reach (hp w) v m /\ m < length (hp w)) /\
  (forall r m, In r rs -> reach (hp w') r m -> length (hp w) <= m) /\
  (forall i j ri rj m, i < j -> nth_error rs i = Some ri -> nth_error rs j = Some rj ->
                       reach (hp w') ri m -> reach (hp w') rj m -> False).
Proof.
  intros Hw Hok E. eapply results_unaliased_lemma; eauto.
  - apply src_flags_fresh.
  - apply hist_guard_copy, src_cbits_copy.
Qed.

Theorem history_repeatable_src w c w1 r1 w2 r2 :
  world_ok w -> call_ok w c ->
  exec src_flags w c = Some (w1, r1) -> exec src_flags w1 c = Some (w2, r2) -> iso (hp w1) r1 (hp w2) r2.
Proof.
  intros Hw Hc E1 E2. eapply history_repeatable_lemma; eauto.
  - apply src_flags_pure.
  - apply src_flags_service.
  - apply guard_copy, src_cbits_copy.
Qed.

(* non-vacuity of the stage-3 hypotheses *)
Example ex_world_ok : world_ok ex_world.
Proof.
  split.
  - intros l o E. do 11 (destruct l as [|l]; [inversion E; subst; repeat constructor; simpl; lia|]).
    destruct l; discriminate.
  - repeat constructor.
Qed.

Example ex_history_ok : hist_ok good_flags ex_world ex_history.
Proof. vm_compute. repeat split; repeat constructor. Qed.

(* reverse_circuit twice: two different objects, equal as structures *)
Example repeat_example :
  exists w1 r1 w2 r2, exec good_flags ex_world (CReverse (Ref 9)) = Some (w1, r1) /\
                      exec good_flags w1 (CReverse (Ref 9)) = Some (w2, r2) /\ r1 <> r2 /\
                      snap FUEL (hp w1) r1 = snap FUEL (hp w2) r2 /\ call_ok ex_world (CReverse (Ref 9)).
Proof.
  do 4 eexists. split; [vm_compute; reflexivity|]. split; [vm_compute; reflexivity|].
  split; [discriminate|]. split; [vm_compute; reflexivity|]. simpl. lia.
Qed.

(* round 4: no state outside the objects on the pulse-shape path (generated obligation) *)
Lemma src_shape_path_stateless_ok : src_shape_path_stateless = true.
Proof. vm_compute. reflexivity. Qed.
