(* C01 - totality of the compact product model: for every non-empty gate list whose index lists are non-empty and
   duplicate-free (arity of each matrix = length of its index list is built into the model), under an ascending
   enumeration of merged index sets, [gsp] returns a value - every expand_operator check, dict lookup and tensor call
   succeeds and the fuel suffices (each recursive call is on a strictly shorter suffix).  The returned index list is the
   sorted list of distinct qubits. *)
From Coq Require Import List Arith Bool Lia Permutation Sorted.
Import ListNotations.
From QV Require Import Model.GSP Proofs.GSPLists Proofs.GSPSem.

(* ---------------- list facts ---------------- *)
Lemma index_of_In x l : In x l -> exists i, index_of x l = Some i.
Proof.
  induction l as [|y l IH]; simpl; intros H; [contradiction|].
  destruct (Nat.eqb_spec x y) as [E|E]; [eexists; reflexivity|].
  destruct H as [H|H]; [congruence|]. destruct (IH H) as [i Hi]. rewrite Hi. eexists; reflexivity.
Qed.

Lemma map_opt_total {A B} (f : A -> option B) l : (forall x, In x l -> exists y, f x = Some y) ->
  exists r, map_opt f l = Some r.
Proof.
  induction l as [|x l IH]; intros H; simpl; [eexists; reflexivity|].
  destruct (H x (or_introl eq_refl)) as [y Hy]. rewrite Hy.
  destruct IH as [r Hr]; [intros; apply H; right; assumption|]. rewrite Hr. eexists; reflexivity.
Qed.

Lemma dict_get_In x l : forall s, In x l -> exists i, dict_get x (combine l (seq s (length l))) = Some i.
Proof.
  induction l as [|y l IH]; intros s H; simpl in *; [contradiction|].
  destruct (dict_get x (combine l (seq (S s) (length l)))) as [w|] eqn:E; [eexists; reflexivity|].
  destruct (Nat.eqb_spec x y) as [Exy|Exy]; [eexists; reflexivity|].
  destruct H as [H|H]; [congruence|]. destruct (IH (S s) H) as [i Hi]. congruence.
Qed.

Lemma NoDup_app_intro {A} (a b : list A) : NoDup a -> NoDup b -> (forall x, In x a -> In x b -> False) -> NoDup (a ++ b).
Proof.
  induction 1 as [|x a Hx Ha IH]; intros Hb Hd; simpl; [exact Hb|]. constructor.
  - rewrite in_app_iff. intros [H|H]; [contradiction| apply (Hd x); [left; reflexivity| exact H]].
  - apply IH; [exact Hb|]. intros y Hy. apply Hd. right. exact Hy.
Qed.

Lemma NoDup_app_inv {A} (a b : list A) : NoDup (a ++ b) -> NoDup a /\ NoDup b /\ forall x, In x a -> In x b -> False.
Proof.
  induction a as [|x a IH]; simpl; intros H.
  - repeat split; [constructor| exact H| intros ? []].
  - inversion H as [|? ? Hx Hab]; subst. destruct (IH Hab) as [Ha [Hb Hd]]. rewrite in_app_iff in Hx.
    repeat split; [constructor; tauto| exact Hb|]. intros y [Hy|Hy] Hyb; [subst; tauto| eapply Hd; eauto].
Qed.

Lemma flat_filter_perm (p : block -> bool) (bs : list block) :
  Permutation (flat_map snd bs) (flat_map snd (filter p bs) ++ flat_map snd (filter (fun b => negb (p b)) bs)).
Proof.
  induction bs as [|b bs IH]; simpl; [reflexivity|]. destruct (p b); simpl.
  - rewrite <- app_assoc. apply Permutation_app_head. exact IH.
  - eapply Permutation_trans; [apply Permutation_app_head; exact IH|]. apply Permutation_app_swap_app.
Qed.

Lemma fexpand_total k c N T : length T = k -> below N T -> NoDup T -> fexpand k c N T = Some (fplace T c).
Proof.
  intros Hl Hb Hnd. unfold fexpand.
  assert (E : (length T =? k) && forallb (fun t => t <? N) T && nodupb T = true).
  { rewrite (proj2 (Nat.eqb_eq _ _) Hl), (NoDup_nodupb _ Hnd), andb_true_r. simpl.
    apply forallb_forall. intros t Ht. apply Nat.ltb_lt. unfold below in Hb. rewrite Forall_forall in Hb. auto. }
  rewrite E. reflexivity.
Qed.

Lemma below_In n l x : below n l -> In x l -> x < n.
Proof. unfold below. rewrite Forall_forall. auto. Qed.

Lemma blocks_below_flat n (bs : list block) x : Forall (fun b => below n (snd b)) bs -> In x (flat_map snd bs) -> x < n.
Proof.
  intros H Hx. apply in_flat_map in Hx. destruct Hx as [b [Hb Hx]]. rewrite Forall_forall in H.
  exact (below_In n _ x (H b Hb) Hx).
Qed.

(* ---------------- _expand_overall ---------------- *)
Lemma expand_overall_total blocks n : blocks <> [] -> NoDup (flat_map snd blocks) ->
  Forall (fun b => below n (snd b)) blocks -> (forall j, j < n -> In j (flat_map snd blocks)) ->
  exists c, expand_overall blocks = Some (c, seq 0 n).
Proof.
  intros Hne Hnd Hb Hcov. set (flat := flat_map snd blocks) in *.
  assert (Hlen : length flat = n).
  { apply Nat.le_antisymm.
    - assert (Hi : incl flat (seq 0 n)).
      { intros x Hx. apply in_seq. pose proof (blocks_below_flat n blocks x Hb Hx). lia. }
      pose proof (NoDup_incl_length Hnd Hi) as H. rewrite seq_length in H. exact H.
    - assert (Hi : incl (seq 0 n) flat) by (intros x Hx; apply in_seq in Hx; apply Hcov; lia).
      pose proof (NoDup_incl_length (seq_NoDup n 0) Hi) as H. rewrite seq_length in H. exact H. }
  assert (Hbl : below (length flat) flat).
  { apply Forall_forall. intros x Hx. rewrite Hlen. exact (blocks_below_flat n blocks x Hb Hx). }
  unfold expand_overall. destruct blocks as [|b0 bs0]; [congruence|]. fold flat.
  rewrite (fexpand_total _ _ _ flat eq_refl Hbl Hnd).
  rewrite (isort_perm_seq flat Hnd Hbl), Hlen. eexists; reflexivity.
Qed.

(* ---------------- _mult_sublists ---------------- *)
Lemma mult_sublists_total ord blocks U inds n : ord_asc ord ->
  NoDup (flat_map snd blocks) -> Forall (fun b => below n (snd b)) blocks -> NoDup inds -> below n inds ->
  inter_nonempty (flat_map snd blocks) inds = true ->
  exists blocks', mult_sublists ord blocks U inds = Some blocks' /\ blocks' <> [] /\
    NoDup (flat_map snd blocks') /\ Forall (fun b => below n (snd b)) blocks' /\
    forall x, In x (flat_map snd blocks') <-> In x (flat_map snd blocks) \/ In x inds.
Proof.
  intros Hord Hnd Hb Hndi Hbi Hint. unfold mult_sublists.
  assert (Hhit : filter (hits inds) blocks <> []).
  { unfold inter_nonempty in Hint. apply existsb_exists in Hint. destruct Hint as [x [Hx Hm]].
    apply in_flat_map in Hx. destruct Hx as [b [Hb' Hxb]].
    assert (In b (filter (hits inds) blocks)).
    { apply filter_In. split; [exact Hb'|]. unfold hits, inter_nonempty. apply existsb_exists. exists x. tauto. }
    intro E. rewrite E in H. contradiction. }
  destruct (filter (hits inds) blocks) as [|h0 hs] eqn:Ehit; [congruence|]. rewrite <- Ehit. clear Hhit Ehit h0 hs.
  unfold mult_merge. cbv zeta.
  set (p := hits inds) in *.
  set (keep := filter (fun b => negb (p b)) blocks) in *.
  set (hit := filter p blocks) in *.
  set (inds_sub := flat_map snd hit) in *.
  set (revised := ord inds_sub inds) in *.
  destruct (Hord inds_sub inds) as [Hs Hm]. fold revised in Hs, Hm.
  pose proof (flat_filter_perm p blocks) as Hperm. fold hit keep inds_sub in Hperm.
  pose proof (Permutation_NoDup Hperm Hnd) as Hnd2. apply NoDup_app_inv in Hnd2. destruct Hnd2 as [Hnd_sub [Hnd_keep Hdisj]].
  assert (Hall : forall l, (forall x, In x l -> In x revised) ->
            exists t, map_opt (fun i => dict_get i (combine revised (argsort revised))) l = Some t).
  { intros l Hl. apply map_opt_total. intros x Hx. rewrite (argsort_sorted revised Hs).
    apply dict_get_In. apply Hl. exact Hx. }
  destruct (Hall inds_sub) as [t1 E1]; [intros x Hx; apply Hm; left; exact Hx|].
  destruct (Hall inds) as [t2 E2]; [intros x Hx; apply Hm; right; exact Hx|].
  rewrite E1, E2.
  destruct (dict_positions revised inds_sub t1 Hs E1) as [L1 [M1 B1]].
  destruct (dict_positions revised inds t2 Hs E2) as [L2 [M2 B2]].
  assert (N1 : NoDup t1) by (apply (NoDup_map_inv (fun j => nth j revised 0)); rewrite M1; exact Hnd_sub).
  assert (N2 : NoDup t2) by (apply (NoDup_map_inv (fun j => nth j revised 0)); rewrite M2; exact Hndi).
  rewrite (fexpand_total _ _ _ t1 L1 B1 N1), (fexpand_total _ _ _ t2 L2 B2 N2).
  eexists. split; [reflexivity|].
  assert (Hflat : forall x, In x (flat_map snd blocks) <-> In x inds_sub \/ In x (flat_map snd keep)).
  { intro x. rewrite <- in_app_iff. split; apply Permutation_in; [exact Hperm| symmetry; exact Hperm]. }
  assert (Hkeep_inds : forall x, In x (flat_map snd keep) -> In x inds -> False).
  { intros x Hx Hxi. apply in_flat_map in Hx. destruct Hx as [b [Hbk Hxb]]. apply filter_In in Hbk.
    destruct Hbk as [_ Hpb]. apply negb_true_iff in Hpb. unfold p, hits in Hpb.
    exact (inter_nonempty_false _ _ Hpb x Hxb Hxi). }
  repeat split.
  - intro E. apply (f_equal (@length block)) in E. rewrite app_length in E. simpl in E. lia.
  - rewrite flat_map_app. simpl. rewrite app_nil_r. apply NoDup_app_intro; [exact Hnd_keep| apply ssorted_NoDup; exact Hs|].
    intros x Hk Hr. apply Hm in Hr. destruct Hr as [Hr|Hr]; [exact (Hdisj x Hr Hk)| exact (Hkeep_inds x Hk Hr)].
  - apply Forall_app. split.
    + apply Forall_forall. intros b Hbk. apply filter_In in Hbk. rewrite Forall_forall in Hb. apply Hb. tauto.
    + constructor; [|constructor]. simpl. apply Forall_forall. intros x Hx. apply Hm in Hx. destruct Hx as [Hx|Hx].
      * apply (blocks_below_flat n blocks x Hb). apply Hflat. left. exact Hx.
      * exact (below_In n inds x Hbi Hx).
  - rewrite flat_map_app, in_app_iff. simpl. rewrite app_nil_r. intros [H|H].
    + left. apply Hflat. right. exact H.
    + apply Hm in H. destruct H as [H|H]; [left; apply Hflat; left; exact H| right; exact H].
  - rewrite flat_map_app, in_app_iff. simpl. rewrite app_nil_r. intros [H|H].
    + apply Hflat in H. destruct H as [H|H]; [right; apply Hm; left; exact H| left; exact H].
    + right. apply Hm. right. exact H.
Qed.

(* ---------------- the loop ---------------- *)
Definition gs_ok (gs : list (nat * list nat)) : Prop := Forall (fun g => snd g <> [] /\ NoDup (snd g)) gs.

Definition rec_total (F : nat) (rec : list (nat * list nat) -> option (fcirc * list nat)) : Prop :=
  forall gs, gs <> [] -> gs_ok gs -> length gs <= F ->
    exists r, rec gs = Some r /\ snd r = isort (dedup (flat_map snd gs)).

Lemma back_seq S c : snd (back S (c, seq 0 (length S))) = S.
Proof. unfold back. simpl. apply map_nth_seq. Qed.

Lemma gsp_loop_total ord rec S F : ord_asc ord -> rec_total F rec -> forall rest first blocks,
  NoDup (flat_map snd blocks) ->
  Forall (fun b => below (length S) (snd b)) blocks -> Forall (fun g => below (length S) (snd g)) rest -> gs_ok rest ->
  (forall j, j < length S -> In j (flat_map snd blocks) \/ exists g, In g rest /\ In j (snd g)) ->
  (first = true -> blocks = [] /\ rest <> []) -> (first = false -> blocks <> []) ->
  length rest <= F + (if first then 1 else 0) ->
  exists res, gsp_loop ord rec S first blocks rest = Some res /\ snd res = S.
Proof.
  intros Hord Hrec. induction rest as [|[id inds] rest IH]; intros first blocks Hnd Hb Hr Hok Hcov Hf1 Hf2 Hlen.
  - destruct first; [destruct (Hf1 eq_refl) as [_ H]; congruence|]. simpl.
    destruct (expand_overall_total blocks (length S) (Hf2 eq_refl) Hnd Hb) as [c Ec].
    { intros j Hj. destruct (Hcov j Hj) as [H|[g [[] _]]]. exact H. }
    rewrite Ec. simpl. eexists. split; [reflexivity|]. apply back_seq.
  - inversion Hr as [|? ? Hinds Hr']; subst. simpl in Hinds.
    inversion Hok as [|? ? [Hne Hndi] Hok']; subst. simpl in Hne, Hndi.
    simpl. destruct (covers blocks (length S)) eqn:Ecov.
    + (* one block covers everything: recursive call on the remaining gates *)
      assert (Hfirst : first = false).
      { destruct first; [|reflexivity]. destruct (Hf1 eq_refl) as [E _]. subst. discriminate. }
      subst first.
      destruct blocks as [|b [|b' bs]]; try discriminate. simpl in Ecov. apply Nat.eqb_eq in Ecov.
      simpl in Hnd. rewrite app_nil_r in Hnd.
      assert (Hcov' : forall j, j < length S -> In j (flat_map snd [b])).
      { intros j Hj. simpl. rewrite app_nil_r.
        assert (Hi : incl (snd b) (seq 0 (length S))).
        { intros x Hx. apply in_seq. inversion Hb as [|? ? Hbb _]; subst. pose proof (below_In _ _ x Hbb Hx). lia. }
        assert (Hi' : incl (seq 0 (length S)) (snd b)).
        { apply NoDup_length_incl; [exact Hnd| rewrite seq_length; lia| exact Hi]. }
        apply Hi'. apply in_seq. lia. }
      destruct (expand_overall_total [b] (length S)) as [c Ec]; try assumption; try discriminate.
      { simpl. rewrite app_nil_r. exact Hnd. }
      rewrite Ec.
      destruct (Hrec ((id, inds) :: rest)) as [[U_left rem] [Er Erem]]; [discriminate| exact Hok| simpl in *; lia|].
      rewrite Er. cbn [snd] in Erem.
      rewrite (fexpand_total (length rem) U_left (length S) rem eq_refl).
      * eexists. split; [reflexivity|]. apply back_seq.
      * rewrite Erem. apply Forall_forall. intros x Hx. rewrite isort_In, dedup_In in Hx.
        apply in_flat_map in Hx. destruct Hx as [g [Hg Hx]]. rewrite Forall_forall in Hr.
        exact (below_In _ _ x (Hr g Hg) Hx).
      * rewrite Erem. apply isort_NoDup, dedup_NoDup.
    + destruct first.
      * (* first gate *)
        destruct (Hf1 eq_refl) as [E _]. subst blocks.
        apply (IH false [single id inds]).
        -- simpl. rewrite app_nil_r. exact Hndi.
        -- constructor; [exact Hinds| constructor].
        -- exact Hr'.
        -- exact Hok'.
        -- intros j Hj. destruct (Hcov j Hj) as [[]|[g [[Hg|Hg] Hjg]]].
           ++ subst g. left. simpl. rewrite app_nil_r. exact Hjg.
           ++ right. exists g. tauto.
        -- discriminate.
        -- discriminate.
        -- simpl in Hlen. lia.
      * destruct (inter_nonempty (flat_map snd blocks) inds) eqn:Ei.
        -- (* merge *)
           destruct (mult_sublists_total ord blocks [(id, seq 0 (length inds))] inds (length S) Hord Hnd Hb Hndi Hinds Ei)
             as [blocks' [Em [Hne' [Hnd' [Hb' Hmem]]]]].
           rewrite Em. apply (IH false blocks'); try assumption.
           ++ intros j Hj. destruct (Hcov j Hj) as [H|[g [[Hg|Hg] Hjg]]].
              ** left. apply Hmem. left. exact H.
              ** subst g. left. apply Hmem. right. exact Hjg.
              ** right. exists g. tauto.
           ++ discriminate.
           ++ intros _. exact Hne'.
           ++ simpl in Hlen. lia.
        -- (* append *)
           apply (IH false (blocks ++ [single id inds])).
           ++ rewrite flat_map_app. simpl. rewrite app_nil_r. apply NoDup_app_intro; [exact Hnd| exact Hndi|].
              intros x Hx Hxi. exact (inter_nonempty_false _ _ Ei x Hx Hxi).
           ++ apply Forall_app. split; [exact Hb|]. constructor; [exact Hinds| constructor].
           ++ exact Hr'.
           ++ exact Hok'.
           ++ intros j Hj. rewrite flat_map_app, in_app_iff. simpl. rewrite app_nil_r.
              destruct (Hcov j Hj) as [H|[g [[Hg|Hg] Hjg]]]; [tauto| subst g; tauto| right; exists g; tauto].
           ++ discriminate.
           ++ intros _ E. apply (f_equal (@length block)) in E. rewrite app_length in E. simpl in E. lia.
           ++ simpl in Hlen. lia.
Qed.

(* ---------------- relabelling to ranks succeeds ---------------- *)
Lemma gs_ok_nonempty gs : gs_ok gs -> nonempty_inds gs = true.
Proof.
  unfold gs_ok, nonempty_inds. intros H. apply forallb_forall. intros g Hg. rewrite Forall_forall in H.
  destruct (H g Hg) as [Hne _]. destruct (snd g); [congruence| reflexivity].
Qed.

Lemma relabel_total gs (S := isort (dedup (flat_map snd gs))) : gs_ok gs ->
  exists rel, relabel_gates S gs = Some rel /\ length rel = length gs /\ gs_ok rel /\
    Forall (fun g => below (length S) (snd g)) rel /\
    forall j, j < length S -> exists g, In g rel /\ In j (snd g).
Proof.
  intros Hok.
  assert (HS : NoDup S) by (apply isort_NoDup, dedup_NoDup).
  assert (Hin : forall g x, In g gs -> In x (snd g) -> In x S).
  { intros g x Hg Hx. unfold S. rewrite isort_In, dedup_In. apply in_flat_map. exists g. tauto. }
  assert (Hex : exists rel, relabel_gates S gs = Some rel).
  { unfold relabel_gates. apply map_opt_total. intros g Hg.
    assert (Hr : exists r, rank_in S (snd g) = Some r).
    { unfold rank_in. apply map_opt_total. intros x Hx. apply index_of_In. exact (Hin g x Hg Hx). }
    destruct Hr as [r Hr]. rewrite Hr. eexists; reflexivity. }
  destruct Hex as [rel Erel]. exists rel. split; [exact Erel|].
  destruct (relabel_gates_sound S gs rel Erel) as [Eg Hbel].
  assert (Hlen : length rel = length gs) by (rewrite Eg; unfold fplace, frelabel; rewrite map_length; reflexivity).
  split; [exact Hlen|]. split; [|split; [exact Hbel|]].
  - unfold gs_ok in *. apply Forall_forall. intros [id r] Hr.
    assert (Hg : In (id, map (fun j => nth j S 0) r) gs).
    { rewrite Eg. unfold fplace, frelabel. apply in_map_iff. exists (id, r). split; [reflexivity| exact Hr]. }
    rewrite Forall_forall in Hok. destruct (Hok _ Hg) as [Hne Hnd]. simpl in *. split.
    + intro E. subst r. apply Hne. reflexivity.
    + exact (NoDup_map_inv _ _ Hnd).
  - intros j Hj.
    assert (Hx : In (nth j S 0) S) by (apply nth_In; exact Hj).
    unfold S in Hx at 2. rewrite isort_In, dedup_In in Hx. apply in_flat_map in Hx. destruct Hx as [g [Hg Hxg]].
    rewrite Eg in Hg. unfold fplace, frelabel in Hg. apply in_map_iff in Hg. destruct Hg as [[id r] [<- Hr]].
    simpl in Hxg. apply in_map_iff in Hxg. destruct Hxg as [i [Ei Hi]].
    exists (id, r). split; [exact Hr|]. simpl.
    rewrite Forall_forall in Hbel. pose proof (below_In _ _ i (Hbel _ Hr) Hi) as Hilt.
    assert (i = j) by (apply (proj1 (NoDup_nth S 0) HS); assumption). subst i. exact Hi.
Qed.

Theorem gsp_total ord : ord_asc ord -> forall fuel gs, gs <> [] -> gs_ok gs -> length gs <= fuel ->
  exists r, gsp ord fuel gs = Some r /\ snd r = isort (dedup (flat_map snd gs)).
Proof.
  intros Hord. induction fuel as [|fuel IH]; intros gs Hne Hok Hlen.
  - destruct gs; [congruence| simpl in Hlen; lia].
  - simpl. rewrite (gs_ok_nonempty gs Hok).
    destruct (relabel_total gs Hok) as [rel [Erel [Hl [Hokr [Hbel Hcov]]]]]. rewrite Erel.
    assert (Hrec : rec_total fuel (gsp ord fuel)) by (intros gs' H1 H2 H3; apply IH; assumption).
    assert (Hrne : rel <> []) by (intro E; subst rel; destruct gs; [congruence| discriminate]).
    apply (gsp_loop_total ord (gsp ord fuel) _ fuel Hord Hrec rel true [] (NoDup_nil _) (Forall_nil _) Hbel Hokr).
    + intros j Hj. right. apply Hcov. exact Hj.
    + intros _. split; [reflexivity| exact Hrne].
    + discriminate.
    + rewrite Hl. lia.
Qed.
