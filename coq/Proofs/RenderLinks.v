(* C20 -- every control, swap and measurement link stands in ONE column on every wire it has to cross,
   and every label box stands at the column of its operation (fx = true) *)
From Coq Require Import List NArith Arith Bool Lia.
Import ListNotations.
From QV Require Import Model.Render Spec.RenderSpec Proofs.RenderBase Proofs.RenderStep Proofs.RenderSeg
     Proofs.RenderInv Proofs.RenderRead.

Ltac inj E := injection E; intros; subst; clear E.

Lemma nth_error_bar h a g r : nth_error (rep h a ++ [g] ++ r) h = Some g.
Proof.
  rewrite nth_error_app2 by (rewrite rep_length; lia). rewrite rep_length.
  replace (h - h) with 0 by lia. reflexivity.
Qed.

(* ---- the bridge of a controlled gate ---- *)
Lemma qbridge_at targets cs f l width it v :
  4 <= width -> ~ (lmin targets <= v <= lmax targets) ->
  let y := qbridge_wire true targets cs f l width it v emptyW in
  let h := width / 2 in
  nth_error (mid y) h = Some (if mem v cs then cND else cV) /\
  nth_error (top y) h = Some (if mem v cs && ((v =? f) || (v =? l)) && it then cSP else cV) /\
  nth_error (bot y) h = Some (if mem v cs && ((v =? f) || (v =? l)) && negb it then cSP else cV).
Proof.
  intros W4 H. cbv zeta. unfold qbridge_wire.
  assert (E : (lmin targets <=? v) && (v <=? lmax targets) = false).
  { apply andb_false_iff. destruct (Nat.le_gt_cases (lmin targets) v) as [A|A].
    - right. apply Nat.leb_gt. lia.
    - left. apply Nat.leb_gt. lia. }
  rewrite E. pose proof (half_ge2 width W4) as H2. set (h := width / 2) in *.
  assert (LB : length (rep h cSP ++ [cV] ++ rep (h - 1) cSP) = 2 * h).
  { repeat (rewrite ?app_length, ?rep_length; simpl). lia. }
  destruct (mem v cs); [destruct ((v =? f) || (v =? l)); destruct it|];
    cbn [app3 top mid bot emptyW andb negb]; rewrite !app_nil_l;
    repeat split; try apply nth_error_bar; apply nth_error_rep; lia.
Qed.

(* ---- the box rows that carry a mark ---- *)
Section Box.
  Variables (P : nat) (text : str) (targets : list nat) (controls : option (list nat)).
  Let pw := draw_multiq true P text targets controls.
  Let width := 4 + 2 * P + length text.

  Lemma box_top_mark :
    has_controls controls = true -> lmax targets < lmax (ctl_list controls) ->
    nth_error (p_top (fst pw)) (width / 2) = Some cTU.
  Proof.
    intros HC H. unfold pw, draw_multiq. cbv zeta. cbn [fst p_top].
    rewrite HC. unfold is_top. rewrite (proj2 (Nat.ltb_lt _ _) H). simpl andb. cbv iota.
    assert (L : length ([cSP; cBL] ++ rep (P * 2 + length text) cH ++ [cBR; cSP]) = width).
    { unfold width. repeat (rewrite ?app_length, ?rep_length; simpl). lia. }
    rewrite L. apply nth_error_set_at.
    assert (L2 : length ([cSP; cTL] ++ rep (P * 2 + length text) cH ++ [cTR; cSP]) = width).
    { unfold width. repeat (rewrite ?app_length, ?rep_length; simpl). lia. }
    rewrite L2. apply Nat.div_lt; unfold width; lia.
  Qed.

  Lemma box_bot_mark :
    has_controls controls = true -> lmin (ctl_list controls) < lmin targets ->
    nth_error (p_bot (fst pw)) (width / 2) = Some cTD.
  Proof.
    intros HC H. unfold pw, draw_multiq. cbv zeta. cbn [fst p_bot].
    rewrite HC. unfold is_bot. rewrite (proj2 (Nat.ltb_lt _ _) H). simpl andb. cbv iota.
    assert (L : length ([cSP; cBL] ++ rep (P * 2 + length text) cH ++ [cBR; cSP]) = width).
    { unfold width. repeat (rewrite ?app_length, ?rep_length; simpl). lia. }
    rewrite L. apply nth_error_set_at. rewrite L. apply Nat.div_lt; unfold width; lia.
  Qed.

  Lemma box_mid_length : length (p_mid (fst pw)) = width.
  Proof.
    pose proof (multiq_parts true P text targets controls) as MP. cbv zeta in MP.
    fold pw in MP. unfold width. destruct MP as [A [_ [B _]]]. lia.
  Qed.
End Box.

(* the targets at the two ends of the box *)
Lemma target_hi_top targets controls p x :
  NoDup targets -> targets <> [] ->
  top (target_wire true targets controls p (lmax targets) x) = top x ++ p_top p.
Proof.
  intros ND Hne. unfold target_wire.
  destruct (length targets =? 1) eqn:EL; [reflexivity|].
  apply Nat.eqb_neq in EL.
  assert (L2 : 2 <= length targets) by (destruct targets as [|a [|b r]]; simpl in *; try congruence; lia).
  pose proof (lmin_lt_lmax targets ND L2) as LT.
  assert (E1 : (lmax targets =? lmin targets) = false) by (apply Nat.eqb_neq; lia).
  rewrite E1. simpl andb. cbv iota.
  rewrite Nat.eqb_refl, (proj2 (mem_true _ _) (lmax_in targets Hne)). reflexivity.
Qed.

Lemma target_lo_bot_mid targets controls p x :
  targets <> [] ->
  bot (target_wire true targets controls p (lmin targets) x) = bot x ++ p_bot p /\
  mid (target_wire true targets controls p (lmin targets) x) = mid x ++ p_lab p.
Proof.
  intros Hne. unfold target_wire.
  destruct (length targets =? 1) eqn:EL; [split; reflexivity|].
  rewrite Nat.eqb_refl, (proj2 (mem_true _ _) (lmin_in targets Hne)). split; reflexivity.
Qed.

Lemma target_inner_control targets controls p v x :
  NoDup (targets ++ ctl_list controls) -> targets <> [] ->
  has_controls controls = true -> In v (ctl_list controls) ->
  lmin targets <= v <= lmax targets ->
  mid (target_wire true targets controls p v x) = mid x ++ set_at (length (p_mid p) / 2) cND (p_mid p).
Proof.
  intros ND Hne HC Iv H. unfold target_wire.
  assert (NT : ~ In v targets).
  { intro It. apply NoDup_remove_2 with (l := []) in ND || idtac.
    clear -ND It Iv. induction targets as [|a r IH]; [contradiction|].
    simpl in ND. inversion ND as [|? ? N1 N2]; subst. destruct It as [->|It].
    - apply N1. apply in_app_iff. right. exact Iv.
    - apply IH; assumption. }
  destruct (length targets =? 1) eqn:EL.
  - exfalso. apply Nat.eqb_eq in EL. pose proof (len1_lmin_lmax targets EL) as E.
    assert (v = lmin targets) by lia. subst v. apply NT. apply lmin_in. exact Hne.
  - assert (E1 : (v =? lmin targets) = false).
    { apply Nat.eqb_neq. intro E. subst v. apply NT. apply lmin_in. exact Hne. }
    assert (E2 : (v =? lmax targets) = false).
    { apply Nat.eqb_neq. intro E. subst v. apply NT. apply lmax_in. exact Hne. }
    rewrite E1, E2. simpl andb. cbv iota.
    rewrite HC, (proj2 (mem_true _ _) Iv). reflexivity.
Qed.

(* ------------------------------------------------------------------------------------------ *)
(* every link glyph of an operation is in the segment the operation appends                    *)
(* ------------------------------------------------------------------------------------------ *)
Lemma in_vline f g off ws :
  In f (vline g off ws) -> exists v k, In v ws /\ f = (v, k, off, g).
Proof.
  unfold vline. intro H. apply in_flat_map in H. destruct H as [v [Hv Hf]].
  destruct Hf as [E|[E|[E|[]]]]; subst f; eauto.
Qed.

Lemma cbridge_at nq t c P v :
  v <> t ->
  let y := cbridge_wire nq t c (5 + 2 * P) v emptyW in
  let h := (5 + 2 * P) / 2 in
  nth_error (top y) h = Some cDV /\
  nth_error (mid y) h = Some (if v =? nq + c then cST else cDV) /\
  (v <> nq + c -> nth_error (bot y) h = Some cDV).
Proof.
  intro N. cbv zeta. unfold cbridge_wire.
  rewrite (proj2 (Nat.eqb_neq _ _) N).
  destruct (v =? nq + c) eqn:E.
  - cbn [app3 top mid bot emptyW]. rewrite !app_nil_l. repeat split; try apply nth_error_bar.
    intro N2. apply Nat.eqb_eq in E. contradiction.
  - destruct (nq <? v); cbn [app3 top mid bot emptyW]; rewrite !app_nil_l;
      repeat split; intros; apply nth_error_bar.
Qed.

Lemma swap_at P f l v :
  let y := swap_wire P f l v emptyW in
  let h := (4 * P + 1) / 2 in
  nth_error (mid y) h = Some (if (v =? l) || (v =? f) then cX else cV) /\
  ((v =? l) = false -> nth_error (top y) h = Some cV) /\
  ((v =? l) = true \/ (v =? f) = false -> nth_error (bot y) h = Some cV).
Proof.
  cbv zeta. unfold swap_wire.
  destruct (v =? l) eqn:E1; [|destruct (v =? f) eqn:E2];
    cbn [app3 top mid bot emptyW orb]; rewrite !app_nil_l; repeat split;
    try (intros; apply nth_error_bar); try discriminate.
  - intros [A|A]; discriminate.
Qed.

Lemma links_in_seg P nq nc o v k off g :
  wf_op nq nc o = true -> In (v, k, off, g) (op_links P nq nc o) ->
  In v (op_wl nq nc o) /\
  nth_error (row_of k (op_emit true P nq nc o v emptyW)) off = Some g.
Proof.
  intros W I.
  destruct o as [name al targets controls | t c].
  - unfold op_links in I. unfold op_wl.
    destruct (is_single targets controls) eqn:E1; [contradiction|].
    pose proof (wf_gate _ _ _ _ _ _ W) as [Hne [ND Hlt]].
    pose proof (lmin_le_lmax targets Hne) as Hlh.
    destruct (str_eqb name sSWAP) eqn:E2.
    + (* swap link *)
      assert (OE : forall v, In v (range (lmin targets) (lmax targets + 1)) ->
                op_emit true P nq nc (Gate name al targets controls) v emptyW =
                swap_wire P (lmin targets) (lmax targets) v emptyW).
      { intros u Hu. unfold op_emit. rewrite E1, E2. cbv zeta. unfold op_wl. rewrite E1, E2.
        rewrite (emit_w_in _ _ _ _ (proj2 (mem_true _ _) Hu)).
        rewrite hd_range by lia. rewrite last_range by lia.
        replace (lmax targets + 1 - 1) with (lmax targets) by lia. reflexivity. }
      pose proof (swap_at P (lmin targets) (lmax targets)) as SA. cbv zeta in SA.
      destruct (lmin targets =? lmax targets) eqn:Elh.
      * apply Nat.eqb_eq in Elh. destruct I as [E|[]]. inj E.
        assert (Iv : In (lmin targets) (range (lmin targets) (lmax targets + 1))) by (apply in_range; lia).
        split; [exact Iv|]. rewrite (OE _ Iv). cbn [row_of].
        destruct (SA (lmin targets)) as [A _]. (etransitivity; [apply A|]).
        rewrite Elh, Nat.eqb_refl. reflexivity.
      * apply Nat.eqb_neq in Elh.
        assert (Nlh : (lmin targets =? lmax targets) = false) by (apply Nat.eqb_neq; exact Elh).
        assert (Nhl : (lmax targets =? lmin targets) = false) by (apply Nat.eqb_neq; lia).
        apply in_app_iff in I. destruct I as [I|I].
        -- assert (Il : In (lmin targets) (range (lmin targets) (lmax targets + 1))) by (apply in_range; lia).
           assert (Ih : In (lmax targets) (range (lmin targets) (lmax targets + 1))) by (apply in_range; lia).
           destruct I as [E|[E|[E|[E|[]]]]]; inj E.
           ++ split; [exact Il|]. rewrite (OE _ Il). cbn [row_of].
              destruct (SA (lmin targets)) as [A _]. (etransitivity; [apply A|]); rewrite Nat.eqb_refl, orb_true_r. reflexivity.
           ++ split; [exact Ih|]. rewrite (OE _ Ih). cbn [row_of].
              destruct (SA (lmax targets)) as [A _]. (etransitivity; [apply A|]); rewrite Nat.eqb_refl. reflexivity.
           ++ split; [exact Il|]. rewrite (OE _ Il). cbn [row_of].
              destruct (SA (lmin targets)) as [_ [A _]]. apply A. exact Nlh.
           ++ split; [exact Ih|]. rewrite (OE _ Ih). cbn [row_of].
              destruct (SA (lmax targets)) as [_ [_ A]]. apply A. left. apply Nat.eqb_refl.
        -- apply in_vline in I. destruct I as [u [k' [Hu E]]]. inj E.
           apply in_range in Hu.
           assert (Iu : In u (range (lmin targets) (lmax targets + 1))) by (apply in_range; lia).
           split; [exact Iu|]. rewrite (OE _ Iu).
           assert (N1 : (u =? lmax targets) = false) by (apply Nat.eqb_neq; lia).
           assert (N2 : (u =? lmin targets) = false) by (apply Nat.eqb_neq; lia).
           destruct (SA u) as [A [B C]].
           destruct k'; cbn [row_of].
           ++ apply B. exact N1.
           ++ (etransitivity; [apply A|]); rewrite N1, N2. reflexivity.
           ++ apply C. right. exact N2.
    + destruct (has_controls controls) eqn:HC; [|contradiction].
      set (cs := ctl_list controls) in *.
      set (text := gate_text name al) in *.
      set (width := 4 + 2 * P + length text) in *.
      assert (Hcs : cs <> []) by (apply has_controls_nonempty; exact HC).
      assert (Hm : targets ++ cs <> []) by (destruct targets; [congruence|discriminate]).
      pose proof (multiq_parts true P text targets controls) as MP. cbv zeta in MP.
      destruct MP as [Hw _]. fold width in Hw.
      assert (W4 : 4 <= width) by (unfold width; lia).
      assert (InW : forall u, lmin (targets ++ cs) <= u <= lmax (targets ++ cs) ->
                    In u (range (lmin (targets ++ cs)) (lmax (targets ++ cs) + 1))).
      { intros u Hu. apply in_range. lia. }
      assert (Blo : lmin (targets ++ cs) <= lmin targets).
      { apply lmin_le, in_app_iff. left. apply lmin_in. exact Hne. }
      assert (Bhi : lmax targets <= lmax (targets ++ cs)).
      { apply lmax_ge, in_app_iff. left. apply lmax_in. exact Hne. }
      assert (Bclo : lmin (targets ++ cs) <= lmin cs).
      { apply lmin_le, in_app_iff. right. apply lmin_in. exact Hcs. }
      assert (Bchi : lmax cs <= lmax (targets ++ cs)).
      { apply lmax_ge, in_app_iff. right. apply lmax_in. exact Hcs. }
      assert (NDt : NoDup targets).
      { clear -ND. induction targets as [|a r IH]; [constructor|].
        simpl in ND. inversion ND; subst. constructor.
        - intro H. apply H1. apply in_app_iff. left. exact H.
        - apply IH. assumption. }
      (* the three regions *)
      assert (ABOVE : forall u, lmax targets < u <= lmax cs ->
                op_emit true P nq nc (Gate name al targets controls) u emptyW =
                qbridge_wire true targets cs (lmin targets) (lmax cs) width true u emptyW).
      { intros u Hu. rewrite (multi_above P nq nc name al targets controls E1 E2 u emptyW HC Hu Hne).
        fold text. rewrite Hw. reflexivity. }
      assert (BELOW : forall u, lmin cs <= u < lmin targets ->
                op_emit true P nq nc (Gate name al targets controls) u emptyW =
                qbridge_wire true targets cs (lmin cs) (lmax targets) width false u emptyW).
      { intros u Hu. rewrite (multi_below P nq nc name al targets controls E1 E2 u emptyW HC Hu Hne).
        fold text. rewrite Hw. reflexivity. }
      assert (INSIDE : forall u, lmin targets <= u <= lmax targets ->
                op_emit true P nq nc (Gate name al targets controls) u emptyW =
                target_wire true targets controls (fst (draw_multiq true P text targets controls)) u emptyW).
      { intros u Hu. apply (multi_inside P nq nc name al targets controls E1 E2 u emptyW Hu). }
      assert (INNER : forall u, In u cs -> lmin targets <= u <= lmax targets ->
                nth_error (mid (target_wire true targets controls
                                  (fst (draw_multiq true P text targets controls)) u emptyW)) (width / 2)
                = Some cND).
      { intros u Hu Hv.
        rewrite (target_inner_control targets controls _ u emptyW ND Hne HC Hu Hv).
        cbn [mid emptyW]. rewrite app_nil_l.
        rewrite (box_mid_length P text targets controls). fold width.
        apply nth_error_set_at. rewrite (box_mid_length P text targets controls). fold width.
        apply Nat.div_lt; lia. }
      apply in_app_iff in I. destruct I as [I|I].
      * (* nodes *)
        apply in_map_iff in I. destruct I as [u [E Hu]]. inj E.
        assert (Bu : lmin (targets ++ cs) <= v <= lmax (targets ++ cs)).
        { split; [apply lmin_le | apply lmax_ge]; apply in_app_iff; right; exact Hu. }
        split; [apply InW; exact Bu|]. cbn [row_of]. fold text. fold width.
        destruct (Nat.lt_ge_cases (lmax targets) v) as [A|A].
        -- assert (Hv : lmax targets < v <= lmax cs) by (split; [exact A | apply lmax_ge; exact Hu]).
           rewrite (ABOVE v Hv).
           destruct (qbridge_at targets cs (lmin targets) (lmax cs) width true v W4) as [Q _]; [lia|].
           (etransitivity; [apply Q|]). rewrite (proj2 (mem_true _ _) Hu). reflexivity.
        -- destruct (Nat.lt_ge_cases v (lmin targets)) as [B|B].
           ++ assert (Hv : lmin cs <= v < lmin targets) by (split; [apply lmin_le; exact Hu | exact B]).
              rewrite (BELOW v Hv).
              destruct (qbridge_at targets cs (lmin cs) (lmax targets) width false v W4) as [Q _]; [lia|].
              (etransitivity; [apply Q|]). rewrite (proj2 (mem_true _ _) Hu). reflexivity.
           ++ assert (Hv : lmin targets <= v <= lmax targets) by lia.
              rewrite (INSIDE v Hv). exact (INNER v Hu Hv).
      * apply in_app_iff in I. destruct I as [I|I].
        -- (* upwards *)
           fold cs in I. destruct (lmax targets <? lmax cs) eqn:EU; [|contradiction].
           apply Nat.ltb_lt in EU. fold text in I. fold width in I.
           apply in_app_iff in I. destruct I as [I|I].
           ++ destruct I as [E|[]]. inj E.
              split; [apply InW; lia|]. cbn [row_of].
              rewrite (INSIDE (lmax targets)) by lia.
              rewrite (target_hi_top targets controls _ emptyW NDt Hne). cbn [top emptyW]. rewrite app_nil_l.
              apply (box_top_mark P text targets controls HC EU).
           ++ apply in_app_iff in I. destruct I as [I|I]; [|apply in_app_iff in I; destruct I as [I|I]].
              ** apply in_map_iff in I. destruct I as [u [E Hu]]. inj E.
                 apply in_range in Hu. split; [apply InW; lia|]. cbn [row_of].
                 rewrite (ABOVE v) by lia.
                 destruct (qbridge_at targets cs (lmin targets) (lmax cs) width true v W4) as [_ [_ Q]]; [lia|].
                 (etransitivity; [apply Q|]). simpl negb. rewrite andb_false_r. reflexivity.
              ** apply in_map_iff in I. destruct I as [u [E Hu]]. inj E.
                 apply in_range in Hu. split; [apply InW; lia|]. cbn [row_of].
                 rewrite (ABOVE v) by lia.
                 destruct (qbridge_at targets cs (lmin targets) (lmax cs) width true v W4) as [_ [Q _]]; [lia|].
                 (etransitivity; [apply Q|]).
                 assert (N1 : (v =? lmin targets) = false) by (apply Nat.eqb_neq; lia).
                 assert (N2 : (v =? lmax cs) = false) by (apply Nat.eqb_neq; lia).
                 rewrite N1, N2. simpl orb. rewrite andb_false_r. reflexivity.
              ** apply in_map_iff in I. destruct I as [u [E Hu]]. inj E.
                 apply filter_In in Hu. destruct Hu as [Hu Hn]. apply negb_true_iff in Hn.
                 apply in_range in Hu. split; [apply InW; lia|]. cbn [row_of].
                 rewrite (ABOVE v) by lia.
                 destruct (qbridge_at targets cs (lmin targets) (lmax cs) width true v W4) as [Q _]; [lia|].
                 (etransitivity; [apply Q|]); rewrite Hn. reflexivity.
        -- (* downwards *)
           fold cs in I. destruct (lmin cs <? lmin targets) eqn:ED; [|contradiction].
           apply Nat.ltb_lt in ED. fold text in I. fold width in I.
           apply in_app_iff in I. destruct I as [I|I].
           ++ destruct I as [E|[]]. inj E.
              split; [apply InW; lia|]. cbn [row_of].
              rewrite (INSIDE (lmin targets)) by lia.
              rewrite (proj1 (target_lo_bot_mid targets controls _ emptyW Hne)). cbn [bot emptyW]. rewrite app_nil_l.
              apply (box_bot_mark P text targets controls HC ED).
           ++ apply in_app_iff in I. destruct I as [I|I]; [|apply in_app_iff in I; destruct I as [I|I]].
              ** apply in_map_iff in I. destruct I as [u [E Hu]]. inj E.
                 apply in_range in Hu. split; [apply InW; lia|]. cbn [row_of].
                 rewrite (BELOW v) by lia.
                 destruct (qbridge_at targets cs (lmin cs) (lmax targets) width false v W4) as [_ [Q _]]; [lia|].
                 (etransitivity; [apply Q|]). rewrite andb_false_r. reflexivity.
              ** apply in_map_iff in I. destruct I as [u [E Hu]]. inj E.
                 apply in_range in Hu. split; [apply InW; lia|]. cbn [row_of].
                 rewrite (BELOW v) by lia.
                 destruct (qbridge_at targets cs (lmin cs) (lmax targets) width false v W4) as [_ [_ Q]]; [lia|].
                 (etransitivity; [apply Q|]).
                 assert (N1 : (v =? lmin cs) = false) by (apply Nat.eqb_neq; lia).
                 assert (N2 : (v =? lmax targets) = false) by (apply Nat.eqb_neq; lia).
                 rewrite N1, N2. simpl orb. rewrite andb_false_r. reflexivity.
              ** apply in_map_iff in I. destruct I as [u [E Hu]]. inj E.
                 apply filter_In in Hu. destruct Hu as [Hu Hn]. apply negb_true_iff in Hn.
                 apply in_range in Hu. split; [apply InW; lia|]. cbn [row_of].
                 rewrite (BELOW v) by lia.
                 destruct (qbridge_at targets cs (lmin cs) (lmax targets) width false v W4) as [Q _]; [lia|].
                 (etransitivity; [apply Q|]); rewrite Hn. reflexivity.
  - (* measurement *)
    pose proof (wf_meas _ _ _ _ W) as [Ht Hc].
    unfold op_links in I.
    pose proof (meas_parts P nq t c) as MP.
    assert (OT : op_emit true P nq nc (Meas t c) t emptyW = app3p (fst (draw_meas P nq t c)) emptyW).
    { unfold op_emit.
      assert (It : mem t (op_wl nq nc (Meas t c)) = true).
      { apply mem_true. unfold op_wl. apply in_app_iff. left. apply in_range. lia. }
      rewrite (emit_w_in _ _ _ _ It). rewrite emit_w_in by (simpl; rewrite Nat.eqb_refl; reflexivity).
      unfold cbridge_wire. rewrite Nat.eqb_refl. reflexivity. }
    assert (OO : forall u, u <> t -> In u (op_wl nq nc (Meas t c)) ->
              op_emit true P nq nc (Meas t c) u emptyW = cbridge_wire nq t c (5 + 2 * P) u emptyW).
    { intros u Nu Iu. unfold op_emit. rewrite (emit_w_in _ _ _ _ (proj2 (mem_true _ _) Iu)).
      rewrite emit_w_out by (simpl; rewrite (proj2 (Nat.eqb_neq _ _) Nu); reflexivity).
      destruct (draw_meas P nq t c) as [[[a m] b] wd]. destruct MP as [Hw _]. simpl snd. rewrite Hw. reflexivity. }
    assert (MT : nth_error (bot (op_emit true P nq nc (Meas t c) t emptyW)) ((5 + 2 * P) / 2) = Some cMD).
    { rewrite OT. unfold draw_meas in *. pose proof (singleq_parts P sM) as SP.
      destruct (draw_singleq P sM) as [[[a m] b] wd]. destruct SP as [Hw [Ha [Hm Hb]]].
      simpl length in Hw.
      rewrite (proj2 (Nat.ltb_lt t (c + nq))) by lia.
      cbn [fst app3p app3 row_of bot emptyW]. rewrite app_nil_l.
      replace (5 + 2 * P) with wd by lia. rewrite <- Hb.
      apply nth_error_set_at. rewrite Hb, Hw. apply Nat.div_lt; lia. }
    apply in_app_iff in I. destruct I as [I|I].
    + destruct I as [E|[]]. inj E. split.
      * unfold op_wl. apply in_app_iff. left. apply in_range. lia.
      * exact MT.
    + apply in_app_iff in I. destruct I as [I|I]; [|apply in_app_iff in I; destruct I as [I|I]].
      * apply in_vline in I. destruct I as [u [k' [Hu E]]]. inj E.
        apply in_range in Hu.
        assert (Iu : In u (op_wl nq nc (Meas t c))).
        { unfold op_wl. apply in_app_iff. left. apply in_range. lia. }
        split; [exact Iu|]. rewrite (OO u) by (try exact Iu; lia).
        destruct (cbridge_at nq t c P u) as [A [B C]]; [lia|].
        assert (N : (u =? nq + c) = false) by (apply Nat.eqb_neq; lia).
        destruct k'; cbn [row_of]; [exact A | (etransitivity; [apply B|]); rewrite N; reflexivity | apply C; lia].
      * apply in_vline in I. destruct I as [u [k' [Hu E]]]. inj E.
        apply in_range in Hu.
        assert (Iu : In u (op_wl nq nc (Meas t c))).
        { unfold op_wl. apply in_app_iff. right. apply in_range. lia. }
        split; [exact Iu|]. rewrite (OO u) by (try exact Iu; lia).
        destruct (cbridge_at nq t c P u) as [A [B C]]; [lia|].
        assert (N : (u =? nq + c) = false) by (apply Nat.eqb_neq; lia).
        destruct k'; cbn [row_of]; [exact A | (etransitivity; [apply B|]); rewrite N; reflexivity | apply C; lia].
      * assert (Iu : In (nq + c) (op_wl nq nc (Meas t c))).
        { unfold op_wl. apply in_app_iff. right. apply in_range. lia. }
        destruct (cbridge_at nq t c P (nq + c)) as [A [B C]]; [lia|].
        destruct I as [E|[E|[]]]; inj E; (split; [exact Iu|]);
          rewrite (OO (nq + c)) by (try exact Iu; lia); cbn [row_of].
        -- exact A.
        -- (etransitivity; [apply B|]); rewrite Nat.eqb_refl. reflexivity.
Qed.

(* the label box of an operation is exactly the middle-row segment on its label wire *)
Lemma boxes_in_seg P nq nc o v k s :
  wf_op nq nc o = true -> In (v, k, s) (op_boxes P nq o) ->
  In v (op_wl nq nc o) /\ row_of k (op_emit true P nq nc o v emptyW) = s.
Proof.
  intros W I. destruct o as [name al targets controls | t c].
  - unfold op_boxes in I. unfold op_wl.
    destruct (is_single targets controls) eqn:E1.
    + apply in_map_iff in I. destruct I as [u [E Hu]]. inj E.
      split; [exact Hu|]. unfold op_emit. rewrite E1.
      rewrite (emit_w_in _ _ _ _ (proj2 (mem_true _ _) Hu)).
      unfold draw_singleq. cbv zeta. cbn [fst app3p app3 row_of mid emptyW]. reflexivity.
    + destruct (str_eqb name sSWAP) eqn:E2; [contradiction|].
      destruct I as [E|[]]. inj E.
      pose proof (wf_gate _ _ _ _ _ _ W) as [Hne _].
      pose proof (lmin_le_lmax targets Hne) as Hlh. split.
      * apply in_range. split.
        -- apply lmin_le, in_app_iff. left. apply lmin_in. exact Hne.
        -- assert (lmax targets <= lmax (targets ++ ctl_list controls)).
           { apply lmax_ge, in_app_iff. left. apply lmax_in. exact Hne. }
           lia.
      * rewrite (multi_inside P nq nc name al targets controls E1 E2 _ emptyW) by lia.
        cbn [row_of].
        rewrite (proj2 (target_lo_bot_mid targets controls _ emptyW Hne)). reflexivity.
  - unfold op_boxes in I. destruct I as [E|[]]. inj E.
    pose proof (wf_meas _ _ _ _ W) as [Ht Hc]. split.
    + unfold op_wl. apply in_app_iff. left. apply in_range. lia.
    + unfold op_emit.
      assert (It : mem v (op_wl nq nc (Meas v c)) = true).
      { apply mem_true. unfold op_wl. apply in_app_iff. left. apply in_range. lia. }
      rewrite (emit_w_in _ _ _ _ It). rewrite emit_w_in by (simpl; rewrite Nat.eqb_refl; reflexivity).
      unfold cbridge_wire. rewrite Nat.eqb_refl.
      unfold draw_meas, draw_singleq. cbv zeta.
      destruct (v <? c + nq); cbn [fst app3p app3 row_of mid emptyW]; reflexivity.
Qed.

(* ------------------------------------------------------------------------------------------ *)
(* from the segment to the state                                                               *)
(* ------------------------------------------------------------------------------------------ *)
Lemma holds_mono nq nc st st' x f :
  extends nq nc st st' -> (let '(w, _, _, _) := f in w < nq + nc) -> holds st x f -> holds st' x f.
Proof.
  destruct f as [[[w k] off] g]. intros EX Lw H. unfold holds in *.
  destruct (EX w Lw k) as [s E]. rewrite E. apply nth_error_mono. exact H.
Qed.

Lemma box_holds_mono nq nc st st' x b :
  extends nq nc st st' -> (let '(w, _, _) := b in w < nq + nc) -> box_holds st x b -> box_holds st' x b.
Proof.
  destruct b as [[w k] s]. intros EX Lw H. unfold box_holds in *.
  destruct (EX w Lw k) as [s' E]. rewrite E.
  (* firstn (length s) (skipn x (r ++ s')) = s  given the same for r *)
  set (r := row_of k (wire_of st w)) in *.
  destruct (Nat.le_gt_cases x (length r)) as [A|A].
  - rewrite skipn_app. replace (x - length r) with 0 by lia. simpl skipn.
    rewrite firstn_app.
    assert (L : length s <= length (skipn x r)).
    { rewrite <- H at 1. rewrite firstn_length. lia. }
    replace (length s - length (skipn x r)) with 0 by lia. simpl firstn. rewrite app_nil_r. exact H.
  - rewrite skipn_all2 in H by lia. rewrite firstn_nil in H. subst s. reflexivity.
Qed.

Lemma step_links sty nq nc st o st' x :
  0 < nq -> wf_op nq nc o = true -> Inv nq nc st ->
  step true sty nq nc st o = Some (st', x) ->
  (forall f, In f (op_links (padw sty) nq nc o) -> holds st' x f /\ (let '(w, _, _, _) := f in w < nq + nc)) /\
  (forall b, In b (op_boxes (padw sty) nq o) -> box_holds st' x b /\ (let '(w, _, _) := b in w < nq + nc)).
Proof.
  intros Hq W IN HS.
  destruct (step_grow sty nq nc st o Hq W IN) as [st1 [HS1 [_ HW]]].
  assert (EQ : st1 = st' /\ place_x sty nq st (op_wl nq nc o) = x).
  { rewrite HS in HS1. inversion HS1. auto. }
  destruct EQ as [-> EX]. clear HS1.
  pose proof IN as [_ [IW _]].
  assert (ROW : forall v k, In v (op_wl nq nc o) ->
            exists r, length r = x /\
                      row_of k (wire_of st' v) = r ++ row_of k (op_emit true (padw sty) nq nc o v emptyW)).
  { intros v k Iv. destruct (op_wl_bound nq nc o v W Iv) as [Lv _].
    pose proof (x_ge sty nq nc st o v Hq W IN Iv) as XG. rewrite EX in XG, HW.
    rewrite (HW v Lv), (proj2 (mem_true _ _) Iv).
    destruct (IW v Lv) as [A [B C]].
    unfold grow, op_seg.
    destruct k; cbn [row_of top mid bot]; eexists; (split; [|reflexivity]);
      rewrite app_length, rep_length; lia. }
  split.
  - intros [[[v k] off] g] I. destruct (links_in_seg _ _ _ _ _ _ _ _ W I) as [Iv N].
    split; [|apply (op_wl_bound nq nc o v W Iv)].
    unfold holds. destruct (ROW v k Iv) as [r [Lr E]]. rewrite E, <- Lr.
    rewrite nth_error_app_at. exact N.
  - intros [[v k] s] I. destruct (boxes_in_seg _ _ _ _ _ _ _ W I) as [Iv N].
    split; [|apply (op_wl_bound nq nc o v W Iv)].
    unfold box_holds. destruct (ROW v k Iv) as [r [Lr E]]. rewrite E, N, <- Lr.
    rewrite skipn_app. rewrite skipn_all. replace (length r - length r) with 0 by lia.
    simpl. apply firstn_all.
Qed.

Definition links_ok (P nq nc : nat) (st : state) (o : op) (x : nat) : Prop :=
  (forall f, In f (op_links P nq nc o) -> holds st x f) /\
  (forall b, In b (op_boxes P nq o) -> box_holds st x b).

Lemma run_links sty nq nc ops : forall st xs0 st' xs',
  0 < nq -> forallb (wf_op nq nc) ops = true -> Inv nq nc st ->
  run true sty nq nc ops st xs0 = Some (st', xs') ->
  exists xs1, xs' = rev xs0 ++ xs1 /\ length xs1 = length ops /\
    forall k o x, nth_error ops k = Some o -> nth_error xs1 k = Some x ->
                  links_ok (padw sty) nq nc st' o x.
Proof.
  induction ops as [|o r IH]; intros st xs0 st' xs' Hq W IN HR.
  - simpl in HR. inversion HR; subst. exists []. rewrite app_nil_r. split; [reflexivity|]. split; [reflexivity|].
    intros k o x H. destruct k; discriminate.
  - simpl in W. apply andb_true_iff in W. destruct W as [W1 W2].
    destruct (step_inv sty nq nc st o Hq W1 IN) as [st1 [HS I1]].
    simpl in HR. rewrite HS in HR.
    destruct (IH st1 _ st' xs' Hq W2 I1 HR) as [xs1 [E [L K]]].
    set (X := place_x sty nq st (op_wl nq nc o)) in *.
    exists (X :: xs1). split; [|split].
    + rewrite E. simpl. rewrite <- app_assoc. reflexivity.
    + simpl. rewrite L. reflexivity.
    + intros k o' x Ho Hx. destruct k as [|k].
      * simpl in Ho, Hx. injection Ho as ->. injection Hx as <-.
        destruct (step_links sty nq nc st o' st1 X Hq W1 IN HS) as [F B].
        pose proof (run_extends sty nq nc r st1 _ st' xs' Hq W2 I1 HR) as EX.
        split.
        -- intros f Hf. destruct (F f Hf) as [H1 H2]. apply (holds_mono nq nc st1 st' X f EX H2 H1).
        -- intros b Hb. destruct (B b Hb) as [H1 H2]. apply (box_holds_mono nq nc st1 st' X b EX H2 H1).
      * simpl in Ho, Hx. apply (K k o' x Ho Hx).
Qed.

Lemma links_reach_l sty nq nc ops st xs :
  wf_input sty nq nc ops = true ->
  layout_full true sty nq nc ops = Some (st, xs) ->
  length xs = length ops /\
  forall k o x, nth_error ops k = Some o -> nth_error xs k = Some x ->
    (forall f, In f (op_links (padw sty) nq nc o) -> holds st x f) /\
    (forall b, In b (op_boxes (padw sty) nq o) -> box_holds st x b).
Proof.
  intros WF HL.
  destruct (layout_full_ok sty nq nc ops WF) as [st0 [st1 [xs1 [HA [HR [IN H]]]]]].
  rewrite H in HL. inversion HL; subst; clear HL.
  pose proof (wf_input_style _ _ _ _ WF) as WS.
  unfold wf_input in WF. apply andb_true_iff in WF. destruct WF as [WF W3].
  apply andb_true_iff in WF. destruct WF as [W1 _].
  assert (Hq : 0 < nq). { destruct nq; [discriminate|lia]. }
  destruct (init_inv sty nq nc Hq WS) as [st0' [HA' I0]]. rewrite HA in HA'. inversion HA'; subst st0'.
  destruct (run_links sty nq nc ops st0 [] st1 xs Hq W3 I0 HR) as [xs2 [E [L K]]].
  simpl in E. subst xs2. split; [exact L|].
  intros k o x Ho Hx. destruct (K k o x Ho Hx) as [F B].
  pose proof (final_extends sty nq nc st1 IN) as EX.
  assert (Wo : wf_op nq nc o = true).
  { rewrite forallb_forall in W3. apply W3. apply nth_error_In in Ho. exact Ho. }
  split.
  - intros f Hf. apply (holds_mono nq nc st1 _ x f EX); [|apply F; exact Hf].
    destruct f as [[[v k'] off] g]. destruct (links_in_seg _ _ _ _ _ _ _ _ Wo Hf) as [Iv _].
    apply (op_wl_bound nq nc o v Wo Iv).
  - intros b Hb. apply (box_holds_mono nq nc st1 _ x b EX); [|apply B; exact Hb].
    destruct b as [[v k'] s]. destruct (boxes_in_seg _ _ _ _ _ _ _ Wo Hb) as [Iv _].
    apply (op_wl_bound nq nc o v Wo Iv).
Qed.
