(* C01 - soundness of the compact gate-sequence product (Model/GSP.v) for every assignment of matrices to the
   U_list entries, every register, every sequence of index lists: whenever the model returns (c, inds), the formal
   circuit c placed through inds has the semantics of the original gates in order - PROVIDED the merged index set
   enumerates ascending ([ord_asc], true of the repaired code).  Uses app_comm_disjoint and lift_place. *)
From Coq Require Import List Arith Bool Lia Permutation Sorted FunctionalExtensionality Ring.
Import ListNotations.
From QV Require Import Found.Base Found.Lemmas Found.Comm Model.GSP Proofs.GSPLists.

Definition flocal (k : nat) (c : fcirc) : Prop := Forall (fun g => Forall (fun t => t < k) (snd g)) c.
Definition wfblock (b : block) : Prop := flocal (length (snd b)) (fst b).
Definition bdisj (b1 b2 : block) : Prop := disjoint (snd b1) (snd b2).
Definition bden (bs : list block) : fcirc := flat_map (fun b => fplace (snd b) (fst b)) bs.
Definition below (n : nat) (l : list nat) : Prop := Forall (fun t => t < n) l.

(* the oracle enumerates the union ascending *)
Definition ord_asc (ord : list nat -> list nat -> list nat) : Prop :=
  forall a b, StronglySorted lt (ord a b) /\ forall x, In x (ord a b) <-> In x a \/ In x b.

(* ---------------- formal circuits: relabelling ---------------- *)
Lemma fplace_app ts c1 c2 : fplace ts (c1 ++ c2) = fplace ts c1 ++ fplace ts c2.
Proof. unfold fplace, frelabel. apply map_app. Qed.

Lemma flocal_app k c1 c2 : flocal k (c1 ++ c2) <-> flocal k c1 /\ flocal k c2.
Proof. unfold flocal. apply Forall_app. Qed.

Lemma frelabel_ext f g k c : flocal k c -> (forall j, j < k -> f j = g j) -> frelabel f c = frelabel g c.
Proof.
  intros Hc E. unfold frelabel. apply map_ext_in. intros [i qs] Hin. simpl. f_equal.
  unfold flocal in Hc. rewrite Forall_forall in Hc. specialize (Hc _ Hin). simpl in Hc.
  rewrite Forall_forall in Hc. apply map_ext_in. intros t Ht. apply E. auto.
Qed.

Lemma frelabel_frelabel f g c : frelabel f (frelabel g c) = frelabel (fun j => f (g j)) c.
Proof. unfold frelabel. rewrite map_map. apply map_ext. intros [i qs]. simpl. rewrite map_map. reflexivity. Qed.

Lemma nth_map_lt (f : nat -> nat) l j : j < length l -> nth j (map f l) 0 = f (nth j l 0).
Proof.
  intros H. rewrite (nth_indep _ 0 (f 0)) by (rewrite map_length; exact H). apply map_nth.
Qed.

Lemma fplace_fplace S T c : flocal (length T) c ->
  fplace S (fplace T c) = fplace (map (fun j => nth j S 0) T) c.
Proof.
  intros Hc. unfold fplace. rewrite frelabel_frelabel. apply (frelabel_ext _ _ (length T)); [exact Hc|].
  intros j Hj. rewrite nth_map_lt by exact Hj. reflexivity.
Qed.

Lemma frelabel_id k c : flocal k c -> forall f, (forall j, j < k -> f j = j) -> frelabel f c = c.
Proof.
  intros Hc f E. unfold frelabel. rewrite <- (map_id c) at 2. apply map_ext_in. intros [i qs] Hin. simpl. f_equal.
  unfold flocal in Hc. rewrite Forall_forall in Hc. specialize (Hc _ Hin). simpl in Hc. rewrite Forall_forall in Hc.
  rewrite <- (map_id qs) at 2. apply map_ext_in. intros t Ht. apply E. auto.
Qed.

Lemma fplace_seq n c : flocal n c -> fplace (seq 0 n) c = c.
Proof. intros H. unfold fplace. apply (frelabel_id n c H). intros j Hj. apply seq_nth. exact Hj. Qed.

Lemma flocal_fplace k N T c : flocal k c -> length T = k -> below N T -> flocal N (fplace T c).
Proof.
  intros Hc HT HN. unfold flocal, fplace, frelabel in *. rewrite Forall_map. rewrite Forall_forall in *.
  intros g Hg. specialize (Hc g Hg). simpl. rewrite Forall_map. rewrite Forall_forall in *.
  intros t Ht. unfold below in HN. rewrite Forall_forall in HN. apply HN. apply nth_In. rewrite HT. auto.
Qed.

Lemma flocal_mono k k' c : flocal k c -> k <= k' -> flocal k' c.
Proof.
  unfold flocal. intros H Hk. eapply Forall_impl; [|exact H]. intros g Hg. simpl in Hg.
  eapply Forall_impl; [|exact Hg]. intros t Ht. simpl in Ht. lia.
Qed.

Lemma map_nth_seq (l : list nat) : map (fun j => nth j l 0) (seq 0 (length l)) = l.
Proof.
  apply (nth_ext _ _ 0 0).
  - rewrite map_length, seq_length. reflexivity.
  - intros j Hj. rewrite map_length, seq_length in Hj. rewrite nth_map_lt by (rewrite seq_length; exact Hj).
    rewrite seq_nth by exact Hj. reflexivity.
Qed.

Lemma flocal_single id k : flocal k [(id, seq 0 k)].
Proof. repeat constructor. simpl. apply Forall_forall. intros t Ht. apply in_seq in Ht. lia. Qed.

Lemma fplace_single id inds : fplace inds [(id, seq 0 (length inds))] = [(id, inds)].
Proof. unfold fplace, frelabel. simpl. rewrite map_nth_seq. reflexivity. Qed.

(* ---------------- tensor of blocks ---------------- *)
Lemma ftensor_place bs : Forall wfblock bs -> forall pre,
  fplace (pre ++ flat_map snd bs) (ftensor (length pre) (with_arity bs)) = bden bs.
Proof.
  induction 1 as [|[c inds] bs Hb Hbs IH]; intro pre; simpl; [reflexivity|].
  rewrite fplace_app. f_equal.
  - unfold fshift, fplace. rewrite frelabel_frelabel. apply (frelabel_ext _ _ (length inds)); [exact Hb|].
    intros j Hj. rewrite app_nth2_plus. apply app_nth1. exact Hj.
  - specialize (IH (pre ++ inds)). rewrite app_length, <- app_assoc in IH. exact IH.
Qed.

Lemma ftensor_local bs : Forall wfblock bs -> forall off,
  flocal (off + length (flat_map snd bs)) (ftensor off (with_arity bs)).
Proof.
  induction 1 as [|[c inds] bs Hb Hbs IH]; intro off; simpl; [constructor|].
  apply flocal_app. split.
  - unfold wfblock in Hb. simpl in Hb. unfold fshift, frelabel, flocal in *. rewrite Forall_map.
    eapply Forall_impl; [|exact Hb]. intros g Hg. simpl in *. rewrite Forall_map.
    eapply Forall_impl; [|exact Hg]. intros t Ht. simpl in Ht. rewrite app_length. lia.
  - specialize (IH (off + length inds)). rewrite app_length. rewrite Nat.add_assoc. exact IH.
Qed.

Lemma fexpand_Some k c N T c' : fexpand k c N T = Some c' ->
  c' = fplace T c /\ length T = k /\ below N T /\ NoDup T.
Proof.
  unfold fexpand. destruct (_ && _ && _) eqn:E; [|discriminate]. intros H. injection H as <-.
  apply andb_true_iff in E. destruct E as [E E3]. apply andb_true_iff in E. destruct E as [E1 E2].
  apply Nat.eqb_eq in E1. repeat split; [exact E1| | apply nodupb_NoDup; exact E3].
  unfold below. rewrite forallb_forall in E2. apply Forall_forall. intros t Ht. apply Nat.ltb_lt. auto.
Qed.

Lemma below_flat n (bs : list block) : Forall (fun b => below n (snd b)) bs -> below n (flat_map snd bs).
Proof.
  induction 1 as [|b bs Hb _ IH]; simpl; [constructor|]. apply Forall_app. split; assumption.
Qed.

Lemma expand_overall_sound blocks c inds_r n : Forall wfblock blocks -> Forall (fun b => below n (snd b)) blocks ->
  expand_overall blocks = Some (c, inds_r) ->
  c = bden blocks /\ inds_r = seq 0 (length (flat_map snd blocks)) /\ length (flat_map snd blocks) <= n /\
  flocal (length (flat_map snd blocks)) c.
Proof.
  intros Hwf Hn H. unfold expand_overall in H. destruct blocks as [|b0 bs0]; [discriminate|].
  set (blocks := b0 :: bs0) in *. set (flat := flat_map snd blocks) in *.
  destruct (fexpand _ _ _ _) as [c0|] eqn:E; [|discriminate]. injection H as <- <-.
  apply fexpand_Some in E. destruct E as [Ec [_ [Hlt Hnd]]].
  pose proof (ftensor_place blocks Hwf []) as Hp. simpl in Hp. fold flat in Hp.
  pose proof (ftensor_local blocks Hwf 0) as Hl. simpl in Hl. fold flat in Hl.
  repeat split.
  - rewrite Ec. exact Hp.
  - apply isort_perm_seq; assumption.
  - pose proof (below_flat n blocks Hn) as Hb. fold flat in Hb.
    assert (Hincl : incl flat (seq 0 n)).
    { intros x Hx. apply in_seq. unfold below in Hb. rewrite Forall_forall in Hb. specialize (Hb x Hx). lia. }
    pose proof (NoDup_incl_length Hnd Hincl) as Hle. rewrite seq_length in Hle. exact Hle.
  - rewrite Ec. apply (flocal_fplace (length flat)); [exact Hl| reflexivity| exact Hlt].
Qed.

(* ---------------- semantics ---------------- *)
Section Sem.
Variable O : Ops.
Hypothesis Kring : ring_theory (k0 O) (k1 O) (kadd O) (kmul O) (ksub O) (kopp O) eq.
Variable G : nat -> mat O.            (* the matrix of U_list[id] *)
Notation circ := (circ O).
Notation state := (state O).

Definition den (c : fcirc) : circ := map (fun g => (G (fst g), snd g)) c.

Lemma den_app c1 c2 : den (c1 ++ c2) = den c1 ++ den c2.
Proof. apply map_app. Qed.

Lemma den_fplace ts c : den (fplace ts c) = place ts (den c).
Proof. unfold den, fplace, frelabel, place. rewrite !map_map. reflexivity. Qed.

Lemma local_den k c : flocal k c -> local k (den c).
Proof. unfold flocal, local, den. intros H. rewrite Forall_map. exact H. Qed.

Definition cdisj (c1 c2 : circ) : Prop := forall g1 g2, In g1 c1 -> In g2 c2 -> disjoint (snd g1) (snd g2).

Lemma app_sem_comm (M : mat O) ts (c : circ) : (forall g, In g c -> disjoint ts (snd g)) ->
  forall psi : state, sem c (app M ts psi) = app M ts (sem c psi).
Proof.
  induction c as [|g c IH]; intros H psi; [reflexivity|].
  change (sem (g :: c) (app M ts psi)) with (sem c (app (fst g) (snd g) (app M ts psi))).
  change (sem (g :: c) psi) with (sem c (app (fst g) (snd g) psi)).
  rewrite <- (app_comm_disjoint O Kring M (fst g) ts (snd g) psi) by (apply H; left; reflexivity).
  apply IH. intros g' Hg'. apply H. right. exact Hg'.
Qed.

Lemma sem_comm (c1 c2 : circ) : cdisj c1 c2 -> forall psi : state, sem c2 (sem c1 psi) = sem c1 (sem c2 psi).
Proof.
  induction c1 as [|g c1 IH]; intros H psi; [reflexivity|].
  change (sem (g :: c1) psi) with (sem c1 (app (fst g) (snd g) psi)).
  change (sem (g :: c1) (sem c2 psi)) with (sem c1 (app (fst g) (snd g) (sem c2 psi))).
  rewrite IH by (intros g1 g2 H1 H2; apply H; [right; exact H1| exact H2]).
  f_equal. apply app_sem_comm. intros g2 H2. apply H; [left; reflexivity| exact H2].
Qed.

Lemma placed_qubits inds c g t : flocal (length inds) c -> In g (fplace inds c) -> In t (snd g) -> In t inds.
Proof.
  intros Hc Hg Ht. unfold fplace, frelabel in Hg. apply in_map_iff in Hg. destruct Hg as [g0 [<- Hg0]].
  simpl in Ht. apply in_map_iff in Ht. destruct Ht as [j [<- Hj]].
  unfold flocal in Hc. rewrite Forall_forall in Hc. specialize (Hc g0 Hg0). rewrite Forall_forall in Hc.
  apply nth_In. auto.
Qed.

Lemma bden_qubits bs g t : Forall wfblock bs -> In g (bden bs) -> In t (snd g) -> exists b, In b bs /\ In t (snd b).
Proof.
  intros Hwf Hg Ht. unfold bden in Hg. apply in_flat_map in Hg. destruct Hg as [b [Hb Hg]].
  exists b. split; [exact Hb|]. rewrite Forall_forall in Hwf. eapply placed_qubits; eauto. apply Hwf. exact Hb.
Qed.

Lemma cdisj_block b bs : wfblock b -> Forall wfblock bs -> Forall (bdisj b) bs ->
  cdisj (den (fplace (snd b) (fst b))) (den (bden bs)).
Proof.
  intros Hb Hbs Hd g1 g2 H1 H2 t Ht1 Ht2.
  unfold den in H1, H2. apply in_map_iff in H1. destruct H1 as [f1 [<- H1]].
  apply in_map_iff in H2. destruct H2 as [f2 [<- H2]]. simpl in *.
  pose proof (placed_qubits _ _ _ _ Hb H1 Ht1) as Hin1.
  destruct (bden_qubits bs f2 t Hbs H2 Ht2) as [b' [Hb' Hin2]].
  rewrite Forall_forall in Hd. exact (Hd b' Hb' t Hin1 Hin2).
Qed.

Lemma bden_cons b bs : bden (b :: bs) = fplace (snd b) (fst b) ++ bden bs.
Proof. reflexivity. Qed.

Lemma bden_single b : bden [b] = fplace (snd b) (fst b).
Proof. unfold bden. simpl. apply app_nil_r. Qed.

Lemma bden_app bs1 bs2 : bden (bs1 ++ bs2) = bden bs1 ++ bden bs2.
Proof. unfold bden. apply flat_map_app. Qed.

(* pairwise disjoint blocks may be regrouped *)
Lemma bden_partition (p : block -> bool) bs : ForallOrdPairs bdisj bs -> Forall wfblock bs ->
  forall psi : state, sem (den (bden bs)) psi =
    sem (den (bden (filter p bs))) (sem (den (bden (filter (fun b => negb (p b)) bs))) psi).
Proof.
  induction 1 as [|b bs Hb Hbs IH]; intros Hwf psi; [reflexivity|].
  inversion Hwf as [|? ? Hwb Hwbs]; subst. simpl filter. rewrite bden_cons, den_app, (sem_app O).
  rewrite IH by exact Hwbs.
  destruct (p b) eqn:Ep; simpl negb; cbv iota.
  - rewrite bden_cons, den_app, (sem_app O). f_equal.
    apply sem_comm. apply cdisj_block; [exact Hwb| |].
    + apply Forall_forall. intros x Hx. apply filter_In in Hx. rewrite Forall_forall in Hwbs. apply Hwbs. tauto.
    + apply Forall_forall. intros x Hx. apply filter_In in Hx. rewrite Forall_forall in Hb. apply Hb. tauto.
  - rewrite bden_cons, den_app, (sem_app O). reflexivity.
Qed.

(* ---------------- _mult_sublists ---------------- *)
Section Ord.
Variable ord : list nat -> list nat -> list nat.
Hypothesis Hord : ord_asc ord.

Lemma mult_sublists_sound blocks id inds blocks' n :
  ForallOrdPairs bdisj blocks -> Forall wfblock blocks -> Forall (fun b => below n (snd b)) blocks -> below n inds ->
  mult_sublists ord blocks [(id, seq 0 (length inds))] inds = Some blocks' ->
  ForallOrdPairs bdisj blocks' /\ Forall wfblock blocks' /\ Forall (fun b => below n (snd b)) blocks' /\
  forall psi : state, sem (den (bden blocks')) psi = sem (den (bden blocks ++ [(id, inds)])) psi.
Proof.
  intros Hdis Hwf Hn Hinds H. unfold mult_sublists in H.
  destruct (filter (hits inds) blocks) as [|h0 hs] eqn:Ehit; [discriminate|]. rewrite <- Ehit in H. clear Ehit h0 hs.
  unfold mult_merge in H. cbv zeta in H.
  set (p := hits inds) in *.
  set (keep := filter (fun b => negb (p b)) blocks) in *.
  set (hit := filter p blocks) in *.
  set (inds_sub := flat_map snd hit) in *.
  set (revised := ord inds_sub inds) in *.
  destruct (Hord inds_sub inds) as [Hsorted Hmem]. fold revised in Hsorted, Hmem.
  destruct (map_opt _ inds_sub) as [t1|] eqn:E1; [|discriminate].
  destruct (map_opt _ inds) as [t2|] eqn:E2; [|discriminate].
  destruct (fexpand (length inds_sub) _ _ t1) as [a|] eqn:Ea; [|discriminate].
  destruct (fexpand (length inds) _ _ t2) as [b|] eqn:Eb; [|discriminate].
  injection H as <-.
  apply dict_positions in E1; [|exact Hsorted]. destruct E1 as [L1 [M1 B1]].
  apply dict_positions in E2; [|exact Hsorted]. destruct E2 as [L2 [M2 B2]].
  apply fexpand_Some in Ea. destruct Ea as [-> _]. apply fexpand_Some in Eb. destruct Eb as [-> _].
  assert (Hwf_hit : Forall wfblock hit).
  { apply Forall_forall. intros x Hx. apply filter_In in Hx. rewrite Forall_forall in Hwf. apply Hwf. tauto. }
  assert (Hwf_keep : Forall wfblock keep).
  { apply Forall_forall. intros x Hx. apply filter_In in Hx. rewrite Forall_forall in Hwf. apply Hwf. tauto. }
  pose proof (ftensor_local hit Hwf_hit 0) as Hloc. simpl in Hloc. fold inds_sub in Hloc.
  pose proof (ftensor_place hit Hwf_hit []) as Hpl. simpl in Hpl. fold inds_sub in Hpl.
  assert (Hnew : flocal (length revised) (fplace t1 (ftensor 0 (with_arity hit)) ++ fplace t2 [(id, seq 0 (length inds))])).
  { apply flocal_app. split.
    - apply (flocal_fplace (length inds_sub)); [exact Hloc| exact L1| exact B1].
    - apply (flocal_fplace (length inds)); [apply flocal_single| exact L2| exact B2]. }
  assert (Hrev_mem : forall x, In x revised -> below n [x]).
  { intros x Hx. constructor; [|constructor]. apply Hmem in Hx. destruct Hx as [Hx|Hx].
    - unfold inds_sub in Hx. apply in_flat_map in Hx. destruct Hx as [b' [Hb' Hx]]. apply filter_In in Hb'.
      rewrite Forall_forall in Hn. specialize (Hn b' (proj1 Hb')). unfold below in Hn. rewrite Forall_forall in Hn. auto.
    - unfold below in Hinds. rewrite Forall_forall in Hinds. auto. }
  repeat split.
  - apply ForallOrdPairs_app_single; [apply ForallOrdPairs_filter; exact Hdis|].
    apply Forall_forall. intros y Hy. apply filter_In in Hy. destruct Hy as [Hy Hpy].
    intros x Hx1 Hx2. simpl in Hx2. apply Hmem in Hx2. destruct Hx2 as [Hx2|Hx2].
    + unfold inds_sub in Hx2. apply in_flat_map in Hx2. destruct Hx2 as [b' [Hb' Hx2]]. apply filter_In in Hb'.
      destruct Hb' as [Hb' Hpb'].
      destruct (ForallOrdPairs_In Hdis y b' Hy Hb') as [E|[D|D]].
      * subst b'. rewrite Hpb' in Hpy. discriminate.
      * exact (D x Hx1 Hx2).
      * exact (D x Hx2 Hx1).
    + apply negb_true_iff in Hpy. unfold p, hits in Hpy. exact (inter_nonempty_false _ _ Hpy x Hx1 Hx2).
  - apply Forall_app. split; [exact Hwf_keep|]. constructor; [|constructor]. exact Hnew.
  - apply Forall_app. split.
    + apply Forall_forall. intros x Hx. apply filter_In in Hx. rewrite Forall_forall in Hn. apply Hn. tauto.
    + constructor; [|constructor]. simpl. apply Forall_forall. intros x Hx. specialize (Hrev_mem x Hx).
      inversion Hrev_mem. assumption.
  - intro psi. rewrite bden_app, den_app, (sem_app O). rewrite den_app, (sem_app O).
    rewrite (bden_partition p blocks Hdis Hwf psi). fold hit keep.
    rewrite bden_single. cbn [fst snd]. rewrite fplace_app, den_app, (sem_app O).
    rewrite (fplace_fplace revised t1) by (rewrite L1; exact Hloc). rewrite M1, Hpl.
    rewrite (fplace_fplace revised t2) by (rewrite L2; apply flocal_single). rewrite M2, fplace_single. reflexivity.
Qed.

(* ---------------- the loop of _gate_sequence_product ---------------- *)
Definition rec_ok (rec : list (nat * list nat) -> option (fcirc * list nat)) : Prop :=
  forall gs r, rec gs = Some r ->
    flocal (length (snd r)) (fst r) /\ forall psi : state, sem (den (fplace (snd r) (fst r))) psi = sem (den gs) psi.

Lemma below_seq m n : m <= n -> below n (seq 0 m).
Proof. intros H. apply Forall_forall. intros x Hx. apply in_seq in Hx. lia. Qed.

Lemma gsp_loop_sound rec S : rec_ok rec -> forall rest first blocks res,
  ForallOrdPairs bdisj blocks -> Forall wfblock blocks -> Forall (fun b => below (length S) (snd b)) blocks ->
  Forall (fun g => below (length S) (snd g)) rest ->
  (first = true -> blocks = []) ->
  gsp_loop ord rec S first blocks rest = Some res ->
  exists c inds_r, res = back S (c, inds_r) /\ flocal (length inds_r) c /\ below (length S) inds_r /\
    forall psi : state, sem (den (fplace inds_r c)) psi = sem (den (bden blocks ++ rest)) psi.
Proof.
  intros Hrec. induction rest as [|[id inds] rest IH]; intros first blocks res Hdis Hwf Hn Hrest Hfirst H.
  - simpl in H. destruct (expand_overall blocks) as [[c inds_r]|] eqn:E; [|discriminate]. injection H as <-.
    destruct (expand_overall_sound _ _ _ _ Hwf Hn E) as [Ec [Ei [Hle Hl]]].
    subst inds_r. exists c, (seq 0 (length (flat_map snd blocks))). rewrite seq_length.
    split; [reflexivity|]. split; [exact Hl|]. split.
    + apply below_seq. exact Hle.
    + intro psi. rewrite fplace_seq by exact Hl. rewrite app_nil_r, Ec. reflexivity.
  - inversion Hrest as [|? ? Hinds Hrest']; subst. simpl in Hinds.
    simpl in H. destruct (covers blocks (length S)) eqn:Ecov.
    + destruct (expand_overall blocks) as [[U_overall overall_inds]|] eqn:E; [|discriminate].
      destruct (rec ((id, inds) :: rest)) as [[U_left rem_inds]|] eqn:Er; [|discriminate].
      destruct (fexpand _ _ _ _) as [U_left'|] eqn:Ef; [|discriminate]. injection H as <-.
      destruct (expand_overall_sound _ _ _ _ Hwf Hn E) as [Ec [Ei [Hle Hl]]].
      destruct (Hrec _ _ Er) as [Hloc_left Hsem_left]. simpl in Hloc_left, Hsem_left.
      apply fexpand_Some in Ef. destruct Ef as [-> [_ [Hrem _]]].
      assert (Hm : length (flat_map snd blocks) = length S).
      { unfold covers in Ecov. destruct blocks as [|b [|b' bs]]; try discriminate.
        apply Nat.eqb_eq in Ecov. simpl. rewrite app_nil_r. exact Ecov. }
      rewrite Hm in *. subst overall_inds.
      assert (Hall : flocal (length S) (U_overall ++ fplace rem_inds U_left)).
      { apply flocal_app. split; [exact Hl|].
        apply (flocal_fplace (length rem_inds)); [exact Hloc_left| reflexivity| exact Hrem]. }
      exists (U_overall ++ fplace rem_inds U_left), (seq 0 (length S)). rewrite seq_length.
      split; [reflexivity|]. split; [exact Hall|]. split.
      * apply below_seq. lia.
      * intro psi. rewrite fplace_seq by exact Hall. rewrite !den_app, !(sem_app O). rewrite Hsem_left, Ec. reflexivity.
    + destruct first.
      * rewrite (Hfirst eq_refl) in *.
        destruct (IH false [single id inds] res) as [c [inds_r [E1 [E2 [E3 E4]]]]]; try assumption.
        -- constructor; [constructor| constructor].
        -- constructor; [|constructor]. unfold wfblock, single. cbn [fst snd]. apply flocal_single.
        -- constructor; [|constructor]. exact Hinds.
        -- discriminate.
        -- exists c, inds_r. repeat split; try assumption. intro psi. rewrite E4.
           rewrite bden_single. unfold single. cbn [fst snd]. rewrite fplace_single. reflexivity.
      * destruct (inter_nonempty (flat_map snd blocks) inds) eqn:Ei.
        -- destruct (mult_sublists ord blocks _ inds) as [blocks'|] eqn:Em; [|discriminate].
           destruct (mult_sublists_sound _ _ _ _ _ Hdis Hwf Hn Hinds Em) as [D' [W' [N' S']]].
           destruct (IH false blocks' res D' W' N' Hrest' ltac:(discriminate) H) as [c [inds_r [E1 [E2 [E3 E4]]]]].
           exists c, inds_r. repeat split; try assumption. intro psi. rewrite E4.
           rewrite !den_app, !(sem_app O). rewrite S'. rewrite den_app, (sem_app O).
           change (den ((id, inds) :: rest)) with (den ([(id, inds)] ++ rest)). rewrite den_app, (sem_app O). reflexivity.
        -- destruct (IH false (blocks ++ [single id inds]) res) as [c [inds_r [E1 [E2 [E3 E4]]]]]; try assumption.
           ++ apply ForallOrdPairs_app_single; [exact Hdis|]. apply Forall_forall. intros y Hy x Hx1 Hx2. simpl in Hx2.
              apply (inter_nonempty_false _ _ Ei x); [|exact Hx2]. apply in_flat_map. exists y. tauto.
           ++ apply Forall_app. split; [exact Hwf|]. constructor; [|constructor].
              unfold wfblock, single. cbn [fst snd]. apply flocal_single.
           ++ apply Forall_app. split; [exact Hn|]. constructor; [|constructor]. exact Hinds.
           ++ discriminate.
           ++ exists c, inds_r. repeat split; try assumption. intro psi. rewrite E4.
              rewrite bden_app, bden_single. unfold single. cbn [fst snd]. rewrite fplace_single.
              rewrite <- app_assoc. reflexivity.
Qed.

(* ---------------- relabelling to ranks ---------------- *)
Lemma rank_in_sound S inds r : rank_in S inds = Some r -> map (fun j => nth j S 0) r = inds /\ below (length S) r.
Proof.
  unfold rank_in. revert r. induction inds as [|x inds IH]; simpl; intros r H.
  - injection H as <-. split; constructor.
  - destruct (index_of x S) as [i|] eqn:E; [|discriminate]. destruct (map_opt _ inds) as [ys|]; [|discriminate].
    injection H as <-. destruct (IH ys eq_refl) as [H1 H2]. apply index_of_Some in E. destruct E as [E1 E2].
    simpl. split; [rewrite E2, H1; reflexivity| constructor; assumption].
Qed.

Lemma relabel_gates_sound S gates rel : relabel_gates S gates = Some rel ->
  gates = fplace S rel /\ Forall (fun g => below (length S) (snd g)) rel.
Proof.
  unfold relabel_gates. revert rel. induction gates as [|[id inds] gates IH]; simpl; intros rel H.
  - injection H as <-. split; [reflexivity| constructor].
  - destruct (rank_in S inds) as [r|] eqn:E; simpl in H; [|discriminate].
    destruct (map_opt _ gates) as [rs|]; [|discriminate]. injection H as <-.
    destruct (IH rs eq_refl) as [H1 H2]. apply rank_in_sound in E. destruct E as [E1 E2].
    split; [|constructor; assumption]. unfold fplace, frelabel in *. simpl. rewrite E1. f_equal. exact H1.
Qed.

Theorem gsp_sound : forall fuel gates res, gsp ord fuel gates = Some res ->
  flocal (length (snd res)) (fst res) /\
  forall psi : state, sem (den (fplace (snd res) (fst res))) psi = sem (den gates) psi.
Proof.
  induction fuel as [|fuel IH]; intros gates res H; [discriminate|].
  simpl in H. destruct (nonempty_inds gates); [|discriminate].
  set (S := isort (dedup (flat_map snd gates))) in *.
  destruct (relabel_gates S gates) as [rel|] eqn:Erel; [|discriminate].
  apply relabel_gates_sound in Erel. destruct Erel as [Eg Hrel].
  assert (Hrec : rec_ok (gsp ord fuel)) by (intros gs r Hr; apply IH; exact Hr).
  destruct (gsp_loop_sound (gsp ord fuel) S Hrec rel true [] res (FOP_nil _) (Forall_nil _) (Forall_nil _) Hrel
              (fun _ => eq_refl) H) as [c [inds_r [E1 [E2 [E3 E4]]]]].
  subst res. unfold back. simpl fst. simpl snd. split; [rewrite map_length; exact E2|].
  intro psi. rewrite <- fplace_fplace by exact E2. rewrite Eg. rewrite (den_fplace S (fplace inds_r c)), (den_fplace S rel).
  assert (HS : NoDup S) by (apply isort_NoDup, dedup_NoDup).
  assert (L1 : local (length S) (den (fplace inds_r c))).
  { apply local_den. apply (flocal_fplace (length inds_r)); [exact E2| reflexivity| exact E3]. }
  assert (L2 : local (length S) (den rel)) by (apply local_den; exact Hrel).
  assert (Esem : sem (den (fplace inds_r c)) = sem (den rel)).
  { apply functional_extensionality. intro phi. rewrite E4. reflexivity. }
  rewrite (lift_place O S _ _ HS L1 L2 Esem). reflexivity.
Qed.
End Ord.
End Sem.
