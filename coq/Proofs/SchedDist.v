(* compute_distance: longest-path distances along a topological order. *)
From Coq Require Import String Ascii.
From Coq Require Import List Arith Bool QArith PeanoNat Lia Lqa Permutation.
From QV Require Import Model.Sched Proofs.SchedBase.
Import ListNotations.
Open Scope nat_scope.

Ltac splits := repeat match goal with |- _ /\ _ => split end.

Definition keys (acc : list (nat * Q)) : list nat := map fst acc.

Lemma lookup_cons_ne : forall v u x acc, v <> u -> lookup v ((u, x) :: acc) = lookup v acc.
Proof. intros v u x acc H. simpl. destruct (Nat.eqb u v) eqn:He; [apply Nat.eqb_eq in He; congruence | reflexivity]. Qed.

Lemma lookup_cons_eq : forall v x acc, lookup v ((v, x) :: acc) = Some x.
Proof. intros. simpl. rewrite Nat.eqb_refl. reflexivity. Qed.

Lemma lookup_keys : forall v acc, In v (keys acc) <-> exists x, lookup v acc = Some x.
Proof.
  intros v acc. induction acc as [|[u y] r IH]; simpl.
  - split; [tauto | intros [x H]; discriminate].
  - destruct (Nat.eqb u v) eqn:He.
    + apply Nat.eqb_eq in He. split; [intros _; exists y; reflexivity | intros _; left; exact He].
    + apply Nat.eqb_neq in He. rewrite <- IH. split; [intros [H|H]; [congruence | exact H] | intros H; right; exact H].
Qed.

Lemma lookups_some : forall ps acc, (forall p, In p ps -> In p (keys acc)) -> exists ys, lookups ps acc = Some ys.
Proof.
  induction ps as [|p r IH]; intros acc H; simpl.
  - exists []. reflexivity.
  - destruct (proj1 (lookup_keys p acc) (H p (or_introl eq_refl))) as [x Hx]. rewrite Hx.
    destruct (IH acc (fun q Hq => H q (or_intror Hq))) as [ys Hys]. rewrite Hys. exists (x :: ys). reflexivity.
Qed.

Lemma lookups_spec : forall ps acc ys, lookups ps acc = Some ys ->
  Forall2 (fun p y => lookup p acc = Some y) ps ys.
Proof.
  induction ps as [|p r IH]; intros acc ys H; simpl in H.
  - inversion H. constructor.
  - destruct (lookup p acc) as [x|] eqn:Hx; [|discriminate].
    destruct (lookups r acc) as [xs|] eqn:Hxs; [|discriminate].
    inversion H; subst. constructor; [exact Hx | apply IH; exact Hxs].
Qed.

Lemma Forall2_In_l : forall (A B : Type) (Rel : A -> B -> Prop) l l' a, Forall2 Rel l l' -> In a l -> exists b, In b l' /\ Rel a b.
Proof.
  intros A B Rel l l' a H. induction H as [|x y l l' Hxy _ IH]; intros Ha; simpl in *; [contradiction|].
  destruct Ha as [<-|Ha]; [exists y; tauto|]. destruct (IH Ha) as [b [Hb Hr]]. exists b. tauto.
Qed.

Lemma Forall2_In_r : forall (A B : Type) (Rel : A -> B -> Prop) l l' b, Forall2 Rel l l' -> In b l' -> exists a, In a l /\ Rel a b.
Proof.
  intros A B Rel l l' b H. induction H as [|x y l l' Hxy _ IH]; intros Hb; simpl in *; [contradiction|].
  destruct Hb as [<-|Hb]; [exists x; tauto|]. destruct (IH Hb) as [a [Ha Hr]]. exists a. tauto.
Qed.

(* ---------- max ---------- *)
Lemma qmax_l : forall a b, (a <= qmax a b)%Q.
Proof. intros a b. unfold qmax. destruct (Qle_bool a b) eqn:H; [apply Qle_bool_iff in H; exact H | apply Qle_refl]. Qed.

Lemma qmax_r : forall a b, (b <= qmax a b)%Q.
Proof.
  intros a b. unfold qmax. destruct (Qle_bool a b) eqn:H; [apply Qle_refl|].
  destruct (Qlt_le_dec b a) as [Hlt|Hle]; [apply Qlt_le_weak; exact Hlt|].
  apply Qle_bool_iff in Hle. congruence.
Qed.

Lemma qmax_cases : forall a b, qmax a b = a \/ qmax a b = b.
Proof. intros a b. unfold qmax. destruct (Qle_bool a b); tauto. Qed.

Lemma maxl_ge : forall xs x y, In y (x :: xs) -> (y <= fold_left qmax xs x)%Q.
Proof.
  induction xs as [|z r IH]; intros x y Hy; simpl in *.
  - destruct Hy as [<-|[]]. apply Qle_refl.
  - destruct Hy as [<-|[<-|Hy]].
    + eapply Qle_trans; [apply (qmax_l x z) | apply IH; left; reflexivity].
    + eapply Qle_trans; [apply (qmax_r x z) | apply IH; left; reflexivity].
    + apply IH. right. exact Hy.
Qed.

Lemma maxl_in : forall xs x, In (fold_left qmax xs x) (x :: xs).
Proof.
  induction xs as [|z r IH]; intros x; simpl; [left; reflexivity|].
  destruct (IH (qmax x z)) as [H|H].
  - destruct (qmax_cases x z) as [Hc|Hc]; [left | right; left]; rewrite <- H; symmetry; exact Hc.
  - right. right. exact H.
Qed.

(* ---------- one pass ---------- *)
Section Dist.
  Variable P : nat -> list nat.
  Variable dur : nat -> Q.
  Hypothesis dur_nonneg : forall v, (0 <= dur v)%Q.

  Definition good (acc : list (nat * Q)) : Prop :=
    forall v x, lookup v acc = Some x ->
      (dur v <= x)%Q /\
      (P v = [] -> x = dur v) /\
      (forall u, In u (P v) -> exists y, lookup u acc = Some y /\ (y + dur v <= x)%Q) /\
      (P v <> [] -> exists u y, In u (P v) /\ lookup u acc = Some y /\ x = (y + dur v)%Q).

  Fixpoint sumk (l : list nat) : Q := match l with [] => 0%Q | v :: r => (dur v + sumk r)%Q end.

  Lemma sumk_nonneg : forall l, (0 <= sumk l)%Q.
  Proof. induction l as [|v r IH]; simpl; [lra | specialize (dur_nonneg v); lra]. Qed.

  Lemma sumk_perm : forall l l', Permutation l l' -> (sumk l == sumk l')%Q.
  Proof. intros l l' H. induction H; simpl; lra. Qed.

  Definition bounded (acc : list (nat * Q)) : Prop :=
    forall v x, lookup v acc = Some x -> (x <= sumk (keys acc))%Q.

  Lemma good_extend : forall v x acc, ~ In v (keys acc) -> good acc ->
    (dur v <= x)%Q -> (P v = [] -> x = dur v) ->
    (forall u, In u (P v) -> exists y, lookup u acc = Some y /\ (y + dur v <= x)%Q) ->
    (P v <> [] -> exists u y, In u (P v) /\ lookup u acc = Some y /\ x = (y + dur v)%Q) ->
    good ((v, x) :: acc).
  Proof.
    intros v x acc Hv Hg H1 H2 H3 H4 w z Hw.
    assert (Hext : forall u y, lookup u acc = Some y -> lookup u ((v, x) :: acc) = Some y).
    { intros u y Hu. rewrite lookup_cons_ne; [exact Hu|]. intros ->. apply Hv. apply lookup_keys. exists y. exact Hu. }
    destruct (Nat.eq_dec w v) as [->|Hne].
    - rewrite lookup_cons_eq in Hw. inversion Hw; subst z. splits; try assumption.
      + intros u Hu. destruct (H3 u Hu) as [y [Hy Hle]]. exists y. split; [apply Hext; exact Hy | exact Hle].
      + intros Hp. destruct (H4 Hp) as (u & y & Hu & Hy & He). exists u, y. splits; try assumption. apply Hext. exact Hy.
    - rewrite lookup_cons_ne in Hw by exact Hne. destruct (Hg w z Hw) as (G1 & G2 & G3 & G4). splits; try assumption.
      + intros u Hu. destruct (G3 u Hu) as [y [Hy Hle]]. exists y. split; [apply Hext; exact Hy | exact Hle].
      + intros Hp. destruct (G4 Hp) as (u & y & Hu & Hy & He). exists u, y. splits; try assumption. apply Hext. exact Hy.
  Qed.

  Lemma bounded_extend : forall v x acc, bounded acc -> (x <= dur v + sumk (keys acc))%Q -> bounded ((v, x) :: acc).
  Proof.
    intros v x acc Hb Hx w z Hw. simpl. destruct (Nat.eq_dec w v) as [->|Hne].
    - rewrite lookup_cons_eq in Hw. inversion Hw; subst. exact Hx.
    - rewrite lookup_cons_ne in Hw by exact Hne. specialize (Hb w z Hw). specialize (dur_nonneg v). lra.
  Qed.

  Lemma dist_go_spec : forall order acc,
    NoDup (order ++ keys acc) -> good acc -> bounded acc ->
    (forall l1 v l2, order = l1 ++ v :: l2 -> forall u, In u (P v) -> In u l1 \/ In u (keys acc)) ->
    exists acc', dist_go P dur order acc = Some acc' /\ good acc' /\ bounded acc' /\
                 keys acc' = rev order ++ keys acc.
  Proof.
    induction order as [|v r IH]; intros acc Hnd Hg Hb Htopo; simpl.
    - exists acc. splits; try assumption; reflexivity.
    - assert (Hpk : forall u, In u (P v) -> In u (keys acc)).
      { intros u Hu. destruct (Htopo [] v r eq_refl u Hu) as [[]|H]. exact H. }
      assert (Hvk : ~ In v (keys acc)).
      { simpl in Hnd. inversion Hnd as [|? ? Hn _]; subst. intros H. apply Hn. apply in_app_iff. right. exact H. }
      assert (Hnd' : forall x, NoDup (r ++ keys ((v, x) :: acc))).
      { intros x. simpl. eapply Permutation_NoDup; [apply Permutation_middle | exact Hnd]. }
      assert (Htopo' : forall x l1 w l2, r = l1 ++ w :: l2 -> forall u, In u (P w) -> In u l1 \/ In u (keys ((v, x) :: acc))).
      { intros x l1 w l2 Hr u Hu. destruct (Htopo (v :: l1) w l2) with (u := u) as [H|H].
        - rewrite Hr. reflexivity.
        - exact Hu.
        - destruct H as [<-|H]; [right; left; reflexivity | left; exact H].
        - right. right. exact H. }
      assert (Hfin : forall x, good ((v, x) :: acc) -> bounded ((v, x) :: acc) ->
                exists acc', dist_go P dur r ((v, x) :: acc) = Some acc' /\ good acc' /\ bounded acc' /\
                             keys acc' = rev (v :: r) ++ keys acc).
      { intros x Hg' Hb'. destruct (IH _ (Hnd' x) Hg' Hb' (Htopo' x)) as (acc' & H1 & H2 & H3 & H4).
        exists acc'. splits; try assumption. rewrite H4. simpl. rewrite <- app_assoc. reflexivity. }
      destruct (P v) as [|p ps] eqn:HP.
      + apply Hfin.
        * apply good_extend; try assumption.
          -- apply Qle_refl.
          -- reflexivity.
          -- intros u Hu. rewrite HP in Hu. contradiction.
          -- intros H. rewrite HP in H. congruence.
        * apply bounded_extend; [exact Hb|]. pose proof (sumk_nonneg (keys acc)). lra.
      + destruct (lookups_some (p :: ps) acc) as [ys Hys].
        { intros q Hq. apply Hpk. exact Hq. }
        pose proof (lookups_spec _ _ _ Hys) as HF. simpl in Hys. rewrite Hys.
        destruct ys as [|x0 xs]; [inversion HF|].
        set (m := fold_left qmax xs x0).
        assert (Hm_in : In m (x0 :: xs)) by apply maxl_in.
        destruct (Forall2_In_r _ _ _ _ _ m HF Hm_in) as (um & Hum & Hlm).
        assert (Hm0 : (0 <= m)%Q).
        { destruct (Hg um m Hlm) as (G1 & _). specialize (dur_nonneg um). lra. }
        apply Hfin.
        * apply good_extend; try assumption.
          -- lra.
          -- intros H. rewrite HP in H. discriminate.
          -- intros u Hu. rewrite HP in Hu. destruct (Forall2_In_l _ _ _ _ _ u HF Hu) as (y & Hy & Hly).
             exists y. split; [exact Hly|]. pose proof (maxl_ge xs x0 y Hy). fold m in H. lra.
          -- intros _. exists um, m. splits; try assumption; [rewrite HP; exact Hum | reflexivity].
        * apply bounded_extend; [exact Hb|]. specialize (Hb um m Hlm). lra.
  Qed.

  Theorem dist_pass : forall order,
    NoDup order ->
    (forall l1 v l2, order = l1 ++ v :: l2 -> forall u, In u (P v) -> In u l1) ->
    exists acc, dist_go P dur order [] = Some acc /\ good acc /\ bounded acc /\ keys acc = rev order.
  Proof.
    intros order Hnd Htopo.
    destruct (dist_go_spec order []) as (acc & H1 & H2 & H3 & H4).
    - simpl. rewrite app_nil_r. exact Hnd.
    - intros v x H. discriminate.
    - intros v x H. discriminate.
    - intros l1 v l2 He u Hu. left. eapply Htopo; eauto.
    - exists acc. splits; try assumption. rewrite H4. simpl. apply app_nil_r.
  Qed.

  Lemma getd_lookup : forall acc v, In v (keys acc) -> lookup v acc = Some (getd acc v).
  Proof.
    intros acc v H. apply lookup_keys in H. destruct H as [x Hx]. unfold getd. rewrite Hx. reflexivity.
  Qed.
End Dist.

Lemma all_some_true : forall n acc, (forall v, v < n -> In v (keys acc)) -> all_some n acc = true.
Proof.
  intros n acc H. unfold all_some. apply forallb_forall. intros v Hv. apply in_seq in Hv.
  destruct (proj1 (lookup_keys v acc) (H v ltac:(lia))) as [x Hx]. rewrite Hx. reflexivity.
Qed.

(* ---------- cycle order -> list order ---------- *)
Lemma app_split_notin : forall (c X l1 l2 : list nat) v, c ++ X = l1 ++ v :: l2 -> ~ In v c ->
  exists l1', l1 = c ++ l1' /\ X = l1' ++ v :: l2.
Proof.
  induction c as [|a c' IH]; intros X l1 l2 v He Hn; simpl in *.
  - exists l1. tauto.
  - destruct l1 as [|b l1']; simpl in He.
    + inversion He; subst. exfalso. apply Hn. left. reflexivity.
    + inversion He; subst. destruct (IH X l1' l2 v H1) as (l & H2 & H3); [tauto|].
      exists l. split; [rewrite H2; reflexivity | exact H3].
Qed.

Lemma beforeC_prefix : forall cs u v l1 l2, beforeC cs u v -> concat cs = l1 ++ v :: l2 -> In u l1.
Proof.
  induction cs as [|c r IH]; intros u v l1 l2 (Hu & Hv & Hlt) He; simpl in *; [contradiction|].
  destruct (memb v c) eqn:Hmv; [lia|].
  apply memb_false in Hmv.
  destruct (app_split_notin _ _ _ _ _ He Hmv) as (l1' & H1 & H2). subst l1. apply in_app_iff.
  destruct (memb u c) eqn:Hmu; [left; apply memb_In; exact Hmu|].
  apply memb_false in Hmu. right. apply (IH u v l1' l2); [|exact H2].
  apply in_app_iff in Hu. apply in_app_iff in Hv. unfold beforeC. splits; try tauto. lia.
Qed.

Lemma concat_rev_perm : forall cs : list (list nat), Permutation (concat (rev cs)) (concat cs).
Proof.
  induction cs as [|c r IH]; simpl; [apply perm_nil|].
  rewrite concat_app. simpl. rewrite app_nil_r.
  eapply perm_trans; [apply Permutation_app_comm | apply Permutation_app_head; exact IH].
Qed.

Lemma beforeC_rev : forall cs u v, NoDup (concat cs) -> beforeC cs u v -> beforeC (rev cs) v u.
Proof.
  intros cs u v Hnd (Hu & Hv & Hlt). unfold beforeC. rewrite !concat_rev_In. splits; try assumption.
  pose proof (cidx_rev cs u Hnd Hu). pose proof (cidx_rev cs v Hnd Hv). lia.
Qed.

(* ---------- compute_distance ---------- *)
Section CD.
  Variable n : nat.
  Variable dur : nat -> Q.
  Hypothesis dur_nonneg : forall v, (0 <= dur v)%Q.

  Theorem compute_distance_spec : forall E cycles,
    Permutation (concat cycles) (seq 0 n) ->
    (forall u v, In (u, v) E -> beforeC cycles u v) ->
    exists ds de, compute_distance n E dur cycles = Some (ds, de) /\
      good (preds E) dur ds /\ bounded dur ds /\ keys ds = rev (concat cycles) /\
      good (preds (swapE E)) dur de /\ bounded dur de /\ keys de = rev (concat (rev cycles)).
  Proof.
    intros E cycles Hperm Htopo. unfold compute_distance.
    assert (Hnd : NoDup (concat cycles)) by (eapply Permutation_NoDup; [apply Permutation_sym; exact Hperm | apply seq_NoDup]).
    destruct (dist_pass (preds E) dur dur_nonneg (concat cycles) Hnd) as (ds & Hd1 & Hd2 & Hd3 & Hd4).
    { intros l1 v l2 He u Hu. apply preds_In in Hu. eapply beforeC_prefix; [apply Htopo; exact Hu | exact He]. }
    rewrite Hd1.
    assert (Hnd' : NoDup (concat (rev cycles))) by (eapply Permutation_NoDup; [apply Permutation_sym; apply concat_rev_perm | exact Hnd]).
    destruct (dist_pass (preds (swapE E)) dur dur_nonneg (concat (rev cycles)) Hnd') as (de & He1 & He2 & He3 & He4).
    { intros l1 v l2 He u Hu. apply preds_In in Hu. apply (proj1 (swapE_In _ _ _)) in Hu.
      eapply beforeC_prefix; [apply beforeC_rev; [exact Hnd | apply Htopo; exact Hu] | exact He]. }
    rewrite He1.
    assert (Hall1 : all_some n ds = true).
    { apply all_some_true. intros v Hv. rewrite Hd4. apply -> in_rev.
      apply (Permutation_in _ (Permutation_sym Hperm)). apply in_seq. lia. }
    assert (Hall2 : all_some n de = true).
    { apply all_some_true. intros v Hv. rewrite He4. apply -> in_rev. apply concat_rev_In.
      apply (Permutation_in _ (Permutation_sym Hperm)). apply in_seq. lia. }
    rewrite Hall1, Hall2. simpl. exists ds, de. splits; try assumption. reflexivity.
  Qed.
End CD.
