(* C04 totality, part 2: a program that is well-formed w.r.t. the standard (Spec/Qasm.v wf: declared names, arities,
   indices in range, equal register sizes in a broadcast, distinct qubits, plain closed expressions, names declared once,
   non-empty registers, every gate body applies a gate) is never refused by the importer model. *)
From Coq Require Import Lia.
From QV Require Import Model.QasmImport Gen.Qasm Spec.QasmSem Proofs.QasmShortcut Proofs.QasmCustom Proofs.QasmRegs Proofs.QasmTotal1.
Local Open Scope string_scope.
Local Open Scope nat_scope.
Local Open Scope list_scope.

Definition sig_agree (S1 S2 : list (string * (nat * nat))) : Prop := forall g, sassoc g S1 = sassoc g S2.
Lemma sig_agree_cons S1 S2 n v : sig_agree S1 S2 -> sig_agree ((n, v) :: S1) ((n, v) :: S2).
Proof. intros H g. cbn [sassoc]. destruct (String.eqb g n); [reflexivity|apply H]. Qed.

Lemma subset_cons_r l x m : subset l m = true -> subset l (x :: m) = true.
Proof.
  unfold subset. rewrite !forallb_forall. intros H y Hy. specialize (H y Hy). unfold smem in *. cbn [existsb]. rewrite H. apply Bool.orb_true_r.
Qed.

(* ---- first pass ---- *)
Lemma init_body_total S Sg ps qs b : sig_agree S Sg -> forallb (wf_bstmt S ps qs) b = true ->
  init_body Sg ps qs b = Some (calls b) /\ Forall (call_ok Sg ps qs) (calls b).
Proof.
  intros Ha. induction b as [|s b IH]; intros H; [split; [reflexivity|constructor]|].
  cbn [forallb] in H. apply andb_prop in H. destruct H as [Hs H]. destruct (IH H) as [E F].
  destruct s as [h args hq|x]; cbn [init_body calls flat_map app]; fold (calls b); [|split; assumption].
  cbn [wf_bstmt] in Hs. rewrite (Ha h) in Hs. destruct (sassoc h Sg) as [[np nq]|] eqn:Eh; [|discriminate].
  apply andb_prop in Hs. destruct Hs as [Hs Hex]. apply andb_prop in Hs. destruct Hs as [Hs Hsub]. apply andb_prop in Hs. destruct Hs as [Hs Hnd].
  apply andb_prop in Hs. destruct Hs as [Hla Hlq].
  assert (Hck : forallb (check_expr ps) args = true).
  { rewrite forallb_forall in *. intros e He. specialize (Hex e He). apply andb_prop in Hex. destruct Hex as [P Sb].
    unfold check_expr. rewrite P. apply subset_cons_r. exact Sb. }
  rewrite Hla, Hlq, Hnd, Hsub, Hck, E. cbn [andb]. split; [reflexivity|].
  constructor; [|exact F]. exists np, nq. apply Nat.eqb_eq in Hla. apply Nat.eqb_eq in Hlq. repeat split; auto.
Qed.
Definition gate_names_ok (items : list gitem) : Prop :=
  Forall (fun i => match i with GDef n d => smem n predefined = false | GOpaque _ _ _ => True end) items.

Lemma init_gates_total items : forall S Sg Gi, sig_agree S Sg -> gok Sg Gi -> wf_gates S items = true -> gate_names_ok items ->
  exists Sg' Gi', init_gates Sg Gi items = Some (Sg', Gi') /\ gok Sg' Gi' /\ sig_agree (sigs_of S items) Sg'.
Proof.
  induction items as [|i items IH]; intros S Sg Gi Ha Hg Hw Hn.
  - exists Sg, Gi. repeat split; assumption.
  - destruct i as [n d|n ps qs]; [|discriminate]. cbn [wf_gates] in Hw. apply andb_prop in Hw. destruct Hw as [Hb Hw].
    unfold gate_names_ok in Hn. inversion Hn as [|? ? Hh Hn']; subst. fold (gate_names_ok items) in Hn'. cbn beta iota in Hh. rename Hh into Hnp.
    destruct (init_body_total S Sg _ _ _ Ha Hb) as [E F]. cbn [init_gates sigs_of]. rewrite E.
    apply IH; [apply sig_agree_cons; exact Ha| |exact Hw|exact Hn'].
    destruct d as [ps qs body]. cbn [gd_params gd_qubits gd_body] in *. apply gok_cons; assumption.
Qed.

(* ---- broadcast ---- *)
Lemma broadcast_length rs insts : broadcast rs = Some insts -> forall inst, In inst insts -> length inst = length rs.
Proof.
  unfold broadcast. destruct (common_size rs) as [[n|]|]; intros H inst Hin; try discriminate; injection H as <-.
  - apply in_map_iff in Hin. destruct Hin as [j [<- _]]. apply map_length.
  - destruct Hin as [<-|[]]. apply map_length.
Qed.

Section T.
Variable A : VAlg.
Hypothesis div_total : forall a b : A, vdiv A a b <> None.

Lemma closed_args_total args : forallb (fun e => plain e && subset (ids e) []) args = true ->
  exists vals, omap (Qasm.eval A []) args = Some vals /\ length vals = length args.
Proof.
  intros H. apply omap_total. rewrite forallb_forall in H. intros e He. specialize (H e He). apply andb_prop in H. destruct H as [P Sb].
  apply (eval_total A div_total); assumption.
Qed.

Lemma gate_add_total S Sg Gi QL cc g args qs :
  sig_agree S Sg -> gok Sg Gi -> (forall r off n, sassoc r QL = Some (off, n) -> 0 < n) ->
  wf_app S QL g args qs = true -> gate_add A Sg Gi QL cc g args qs <> None.
Proof.
  intros Ha Hg Hpos Hw. unfold wf_app in Hw. rewrite (Ha g) in Hw. unfold gate_add.
  destruct (sassoc g Sg) as [[np nq]|] eqn:Es; [|discriminate]. rewrite (regs_ok QL qs Hpos).
  destruct (omap (resolve QL) qs) as [rs|] eqn:Er; [|discriminate].
  apply andb_prop in Hw. destruct Hw as [Hw Hb]. apply andb_prop in Hw. destruct Hw as [Hw Hex]. apply andb_prop in Hw. destruct Hw as [Hla Hlq].
  destruct (broadcast rs) as [insts|] eqn:Eb; [|discriminate].
  apply Nat.eqb_eq in Hlq. pose proof (omap_length _ _ _ Er) as Lrs.
  assert (Hlen : forall inst, In inst insts -> length inst = nq).
  { intros inst Hin. rewrite (broadcast_length rs insts Eb inst Hin). congruence. }
  assert (Hchk : forallb (fun regs => (length regs =? nq) && nnodup regs) insts = true).
  { rewrite forallb_forall in *. intros inst Hin. rewrite (Hlen inst Hin), Nat.eqb_refl, (Hb inst Hin). reflexivity. }
  rewrite Hla, Hchk. cbn [andb]. destruct (closed_args_total args Hex) as [vals [Ev Lv]]. rewrite Ev.
  apply Nat.eqb_eq in Hla.
  destruct (smem g predefined) eqn:Hm.
  - destruct (omap_total (fun regs => match add_predefined g regs vals with Some gs => Some (IOp cc None gs) | None => None end) insts) as [r [Hr _]]; [|rewrite Hr; discriminate].
    intros inst Hin. rewrite (gok_predefined _ _ g Hg Hm) in Es.
    destruct (add_predefined g inst vals) eqn:Ea; [discriminate|]. exfalso. eapply (add_predefined_total g np nq inst vals); eauto.
  - destruct (custom A Gi g vals (seq 0 nq)) eqn:Ec; [discriminate|]. exfalso.
    eapply (custom_total A div_total Sg Gi Hg g np nq vals (seq 0 nq)); eauto; [congruence|apply seq_length].
Qed.

Lemma barrier_total QL qs rs : omap (resolve QL) qs = Some rs -> (forall r off n, sassoc r QL = Some (off, n) -> 0 < n) ->
  regs_gate false QL qs <> None.
Proof.
  intros Er Hpos. unfold regs_gate. rewrite omap_ireg1, Er. cbn [option_map].
  pose proof (sizes_pos QL Hpos qs rs Er) as Hp.
  destruct (whole_sizes (map r2i rs)) as [|n ns] eqn:W.
  - rewrite (no_whole_pick rs W). discriminate.
  - cbn [andb]. destruct (last (n :: ns) 0 =? 0); [discriminate|].
    set (m := fold_right Nat.min (last (n :: ns) 0) (n :: ns)).
    assert (Hm : Forall (fun k => m <= k) (n :: ns)).
    { subst m. generalize (last (n :: ns) 0) as e. generalize (n :: ns) as l. clear. induction l as [|a l IH]; intros e; [constructor|].
      cbn [fold_right]. constructor; [apply Nat.le_min_l|]. eapply Forall_impl; [|apply (IH e)]. intros k Hk. cbn beta in Hk. lia. }
    rewrite <- W in Hm.
    destruct (omap_total (fun j => omap (ielem j) (map r2i rs)) (seq 0 m)) as [r [Hr _]]; [|rewrite Hr; discriminate].
    intros j Hj. apply in_seq in Hj. clear - Hm Hj. induction rs as [|a rs IH]; [discriminate|].
    cbn [map omap]. destruct a as [b|bs]; cbn [r2i ielem whole_sizes map] in *.
    + destruct (omap (ielem j) (map r2i rs)) eqn:E; [discriminate|]. exfalso. apply (IH Hm). reflexivity.
    + inversion Hm as [|? ? H1 H2]; subst. destruct (nth_error bs j) eqn:E; [|apply nth_error_None in E; lia].
      destruct (omap (ielem j) (map r2i rs)) eqn:E2; [discriminate|]. exfalso. apply (IH H2). reflexivity.
Qed.

Lemma final_op_total S Sg Gi QL CL o :
  sig_agree S Sg -> gok Sg Gi -> (forall r off n, sassoc r QL = Some (off, n) -> 0 < n) ->
  wf_op S QL CL o = true -> final_op A Sg Gi QL CL o <> None.
Proof.
  intros Ha Hg Hpos Hw. destruct o as [g args qs|c k g args qs|q c|qs|q]; cbn [wf_op final_op] in *.
  - eapply gate_add_total; eauto.
  - destruct (sassoc c CL) as [[off n]|]; [|discriminate].
    destruct (2 ^ n <=? k).
    + destruct (gate_add A Sg Gi QL None g args qs) eqn:E; [discriminate|]. exfalso. eapply gate_add_total; eauto.
    + eapply gate_add_total; eauto.
  - destruct q as [qr|qr i], c as [cr|cr j]; cbn [resolve] in Hw.
    + destruct (sassoc qr QL) as [[qo qn]|]; [|discriminate]. destruct (sassoc cr CL) as [[co cn]|]; [|discriminate].
      rewrite !seq_length in Hw. rewrite Hw. discriminate.
    + destruct (sassoc qr QL) as [[qo qn]|]; [|discriminate]. destruct (sassoc cr CL) as [[co cn]|]; [|discriminate].
      destruct (j <? cn); discriminate.
    + destruct (sassoc qr QL) as [[qo qn]|]; [|discriminate]. destruct (i <? qn); [|discriminate].
      destruct (sassoc cr CL) as [[co cn]|]; discriminate.
    + destruct (sassoc qr QL) as [[qo qn]|]; [|discriminate]. destruct (i <? qn); [|discriminate].
      destruct (sassoc cr CL) as [[co cn]|]; [|discriminate]. destruct (j <? cn); [|discriminate]. discriminate.
  - destruct (omap (resolve QL) qs) as [rs|] eqn:Er; [|discriminate].
    destruct (regs_gate false QL qs) eqn:E; [discriminate|]. exfalso. eapply barrier_total; eauto.
  - discriminate.
Qed.
Lemma final_ops_total S Sg Gi QL CL os :
  sig_agree S Sg -> gok Sg Gi -> (forall r off n, sassoc r QL = Some (off, n) -> 0 < n) ->
  forallb (wf_op S QL CL) os = true -> final_ops A Sg Gi QL CL os <> None.
Proof.
  intros Ha Hg Hpos. induction os as [|o os IH]; intros H; [discriminate|].
  cbn [forallb] in H. apply andb_prop in H. destruct H as [Ho H]. cbn [final_ops].
  destruct (final_op A Sg Gi QL CL o) eqn:E; [|exfalso; eapply final_op_total; eauto].
  destruct (final_ops A Sg Gi QL CL os) eqn:E2; [discriminate|]. exfalso. apply (IH H). reflexivity.
Qed.
End T.

(* ---- whole programs ---- *)
Lemma smem_app x l1 l2 : smem x (l1 ++ l2) = smem x l1 || smem x l2.
Proof. unfold smem. apply existsb_app. Qed.
Lemma snodup_app_notin l1 : forall l2, snodup (l1 ++ l2) = true -> forall x, In x l2 -> smem x l1 = false.
Proof.
  induction l1 as [|a l1 IH]; intros l2 H x Hx; [reflexivity|]. cbn [app snodup] in H. apply andb_prop in H. destruct H as [Ha H].
  cbn [smem existsb]. fold (smem x l1). rewrite (IH l2 H x Hx), Bool.orb_false_r.
  apply Bool.negb_true_iff in Ha. rewrite smem_app in Ha. apply Bool.orb_false_iff in Ha. destruct Ha as [_ Ha].
  destruct (String.eqb x a) eqn:E; [|reflexivity]. apply String.eqb_eq in E. subst. rewrite (smem_true_in a l2 Hx) in Ha. discriminate.
Qed.
Lemma not_lib_not_predefined n : smem n (map fst lib_sigs) = false -> smem n predefined = false.
Proof.
  intros H. destruct (smem n predefined) eqn:M; [|reflexivity]. exfalso.
  destruct (sassoc n sig0) as [v|] eqn:E; [|apply sig0_mem in E; congruence].
  rewrite <- lib_sig0 in E. apply sassoc_in in E. assert (In n (map fst lib_sigs)) by (apply in_map_iff; exists (n, v); split; [reflexivity|exact E]).
  rewrite (smem_true_in _ _ H0) in H. discriminate.
Qed.
Lemma names_ok_of_wf p : wf_names lib_sigs p = true -> gate_names_ok (p_gates p).
Proof.
  unfold wf_names. intros H. apply andb_prop in H. destruct H as [H Hb].
  do 4 (apply andb_prop in H; destruct H as [H _]). unfold gate_names_ok. apply Forall_forall. intros i Hi.
  rewrite forallb_forall in Hb. specialize (Hb i Hi). destruct i as [n d|]; [|exact I].
  apply not_lib_not_predefined. apply (snodup_app_notin _ _ H n). apply in_map_iff. exists (GDef n d). split; [reflexivity|exact Hi].
Qed.
Lemma no_reset_of_wf S QL CL os : forallb (wf_op S QL CL) os = true -> has_reset os = false.
Proof.
  induction os as [|o os IH]; intros H; [reflexivity|]. cbn [forallb] in H. apply andb_prop in H. destruct H as [Ho H].
  cbn [has_reset existsb]. fold (has_reset os). rewrite (IH H). destruct o; try reflexivity. discriminate.
Qed.
Lemma layout_pos' regs : forallb (fun r : string * nat => 0 <? snd r) regs = true ->
  forall off r o n, sassoc r (layout off regs) = Some (o, n) -> 0 < n.
Proof.
  induction regs as [|[r0 n0] regs IH]; intros H off r o n Hs; [discriminate|].
  cbn [forallb snd] in H. apply andb_prop in H. destruct H as [H0 H]. cbn [layout sassoc] in Hs.
  destruct (String.eqb r r0); [injection Hs as _ <-; apply Nat.ltb_lt; exact H0|eapply IH; eauto].
Qed.

Theorem import_total_thm (A : VAlg) : (forall a b : A, vdiv A a b <> None) -> forall p, wf lib_sigs p = true -> import_prog A p <> None.
Proof.
  intros Hdiv p Hw. unfold wf in Hw. apply andb_prop in Hw. destruct Hw as [Hl Hn]. unfold wf_listed in Hl. apply andb_prop in Hl. destruct Hl as [Hg Ho].
  unfold import_prog. rewrite (no_reset_of_wf _ _ _ _ Ho).
  destruct (init_gates_total (p_gates p) lib_sigs sig0 [] lib_sig0 gok_nil Hg (names_ok_of_wf p Hn)) as [Sg [Gi [Ei [Hgok Hag]]]].
  rewrite Ei.
  assert (Hpos : forallb (fun r => 0 <? snd r) (p_qregs p) = true).
  { unfold wf_names in Hn. repeat (apply andb_prop in Hn; destruct Hn as [Hn ?]). assumption. }
  destruct (final_ops A Sg Gi (layout 0 (p_qregs p)) (layout 0 (p_cregs p)) (p_ops p)) eqn:Ef; [discriminate|]. exfalso.
  eapply (final_ops_total A Hdiv); [exact Hag|exact Hgok| |exact Ho|exact Ef].
  intros r off n. apply (layout_pos' _ Hpos).
Qed.
