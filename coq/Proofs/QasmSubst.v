(* C04 layers B-D, behaviour of the UNCHANGED code that the proposed fixes remove (refutation witnesses):
   textual substitution of qubit names inside gate bodies, and stale qubit indices. *)
From Coq Require Import Lia.
From QV Require Import Model.QasmImport.
Local Open Scope string_scope.
Local Open Scope nat_scope.
Local Open Scope list_scope.

(* gate g q, q0 { x q0; }  applied to qubits 0 and 1: str.replace rewrites the q inside q0, int("00") = 0,
   so the body acts on the FIRST argument instead of the second *)
Theorem subst_unfixed_refuted : exists regs_map hq a b,
  subst_regs_word regs_map hq = Some a /\ subst_regs_unfixed regs_map hq = Some b /\ a <> b.
Proof.
  exists [("q", 0); ("q0", 1)], ["q0"], [1], [0]. repeat split; try (vm_compute; reflexivity). discriminate.
Qed.
(* the witness is not capture free, and a capture-free variant of it is handled correctly *)
Example witness_captures : capture_free ["q"; "q0"] ["q0"] = false. Proof. vm_compute. reflexivity. Qed.
Example capture_free_instance :
  capture_free ["a"; "b"] ["b"; "a"] = true /\
  subst_regs_unfixed [("a", 3); ("b", 12)] ["b"; "a"] = subst_regs_word [("a", 3); ("b", 12)] ["b"; "a"].
Proof. split; vm_compute; reflexivity. Qed.

(* cx q[0], q[5] on qreg q[2]: the unchanged _regs_processor reuses the previous qubit instead of raising *)
Theorem stale_index_refuted : exists L qs out,
  omap (resolve L) qs = None /\ regs_stale L None qs = Some out.
Proof. exists [("q", (0, 2))], [AIdx "q" 0; AIdx "q" 5], [0; 0]. split; vm_compute; reflexivity. Qed.
(* the fixed code rejects it *)
Example stale_index_fixed : regs_gate true [("q", (0, 2))] [AIdx "q" 0; AIdx "q" 5] = None.
Proof. vm_compute. reflexivity. Qed.
