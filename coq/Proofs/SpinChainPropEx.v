(* C06, composition layer: the hypotheses of the sequential composition theorem are satisfiable.
   (1) the four group laws of the slice propagator have a non-trivial commuting model (translations of Qc);
   (2) the interface hypotheses (C14's slices_ok on a grid that contains the window boundaries, the table read as the
       sequential waveform) hold for a concrete two-instruction table;
   (3) ALL hypotheses together, including P_cal for a circuit with rotations and exchange gates, are jointly satisfiable
       (in the degenerate one-element phase ring, where every state is equal: a consistency witness, not a physical one);
   (4) over an arbitrary phase ring the identity propagator satisfies them for circuits that drive no pulse. *)
From Coq Require Import ZArith QArith Qcanon String List Bool Lia Lqa FunctionalExtensionality Ring.
From QV Require Import Found.Base Found.Lemmas Found.KS Found.KSProofs Found.Sym Found.SymProofs Found.Circ
  Model.SpinChainTypes Gen.SpinChain Model.Concat Model.SpinChain Model.Fill Spec.FillSpec
  Proofs.SpinChainCal Proofs.SpinChainRule Proofs.SpinChainSem Proofs.SpinChainSlices Proofs.SpinChainProp.
Import ListNotations.
Local Open Scope string_scope.

(* ---- (1) a commuting toy propagator: the state is a canonical rational, P h t translates it by t * sum(h) ---- *)
Definition qsum (h : list Q) : Q := fold_right Qplus 0%Q h.
Definition Ptoy (h : list Q) (t : Q) (s : Qc) : Qc := (s + Q2Qc (t * qsum h))%Qc.

Lemma qsum_zero h : Forall (fun c => (c == 0)%Q) h -> (qsum h == 0)%Q.
Proof. induction 1 as [|c h Hc _ IH]; cbn [qsum fold_right]; [reflexivity|]. fold (qsum h). rewrite Hc, IH. reflexivity. Qed.

Example toy_laws :
  (forall h a b s, (a == b)%Q -> Ptoy h a s = Ptoy h b s) /\
  (forall h s, Ptoy h 0%Q s = s) /\
  (forall h a b s, (0 <= a)%Q -> (0 <= b)%Q -> Ptoy h (a + b)%Q s = Ptoy h b (Ptoy h a s)) /\
  (forall h t s, Forall (fun c => (c == 0)%Q) h -> Ptoy h t s = s) /\
  Ptoy [1#2; 1#4]%Q 2%Q (Q2Qc 1) <> Q2Qc 1.
Proof.
  unfold Ptoy. repeat split.
  - intros h a b s E. f_equal. apply Q2Qc_eq_iff. rewrite E. reflexivity.
  - intros h s. replace (Q2Qc (0 * qsum h)) with (Q2Qc 0) by (apply Q2Qc_eq_iff; ring).
    change (Q2Qc 0) with 0%Qc. ring.
  - intros h a b s _ _. rewrite <- Qcplus_assoc. f_equal.
    change (Q2Qc (a * qsum h) + Q2Qc (b * qsum h))%Qc with (Q2Qc (Q2Qc (a * qsum h) + Q2Qc (b * qsum h))).
    apply Q2Qc_eq_iff. cbn [this Q2Qc]. rewrite !Qred_correct. ring.
  - intros h t s Hz. replace (Q2Qc (t * qsum h)) with (Q2Qc 0).
    + change (Q2Qc 0) with 0%Qc. ring.
    + apply Q2Qc_eq_iff. rewrite (qsum_zero h Hz). ring.
  - intro E. apply (f_equal this) in E. vm_compute in E. discriminate.
Qed.

(* ---- (2) the interface hypotheses on a concrete table ---- *)
Definition ex_labels : list label := [("sx", 0%Z); ("g", 0%Z)].
Definition ex_il : list (Q * list (label * Q)) := [((1#2)%Q, [(("sx", 0%Z), (1#4)%Q)]); ((5#4)%Q, [(("g", 0%Z), (-1#10)%Q)])].
Definition f_sx (t : Q) : Q := if Qlt_le_dec t (1#2) then (1#4)%Q else 0%Q.
Definition f_g (t : Q) : Q := if Qlt_le_dec t (1#2) then 0%Q else if Qlt_le_dec t (7#4) then (-1#10)%Q else 0%Q.
Definition ex_fs : list (Q -> Q) := [f_sx; f_g].
Definition ex_full : list Q := [0; 1#2; 7#4]%Q.
Definition ex_sl : list (Q * list Q) := [((1#2) - 0, [1#4; 0]); ((7#4) - (1#2), [0; -1#10])]%Q.

Example interface_inhabited :
  grid_windows 0%Q (windows_of ex_labels ex_il) ex_full /\ slices_ok ex_fs ex_full ex_sl /\
  wave_is ex_fs 0%Q (windows_of ex_labels ex_il).
Proof.
  split; [|split].
  - change ex_full with (([0%Q] ++ (1#2)%Q :: [(7#4)%Q])%list).
    apply (gw_cons 0%Q (1#2)%Q _ _ [0%Q] (1#2)%Q [(7#4)%Q]); [cbn; split; [reflexivity|exact I]|reflexivity|reflexivity|].
    change ((1#2)%Q :: [(7#4)%Q]) with (([(1#2)%Q] ++ (7#4)%Q :: [])%list).
    apply (gw_cons _ (5#4)%Q _ _ [(1#2)%Q] (7#4)%Q []); [cbn; split; [reflexivity|exact I]|reflexivity|reflexivity|].
    apply gw_nil; [reflexivity|exact I].
  - unfold ex_full, ex_sl, ex_fs. econstructor; [reflexivity| |econstructor; [reflexivity| |constructor]].
    + intros t A B. cbn [map]. unfold f_sx, f_g. destruct (Qlt_le_dec t (1#2)); [reflexivity|lra].
    + intros t A B. cbn [map]. unfold f_sx, f_g. destruct (Qlt_le_dec t (1#2)); [lra|].
      destruct (Qlt_le_dec t (7#4)); [reflexivity|lra].
  - cbn [wave_is windows_of map fst snd ex_il]. split; [|split].
    + intros t A B. unfold vec, ex_fs. cbn [map]. unfold f_sx, f_g. destruct (Qlt_le_dec t (1#2)); [reflexivity|lra].
    + intros t A B. unfold vec, ex_fs. cbn [map]. unfold f_sx, f_g. destruct (Qlt_le_dec t (1#2)); [lra|].
      destruct (Qlt_le_dec t (7#4)); [reflexivity|lra].
    + intros t A. unfold vec, ex_fs. cbn [map]. unfold f_sx, f_g. destruct (Qlt_le_dec t (1#2)); [lra|].
      destruct (Qlt_le_dec t (7#4)); [lra|]. repeat constructor; reflexivity.
Qed.

(* ---- (3) joint consistency of ALL hypotheses, P_cal included, for a circuit with pulses: the one-element ring ---- *)
Definition unit_ops : Ops := mkOps unit tt tt (fun _ _ => tt) (fun _ _ => tt) (fun _ _ => tt) (fun _ => tt).
Lemma unit_ring : ring_theory (k0 unit_ops) (k1 unit_ops) (kadd unit_ops) (kmul unit_ops) (ksub unit_ops) (kopp unit_ops) eq.
Proof. constructor; intros; repeat match goal with x : K unit_ops |- _ => destruct x | x : unit |- _ => destruct x end; reflexivity. Qed.
Lemma unit_eq (a b : unit_ops) : a = b. Proof. destruct a, b. reflexivity. Qed.
Definition PR_unit : PhaseRing :=
  mkPR unit_ops unit_ring tt (unit_eq _ _) tt (unit_eq _ _) (fun _ => tt) (fun _ => tt) (fun _ => unit_eq _ _).
Lemma unit_state_eq (a b : state PR_unit) : a = b.
Proof. apply functional_extensionality. intro x. apply unit_eq. Qed.
Definition unit_atoms : atoms PR_unit := mkAtoms PR_unit (fun _ => tt) (fun _ => tt) (fun _ => unit_eq _ _).

Example all_hypotheses_consistent : forall (c : cfg) (gs : list ngate) (labels : list label),
  let P := fun (_ : list Q) (_ : Q) (s : state PR_unit) => s in
  (forall h a b s, (a == b)%Q -> P h a s = P h b s) /\ (forall h s, P h 0%Q s = s) /\
  (forall h a b s, (0 <= a)%Q -> (0 <= b)%Q -> P h (a + b)%Q s = P h b (P h a s)) /\
  (forall h t s, Forall (fun c => (c == 0)%Q) h -> P h t s = s) /\
  (forall i g d lb co sp s, nth_error gs i = Some g -> compile_gate c g = Ok (CInstr d [(lb, co)]) ->
     pulse_sgate c (g_name g) lb = Some sp -> P (ivec labels [(lb, co)]) d s = sem [gden PR_unit unit_atoms sp] s).
Proof. intros c gs labels P. repeat split; intros; try reflexivity. apply unit_state_eq. Qed.

(* ---- (4) any phase ring: the identity propagator for a circuit that drives no pulse (GLOBALPHASE, IDLE) ---- *)
Example identity_propagator_no_pulse (R : PhaseRing) (env : nat -> atoms R) (c : cfg) (labels : list label) :
  let gs := [mkG "GLOBALPHASE" [] (Some (1#4)%Q); mkG "IDLE" [0%nat] (Some (1#2)%Q)] in
  let P := fun (_ : list Q) (_ : Q) (s : state R) => s in
  forall i g d lb co sp s, nth_error gs i = Some g -> compile_gate c g = Ok (CInstr d [(lb, co)]) ->
    pulse_sgate c (g_name g) lb = Some sp -> P (ivec labels [(lb, co)]) d s = sem [gden R (env i) sp] s.
Proof.
  intros gs P i g d lb co sp s Hn Hc. exfalso.
  destruct i as [|[|[|i]]]; cbn in Hn; try discriminate; injection Hn as <-; vm_compute in Hc; discriminate.
Qed.
