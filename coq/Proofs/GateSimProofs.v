(* C01 - the simulator paths agree with the specification [fsem] (= [sem] on a finite register, Lemmas.sem_window):
   state-vector steps through einsum (ket and operator/ancillary mode), expanded propagators and their product,
   compact propagators, the density-matrix conjugation, user-gate lookup. *)
From Coq Require Import List Arith Bool Lia FunctionalExtensionality Ring.
From Coq Require String.
Import ListNotations.
From QV Require Import Found.Base Found.Lemmas Found.Table Model.Einsum Model.GateSim Proofs.EinsumProofs.

Section Runs.
Variable O : Ops.
Hypothesis Kring : ring_theory (k0 O) (k1 O) (kadd O) (kmul O) (ksub O) (kopp O) eq.
Add Ring KrG : Kring.
Notation kz := (k0 O). Notation ko := (k1 O).
Infix "+" := (kadd O). Infix "*" := (kmul O).
Notation fvec := (fvec O). Notation mat := (mat O). Notation sgate := (sgate O).
Notation ksum_scale := (Lemmas.ksum_scale O Kring). Notation ksum_scale_r := (Lemmas.ksum_scale_r O Kring).
Notation ksum_swap := (Lemmas.ksum_swap O Kring). Notation ksum_map_ext := (Lemmas.ksum_map_ext O).

Definition wf_gate (nq : nat) (g : sgate) : Prop :=
  match g with GPhase _ => True | GMat _ ts => NoDup ts /\ Forall (fun t => t < nq) ts end.
(* what a gate does to a vector on nq qubits *)
Definition gact (nq : nat) (g : sgate) (v : fvec) : fvec :=
  match g with GPhase c => fun r => c * v r | GMat M ts => fapp nq M ts v end.
Definition cg (g : sgate) : gate O :=
  match g with GPhase s => ((fun _ _ => s) : mat, @nil nat) | GMat M ts => (M, ts) end.

Lemma circ_of_cons g c : circ_of (g :: c) = cg g :: circ_of c.
Proof. reflexivity. Qed.

Lemma map_lget_seq (r : list bool) : map (lget r) (seq 0 (length r)) = r.
Proof.
  apply (nth_ext _ _ false false).
  - rewrite map_length, seq_length. reflexivity.
  - intros j Hj. rewrite map_length, seq_length in Hj. unfold lget.
    apply (nth_map_seq0 (fun i => nth i r false) (length r) j false Hj).
Qed.

Lemma gact_circ nq g v r : length r = nq -> fapp nq (fst (cg g)) (snd (cg g)) v r = gact nq g v r.
Proof.
  intros Hr. destruct g as [s|M ts]; [|reflexivity]. unfold fapp, lupd. simpl.
  rewrite <- Hr, map_lget_seq. ring.
Qed.

Lemma fapp_ext N (M : mat) ts (v v' : fvec) : (forall r, length r = N -> v r = v' r) ->
  forall r, fapp N M ts v r = fapp N M ts v' r.
Proof.
  intros E r. unfold fapp. apply ksum_map_ext. intros y _. f_equal. apply E.
  unfold lupd. rewrite map_length, seq_length. reflexivity.
Qed.

Lemma fsem_ext N (c : circ O) : forall v v' : fvec, (forall r, length r = N -> v r = v' r) ->
  forall r, length r = N -> fsem N c v r = fsem N c v' r.
Proof.
  induction c as [|g c IH]; intros v v' E r Hr; [apply E; exact Hr|].
  change (fsem N (g :: c) v r) with (fsem N c (fapp N (fst g) (snd g) v) r).
  change (fsem N (g :: c) v' r) with (fsem N c (fapp N (fst g) (snd g) v') r).
  apply IH; [|exact Hr]. intros r' _. apply fapp_ext. exact E.
Qed.

Lemma fsem_cons N g c (v : fvec) r : length r = N ->
  fsem N (circ_of (g :: c)) v r = fsem N (circ_of c) (gact N g v) r.
Proof.
  intros Hr. rewrite circ_of_cons.
  change (fsem N (cg g :: circ_of c) v r) with (fsem N (circ_of c) (fapp N (fst (cg g)) (snd (cg g)) v) r).
  apply fsem_ext; [|exact Hr]. intros r' Hr'. apply gact_circ. exact Hr'.
Qed.

(* ---------------- ket mode ---------------- *)
Lemma vlookup_lookup i ts (y : list bool) : vlookup i ts y = lookup i ts y.
Proof. reflexivity. Qed.

Theorem ket_step_correct nq g (v : fvec) : wf_gate nq g ->
  exists w, ket_step O nq g v = Some w /\ forall r, length r = nq -> w r = gact nq g v r.
Proof.
  intros Hwf. destruct g as [s|M ts]; simpl.
  - eexists. split; [reflexivity|]. intros; reflexivity.
  - destruct Hwf as [Hnd Hlt]. unfold einsum_labels. rewrite (lblOut_spec nq ts Hnd Hlt).
    eexists. split; [reflexivity|]. intros r Hr.
    rewrite (einsum_core O bool bdom false (fun b => b) (fun b => b) (fun b => eq_refl) nq ts M v r Hnd Hlt Hr)
      by (intros; reflexivity).
    unfold fapp. apply ksum_map_ext. intros y _. f_equal. f_equal.
    unfold vupd, lupd. rewrite map_id. apply map_ext. intro i. rewrite vlookup_lookup. reflexivity.
Qed.

Theorem ket_run_correct nq c : Forall (wf_gate nq) c -> forall v : fvec,
  exists w, ket_run O nq c v = Some w /\ forall r, length r = nq -> w r = fsem nq (circ_of c) v r.
Proof.
  induction 1 as [|g c Hg Hc IH]; intro v; cbn [ket_run].
  - exists v. split; [reflexivity|]. intros; reflexivity.
  - destruct (ket_step_correct nq g v Hg) as [w1 [E1 H1]]. rewrite E1.
    destruct (IH w1) as [w [E2 H2]]. exists w. split; [exact E2|]. intros r Hr.
    rewrite H2 by exact Hr. rewrite fsem_cons by exact Hr. apply fsem_ext; [|exact Hr]. exact H1.
Qed.

(* ---------------- operator mode: one ancillary axis carrying the column index ---------------- *)
Section Oper.
Variable A : Type.
Variable cols : list A.
Notation otensor := (otensor O A).
Definition col (X : otensor) (c : A) : fvec := fun r => X (map inl r ++ [inr c]).

Lemma vlookup_map {V W} (f : V -> W) i ts (y : list V) : vlookup i ts (map f y) = option_map f (vlookup i ts y).
Proof. revert y. induction ts as [|t ts IH]; intros [|b y]; simpl; try reflexivity. destruct (Nat.eqb i t); [reflexivity| apply IH]. Qed.

Lemma vlookup_notin' {V} i ts (vs : list V) : ~ In i ts -> vlookup i ts vs = None.
Proof.
  revert vs. induction ts as [|t ts IH]; intros [|v vs] H; simpl; try reflexivity.
  destruct (Nat.eqb_spec i t) as [E|E]; [subst; exfalso; apply H; left; reflexivity|].
  apply IH. intro Hin. apply H. right. exact Hin.
Qed.

Theorem oper_step_correct nq g (X : otensor) : wf_gate nq g ->
  exists W, oper_step O A cols nq g X = Some W /\
    forall c r, length r = nq -> col W c r = gact nq g (col X c) r.
Proof.
  intros Hwf. destruct g as [s|M ts]; simpl.
  - eexists. split; [reflexivity|]. intros; reflexivity.
  - destruct Hwf as [Hnd Hlt].
    assert (Hlt' : Forall (fun t => t < S nq) ts) by (eapply Forall_impl; [|exact Hlt]; simpl; intros; lia).
    unfold einsum_labels. rewrite (lblOut_spec (S nq) ts Hnd Hlt').
    eexists. split; [reflexivity|]. intros c r Hr. unfold col at 1.
    assert (Ho : length (map (@inl bool A) r ++ [inr c]) = S nq) by (rewrite app_length, map_length; simpl; lia).
    pose proof Hlt as Hlt2. rewrite Forall_forall in Hlt2.
    rewrite (einsum_core O (bool + A)%type (odom A cols nq) (inl false) inl (unb A) (fun b => eq_refl)
               (S nq) ts M X _ Hnd Hlt' Ho).
    2:{ intros t Ht. unfold odom. specialize (Hlt2 t Ht). destruct (Nat.eqb_spec t nq); [lia| reflexivity]. }
    unfold fapp, col. apply ksum_map_ext. intros y _. f_equal.
    + f_equal. apply map_ext_in. intros t Ht. specialize (Hlt2 t Ht).
      rewrite app_nth1 by (rewrite map_length; lia).
      change (@inl bool A false) with ((@inl bool A) false). rewrite map_nth. reflexivity.
    + f_equal. unfold vupd, lupd. rewrite seq_S, map_app, map_map. f_equal.
      * apply map_ext_in. intros i Hi. apply in_seq in Hi. rewrite vlookup_map, vlookup_lookup.
        destruct (lookup i ts y); simpl; [reflexivity|].
        rewrite app_nth1 by (rewrite map_length; lia).
        change (@inl bool A false) with ((@inl bool A) false). rewrite map_nth. reflexivity.
      * assert (Hnq : ~ In nq ts) by (intro Hin; specialize (Hlt2 _ Hin); lia).
        cbn [map]. rewrite (vlookup_notin' nq ts (map inl y) Hnq).
        rewrite app_nth2 by (rewrite map_length; lia). rewrite map_length, Hr, Nat.sub_diag. reflexivity.
Qed.

Theorem oper_run_correct nq c : Forall (wf_gate nq) c -> forall X : otensor,
  exists W, oper_run O A cols nq c X = Some W /\
    forall a r, length r = nq -> col W a r = fsem nq (circ_of c) (col X a) r.
Proof.
  induction 1 as [|g c Hg Hc IH]; intro X; cbn [oper_run].
  - exists X. split; [reflexivity|]. intros; reflexivity.
  - destruct (oper_step_correct nq g X Hg) as [W1 [E1 H1]]. rewrite E1.
    destruct (IH W1) as [W [E2 H2]]. exists W. split; [exact E2|]. intros a r Hr.
    rewrite H2 by exact Hr. rewrite fsem_cons by exact Hr. apply fsem_ext; [|exact Hr]. apply H1.
Qed.
End Oper.

(* step-by-step = run *)
Lemma ket_run_app nq c1 c2 (v : fvec) :
  ket_run O nq (c1 ++ c2) v = match ket_run O nq c1 v with Some w => ket_run O nq c2 w | None => None end.
Proof.
  revert v. induction c1 as [|g c1 IH]; intro v; simpl; [reflexivity|].
  destruct (ket_step O nq g v); [apply IH| reflexivity].
Qed.

(* ---------------- dense matrices ---------------- *)
Notation dmat := (dmat O).

Lemma dmv_emb N (M : mat) ts (v : fvec) r : dmv N (emb N M ts) v r = fapp N M ts v r.
Proof. unfold dmv, emb. symmetry. apply (fapp_columns O Kring). Qed.

Lemma dmv_dscal N s (v : fvec) r : length r = N -> dmv N (dscal s) v r = s * v r.
Proof.
  intros Hr. unfold dmv, dscal.
  rewrite (ksum_map_ext _ (fun c => (if beqb r c then ko else kz) * (s * v c))) by (intros; ring).
  apply (delta_collapse O Kring N r (fun c => s * v c) Hr).
Qed.

Lemma dmv_did N (v : fvec) r : length r = N -> dmv N did v r = v r.
Proof. intros Hr. unfold dmv, did. apply (delta_collapse O Kring N r v Hr). Qed.

Lemma dmv_dmm N (A B : dmat) (v : fvec) r : dmv N (dmm N A B) v r = dmv N A (dmv N B v) r.
Proof.
  unfold dmv, dmm.
  rewrite (ksum_map_ext _ (fun c => ksum (map (fun m => A r m * B m c * v c) (all_bits N)))).
  2:{ intros c _. rewrite ksum_scale_r, map_map. reflexivity. }
  rewrite ksum_swap. apply ksum_map_ext. intros m _. rewrite ksum_scale, map_map.
  apply ksum_map_ext. intros; ring.
Qed.

Lemma prop_expand_act N g (v : fvec) r : length r = N -> dmv N (prop_expand N g) v r = gact N g v r.
Proof. intros Hr. destruct g as [s|M ts]; simpl; [apply dmv_dscal; exact Hr| apply dmv_emb]. Qed.

Lemma dmv_ext N (A : dmat) (v v' : fvec) r : (forall c, length c = N -> v c = v' c) -> dmv N A v r = dmv N A v' r.
Proof. intros E. unfold dmv. apply ksum_map_ext. intros c Hc. f_equal. apply E. apply all_bits_length. exact Hc. Qed.

Lemma gsp_expanded_acc N c : forall (acc : dmat) (v : fvec) r, length r = N ->
  dmv N (fold_left (fun a U => dmm N U a) (map (prop_expand N) c) acc) v r = fsem N (circ_of c) (dmv N acc v) r.
Proof.
  induction c as [|g c IH]; intros acc v r Hr; [reflexivity|].
  simpl map. simpl fold_left. rewrite IH by exact Hr. rewrite fsem_cons by exact Hr.
  apply fsem_ext; [|exact Hr]. intros r' Hr'. rewrite dmv_dmm. apply prop_expand_act. exact Hr'.
Qed.

(* the product of the expanded propagators (gate_sequence_product(qc.propagators())) acts as the circuit *)
Theorem propagators_expand_correct N c (v : fvec) r : length r = N ->
  dmv N (gsp_expanded N (map (prop_expand N) c)) v r = fsem N (circ_of c) v r.
Proof.
  intros Hr. unfold gsp_expanded. rewrite gsp_expanded_acc by exact Hr.
  apply fsem_ext; [|exact Hr]. intros r' Hr'. apply dmv_did. exact Hr'.
Qed.

(* a compact propagator, applied on its index list, acts as the gate (GLOBALPHASE: the full-size scalar matrix on all qubits) *)
Lemma lookup_seq_self (r : list bool) i : i < length r -> lookup i (seq 0 (length r)) r = Some (nth i r false).
Proof.
  intros Hi. pose proof (lookup_nth_seq_gen (fun j => nth j r false) (seq 0 (length r)) 0 i (seq_NoDup _ _)) as H.
  rewrite seq_length in H. specialize (H Hi). rewrite seq_nth in H by exact Hi. simpl in H.
  rewrite <- H. f_equal. symmetry. apply (map_lget_seq r).
Qed.

Lemma lupd_self (r : list bool) : lupd (length r) r (seq 0 (length r)) r = r.
Proof.
  unfold lupd. transitivity (map (lget r) (seq 0 (length r))); [|apply map_lget_seq].
  apply map_ext_in. intros i Hi. apply in_seq in Hi. rewrite lookup_seq_self by lia. reflexivity.
Qed.

Theorem propagators_compact_correct N g (v : fvec) r : length r = N ->
  fapp N (fst (prop_compact N g)) (snd (prop_compact N g)) v r = gact N g v r.
Proof.
  intros Hr. destruct g as [s|M ts]; [|reflexivity]. simpl. unfold fapp. rewrite seq_length.
  rewrite <- Hr, map_lget_seq. unfold dscal.
  rewrite (ksum_map_ext _ (fun y => (if beqb r y then ko else kz) * (s * v (lupd (length r) r (seq 0 (length r)) y))))
    by (intros; ring).
  rewrite (delta_collapse O Kring (length r) r _ eq_refl). f_equal. f_equal. apply lupd_self.
Qed.

(* ---------------- density matrices ---------------- *)
Section Conj.
Variable cj : O -> O.
Hypothesis cj_add : forall a b, cj (a + b) = cj a + cj b.
Hypothesis cj_mul : forall a b, cj (a * b) = cj a * cj b.
Hypothesis cj_0 : cj kz = kz.

Lemma cj_ksum l : cj (ksum l) = ksum (map cj l).
Proof. induction l as [|a l IH]; simpl; [exact cj_0| rewrite cj_add, IH; reflexivity]. Qed.

Definition pure_on (N : nat) (rho : dmat) (v : fvec) : Prop :=
  forall r s, length r = N -> length s = N -> rho r s = v r * cj (v s).

Lemma dm_step_pure N g rho v : pure_on N rho v -> pure_on N (dm_step cj N g rho) (gact N g v).
Proof.
  intros Hp r s Hr Hs. unfold dm_step. set (U := prop_expand N g).
  rewrite <- (prop_expand_act N g v r Hr), <- (prop_expand_act N g v s Hs). fold U.
  unfold dmm, dadj.
  transitivity (ksum (map (fun b => dmv N U v r * (cj (v b) * cj (U s b))) (all_bits N))).
  - apply ksum_map_ext. intros b Hb. apply all_bits_length in Hb.
    transitivity (ksum (map (fun a => U r a * v a * cj (v b)) (all_bits N)) * cj (U s b)).
    + f_equal. apply ksum_map_ext. intros a Ha. apply all_bits_length in Ha. rewrite (Hp a b Ha Hb). ring.
    + unfold dmv. rewrite <- (map_map (fun a => U r a * v a) (fun x => x * cj (v b))), <- ksum_scale_r. ring.
  - rewrite <- (map_map (fun b => cj (v b) * cj (U s b)) (fun x => dmv N U v r * x)), <- ksum_scale. f_equal.
    unfold dmv. rewrite cj_ksum, map_map. apply ksum_map_ext. intros b _. rewrite cj_mul. ring.
Qed.

(* rho = |psi><psi|  ->  the density-matrix run gives |c psi><c psi| *)
Theorem ket_dm_agree N c : forall rho v, pure_on N rho v ->
  pure_on N (dm_run cj N c rho) (fsem N (circ_of c) v).
Proof.
  induction c as [|g c IH]; intros rho v Hp; [exact Hp|].
  change (dm_run cj N (g :: c) rho) with (dm_run cj N c (dm_step cj N g rho)).
  intros r s Hr Hs. rewrite (IH _ _ (dm_step_pure N g rho v Hp) r s Hr Hs).
  rewrite !fsem_cons by assumption. reflexivity.
Qed.

Lemma ket2dm_pure N v : pure_on N (ket2dm cj v) v.
Proof. intros r s _ _. reflexivity. Qed.
End Conj.
End Runs.

(* ---------------- user gates ---------------- *)
Section Lookup.
Variable O : Ops.
Variable Arg : Type.
Notation pgate := (pgate Arg).
Variable user : list (String.string * uentry O Arg).
Variable lib : pgate -> option (mat O).

Theorem user_gate_controls_refused g e cs :
  assoc_s (pg_name Arg g) user = Some e -> pg_controls Arg g = Some cs -> get_gate_unitary O Arg user lib g = None.
Proof. intros H1 H2. unfold get_gate_unitary. rewrite H1, H2. reflexivity. Qed.

Theorem user_gate_lookup g e : assoc_s (pg_name Arg g) user = Some e -> pg_controls Arg g = None ->
  get_gate_unitary O Arg user lib g =
  match e with UFun0 M => Some M | UFun1 f => Some (f (pg_arg Arg g)) | UOper M => Some M | UFunMany | UOther => None end.
Proof. intros H1 H2. unfold get_gate_unitary. rewrite H1, H2. destruct e; reflexivity. Qed.

Theorem library_gate_lookup g : assoc_s (pg_name Arg g) user = None -> get_gate_unitary O Arg user lib g = lib g.
Proof. intros H. unfold get_gate_unitary. rewrite H. reflexivity. Qed.
End Lookup.
