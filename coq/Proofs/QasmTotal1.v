(* C04 totality, part 1: the importer's and the standard's signature tables agree; closed / parameter-closed plain
   expressions evaluate; the expansion of a user gate whose definitions passed the first pass never fails. *)
From Coq Require Import Lia.
From QV Require Import Model.QasmImport Gen.Qasm Spec.QasmSem Proofs.QasmShortcut Proofs.QasmCustom.
Local Open Scope string_scope.
Local Open Scope nat_scope.
Local Open Scope list_scope.

Lemma sassoc_in {X} g (l : list (string * X)) v : sassoc g l = Some v -> In (g, v) l.
Proof.
  induction l as [|[k w] l IH]; intros H; [discriminate|]. cbn [sassoc] in H. destruct (String.eqb g k) eqn:E.
  - apply String.eqb_eq in E. injection H as <-. subst. left. reflexivity.
  - right. apply IH. exact H.
Qed.
Lemma smem_true_in x l : In x l -> smem x l = true.
Proof. intros H. unfold smem. apply existsb_exists. exists x. split; [exact H|apply String.eqb_refl]. Qed.
Lemma smem_in' g l : smem g l = true -> In g l.
Proof. unfold smem. intros H. apply existsb_exists in H. destruct H as [x [Hx E]]. apply String.eqb_eq in E. subst. exact Hx. Qed.

(* the signatures the importer checks against are the standard's *)
Lemma lib_sig0 g : sassoc g lib_sigs = sassoc g sig0.
Proof.
  pose proof chk_sigs_true as C. unfold chk_sigs in C. apply andb_prop in C. destruct C as [C1 C2].
  rewrite forallb_forall in C1, C2. destruct (smem g predefined) eqn:M.
  - specialize (C1 g (smem_in' _ _ M)). destruct (sassoc g sig0) as [[a1 a2]|]; [|discriminate].
    destruct (sassoc g lib_sigs) as [[b1 b2]|]; [|discriminate]. cbn [fst snd] in C1. apply andb_prop in C1. destruct C1 as [E1 E2].
    apply Nat.eqb_eq in E1. apply Nat.eqb_eq in E2. subst. reflexivity.
  - rewrite (proj2 (sig0_mem g) M). destruct (sassoc g lib_sigs) as [v|] eqn:E; [|reflexivity].
    apply sassoc_in in E. specialize (C2 _ E). cbn [fst] in C2. congruence.
Qed.

(* the positions a predefined gate picks from its qubit arguments are within its arity *)
Definition chk_pick : bool :=
  forallb (fun g => match sassoc g shortcuts, sassoc g sig0 with
                    | Some sc, Some (_, nq) => forallb (fun i => i <? nq) (sc_targets sc ++ sc_controls sc)
                    | _, _ => true end) predefined.
Lemma chk_pick_true : chk_pick = true. Proof. vm_compute. reflexivity. Qed.
Lemma pickn_total regs ix : forallb (fun i => i <? length regs) ix = true -> pickn regs ix <> None.
Proof.
  unfold pickn. induction ix as [|i ix IH]; intros H; [discriminate|]. cbn [forallb] in H. apply andb_prop in H. destruct H as [Hi H].
  cbn [omap]. apply Nat.ltb_lt in Hi. destruct (nth_error regs i) eqn:E; [|apply nth_error_None in E; lia].
  destruct (omap (fun i0 => nth_error regs i0) ix) eqn:E2; [discriminate|]. exfalso. apply (IH H). reflexivity.
Qed.
Lemma add_predefined_total {A : VAlg} g np nq regs (vals : list A) :
  smem g predefined = true -> sassoc g sig0 = Some (np, nq) -> length regs = nq -> add_predefined g regs vals <> None.
Proof.
  intros Hm Hs Hl. pose proof chk_pick_true as C. unfold chk_pick in C. rewrite forallb_forall in C.
  specialize (C g (smem_in' _ _ Hm)). rewrite Hs in C. unfold add_predefined. destruct (sassoc g shortcuts) as [sc|]; [|discriminate].
  rewrite forallb_app in C. apply andb_prop in C. destruct C as [Ct Cc]. rewrite <- Hl in Ct, Cc.
  destruct (pickn regs (sc_targets sc)) eqn:E1; [|exfalso; exact (pickn_total _ _ Ct E1)].
  destruct (pickn regs (sc_controls sc)) eqn:E2; [|exfalso; exact (pickn_total _ _ Cc E2)]. discriminate.
Qed.

Section T.
Variable A : VAlg.
Hypothesis div_total : forall a b : A, vdiv A a b <> None.     (* no division by zero occurs *)

Lemma subset_app l1 l2 m : subset (l1 ++ l2) m = subset l1 m && subset l2 m.
Proof. unfold subset. apply forallb_app. Qed.
Lemma eval_total rho e : plain e = true -> subset (ids e) (map fst rho) = true -> Qasm.eval A rho e <> None.
Proof.
  induction e; cbn [plain ids Qasm.eval]; intros Hp Hs; try discriminate.
  - cbn [subset forallb] in Hs. apply andb_prop in Hs. destruct Hs as [Hx _].
    destruct (sassoc x rho) eqn:E; [discriminate|]. exfalso. clear - Hx E.
    induction rho as [|[k v] rho IH]; [discriminate|]. cbn [map fst smem existsb sassoc] in *. destruct (String.eqb x k); [discriminate|]. auto.
  - destruct (Qasm.eval A rho e) eqn:E; [discriminate|]. exfalso. apply (IHe Hp Hs). reflexivity.
  - apply andb_prop in Hp. destruct Hp as [P1 P2]. rewrite subset_app in Hs. apply andb_prop in Hs. destruct Hs as [S1 S2].
    destruct (Qasm.eval A rho e1) eqn:E1; [|exfalso; exact (IHe1 P1 S1 eq_refl)]. destruct (Qasm.eval A rho e2) eqn:E2; [discriminate|exfalso; exact (IHe2 P2 S2 eq_refl)].
  - apply andb_prop in Hp. destruct Hp as [P1 P2]. rewrite subset_app in Hs. apply andb_prop in Hs. destruct Hs as [S1 S2].
    destruct (Qasm.eval A rho e1) eqn:E1; [|exfalso; exact (IHe1 P1 S1 eq_refl)]. destruct (Qasm.eval A rho e2) eqn:E2; [discriminate|exfalso; exact (IHe2 P2 S2 eq_refl)].
  - apply andb_prop in Hp. destruct Hp as [P1 P2]. rewrite subset_app in Hs. apply andb_prop in Hs. destruct Hs as [S1 S2].
    destruct (Qasm.eval A rho e1) eqn:E1; [|exfalso; exact (IHe1 P1 S1 eq_refl)]. destruct (Qasm.eval A rho e2) eqn:E2; [discriminate|exfalso; exact (IHe2 P2 S2 eq_refl)].
  - apply andb_prop in Hp. destruct Hp as [P1 P2]. rewrite subset_app in Hs. apply andb_prop in Hs. destruct Hs as [S1 S2].
    destruct (Qasm.eval A rho e1) eqn:E1; [|exfalso; exact (IHe1 P1 S1 eq_refl)]. destruct (Qasm.eval A rho e2) eqn:E2; [apply div_total|exfalso; exact (IHe2 P2 S2 eq_refl)].
Qed.
Lemma omap_total {X Y} (f : X -> option Y) l : (forall x, In x l -> f x <> None) -> exists r, omap f l = Some r /\ length r = length l.
Proof.
  induction l as [|x l IH]; intros H; [exists []; split; reflexivity|].
  destruct (f x) as [y|] eqn:E; [|exfalso; exact (H x (or_introl eq_refl) E)].
  destruct IH as [r [Hr Hl]]; [intros z Hz; apply H; right; exact Hz|].
  exists (y :: r). cbn [omap]. rewrite E, Hr. split; [reflexivity|cbn [length]; congruence].
Qed.
Lemma omap_length {X Y} (f : X -> option Y) l r : omap f l = Some r -> length r = length l.
Proof.
  revert r. induction l as [|x l IH]; intros r H; cbn [omap] in H.
  - injection H as <-. reflexivity.
  - destruct (f x); [|discriminate]. destruct (omap f l) as [r'|]; [|discriminate]. injection H as <-. cbn [length]. f_equal. apply IH. reflexivity.
Qed.
Lemma map_fst_combine {X} (ks : list string) (vs : list X) : length vs = length ks -> map fst (combine ks vs) = ks.
Proof.
  revert vs. induction ks as [|k ks IH]; intros vs H; [reflexivity|]. destruct vs as [|v vs]; [discriminate|].
  cbn [combine map fst]. f_equal. apply IH. cbn [length] in H. lia.
Qed.
Lemma lookup_total (ks : list string) (vs : list nat) x : length vs = length ks -> smem x ks = true -> sassoc x (combine ks vs) <> None.
Proof.
  revert vs. induction ks as [|k ks IH]; intros vs H Hm; [discriminate|]. destruct vs as [|v vs]; [discriminate|].
  cbn [combine sassoc smem existsb] in *. destruct (String.eqb x k); [discriminate|]. apply IH; [cbn [length] in H; lia|exact Hm].
Qed.

(* ---- definitions that passed the first pass ---- *)
Definition call_ok (Sg : list (string * (nat * nat))) (params qubits : list string) (c : string * list expr * list string) : Prop :=
  match c with (h, args, hq) =>
    exists np nq, sassoc h Sg = Some (np, nq) /\ length args = np /\ length hq = nq /\ subset hq qubits = true
                  /\ forallb (fun e => plain e && subset (ids e) params) args = true end.
Inductive gok : list (string * (nat * nat)) -> list (string * idef) -> Prop :=
| gok_nil : gok sig0 []
| gok_cons n ps qs body Sg Gi : smem n predefined = false -> Forall (call_ok Sg ps qs) body -> gok Sg Gi ->
    gok ((n, (length ps, length qs)) :: Sg) ((n, mkIdef ps qs body) :: Gi).

Lemma gok_predefined Sg Gi g : gok Sg Gi -> smem g predefined = true -> sassoc g Sg = sassoc g sig0.
Proof.
  induction 1 as [|n ps qs body Sg Gi Hn _ _ IH]; intros Hm; [reflexivity|]. cbn [sassoc].
  destruct (String.eqb g n) eqn:E; [apply String.eqb_eq in E; subst; congruence|]. apply IH. exact Hm.
Qed.

Theorem custom_total Sg Gi : gok Sg Gi -> forall g np nq (vals : list A) regs,
  sassoc g Sg = Some (np, nq) -> length vals = np -> length regs = nq -> custom A Gi g vals regs <> None.
Proof.
  induction 1 as [|n ps qs body Sg Gi Hn Hb Hg IH]; intros g np nq vals regs Hs Hv Hr.
  - cbn [custom]. assert (Hm : smem g predefined = true).
    { destruct (smem g predefined) eqn:M; [reflexivity|]. apply sig0_mem in M. congruence. }
    rewrite Hm. eapply add_predefined_total; eauto.
  - cbn [custom]. destruct (smem g predefined) eqn:Hm.
    + rewrite (gok_predefined _ _ g (gok_cons n ps qs body Sg Gi Hn Hb Hg) Hm) in Hs. eapply add_predefined_total; eauto.
    + cbn [sassoc] in Hs. destruct (String.eqb g n).
      * injection Hs as <- <-. cbn [id_params id_qubits id_body]. rewrite Hv, Hr, !Nat.eqb_refl. cbn [andb].
        induction Hb as [|[[h args] hq] body [np' [nq' [Hh [Ha [Hq [Hsub Hex]]]]]] _ IHb]; [discriminate|].
        rewrite forallb_forall in Hex.
        destruct (omap_total (Qasm.eval A (combine ps vals)) args) as [vs [Evs Lvs]].
        { intros e He. specialize (Hex e He). apply andb_prop in Hex. destruct Hex as [P S]. apply eval_total; [exact P|].
          rewrite map_fst_combine by exact Hv. exact S. }
        destruct (omap_total (fun x => sassoc x (combine qs regs)) hq) as [hqs [Ehq Lhq]].
        { intros x Hx. apply lookup_total; [exact Hr|]. unfold subset in Hsub. rewrite forallb_forall in Hsub. apply Hsub. exact Hx. }
        rewrite Evs, Ehq.
        destruct (custom A Gi h vs hqs) as [l1|] eqn:C1; [|exfalso; apply (IH h np' nq' vs hqs Hh); [congruence|congruence|exact C1]].
        match goal with |- match ?X with _ => _ end <> None => destruct X eqn:C2; [discriminate|exfalso; apply IHb; first [exact C2 | reflexivity]] end.
      * eapply IH; eauto.
Qed.
End T.
