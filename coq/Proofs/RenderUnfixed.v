(* C20 -- the unchanged renderer (fx = false): it coincides with the repaired one on every circuit
   whose controlled multi-qubit boxes are contiguous, and draws rows of unequal width otherwise *)
From Coq Require Import List NArith Arith Bool Lia.
Import ListNotations.
From QV Require Import Model.Render Spec.RenderSpec Proofs.RenderBase Proofs.RenderStep Proofs.RenderSeg.

Section Contig.
  Variables (targets : list nat) (controls : option (list nat)).
  Let cs := ctl_list controls.
  Hypothesis Hne : targets <> [].
  Hypothesis ND : NoDup (targets ++ cs).
  Hypothesis CT : forallb (fun w => mem w targets) (range (lmin targets) (lmax targets + 1)) = true.

  Lemma span_is_targets w : lmin targets <= w <= lmax targets <-> In w targets.
  Proof.
    split.
    - intro H. rewrite forallb_forall in CT. apply mem_true. apply CT. apply in_range. lia.
    - intro H. split; [apply lmin_le | apply lmax_ge]; exact H.
  Qed.

  Lemma ctl_not_target v : In v cs -> ~ In v targets.
  Proof.
    intros Iv It. clear CT. induction targets as [|a r IH]; [contradiction|].
    simpl in ND. inversion ND as [|? ? N1 N2]; subst. destruct It as [->|It].
    - apply N1. apply in_app_iff. right. exact Iv.
    - apply IH; try assumption. destruct r; [contradiction|discriminate].
  Qed.

  Lemma is_top_eq : cs <> [] -> is_top false targets cs = is_top true targets cs.
  Proof.
    intro Hcs. unfold is_top.
    pose proof (lmax_in cs Hcs) as I. pose proof (ctl_not_target _ I) as N.
    rewrite <- span_is_targets in N. pose proof (lmin_le_lmax targets Hne).
    destruct (lmin targets <? lmax cs) eqn:A; destruct (lmax targets <? lmax cs) eqn:B; try reflexivity.
    - apply Nat.ltb_lt in A. apply Nat.ltb_ge in B. lia.
    - apply Nat.ltb_ge in A. apply Nat.ltb_lt in B. lia.
  Qed.

  Lemma is_bot_eq : cs <> [] -> is_bot false targets cs = is_bot true targets cs.
  Proof.
    intro Hcs. unfold is_bot.
    pose proof (lmin_in cs Hcs) as I. pose proof (ctl_not_target _ I) as N.
    rewrite <- span_is_targets in N. pose proof (lmin_le_lmax targets Hne).
    destruct (lmin cs <? lmax targets) eqn:A; destruct (lmin cs <? lmin targets) eqn:B; try reflexivity.
    - apply Nat.ltb_lt in A. apply Nat.ltb_ge in B. lia.
    - apply Nat.ltb_ge in A. apply Nat.ltb_lt in B. lia.
  Qed.

  Lemma target_wire_eq p w x :
    In w (range (lmin targets) (lmax targets + 1)) ->
    target_wire false targets controls p w x = target_wire true targets controls p w x.
  Proof.
    intro I. apply in_range in I. unfold target_wire.
    assert (M : mem w cs = false).
    { apply mem_false. intro Ic. apply (ctl_not_target _ Ic). apply span_is_targets. lia. }
    fold cs. rewrite M, !andb_false_r. reflexivity.
  Qed.

  Lemma qbridge_wire_eq f l width it w x :
    qbridge_wire false targets cs f l width it w x = qbridge_wire true targets cs f l width it w x.
  Proof.
    unfold qbridge_wire.
    assert (E : mem w targets = (lmin targets <=? w) && (w <=? lmax targets)).
    { destruct (mem w targets) eqn:M.
      - apply mem_true in M. apply span_is_targets in M. symmetry. apply andb_true_iff.
        split; apply Nat.leb_le; lia.
      - apply mem_false in M. rewrite <- span_is_targets in M. symmetry. apply andb_false_iff.
        destruct (Nat.le_gt_cases (lmin targets) w); [right|left]; apply Nat.leb_gt; lia. }
    rewrite E. reflexivity.
  Qed.
End Contig.

Lemma draw_multiq_noctl fx P text targets controls :
  has_controls controls = false ->
  draw_multiq fx P text targets controls = draw_multiq true P text targets controls.
Proof. intro H. unfold draw_multiq. rewrite H. reflexivity. Qed.

Lemma target_wire_noctl fx targets controls p w x :
  has_controls controls = false ->
  target_wire fx targets controls p w x = target_wire true targets controls p w x.
Proof. intro H. unfold target_wire. rewrite H, !andb_false_r. simpl. reflexivity. Qed.

Lemma op_apply_unfixed_eq P nq nc o st :
  wf_op nq nc o = true -> box_contiguous o = true ->
  op_apply false P nq nc o st = op_apply true P nq nc o st /\
  op_width false P nq o = op_width true P nq o.
Proof.
  intros W G. destruct o as [name al targets controls | t c]; [|split; reflexivity].
  unfold op_apply, op_width.
  destruct (is_single targets controls); [split; reflexivity|].
  destruct (str_eqb name sSWAP) eqn:E2; [split; reflexivity|].
  pose proof (wf_gate _ _ _ _ _ _ W) as [Hne [ND _]].
  destruct (has_controls controls) eqn:HC.
  - unfold box_contiguous in G. rewrite E2, HC in G. simpl in G.
    assert (Hcs : ctl_list controls <> []) by (apply has_controls_nonempty; exact HC).
    pose proof (is_top_eq targets controls Hne ND G Hcs) as ET.
    pose proof (is_bot_eq targets controls Hne ND G Hcs) as EB.
    assert (ED : draw_multiq false P (gate_text name al) targets controls =
                 draw_multiq true P (gate_text name al) targets controls).
    { unfold draw_multiq. rewrite ET, EB. reflexivity. }
    rewrite ED, ET, EB. split; [|reflexivity].
    assert (EU : forall p s, update_target_multiq false targets controls
                               (range (lmin targets) (lmax targets + 1)) p s =
                             update_target_multiq true targets controls
                               (range (lmin targets) (lmax targets + 1)) p s).
    { intros p s. unfold update_target_multiq. apply emit_ext. intros w x I.
      apply (target_wire_eq targets controls Hne ND G p w x I). }
    assert (EQ : forall wl width it s, update_qbridge false targets (ctl_list controls) wl width it s =
                                       update_qbridge true targets (ctl_list controls) wl width it s).
    { intros wl width it s. unfold update_qbridge. apply emit_ext. intros w x _.
      apply (qbridge_wire_eq targets controls G). }
    rewrite EU. rewrite !EQ. reflexivity.
  - rewrite (draw_multiq_noctl false P _ targets controls HC). split; [|reflexivity].
    unfold update_target_multiq. apply emit_ext. intros w x _. apply target_wire_noctl. exact HC.
Qed.

Lemma step_unfixed_eq sty nq nc st o :
  wf_op nq nc o = true -> box_contiguous o = true ->
  step false sty nq nc st o = step true sty nq nc st o.
Proof.
  intros W G. rewrite !step_shape.
  destruct (op_apply_unfixed_eq (padw sty) nq nc o st W G) as [_ EW]. rewrite EW.
  destruct (place sty nq st (op_wl nq nc o) (op_width true (padw sty) nq o)) as [[st1 x]|]; [|reflexivity].
  destruct (op_apply_unfixed_eq (padw sty) nq nc o st1 W G) as [EA _]. rewrite EA. reflexivity.
Qed.

Lemma run_unfixed_eq sty nq nc ops : forall st xs,
  forallb (wf_op nq nc) ops = true -> forallb box_contiguous ops = true ->
  run false sty nq nc ops st xs = run true sty nq nc ops st xs.
Proof.
  induction ops as [|o r IH]; intros st xs W G; [reflexivity|].
  simpl in W, G. apply andb_true_iff in W. apply andb_true_iff in G.
  destruct W as [W1 W2]. destruct G as [G1 G2].
  simpl. rewrite (step_unfixed_eq sty nq nc st o W1 G1).
  destruct (step true sty nq nc st o) as [[st1 x]|]; [|reflexivity].
  apply IH; assumption.
Qed.

Lemma layout_full_unfixed_eq sty nq nc ops :
  forallb box_contiguous ops = true ->
  layout_full false sty nq nc ops = layout_full true sty nq nc ops.
Proof.
  intro G. unfold layout_full.
  destruct (wf_input sty nq nc ops) eqn:WF; [|reflexivity]. simpl negb. cbv iota.
  destruct (add_wire_labels sty nq nc (init_state nq nc)) as [st0|]; [|reflexivity].
  unfold wf_input in WF. apply andb_true_iff in WF. destruct WF as [_ W3].
  rewrite (run_unfixed_eq sty nq nc ops st0 [] W3 G). reflexivity.
Qed.

Lemma layout_unfixed_eq sty nq nc ops :
  forallb box_contiguous ops = true ->
  layout false sty nq nc ops = layout true sty nq nc ops.
Proof. intro G. unfold layout. rewrite (layout_full_unfixed_eq sty nq nc ops G). reflexivity. Qed.

(* ------------------------------------------------------------------------------------------ *)
(* the witness: FREDKIN with control 1 and targets 0, 2 on three qubits, default style         *)
(* ------------------------------------------------------------------------------------------ *)
Definition sFREDKIN : str := [70; 82; 69; 68; 75; 73; 78]%N.
Definition default_style : style := mkStyle 1 20 2 false None.
Definition fredkin_witness : list op := [Gate sFREDKIN None [0; 2] (Some [1])].

Lemma rows_equal_width_refuted_l :
  exists sty nq nc ops rows,
    wf_input sty nq nc ops = true /\ layout false sty nq nc ops = Some rows /\
    ~ (exists width, forall r, In r rows -> length r = width).
Proof.
  exists default_style, 3, 0, fredkin_witness. eexists.
  split; [vm_compute; reflexivity|]. split; [vm_compute; reflexivity|].
  intros [wd H].
  pose proof (H _ (or_introl eq_refl)) as H0.
  pose proof (H _ (or_intror (or_intror (or_intror (or_introl eq_refl))))) as H3.
  vm_compute in H0, H3. congruence.
Qed.

Lemma witness_outside_guard : forallb box_contiguous fredkin_witness = false.
Proof. vm_compute. reflexivity. Qed.
