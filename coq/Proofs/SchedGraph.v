(* generate_dependency_graph: edges go from lower to higher index, join instructions that share a qubit, and
   (lemma D1) every earlier instruction on the same qubit that does not commute with a later one reaches it by a
   path -- without any transitivity assumption on the commutation predicate. *)
From Coq Require Import String Ascii.
From Coq Require Import List Arith Bool QArith PeanoNat Lia Permutation.
From QV Require Import Model.Sched Proofs.SchedBase.
Import ListNotations.
Open Scope nat_scope.

Ltac splits := repeat match goal with |- _ /\ _ => split end.

Inductive path (E : list (nat * nat)) : nat -> nat -> Prop :=
| path1 : forall u v, In (u, v) E -> path E u v
| pathS : forall u v w, In (u, v) E -> path E v w -> path E u w.

Lemma path_mono : forall E E' u v, incl E E' -> path E u v -> path E' u v.
Proof.
  intros E E' u v Hi H. induction H as [u v H|u v w H _ IH].
  - apply path1. apply Hi. exact H.
  - eapply pathS; [apply Hi; exact H | exact IH].
Qed.

Lemma path_snoc : forall E u v w, path E u v -> In (v, w) E -> path E u w.
Proof.
  intros E u v w H. induction H as [u v H|u v x H _ IH]; intros Hw.
  - eapply pathS; [exact H | apply path1; exact Hw].
  - eapply pathS; [exact H | apply IH; exact Hw].
Qed.

Lemma path_rel : forall (Rel : nat -> nat -> Prop) E,
  (forall a b c, Rel a b -> Rel b c -> Rel a c) ->
  (forall u v, In (u, v) E -> Rel u v) -> forall u v, path E u v -> Rel u v.
Proof.
  intros Rel E Ht He u v H. induction H as [u v H|u v w H _ IH].
  - apply He. exact H.
  - eapply Ht; [apply He; exact H | exact IH].
Qed.

(* strictly increasing lists *)
Fixpoint inc (l : list nat) : Prop :=
  match l with [] => True | x :: r => (forall y, In y r -> x < y) /\ inc r end.

Lemma inc_filter : forall f l, inc l -> inc (filter f l).
Proof.
  intros f l. induction l as [|x r IH]; simpl; intros H; [exact I|].
  destruct H as [H1 H2]. destruct (f x); simpl.
  - split; [|apply IH; exact H2]. intros y Hy. apply filter_In in Hy. apply H1. tauto.
  - apply IH. exact H2.
Qed.

Lemma inc_seq : forall len s, inc (seq s len).
Proof.
  induction len as [|k IH]; intros s; simpl; [exact I|].
  split; [|apply IH]. intros y Hy. apply in_seq in Hy. lia.
Qed.

Definition lt_all (A B : list nat) : Prop := forall a b, In a A -> In b B -> a < b.

Section Graph.
  Variable n : nat.
  Variable used : nat -> list nat.
  Variable comm : nat -> nat -> bool.

  Definition commutes_in (l : list nat) : Prop :=
    forall i j, In i l -> In j l -> i < j -> comm j i = true.

  (* invariant of the per-qubit block construction; `older` = all closed blocks before `last` *)
  Definition Pinv (all older last cur : list nat) (E : list (nat * nat)) : Prop :=
    (forall i l, In i older -> In l last -> path E i l) /\
    (older <> [] -> last <> []) /\
    (forall i j, In i older -> In j older -> i < j -> comm j i = false -> path E i j) /\
    commutes_in last /\ commutes_in cur /\
    lt_all older last /\ lt_all older cur /\ lt_all last cur /\
    (forall u v, In (u, v) E -> u < v /\ In u all /\ In v all) /\
    incl (older ++ last ++ cur) all.

  Lemma blocks_spec : forall all us older last cur E,
    Pinv all older last cur E -> inc us -> lt_all (older ++ last ++ cur) us -> incl us all ->
    (forall u v, In (u, v) (blocks comm us last cur E) -> u < v /\ In u all /\ In v all) /\
    (forall i j, In i (older ++ last ++ cur ++ us) -> In j (older ++ last ++ cur ++ us) -> i < j ->
                 comm j i = false -> path (blocks comm us last cur E) i j).
  Proof.
    intros all us. induction us as [|j0 r IH]; intros older last cur E HP Hinc Hlt Hall.
    - destruct HP as (P1 & P2 & P3 & P4l & P4c & O1 & O2 & O3 & P6 & P7). simpl. split.
      + intros u v H. apply in_app_iff in H. destruct H as [H|H]; [|apply P6; exact H].
        apply cart_In in H. destruct H as [Hu Hv]. splits.
        * apply O3; assumption.
        * apply P7. apply in_app_iff. right. apply in_app_iff. left. exact Hu.
        * apply P7. apply in_app_iff. right. apply in_app_iff. right. exact Hv.
      + intros i j Hi Hj Hij Hc. rewrite app_nil_r in Hi, Hj.
        assert (Hmono : incl E (cart last cur ++ E)) by (intros x Hx; apply in_app_iff; right; exact Hx).
        assert (Hedge : forall a b, In a last -> In b cur -> In (a, b) (cart last cur ++ E)).
        { intros a b Ha Hb. apply in_app_iff. left. apply cart_In. tauto. }
        apply in_app_iff in Hi. apply in_app_iff in Hj.
        destruct Hj as [Hj|Hj]; [|apply in_app_iff in Hj; destruct Hj as [Hj|Hj]].
        * (* j older *)
          destruct Hi as [Hi|Hi]; [eapply path_mono; [exact Hmono | apply P3; assumption]|].
          exfalso. apply in_app_iff in Hi. destruct Hi as [Hi|Hi]; [specialize (O1 j i Hj Hi) | specialize (O2 j i Hj Hi)]; lia.
        * (* j last *)
          destruct Hi as [Hi|Hi]; [eapply path_mono; [exact Hmono | apply P1; assumption]|].
          exfalso. apply in_app_iff in Hi. destruct Hi as [Hi|Hi].
          -- rewrite (P4l i j Hi Hj Hij) in Hc. discriminate.
          -- specialize (O3 j i Hj Hi). lia.
        * (* j cur *)
          destruct Hi as [Hi|Hi]; [|apply in_app_iff in Hi; destruct Hi as [Hi|Hi]].
          -- assert (Hl : last <> []) by (apply P2; intros He; rewrite He in Hi; contradiction).
             destruct last as [|l0 lr]; [congruence|].
             eapply path_snoc; [eapply path_mono; [exact Hmono | apply (P1 i l0 Hi); left; reflexivity]|].
             apply Hedge; [left; reflexivity | exact Hj].
          -- apply path1. apply Hedge; assumption.
          -- rewrite (P4c i j Hi Hj Hij) in Hc. discriminate.
    - simpl. destruct Hinc as [Hj0 Hincr].
      assert (Hj0gt : forall a, In a (older ++ last ++ cur) -> a < j0) by (intros a Ha; apply (Hlt a j0 Ha); left; reflexivity).
      assert (Hj0all : In j0 all) by (apply Hall; left; reflexivity).
      assert (Hrall : incl r all) by (intros x Hx; apply Hall; right; exact Hx).
      destruct HP as (P1 & P2 & P3 & P4l & P4c & O1 & O2 & O3 & P6 & P7).
      destruct (existsb (fun d => negb (comm j0 d)) cur) eqn:Hdep.
      + (* dependent: close the current block *)
        assert (Hcne : cur <> []) by (intros He; rewrite He in Hdep; discriminate).
        assert (Hmono : incl E (cart last cur ++ E)) by (intros x Hx; apply in_app_iff; right; exact Hx).
        assert (HP' : Pinv all (older ++ last) cur [j0] (cart last cur ++ E)).
        { unfold Pinv. splits.
          - intros i l Hi Hl. apply in_app_iff in Hi. destruct Hi as [Hi|Hi].
            + assert (Hln : last <> []) by (apply P2; intros He; rewrite He in Hi; contradiction).
              destruct last as [|l0 lr]; [congruence|].
              eapply path_snoc; [eapply path_mono; [exact Hmono | apply (P1 i l0 Hi); left; reflexivity]|].
              apply in_app_iff. left. apply cart_In. split; [left; reflexivity | exact Hl].
            + apply path1. apply in_app_iff. left. apply cart_In. tauto.
          - intros _. exact Hcne.
          - intros i j Hi Hj Hij Hc. apply in_app_iff in Hi. apply in_app_iff in Hj.
            destruct Hj as [Hj|Hj].
            + destruct Hi as [Hi|Hi]; [eapply path_mono; [exact Hmono | apply P3; assumption]|].
              exfalso. specialize (O1 j i Hj Hi). lia.
            + destruct Hi as [Hi|Hi]; [eapply path_mono; [exact Hmono | apply P1; assumption]|].
              exfalso. rewrite (P4l i j Hi Hj Hij) in Hc. discriminate.
          - exact P4c.
          - intros i j [<-|[]] [<-|[]] Hij. lia.
          - intros a b Ha Hb. apply in_app_iff in Ha. destruct Ha as [Ha|Ha]; [apply O2 | apply O3]; assumption.
          - intros a b Ha [<-|[]]. apply Hj0gt. apply in_app_iff in Ha. rewrite !in_app_iff. tauto.
          - intros a b Ha [<-|[]]. apply Hj0gt. rewrite !in_app_iff. tauto.
          - intros u v H. apply in_app_iff in H. destruct H as [H|H]; [|apply P6; exact H].
            apply cart_In in H. destruct H as [Hu Hv]. splits.
            + apply O3; assumption.
            + apply P7. rewrite !in_app_iff. tauto.
            + apply P7. rewrite !in_app_iff. tauto.
          - intros x Hx. rewrite !in_app_iff in Hx. destruct Hx as [[Hx|Hx]|[Hx|Hx]].
            + apply P7. rewrite !in_app_iff. tauto.
            + apply P7. rewrite !in_app_iff. tauto.
            + apply P7. rewrite !in_app_iff. tauto.
            + destruct Hx as [<-|[]]. exact Hj0all. }
        assert (Hlt' : lt_all ((older ++ last) ++ cur ++ [j0]) r).
        { intros a b Ha Hb. rewrite !in_app_iff in Ha. destruct Ha as [[Ha|Ha]|[Ha|[<-|[]]]].
          - apply Hlt; [rewrite !in_app_iff; tauto | right; exact Hb].
          - apply Hlt; [rewrite !in_app_iff; tauto | right; exact Hb].
          - apply Hlt; [rewrite !in_app_iff; tauto | right; exact Hb].
          - apply Hj0. exact Hb. }
        destruct (IH _ _ _ _ HP' Hincr Hlt' Hrall) as [HE HD]. split; [exact HE|].
        intros i j Hi Hj. apply HD.
        * rewrite !in_app_iff in *. simpl in *. tauto.
        * rewrite !in_app_iff in *. simpl in *. tauto.
      + (* j0 commutes with the whole current block *)
        assert (Hcj0 : forall d, In d cur -> comm j0 d = true).
        { intros d Hd. destruct (comm j0 d) eqn:Hc; [reflexivity|]. exfalso.
          assert (Hex : existsb (fun d => negb (comm j0 d)) cur = true).
          { apply existsb_exists. exists d. split; [exact Hd|]. rewrite Hc. reflexivity. }
          rewrite Hex in Hdep. discriminate. }
        assert (HP' : Pinv all older last (cur ++ [j0]) E).
        { unfold Pinv. splits; try assumption.
          - intros i j Hi Hj Hij. apply in_app_iff in Hi. apply in_app_iff in Hj.
            destruct Hj as [Hj|[<-|[]]].
            + destruct Hi as [Hi|[<-|[]]]; [apply P4c; assumption|].
              exfalso. assert (j < j0) by (apply Hj0gt; rewrite !in_app_iff; tauto). lia.
            + destruct Hi as [Hi|[<-|[]]]; [apply Hcj0; exact Hi | lia].
          - intros a b Ha Hb. apply in_app_iff in Hb. destruct Hb as [Hb|[<-|[]]]; [apply O2; assumption|].
            apply Hj0gt. rewrite !in_app_iff. tauto.
          - intros a b Ha Hb. apply in_app_iff in Hb. destruct Hb as [Hb|[<-|[]]]; [apply O3; assumption|].
            apply Hj0gt. rewrite !in_app_iff. tauto.
          - intros x Hx. rewrite !in_app_iff in Hx. destruct Hx as [Hx|[Hx|[Hx|[<-|[]]]]].
            + apply P7. rewrite !in_app_iff. tauto.
            + apply P7. rewrite !in_app_iff. tauto.
            + apply P7. rewrite !in_app_iff. tauto.
            + exact Hj0all. }
        assert (Hlt' : lt_all (older ++ last ++ cur ++ [j0]) r).
        { intros a b Ha Hb. rewrite !in_app_iff in Ha. destruct Ha as [Ha|[Ha|[Ha|[<-|[]]]]].
          - apply Hlt; [rewrite !in_app_iff; tauto | right; exact Hb].
          - apply Hlt; [rewrite !in_app_iff; tauto | right; exact Hb].
          - apply Hlt; [rewrite !in_app_iff; tauto | right; exact Hb].
          - apply Hj0. exact Hb. }
        destruct (IH _ _ _ _ HP' Hincr Hlt' Hrall) as [HE HD]. split; [exact HE|].
        intros i j Hi Hj. apply HD.
        * rewrite !in_app_iff in *. simpl in *. tauto.
        * rewrite !in_app_iff in *. simpl in *. tauto.
  Qed.

  Lemma Pinv_init : forall all, Pinv all [] [] [] [].
  Proof.
    intros all. unfold Pinv, commutes_in, lt_all. splits; try (intros; simpl in *; tauto).
    intros x [].
  Qed.

  Lemma users_In : forall q i, In i (users n used q) <-> i < n /\ In q (used i).
  Proof.
    intros q i. unfold users. rewrite filter_In, in_seq, memb_In. split; intros [H1 H2]; split; try lia; assumption.
  Qed.

  Lemma users_edges : forall q u v, In (u, v) (blocks comm (users n used q) [] [] []) ->
    u < v /\ v < n /\ In q (used u) /\ In q (used v).
  Proof.
    intros q u v H.
    destruct (blocks_spec (users n used q) (users n used q) [] [] [] [] (Pinv_init _)) as [HE _].
    - apply inc_filter. apply inc_seq.
    - intros a b [].
    - intros x Hx. exact Hx.
    - destruct (HE u v H) as (H1 & H2 & H3). apply users_In in H2. apply users_In in H3. tauto.
  Qed.

  Lemma users_D1 : forall q i j, i < j -> j < n -> In q (used i) -> In q (used j) -> comm j i = false ->
    path (blocks comm (users n used q) [] [] []) i j.
  Proof.
    intros q i j Hij Hjn Hqi Hqj Hc.
    destruct (blocks_spec (users n used q) (users n used q) [] [] [] [] (Pinv_init _)) as [_ HD].
    - apply inc_filter. apply inc_seq.
    - intros a b [].
    - intros x Hx. exact Hx.
    - apply HD; try assumption; simpl; apply users_In; split; try assumption; lia.
  Qed.

  Lemma dep_edges_spec : forall nq u v, In (u, v) (dep_edges n used comm nq) ->
    u < v /\ v < n /\ exists q, In q (used u) /\ In q (used v).
  Proof.
    intros nq u v H. unfold dep_edges in H. apply in_flat_map in H. destruct H as [q [_ H]].
    apply users_edges in H. splits; try tauto. exists q. tauto.
  Qed.

  Lemma dep_edges_D1 : forall nq q i j, q < nq -> i < j -> j < n -> In q (used i) -> In q (used j) ->
    comm j i = false -> path (dep_edges n used comm nq) i j.
  Proof.
    intros nq q i j Hq Hij Hjn Hqi Hqj Hc.
    eapply path_mono; [|apply (users_D1 q i j); assumption].
    intros e He. unfold dep_edges. apply in_flat_map. exists q. split; [apply in_seq; lia | exact He].
  Qed.

  Lemma fold_max_ge : forall l q x, In x (q :: l) -> x <= fold_right Nat.max q l.
  Proof.
    induction l as [|y r IH]; intros q x Hx; simpl in *.
    - destruct Hx as [->|[]]. lia.
    - destruct Hx as [->|[->|Hx]].
      + specialize (IH x x (or_introl eq_refl)). lia.
      + lia.
      + specialize (IH q x (or_intror Hx)). lia.
  Qed.

  Lemma num_qubits_bound : forall nq, num_qubits n used = Some nq ->
    forall i q, i < n -> In q (used i) -> q < nq.
  Proof.
    intros nq H i q Hi Hq. unfold num_qubits in H.
    assert (Hin : In q (all_qubits n used)).
    { unfold all_qubits. apply in_flat_map. exists i. split; [apply in_seq; lia | exact Hq]. }
    destruct (all_qubits n used) as [|q0 r]; [contradiction|]. inversion H; subst.
    pose proof (fold_max_ge r q0 q Hin). lia.
  Qed.

  Lemma num_qubits_some : forall i q, i < n -> In q (used i) -> exists nq, num_qubits n used = Some nq.
  Proof.
    intros i q Hi Hq. unfold num_qubits.
    assert (Hin : In q (all_qubits n used)).
    { unfold all_qubits. apply in_flat_map. exists i. split; [apply in_seq; lia | exact Hq]. }
    destruct (all_qubits n used) as [|q0 r]; [contradiction|]. eexists; reflexivity.
  Qed.
End Graph.

Lemma shares_spec : forall used a b, shares used a b = true <-> exists q, In q (used a) /\ In q (used b).
Proof.
  intros used a b. unfold shares. rewrite existsb_exists. split.
  - intros [q [H1 H2]]. apply memb_In in H2. exists q. tauto.
  - intros [q [H1 H2]]. exists q. split; [exact H1 | apply memb_In; exact H2].
Qed.

Lemma shares_sym : forall used a b, shares used a b = shares used b a.
Proof.
  intros used a b. destruct (shares used a b) eqn:H1; destruct (shares used b a) eqn:H2; try reflexivity.
  - apply shares_spec in H1. destruct H1 as [q [Ha Hb]].
    assert (H : shares used b a = true) by (apply shares_spec; exists q; tauto). congruence.
  - apply shares_spec in H2. destruct H2 as [q [Ha Hb]].
    assert (H : shares used a b = true) by (apply shares_spec; exists q; tauto). congruence.
Qed.
