(* Basic facts about the list utilities of Model/Sched.v *)
From Coq Require Import String Ascii.
From Coq Require Import List Arith Bool QArith PeanoNat Lia Permutation.
From QV Require Import Model.Sched.
Import ListNotations.
Open Scope nat_scope.

Lemma memb_In : forall x l, memb x l = true <-> In x l.
Proof.
  intros x l. unfold memb. rewrite existsb_exists. split.
  - intros [y [Hy He]]. apply Nat.eqb_eq in He. subst. exact Hy.
  - intros H. exists x. split; [exact H | apply Nat.eqb_refl].
Qed.

Lemma memb_false : forall x l, memb x l = false <-> ~ In x l.
Proof.
  intros x l. rewrite <- memb_In. destruct (memb x l); split; intros; congruence.
Qed.

(* ---------- count / perm_check / guard_perm ---------- *)
Lemma count_count_occ : forall l x, count l x = count_occ Nat.eq_dec l x.
Proof.
  induction l as [|y r IH]; intros x; simpl; [reflexivity|].
  rewrite IH. destruct (Nat.eq_dec y x) as [e|ne].
  - subst. rewrite Nat.eqb_refl. reflexivity.
  - apply Nat.eqb_neq in ne. rewrite ne. reflexivity.
Qed.

Lemma count_notin : forall l x, ~ In x l -> count l x = 0.
Proof.
  intros l x H. rewrite count_count_occ. apply count_occ_not_In. exact H.
Qed.

Lemma perm_check_sound : forall l' l, perm_check l' l = true -> Permutation l' l.
Proof.
  intros l' l H. unfold perm_check in H. rewrite forallb_forall in H.
  apply (Permutation_count_occ Nat.eq_dec). intros x.
  rewrite <- !count_count_occ.
  destruct (in_dec Nat.eq_dec x (l ++ l')) as [Hi|Hn].
  - apply H in Hi. apply Nat.eqb_eq in Hi. exact Hi.
  - rewrite in_app_iff in Hn. rewrite !count_notin; tauto.
Qed.

Lemma guard_perm_perm : forall l' l, Permutation (guard_perm l' l) l.
Proof.
  intros l' l. unfold guard_perm. destruct (perm_check l' l) eqn:Hc.
  - apply perm_check_sound. exact Hc.
  - apply Permutation_refl.
Qed.

(* ---------- sorting ---------- *)
Lemma insert_perm : forall lt x l, Permutation (insert lt x l) (x :: l).
Proof.
  intros lt x l. induction l as [|y r IH]; simpl; [apply Permutation_refl|].
  destruct (lt y x).
  - eapply perm_trans; [apply perm_skip; exact IH | apply perm_swap].
  - apply Permutation_refl.
Qed.

Lemma isort_perm : forall lt l, Permutation (isort lt l) l.
Proof.
  intros lt l. induction l as [|x r IH]; simpl; [apply perm_nil|].
  eapply perm_trans; [apply insert_perm | apply perm_skip; exact IH].
Qed.

(* ---------- remove1 ---------- *)
Lemma remove1_In : forall x l y, NoDup l -> (In y (remove1 x l) <-> In y l /\ y <> x).
Proof.
  intros x l. induction l as [|z r IH]; intros y Hnd; simpl; [tauto|].
  inversion Hnd as [|? ? Hz Hr]; subst.
  destruct (Nat.eqb z x) eqn:Hzx.
  - apply Nat.eqb_eq in Hzx. subst z. split.
    + intros Hy. split; [right; exact Hy|]. intros ->. contradiction.
    + intros [[->|Hy] Hne]; [congruence | exact Hy].
  - apply Nat.eqb_neq in Hzx. simpl. rewrite (IH y Hr). split.
    + intros [->|[Hy Hne]]; [split; [left; reflexivity | exact Hzx] | split; [right; exact Hy | exact Hne]].
    + intros [[->|Hy] Hne]; [left; reflexivity | right; split; assumption].
Qed.

Lemma remove1_NoDup : forall x l, NoDup l -> NoDup (remove1 x l).
Proof.
  intros x l. induction l as [|z r IH]; intros Hnd; simpl; [constructor|].
  inversion Hnd as [|? ? Hz Hr]; subst.
  destruct (Nat.eqb z x) eqn:Hzx; [exact Hr|].
  constructor; [|apply IH; exact Hr].
  intros Hin. apply (remove1_In x r z Hr) in Hin. tauto.
Qed.

Lemma remove_all_spec : forall cyc l, NoDup l ->
  NoDup (fold_left (fun l x => remove1 x l) cyc l) /\
  forall y, In y (fold_left (fun l x => remove1 x l) cyc l) <-> In y l /\ ~ In y cyc.
Proof.
  induction cyc as [|x r IH]; intros l Hnd; simpl.
  - split; [exact Hnd | intros y; tauto].
  - destruct (IH (remove1 x l) (remove1_NoDup x l Hnd)) as [H1 H2]. split; [exact H1|].
    intros y. rewrite H2. rewrite (remove1_In x l y Hnd). split.
    + intros [[Hy Hne] Hr]. split; [exact Hy|]. intros [->|Hin]; [congruence | contradiction].
    + intros [Hy Hn]. split; [split; [exact Hy|] |]; intros H; apply Hn; [left; congruence | right; exact H].
Qed.

(* ---------- edges ---------- *)
Lemma edgeb_In : forall E u v, edgeb E u v = true <-> In (u, v) E.
Proof.
  intros E u v. unfold edgeb. rewrite existsb_exists. split.
  - intros [[a b] [Hin He]]. simpl in He. apply andb_true_iff in He. destruct He as [H1 H2].
    apply Nat.eqb_eq in H1. apply Nat.eqb_eq in H2. subst. exact Hin.
  - intros Hin. exists (u, v). split; [exact Hin|]. simpl. rewrite !Nat.eqb_refl. reflexivity.
Qed.

Lemma preds_In : forall E u v, In u (preds E v) <-> In (u, v) E.
Proof.
  intros E u v. unfold preds. rewrite in_map_iff. split.
  - intros [[a b] [Hf Hin]]. simpl in Hf. subst a. apply filter_In in Hin. destruct Hin as [Hin Hb].
    simpl in Hb. apply Nat.eqb_eq in Hb. subst. exact Hin.
  - intros Hin. exists (u, v). split; [reflexivity|]. apply filter_In. split; [exact Hin|].
    simpl. apply Nat.eqb_refl.
Qed.

Lemma succs_In : forall n E v w, In w (succs n E v) <-> w < n /\ In (v, w) E.
Proof.
  intros n E v w. unfold succs. rewrite filter_In, in_seq, edgeb_In. split; intros [H1 H2]; split; try lia; assumption.
Qed.

Lemma succs_NoDup : forall n E v, NoDup (succs n E v).
Proof. intros. unfold succs. apply NoDup_filter. apply seq_NoDup. Qed.

Lemma swapE_In : forall E u v, In (u, v) (swapE E) <-> In (v, u) E.
Proof.
  intros E u v. unfold swapE. rewrite in_map_iff. split.
  - intros [[a b] [He Hin]]. simpl in He. inversion He; subst. exact Hin.
  - intros Hin. exists (v, u). split; [reflexivity | exact Hin].
Qed.

Lemma cart_In : forall A B a b, In (a, b) (cart A B) <-> In a A /\ In b B.
Proof.
  intros A B a b. unfold cart. rewrite in_flat_map. split.
  - intros [x [Hx Hin]]. apply in_map_iff in Hin. destruct Hin as [y [He Hy]]. inversion He; subst. tauto.
  - intros [Ha Hb]. exists a. split; [exact Ha|]. apply in_map_iff. exists b. tauto.
Qed.

(* ---------- cycles: index of the cycle containing a node ---------- *)
Fixpoint cidx (cs : list (list nat)) (x : nat) : nat :=
  match cs with
  | [] => 0
  | c :: r => if memb x c then 0 else S (cidx r x)
  end.

Definition beforeC (cs : list (list nat)) (u v : nat) : Prop :=
  In u (concat cs) /\ In v (concat cs) /\ cidx cs u < cidx cs v.

Lemma cidx_lt_len : forall cs x, In x (concat cs) <-> cidx cs x < length cs.
Proof.
  induction cs as [|c r IH]; intros x; simpl.
  - split; [tauto | lia].
  - rewrite in_app_iff. destruct (memb x c) eqn:Hm.
    + apply memb_In in Hm. split; [lia | tauto].
    + apply memb_false in Hm. rewrite IH. split; [intros [H|H]; [contradiction | lia] | intros H; right; lia].
Qed.

Lemma cidx_app_in : forall cs cs' x, In x (concat cs) -> cidx (cs ++ cs') x = cidx cs x.
Proof.
  induction cs as [|c r IH]; intros cs' x Hin; simpl in *; [contradiction|].
  destruct (memb x c) eqn:Hm; [reflexivity|].
  apply memb_false in Hm. apply in_app_iff in Hin. destruct Hin as [H|H]; [contradiction|].
  rewrite (IH cs' x H). reflexivity.
Qed.

Lemma cidx_app_notin : forall cs cs' x, ~ In x (concat cs) -> cidx (cs ++ cs') x = length cs + cidx cs' x.
Proof.
  induction cs as [|c r IH]; intros cs' x Hn; simpl in *; [reflexivity|].
  rewrite in_app_iff in Hn. destruct (memb x c) eqn:Hm.
  - apply memb_In in Hm. tauto.
  - rewrite IH; [reflexivity | tauto].
Qed.

Lemma beforeC_trans : forall cs u v w, beforeC cs u v -> beforeC cs v w -> beforeC cs u w.
Proof. unfold beforeC. intros cs u v w (H1 & H2 & H3) (H4 & H5 & H6). repeat split; try assumption. lia. Qed.

Lemma beforeC_irrefl : forall cs u, ~ beforeC cs u u.
Proof. unfold beforeC. intros cs u (_ & _ & H). lia. Qed.

Lemma beforeC_app : forall cs c u v, beforeC cs u v -> beforeC (cs ++ [c]) u v.
Proof.
  unfold beforeC. intros cs c u v (H1 & H2 & H3).
  rewrite concat_app, !in_app_iff. repeat split; try (left; assumption).
  rewrite !cidx_app_in by assumption. exact H3.
Qed.

Lemma beforeC_snoc : forall cs c u v, In u (concat cs) -> ~ In v (concat cs) -> In v c -> beforeC (cs ++ [c]) u v.
Proof.
  unfold beforeC. intros cs c u v Hu Hnv Hv.
  rewrite concat_app, !in_app_iff. simpl. rewrite app_nil_r. repeat split; [left; exact Hu | right; exact Hv |].
  rewrite cidx_app_in by exact Hu. rewrite cidx_app_notin by exact Hnv.
  apply cidx_lt_len in Hu. lia.
Qed.

Lemma concat_rev_In : forall (cs : list (list nat)) x, In x (concat (rev cs)) <-> In x (concat cs).
Proof.
  intros cs x. rewrite !in_concat. split; intros [c [Hc Hx]]; exists c; split; try assumption.
  - apply in_rev. exact Hc.
  - apply in_rev in Hc. exact Hc.
Qed.

Lemma NoDup_app_iff : forall (a b : list nat),
  NoDup (a ++ b) <-> NoDup a /\ NoDup b /\ (forall x, In x a -> ~ In x b).
Proof.
  induction a as [|y r IH]; intros b; simpl.
  - split; [intros H; repeat split; [constructor | exact H | tauto] | tauto].
  - split.
    + intros H. inversion H as [|? ? Hy Hr]; subst. apply IH in Hr. destruct Hr as (H1 & H2 & H3).
      rewrite in_app_iff in Hy. repeat split.
      * constructor; tauto.
      * exact H2.
      * intros x [->|Hx]; [tauto | apply H3; exact Hx].
    + intros (H1 & H2 & H3). inversion H1 as [|? ? Hy Hr]; subst. constructor.
      * rewrite in_app_iff. intros [H|H]; [contradiction | apply (H3 y); [left; reflexivity | exact H]].
      * apply IH. repeat split; try assumption. intros x Hx. apply H3. right. exact Hx.
Qed.

Lemma NoDup_app_disj : forall (a b : list nat) x, NoDup (a ++ b) -> In x a -> In x b -> False.
Proof.
  induction a as [|y r IH]; intros b x Hnd Ha Hb; simpl in *; [contradiction|].
  inversion Hnd as [|? ? Hy Hr]; subst. destruct Ha as [->|Ha].
  - apply Hy. apply in_app_iff. right. exact Hb.
  - eapply IH; eauto.
Qed.

(* with pairwise disjoint cycles the index in the reversed list is the mirrored index *)
Lemma cidx_rev : forall cs x, NoDup (concat cs) -> In x (concat cs) ->
  cidx (rev cs) x + cidx cs x + 1 = length cs.
Proof.
  induction cs as [|c r IH]; intros x Hnd Hin; simpl in *; [contradiction|].
  apply in_app_iff in Hin.
  assert (Hnr : NoDup (concat r)) by (apply NoDup_app_iff in Hnd; tauto).
  destruct (memb x c) eqn:Hm.
  - pose proof Hm as Hm'. apply memb_In in Hm'.
    assert (Hn : ~ In x (concat (rev r))).
    { rewrite concat_rev_In. intros Hx. eapply NoDup_app_disj; eauto. }
    rewrite cidx_app_notin by exact Hn. simpl. rewrite Hm. rewrite rev_length. lia.
  - apply memb_false in Hm. destruct Hin as [H|H]; [contradiction|].
    rewrite cidx_app_in by (rewrite concat_rev_In; exact H).
    specialize (IH x Hnr H). lia.
Qed.
