(* C14 -- the resampling loop of _fill_coeff computes the step function of the pulse, for every grid *)
From Coq Require Import List QArith Bool Arith Lia Lqa Sorted.
From QV Require Import Model.Fill Spec.FillSpec.
Import ListNotations.
Open Scope Q_scope.

(* ---------- booleans ---------- *)
Lemma Qltb_true a b : Qltb a b = true <-> a < b.
Proof.
  unfold Qltb. rewrite negb_true_iff. split; intro H.
  - destruct (Qlt_le_dec a b) as [Hl|Hle]; auto. apply Qle_bool_iff in Hle. congruence.
  - destruct (Qle_bool b a) eqn:E; auto. apply Qle_bool_iff in E. lra.
Qed.
Lemma Qltb_false a b : Qltb a b = false <-> b <= a.
Proof.
  unfold Qltb. rewrite negb_false_iff. apply Qle_bool_iff.
Qed.
Lemma Qle_bool_false a b : Qle_bool a b = false <-> b < a.
Proof.
  split; intro H.
  - destruct (Qlt_le_dec b a) as [Hl|Hle]; auto. apply Qle_bool_iff in Hle. congruence.
  - destruct (Qle_bool a b) eqn:E; auto. apply Qle_bool_iff in E. lra.
Qed.

(* ---------- step_fn ---------- *)
Lemma step_fn_here a b r c cf t : a <= t -> t < b -> step_fn (a :: b :: r) (c :: cf) t = c.
Proof.
  intros H1 H2. cbn [step_fn].
  apply Qle_bool_iff in H1. apply Qltb_true in H2. rewrite H1, H2. reflexivity.
Qed.
Lemma step_fn_skip a b r c cf t : b <= t -> step_fn (a :: b :: r) (c :: cf) t = step_fn (b :: r) cf t.
Proof.
  intros H. cbn [step_fn]. apply Qltb_false in H. rewrite H, andb_false_r. reflexivity.
Qed.
Lemma step_fn_after tl : forall cf t, (forall x, In x tl -> x <= t) -> step_fn tl cf t = 0.
Proof.
  induction tl as [|a tl IH]; intros cf t H; [reflexivity|].
  destruct tl as [|b r]; [reflexivity|]. destruct cf as [|c cf]; [reflexivity|].
  rewrite step_fn_skip by (apply H; simpl; auto).
  apply IH. intros x Hx. apply H. simpl; auto.
Qed.
Lemma step_fn_before tl : forall cf t, (forall x, In x tl -> t < x) -> step_fn tl cf t = 0.
Proof.
  induction tl as [|a tl IH]; intros cf t H; [reflexivity|].
  destruct tl as [|b r]; [reflexivity|]. destruct cf as [|c cf]; [reflexivity|].
  cbn [step_fn].
  assert (Ha : Qle_bool a t = false) by (apply Qle_bool_false; apply H; simpl; auto).
  rewrite Ha. cbn [andb]. apply IH. intros x Hx. apply H. simpl; auto.
Qed.

(* ---------- list helpers ---------- *)
Lemma nth_error_skipn {A} (l : list A) : forall i k, nth_error (skipn i l) k = nth_error l (i + k).
Proof.
  induction l as [|x l IH]; intros i k.
  - rewrite skipn_nil. destruct k, i; reflexivity.
  - destruct i; [reflexivity|]. cbn [skipn plus nth_error]. apply IH.
Qed.
Lemma tl_skipn {A} (l : list A) : forall i, tl (skipn i l) = skipn (S i) l.
Proof.
  induction l as [|x l IH]; intros i.
  - rewrite !skipn_nil. reflexivity.
  - destruct i; [reflexivity|]. cbn [skipn]. rewrite IH. reflexivity.
Qed.

Lemma sorted_tail_gt (x : Q) l : StronglySorted Qlt (x :: l) -> forall y, In y l -> x < y.
Proof.
  intros H y Hy. inversion H as [|? ? _ Hall]; subst.
  rewrite Forall_forall in Hall. auto.
Qed.
Lemma sorted_tail (x : Q) l : StronglySorted Qlt (x :: l) -> StronglySorted Qlt l.
Proof. intros H. inversion H; auto. Qed.
Lemma sorted_hd_le l t2 y : StronglySorted Qlt l -> hd_error l = Some t2 -> In y l -> t2 <= y.
Proof.
  intros Hs Hh Hy. destruct l as [|a l]; [discriminate|]. injection Hh as ->.
  destruct Hy as [->|Hy]; [lra|]. pose proof (sorted_tail_gt _ _ Hs _ Hy). lra.
Qed.

Lemma ok_out_cons g t rest c res :
  ok_out g rest res ->
  (forall t2, hd_error rest = Some t2 -> forall t', t <= t' -> t' < t2 -> c = g t') ->
  ok_out g (t :: rest) (c :: res).
Proof.
  intros Hok Hc. destruct rest as [|t2 r].
  - inversion Hok; subst. constructor.
  - apply ok_cons; [intros u H1 H2; apply (Hc t2 eq_refl u H1 H2)|exact Hok].
Qed.

(* ---------- the loop in suffix form ---------- *)
Fixpoint fill_sfx (tol first last : Q) (os cs F : list Q) : option (list Q) :=
  match F with
  | [] => Some []
  | t :: rest =>
    if Qltb tol (first - t) then option_map (cons 0) (fill_sfx tol first last os cs rest)
    else if Qltb tol (t - last) then option_map (cons 0) (fill_sfx tol first last os cs rest)
    else match nth_error os 1 with
         | None => None
         | Some nx =>
             if Qle_bool nx (t + tol)
             then match nth_error cs 1 with
                  | None => None
                  | Some c => option_map (cons c) (fill_sfx tol first last (tl os) (tl cs) rest)
                  end
             else match nth_error cs 0 with
                  | None => None
                  | Some c => option_map (cons c) (fill_sfx tol first last os cs rest)
                  end
         end
  end.

Lemma fill_loop_sfx tol first last ot oc : forall F i,
  fill_loop_v1 tol first last ot oc F i = fill_sfx tol first last (skipn i ot) (skipn i oc) F.
Proof.
  induction F as [|t rest IH]; intros i; [reflexivity|].
  cbn [fill_loop_v1 fill_sfx].
  destruct (Qltb tol (first - t)); [rewrite IH; reflexivity|].
  destruct (Qltb tol (t - last)); [rewrite IH; reflexivity|].
  rewrite (nth_error_skipn ot i 1). replace (i + 1)%nat with (S i) by lia.
  destruct (nth_error ot (S i)) as [nx|]; [|reflexivity].
  destruct (Qle_bool nx (t + tol)).
  - rewrite (nth_error_skipn oc i 1). replace (i + 1)%nat with (S i) by lia.
    destruct (nth_error oc (S i)); [|reflexivity].
    rewrite IH, !tl_skipn. reflexivity.
  - rewrite (nth_error_skipn oc i 0). replace (i + 0)%nat with i by lia.
    destruct (nth_error oc i); [|reflexivity].
    rewrite IH. reflexivity.
Qed.

(* ---------- correctness of the loop ---------- *)
Section Loop.
  Variables tol first last : Q.
  Variable pts : list Q.
  Variable g : Q -> Q.
  Hypothesis Htol : 0 <= tol.
  Hypothesis Hsep : forall x y, In x pts -> In y pts -> x == y \/ tol < x - y \/ tol < y - x.
  Hypothesis Hfirst : In first pts.
  Hypothesis Hglow : forall t, t < first -> g t = 0.

  Lemma fill_sfx_ok : forall F o0 ost cs,
    StronglySorted Qlt F -> incl F pts ->
    StronglySorted Qlt (o0 :: ost) -> incl (o0 :: ost) pts ->
    In last (o0 :: ost) -> (forall x, In x (o0 :: ost) -> x <= last) ->
    first <= o0 ->
    (forall t, In t F -> first <= t -> o0 <= t) ->
    (ost = [] -> forall t, In t F -> tol < t - last) ->
    (forall x, In x ost -> exists y, In y F /\ x == y) ->
    ((exists y, In y F /\ y == first) \/ (forall t, In t F -> first <= t)) ->
    length cs = length (o0 :: ost) ->
    nth_error cs (length ost) = Some 0 ->
    (forall t, o0 <= t -> g t = step_fn (o0 :: ost) cs t) ->
    exists res, fill_sfx tol first last (o0 :: ost) cs F = Some res /\ ok_out g F res.
  Proof.
    induction F as [|t rest IH];
      intros o0 ost cs HsF HiF HsO HiO Hlast Hmax Hfo Hge Hend Hcov Hfst Hlen Hzero Hg.
    { exists []. split; [reflexivity|constructor]. }
    assert (Htp : In t pts) by (apply HiF; simpl; auto).
    assert (Hrgt : forall y, In y rest -> t < y) by (apply sorted_tail_gt; auto).
    assert (HsR : StronglySorted Qlt rest) by (eapply sorted_tail; eauto).
    assert (HiR : incl rest pts) by (intros y Hy; apply HiF; simpl; auto).
    assert (Hlp : In last pts) by (apply HiO; auto).
    assert (Ho0last : o0 <= last) by (apply Hmax; simpl; auto).
    cbn [fill_sfx].
    destruct (Qltb tol (first - t)) eqn:Elow.
    - (* before the pulse starts *)
      apply Qltb_true in Elow.
      assert (Htf : t < first) by lra.
      destruct Hfst as [[y [Hy Hyf]]|Hall]; [|specialize (Hall t (or_introl eq_refl)); lra].
      destruct Hy as [Hy|Hy]; [rewrite Hy in Htf; lra|].
      assert (P8 : forall u, In u rest -> first <= u -> o0 <= u)
        by (intros u Hu Hfu; apply Hge; simpl; auto).
      assert (P9 : ost = [] -> forall u, In u rest -> tol < u - last)
        by (intros E u Hu; apply Hend; simpl; auto).
      assert (P10 : forall x, In x ost -> exists z, In z rest /\ x == z).
      { intros x Hx. destruct (Hcov x Hx) as [z [[Hz|Hz] Hxz]]; [|eauto].
        pose proof (sorted_tail_gt _ _ HsO _ Hx). rewrite <- Hz in Hxz. lra. }
      assert (P11 : (exists z, In z rest /\ z == first) \/ (forall u, In u rest -> first <= u))
        by (left; eauto).
      destruct (IH o0 ost cs HsR HiR HsO HiO Hlast Hmax Hfo P8 P9 P10 P11 Hlen Hzero Hg)
        as [res [Hres Hok]].
      exists (0 :: res). rewrite Hres. split; [reflexivity|].
      apply ok_out_cons; auto. intros t2 Ht2 t' H1 H2.
      pose proof (sorted_hd_le _ _ _ HsR Ht2 Hy). symmetry. apply Hglow. lra.
    - apply Qltb_false in Elow.
      assert (Hft : first <= t).
      { destruct (Hsep first t Hfirst Htp) as [H|[H|H]]; lra. }
      assert (Hot : o0 <= t) by (apply Hge; simpl; auto).
      assert (P11 : (exists z, In z rest /\ z == first) \/ (forall u, In u rest -> first <= u)).
      { right. intros u Hu. specialize (Hrgt u Hu). lra. }
      destruct (Qltb tol (t - last)) eqn:Ehigh.
      + (* after the pulse has ended *)
        apply Qltb_true in Ehigh.
        assert (P8 : forall u, In u rest -> first <= u -> o0 <= u)
          by (intros u Hu Hfu; apply Hge; simpl; auto).
        assert (P9 : ost = [] -> forall u, In u rest -> tol < u - last)
          by (intros E u Hu; apply Hend; simpl; auto).
        assert (P10 : forall x, In x ost -> exists z, In z rest /\ x == z).
        { intros x Hx. destruct (Hcov x Hx) as [z [[Hz|Hz] Hxz]]; [|eauto].
          assert (x <= last) by (apply Hmax; simpl; auto). rewrite <- Hz in Hxz. lra. }
        destruct (IH o0 ost cs HsR HiR HsO HiO Hlast Hmax Hfo P8 P9 P10 P11 Hlen Hzero Hg)
          as [res [Hres Hok]].
        exists (0 :: res). rewrite Hres. split; [reflexivity|].
        apply ok_out_cons; auto. intros t2 Ht2 t' H1 H2.
        rewrite Hg by lra. symmetry. apply step_fn_after.
        intros x Hx. specialize (Hmax x Hx). lra.
      + (* inside the pulse *)
        apply Qltb_false in Ehigh.
        assert (Htl : t <= last).
        { destruct (Hsep t last Htp Hlp) as [H|[H|H]]; lra. }
        destruct ost as [|nx ost'].
        { exfalso. specialize (Hend eq_refl t (or_introl eq_refl)). lra. }
        cbn [nth_error].
        assert (Hnxp : In nx pts) by (apply HiO; simpl; auto).
        assert (Ho0nx : o0 < nx) by (apply (sorted_tail_gt _ _ HsO); simpl; auto).
        assert (HsO' : StronglySorted Qlt (nx :: ost')) by (eapply sorted_tail; eauto).
        assert (Hnl : nx <= last) by (apply Hmax; simpl; auto).
        destruct cs as [|c0 cs']; [simpl in Hlen; lia|].
        destruct cs' as [|c1 cs2]; [simpl in Hlen; lia|].
        cbn [nth_error tl].
        destruct (Hcov nx (or_introl eq_refl)) as [ynx [Hynx Enx]].
        destruct (Qle_bool nx (t + tol)) eqn:Eadv.
        * (* the next old grid point is reached: advance *)
          apply Qle_bool_iff in Eadv.
          assert (Hnxt : nx == t).
          { destruct Hynx as [Hy|Hy]; [rewrite <- Hy in Enx; lra|]. specialize (Hrgt _ Hy).
            destruct (Hsep nx t Hnxp Htp) as [H|[H|H]]; lra. }
          assert (P4 : incl (nx :: ost') pts) by (intros x Hx; apply HiO; simpl; auto).
          assert (P5 : In last (nx :: ost')).
          { destruct Hlast as [E|Hl]; [rewrite <- E in Hnl; lra|auto]. }
          assert (P6 : forall x, In x (nx :: ost') -> x <= last)
            by (intros x Hx; apply Hmax; simpl; auto).
          assert (P7 : first <= nx) by lra.
          assert (P8 : forall u, In u rest -> first <= u -> nx <= u)
            by (intros u Hu Hfu; specialize (Hrgt u Hu); lra).
          assert (P9 : ost' = [] -> forall u, In u rest -> tol < u - last).
          { intros E u Hu. subst ost'. specialize (Hrgt u Hu).
            assert (Hln : last == nx).
            { destruct P5 as [E|[]]. rewrite <- E. reflexivity. }
            assert (Hup : In u pts) by (apply HiR; auto).
            destruct (Hsep u last Hup Hlp) as [H|[H|H]]; lra. }
          assert (P10 : forall x, In x ost' -> exists z, In z rest /\ x == z).
          { intros x Hx. destruct (Hcov x (or_intror Hx)) as [z [[Hz|Hz] Hxz]]; [|eauto].
            pose proof (sorted_tail_gt _ _ HsO' _ Hx). rewrite <- Hz in Hxz. lra. }
          assert (P12 : length (c1 :: cs2) = length (nx :: ost')) by (simpl in Hlen |- *; lia).
          assert (P13 : nth_error (c1 :: cs2) (length ost') = Some 0) by exact Hzero.
          assert (P14 : forall u, nx <= u -> g u = step_fn (nx :: ost') (c1 :: cs2) u).
          { intros u Hu. rewrite Hg by lra. apply step_fn_skip. lra. }
          destruct (IH nx ost' (c1 :: cs2) HsR HiR HsO' P4 P5 P6 P7 P8 P9 P10 P11 P12 P13 P14)
            as [res [Hres Hok]].
          exists (c1 :: res). rewrite Hres. split; [reflexivity|].
          apply ok_out_cons; auto. intros t2 Ht2 t' H1 H2.
          rewrite Hg by lra. rewrite step_fn_skip by lra.
          destruct ost' as [|o2 ost2].
          -- cbn [length nth_error] in Hzero. injection Hzero as ->. reflexivity.
          -- destruct cs2 as [|c2 cs3]; [simpl in Hlen; lia|].
             symmetry. apply step_fn_here; [lra|].
             destruct (Hcov o2 (or_intror (or_introl eq_refl))) as [z [[Hz|Hz] Hxz]].
             ++ pose proof (sorted_tail_gt _ _ HsO' o2 (or_introl eq_refl)).
                rewrite <- Hz in Hxz. lra.
             ++ pose proof (sorted_hd_le _ _ _ HsR Ht2 Hz). lra.
        * (* still inside the same old interval *)
          apply Qle_bool_false in Eadv.
          assert (Hynr : In ynx rest).
          { destruct Hynx as [Hy|Hy]; [rewrite <- Hy in Enx; lra|auto]. }
          assert (P8 : forall u, In u rest -> first <= u -> o0 <= u)
            by (intros u Hu Hfu; specialize (Hrgt u Hu); lra).
          assert (P9 : nx :: ost' = [] -> forall u, In u rest -> tol < u - last) by discriminate.
          assert (P10 : forall x, In x (nx :: ost') -> exists z, In z rest /\ x == z).
          { intros x Hx. destruct (Hcov x Hx) as [z [[Hz|Hz] Hxz]]; [|eauto].
            rewrite <- Hz in Hxz.
            destruct Hx as [Hx|Hx]; [rewrite <- Hx in Hxz; lra|].
            pose proof (sorted_tail_gt _ _ HsO' _ Hx). lra. }
          destruct (IH o0 (nx :: ost') (c0 :: c1 :: cs2) HsR HiR HsO HiO Hlast Hmax Hfo
                       P8 P9 P10 P11 Hlen Hzero Hg) as [res [Hres Hok]].
          exists (c0 :: res). rewrite Hres. split; [reflexivity|].
          apply ok_out_cons; auto. intros t2 Ht2 t' H1 H2.
          rewrite Hg by lra. symmetry. apply step_fn_here; [lra|].
          pose proof (sorted_hd_le _ _ _ HsR Ht2 Hynr). lra.
  Qed.
End Loop.
