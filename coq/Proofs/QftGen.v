(* C17, QFT half: GENERAL inductive proof, for ALL N, that the generated circuit (native controlled phases, final
   swaps) is the discrete Fourier transform 2^(-N/2) e^{2 pi i jk/2^N}, global phase included.
   Plan: (1) action of SNOT / CPHASE / SWAP (generated library matrices) on a state; (2) one row = controlled phases
   onto qubits j < k then Hadamard on k; (3) after k rows the state is the k-th partial Fourier sum [Psi k]
   (induction on k; the new bit is the last one, sums re-indexed by [ksum_snoc]; 2 pi-periodicity of cis);
   (4) the swaps reverse the register; (5) the reversed little-endian value is the big-endian index. *)
From Coq Require Import Reals Lra Lia List String FunctionalExtensionality Ring QArith Qreals Bool ZArith.
From Coquelicot Require Import Coquelicot.
From QV Require Import Found.Base Found.Lemmas Found.Table Found.KS Found.KSProofs Found.Sym Found.SymProofs Found.Conj Found.CInst Found.Circ.
From QV Require Import Found.Comm.
From QV Require Import Gen.Gates Gen.SingleQubit Model.SingleQubit Model.Qft Proofs.C17Sem Proofs.QftStruct Proofs.QftSem Proofs.QftDft.
Import ListNotations.
Local Open Scope string_scope.
Local Open Scope list_scope.
Local Open Scope R_scope.

Lemma snot_tab : exists tb, mtab (gmexp "SNOT") = Some tb. Proof. eexists. vm_compute. reflexivity. Qed.
Lemma cphase_tab : exists tb, mtab (gmexp "CPHASE") = Some tb. Proof. eexists. vm_compute. reflexivity. Qed.
Lemma swap_tab : exists tb, mtab (gmexp "SWAP") = Some tb. Proof. eexists. vm_compute. reflexivity. Qed.

Definition sgn (a b : bool) : C := if a && b then Copp (RtoC 1) else RtoC 1.

Lemma inv_sqrt2_C : Cdiv (RtoC 1) (RtoC (sqrt 2)) = RtoC (/ sqrt 2).
Proof. unfold Cdiv. rewrite <- RtoC_inv by apply sqrt2_neq_0. rewrite Cmult_1_l. reflexivity. Qed.

Lemma snot_entry th (a b : bool) : cmat th (gmexp "SNOT") [a] [b] = Cmult (RtoC (/ sqrt 2)) (sgn a b).
Proof.
  destruct snot_tab as [tb E]. rewrite (cmat_mden th _ tb _ _ E) by (destruct a, b; cbn; lia).
  change (gmexp "SNOT") with fn_snot. unfold fn_snot.
  destruct a, b; cbn [idx length Nat.pow Nat.add mden nth CInst.cden]; replace (Q2R (1 # 1)) with 1 by (unfold Q2R; simpl; lra); replace (Q2R (2 # 1)) with 2 by (unfold Q2R; simpl; lra);
    change (Re (RtoC 2)) with 2; rewrite inv_sqrt2_C; unfold sgn; cbn [andb]; apply Ceq; simpl; ring.
Qed.

Definition cphase_m : mexp := MCtrl 1 1 (MLit [[Num (1 # 1); Num (0 # 1)]; [Num (0 # 1); Exp (Mul (Imag (1 # 1)) (Var 0))]]).
Lemma gmexp_cphase : gmexp "CPHASE" = cphase_m. Proof. vm_compute. reflexivity. Qed.

Lemma cden_expi th : CInst.cden th (Exp (Mul (Imag (1 # 1)) (Var 0))) = cis (th 0%nat).
Proof.
  cbn [CInst.cden]. replace (Q2R (1 # 1)) with 1 by (unfold Q2R; simpl; lra).
  replace (Cmult (Cmult Ci (RtoC 1)) (RtoC (th 0%nat))) with (Cmult Ci (RtoC (th 0%nat))) by (apply Ceq; simpl; ring).
  apply Cexp_i.
Qed.

Definition bits_eq (a b c d : bool) : bool := Bool.eqb a c && Bool.eqb b d.
Lemma cphase_entry th (a b c d : bool) :
  cmat th (gmexp "CPHASE") [a; b] [c; d] =
  if bits_eq a b c d then (if a && b then cis (th 0%nat) else RtoC 1) else RtoC 0.
Proof.
  destruct cphase_tab as [tb E]. rewrite (cmat_mden th _ tb _ _ E) by (rewrite gmexp_cphase; destruct a, b, c, d; cbn; lia).
  rewrite gmexp_cphase. unfold cphase_m.
  destruct a, b, c, d; cbn [bits_eq Bool.eqb andb]; cbn; try reflexivity; try exact (cden_expi th);
    try (replace (Q2R (1 # 1)) with 1 by (unfold Q2R; simpl; lra); reflexivity);
    try (replace (Q2R (0 # 1)) with 0 by (unfold Q2R; simpl; lra); reflexivity).
Qed.

Lemma swap_entry th (a b c d : bool) :
  cmat th (gmexp "SWAP") [a; b] [c; d] = if bits_eq a b d c then RtoC 1 else RtoC 0.
Proof.
  destruct swap_tab as [tb E]. rewrite (cmat_mden th _ tb _ _ E) by (destruct a, b, c, d; cbn; lia).
  change (gmexp "SWAP") with fn_swap. unfold fn_swap.
  destruct a, b, c, d; cbn [bits_eq Bool.eqb andb]; cbn;
    try (replace (Q2R (1 # 1)) with 1 by (unfold Q2R; simpl; lra); reflexivity);
    try (replace (Q2R (0 # 1)) with 0 by (unfold Q2R; simpl; lra); reflexivity).
Qed.

(* ---- action of the three native gates on a state ---- *)
Ltac cnorm := match goal with |- @eq _ ?a ?b => change (@eq C a b) end; cbn [kmul kadd k0 k1 ksub kopp Cops K].
Ltac cabs := repeat match goal with |- context [?f ?y] =>
  match type of (f y) with K Cops => let v := fresh "v" in set (v := (f y : C)) in *; clearbody v end end.
Ltac cr := cnorm; cabs; ring.

Lemma upd_same2 (x : asg) i j a b : x i = a -> x j = b -> upd x [i; j] [a; b] = x.
Proof.
  intros Ha Hb. apply functional_extensionality; intro k. unfold upd. cbn [lookup].
  destruct (Nat.eqb_spec k i) as [->|_]; [symmetry; exact Ha|].
  destruct (Nat.eqb_spec k j) as [->|_]; [symmetry; exact Hb| reflexivity].
Qed.

Lemma snot_act i a (psi : state Cops) x :
  Base.app (fst (qden (QG "SNOT" [i] [] a))) (snd (qden (QG "SNOT" [i] [] a))) psi x =
  Cmult (RtoC (/ sqrt 2)) (Cplus (psi (upd x [i] [false])) (Cmult (sgn (x i) true) (psi (upd x [i] [true])))).
Proof.
  unfold qden. cbn [fst snd gname garg gtargets gcontrols]. change (gqubits (QG "SNOT" [i] [] a)) with [i].
  unfold Base.app. cbn [length all_bits map List.app ksum]. rewrite !snot_entry. cnorm.
  unfold sgn. destruct (x i); cbn [andb]; ring.
Qed.

Lemma cphase_act i j a (psi : state Cops) x : i <> j ->
  Base.app (fst (qden (QG "CPHASE" [j] [i] (Some a)))) (snd (qden (QG "CPHASE" [j] [i] (Some a)))) psi x =
  Cmult (if x i && x j then cis (aval a) else RtoC 1) (psi x).
Proof.
  intros Hij. unfold qden. cbn [fst snd gname garg gtargets gcontrols oval].
  change (gqubits (QG "CPHASE" [j] [i] (Some a))) with [i; j].
  unfold Base.app. cbn [length all_bits map List.app ksum]. rewrite !cphase_entry. cnorm. cbn [th1].
  destruct (x i) eqn:Ei, (x j) eqn:Ej; cbn [bits_eq Bool.eqb andb];
    rewrite (upd_same2 x i j _ _ Ei Ej); ring.
Qed.

Definition swap_asg (x : asg) (a b : nat) : asg := upd x [a; b] [x b; x a].

Lemma swap_act a b (psi : state Cops) x : a <> b ->
  Base.app (fst (qden (QG "SWAP" [a; b] [] None))) (snd (qden (QG "SWAP" [a; b] [] None))) psi x = psi (swap_asg x a b).
Proof.
  intros Hab. unfold qden. cbn [fst snd gname garg gtargets gcontrols oval].
  change (gqubits (QG "SWAP" [a; b] [] None)) with [a; b].
  unfold Base.app, swap_asg. cbn [length all_bits map List.app ksum]. rewrite !swap_entry. cnorm.
  destruct (x a), (x b); cbn [bits_eq Bool.eqb andb]; ring.
Qed.

(* ---- one row: controlled phases from qubit k onto qubits j < k, then Hadamard on k ---- *)
(* little-endian value of the first k bits of x *)
Fixpoint Aval (k : nat) (x : asg) : R := match k with O => 0 | S k' => Aval k' x + (if x k' then 2 ^ k' else 0) end.

Lemma Aval_ext k (x z : asg) : (forall j, (j < k)%nat -> x j = z j) -> Aval k x = Aval k z.
Proof.
  induction k as [|k IH]; intros H; [reflexivity|]. cbn [Aval]. rewrite IH by (intros; apply H; lia).
  rewrite (H k) by lia. reflexivity.
Qed.

Lemma upd1_other (x : asg) k b j : j <> k -> upd x [k] [b] j = x j.
Proof. intros H. unfold upd. cbn [lookup]. destruct (Nat.eqb_spec j k); [contradiction| reflexivity]. Qed.
Lemma upd1_same (x : asg) k b : upd x [k] [b] k = b.
Proof. unfold upd. cbn [lookup]. rewrite Nat.eqb_refl. reflexivity. Qed.

Definition cps (k m : nat) : list qg := flat_map (cgate false k) (seq 0 m).

Lemma cps_act k m (psi : state Cops) : (m <= k)%nat -> forall x,
  sem (map qden (cps k m)) psi x = Cmult (if x k then cis (PI * Aval m x / 2 ^ k) else RtoC 1) (psi x).
Proof.
  induction m as [|m IH]; intros Hm x.
  - cbn [cps seq flat_map map sem fold_left Aval]. replace (PI * 0 / 2 ^ k) with 0 by (unfold Rdiv; ring).
    rewrite cis_0. destruct (x k); cr.
  - unfold cps. rewrite seq_S, flat_map_app, map_app, (Lemmas.sem_app Cops). cbn [plus flat_map cgate List.app map].
    rewrite sem_cons. cbn [sem fold_left]. rewrite cphase_act by lia. fold (cps k m). rewrite IH by lia.
    cbn [Aval]. unfold qft_angle, aval. cbn [anum aexp].
    pose proof (pow2_pos k). pose proof (pow2_pos m). pose proof (pow2_pos (k - m)).
    assert (E : 2 ^ k = 2 ^ (k - m) * 2 ^ m) by (rewrite <- pow_add; f_equal; lia).
    change (0 + m)%nat with m. destruct (x k), (x m); cbn [andb].
    + replace (PI * (Aval m x + 2 ^ m) / 2 ^ k) with (1 * PI / 2 ^ (k - m) + PI * Aval m x / 2 ^ k)
        by (rewrite E; field; split; lra).
      rewrite cis_add. cr.
    + replace (Aval m x + 0) with (Aval m x) by ring. cr.
    + cr.
    + cr.
Qed.

Lemma row_act k (psi : state Cops) x :
  sem (map qden (qft_row false k)) psi x =
  Cmult (RtoC (/ sqrt 2))
    (Cplus (psi (upd x [k] [false]))
           (Cmult (Cmult (sgn (x k) true) (cis (PI * Aval k x / 2 ^ k))) (psi (upd x [k] [true])))).
Proof.
  unfold qft_row. rewrite map_app, (Lemmas.sem_app Cops). cbn [map]. rewrite sem_cons. cbn [sem fold_left].
  rewrite snot_act. fold (cps k k). rewrite !cps_act by lia. rewrite !upd1_same.
  rewrite (Aval_ext k (upd x [k] [true]) x) by (intros j Hj; apply upd1_other; lia).
  cr.
Qed.

(* ---- all rows: the partial Fourier sums ---- *)
Lemma ksum_snoc k : forall f : list bool -> C,
  @ksum Cops (map f (all_bits (S k))) =
  Cplus (@ksum Cops (map (fun y => f (y ++ [false])) (all_bits k))) (@ksum Cops (map (fun y => f (y ++ [true])) (all_bits k))).
Proof.
  induction k as [|k IH]; intros f.
  - cbn [all_bits map List.app ksum]. cnorm. ring.
  - change (all_bits (S (S k))) with (map (cons false) (all_bits (S k)) ++ map (cons true) (all_bits (S k))).
    rewrite map_app, (Lemmas.ksum_app Cops Cops_ring), !map_map.
    rewrite (IH (fun y => f (false :: y))), (IH (fun y => f (true :: y))).
    change (all_bits (S k)) with (map (cons false) (all_bits k) ++ map (cons true) (all_bits k)).
    rewrite !map_app, !(Lemmas.ksum_app Cops Cops_ring), !map_map. cbn [List.app]. cnorm. ring.
Qed.

Lemma idx_snoc y b : idx (y ++ [b]) = (2 * idx y + (if b then 1 else 0))%nat.
Proof.
  induction y as [|c y IH]; [destruct b; reflexivity|].
  cbn [List.app idx]. rewrite IH, app_length. cbn [length]. rewrite Nat.add_1_r. cbn [Nat.pow]. destruct c; lia.
Qed.

Lemma lookup_app j ts ts' : forall y y', length ts = length y ->
  lookup j (ts ++ ts') (y ++ y') = match lookup j ts y with Some b => Some b | None => lookup j ts' y' end.
Proof.
  induction ts as [|t ts IH]; intros [|c y] y' H; try discriminate; [reflexivity|].
  cbn [List.app lookup]. destruct (Nat.eqb j t); [reflexivity|]. apply IH. simpl in H. lia.
Qed.

Lemma upd_snoc (x : asg) k y b : length y = k -> upd x (seq 0 (S k)) (y ++ [b]) = upd (upd x [k] [b]) (seq 0 k) y.
Proof.
  intros Hy. apply functional_extensionality; intro j. unfold upd. rewrite seq_S, lookup_app by (rewrite seq_length; lia).
  cbn [plus]. destruct (lookup j (seq 0 k) y); reflexivity.
Qed.

Definition Psi (k : nat) (psi : state Cops) : state Cops := fun x =>
  Cmult (RtoC ((/ sqrt 2) ^ k))
    (@ksum Cops (map (fun y => Cmult (cis (2 * PI * Aval k x * INR (idx y) / 2 ^ k)) (psi (upd x (seq 0 k) y))) (all_bits k))).

Lemma cis_2nPI a (n : nat) : cis (a + INR n * (2 * PI)) = cis a.
Proof. rewrite INR_IZR_INZ. apply cis_period. Qed.

Lemma phaseF k (A : R) (xk : bool) (n : nat) :
  cis (2 * PI * (A + (if xk then 2 ^ k else 0)) * INR (2 * n + 0) / 2 ^ S k) = cis (2 * PI * A * INR n / 2 ^ k).
Proof.
  pose proof (pow2_pos k). rewrite Nat.add_0_r, mult_INR. change (INR 2) with 2. cbn [pow]. destruct xk.
  - rewrite <- (cis_2nPI (2 * PI * A * INR n / 2 ^ k) n). f_equal. field. lra.
  - f_equal. field. lra.
Qed.

Lemma phaseT k (A : R) (xk : bool) (n : nat) :
  cis (2 * PI * (A + (if xk then 2 ^ k else 0)) * INR (2 * n + 1) / 2 ^ S k) =
  Cmult (Cmult (sgn xk true) (cis (PI * A / 2 ^ k))) (cis (2 * PI * A * INR n / 2 ^ k)).
Proof.
  pose proof (pow2_pos k). rewrite plus_INR, mult_INR. change (INR 2) with 2. change (INR 1) with 1. cbn [pow]. destruct xk; unfold sgn; cbn [andb].
  - replace (2 * PI * (A + 2 ^ k) * (2 * INR n + 1) / (2 * 2 ^ k))
      with ((PI + (PI * A / 2 ^ k + 2 * PI * A * INR n / 2 ^ k)) + INR n * (2 * PI)) by (field; lra).
    rewrite cis_2nPI, !cis_add, cis_PI. ring.
  - replace (2 * PI * (A + 0) * (2 * INR n + 1) / (2 * 2 ^ k))
      with (PI * A / 2 ^ k + 2 * PI * A * INR n / 2 ^ k) by (field; lra).
    rewrite cis_add. ring.
Qed.

Lemma rows_act k : forall (psi : state Cops) x,
  sem (map qden (flat_map (qft_row false) (seq 0 k))) psi x = Psi k psi x.
Proof.
  induction k as [|k IH]; intros psi x.
  - cbn [seq flat_map map sem fold_left]. unfold Psi. cbn [all_bits map ksum seq pow idx]. rewrite upd_nil.
    replace (2 * PI * Aval 0 x * INR 0 / 1) with 0 by (cbn [INR]; unfold Rdiv; ring). rewrite cis_0. cr.
  - rewrite seq_S, flat_map_app, map_app, (Lemmas.sem_app Cops). cbn [plus flat_map]. rewrite app_nil_r. change (0 + k)%nat with k.
    replace (sem (map qden (flat_map (qft_row false) (seq 0 k))) psi) with (Psi k psi)
      by (apply functional_extensionality; intro z; symmetry; apply IH).
    rewrite row_act. unfold Psi at 3. rewrite ksum_snoc.
    assert (EF : @ksum Cops (map (fun y => Cmult (cis (2 * PI * Aval (S k) x * INR (idx (y ++ [false])) / 2 ^ S k))
                                               (psi (upd x (seq 0 (S k)) (y ++ [false])))) (all_bits k))
               = @ksum Cops (map (fun y => Cmult (cis (2 * PI * Aval k x * INR (idx y) / 2 ^ k))
                                               (psi (upd (upd x [k] [false]) (seq 0 k) y))) (all_bits k))).
    { apply (Lemmas.ksum_map_ext Cops). intros y Hy. apply Lemmas.all_bits_length in Hy.
      rewrite idx_snoc, (upd_snoc x k y false Hy). cbn [Aval]. rewrite phaseF. reflexivity. }
    assert (ET : @ksum Cops (map (fun y => Cmult (cis (2 * PI * Aval (S k) x * INR (idx (y ++ [true])) / 2 ^ S k))
                                               (psi (upd x (seq 0 (S k)) (y ++ [true])))) (all_bits k))
               = Cmult (Cmult (sgn (x k) true) (cis (PI * Aval k x / 2 ^ k)))
                   (@ksum Cops (map (fun y => Cmult (cis (2 * PI * Aval k x * INR (idx y) / 2 ^ k))
                                               (psi (upd (upd x [k] [true]) (seq 0 k) y))) (all_bits k)))).
    { rewrite (Lemmas.ksum_scale Cops Cops_ring), map_map. apply (Lemmas.ksum_map_ext Cops). intros y Hy.
      apply Lemmas.all_bits_length in Hy.
      rewrite idx_snoc, (upd_snoc x k y true Hy). cbn [Aval]. rewrite phaseT. cr. }
    rewrite EF, ET. unfold Psi.
    rewrite !(Aval_ext k (upd x [k] [false]) x), !(Aval_ext k (upd x [k] [true]) x) by (intros j Hj; apply upd1_other; lia).
    cbn [pow]. rewrite RtoC_mult. cr.
Qed.

(* ---- the final swaps reverse the qubit order ---- *)
Definition rev_part (N m : nat) (x : asg) : asg :=
  fun k => if (Nat.ltb k m || (Nat.leb (N - m) k && Nat.ltb k N))%bool then x (N - 1 - k)%nat else x k.
Definition rev_full (N : nat) (x : asg) : asg := fun k => if Nat.ltb k N then x (N - 1 - k)%nat else x k.

Ltac brk := repeat match goal with
  | |- context [Nat.ltb ?a ?b] => destruct (Nat.ltb_spec a b)
  | |- context [Nat.leb ?a ?b] => destruct (Nat.leb_spec a b)
  | |- context [Nat.eqb ?a ?b] => destruct (Nat.eqb_spec a b)
  end; cbn [orb andb].

Lemma rev_part_step N m (x : asg) : (2 * m + 2 <= N)%nat ->
  rev_part N m (swap_asg x (N - m - 1) m) = rev_part N (S m) x.
Proof.
  intros H. apply functional_extensionality; intro k. unfold rev_part, swap_asg, upd. cbn [lookup].
  brk; try lia; try reflexivity; try (f_equal; lia).
Qed.

Lemma swaps_act N : forall m (psi : state Cops) x, (2 * m <= N)%nat ->
  sem (map qden (map (fun i => QG "SWAP" [N - i - 1; i]%nat [] None) (seq 0 m))) psi x = psi (rev_part N m x).
Proof.
  induction m as [|m IH]; intros psi x Hm.
  - cbn [seq map sem fold_left]. f_equal. apply functional_extensionality; intro k. unfold rev_part. brk; try lia; reflexivity.
  - rewrite seq_S, !map_app, (Lemmas.sem_app Cops). cbn [plus map]. rewrite sem_cons. cbn [sem fold_left].
    rewrite swap_act by lia. rewrite IH by lia. f_equal. apply rev_part_step. lia.
Qed.

Lemma rev_part_full N (x : asg) : rev_part N (N / 2) x = rev_full N x.
Proof.
  apply functional_extensionality; intro k. unfold rev_part, rev_full.
  pose proof (Nat.div_mod N 2 ltac:(lia)) as D. pose proof (Nat.mod_upper_bound N 2 ltac:(lia)) as B.
  brk; try lia; try reflexivity; f_equal; lia.
Qed.

(* ---- arithmetic of the reversed register ---- *)
Lemma Aval_shift N : forall (x : asg) s, Aval N (fun k => x (s + N - 1 - k)%nat) = INR (idx (map x (seq s N))).
Proof.
  induction N as [|N IH]; intros x s; [reflexivity|].
  cbn [Aval seq map idx]. rewrite map_length, seq_length, plus_INR.
  replace (s + S N - 1 - N)%nat with s by lia.
  rewrite (Aval_ext N _ (fun k => x (S s + N - 1 - k)%nat)) by (intros j Hj; f_equal; lia).
  rewrite IH. destruct (x s); [rewrite pow_INR; change (INR 2) with 2|]; cbn [INR]; ring.
Qed.

Lemma Aval_rev N (x : asg) : Aval N (rev_full N x) = INR (idx (map x (seq 0 N))).
Proof.
  rewrite <- Aval_shift. apply Aval_ext. intros j Hj. unfold rev_full.
  destruct (Nat.ltb_spec j N); [f_equal; lia| lia].
Qed.

Lemma upd_full N (z x : asg) y : (forall k, (N <= k)%nat -> z k = x k) -> length y = N ->
  upd z (seq 0 N) y = upd x (seq 0 N) y.
Proof.
  intros Hz Hy. apply functional_extensionality; intro j. unfold upd.
  destruct (Nat.lt_ge_cases j N) as [L|L].
  - destruct (lookup_len_some j (seq 0 N) y) as [b Eb]; [rewrite seq_length; exact Hy| apply in_seq; lia|]. rewrite Eb. reflexivity.
  - rewrite lookup_notin by (rewrite in_seq; lia). apply Hz. exact L.
Qed.

(* ---- ALL N: native circuit with the final swaps = DFT ---- *)
Lemma body_general N : (1 <= N)%nat -> qft_body N true false = flat_map (qft_row false) (seq 0 N) ++ qft_swaps N.
Proof.
  intros H. unfold qft_body. destruct (Nat.eqb_spec N 1) as [->|_]; reflexivity.
Qed.

(* the DFT matrix applied on qubits 0..N-1 is the N-th partial Fourier sum read at the reversed register *)
Lemma dft_is_Psi N (psi : state Cops) x : sem [(dftC N, seq 0 N)] psi x = Psi N psi (rev_full N x).
Proof.
  unfold Psi. rewrite sem_cons. cbn [sem fold_left fst snd]. unfold Base.app.
  rewrite seq_length. rewrite (Lemmas.ksum_scale Cops Cops_ring), map_map.
  apply (Lemmas.ksum_map_ext Cops). intros y Hy. apply Lemmas.all_bits_length in Hy.
  rewrite (upd_full N (rev_full N x) x y); [| intros k Hk; unfold rev_full; destruct (Nat.ltb_spec k N); [lia| reflexivity] | exact Hy].
  rewrite Aval_rev. unfold dftC. rewrite mult_INR.
  replace (2 * PI * INR (idx (map x (seq 0 N))) * INR (idx y) / 2 ^ N)
    with (2 * PI * (INR (idx (map x (seq 0 N))) * INR (idx y)) / 2 ^ N) by (unfold Rdiv; ring).
  cr.
Qed.

Lemma rev_full_invol N (x : asg) : rev_full N (rev_full N x) = x.
Proof.
  apply functional_extensionality; intro k. unfold rev_full. brk; try lia; try reflexivity. f_equal. lia.
Qed.

(* ALL N: native controlled phases + final swaps = the DFT matrix, global phase included *)
Theorem qft_is_dft_all N l : qft_gate_sequence N true false = Some l -> sem (map qden l) = sem [(dftC N, seq 0 N)].
Proof.
  intros H. apply qft_gate_sequence_inv in H. destruct H as [HN ->]. rewrite body_general by exact HN.
  apply functional_extensionality; intro psi. apply functional_extensionality; intro x.
  rewrite map_app, (Lemmas.sem_app Cops). unfold qft_swaps.
  rewrite swaps_act by (pose proof (Nat.div_mod N 2 ltac:(lia)); lia).
  rewrite rev_part_full, rows_act, dft_is_Psi. reflexivity.
Qed.

(* ALL N, swapping = False: the same DFT read at the bit-reversed output register *)
Lemma body_noswap N : (1 <= N)%nat -> qft_body N false false = flat_map (qft_row false) (seq 0 N).
Proof.
  intros H. unfold qft_body. destruct (Nat.eqb_spec N 1) as [->|_]; [reflexivity| apply app_nil_r].
Qed.

Theorem qft_noswap_is_reversed_dft N l : qft_gate_sequence N false false = Some l ->
  forall psi x, sem (map qden l) psi x = sem [(dftC N, seq 0 N)] psi (rev_full N x).
Proof.
  intros H psi x. apply qft_gate_sequence_inv in H. destruct H as [HN ->]. rewrite body_noswap by exact HN.
  rewrite rows_act, dft_is_Psi, rev_full_invol. reflexivity.
Qed.

(* ALL N: the CNOT-expanded circuit with swaps is the DFT up to the global phase e^{i exp_angle} *)
Theorem qft_cnot_is_dft_all N lt lf :
  qft_gate_sequence N true true = Some lt -> qft_gate_sequence N true false = Some lf ->
  forall psi, sem (map qden lt) psi = sscale (cis (exp_angle lf)) (sem [(dftC N, seq 0 N)] psi).
Proof.
  intros Ht Hf psi. rewrite (to_cnot_upto_phase N true lt lf Ht Hf), (qft_is_dft_all N lf Hf). reflexivity.
Qed.
