(* C10: what the exporter emits for each exportable gate denotes the gate (standard semantics, up to an explicit
   global phase) and re-imports to the gate (importer model); non-exportable operations are refused. *)
From QV Require Import Model.QasmImport Model.QasmExport Spec.QasmStrict Spec.QasmSem Found.Circ Gen.Gates Gen.Qasm Proofs.QasmShortcut.
Local Open Scope string_scope.
Local Open Scope nat_scope.
Local Open Scope list_scope.

(* ---------------------------------------------------------------- refusals *)
Lemma omap_none_in {X Y} (f : X -> option Y) l x : In x l -> f x = None -> omap f l = None.
Proof.
  induction l as [|a l IH]; intros Hin Hx; [destruct Hin|]. simpl. destruct Hin as [<-|Hin].
  - rewrite Hx. reflexivity.
  - rewrite (IH Hin Hx). destruct (f a); reflexivity.
Qed.

Lemma export_none_op c o : In o (e_ops c) -> (forall map, op_text map o = None) -> export c = None.
Proof.
  intros Hin Hn. unfold export, export_lines. destruct (defs_pass export_names (e_ops c)) as [[map defs]|]; [|reflexivity].
  rewrite (omap_none_in (op_text map) (e_ops c) o Hin (Hn map)). reflexivity.
Qed.

Theorem refuses_classical_control c n t ct a : In (EGate n t ct a true) (e_ops c) -> export c = None.
Proof.
  intros H. apply (export_none_op c _ H). intros map. simpl. destruct (sassoc n map) as [[|? ?]|]; reflexivity.
Qed.
Theorem refuses_unstored_measurement c t : In (EMeas t None) (e_ops c) -> export c = None.
Proof. intros H. apply (export_none_op c _ H). reflexivity. Qed.

Lemma sassoc_cons_ne {X} n k (v : X) l : String.eqb n k = false -> sassoc n ((k, v) :: l) = sassoc n l.
Proof. intros H. simpl. rewrite H. reflexivity. Qed.

Lemma defs_pass_unknown n : sassoc n export_defns = None -> forall ops map t ct a cc,
  sassoc n map = None -> In (EGate n t ct a cc) ops -> defs_pass map ops = None.
Proof.
  intros Hd ops. induction ops as [|o ops IH]; intros map t ct a cc Hm Hin; [destruct Hin|].
  destruct Hin as [->|Hin].
  - cbn [defs_pass]. rewrite Hm, Hd. reflexivity.
  - destruct o as [n' t' ct' a' cc'|t' s']; cbn [defs_pass].
    + destruct (sassoc n' map) eqn:E1; [eapply IH; eauto|].
      destruct (sassoc n' export_defns) eqn:E2; [|reflexivity].
      assert (Hne : String.eqb n n' = false).
      { destruct (String.eqb n n') eqn:E; [|reflexivity]. apply String.eqb_eq in E. subst. rewrite Hd in E2. discriminate. }
      rewrite (IH ((n', lower n') :: map) t ct a cc); [reflexivity| |exact Hin].
      rewrite sassoc_cons_ne by exact Hne. exact Hm.
    + eapply IH; eauto.
Qed.
(* a gate that has neither a qelib1 counterpart nor a hand-written definition: the whole export is refused *)
Theorem refuses_nonexportable c n t ct a cc :
  sassoc n export_names = None -> sassoc n export_defns = None -> In (EGate n t ct a cc) (e_ops c) -> export c = None.
Proof.
  intros H1 H2 Hin. unfold export, export_lines. rewrite (defs_pass_unknown n H2 (e_ops c) export_names t ct a cc H1 Hin). reflexivity.
Qed.
Lemma nonfinite_number b : qasm_number (NFloat (FInf b)) = None /\ qasm_number (NFloat FNan) = None.
Proof. split; reflexivity. Qed.

(* ---------------------------------------------------------------- what an exported statement denotes *)
(* the gates of the library that can be exported, with the name they are exported under *)
Definition exportable : list (string * string) := export_names ++ map (fun p => (fst p, lower (fst p))) export_defns.
(* definitions available to the exported statement: the emitted definition (if any) on top of qelib1 *)
Definition defn_of (g : string) : option (option (string * gdef)) :=
  match sassoc g export_defns with
  | None => Some None
  | Some text => match parse_defn text with Some (GDef n d) => Some (Some (n, d)) | _ => None end
  end.
Definition qsig (g q : string) : option (nat * nat) :=
  match defn_of g with
  | Some (Some (n, d)) => if String.eqb n q then Some (length (gd_params d), length (gd_qubits d)) else None
  | Some None => sassoc q lib_sigs
  | None => None end.
(* standard meaning of  q(Var 0, ..) 0,1,..  *)
Definition std_stmt (g q : string) : option scirc :=
  match defn_of g, qsig g q with
  | Some dn, Some (np, nq) =>
      let G := match dn with Some nd => nd :: qelib1_env | None => qelib1_env end in
      match expand ExAlg builtin_sigs G q (map Var (seq 0 np)) (seq 0 nq) with
      | Some ls => omap leaf_sgate ls
      | None => None end
  | _, _ => None end.
(* what the importer model makes of the same statement *)
Definition imp_stmt (g q : string) : option scirc :=
  match defn_of g, qsig g q with
  | Some None, Some _ => imp_sym q
  | Some (Some (n, d)), Some (np, nq) =>
      match init_gates sig0 [] [GDef n d] with
      | Some (_, Gi) => match custom ExAlg Gi q (map Var (seq 0 np)) (seq 0 nq) with
                        | Some gs => omap igate_sgate gs
                        | None => None end
      | None => None end
  | _, _ => None end.
(* the gate itself: matrix by name, parameters Var 0.., qubits controls ++ targets = 0,1,.. *)
Definition gate_sym (g q : string) : option scirc :=
  match nat_mat g, qsig g q with
  | Some m, Some (np, nq) => Some [(m, seq 0 nq)]
  | _, _ => None end.

(* gate = e^{i a} . standard meaning of the exported statement *)
Definition std_phase (g : string) : option ex :=
  sassoc g [("X", Div Pi (Num 2)); ("Y", Div Pi (Num 2)); ("Z", Div Pi (Num 2)); ("SNOT", Div Pi (Num 2));
            ("S", Div Pi (Num 4)); ("T", Div Pi (Num 8)); ("TOFFOLI", Mul (Num (-7 # 8)) Pi);
            ("SQRTNOT", Mul (Num (5 # 4)) Pi); ("CS", Div Pi (Num 8)); ("CT", Div Pi (Num 16))].
(* gate = e^{i a} . re-imported gates *)
Definition imp_phase (g : string) : option ex := sassoc g [("SQRTNOT", Div Pi (Num 4))].
Definition with_phase (a : option ex) (c : scirc) : scirc := match a with Some e => phase_gate e :: c | None => c end.

Definition denotes_chk (p : string * string) : bool :=
  match qsig (fst p) (snd p), gate_sym (fst p) (snd p), std_stmt (fst p) (snd p) with
  | Some (_, nq), Some c1, Some c2 => scirc_eqb nq c1 (with_phase (std_phase (fst p)) c2)
  | _, _, _ => false end.
Definition roundtrip_chk (p : string * string) : bool :=
  match qsig (fst p) (snd p), gate_sym (fst p) (snd p), imp_stmt (fst p) (snd p) with
  | Some (_, nq), Some c1, Some c2 => scirc_eqb nq c1 (with_phase (imp_phase (fst p)) c2)
  | _, _, _ => false end.
Lemma chk_denotes_true : forallb denotes_chk exportable = true. Proof. vm_compute. reflexivity. Qed.
Lemma chk_roundtrip_true : forallb roundtrip_chk exportable = true. Proof. vm_compute. reflexivity. Qed.
(* every emitted definition is accepted by the strict reader and is well-formed on top of qelib1 *)
Definition defn_chk (p : string * string) : bool :=
  match parse_defn (snd p) with
  | Some (GDef n d) => String.eqb n (lower (fst p)) && wf_gates lib_sigs [GDef n d] && snodup (gd_params d) && snodup (gd_qubits d)
  | _ => false end.
Lemma chk_defns_true : forallb defn_chk export_defns = true. Proof. vm_compute. reflexivity. Qed.

Theorem denotes_sem (R : PhaseRing) (A : atoms R) g q np nq c1 c2 ts :
  In (g, q) exportable -> qsig g q = Some (np, nq) -> gate_sym g q = Some c1 -> std_stmt g q = Some c2 ->
  NoDup ts -> length ts = nq ->
  sem (place ts (map (gden R A) c1)) = sem (place ts (map (gden R A) (with_phase (std_phase g) c2))).
Proof.
  intros Hin Hs H1 H2 Hnd Hlen. pose proof chk_denotes_true as C. rewrite forallb_forall in C.
  specialize (C (g, q) Hin). unfold denotes_chk in C. cbn [fst snd] in C. rewrite Hs, H1, H2 in C.
  apply rule_sound with (k := nq); assumption.
Qed.
Theorem roundtrip_sem (R : PhaseRing) (A : atoms R) g q np nq c1 c2 ts :
  In (g, q) exportable -> qsig g q = Some (np, nq) -> gate_sym g q = Some c1 -> imp_stmt g q = Some c2 ->
  NoDup ts -> length ts = nq ->
  sem (place ts (map (gden R A) c1)) = sem (place ts (map (gden R A) (with_phase (imp_phase g) c2))).
Proof.
  intros Hin Hs H1 H2 Hnd Hlen. pose proof chk_roundtrip_true as C. rewrite forallb_forall in C.
  specialize (C (g, q) Hin). unfold roundtrip_chk in C. cbn [fst snd] in C. rewrite Hs, H1, H2 in C.
  apply rule_sound with (k := nq); assumption.
Qed.

(* ---------------------------------------------------------------- formatting of the unchanged code: refuted *)
Definition accepted (s : string) : bool :=
  match strict_parse ("OPENQASM 2.0; include ""qelib1.inc""; qreg q[2]; creg c[2]; " ++ s)%string with
  | Some p => wf lib_sigs p | None => false end.
(* rx with angle 0.0 loses its parameter; 1e-09 is not a real; a tuple prints with its parentheses *)
Theorem format_unfixed_refuted :
  (exists t, qasm_str_unfixed "rx" [] [0] (PNum (NFloat (FDec false "0" "0"))) = Some t /\ accepted t = false) /\
  (exists t, qasm_str_unfixed "rx" [] [0] (PNum (NFloat (FExp false "1" None true "09"))) = Some t /\ accepted t = false) /\
  (exists t, qasm_str_unfixed "U" [] [0] (PTuple [NFloat (FDec false "1" "0"); NFloat (FDec false "2" "0"); NInt false 3]) = Some t /\ accepted t = false).
Proof.
  split; [|split].
  - eexists; split; [vm_compute; reflexivity|]. vm_compute. reflexivity.
  - eexists; split; [vm_compute; reflexivity|]. vm_compute. reflexivity.
  - eexists; split; [vm_compute; reflexivity|]. vm_compute. reflexivity.
Qed.
(* CURRENT code (kept: the missing ';' is pinned by the repository's own test): a circuit with a measurement is exported to
   a text the strict reader does not accept; the same circuit without the measurement is accepted *)
Definition strict_ok (c : QV.Model.QasmExport.ecirc) : option bool :=
  match export c with
  | Some t => Some (match strict_parse t with Some p => wf lib_sigs p | None => false end)
  | None => None end.
Theorem valid_measure_refuted : exists c, no_meas c = false /\ strict_ok c = Some false.
Proof. exists (mkEC 2 1 [EGate "X" [0] [] PNone false; EMeas 1 (Some 0)]). split; vm_compute; reflexivity. Qed.
Example valid_without_measure : no_meas (mkEC 2 1 [EGate "X" [0] [] PNone false]) = true /\
  strict_ok (mkEC 2 1 [EGate "X" [0] [] PNone false]) = Some true.
Proof. split; vm_compute; reflexivity. Qed.
(* the measure line is the only obstacle: with the ';' the statement is accepted *)
Example measure_line_with_semicolon : accepted (meas_text 1 0) = false /\ accepted (meas_text 1 0 ++ ";")%string = true.
Proof. split; vm_compute; reflexivity. Qed.
(* the same values through the fixed formatting are accepted *)
Example format_fixed_ok :
  (exists t, qasm_str "rx" [] [0] (PNum (NFloat (FDec false "0" "0"))) = Some t /\ accepted t = true) /\
  (exists t, qasm_str "rx" [] [0] (PNum (NFloat (FExp false "1" None true "09"))) = Some t /\ accepted t = true) /\
  (exists t, qasm_str "U" [] [0] (PTuple [NFloat (FDec false "1" "0"); NFloat (FDec false "2" "0"); NInt false 3]) = Some t /\ accepted t = true).
Proof. split; [|split]; (eexists; split; [vm_compute; reflexivity|]; vm_compute; reflexivity). Qed.
