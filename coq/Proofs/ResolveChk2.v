(* C03: semantic obligations (every canonical basis configuration) for the gate kinds of slice 2 *)
From QV Require Import Model.Resolve Proofs.ResolveChkDefs.
Lemma chk_sem_2 : obls_ok (kslice 2) = true.
Proof. vm_compute. reflexivity. Qed.
