(* C03: semantic obligations for basis configurations 128 .. 191 of all_cfgs (20 gate kinds each) *)
From QV Require Import Model.Resolve Proofs.ResolveChkDefs.
Lemma chk_sem_2 : sem_ok (slice 2) = true.
Proof. vm_compute. reflexivity. Qed.
