(* C17: generic facts about the complex-number semantics (Found/CInst.v) used by both halves:
   substitution of parameters, matrices of gates at real angles, extensionality of [sem], scalars (global phases). *)
From Coq Require Import Reals Lra Lia List String FunctionalExtensionality Ring QArith Qreals.
From Coquelicot Require Import Coquelicot.
From QV Require Import Found.Base Found.Lemmas Found.Table Found.KS Found.KSProofs Found.Sym Found.SymProofs Found.Conj Found.CInst.
Import ListNotations.
Local Open Scope R_scope.

(* ---- (1) substitution: evaluating a substituted expression = evaluating at the substituted values ---- *)
Section Subst.
Variables (th th' : nat -> R) (env : list ex).
Hypothesis Henv : forall j, cden th (nth j env (Var j)) = RtoC (th' j).

Lemma cden_subst e : cden th (subst env e) = cden th' e.
Proof.
  induction e; cbn [subst cden]; try reflexivity; try (rewrite ?IHe, ?IHe1, ?IHe2; reflexivity).
  apply Henv.
Qed.

Lemma mdim_msubst m : mdim (msubst env m) = mdim m.
Proof.
  induction m as [rows|a IHa b IHb|e a IHa|nc cv a IHa]; cbn [msubst mdim]; auto.
  apply map_length.
Qed.

Lemma mden_msubst m : forall i j, mden th (msubst env m) i j = mden th' m i j.
Proof.
  induction m as [rows|a IHa b IHb|e a IHa|nc cv a IHa]; intros i j; cbn [msubst mden].
  - change (@nil ex) with (map (subst env) []) at 1. rewrite (map_nth (map (subst env))).
    change (Num 0) with (subst env (Num 0)) at 1. rewrite (map_nth (subst env)). apply cden_subst.
  - rewrite mdim_msubst. apply (Lemmas.ksum_map_ext Cops). intros k _. rewrite IHa, IHb. reflexivity.
  - rewrite cden_subst, IHa. reflexivity.
  - rewrite mdim_msubst. cbv zeta. rewrite !IHa. reflexivity.
Qed.
End Subst.

(* ---- (2) the matrix of a symbolic gate in C is its analytic denotation ---- *)
Definition cmat (th : nat -> R) (m : mexp) : mat Cops := emat (PR_C th) (mmat m).

Lemma cmat_mden th m tb r c : mtab m = Some tb -> (idx r < mdim m)%nat -> (idx c < mdim m)%nat ->
  cmat th m r c = mden th m (idx r) (idx c).
Proof.
  intros H Hr Hc. unfold cmat, emat, mmat. rewrite H. rewrite smat_pentry.
  destruct (mtab_sound th m tb H) as [_ E]. apply E; assumption.
Qed.

(* ---- (3) extensionality: only entries at bit lists of the right length matter ---- *)
Definition geq (g1 g2 : gate Cops) : Prop :=
  snd g1 = snd g2 /\
  forall r c, length r = length (snd g1) -> length c = length (snd g1) -> fst g1 r c = fst g2 r c.

Lemma geq_refl g : geq g g.
Proof. split; auto. Qed.

Lemma app_ext (M1 M2 : mat Cops) ts psi :
  (forall r c, length r = length ts -> length c = length ts -> M1 r c = M2 r c) -> Base.app M1 ts psi = Base.app M2 ts psi.
Proof.
  intros H. apply functional_extensionality; intro x. unfold Base.app.
  apply (Lemmas.ksum_map_ext Cops). intros y Hy. rewrite H; [reflexivity| apply map_length|].
  apply Lemmas.all_bits_length in Hy. exact Hy.
Qed.

Lemma sem_ext (c1 c2 : circ Cops) : Forall2 geq c1 c2 -> sem c1 = sem c2.
Proof.
  intros H. apply functional_extensionality; intro psi. revert psi.
  induction H as [|g1 g2 l1 l2 [Hs Hm] _ IH]; intros psi; [reflexivity|].
  cbn [sem fold_left]. change (sem l1 (Base.app (fst g1) (snd g1) psi) = sem l2 (Base.app (fst g2) (snd g2) psi)).
  rewrite <- Hs. rewrite (app_ext (fst g1) (fst g2) (snd g1) psi Hm). apply IH.
Qed.

Lemma Forall2_map_in {A} (f g : A -> gate Cops) l : (forall x, In x l -> geq (f x) (g x)) -> Forall2 geq (map f l) (map g l).
Proof. induction l; simpl; intros H; constructor; auto. Qed.

Lemma geq_cmat th1 th2 m1 m2 t1 t2 ts :
  mtab m1 = Some t1 -> mtab m2 = Some t2 -> mdim m1 = (2 ^ length ts)%nat -> mdim m2 = (2 ^ length ts)%nat ->
  (forall i j, (i < 2 ^ length ts)%nat -> (j < 2 ^ length ts)%nat -> mden th1 m1 i j = mden th2 m2 i j) ->
  geq (cmat th1 m1, ts) (cmat th2 m2, ts).
Proof.
  intros H1 H2 D1 D2 E. split; [reflexivity|]. cbn [fst snd]. intros r c Hr Hc.
  pose proof (Table.idx_lt r) as Lr. pose proof (Table.idx_lt c) as Lc. rewrite Hr in Lr. rewrite Hc in Lc.
  rewrite (cmat_mden th1 m1 t1) by (assumption || lia). rewrite (cmat_mden th2 m2 t2) by (assumption || lia).
  apply E; assumption.
Qed.

(* ---- (4) scalars ---- *)
Ltac cring := match goal with |- @eq _ ?a ?b => change (@eq C a b) end;
  cbn [kmul kadd k0 k1 ksub kopp Cops K]; apply Ceq; cbn [fst snd Cmult Cplus Cminus Copp RtoC Ci Cconj]; ring.
Definition phase_gate (s : C) : gate Cops := (fun _ _ => s, []).
Definition sscale (s : C) (psi : state Cops) : state Cops := fun x => Cmult s (psi x).

Lemma upd_nil (x : asg) : upd x [] [] = x.
Proof. apply functional_extensionality; intro i. reflexivity. Qed.

Lemma app_phase s psi : Base.app (fst (phase_gate s)) (snd (phase_gate s)) psi = sscale s psi.
Proof.
  apply functional_extensionality; intro x. unfold Base.app, phase_gate, sscale. cbn [fst snd length all_bits map ksum].
  rewrite upd_nil. cring.
Qed.

Lemma app_sscale (M : mat Cops) ts s psi : Base.app M ts (sscale s psi) = sscale s (Base.app M ts psi).
Proof.
  apply functional_extensionality; intro x. unfold Base.app, sscale.
  rewrite (Lemmas.ksum_scale Cops Cops_ring), map_map.
  apply (Lemmas.ksum_map_ext Cops). intros y _. cring.
Qed.

Lemma sem_sscale (c : circ Cops) s : forall psi, sem c (sscale s psi) = sscale s (sem c psi).
Proof.
  induction c as [|g c IH]; intros psi; [reflexivity|].
  change (sem c (Base.app (fst g) (snd g) (sscale s psi)) = sscale s (sem c (Base.app (fst g) (snd g) psi))).
  rewrite app_sscale. apply IH.
Qed.

Lemma sscale_sscale s t psi : sscale s (sscale t psi) = sscale (Cmult s t) psi.
Proof. apply functional_extensionality; intro x. unfold sscale. cring. Qed.
Lemma sscale_1 psi : sscale (RtoC 1) psi = psi.
Proof. apply functional_extensionality; intro x. unfold sscale. cring. Qed.

(* ---- (5) small real/complex facts ---- *)
Lemma Q2R_1 : Q2R 1 = 1. Proof. unfold Q2R; simpl; lra. Qed.
Lemma Q2R_0 : Q2R 0 = 0. Proof. unfold Q2R; simpl; lra. Qed.
Lemma Q2R_21 : Q2R (2 # 1) = 2. Proof. unfold Q2R; simpl; lra. Qed.
Lemma Cexp_i x : Cexp (Cmult Ci (RtoC x)) = cis x.
Proof.
  unfold Cexp. replace (Re (Cmult Ci (RtoC x))) with 0 by (simpl; ring).
  replace (Im (Cmult Ci (RtoC x))) with x by (simpl; ring). rewrite exp_0. apply Ceq; simpl; ring.
Qed.
Lemma RtoC_real_eq (z : C) x : fst z = x -> snd z = 0 -> z = RtoC x.
Proof. intros H1 H2. apply Ceq; simpl; assumption. Qed.
