(* C13, routing side (structure): which gates to_chain_structure can emit for one routed gate, the conversion between the
   gate records of the two sub-models, and the invariant that holds for every circuit between the passes of transpile. *)
From Coq Require Import ZArith List String Bool Arith Lia.
From QV Require Import Found.Circ Model.ResolveTypes Gen.Decompose Gen.Gates Model.Resolve.
From QV Require Import Proofs.ResolveLemmas Proofs.ResolveChkDefs Proofs.ResolveSem.
From QV Require Import Model.TranspileTypes Gen.Devices Model.Transpile Proofs.TranspileShape.
From QV Require Model.Route Proofs.RouteLoop Proofs.RouteSem Proofs.RouteMain.
Import ListNotations.
Local Open Scope string_scope.
Local Open Scope nat_scope.

(* ---- names and shapes of the routed pieces ---------------------------------------------------------------------------- *)
(* everything emitted for a routed gate named n with argument token a: an inserted SWAP, or the gate itself on another pair *)
Definition rshape (n : string) (a : option Z) (o : Route.gate) : Prop :=
  (exists p q, o = Route.SWAPg p q) \/
  (Route.is_ctrl n = true /\ exists x y, o = Route.Cg n x y) \/
  (Route.is_swapk n = true /\ exists x y, o = Route.SWg n a x y).

Definition lshape (cA cB : Z -> Z -> Route.gate) (o : Route.gate) : Prop :=
  (exists p q, o = Route.SWAPg p q) \/ (exists x y, o = cA x y) \/ (exists x y, o = cB x y).

Lemma floop_shape cA cB s e : forall fuel i out, Route.floop fuel cA cB s e i = Some out -> Forall (lshape cA cB) out.
Proof.
  induction fuel as [|f IH]; intros i out H; cbn [Route.floop] in H.
  - destruct (i <? e)%Z; [discriminate|]. injection H as <-. constructor.
  - destruct (i <? e)%Z; [|injection H as <-; constructor].
    destruct ((s + e - i - i =? 1)%Z && ((e - s + 1) mod 2 =? 0)%Z).
    + destruct (Route.floop f cA cB s e (i + 1)) as [r|] eqn:E; [|discriminate]. cbn [option_map] in H. injection H as <-.
      constructor; [right; left; eauto|exact (IH _ _ E)].
    + destruct ((s + e - i - i =? 2)%Z && ((e - s + 1) mod 2 =? 1)%Z).
      * destruct (Route.floop f cA cB s e (i + 1 + 1)) as [r|] eqn:E; [|discriminate]. cbn [option_map] in H. injection H as <-.
        constructor; [left; eauto|]. constructor; [right; right; eauto|]. constructor; [left; eauto|exact (IH _ _ E)].
      * destruct (Route.floop f cA cB s e (i + 1)) as [r|] eqn:E; [|discriminate]. cbn [option_map] in H. injection H as <-.
        constructor; [left; eauto|]. constructor; [left; eauto|exact (IH _ _ E)].
Qed.

Lemma swap_not_ctrl : Route.is_ctrl "SWAP" = false. Proof. reflexivity. Qed.

Lemma rshape_shape2 n a o : rshape n a o -> RouteSem.shape2 o.
Proof.
  intros [[p [q ->]]|[[Hn [x [y ->]]]|[Hn [x [y ->]]]]].
  - apply RouteSem.shape2_SWAPg.
  - left. exists n, x, y. auto.
  - right. exists n, a, x, y. split; [apply RouteSem.swapk_not_ctrl; exact Hn|reflexivity].
Qed.

Lemma rshape_relab n a rho o : rshape n a o -> rshape n a (Route.relab rho o).
Proof.
  intros [[p [q ->]]|[[Hn [x [y ->]]]|[Hn [x [y ->]]]]].
  - left. exists (rho p), (rho q). reflexivity.
  - right. left. split; [exact Hn|]. exists (rho x), (rho y). reflexivity.
  - right. right. split; [exact Hn|]. exists (rho x), (rho y). reflexivity.
Qed.

Lemma reindex_shape n a N e l out : Forall (rshape n a) l -> Route.reindex Route.fixed N e l = Some out -> Forall (rshape n a) out.
Proof.
  intros Hl H. unfold Route.reindex in H. cbn [Route.fix_mod Route.fixed Route.fix_arg] in H.
  rewrite RouteSem.reindex_mod_relab in H by (eapply Forall_impl; [|exact Hl]; intros o; apply rshape_shape2).
  injection H as <-. apply Forall_forall. intros o Ho. apply in_map_iff in Ho. destruct Ho as [o0 [<- Ho0]].
  apply rshape_relab. rewrite Forall_forall in Hl. exact (Hl o0 Ho0).
Qed.

Lemma lshape_ccore n b1 b2 o : Route.is_ctrl n = true -> lshape (Route.ccore n b1) (Route.ccore n b2) o -> rshape n None o.
Proof.
  intros Hn [H|[[x [y ->]]|[x [y ->]]]]; [left; exact H| |]; right; left; (split; [exact Hn|]); unfold Route.ccore.
  - destruct b1; eauto.
  - destruct b2; eauto.
Qed.
Lemma lshape_SWg n a o : Route.is_swapk n = true -> lshape (Route.SWg n a) (Route.SWg n a) o -> rshape n a o.
Proof. intros Hn [H|[[x [y ->]]|[x [y ->]]]]; [left; exact H| |]; right; right; split; eauto. Qed.

Lemma route1_shape tp N g out : Route.wf_handled g = true -> Route.route1 Route.fixed tp N g = Some out ->
  Forall (rshape (Route.gname g) (Route.garg g)) out.
Proof.
  intros Hw H. unfold Route.wf_handled in Hw. apply orb_prop in Hw. destruct Hw as [Hw|Hw].
  - destruct (RouteSem.wf_ctrl_inv g Hw) as [n [c [t [Hn [Hct ->]]]]].
    unfold Route.route1 in H. cbn [Route.gname Route.Cg Route.gtargets Route.gcontrols Route.garg] in *. rewrite Hn in H.
    destruct (Route.forward_cond tp N (Z.min t c) (Z.max t c)).
    + unfold Route.forward in H. apply floop_shape in H. eapply Forall_impl; [|exact H]. intros o. apply lshape_ccore. exact Hn.
    + destruct (Z.max t c - Z.min t c <? N - 1)%Z.
      * unfold Route.backward_temp in H. destruct (Route.floop _ _ _ _ _ _) as [l|] eqn:E; [|discriminate]. cbn [Route.obind] in H.
        apply floop_shape in E. eapply reindex_shape; [|exact H]. eapply Forall_impl; [|exact E]. intros o. apply lshape_ccore. exact Hn.
      * destruct (Z.max t c - Z.min t c =? N - 1)%Z; injection H as <-; [|constructor].
        constructor; [|constructor]. right. left. split; [exact Hn|]. exists c, t. reflexivity.
  - destruct (RouteSem.wf_swapk_inv g Hw) as [n [a [x [y [Hn [Hxy ->]]]]]].
    unfold Route.route1 in H. cbn [Route.gname Route.SWg Route.gtargets Route.gcontrols Route.garg] in *.
    rewrite (RouteSem.swapk_not_ctrl n Hn), Hn in H. cbn [Route.fix_arg Route.fixed] in H.
    destruct (Route.forward_cond tp N (Z.min x y) (Z.max x y)).
    + unfold Route.forward in H. apply floop_shape in H. eapply Forall_impl; [|exact H]. intros o. apply lshape_SWg. exact Hn.
    + unfold Route.backward_temp in H. destruct (Route.floop _ _ _ _ _ _) as [l|] eqn:E; [|discriminate]. cbn [Route.obind] in H.
      apply floop_shape in E. eapply reindex_shape; [|exact H]. eapply Forall_impl; [|exact E]. intros o. apply lshape_SWg. exact Hn.
Qed.

(* route = gate-wise concatenation of route1 *)
Lemma route_pieces c tp N gs : forall r, Route.route c tp N gs = Some r ->
  exists outs, r = concat outs /\ Forall2 (fun g o => Route.route1 c tp N g = Some o) gs outs.
Proof.
  induction gs as [|g gs IH]; intros r H; cbn [Route.route] in H.
  - injection H as <-. exists []. split; [reflexivity|constructor].
  - destruct (Route.route1 c tp N g) as [o|] eqn:E; [|discriminate]. cbn [Route.obind] in H.
    destruct (Route.route c tp N gs) as [r'|] eqn:E'; [|discriminate]. cbn [option_map] in H. injection H as <-.
    destruct (IH r' eq_refl) as [outs [-> HF]]. exists (o :: outs). split; [reflexivity|]. constructor; assumption.
Qed.

(* ---- conversion between the two gate records ------------------------------------------------------------------------ *)
Lemma map_to_of (l : list nat) : map Z.to_nat (map Z.of_nat l) = l.
Proof. rewrite map_map. rewrite <- (map_id l) at 2. apply map_ext. intros a. apply Nat2Z.id. Qed.

Lemma fromR_toR tbl i g : nth_error tbl i = Some g -> Route.is_ctrl (gname g) = false -> fromR tbl (toR i g) = g.
Proof.
  intros Hn Hc. unfold fromR, toR, tokenof, arg_of. cbn [Route.gname Route.gtargets Route.gcontrols Route.garg]. rewrite Hc.
  rewrite Nat2Z.id, Hn, !map_to_of. destruct g; reflexivity.
Qed.

Lemma toRs_nth c : forall k i g, nth_error c i = Some g -> nth_error (toRs k c) i = Some (toR (k + i) g).
Proof.
  induction c as [|h c IH]; intros k i g H; [destruct i; discriminate|].
  destruct i as [|i]; cbn [toRs nth_error] in *.
  - injection H as ->. rewrite Nat.add_0_r. reflexivity.
  - rewrite (IH (S k) i g H). f_equal. f_equal. lia.
Qed.

Lemma toRs_length c : forall k, List.length (toRs k c) = List.length c.
Proof. induction c as [|h c IH]; intros k; [reflexivity|]. cbn [toRs List.length]. rewrite IH. reflexivity. Qed.

(* ---- the invariant between the passes --------------------------------------------------------------------------------- *)
(* every gate between the passes: inside the circuit, on pairwise different qubits, of a shape the router understands, and
   either a well-formed source gate (never SQRTSWAP/SQRTISWAP outside the basis) or already a native gate / marker *)
Definition sq_name (c : cfg) (n : string) : Prop := n = "SQRTSWAP" \/ n = "SQRTISWAP" -> mem n (c2q c) = true.
(* [P] = an extra condition on the names of the source gates (sq_name for the success theorem, nothing otherwise) *)
Definition midok (P : string -> Prop) (c : cfg) (N : nat) (g : mgate) : Prop :=
  in_range N g = true /\ NoDup (qubits g) /\ kindshape g = true /\ ((wf_gate g /\ P (gname g)) \/ in_basis c g = true).

Lemma in_range_iff N g : in_range N g = true <-> Forall (fun q => q < N) (qubits g).
Proof.
  unfold in_range. rewrite forallb_forall, Forall_forall. split; intros H q Hq; specialize (H q Hq); apply Nat.ltb_lt; exact H.
Qed.

Lemma handled_toR i g : Route.handledb (toR i g) = handled_name (gname g).
Proof. reflexivity. Qed.

(* a gate of handled name satisfying the invariant is a well-formed routable gate inside the register *)
Lemma midok_handled P c N i g : midok P c N g -> handled_name (gname g) = true ->
  Route.wf_handled (toR i g) = true /\ Route.in_rangeb (Z.of_nat N) (toR i g) = true.
Proof.
  intros [Hr [Hnd [Hk _]]] Hh. apply in_range_iff in Hr. unfold qubits in *.
  unfold kindshape in Hk. unfold handled_name in Hh.
  destruct g as [nm ts cs ar s]. cbn [gname gtargets gcontrols gargs] in *.
  destruct (Route.is_ctrl nm) eqn:Ec.
  - apply andb_prop in Hk. destruct Hk as [Hk Ha]. apply andb_prop in Hk. destruct Hk as [H1 H2].
    apply Nat.eqb_eq in H1. apply Nat.eqb_eq in H2.
    destruct cs as [|c0 [|? ?]]; try discriminate. destruct ts as [|t0 [|? ?]]; try discriminate.
    cbn [List.app] in *. inversion Hnd as [|? ? Hn1 _]; subst. inversion Hr as [|? ? Hc0 Hr']; subst. inversion Hr' as [|? ? Ht0 _]; subst.
    assert (Hne : t0 <> c0) by (intros ->; apply Hn1; left; reflexivity).
    split.
    + unfold Route.wf_handled, Route.wf_ctrl, toR, tokenof. cbn [Route.gname Route.gtargets Route.gcontrols Route.garg gname gtargets gcontrols map].
      rewrite Ec. cbn [andb orb]. replace (Z.of_nat t0 =? Z.of_nat c0)%Z with false by (symmetry; apply Z.eqb_neq; lia). reflexivity.
    + unfold Route.in_rangeb, Route.qubits, toR. cbn [Route.gtargets Route.gcontrols gtargets gcontrols map List.app forallb].
      replace (0 <=? Z.of_nat c0)%Z with true by (symmetry; apply Z.leb_le; lia).
      replace (Z.of_nat c0 <? Z.of_nat N)%Z with true by (symmetry; apply Z.ltb_lt; lia).
      replace (0 <=? Z.of_nat t0)%Z with true by (symmetry; apply Z.leb_le; lia).
      replace (Z.of_nat t0 <? Z.of_nat N)%Z with true by (symmetry; apply Z.ltb_lt; lia). reflexivity.
  - cbn [orb] in Hh. rewrite Hh in Hk.
    apply andb_prop in Hk. destruct Hk as [Hk Ha]. apply andb_prop in Hk. destruct Hk as [H1 H2].
    apply Nat.eqb_eq in H1. apply Nat.eqb_eq in H2.
    destruct cs; try discriminate. destruct ts as [|x [|y [|? ?]]]; try discriminate.
    cbn [List.app] in *. inversion Hnd as [|? ? Hn1 _]; subst. inversion Hr as [|? ? Hx Hr']; subst. inversion Hr' as [|? ? Hy _]; subst.
    assert (Hne : x <> y) by (intros ->; apply Hn1; left; reflexivity).
    split.
    + unfold Route.wf_handled, Route.wf_swapk, toR. cbn [Route.gname Route.gtargets Route.gcontrols Route.garg gname gtargets gcontrols map].
      rewrite Hh. replace (Z.of_nat x =? Z.of_nat y)%Z with false by (symmetry; apply Z.eqb_neq; lia).
      cbn [andb negb]. apply orb_true_r.
    + unfold Route.in_rangeb, Route.qubits, toR. cbn [Route.gtargets Route.gcontrols gtargets gcontrols map List.app forallb].
      replace (0 <=? Z.of_nat x)%Z with true by (symmetry; apply Z.leb_le; lia).
      replace (Z.of_nat x <? Z.of_nat N)%Z with true by (symmetry; apply Z.ltb_lt; lia).
      replace (0 <=? Z.of_nat y)%Z with true by (symmetry; apply Z.leb_le; lia).
      replace (Z.of_nat y <? Z.of_nat N)%Z with true by (symmetry; apply Z.ltb_lt; lia). reflexivity.
Qed.

(* the hardware coupling predicate of the model and the adjacency predicate of the routing model agree *)
Definition tk (tp : Route.topo) : topo_kind := match tp with Route.Linear => TopoLinear | Route.Circular => TopoCircular end.

Lemma adjb_coupled tp N a b : a <> b -> a < N -> b < N ->
  Route.adjb tp (Z.of_nat N) (Z.of_nat a) (Z.of_nat b) = true -> coupled (tk tp) N a b = true.
Proof.
  intros Hab Ha Hb H. unfold coupled.
  replace (a =? b) with false by (symmetry; apply Nat.eqb_neq; exact Hab).
  replace (a <? N) with true by (symmetry; apply Nat.ltb_lt; exact Ha).
  replace (b <? N) with true by (symmetry; apply Nat.ltb_lt; exact Hb). cbn [negb andb].
  destruct tp; cbn [tk Route.adjb] in *; apply orb_prop in H; apply orb_true_iff.
  - destruct H as [H|H]; apply Z.eqb_eq in H; [left|right]; apply Nat.eqb_eq; lia.
  - assert (HN : N <> 0) by lia.
    destruct H as [H|H]; apply Z.eqb_eq in H; [left|right]; apply Nat.eqb_eq; apply Nat2Z.inj; rewrite Nat2Z.inj_mod; rewrite <- H; f_equal; lia.
Qed.

Lemma coupled_sym t N a b : coupled t N a b = coupled t N b a.
Proof.
  unfold coupled. rewrite (Nat.eqb_sym a b). destruct t; [| |];
    destruct (negb (b =? a)), (a <? N), (b <? N); cbn [andb]; try reflexivity; apply orb_comm.
Qed.

(* ---- one routed piece ------------------------------------------------------------------------------------------------- *)
Lemma handled_pair P c N g : midok P c N g -> handled_name (gname g) = true ->
  exists a b, qubits g = [a; b] /\ a <> b /\ a < N /\ b < N /\ gargs g = [] /\ List.length (gcontrols g) + List.length (gtargets g) = 2.
Proof.
  intros [Hr [Hnd [Hk _]]] Hh. apply in_range_iff in Hr. unfold qubits in *.
  unfold kindshape in Hk. unfold handled_name in Hh.
  destruct g as [nm ts cs ar s]. cbn [gname gtargets gcontrols gargs] in *.
  assert (Hsh : (List.length cs = 1 /\ List.length ts = 1 /\ ar = []) \/ (List.length cs = 0 /\ List.length ts = 2 /\ ar = [])).
  { destruct (Route.is_ctrl nm); [left|right; cbn [orb] in Hh; rewrite Hh in Hk];
      apply andb_prop in Hk; destruct Hk as [Hk Ha]; apply andb_prop in Hk; destruct Hk as [H1 H2];
      apply Nat.eqb_eq in H1; apply Nat.eqb_eq in H2; (destruct ar; [|discriminate]); auto. }
  destruct Hsh as [[H1 [H2 ->]]|[H1 [H2 ->]]].
  - destruct cs as [|c0 [|? ?]]; try discriminate. destruct ts as [|t0 [|? ?]]; try discriminate.
    cbn [List.app] in *. inversion Hnd as [|? ? Hn1 _]; subst. inversion Hr as [|? ? Hc0 Hr']; subst. inversion Hr' as [|? ? Ht0 _]; subst.
    exists c0, t0. repeat split; auto. intros ->. apply Hn1. left. reflexivity.
  - destruct cs; try discriminate. destruct ts as [|x [|y [|? ?]]]; try discriminate.
    cbn [List.app] in *. inversion Hnd as [|? ? Hn1 _]; subst. inversion Hr as [|? ? Hx Hr']; subst. inversion Hr' as [|? ? Hy _]; subst.
    exists x, y. repeat split; auto. intros ->. apply Hn1. left. reflexivity.
Qed.

Lemma in_basis_name c g h : gname h = gname g -> in_basis c h = in_basis c g.
Proof. intros E. unfold in_basis. rewrite E. reflexivity. Qed.

Lemma same_kind_midok P c N g h : midok P c N g -> gname h = gname g -> List.length (gcontrols h) = List.length (gcontrols g) ->
  List.length (gtargets h) = List.length (gtargets g) -> gargs h = gargs g -> NoDup (qubits h) -> in_range N h = true -> midok P c N h.
Proof.
  intros [_ [_ [Hk Hor]]] En Ec Et Ea Hnd Hr. repeat split; auto.
  - unfold kindshape, nqubits in *. rewrite En, Ec, Et, Ea. exact Hk.
  - destruct Hor as [[Hw Hs]|Hb]; [left|right].
    + split; [eapply wf_same_kind; eauto|]. rewrite En. exact Hs.
    + rewrite (in_basis_name c g h En). exact Hb.
Qed.

Lemma swap_midok (P : string -> Prop) c N a b : P "SWAP" -> a <> b -> a < N -> b < N -> midok P c N (MG "SWAP" [a; b] [] [] 0).
Proof.
  intros HP Hab Ha Hb.
  assert (Hnd : NoDup [a; b]) by (constructor; [intros [E|[]]; auto|constructor; [intros []|constructor]]).
  repeat split.
  - apply in_range_iff. cbn. repeat constructor; assumption.
  - exact Hnd.
  - left. split.
    + exists 0, 2, 0. repeat split; auto. unfold kinds. cbn [In]. do 13 right. left. reflexivity.
    + exact HP.
Qed.

(* the gates of one routed piece, converted back: SWAPs and relocated copies of the routed gate, all on coupled pairs *)
Lemma piece_midok (P : string -> Prop) c tp N tbl i g o : P "SWAP" ->
  nth_error tbl i = Some g -> midok P c N g -> handled_name (gname g) = true ->
  Route.route1 Route.fixed tp (Z.of_nat N) (toR i g) = Some o ->
  Forall (fun x => midok P c N x /\ coupled_gate (tk tp) N x = true) (map (fromR tbl) o).
Proof.
  intros HP Hnth Hm Hh Hr. destruct (midok_handled P c N i g Hm Hh) as [Hw Hrg].
  destruct (handled_pair P c N g Hm Hh) as [a0 [b0 [Hq0 [Hab0 [Ha0 [Hb0 [Harg0 Hlen0]]]]]]].
  pose proof (route1_shape tp (Z.of_nat N) (toR i g) o Hw Hr) as Hs.
  assert (L : RouteMain.sem_laws unit (fun _ s => s)) by (repeat split).
  destruct (RouteMain.route_one unit (fun _ s => s) L tp (Z.of_nat N) (toR i g) Hw Hrg) as [o' [Ho' [_ [Hadj Hrng]]]].
  cbn [Route.route Route.obind option_map] in Ho'. rewrite Hr in Ho'. cbn [Route.obind option_map] in Ho'.
  rewrite app_nil_r in Ho'. injection Ho' as <-.
  rewrite forallb_forall in Hadj, Hrng. rewrite Forall_forall in Hs.
  apply Forall_forall. intros x Hx. apply in_map_iff in Hx. destruct Hx as [r [<- Hr0]].
  specialize (Hs r Hr0). specialize (Hadj r Hr0). specialize (Hrng r Hr0).
  cbn [Route.gname Route.garg toR] in Hs.
  assert (Hpair : forall p q, Route.qubits r = [p; q] ->
            exists a b, p = Z.of_nat a /\ q = Z.of_nat b /\ a <> b /\ a < N /\ b < N /\ coupled (tk tp) N a b = true).
  { intros p q Eq. unfold Route.adj2b in Hadj. rewrite Eq in Hadj. unfold Route.in_rangeb in Hrng. rewrite Eq in Hrng.
    cbn [forallb] in Hrng. rewrite !andb_true_iff in Hrng. rewrite !Z.leb_le, !Z.ltb_lt in Hrng.
    exists (Z.to_nat p), (Z.to_nat q). rewrite !Z2Nat.id by lia.
    assert (Hne : p <> q).
    { intros ->. destruct tp; cbn [Route.adjb] in Hadj; apply orb_prop in Hadj.
      - destruct Hadj as [H|H]; apply Z.eqb_eq in H; lia.
      - assert (HN2 : (2 <= Z.of_nat N)%Z) by lia.
        destruct Hadj as [H|H]; apply Z.eqb_eq in H;
          (destruct (Z.eq_dec (q + 1) (Z.of_nat N)) as [E|E];
           [rewrite E, Z.mod_same in H by lia; lia|rewrite Z.mod_small in H by lia; lia]). }
    repeat split; try lia.
    apply adjb_coupled; try lia. rewrite !Z2Nat.id by lia. exact Hadj. }
  assert (Hnd2 : forall a b : nat, a <> b -> NoDup [a; b])
    by (intros a b Hab; constructor; [intros [E|[]]; auto|constructor; [intros []|constructor]]).
  destruct Hs as [[p [q ->]]|[[Hn [x [y ->]]]|[Hn [x [y ->]]]]].
  - destruct (Hpair p q eq_refl) as [a [b [-> [-> [Hab [Ha [Hb Hcp]]]]]]].
    unfold fromR, Route.SWAPg. cbn [Route.gname Route.gtargets Route.gcontrols Route.garg arg_of fst snd map]. rewrite !Nat2Z.id.
    split; [apply swap_midok; assumption|]. unfold coupled_gate, qubits. cbn [gcontrols gtargets List.app]. exact Hcp.
  - destruct (Hpair x y eq_refl) as [a [b [-> [-> [Hab [Ha [Hb Hcp]]]]]]].
    unfold fromR, Route.Cg. cbn [Route.gname Route.gtargets Route.gcontrols Route.garg arg_of fst snd map]. rewrite !Nat2Z.id.
    assert (Hlc : List.length (gcontrols g) = 1 /\ List.length (gtargets g) = 1).
    { destruct Hm as [_ [_ [Hk _]]]. unfold kindshape in Hk. rewrite Hn in Hk.
      apply andb_prop in Hk. destruct Hk as [Hk _]. apply andb_prop in Hk. destruct Hk as [H1 H2].
      apply Nat.eqb_eq in H1. apply Nat.eqb_eq in H2. auto. }
    split.
    + apply (same_kind_midok P c N g); cbn [gname gcontrols gtargets gargs]; try tauto; try (symmetry; tauto).
      * unfold qubits. cbn [gcontrols gtargets List.app]. apply Hnd2. exact Hab.
      * apply in_range_iff. unfold qubits. cbn [gcontrols gtargets List.app]. repeat constructor; assumption.
    + unfold coupled_gate, qubits. cbn [gcontrols gtargets List.app]. exact Hcp.
  - destruct (Hpair x y eq_refl) as [a [b [-> [-> [Hab [Ha [Hb Hcp]]]]]]].
    unfold fromR, Route.SWg, tokenof. rewrite (RouteSem.swapk_not_ctrl _ Hn).
    cbn [Route.gname Route.gtargets Route.gcontrols Route.garg arg_of fst snd map]. rewrite !Nat2Z.id, Hnth. cbn [fst snd].
    assert (Hlc : List.length (gcontrols g) = 0 /\ List.length (gtargets g) = 2).
    { destruct Hm as [_ [_ [Hk _]]]. unfold kindshape in Hk. rewrite (RouteSem.swapk_not_ctrl _ Hn), Hn in Hk.
      apply andb_prop in Hk. destruct Hk as [Hk _]. apply andb_prop in Hk. destruct Hk as [H1 H2].
      apply Nat.eqb_eq in H1. apply Nat.eqb_eq in H2. auto. }
    split.
    + apply (same_kind_midok P c N g); cbn [gname gcontrols gtargets gargs]; try tauto; try (symmetry; tauto).
      * unfold qubits. cbn [gcontrols gtargets List.app]. apply Hnd2. exact Hab.
      * apply in_range_iff. unfold qubits. cbn [gcontrols gtargets List.app]. repeat constructor; assumption.
    + unfold coupled_gate, qubits. cbn [gcontrols gtargets List.app]. exact Hcp.
Qed.
