(* C13: the theorems about ModelProcessor.transpile, assembled from the pass lemmas. *)
From Coq Require Import ZArith List String Bool Arith Lia FunctionalExtensionality.
From QV Require Import Found.Circ Model.ResolveTypes Gen.Decompose Gen.Gates Model.Resolve.
From QV Require Import Proofs.ResolveLemmas Proofs.ResolveChkDefs Proofs.ResolveSem.
From QV Require Import Model.TranspileTypes Gen.Devices Model.Transpile.
From QV Require Import Proofs.TranspileShape Proofs.TranspileRoute Proofs.TranspileMain Proofs.TranspileSem.
From QV Require Model.Route Proofs.RouteSem Proofs.RouteMain.
Import ListNotations.
Local Open Scope string_scope.
Local Open Scope nat_scope.

Definition noP : string -> Prop := fun _ => True.

(* ---- same operator ------------------------------------------------------------------------------------------------------ *)
Lemma topology_cases d Ndev M pre mid : run_pass d Ndev M PTopology pre = Ok mid ->
  mid = pre \/ topo_pass Route.Linear M pre = Ok mid \/ topo_pass Route.Circular M pre = Ok mid.
Proof.
  unfold run_pass. intros H. destruct (dtopo d); [left; injection H as <-; reflexivity| |];
    (destruct (unrouted_ok d pre); [|discriminate]); destruct (route_kind d Ndev M); auto; left; injection H as <-; reflexivity.
Qed.

Theorem transpile_sem_proof d Ndev M c out : In d devices -> Forall wf_gate c -> Forall (fun g => in_range M g = true) c ->
  transpile_on d Ndev M c = Ok out ->
  forall (R : PhaseRing) (env : nat -> atoms R), sem (cden R env out) = sem (cden R env c).
Proof.
  intros Hd Hw Hr H R env. destruct (dev_facts d Hd) as [lst [keep [El [Hp [Hv [Hdv [Hal Hm]]]]]]].
  assert (HPc : Forall (fun g => noP (gname g)) c) by (apply Forall_forall; intros; exact I).
  rewrite transpile_unfold, pass_width in H. destruct (Nat.ltb Ndev M); [discriminate|]. cbn [rbind] in H.
  rewrite (pass_expand d Ndev M lst El) in H.
  destruct (expand (BList lst) c) as [pre|] eqn:E1; [|discriminate]. cbn [rbind] in H.
  pose proof (expand_ok noP lst keep Hp Hv Hdv Hal M c pre Hw HPc Hr E1) as Hpre.
  pose proof (expand_sem lst keep Hp Hal c pre Hw E1 R env) as S1.
  destruct (run_pass d Ndev M PTopology pre) as [mid|] eqn:E2; [|discriminate]. cbn [rbind] in H.
  rewrite (pass_resolve d Ndev M lst El) in H.
  assert (Hmid : Forall (midok noP (cfg_of lst) M) mid /\ sem (cden R env mid) = sem (cden R env pre)).
  { destruct (topology_cases d Ndev M pre mid E2) as [->|[E|E]]; [auto| |]; split.
    - pose proof (topo_ok noP lst I Route.Linear M pre mid Hpre E) as X. eapply Forall_impl; [|exact X]. intros x [Hx _]. exact Hx.
    - exact (topo_sem noP lst Hdv I R env Route.Linear M pre mid Hpre E).
    - pose proof (topo_ok noP lst I Route.Circular M pre mid Hpre E) as X. eapply Forall_impl; [|exact X]. intros x [Hx _]. exact Hx.
    - exact (topo_sem noP lst Hdv I R env Route.Circular M pre mid Hpre E). }
  destruct Hmid as [Hmid S2].
  rewrite (final_sem noP lst keep Hp Hdv Hal M mid out Hmid H R env). rewrite S2. exact S1.
Qed.

(* ---- refusals ------------------------------------------------------------------------------------------------------------ *)
Lemma rbind_error {A B} (f : A -> result B) : rbind Error f = Error. Proof. reflexivity. Qed.

Definition handled_have_rules : bool :=
  forallb (fun n => match find_rule n with Some _ => true | None => false end) (["CNOT"; "CSIGN"] ++ Route.swap_gates_old)%list.
Lemma handled_have_rules_true : handled_have_rules = true. Proof. vm_compute. reflexivity. Qed.

(* Route.swap_gates = the six names that have a decomposition rule ++ the two alias names added by fixes/C07-alias-names
   ("SWAPALPHA", "iSWAP"): those are routed but have no rule; the refusal theorem below excludes them by Route.is_alias
   (the router moves such a gate instead of keeping it in place, so the argument "it is still there" does not apply). *)
Lemma norule_unhandled n : find_rule n = None -> Route.is_alias n = false -> handled_name n = false.
Proof.
  intros H Ha. destruct (handled_name n) eqn:E; [|reflexivity]. exfalso.
  pose proof handled_have_rules_true as K. unfold handled_have_rules in K. rewrite forallb_forall in K.
  assert (Hin : In n (["CNOT"; "CSIGN"] ++ Route.swap_gates_old)%list).
  { unfold handled_name in E. apply orb_prop in E. apply in_or_app. destruct E as [E|E].
    - left. unfold Route.is_ctrl in E. apply orb_prop in E. destruct E as [E|E]; apply String.eqb_eq in E; subst; cbn; auto.
    - right. unfold Route.is_swapk in E. apply existsb_exists in E. destruct E as [x [Hx Ex]]. apply String.eqb_eq in Ex. subst x.
      change Route.swap_gates with (Route.swap_gates_old ++ Route.alias_names)%list in Hx.
      apply in_app_or in Hx. destruct Hx as [Hx|Hx]; [exact Hx|]. exfalso.
      assert (Route.is_alias n = true) by (unfold Route.is_alias; apply existsb_exists; exists n; split; [exact Hx|apply String.eqb_refl]).
      congruence. }
  specialize (K n Hin). rewrite H in K. discriminate.
Qed.

Lemma rflat_in_keep {A} (f : A -> result (list A)) a l out : In a l -> f a = Ok [a] -> rflat f l = Ok out -> In a out.
Proof.
  revert out. induction l as [|b l IH]; intros out Hin Ha H; [destruct Hin|].
  apply rflat_ok_cons in H. destruct H as [x [y [Hx [Hy ->]]]]. apply in_or_app. destruct Hin as [->|Hin].
  - left. rewrite Ha in Hx. injection Hx as <-. left. reflexivity.
  - right. exact (IH y Hin Ha Hy).
Qed.

Lemma piece_at tp N rs outs : Forall2 (fun rg o => Route.route1 Route.fixed tp N rg = Some o) rs outs ->
  forall i rg, nth_error rs i = Some rg -> Route.handledb rg = false -> In [rg] outs.
Proof.
  intros H2. induction H2 as [|rg0 o rs outs Ho _ IH]; intros i rg Hr Hu; [destruct i; discriminate|].
  destruct i as [|i]; cbn [nth_error] in Hr.
  - injection Hr as ->. rewrite (route1_unhandled _ _ _ Hu) in Ho. injection Ho as <-. left. reflexivity.
  - right. exact (IH i rg Hr Hu).
Qed.

(* an unhandled gate survives the topology map *)
Lemma topo_keeps tp N pre mid g : In g pre -> handled_name (gname g) = false -> topo_pass tp N pre = Ok mid -> In g mid.
Proof.
  intros Hin Hh H. unfold topo_pass in H.
  destruct (Route.route Route.fixed tp (Z.of_nat N) (toRs 0 pre)) as [r|] eqn:E; [|discriminate]. injection H as <-.
  destruct (route_pieces _ _ _ _ _ E) as [outs [-> H2]].
  destruct (In_nth_error pre g Hin) as [i Hi].
  pose proof (toRs_nth pre 0 i g Hi) as Hr. cbn [Nat.add] in Hr.
  assert (Hu : Route.handledb (toR i g) = false) by (rewrite handled_toR; exact Hh).
  pose proof (piece_at _ _ _ _ H2 i (toR i g) Hr Hu) as Hpiece.
  apply in_map_iff. exists (toR i g). split.
  - apply fromR_toR; [exact Hi|]. unfold handled_name in Hh. apply orb_false_iff in Hh. tauto.
  - apply in_concat. exists [toR i g]. split; [exact Hpiece|left; reflexivity].
Qed.

Theorem transpile_refuses_proof d Ndev M c g : In d devices -> In g c ->
  mem (gname g) pauli_names = false -> find_rule (gname g) = None -> Route.is_alias (gname g) = false ->
  (forall lst, dnative d = Some lst -> mem (gname g) lst = false) ->
  transpile_on d Ndev M c = Error.
Proof.
  intros Hd Hin Hp Hf Hal0 Hn. destruct (dev_facts d Hd) as [lst [keep [El [Hpb [Hv [Hdv [Hal Hm]]]]]]].
  specialize (Hn lst El).
  assert (Hkeep : keep (gname g) = false) by (rewrite (keep_list lst _ keep Hpb); exact Hn).
  assert (Hc2 : mem (gname g) (c2q (cfg_of lst)) = false).
  { destruct (mem (gname g) (c2q (cfg_of lst))) eqn:E; [|reflexivity]. rewrite (Hm _ (or_introl E)) in Hn. discriminate. }
  assert (Hh : handled_name (gname g) = false) by (apply norule_unhandled; assumption).
  rewrite transpile_unfold, pass_width. destruct (Nat.ltb Ndev M); [reflexivity|]. cbn [rbind].
  rewrite (pass_expand d Ndev M lst El).
  destruct (expand (BList lst) c) as [pre|] eqn:E1; [|reflexivity]. cbn [rbind].
  assert (Hpre : In g pre).
  { unfold expand in E1. eapply rflat_in_keep; [exact Hin| |exact E1].
    unfold expand_gate. destruct (big g) eqn:Eb; [|reflexivity]. exfalso.
    assert (Er : resolve (BList lst) [g] = Error)
      by (apply (resolve_refuses_proof (BList lst) [g] (cfg_of lst) keep g Hpb); auto; left; reflexivity).
    assert (Ee : expand_gate (BList lst) g = Error) by (unfold expand_gate; rewrite Eb; exact Er).
    unfold expand in E1. rewrite (rflat_error_in (expand_gate (BList lst)) g c Hin Ee) in E1. discriminate. }
  assert (Hfin : forall mid, In g mid -> resolve (BList lst) mid = Error)
    by (intros mid Hmid; apply (resolve_refuses_proof (BList lst) mid (cfg_of lst) keep g Hpb); auto).
  destruct (run_pass d Ndev M PTopology pre) as [mid|] eqn:E2; [|reflexivity]. cbn [rbind].
  rewrite (pass_resolve d Ndev M lst El). apply Hfin.
  destruct (topology_cases d Ndev M pre mid E2) as [->|[E|E]]; [exact Hpre| |]; eapply topo_keeps; eauto.
Qed.

Theorem transpile_rejects_measurement_proof d Ndev M ops : In d devices -> In OpMeasure ops -> transpile_ops d Ndev M ops = Error.
Proof.
  intros Hd Hin. destruct (dev_facts d Hd) as [lst [keep [El _]]]. unfold transpile_ops.
  assert (E : existsb (fun o => match o with OpMeasure => true | _ => false end) ops = true)
    by (apply existsb_exists; exists OpMeasure; auto).
  rewrite E, El. reflexivity.
Qed.

(* a circuit wider than the processor is refused, whatever it holds *)
Theorem transpile_refuses_wide_proof d Ndev M c : Ndev < M -> transpile_on d Ndev M c = Error.
Proof.
  intros H. rewrite transpile_unfold, pass_width. replace (Nat.ltb Ndev M) with true by (symmetry; apply Nat.ltb_lt; exact H). reflexivity.
Qed.

(* a gate the topology map does not route (RZX on SCQubits) on targets that are not neighbours is refused; [g] has no
   controls, so that it reaches the topology map unchanged *)
Theorem transpile_refuses_unrouted_proof d Ndev M c g : In d devices -> In g c -> mem (gname g) (dunrouted d) = true ->
  gcontrols g = [] -> List.length (gtargets g) <= 2 -> near_targets g = false -> transpile_on d Ndev M c = Error.
Proof.
  intros Hd Hin Hu Hc Hl Hn. destruct (dev_facts d Hd) as [lst [keep [El _]]].
  rewrite transpile_unfold, pass_width. destruct (Nat.ltb Ndev M); [reflexivity|]. cbn [rbind].
  rewrite (pass_expand d Ndev M lst El).
  destruct (expand (BList lst) c) as [pre|] eqn:E1; [|reflexivity]. cbn [rbind].
  assert (Hpre : In g pre).
  { unfold expand in E1. eapply rflat_in_keep; [exact Hin| |exact E1]. unfold expand_gate, big, nqubits.
    rewrite Hc, threshold_two. cbn [List.length Nat.add]. replace (Nat.ltb 2 (List.length (gtargets g))) with false; [reflexivity|].
    symmetry. apply Nat.ltb_ge. exact Hl. }
  assert (Hbad : unrouted_ok d pre = false).
  { unfold unrouted_ok. apply not_true_iff_false. intros K. rewrite forallb_forall in K. specialize (K g Hpre).
    rewrite Hu, Hn in K. discriminate. }
  pose proof (table_facts d Hd) as T. unfold table_ok in T. apply andb_prop in T. destruct T as [T _]. apply andb_prop in T. destruct T as [T _].
  assert (E : run_pass d Ndev M PTopology pre = Error).
  { unfold run_pass. rewrite Hbad. destruct (dtopo d); [|reflexivity|reflexivity].
    apply andb_prop in T. destruct T as [_ T]. destruct (dunrouted d); [discriminate Hu|discriminate T]. }
  rewrite E. reflexivity.
Qed.

(* ---- the code as found (topology map first, decomposition afterwards) violates the coupling clause ------------------------ *)
Definition toffoli_012 : list mgate := [MG "TOFFOLI" [2] [0; 1] [] 0].
Lemma toffoli_wf : Forall wf_gate toffoli_012.
Proof.
  constructor; [|constructor]. exists 2, 1, 0. cbn. repeat split; auto.
  - do 17 right. left. reflexivity.
  - repeat constructor; cbn; intuition discriminate.
Qed.

Definition unfixed_bad (d : device) (N : nat) : bool :=
  match transpile_unfixed d N N toffoli_012 with
  | Ok out => forallb (native_gate d) out && negb (forallb (coupled_gate (dtopo d) N) out)
  | Error => false
  end.
Lemma unfixed_refuted : unfixed_bad dev_LinearSpinChain 3 = true /\ unfixed_bad dev_CircularSpinChain 4 = true /\
  unfixed_bad dev_SCQubits 3 = true.
Proof. repeat split; vm_compute; reflexivity. Qed.

Definition fixed_good (d : device) (N : nat) : bool :=
  match transpile_on d N N toffoli_012 with
  | Ok out => forallb (native_gate d) out && forallb (coupled_gate (dtopo d) N) out
  | Error => false
  end.
Lemma fixed_on_witness : forallb (fun d => fixed_good d 4) devices = true.
Proof. vm_compute. reflexivity. Qed.

(* ---- the hardware, from the property text (NOT from the code): which pairs each processor couples directly ---------------- *)
Definition hardware_topology (n : string) : option topo_kind :=
  if String.eqb n "LinearSpinChain" then Some TopoLinear               (* neighbours on an open chain *)
  else if String.eqb n "CircularSpinChain" then Some TopoCircular      (* neighbours on a ring, the wrap-around pair included *)
  else if String.eqb n "SCQubits" then Some TopoLinear                 (* "interaction is possible only between adjacent qubits" *)
  else if String.eqb n "DispersiveCavityQED" then Some TopoNone        (* any pair, through the cavity *)
  else None.
(* the topology map each processor class calls is the one of its hardware *)
Definition devices_match : bool :=
  forallb (fun d => match hardware_topology (dname d) with Some t => topo_eqb t (dtopo d) | None => false end) devices &&
  forallb (fun n => existsb (fun d => String.eqb (dname d) n) devices) ["LinearSpinChain"; "CircularSpinChain"; "SCQubits"; "DispersiveCavityQED"].
Lemma devices_match_true : devices_match = true. Proof. vm_compute. reflexivity. Qed.

Lemma hardware_is_dtopo d t : In d devices -> hardware_topology (dname d) = Some t -> t = dtopo d.
Proof.
  intros Hd Ht. pose proof devices_match_true as K. unfold devices_match in K. apply andb_prop in K. destruct K as [K _].
  rewrite forallb_forall in K. specialize (K d Hd). rewrite Ht in K. destruct t, (dtopo d); try discriminate; reflexivity.
Qed.
