(* C12: pulse_ind_map / pulse_instructions bookkeeping of compile: the list handed to the concatenation
   for a pulse name is exactly the instructions that use this name, in time order *)
From Coq Require Import List QArith ZArith Bool Lia.
From QV Require Import Model.Concat.
Import ListNotations.

(* the (start, tlist, coeff) entries that instruction [si] contributes to the pulse named [n] *)
Definition pulses_of_instr (n : nat) (si : Q * instr) : list pinstr :=
  flat_map (fun nc => if Nat.eqb (fst nc) n
                      then match mk_wave (i_tl (snd si)) (snd nc) with
                           | Some w => [mkP (fst si) w]
                           | None => []
                           end
                      else []) (i_pulses (snd si)).

Definition pulses_of (n : nat) (sil : list (Q * instr)) : list pinstr :=
  flat_map (pulses_of_instr n) sil.

Fixpoint lookup (n : nat) (chs : list (nat * list pinstr)) : list pinstr :=
  match chs with
  | [] => []
  | (m, l) :: r => if Nat.eqb m n then l else lookup n r
  end.

Lemma lookup_add chs : forall n m p,
  lookup n (add_pulse chs m p) = lookup n chs ++ (if Nat.eqb m n then [p] else []).
Proof.
  induction chs as [|[k l] r IH]; intros n m p.
  - cbn. destruct (Nat.eqb m n); reflexivity.
  - cbn [add_pulse]. destruct (Nat.eqb k m) eqn:E1.
    + apply Nat.eqb_eq in E1. subst k. cbn [lookup].
      destruct (Nat.eqb m n); [reflexivity|]. rewrite app_nil_r. reflexivity.
    + cbn [lookup]. destruct (Nat.eqb k n) eqn:E2.
      * apply Nat.eqb_eq in E2. subst k. rewrite Nat.eqb_sym, E1, app_nil_r. reflexivity.
      * apply IH.
Qed.

Definition pstep (s : Q) (t : tlspec) (chs : option (list (nat * list pinstr))) (nc : nat * cospec) :=
  match chs, mk_wave t (snd nc) with
  | Some chs, Some w => Some (add_pulse chs (fst nc) (mkP s w))
  | _, _ => None
  end.

Lemma fold_pstep_none s t ps : fold_left (pstep s t) ps None = None.
Proof. induction ps; [reflexivity|exact IHps]. Qed.

Lemma fold_pstep s t ps : forall chs0 res,
  fold_left (pstep s t) ps (Some chs0) = Some res ->
  forall n, lookup n res = lookup n chs0 ++
            flat_map (fun nc => if Nat.eqb (fst nc) n
                                then match mk_wave t (snd nc) with Some w => [mkP s w] | None => [] end
                                else []) ps.
Proof.
  induction ps as [|nc ps IH]; intros chs0 res H n.
  - cbn in H. inversion H; subst. cbn. rewrite app_nil_r. reflexivity.
  - cbn [fold_left] in H. unfold pstep at 2 in H.
    destruct (mk_wave t (snd nc)) as [w|] eqn:EW.
    + rewrite (IH _ _ H n), lookup_add. cbn [flat_map]. rewrite EW, <- app_assoc. reflexivity.
    + rewrite fold_pstep_none in H. discriminate.
Qed.

Lemma add_instr_eq chs si : add_instr chs si = fold_left (pstep (fst si) (i_tl (snd si))) (i_pulses (snd si)) chs.
Proof. reflexivity. Qed.

Lemma fold_add_instr_none sil : fold_left add_instr sil None = None.
Proof.
  induction sil as [|si sil IH]; [reflexivity|]. cbn [fold_left].
  rewrite add_instr_eq, fold_pstep_none. exact IH.
Qed.

Lemma fold_add_instr sil : forall chs0 res,
  fold_left add_instr sil (Some chs0) = Some res ->
  forall n, lookup n res = lookup n chs0 ++ pulses_of n sil.
Proof.
  induction sil as [|si sil IH]; intros chs0 res H n.
  - cbn in H. inversion H; subst. cbn. rewrite app_nil_r. reflexivity.
  - cbn [fold_left] in H.
    destruct (add_instr (Some chs0) si) as [chs1|] eqn:E1.
    + rewrite (IH _ _ H n). rewrite add_instr_eq in E1. rewrite (fold_pstep _ _ _ _ _ E1 n).
      unfold pulses_of. cbn [flat_map]. rewrite <- app_assoc. reflexivity.
    + rewrite fold_add_instr_none in H. discriminate.
Qed.

(* names stay distinct *)
Lemma add_pulse_names chs : forall m p x,
  In x (map fst (add_pulse chs m p)) -> x = m \/ In x (map fst chs).
Proof.
  induction chs as [|[k l] r IH]; intros m p x H.
  - cbn in H. destruct H as [H|[]]. left. congruence.
  - cbn [add_pulse] in H. destruct (Nat.eqb k m); cbn in *.
    + right. exact H.
    + destruct H as [H|H]; [right; left; exact H|].
      destruct (IH _ _ _ H); [left; assumption|right; right; assumption].
Qed.

Lemma add_pulse_nodup chs : forall m p,
  NoDup (map fst chs) -> NoDup (map fst (add_pulse chs m p)).
Proof.
  induction chs as [|[k l] r IH]; intros m p H.
  - cbn. constructor; [intros []|constructor].
  - cbn [add_pulse]. destruct (Nat.eqb k m) eqn:E; [exact H|].
    cbn in *. inversion H as [|? ? Hk Hr]; subst. constructor; [|apply IH; exact Hr].
    intro HI. apply add_pulse_names in HI. destruct HI as [->|HI]; [|contradiction].
    rewrite Nat.eqb_refl in E. discriminate.
Qed.

Lemma fold_pstep_nodup s t ps : forall chs0 res,
  fold_left (pstep s t) ps (Some chs0) = Some res -> NoDup (map fst chs0) -> NoDup (map fst res).
Proof.
  induction ps as [|nc ps IH]; intros chs0 res H HN.
  - cbn in H. inversion H; subst. exact HN.
  - cbn [fold_left] in H. unfold pstep at 2 in H.
    destruct (mk_wave t (snd nc)) as [w|].
    + apply (IH _ _ H). apply add_pulse_nodup. exact HN.
    + rewrite fold_pstep_none in H. discriminate.
Qed.

Lemma fold_add_instr_nodup sil : forall chs0 res,
  fold_left add_instr sil (Some chs0) = Some res -> NoDup (map fst chs0) -> NoDup (map fst res).
Proof.
  induction sil as [|si sil IH]; intros chs0 res H HN.
  - cbn in H. inversion H; subst. exact HN.
  - cbn [fold_left] in H. destruct (add_instr (Some chs0) si) as [chs1|] eqn:E1.
    + apply (IH _ _ H). rewrite add_instr_eq in E1. exact (fold_pstep_nodup _ _ _ _ _ E1 HN).
    + rewrite fold_add_instr_none in H. discriminate.
Qed.

Lemma lookup_in chs : forall n l, NoDup (map fst chs) -> In (n, l) chs -> lookup n chs = l.
Proof.
  induction chs as [|[k l0] r IH]; intros n l HN HI; [destruct HI|].
  cbn in HN. inversion HN as [|? ? Hk Hr]; subst. cbn [lookup]. destruct HI as [HI|HI].
  - inversion HI; subst. rewrite Nat.eqb_refl. reflexivity.
  - destruct (Nat.eqb k n) eqn:E.
    + apply Nat.eqb_eq in E. subst k. exfalso. apply Hk. apply (in_map fst) in HI. exact HI.
    + apply IH; assumption.
Qed.

(* pulse names are distinct, and the list of a name is exactly the instructions using it, in order *)
Lemma build_channels_spec sil chs :
  build_channels sil = Some chs ->
  NoDup (map fst chs) /\ forall n l, In (n, l) chs -> l = pulses_of n sil.
Proof.
  unfold build_channels. intro H.
  assert (HN : NoDup (map fst chs)) by (apply (fold_add_instr_nodup _ _ _ H); constructor).
  split; [exact HN|]. intros n l HI.
  rewrite <- (lookup_in _ _ _ HN HI). rewrite (fold_add_instr _ _ _ H n). reflexivity.
Qed.
