(* C17, QFT half: the generated circuit with native controlled phases and the final swaps IS the discrete Fourier
   transform.  BOUNDED: N <= 5 (the exact symbolic ring has resolution pi/16 = 2 pi / 2^5), by symbolic computation of
   the full 2^N x 2^N table, lifted to the complex semantics [qden] of the model's gate list. *)
From Coq Require Import Reals Lra Lia List String FunctionalExtensionality Ring QArith Qreals Bool ZArith.
From Coquelicot Require Import Coquelicot.
From QV Require Import Found.Base Found.Lemmas Found.Table Found.KS Found.KSProofs Found.Sym Found.SymProofs Found.Conj Found.CInst Found.Circ.
From QV Require Import Gen.Gates Gen.SingleQubit Model.SingleQubit Model.Qft Proofs.C17Sem Proofs.QftStruct Proofs.QftSem.
Import ListNotations.
Local Open Scope string_scope.
Local Open Scope list_scope.

(* the model gate as a closed symbolic gate: its angle n*pi/2^d written as an expression *)
Definition angle_ex (a : option ang) : ex :=
  match a with
  | Some x => Div (Mul (Num (inject_Z (anum x))) Pi) (Num (inject_Z (2 ^ Z.of_nat (aexp x))))
  | None => Num 0
  end.
Definition sym_of (g : qg) : sgate := (msubst [angle_ex (garg g)] (gmexp (gname g)), gqubits g).

(* the DFT matrix over the symbolic ring: (1/sqrt 2)^N * u^(2^(5-N) * j * k),  u = e^{i pi/16} = e^{2 pi i/32} *)
Fixpoint ppow (p : poly) (n : nat) : poly := match n with O => pone | S n' => pmul p (ppow p n') end.
Definition pdft (N : nat) : mat POps := fun r c => pmul (ppow pisqrt2 N) (pu (2 ^ (5 - N) * (idx r * idx c))).

Definition dft_ok (N : nat) : bool :=
  let body := qft_body N true false in
  let sc := map sym_of body in
  forallb (fun g => match mtab (gmexp (gname g)) with Some _ => true | None => false end) body
  && swf N sc && table_eqb (@ttable POps N (sden sc)) (@ttable POps N [(pdft N, seq 0 N)]).

Lemma dft_ok_1 : dft_ok 1 = true. Proof. vm_compute. reflexivity. Qed.
Lemma dft_ok_2 : dft_ok 2 = true. Proof. vm_compute. reflexivity. Qed.
Lemma dft_ok_3 : dft_ok 3 = true. Proof. vm_compute. reflexivity. Qed.
Lemma dft_ok_4 : dft_ok 4 = true. Proof. vm_compute. reflexivity. Qed.
Lemma dft_ok_5 : dft_ok 5 = true. Proof. vm_compute. reflexivity. Qed.

Local Open Scope R_scope.

(* the DFT matrix over C: entry (j,k) = 2^(-N/2) * e^{2 pi i j k / 2^N}; first listed qubit = most significant bit *)
Definition dftC (N : nat) : mat Cops :=
  fun r c => Cmult (RtoC ((/ sqrt 2) ^ N)) (cis (2 * PI * INR (idx r * idx c) / 2 ^ N)).

Lemma place_seq k (c : circ Cops) : localb k c = true -> place (seq 0 k) c = c.
Proof.
  unfold localb, place. intros H. rewrite forallb_forall in H. rewrite <- (map_id c) at 2. apply map_ext_in.
  intros [M ts] Hg. specialize (H _ Hg). cbn [fst snd] in *. f_equal. rewrite forallb_forall in H.
  rewrite <- (map_id ts) at 2. apply map_ext_in. intros t Ht. apply pl_seq. apply Nat.ltb_lt. apply H. exact Ht.
Qed.

Lemma Q2R_inject_Z z : Q2R (inject_Z z) = IZR z.
Proof. unfold Q2R, inject_Z. cbn [Qnum Qden]. rewrite Rinv_1. ring. Qed.

Lemma cden_angle_ex th a : CInst.cden th (angle_ex a) = RtoC (oval a).
Proof.
  destruct a as [[n d]|]; cbn [angle_ex oval anum aexp CInst.cden].
  - rewrite !Q2R_inject_Z, IZR_pow2. unfold aval. cbn [anum aexp]. pose proof (pow2_pos d).
    apply RtoC_real_eq; cbn [Cdiv Cmult Cinv RtoC fst snd]; field; lra.
  - rewrite Q2R_0. reflexivity.
Qed.

Lemma eval_ppow th N : eval (PR_C th) (ppow pisqrt2 N) = RtoC ((/ sqrt 2) ^ N).
Proof.
  induction N as [|N IH]; cbn [ppow pow].
  - apply (eval_pone (PR_C th)).
  - rewrite (eval_pmul (PR_C th)), IH, eval_pisqrt2. cbn [kmul PR_C PO Cops]. rewrite <- RtoC_mult. reflexivity.
Qed.

Lemma INR_pow2 k : INR (2 ^ k) = 2 ^ k.
Proof. rewrite pow_INR. reflexivity. Qed.

Lemma eval_pdft th N r c : (N <= 5)%nat -> eval (PR_C th) (pdft N r c) = dftC N r c.
Proof.
  intros HN. unfold pdft, dftC. rewrite (eval_pmul (PR_C th)), eval_ppow, (eval_pu (PR_C th)), gu_pow_C.
  cbn [kmul PR_C PO Cops]. f_equal. f_equal.
  rewrite mult_INR, INR_pow2.
  assert (E : 2 ^ (5 - N) * 2 ^ N = 32) by (rewrite <- pow_add; replace (5 - N + N)%nat with 5%nat by lia; simpl; ring).
  pose proof (pow2_pos N). pose proof (pow2_pos (5 - N)).
  replace (2 ^ (5 - N)) with (32 / 2 ^ N) by (rewrite <- E; field; lra). field. lra.
Qed.

Lemma dft_ok_sound N : (N <= 5)%nat -> dft_ok N = true ->
  sem (map qden (qft_body N true false)) = sem [(dftC N, seq 0 N)].
Proof.
  intros HN H. unfold dft_ok in H. cbv zeta in H.
  apply andb_prop in H. destruct H as [H HT]. apply andb_prop in H. destruct H as [Hm Hw].
  set (body := qft_body N true false) in *. set (sc := map sym_of body) in *.
  set (th0 := th1 0).
  assert (L1 : localb N (sden sc) = true) by (apply swf_localb; exact Hw).
  assert (L2 : localb N [(pdft N, seq 0 N)] = true).
  { cbn [localb forallb snd]. rewrite andb_true_r. apply forallb_forall. intros t Ht. apply in_seq in Ht. apply Nat.ltb_lt. lia. }
  pose proof (sym_lift (PR_C th0) N (sden sc) [(pdft N, seq 0 N)] (seq 0 N) L1 L2 HT (seq_NoDup N 0) (seq_length N 0)) as E.
  rewrite !place_seq in E.
  2:{ unfold ecirc. cbn [map localb forallb snd fst]. exact L2. }
  2:{ unfold ecirc, localb. rewrite forallb_forall. intros g Hg. apply in_map_iff in Hg. destruct Hg as [g0 [<- Hg0]].
      cbn [snd]. unfold localb in L1. rewrite forallb_forall in L1. apply (L1 g0 Hg0). }
  transitivity (sem (ecirc (PR_C th0) (sden sc))); [| rewrite E]; apply sem_ext.
  - unfold ecirc, sden, sc. rewrite !map_map. apply Forall2_map_in. intros g Hg. cbn [fst snd sym_of]. unfold qden.
    rewrite forallb_forall in Hm. specialize (Hm g Hg).
    destruct (mtab (gmexp (gname g))) as [t1|] eqn:E1; [|discriminate].
    unfold swf in Hw. rewrite forallb_forall in Hw. specialize (Hw (sym_of g) (in_map sym_of _ _ Hg)).
    apply andb_prop in Hw. destruct Hw as [Hw _]. apply andb_prop in Hw. destruct Hw as [Har _].
    unfold arity_ok in Har. cbn [fst snd sym_of] in Har.
    destruct (mtab (msubst [angle_ex (garg g)] (gmexp (gname g)))) as [t2|] eqn:E2; [|discriminate].
    apply Nat.eqb_eq in Har. destruct (mtab_sound th0 _ t2 E2) as [Hl _]. rewrite mdim_msubst in Hl.
    change (emat (PR_C th0) (mmat (msubst [angle_ex (garg g)] (gmexp (gname g))))) with
      (cmat th0 (msubst [angle_ex (garg g)] (gmexp (gname g)))).
    apply (geq_reparam 0 (oval (garg g)) (angle_ex (garg g)) (gmexp (gname g)) t1 t2 (gqubits g) E1 E2); [congruence|].
    apply cden_angle_ex.
  - unfold ecirc. cbn [map fst snd]. constructor; [|constructor]. split; [reflexivity|]. cbn [fst snd]. intros r c _ _.
    unfold emat. apply eval_pdft. exact HN.
Qed.

Theorem qft_is_dft_upto5 N l : (N <= 5)%nat -> qft_gate_sequence N true false = Some l ->
  sem (map qden l) = sem [(dftC N, seq 0 N)].
Proof.
  intros HN H. apply qft_gate_sequence_inv in H. destruct H as [H1 ->].
  apply dft_ok_sound; [exact HN|].
  destruct N as [|[|[|[|[|[|N]]]]]]; try lia;
    [apply dft_ok_1 | apply dft_ok_2 | apply dft_ok_3 | apply dft_ok_4 | apply dft_ok_5].
Qed.

Theorem qft_cnot_is_dft_upto5 N lt lf : (N <= 5)%nat ->
  qft_gate_sequence N true true = Some lt -> qft_gate_sequence N true false = Some lf ->
  forall psi, sem (map qden lt) psi = sscale (cis (exp_angle lf)) (sem [(dftC N, seq 0 N)] psi).
Proof.
  intros HN Ht Hf psi. rewrite (to_cnot_upto_phase N true lt lf Ht Hf), (qft_is_dft_upto5 N lf HN Hf). reflexivity.
Qed.
