(* C16 -- the heap programs are equivariant under renaming of locations: running an operation on a heap that
   contains additional objects gives the same result up to the renaming of the freshly allocated locations.
   Used for repeatability of all operations (Proofs/HeapRepeat.v). *)
From Coq Require Import List Arith Bool Lia.
From QV Require Import Model.Heap Proofs.HeapBase Proofs.HeapPure Proofs.HeapFresh.
Import ListNotations.

Section Rename.
Variables (n d : nat).

(* locations below n are kept, locations from n on are shifted by d *)
Definition rl (l : nat) : nat := if l <? n then l else l + d.
Definition rv (v : val) : val := match v with Ref l => Ref (rl l) | Tok t => Tok t end.
Definition ro (o : list val) : list val := map rv o.

Definition Rel (H H' : heap) : Prop :=
  length H' = length H + d /\ n <= length H /\
  forall l, nth_error H' (rl l) = option_map ro (nth_error H l).

Lemma rl_lt l : l < n -> rl l = l.
Proof. intros H. unfold rl. apply Nat.ltb_lt in H. now rewrite H. Qed.

Lemma rl_ge l : n <= l -> rl l = l + d.
Proof. intros H. unfold rl. apply Nat.ltb_ge in H. now rewrite H. Qed.

Lemma rl_inj a b : rl a = rl b -> a = b.
Proof. unfold rl. destruct (Nat.ltb_spec a n), (Nat.ltb_spec b n); lia. Qed.

Lemma rl_bound H H' l : Rel H H' -> (l < length H <-> rl l < length H').
Proof.
  intros (HL & Hn & _). unfold rl. destruct (Nat.ltb_spec l n); lia.
Qed.

Lemma tokn_rv v : tokn (rv v) = tokn v.
Proof. now destruct v. Qed.

Lemma rv_old v : (forall l, v = Ref l -> l < n) -> rv v = v.
Proof. destruct v as [t|l]; simpl; auto. intros H. now rewrite rl_lt by (apply H; reflexivity). Qed.

Lemma objof_rel H H' v : Rel H H' -> objof H' (rv v) = ro (objof H v).
Proof.
  intros (_ & _ & Hr). destruct v as [t|l]; simpl; auto.
  rewrite Hr. now destruct (nth_error H l).
Qed.

Lemma fld_rel H H' v i : Rel H H' -> fld H' (rv v) i = rv (fld H v i).
Proof.
  intros HR. unfold fld. rewrite (objof_rel H H' v HR). unfold ro.
  change (Tok 0) with (rv (Tok 0)) at 1. apply map_nth.
Qed.

Lemma upd_ge {A} (l : list A) i x : length l <= i -> upd l i x = l.
Proof. revert i. induction l; intros [|i] H; simpl in *; auto; try lia. f_equal. apply IHl. lia. Qed.

Lemma upd_nth_eq {A} (l : list A) i x : i < length l -> nth_error (upd l i x) i = Some x.
Proof. revert i. induction l; intros [|i] H; simpl in *; auto; try lia. apply IHl. lia. Qed.

Lemma ro_upd o i x : ro (upd o i x) = upd (ro o) i (rv x).
Proof. revert i. induction o; intros [|i]; simpl; auto. f_equal. apply IHo. Qed.

Lemma alloc_rel H H' o : Rel H H' -> Rel (H ++ [o]) (H' ++ [ro o]) /\ rv (Ref (length H)) = Ref (length H').
Proof.
  intros (HL & Hn & Hr). split; [split; [|split]|].
  - rewrite !app_length. simpl. lia.
  - rewrite app_length. lia.
  - intros l. destruct (lt_dec l (length H)) as [Hl|Hl].
    + rewrite (nth_error_app1 H) by auto. rewrite nth_error_app1; [apply Hr|].
      apply (rl_bound H H' l); [repeat split; auto|auto].
    + destruct (Nat.eq_dec l (length H)) as [->|Hne].
      * rewrite rl_ge by auto. rewrite (nth_error_app2 H) by lia. rewrite Nat.sub_diag.
        rewrite nth_error_app2 by lia. replace (length H + d - length H') with 0 by lia. reflexivity.
      * rewrite rl_ge by lia. rewrite (proj2 (nth_error_None _ _)); [|rewrite app_length; simpl; lia].
        rewrite (proj2 (nth_error_None _ _)); [reflexivity|rewrite app_length; simpl; lia].
  - simpl. now rewrite rl_ge, HL by auto.
Qed.

Lemma upd_rel H H' l o : Rel H H' -> Rel (upd H l o) (upd H' (rl l) (ro o)).
Proof.
  intros HR. pose proof HR as (HL & Hn & Hr). split; [|split].
  - now rewrite !upd_length.
  - now rewrite upd_length.
  - intros m. destruct (Nat.eq_dec l m) as [->|Hne].
    + destruct (lt_dec m (length H)) as [Hm|Hm].
      * rewrite upd_nth_eq by (apply (rl_bound H H' m HR); auto). now rewrite upd_nth_eq by auto.
      * rewrite (upd_ge H) by lia. rewrite upd_ge; [apply Hr|].
        destruct (le_lt_dec (length H') (rl m)); auto. apply (rl_bound H H' m HR) in l. lia.
    + rewrite (upd_nth_ne H) by auto. rewrite upd_nth_ne; [apply Hr|]. intros E. apply rl_inj in E. auto.
Qed.

Lemma setfld_rel H H' v i x : Rel H H' -> Rel (setfld H v i x) (setfld H' (rv v) i (rv x)).
Proof.
  intros HR. pose proof HR as (_ & _ & Hr). destruct v as [t|l]; unfold setfld; cbn [rv]; auto.
  rewrite Hr. destruct (nth_error H l) as [o|]; cbn [option_map]; auto.
  rewrite <- ro_upd. now apply upd_rel.
Qed.

Lemma ins_sorted_ro x l : ins_sorted (rv x) (ro l) = ro (ins_sorted x l).
Proof.
  induction l as [|y l IH]; simpl; auto. rewrite !tokn_rv.
  destruct (tokn x <=? tokn y); simpl; auto. now rewrite IH.
Qed.

Lemma sort_toks_ro l : sort_toks (ro l) = ro (sort_toks l).
Proof. induction l as [|x l IH]; simpl; auto. unfold sort_toks in *. simpl. rewrite IH. apply ins_sorted_ro. Qed.

Lemma setobj_rel H H' v o : Rel H H' -> Rel (setobj H v o) (setobj H' (rv v) (ro o)).
Proof.
  intros HR. pose proof HR as (_ & _ & Hr). destruct v as [t|l]; unfold setobj; cbn [rv]; auto.
  rewrite Hr. destruct (nth_error H l) as [o0|]; cbn [option_map]; auto. now apply upd_rel.
Qed.

Lemma sort_fld_rel H H' g i : Rel H H' -> Rel (sort_fld H g i) (sort_fld H' (rv g) i).
Proof.
  intros HR. unfold sort_fld.
  rewrite (fld_rel H H' g i HR), (objof_rel H H' (fld H g i) HR), sort_toks_ro. now apply setobj_rel.
Qed.

Lemma snap_rel H H' : Rel H H' -> forall k v, snap k H' (rv v) = snap k H v.
Proof.
  intros (_ & _ & Hr). induction k as [|k IH]; intros [t|l]; cbn [snap rv]; auto.
  rewrite Hr. destruct (nth_error H l) as [o|]; cbn [option_map]; auto.
  f_equal. unfold ro. rewrite map_map. apply map_ext. intros v. apply IH.
Qed.

(* ---------------- equivariant heap functions ---------------- *)
Definition eqv (F : heap -> val -> option (heap * val)) : Prop :=
  forall H H' v H1 r, Rel H H' -> F H v = Some (H1, r) ->
  exists H1', F H' (rv v) = Some (H1', rv r) /\ Rel H1 H1'.

Lemma mapH_eqv F : eqv F -> forall vs H H' H1 vs', Rel H H' -> mapH F H vs = Some (H1, vs') ->
  exists H1', mapH F H' (ro vs) = Some (H1', ro vs') /\ Rel H1 H1'.
Proof.
  intros HF. induction vs as [|x xs IH]; simpl; intros H H' H1 vs' HR E.
  - inversion E; subst. exists H'. auto.
  - destruct (F H x) as [[h1 x']|] eqn:E1; try discriminate.
    destruct (mapH F h1 xs) as [[h2 xs']|] eqn:E2; try discriminate.
    inversion E; subst.
    destruct (HF _ _ _ _ _ HR E1) as (h1' & E1' & R1).
    destruct (IH _ _ _ _ R1 E2) as (h2' & E2' & R2).
    exists h2'. rewrite E1'. fold (ro xs). rewrite E2'. auto.
Qed.

Lemma dcopy_eqv f : eqv (dcopy f).
Proof.
  induction f as [|f IH]; intros H H' v H1 r HR E; destruct v as [t|l]; simpl in E; try discriminate.
  - inversion E; subst. exists H'. auto.
  - inversion E; subst. exists H'. auto.
  - pose proof HR as (_ & _ & Hr).
    destruct (nth_error H l) as [o|] eqn:El; try discriminate.
    destruct (mapH (dcopy f) H o) as [[h1 o']|] eqn:Em; try discriminate.
    inversion E; subst.
    destruct (mapH_eqv _ IH _ _ _ _ _ HR Em) as (h1' & Em' & R1).
    destruct (alloc_rel h1 h1' o' R1) as [R2 Ev].
    exists (h1' ++ [ro o']). simpl. rewrite Hr, El. simpl. rewrite Em'. unfold alloc. rewrite <- Ev. auto.
Qed.

Lemma opt_copy_eqv b : eqv (opt_copy b).
Proof.
  unfold opt_copy. destruct b; [apply dcopy_eqv|].
  intros H H' v H1 r HR E. inversion E; subst. exists H'. auto.
Qed.

Lemma gate_step_eqv ac m : eqv (gate_step ac m).
Proof.
  intros H H' g H1 r HR E. destruct m as [|[|[|m]]]; cbv beta iota delta [gate_step] in *.
  - eapply dcopy_eqv; eauto.
  - inversion E; subst. exists H'. auto.
  - unfold alloc in *. inversion E; subst.
    destruct (alloc_rel H H' (objof H g) HR) as [R2 Ev].
    exists (H' ++ [ro (objof H g)]). rewrite (objof_rel H H' g HR). rewrite <- Ev. auto.
  - rewrite !(fld_rel H H' g _ HR), !tokn_rv.
    destruct (dcopy FUEL H (fld H g 1)) as [[h1 t']|] eqn:E1; try discriminate.
    destruct (dcopy FUEL h1 (fld H g 2)) as [[h2 c']|] eqn:E2; try discriminate.
    destruct (if ac then dcopy FUEL h2 (fld H g 3) else Some (h2, fld H g 3)) as [[h3 a']|] eqn:E3; try discriminate.
    unfold alloc in E. inversion E; subst.
    destruct (dcopy_eqv _ _ _ _ _ _ HR E1) as (h1' & E1' & R1).
    destruct (dcopy_eqv _ _ _ _ _ _ R1 E2) as (h2' & E2' & R2).
    assert (X3 : exists h3', (if ac then dcopy FUEL h2' (rv (fld H g 3)) else Some (h2', rv (fld H g 3))) = Some (h3', rv a') /\ Rel h3 h3').
    { destruct ac; [eapply dcopy_eqv; eauto|]. inversion E3; subst. exists h2'. auto. }
    destruct X3 as (h3' & E3' & R3).
    rewrite E1', E2', E3'.
    match goal with |- context [alloc h3' ?o] => set (o' := o) end.
    destruct (alloc_rel h3 h3' [Tok (tokn (fld H g 0)); t'; c'; a'; Tok 0; Tok (tokn (fld H g 5))] R3) as [R4 Ev].
    exists (h3' ++ [o']). unfold alloc. rewrite <- Ev. auto.
Qed.

Lemma map_gates_eqv ac dd : forall gs ms H H' H1 gs', Rel H H' -> map_gates ac dd ms H gs = Some (H1, gs') ->
  exists H1', map_gates ac dd ms H' (ro gs) = Some (H1', ro gs') /\ Rel H1 H1'.
Proof.
  induction gs as [|g gs IH]; simpl; intros ms H H' H1 gs' HR E.
  - inversion E; subst. exists H'. auto.
  - destruct (gate_step ac (hd dd ms) H g) as [[h1 g']|] eqn:E1; try discriminate.
    destruct (map_gates ac dd (tl ms) h1 gs) as [[h2 gs'']|] eqn:E2; try discriminate.
    inversion E; subst.
    destruct (gate_step_eqv _ _ _ _ _ _ _ HR E1) as (h1' & E1' & R1).
    destruct (IH _ _ _ _ _ R1 E2) as (h2' & E2' & R2).
    exists h2'. rewrite E1'. fold (ro gs). rewrite E2'. auto.
Qed.

Lemma op_pass_eqv ic fin sio ac dd ms : eqv (op_pass ic fin sio ac dd ms).
Proof.
  intros H H' qc H1 r HR. unfold op_pass, alloc. destruct ic; cbv beta iota zeta delta [negb].
  - rewrite !(fld_rel H H' qc _ HR), !tokn_rv, (objof_rel H H' _ HR).
    destruct (map_gates ac dd ms H (objof H (fld H qc 0))) as [[h1 gs]|] eqn:E1; try discriminate.
    cbv beta iota zeta.
    match goal with |- context [opt_copy fin ?a ?b] => destruct (opt_copy fin a b) as [[h3 gl']|] eqn:E2; try discriminate end.
    match goal with |- context [opt_copy ?b h3 ?x] => destruct (opt_copy b h3 x) as [[h4 ins]|] eqn:E3; try discriminate end.
    match goal with |- context [opt_copy ?b h4 ?x] => destruct (opt_copy b h4 x) as [[h5 outs]|] eqn:E4; try discriminate end.
    intros E. inversion E; subst. clear E.
    destruct (map_gates_eqv _ _ _ _ _ _ _ _ HR E1) as (h1' & E1' & R1).
    rewrite E1'. cbv beta iota zeta.
    destruct (alloc_rel h1 h1' gs R1) as [R2 Ev2].
    destruct (opt_copy_eqv _ _ _ _ _ _ R2 E2) as (h3' & E2' & R3).
    rewrite Ev2 in E2'.
    match goal with |- context [opt_copy fin ?a ?b] => replace (opt_copy fin a b) with (Some (h3', rv gl')) by (symmetry; exact E2') end.
    destruct (opt_copy_eqv _ _ _ _ _ _ R3 E3) as (h4' & E3' & R4).
    match goal with |- context [opt_copy ?bb h3' ?b] => replace (opt_copy bb h3' b) with (Some (h4', rv ins)) by (symmetry; exact E3') end.
    destruct (opt_copy_eqv _ _ _ _ _ _ R4 E4) as (h5' & E4' & R5).
    match goal with |- context [opt_copy ?bb h4' ?b] => replace (opt_copy bb h4' b) with (Some (h5', rv outs)) by (symmetry; exact E4') end.
    destruct (alloc_rel h5 h5' [gl'; Tok (tokn (fld H qc 1)); Tok (tokn (fld H qc 2)); ins; outs] R5) as [R6 Ev6].
    eexists. split; [|exact R6]. simpl ro. rewrite <- Ev6. reflexivity.
  - intros E. injection E as <- <-.
    destruct (alloc_rel H H' [] HR) as [R1 Ev1].
    exists (setfld (H' ++ [ro []]) (rv qc) 0 (rv (Ref (length H)))). split.
    + simpl ro. rewrite Ev1. reflexivity.
    + now apply setfld_rel.
Qed.

Lemma instr_of_eqv ic : eqv (instr_of ic).
Proof.
  intros H H' g H1 r HR E. unfold instr_of in *.
  destruct (opt_copy ic H g) as [[h1 g1]|] eqn:E1; try discriminate.
  unfold alloc in E. inversion E; subst.
  destruct (opt_copy_eqv _ _ _ _ _ _ HR E1) as (h1' & E1' & R1). rewrite E1'.
  pose proof (sort_fld_rel _ _ g1 2 (sort_fld_rel _ _ g1 1 R1)) as R2.
  destruct (alloc_rel _ _ [g1; Tok 1; Tok 0] R2) as [R3 Ev].
  eexists. split; [|exact R3]. unfold alloc. simpl ro. rewrite <- Ev. reflexivity.
Qed.

Lemma node_of_eqv ic : eqv (node_of ic).
Proof.
  intros H H' x H1 r HR E. unfold node_of in *. rewrite (objof_rel H H' x HR). unfold ro. rewrite map_length.
  destruct (length (objof H x) =? 3).
  - inversion E; subst. eexists. split; [reflexivity|]. change (Tok 1) with (rv (Tok 1)). now apply setfld_rel.
  - eapply instr_of_eqv; eauto.
Qed.

Lemma map_const_ro (l : list val) : map (fun _ : val => Tok 0) (ro l) = ro (map (fun _ => Tok 0) l).
Proof. induction l; simpl; auto. f_equal. exact IHl. Qed.

Lemma op_schedule_eqv fl ic : eqv (op_schedule fl ic).
Proof.
  intros H H' a H1 r HR E. unfold op_schedule in *.
  destruct (opt_copy (f_sched_copy fl) H a) as [[h1 a1]|] eqn:E1; try discriminate.
  destruct (opt_copy_eqv _ _ _ _ _ _ HR E1) as (h1' & E1' & R1). rewrite E1'.
  assert (Hgl : (if ic then fld h1' (rv a1) 0 else rv a1) = rv (if ic then fld h1 a1 0 else a1)).
  { destruct ic; auto. now apply fld_rel. }
  rewrite Hgl.
  destruct (opt_copy (f_graph_copy fl) h1 _) as [[h2 gl2]|] eqn:E2; try discriminate.
  destruct (opt_copy_eqv _ _ _ _ _ _ R1 E2) as (h2' & E2' & R2). rewrite E2'.
  destruct (mapH (node_of (f_instr_copy fl)) h2 (objof h2 gl2)) as [[h3 nodes]|] eqn:E3; try discriminate.
  destruct (mapH_eqv _ (node_of_eqv _) _ _ _ _ _ R2 E3) as (h3' & E3' & R3).
  rewrite (objof_rel h2 h2' gl2 R2). rewrite E3'.
  unfold alloc in *. inversion E; subst.
  destruct (alloc_rel h3 h3' (map (fun _ => Tok 0) nodes) R3) as [R4 Ev].
  eexists. split; [|exact R4]. rewrite map_const_ro, <- Ev. reflexivity.
Qed.

Lemma compile_heap_rel fl H H' gl H1 : Rel H H' -> compile_heap fl H gl = Some H1 ->
  exists H1', compile_heap fl H' (rv gl) = Some H1' /\ Rel H1 H1'.
Proof.
  intros HR E. unfold compile_heap in *.
  destruct (mapH (instr_of (f_instr_copy fl)) H (objof H gl)) as [[h1 xs]|] eqn:E1; try discriminate.
  inversion E; subst.
  destruct (mapH_eqv _ (instr_of_eqv _) _ _ _ _ _ HR E1) as (h1' & E1' & R1).
  rewrite (objof_rel H H' gl HR), E1'. eauto.
Qed.

(* ---------------- simulator ---------------- *)
Lemma usable_rel H H' qc cb : Rel H H' -> usable H' (rv qc) (rv cb) = usable H qc cb.
Proof.
  intros HR. pose proof HR as (_ & _ & Hr). unfold usable. destruct cb as [t|l]; cbn [rv]; auto.
  rewrite Hr. destruct (nth_error H l) as [o|]; cbn [option_map]; auto.
  rewrite (fld_rel H H' qc 2 HR), tokn_rv. unfold ro. rewrite map_length. now destruct o.
Qed.

Lemma ro_tok_map (l : list val) : ro (map (fun v => Tok (tokn v)) l) = map (fun v => Tok (tokn v)) (ro l).
Proof. induction l; simpl; auto. rewrite tokn_rv. f_equal. exact IHl. Qed.

Lemma ro_repeat k : ro (repeat (Tok 0) k) = repeat (Tok 0) k.
Proof. induction k; simpl; auto. f_equal. exact IHk. Qed.

Lemma init_cbits_rel cc H H' qc cb h1 c : Rel H H' -> init_cbits cc H qc cb = (h1, c) ->
  exists h1', init_cbits cc H' (rv qc) (rv cb) = (h1', rv c) /\ Rel h1 h1'.
Proof.
  intros HR E. unfold init_cbits in *. rewrite (usable_rel H H' qc cb HR).
  rewrite (fld_rel H H' qc 2 HR), tokn_rv. unfold alloc in *.
  destruct (usable H qc cb).
  - destruct cc; inversion E; subst.
    + destruct (alloc_rel H H' (map (fun v => Tok (tokn v)) (objof H cb)) HR) as [R1 Ev].
      eexists. split; [|exact R1]. rewrite (objof_rel H H' cb HR), <- ro_tok_map, <- Ev. reflexivity.
    + eauto.
  - destruct (tokn (fld H qc 2)); inversion E; subst.
    + eauto.
    + destruct (alloc_rel H H' (repeat (Tok 0) (S n0)) HR) as [R1 Ev].
      eexists. split; [|exact R1]. rewrite <- Ev. rewrite <- (ro_repeat (S n0)) at 1. reflexivity.
Qed.

Lemma meas_writes_rel cbv : forall gs H H' mr, Rel H H' ->
  Rel (meas_writes H cbv gs mr) (meas_writes H' (rv cbv) (ro gs) mr).
Proof.
  induction gs as [|g gs IH]; simpl; intros H H' mr HR; auto.
  rewrite !(fld_rel H H' g _ HR), !tokn_rv.
  destruct (tokn (fld H g 0)); [destruct (tokn (fld H g 5))|]; auto.
  apply IH. change (Tok (hd 2 mr)) with (rv (Tok (hd 2 mr))). now apply setfld_rel.
Qed.

Lemma run_core_rel fl dm H H' qc cb mr h1 c : Rel H H' -> run_core fl dm H qc cb mr = (h1, c) ->
  exists h1', run_core fl dm H' (rv qc) (rv cb) mr = (h1', rv c) /\ Rel h1 h1'.
Proof.
  intros HR E. unfold run_core in *.
  destruct (init_cbits (f_sim_cbits_copy fl) H qc cb) as [h2 c2] eqn:Ei.
  destruct (init_cbits_rel _ _ _ _ _ _ _ HR Ei) as (h2' & Ei' & R2). rewrite Ei'.
  inversion E; subst. destruct dm.
  - eauto.
  - eexists. split; [reflexivity|].
    rewrite (fld_rel h2 h2' qc 0 R2), (objof_rel h2 h2' _ R2). now apply meas_writes_rel.
Qed.

Lemma result_of_rel H H' stok c h1 r : Rel H H' -> result_of H stok c = (h1, r) ->
  exists h1', result_of H' stok (rv c) = (h1', rv r) /\ Rel h1 h1'.
Proof.
  intros HR E. unfold result_of, alloc in *. destruct c as [t|l]; simpl rv.
  - inversion E; subst. destruct (alloc_rel H H' [Tok stok; Tok 0] HR) as [R1 Ev].
    eexists. split; [|exact R1]. rewrite <- Ev. reflexivity.
  - inversion E; subst.
    destruct (alloc_rel H H' [Ref l] HR) as [R1 Ev1].
    destruct (alloc_rel _ _ [Tok stok; Ref (length H)] R1) as [R2 Ev2].
    cbn [ro map rv] in *. injection Ev1 as Ev1. injection Ev2 as Ev2. rewrite Ev1 in R2.
    exists ((H' ++ [[Ref (rl l)]]) ++ [[Tok stok; Ref (length H')]]). split; [|exact R2].
    rewrite Ev2. reflexivity.
Qed.

Lemma stats_loop_rel fl dm qc cb : forall runs H H' acc h1 cbs last, Rel H H' ->
  stats_loop fl dm H qc cb runs acc = (h1, cbs, last) ->
  exists h1', stats_loop fl dm H' (rv qc) (rv cb) runs (ro acc) = (h1', ro cbs, rv last) /\ Rel h1 h1'.
Proof.
  induction runs as [|mr rest IH]; simpl; intros H H' acc h1 cbs last HR E.
  - inversion E; subst. eauto.
  - destruct (run_core fl dm H qc cb mr) as [h2 c] eqn:Er.
    destruct (run_core_rel _ _ _ _ _ _ _ _ _ HR Er) as (h2' & Er' & R2). rewrite Er'.
    assert (Hacc : ro acc ++ [rv c] = ro (acc ++ [c])) by (unfold ro; now rewrite map_app).
    rewrite Hacc. destruct rest.
    + inversion E; subst. eauto.
    + eapply IH; eauto.
Qed.

Lemma stats_result_rel H H' stok cbs h1 r : Rel H H' -> stats_result H stok cbs = (h1, r) ->
  exists h1', stats_result H' stok (ro cbs) = (h1', rv r) /\ Rel h1 h1'.
Proof.
  intros HR E. unfold stats_result, alloc in *. inversion E; subst.
  destruct (alloc_rel H H' cbs HR) as [R1 Ev1].
  destruct (alloc_rel _ _ [Tok stok; Ref (length H)] R1) as [R2 Ev2].
  cbn [map rv] in Ev1, Ev2. unfold ro at 2 in R2. cbn [map rv] in R2.
  injection Ev1 as Ev1. injection Ev2 as Ev2. rewrite Ev1 in R2.
  exists ((H' ++ [ro cbs]) ++ [[Tok stok; Ref (length H')]]). split; [|exact R2].
  cbn [rv]. rewrite Ev2. reflexivity.
Qed.

Lemma n_meas_rel H H' qc : Rel H H' -> n_meas H' (rv qc) = n_meas H qc.
Proof.
  intros HR. unfold n_meas. rewrite (fld_rel H H' qc 0 HR), (objof_rel H H' _ HR).
  induction (objof H (fld H qc 0)) as [|g gs IH]; simpl; auto.
  rewrite (fld_rel H H' g 0 HR), tokn_rv. destruct (tokn (fld H g 0) =? 0); simpl; auto.
Qed.

End Rename.
