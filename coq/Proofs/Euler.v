(* C17, decomposition half: for every 2x2 unitary the ordered product of the gates returned by each method is the
   input matrix, global phase included.
   (1) symbolic identities (vm_compute over the exact ring KS, for ALL angle values): with the angle arithmetic of
       _angles_for_ZYZ substituted, the product of each generated tuple equals the parametrised matrix [uprim];
   (2) algebra in C: at the values the external functions (specified as Section hypotheses) produce for a unitary U,
       [uprim] is U. *)
From Coq Require Import Reals Lra Lia List String FunctionalExtensionality Ring QArith Qreals Bool.
From Coquelicot Require Import Coquelicot.
From QV Require Import Found.Base Found.Lemmas Found.KS Found.KSProofs Found.Sym Found.SymProofs Found.Conj Found.CInst.
From QV Require Import Gen.Gates Gen.SingleQubit Model.SingleQubit Proofs.C17Sem.
Import ListNotations.
Local Open Scope string_scope.
Local Open Scope list_scope.

(* ---- the parametrised unitary over the primitives Var 0 = pa, Var 1 = pb, Var 2 = t, Var 3 = pn ---- *)
Definition ph (e : ex) : ex := Exp (Mul (Imag 1) e).
Definition uprim : mexp := MLit
 [[Mul (ph (Neg (Add (Var 3) (Var 0)))) (Cos (Var 2)); Mul (ph (Neg (Add (Var 3) (Var 1)))) (Sin (Var 2))];
  [Neg (Mul (ph (Sub (Var 1) (Var 3))) (Sin (Var 2))); Mul (ph (Sub (Var 0) (Var 3))) (Cos (Var 2))]].

Fixpoint realb (e : ex) : bool :=
  match e with
  | Num _ | Pi | Var _ => true
  | Add a b | Sub a b | Mul a b => realb a && realb b
  | Neg a => realb a
  | Div a (Num _) => realb a
  | _ => false
  end.

Definition param_ok (method : string) : bool :=
  match method_product method with
  | Some P => Nat.eqb (mdim P) 2 && meqb (msubst sq_angles P) uprim
  | None => false
  end.
Definition angles_real : bool := forallb realb sq_angles.

Lemma param_ok_zyz : param_ok "ZYZ" = true. Proof. vm_compute. reflexivity. Qed.
Lemma param_ok_zxz : param_ok "ZXZ" = true. Proof. vm_compute. reflexivity. Qed.
Lemma param_ok_zyz_paulix : param_ok "ZYZ_PauliX" = true. Proof. vm_compute. reflexivity. Qed.
Lemma angles_real_true : angles_real = true. Proof. vm_compute. reflexivity. Qed.
Lemma axes_ok_all : axes_ok "ZYZ" = true /\ axes_ok "ZXZ" = true /\ axes_ok "ZYZ_PauliX" = true.
Proof. repeat split; vm_compute; reflexivity. Qed.

Local Open Scope R_scope.

Lemma realb_sound th e : realb e = true -> Im (cden th e) = 0.
Proof.
  induction e; cbn [realb cden]; intros H; try discriminate; try reflexivity;
    try (apply andb_prop in H; destruct H as [H1 H2]; specialize (IHe1 H1); specialize (IHe2 H2)).
  - unfold Im in *. cbn [Cplus snd]. rewrite IHe1, IHe2. ring.
  - unfold Im in *. cbn [Cminus Cplus Copp snd]. rewrite IHe1, IHe2. ring.
  - unfold Im in *. cbn [Cmult snd]. rewrite IHe1, IHe2. ring.
  - destruct e2; try discriminate. specialize (IHe1 H). unfold Im in *. cbn [cden Cdiv Cmult Cinv RtoC fst snd].
    rewrite IHe1. unfold Rdiv. ring.
  - specialize (IHe H). unfold Im in *. cbn [Copp snd]. rewrite IHe. ring.
Qed.

Lemma param_sound method P th : method_product method = Some P -> param_ok method = true ->
  forall i j, (i < 2)%nat -> (j < 2)%nat -> mden th (msubst sq_angles P) i j = mden th uprim i j.
Proof.
  intros HP H i j Hi Hj. unfold param_ok in H. rewrite HP in H. apply andb_prop in H. destruct H as [Hd H].
  apply Nat.eqb_eq in Hd. unfold meqb in H.
  destruct (mtab (msubst sq_angles P)) as [A|] eqn:EA; [|discriminate].
  destruct (mtab uprim) as [B|] eqn:EB; [|discriminate].
  destruct (mtab_sound th _ A EA) as [_ SA]. destruct (mtab_sound th _ B EB) as [_ SB].
  rewrite <- SA by (rewrite mdim_msubst, Hd; assumption). rewrite <- SB by assumption.
  apply (ptab_eqb_sound (PR_C th)). exact H.
Qed.

(* ---- evaluation of the entries of [uprim] ---- *)
Lemma cden_ph th e x : cden th e = RtoC x -> cden th (ph e) = cis x.
Proof.
  intros H. unfold ph. cbn [cden]. rewrite H, Q2R_1.
  replace (Cmult (Cmult Ci (RtoC 1)) (RtoC x)) with (Cmult Ci (RtoC x)) by (apply Ceq; simpl; ring).
  apply Cexp_i.
Qed.

Lemma uprim_entries th :
  mden th uprim 0 0 = Cmult (cis (- (th 3%nat + th 0%nat))) (RtoC (cos (th 2%nat))) /\
  mden th uprim 0 1 = Cmult (cis (- (th 3%nat + th 1%nat))) (RtoC (sin (th 2%nat))) /\
  mden th uprim 1 0 = Copp (Cmult (cis (th 1%nat - th 3%nat)) (RtoC (sin (th 2%nat)))) /\
  mden th uprim 1 1 = Cmult (cis (th 0%nat - th 3%nat)) (RtoC (cos (th 2%nat))).
Proof.
  assert (E0 : cden th (Neg (Add (Var 3) (Var 0))) = RtoC (- (th 3%nat + th 0%nat)))
    by (cbn [cden]; apply RtoC_real_eq; cbn [Copp Cplus RtoC fst snd]; ring).
  assert (E1 : cden th (Neg (Add (Var 3) (Var 1))) = RtoC (- (th 3%nat + th 1%nat)))
    by (cbn [cden]; apply RtoC_real_eq; cbn [Copp Cplus RtoC fst snd]; ring).
  assert (E2 : cden th (Sub (Var 1) (Var 3)) = RtoC (th 1%nat - th 3%nat))
    by (cbn [cden]; apply RtoC_real_eq; cbn [Cminus Copp Cplus RtoC fst snd]; ring).
  assert (E3 : cden th (Sub (Var 0) (Var 3)) = RtoC (th 0%nat - th 3%nat))
    by (cbn [cden]; apply RtoC_real_eq; cbn [Cminus Copp Cplus RtoC fst snd]; ring).
  unfold uprim. cbn [mden nth]. repeat split.
  - change (cden th (Mul (ph (Neg (Add (Var 3) (Var 0)))) (Cos (Var 2)))) with
      (Cmult (cden th (ph (Neg (Add (Var 3) (Var 0))))) (RtoC (cos (th 2%nat)))).
    rewrite (cden_ph th _ _ E0). reflexivity.
  - change (cden th (Mul (ph (Neg (Add (Var 3) (Var 1)))) (Sin (Var 2)))) with
      (Cmult (cden th (ph (Neg (Add (Var 3) (Var 1))))) (RtoC (sin (th 2%nat)))).
    rewrite (cden_ph th _ _ E1). reflexivity.
  - change (cden th (Neg (Mul (ph (Sub (Var 1) (Var 3))) (Sin (Var 2))))) with
      (Copp (Cmult (cden th (ph (Sub (Var 1) (Var 3)))) (RtoC (sin (th 2%nat))))).
    rewrite (cden_ph th _ _ E2). reflexivity.
  - change (cden th (Mul (ph (Sub (Var 0) (Var 3))) (Cos (Var 2)))) with
      (Cmult (cden th (ph (Sub (Var 0) (Var 3)))) (RtoC (cos (th 2%nat)))).
    rewrite (cden_ph th _ _ E3). reflexivity.
Qed.

(* ---- 2x2 unitaries ---- *)
Section Alg.
Variable U : m2.
Hypothesis HU : unitary2 U.
Notation a00 := (u00 U). Notation a01 := (u01 U). Notation a10 := (u10 U). Notation a11 := (u11 U).
Notation d := (det2 U).
Local Open Scope C_scope.

Lemma F1 : a11 = Cconj a00 * d.
Proof.
  destruct HU as [E1 [E2 _]].
  assert (X : Cconj a00 * d - a11 = a11 * ((Cconj a00 * a00 + Cconj a10 * a10) - 1) - a10 * (Cconj a00 * a01 + Cconj a10 * a11))
    by (unfold det2; ring).
  change (Cplus (Cmult (Cconj a00) a00) (Cmult (Cconj a10) a10) = 1) in E1.
  change (Cplus (Cmult (Cconj a00) a01) (Cmult (Cconj a10) a11) = 0) in E2.
  rewrite E1, E2 in X.
  replace a11 with (Cconj a00 * d - (Cconj a00 * d - a11)) at 1 by ring. rewrite X. ring.
Qed.

Lemma F2 : a10 = - (Cconj a01 * d).
Proof.
  destruct HU as [_ [_ [E3 E4]]].
  assert (X : Cconj a01 * d + a10 = a11 * (Cconj a01 * a00 + Cconj a11 * a10) - a10 * ((Cconj a01 * a01 + Cconj a11 * a11) - 1))
    by (unfold det2; ring).
  change (Cplus (Cmult (Cconj a01) a00) (Cmult (Cconj a11) a10) = 0) in E3.
  change (Cplus (Cmult (Cconj a01) a01) (Cmult (Cconj a11) a11) = 1) in E4.
  rewrite E3, E4 in X.
  replace a10 with ((Cconj a01 * d + a10) - Cconj a01 * d) at 1 by ring. rewrite X. ring.
Qed.

Lemma det_unit : Cconj d * d = 1.
Proof.
  destruct HU as [E1 [E2 [E3 E4]]].
  transitivity ((Cconj a00 * a00 + Cconj a10 * a10) * (Cconj a01 * a01 + Cconj a11 * a11)
                - (Cconj a00 * a01 + Cconj a10 * a11) * (Cconj a01 * a00 + Cconj a11 * a10)).
  - unfold det2, Cminus. rewrite Cconj_add, Cconj_opp, !Cconj_mul. ring.
  - change (Cplus (Cmult (Cconj a00) a00) (Cmult (Cconj a10) a10) = 1) in E1.
    change (Cplus (Cmult (Cconj a00) a01) (Cmult (Cconj a10) a11) = 0) in E2.
    change (Cplus (Cmult (Cconj a01) a00) (Cmult (Cconj a11) a10) = 0) in E3.
    change (Cplus (Cmult (Cconj a01) a01) (Cmult (Cconj a11) a11) = 1) in E4.
    rewrite E1, E2, E3, E4. ring.
Qed.
End Alg.

(* ---- the external functions and their specifications ---- *)
Section Euler.
Variable cphase : C -> R.
Variable csqrt : C -> C.
Variable atan2 : R -> R -> R.
Hypothesis phase_spec : forall z : C, z = Cmult (RtoC (Cmod z)) (cis (cphase z)).
Hypothesis sqrt_spec : forall z : C, Cmult (csqrt z) (csqrt z) = z.
Hypothesis atan2_spec : forall y x : R, 0 < x * x + y * y ->
  cos (atan2 y x) = x / sqrt (x * x + y * y) /\ sin (atan2 y x) = y / sqrt (x * x + y * y).

Variable U : m2.
Hypothesis HU : unitary2 U.
Notation n := (norm_const csqrt U).
Notation inv := (Cdiv (RtoC 1) n).
Notation an := (a_negative csqrt U).
Notation bn := (b_negative csqrt U).
Notation P := (prims cphase csqrt atan2 U).
Local Open Scope C_scope.

Lemma Cmod_sq (z : C) : Cconj z * z = RtoC (Cmod z * Cmod z).
Proof.
  unfold Cmod. rewrite sqrt_sqrt by nra. apply Ceq; simpl; ring.
Qed.

Lemma n_sq : n * n = det2 U. Proof. apply sqrt_spec. Qed.

Lemma Cmod_n : Cmod n = 1%R.
Proof.
  pose proof (det_unit U HU) as D. rewrite Cmod_sq in D. apply (f_equal fst) in D. cbn [fst RtoC] in D.
  pose proof (Cmod_ge_0 (det2 U)) as G. assert (Dm : Cmod (det2 U) = 1%R) by nra.
  rewrite <- n_sq, Cmod_mult in Dm. pose proof (Cmod_ge_0 n) as Gn. nra.
Qed.

Lemma n_neq0 : n <> 0.
Proof. intros E. pose proof Cmod_n as M. rewrite E, Cmod_0 in M. lra. Qed.

Lemma inv_n : inv * n = 1.
Proof. unfold Cdiv. rewrite Cmult_1_l. apply Cinv_l, n_neq0. Qed.

Lemma inv_cis : inv = cis (P 3%nat).
Proof.
  cbn [prims]. rewrite (phase_spec inv) at 1.
  replace (Cmod inv) with 1%R; [apply Cmult_1_l|].
  unfold Cdiv. rewrite Cmult_1_l, Cmod_inv by apply n_neq0. rewrite Cmod_n. field.
Qed.

Lemma n_cis : n = cis (- P 3%nat).
Proof.
  transitivity (cis (- P 3%nat) * (inv * n)).
  - rewrite inv_cis at 1. rewrite Cmult_assoc, (Cmult_comm (cis _)), cis_inv. ring.
  - rewrite inv_n. ring.
Qed.

Lemma conj_inv : Cconj inv = n.
Proof. rewrite inv_cis, cis_conj. symmetry. apply n_cis. Qed.

Lemma negate_im_conj x : negate_im x = Cconj x.
Proof. destruct x as [a b]. unfold negate_im, Re, Im, Cconj, Cminus, Cplus, Copp, Cmult, Ci, RtoC. cbn [fst snd]. apply Ceq; cbn [fst snd]; ring. Qed.

Lemma an_eq : an = Cconj (u00 U) * n.
Proof. unfold a_negative, normed. rewrite negate_im_conj, Cconj_mul, conj_inv. reflexivity. Qed.
Lemma bn_eq : bn = Cconj (u01 U) * n.
Proof. unfold b_negative, normed. rewrite negate_im_conj, Cconj_mul, conj_inv. reflexivity. Qed.

Lemma Cconj_conj z : Cconj (Cconj z) = z.
Proof. apply Ceq; simpl; ring. Qed.

Lemma n_unit : Cconj n * n = 1.
Proof. rewrite Cmod_sq, Cmod_n. apply Ceq; simpl; ring. Qed.

(* |a|^2 + |b|^2 = 1 *)
Lemma mods_unit : (Cmod an * Cmod an + Cmod bn * Cmod bn = 1)%R.
Proof.
  assert (E : RtoC (Cmod an * Cmod an + Cmod bn * Cmod bn) = 1).
  { rewrite RtoC_plus, <- !Cmod_sq, an_eq, bn_eq, !Cconj_mul, !Cconj_conj.
    transitivity ((Cconj n * n) * (Cconj (u00 U) * u00 U + Cconj (u01 U) * u01 U)); [ring|].
    rewrite n_unit, Cmult_1_l.
    (* |u01|^2 = |u10|^2 by F2 and |det| = 1 *)
    assert (E10 : Cconj (u10 U) * u10 U = Cconj (u01 U) * u01 U).
    { rewrite (F2 U HU) at 1 2. rewrite Cconj_opp, Cconj_mul, Cconj_conj.
      transitivity ((Cconj (det2 U) * det2 U) * (Cconj (u01 U) * u01 U)); [ring|].
      rewrite (det_unit U HU). ring. }
    rewrite <- E10. destruct HU as [E1 _]. exact E1. }
  apply (f_equal fst) in E. exact E.
Qed.

Lemma cos_t : cos (P 2%nat) = Cmod an /\ sin (P 2%nat) = Cmod bn.
Proof.
  cbn [prims]. pose proof mods_unit as M.
  destruct (atan2_spec (Cmod bn) (Cmod an)) as [Hc Hs]; [lra|].
  rewrite Hc, Hs, M, sqrt_1. split; field.
Qed.

Lemma an_polar : an = RtoC (Cmod an) * cis (P 0%nat). Proof. apply phase_spec. Qed.
Lemma bn_polar : bn = RtoC (Cmod bn) * cis (P 1%nat). Proof. apply phase_spec. Qed.

Theorem uprim_is_U : forall i j, (i < 2)%nat -> (j < 2)%nat -> mden P uprim i j = entry U i j.
Proof.
  destruct (uprim_entries P) as [E00 [E01 [E10 E11]]]. destruct cos_t as [Hc Hs].
  intros i j Hi Hj.
  destruct i as [|[|i]]; [| |lia]; (destruct j as [|[|j]]; [| |lia]); cbn [entry].
  - rewrite E00, Hc. replace (- (P 3%nat + P 0%nat))%R with (- P 3%nat + - P 0%nat)%R by ring.
    rewrite cis_add, <- n_cis, cis_neg.
    transitivity (n * Cconj (RtoC (Cmod an) * cis (P 0%nat))); [rewrite Cconj_mul, Cconj_R; ring|].
    rewrite <- an_polar, an_eq, Cconj_mul, Cconj_conj.
    transitivity (u00 U * (Cconj n * n)); [ring|]. rewrite n_unit. ring.
  - rewrite E01, Hs. replace (- (P 3%nat + P 1%nat))%R with (- P 3%nat + - P 1%nat)%R by ring.
    rewrite cis_add, <- n_cis, cis_neg.
    transitivity (n * Cconj (RtoC (Cmod bn) * cis (P 1%nat))); [rewrite Cconj_mul, Cconj_R; ring|].
    rewrite <- bn_polar, bn_eq, Cconj_mul, Cconj_conj.
    transitivity (u01 U * (Cconj n * n)); [ring|]. rewrite n_unit. ring.
  - rewrite E10, Hs. replace (P 1%nat - P 3%nat)%R with (- P 3%nat + P 1%nat)%R by ring.
    rewrite cis_add, <- n_cis.
    transitivity (- (n * (RtoC (Cmod bn) * cis (P 1%nat)))); [ring|].
    rewrite <- bn_polar, bn_eq. rewrite (F2 U HU), <- n_sq. ring.
  - rewrite E11, Hc. replace (P 0%nat - P 3%nat)%R with (- P 3%nat + P 0%nat)%R by ring.
    rewrite cis_add, <- n_cis.
    transitivity (n * (RtoC (Cmod an) * cis (P 0%nat))); [ring|].
    rewrite <- an_polar, an_eq. rewrite (F1 U HU), <- n_sq. ring.
Qed.
(* the returned angles are real, so evaluating the tuple at them = substituting the angle arithmetic *)
Lemma angles_env : forall j, cden P (nth j sq_angles (Var j)) = RtoC (angles cphase csqrt atan2 U j).
Proof.
  intros j. unfold angles. apply RtoC_real_eq; [reflexivity|].
  apply (realb_sound P). destruct (Nat.lt_ge_cases j (length sq_angles)) as [L|L].
  - pose proof angles_real_true as A. unfold angles_real in A. rewrite forallb_forall in A. apply A. apply nth_In. exact L.
  - rewrite nth_overflow by exact L. reflexivity.
Qed.

Theorem method_exact method Pm : method_product method = Some Pm -> param_ok method = true ->
  forall i j, (i < 2)%nat -> (j < 2)%nat -> mden (angles cphase csqrt atan2 U) Pm i j = entry U i j.
Proof.
  intros HP Hok i j Hi Hj.
  rewrite <- (mden_msubst P (angles cphase csqrt atan2 U) sq_angles angles_env Pm i j).
  rewrite (param_sound method Pm P HP Hok i j Hi Hj). apply uprim_is_U; assumption.
Qed.
End Euler.

(* ---- statements used by Props/C17.v ---- *)
(* specification of the external numeric functions *)
Definition phase_spec (cphase : C -> R) : Prop := forall z : C, z = Cmult (RtoC (Cmod z)) (cis (cphase z)).
Definition sqrt_spec (csqrt : C -> C) : Prop := forall z : C, Cmult (csqrt z) (csqrt z) = z.
Definition atan2_spec (atan2 : R -> R -> R) : Prop := forall y x : R, (0 < x * x + y * y)%R ->
  cos (atan2 y x) = (x / sqrt (x * x + y * y))%R /\ sin (atan2 y x) = (y / sqrt (x * x + y * y))%R.

(* for every unitary U: the ordered product of the gates the method returns, evaluated at the angles the code extracts
   from U, is U - entry by entry, global phase included *)
Definition exact_for (method : string) : Prop :=
  forall cphase csqrt atan2, phase_spec cphase -> sqrt_spec csqrt -> atan2_spec atan2 ->
  forall U, unitary2 U ->
  exists P, method_product method = Some P /\
    forall i j, (i < 2)%nat -> (j < 2)%nat -> mden (angles cphase csqrt atan2 U) P i j = entry U i j.

Lemma param_ok_some method : param_ok method = true -> exists P, method_product method = Some P.
Proof. unfold param_ok. destruct (method_product method) as [P|]; [eauto| discriminate]. Qed.

Lemma exact_of_param_ok method : param_ok method = true -> exact_for method.
Proof.
  intros Hok f s a Hf Hs Ha U HU. destruct (param_ok_some method Hok) as [P E]. exists P. split; [exact E|].
  exact (method_exact f s a Hf Hs Ha U HU method P E Hok).
Qed.

Lemma zyz_exact_l : exact_for "ZYZ". Proof. exact (exact_of_param_ok _ param_ok_zyz). Qed.
Lemma zxz_exact_l : exact_for "ZXZ". Proof. exact (exact_of_param_ok _ param_ok_zxz). Qed.
Lemma zyz_paulix_exact_l : exact_for "ZYZ_PauliX". Proof. exact (exact_of_param_ok _ param_ok_zyz_paulix). Qed.

Lemma methods_three : map fst sq_methods = ["ZYZ"; "ZXZ"; "ZYZ_PauliX"]%string.
Proof. reflexivity. Qed.
