(* C16 -- service objects (simulators, compilers, processors): a used one behaves like a fresh one, queries do
   not change the pulses a processor holds, repeated service calls return equal results. *)
From Coq Require Import List Arith Bool Lia.
From QV Require Import Model.Heap Proofs.HeapBase.
Import ListNotations.

Lemma nth_upd_eq {A} (l : list A) n x d : n < length l -> nth n (upd l n x) d = x.
Proof. revert n. induction l; intros [|n] H; simpl in *; try lia; auto. apply IHl. lia. Qed.

Lemma nth_upd_ne {A} (l : list A) n m x d : n <> m -> nth m (upd l n x) d = nth m l d.
Proof. revert n m. induction l; intros [|n] [|m] H; simpl; auto; try congruence. Qed.

Lemma nth_upd_any {A} (l : list A) n m x d : n < length l -> nth m (upd l n x) d = if Nat.eqb n m then x else nth m l d.
Proof.
  intros H. destruct (Nat.eqb n m) eqn:E.
  - apply Nat.eqb_eq in E. subst. now apply nth_upd_eq.
  - apply Nat.eqb_neq in E. now apply nth_upd_ne.
Qed.

(* ---------------- simulators ---------------- *)
(* whatever a simulator holds from earlier runs (classical bits, state, probability, counters) has no
   influence on the next run: same heap afterwards, same result *)
Theorem sim_used_equals_fresh fl w s cb st :
  f_sim_reinit fl = true -> s < length (sims w) ->
  (forall mr, match exec fl w (CSimRun s cb st mr), exec fl (fresh_world w (CSimRun s cb st mr)) (CSimRun s cb st mr) with
              | Some (w1, r1), Some (w2, r2) => hp w1 = hp w2 /\ r1 = r2 /\ procs w1 = procs w2 /\ comps w1 = comps w2
              | _, _ => False
              end) /\
  match exec fl w (CSimStats s cb st), exec fl (fresh_world w (CSimStats s cb st)) (CSimStats s cb st) with
  | Some (w1, r1), Some (w2, r2) => hp w1 = hp w2 /\ r1 = r2 /\ procs w1 = procs w2 /\ comps w1 = comps w2
  | _, _ => False
  end.
Proof.
  intros Hr Hs. split.
  - intros mr. cbv beta iota zeta delta [exec fresh_world]. simpl sims. simpl hp. simpl comps. simpl procs.
    rewrite nth_upd_eq by exact Hs. simpl s_qc. simpl s_dm. simpl s_dirty. rewrite Hr.
    destruct (run_core fl (s_dm (nth s (sims w) dsim)) (hp w) (s_qc (nth s (sims w) dsim)) cb mr) as [h1 cbv].
    rewrite !Nat.add_0_r.
    destruct (result_of h1 st cbv) as [h2 r]. simpl. auto.
  - cbv beta iota zeta delta [exec fresh_world]. simpl sims. simpl hp. simpl comps. simpl procs.
    rewrite nth_upd_eq by exact Hs. simpl s_qc. simpl s_dm. simpl s_dirty. rewrite Hr.
    destruct (stats_loop fl (s_dm (nth s (sims w) dsim)) (hp w) (s_qc (nth s (sims w) dsim)) cb
                         (tuples (n_meas (hp w) (s_qc (nth s (sims w) dsim)))) []) as [[h1 cbs] last].
    rewrite !Nat.add_0_r.
    destruct (stats_result h1 st cbs) as [h2 r]. simpl. auto.
Qed.

(* ---------------- compilers ---------------- *)
Lemma comp_run_fresh fl k args dphi :
  f_compile_resets_gp fl = true -> f_compile_args_local fl = true ->
  let '(k1, e1, g1) := comp_run fl k args dphi in
  let '(k2, e2, g2) := comp_run fl (mkComp (k_gp0 k) (k_gp0 k) (k_args0 k) (k_args0 k)) args dphi in
  e1 = e2 /\ g1 = g2 /\ k_gp k1 = k_gp k2 /\ k_gp0 k1 = k_gp0 k2 /\ k_args0 k1 = k_args0 k2.
Proof. intros H1 H2. unfold comp_run. rewrite H1, H2. simpl. destruct args; auto. Qed.

Theorem compiler_used_equals_fresh fl w k a ic args dphi :
  f_compile_resets_gp fl = true -> f_compile_args_local fl = true -> k < length (comps w) ->
  let c := CCompile k a ic args dphi in
  match exec fl w c, exec fl (fresh_world w c) c with
  | Some (w1, r1), Some (w2, r2) => hp w1 = hp w2 /\ r1 = r2
  | None, None => True
  | _, _ => False
  end.
Proof.
  intros H1 H2 Hk. cbv beta iota zeta delta [exec fresh_world]. simpl hp. simpl comps.
  rewrite nth_upd_eq by exact Hk.
  destruct (compile_heap fl (hp w) (if ic then fld (hp w) a 0 else a)) as [h1|]; auto.
  pose proof (comp_run_fresh fl (nth k (comps w) dcomp) args dphi H1 H2) as Hc.
  destruct (comp_run fl (nth k (comps w) dcomp) args dphi) as [[k1 e1] g1].
  destruct (comp_run fl _ args dphi) as [[k2 e2] g2].
  destruct Hc as (-> & -> & _). simpl. auto.
Qed.

(* the same compile call twice in a row returns the same pulses and records the same phase *)
Theorem compile_repeatable fl w k a ic args dphi w1 r1 w2 r2 :
  f_compile_resets_gp fl = true -> f_compile_args_local fl = true -> k < length (comps w) ->
  exec fl w (CCompile k a ic args dphi) = Some (w1, r1) ->
  exec fl w1 (CCompile k a ic args dphi) = Some (w2, r2) ->
  objof (hp w1) r1 = objof (hp w2) r2.
Proof.
  intros H1 H2 Hk E1 E2. cbv beta iota zeta delta [exec] in E1, E2.
  destruct (compile_heap fl (hp w) (if ic then fld (hp w) a 0 else a)) as [h1|]; try discriminate.
  destruct (comp_run fl (nth k (comps w) dcomp) args dphi) as [[k1 e1] g1] eqn:C1.
  unfold alloc in E1. inversion E1; subst. clear E1. simpl in E2.
  rewrite nth_upd_eq in E2 by exact Hk.
  destruct (compile_heap fl _ _) as [h2|]; try discriminate.
  destruct (comp_run fl k1 args dphi) as [[k2 e2] g2] eqn:C2.
  unfold alloc in E2. inversion E2; subst. clear E2. simpl.
  unfold objof. rewrite !nth_error_app2 by lia. rewrite !Nat.sub_diag. simpl.
  unfold comp_run in C1, C2.
  inversion C1; subst. simpl in C2. inversion C2; subst. rewrite ?H1, ?H2. simpl. rewrite ?H1, ?H2.
  destruct args; reflexivity.
Qed.

(* ---------------- processors ---------------- *)
Definition view_of (ps : list pulse) : list (nat * nat) := map (fun q => (pl_fn q, pl_noise q)) ps.

Lemma digest_view ps qs : view_of ps = view_of qs -> pulses_digest ps = pulses_digest qs.
Proof.
  revert qs. induction ps as [|p ps IH]; intros [|q qs] H; simpl in *; try discriminate; auto.
  inversion H. rewrite (IH qs) by auto. congruence.
Qed.

Lemma view_add_noise k ps qs : view_of ps = view_of qs -> view_of (add_noise_to k ps) = view_of (add_noise_to k qs).
Proof.
  revert qs. induction ps as [|p ps IH]; intros [|q qs] H; simpl in *; try discriminate; auto.
  inversion H. rewrite (IH qs) by auto. congruence.
Qed.

(* queries leave the heap and every processor's pulses (as functions of time, with their noise elements),
   global phase and noise list alone *)
Theorem query_preserves_held fl w c w' r :
  (f_gnp_copy fl || f_pn_copy fl) = true -> f_pn_list_copy fl = true -> is_query c = true ->
  exec fl w c = Some (w', r) ->
  hp w' = hp w /\ sims w' = sims w /\ comps w' = comps w /\
  forall p, pview (nth p (procs w') dproc) = pview (nth p (procs w) dproc).
Proof.
  intros Hc Hl Hq E. destruct c; try discriminate; cbv beta iota zeta delta [exec] in E.
  - destruct noisy.
    + unfold noisy_query in E. rewrite Hc, Hl in E. inversion E; subst. simpl. repeat split; auto.
      intros q. destruct (lt_dec p (length (procs w))) as [Hp|Hp].
      * rewrite nth_upd_any by exact Hp. destruct (Nat.eqb p q) eqn:Epq; auto.
        apply Nat.eqb_eq in Epq. subst. reflexivity.
      * assert (upd (procs w) p
                  {| p_pulses := p_pulses (nth p (procs w) dproc); p_gp := p_gp (nth p (procs w) dproc);
                     p_nnoise := p_nnoise (nth p (procs w) dproc); p_hast := p_hast (nth p (procs w) dproc);
                     p_base := p_base (nth p (procs w) dproc); p_base_gp := p_base_gp (nth p (procs w) dproc) |} = procs w) as ->; auto.
        clear - Hp. revert p Hp. induction (procs w); intros [|p] Hp; simpl in *; auto; try lia. f_equal. apply IHl. lia.
    + inversion E; subst. simpl. repeat split; auto.
      intros q. destruct (lt_dec p (length (procs w))) as [Hp|Hp].
      * rewrite nth_upd_any by exact Hp. destruct (Nat.eqb p q) eqn:Epq; auto.
        apply Nat.eqb_eq in Epq. subst. unfold pview. simpl. rewrite map_map. reflexivity.
      * match goal with |- pview (nth q (upd ?l p ?x) dproc) = _ => assert (upd l p x = l) as -> end; auto.
        clear - Hp. revert p Hp. induction (procs w); intros [|p] Hp; simpl in *; auto; try lia. f_equal. apply IHl. lia.
  - unfold noisy_query in E. rewrite Hc, Hl in E. inversion E; subst. simpl. repeat split; auto.
    intros q. destruct (lt_dec p (length (procs w))) as [Hp|Hp].
    + rewrite nth_upd_any by exact Hp. destruct (Nat.eqb p q) eqn:Epq; auto.
      apply Nat.eqb_eq in Epq. subst. reflexivity.
    + match goal with |- pview (nth q (upd ?l p ?x) dproc) = _ => assert (upd l p x = l) as -> end; auto.
      clear - Hp. revert p Hp. induction (procs w); intros [|p] Hp; simpl in *; auto; try lia. f_equal. apply IHl. lia.
  - inversion E; subst. auto.
  - inversion E; subst. auto.
Qed.

(* ... and therefore any number of queries *)
Theorem queries_preserve_held fl :
  (f_gnp_copy fl || f_pn_copy fl) = true -> f_pn_list_copy fl = true ->
  forall hist w w' rs, forallb is_query hist = true -> run_hist fl w hist = Some (w', rs) ->
  hp w' = hp w /\ forall p, pview (nth p (procs w') dproc) = pview (nth p (procs w) dproc).
Proof.
  intros Hc Hl. induction hist as [|c rest IH]; simpl; intros w w' rs Hq E.
  - inversion E; subst. auto.
  - apply andb_prop in Hq. destruct Hq as [Hq1 Hq2].
    destruct (exec fl w c) as [[w1 r]|] eqn:Ex; try discriminate.
    destruct (run_hist fl w1 rest) as [[w2 rs2]|] eqn:Er; try discriminate.
    inversion E; subst.
    destruct (query_preserves_held _ _ _ _ _ Hc Hl Hq1 Ex) as (Hh & _ & _ & Hp).
    destruct (IH _ _ _ Hq2 Er) as [Hh2 Hp2].
    split; [congruence|]. intros p. rewrite Hp2. apply Hp.
Qed.

(* the result of a query is determined by what the processor holds (as functions of time) *)
Theorem query_result_by_view fl w1 w2 c r1 r2 w1' w2' :
  is_query c = true ->
  (forall p, pview (nth p (procs w1) dproc) = pview (nth p (procs w2) dproc) /\
             p_hast (nth p (procs w1) dproc) = p_hast (nth p (procs w2) dproc)) ->
  exec fl w1 c = Some (w1', r1) -> exec fl w2 c = Some (w2', r2) -> r1 = r2.
Proof.
  intros Hq Hv E1 E2. destruct c; try discriminate; cbv beta iota zeta delta [exec] in E1, E2;
    destruct (Hv p) as [Hp Hh]; unfold pview in Hp; inversion Hp as [[Hps Hgp Hnn]]; fold (view_of (p_pulses (nth p (procs w1) dproc))) in Hps;
    fold (view_of (p_pulses (nth p (procs w2) dproc))) in Hps.
  - destruct noisy.
    + unfold noisy_query in E1, E2. inversion E1; inversion E2; subst. f_equal.
      apply digest_view. rewrite Hnn, Hh. now apply view_add_noise.
    + inversion E1; inversion E2; subst. f_equal. now apply digest_view.
  - unfold noisy_query in E1, E2. inversion E1; inversion E2; subst. f_equal.
    apply digest_view. rewrite Hnn, Hh. now apply view_add_noise.
  - inversion E1; inversion E2; subst. f_equal. rewrite Hgp. f_equal. now apply digest_view.
  - inversion E1; inversion E2; subst. f_equal. rewrite Hgp, Hnn. f_equal. f_equal. now apply digest_view.
Qed.

(* the same query twice in a row returns the same result *)
Theorem query_repeatable fl w c w1 r1 w2 r2 :
  (f_gnp_copy fl || f_pn_copy fl) = true -> f_pn_list_copy fl = true -> is_query c = true ->
  exec fl w c = Some (w1, r1) -> exec fl w1 c = Some (w2, r2) -> r1 = r2.
Proof.
  intros Hc Hl Hq E1 E2.
  destruct (query_preserves_held _ _ _ _ _ Hc Hl Hq E1) as (_ & _ & _ & Hp).
  eapply (query_result_by_view fl w w1 c); eauto.
  intros p. split; [symmetry; apply Hp|].
  (* p_hast is never written *)
  clear - E1 Hq. destruct c; try discriminate; cbv beta iota zeta delta [exec] in E1.
  - destruct noisy; [unfold noisy_query in E1|]; inversion E1; subst; simpl;
      (destruct (lt_dec p0 (length (procs w))) as [Hp|Hp];
       [rewrite nth_upd_any by exact Hp; destruct (Nat.eqb p0 p) eqn:Epq; auto; apply Nat.eqb_eq in Epq; subst; reflexivity|]);
      match goal with |- _ = p_hast (nth p (upd ?l p0 ?x) dproc) => assert (upd l p0 x = l) as -> end; auto;
      clear - Hp; revert p0 Hp; induction (procs w); intros [|p0] Hp; simpl in *; auto; try lia; f_equal; apply IHl; lia.
  - unfold noisy_query in E1; inversion E1; subst; simpl.
    destruct (lt_dec p0 (length (procs w))) as [Hp|Hp].
    + rewrite nth_upd_any by exact Hp; destruct (Nat.eqb p0 p) eqn:Epq; auto; apply Nat.eqb_eq in Epq; subst; reflexivity.
    + match goal with |- _ = p_hast (nth p (upd ?l p0 ?x) dproc) => assert (upd l p0 x = l) as -> end; auto.
      clear - Hp; revert p0 Hp; induction (procs w); intros [|p0] Hp; simpl in *; auto; try lia; f_equal; apply IHl; lia.
  - inversion E1; subst. auto.
  - inversion E1; subst. auto.
Qed.

(* load_circuit overwrites everything a processor holds: a used processor (and a used compiler, if one is
   supplied) ends up holding exactly what a fresh one would *)
Theorem load_used_equals_fresh fl w p qc ko chain dphi :
  flags_service fl = true -> p < length (procs w) ->
  (forall k, ko = Some k -> k < length (comps w)) ->
  let c := CLoad p qc ko chain true dphi in
  match exec fl w c, exec fl (fresh_world w c) c with
  | Some (w1, r1), Some (w2, r2) =>
      hp w1 = hp w2 /\ r1 = r2 /\ pview (nth p (procs w1) dproc) = pview (nth p (procs w2) dproc)
  | None, None => True
  | _, _ => False
  end.
Proof.
  unfold flags_service. intros Hf Hp Hk.
  repeat (apply andb_prop in Hf; destruct Hf as [Hf ?]).
  cbv beta iota zeta delta [exec fresh_world]. simpl hp. simpl procs. simpl comps.
  destruct (match chain with Some ms => op_chain fl ms (hp w) qc | None => Some (hp w, qc) end) as [[h1 qc1]|]; auto.
  destruct (op_resolve fl h1 qc1) as [[h2 qc2]|]; auto.
  destruct (compile_heap fl h2 (fld h2 qc2 0)) as [h3|]; auto.
  rewrite nth_upd_eq by exact Hp.
  set (kin := match ko with Some k => nth k (comps w) dcomp | None => dcomp end).
  set (kin' := match ko with
               | Some k => nth k (match ko with
                                  | Some k0 => upd (comps w) k0 (mkComp (k_gp0 (nth k0 (comps w) dcomp)) (k_gp0 (nth k0 (comps w) dcomp))
                                                                        (k_args0 (nth k0 (comps w) dcomp)) (k_args0 (nth k0 (comps w) dcomp)))
                                  | None => comps w end) dcomp
               | None => dcomp end).
  assert (Hkin : kin' = mkComp (k_gp0 kin) (k_gp0 kin) (k_args0 kin) (k_args0 kin)).
  { subst kin kin'. destruct ko as [k|]; [|reflexivity]. rewrite nth_upd_eq by (apply Hk; reflexivity). reflexivity. }
  rewrite Hkin.
  pose proof (comp_run_fresh fl kin 0 dphi H0 H) as Hc.
  destruct (comp_run fl kin 0 dphi) as [[k1 e1] g1].
  destruct (comp_run fl (mkComp (k_gp0 kin) (k_gp0 kin) (k_args0 kin) (k_args0 kin)) 0 dphi) as [[k2 e2] g2] eqn:C2.
  destruct Hc as (-> & -> & _).
  simpl k_gp0. simpl k_args0. rewrite C2.
  rewrite H3, H2. simpl p_pulses. simpl.
  split; auto. split; auto.
  destruct (lt_dec p (length (procs w))); [|lia].
  rewrite !nth_upd_eq; auto.
  rewrite upd_length. exact Hp.
Qed.
