(* C08 -- proofs about Model/Expand.v, part 2: exactly the valid calls are accepted. *)
From Coq Require Import List ZArith Bool Arith Lia Permutation.
Import ListNotations.
From QV Require Import Model.Expand Proofs.Expand.

(* ------------------------------------------------------------------------------------------ *)
(* Inversion of the individual stages                                                          *)
(* ------------------------------------------------------------------------------------------ *)

Lemma map_opt_tgt_int : forall l zs, map_opt tgt_int l = Some zs -> l = map TInt zs.
Proof.
  induction l as [|a l IH]; intros zs H; cbn in H.
  - inversion H. reflexivity.
  - destruct a as [z|]; cbn in H; try discriminate.
    destruct (map_opt tgt_int l) eqn:E; try discriminate. inversion H; subst. cbn. f_equal. apply IH. reflexivity.
Qed.

Lemma targets_to_list_inv : forall k N l zs,
  targets_to_list k N (TsList l) = Ok zs ->
  l = map TInt zs /\ length zs = k /\ Forall (fun t => (t < Z.of_nat N)%Z) zs.
Proof.
  intros k N l zs H. unfold targets_to_list in H.
  destruct (map_opt tgt_int l) as [zs'|] eqn:E; try discriminate.
  destruct (Nat.eqb (length zs') k) eqn:Ek; cbn in H; try discriminate.
  destruct (forallb (fun t => (t <? Z.of_nat N)%Z) zs') eqn:Ef; cbn in H; try discriminate.
  inversion H; subst. split; [apply map_opt_tgt_int; exact E|]. split.
  - apply Nat.eqb_eq. exact Ek.
  - apply Forall_forall. intros t Ht. rewrite forallb_forall in Ef. apply Z.ltb_lt. apply Ef. exact Ht.
Qed.

Lemma check_oper_dims_inv : forall orow ocol dims zs u,
  check_oper_dims orow ocol dims zs = Ok u -> orow = ocol /\ map_opt (py_get dims) zs = Some orow.
Proof.
  intros orow ocol dims zs u H. unfold check_oper_dims in H.
  destruct (list_eqb orow ocol) eqn:E1; cbn in H; try discriminate.
  destruct (map_opt (py_get dims) zs) as [td|] eqn:E2; try discriminate.
  destruct (list_eqb orow td) eqn:E3; try discriminate.
  apply list_eqb_eq in E1. apply list_eqb_eq in E3. subst. auto.
Qed.

Lemma assign_targets_length : forall zs o i o',
  assign_targets o i zs = Ok o' -> length o' = length o.
Proof.
  induction zs as [|t zs IH]; intros o i o' H; cbn in H.
  - inversion H. reflexivity.
  - destruct (py_index (length o) t); try discriminate.
    apply IH in H. rewrite set_nth_length in H. exact H.
Qed.

Lemma assign_rest_inv : forall rp o i rq o',
  assign_rest o i rp rq = Ok o' ->
  length o' = length o /\ (rp <> [] -> i + length rp <= length rq).
Proof.
  induction rp as [|p rp IH]; intros o i rq o' H; cbn [assign_rest] in H.
  - inversion H. split; auto. congruence.
  - destruct (nth_error rq i) as [v|] eqn:En; try discriminate.
    destruct (p <? length o) eqn:Ep; try discriminate.
    apply IH in H as [H1 H2]. rewrite set_nth_length in H1. split; auto.
    intros _. cbn [length].
    assert (i < length rq) as Hi by (apply nth_error_Some; congruence).
    destruct rp as [|p' rp']; cbn [length] in *; [lia|].
    assert (p' :: rp' <> []) as Hne by congruence. apply H2 in Hne. lia.
Qed.

Lemma new_order_inv : forall N zs order,
  new_order N zs = Ok order ->
  length order = N /\ length (rest_pos N zs) <= N - length zs.
Proof.
  intros N zs order H. unfold new_order in H.
  destruct (assign_targets (repeat 0 N) 0 zs) as [o1|] eqn:E1; cbn [bind] in H; try discriminate.
  apply assign_targets_length in E1. rewrite repeat_length in E1.
  apply assign_rest_inv in H as [H1 H2]. split; [congruence|].
  unfold rest_qubits in H2. rewrite seq_length in H2.
  destruct (rest_pos N zs) as [|p rp] eqn:Er; cbn [length]; [lia|].
  assert (p :: rp <> []) as Hne by congruence. apply H2 in Hne. cbn [length] in Hne. lia.
Qed.

Lemma map_opt_length {A B} (f : A -> option B) : forall l r, map_opt f l = Some r -> length r = length l.
Proof.
  induction l as [|a l IH]; intros r H; cbn in H.
  - inversion H. reflexivity.
  - destruct (f a); try discriminate. destruct (map_opt f l) eqn:E; try discriminate.
    inversion H; subst. cbn. f_equal. apply IH. reflexivity.
Qed.

Lemma filter_partition_length {A} (f : A -> bool) : forall l,
  length (filter f l) + length (filter (fun x => negb (f x)) l) = length l.
Proof.
  induction l as [|a l IH]; cbn; auto. destruct (f a); cbn; lia.
Qed.

Lemma py_index_range : forall n t i, py_index n t = Some i -> (- Z.of_nat n <= t < Z.of_nat n)%Z.
Proof.
  intros n t i H. unfold py_index in H.
  destruct (0 <=? t)%Z eqn:E1.
  - destruct (t <? Z.of_nat n)%Z eqn:E2; try discriminate.
    apply Z.leb_le in E1. apply Z.ltb_lt in E2. lia.
  - destruct (- Z.of_nat n <=? t)%Z eqn:E2; try discriminate.
    apply Z.leb_gt in E1. apply Z.leb_le in E2. lia.
Qed.

(* ------------------------------------------------------------------------------------------ *)
(* The counting argument: |rest_pos| = N - k forces the targets to be distinct and in range     *)
(* ------------------------------------------------------------------------------------------ *)

Lemma targets_distinct_in_range : forall N zs,
  length (rest_pos N zs) + length zs = N ->
  NoDup zs /\ Forall (fun t => (0 <= t < Z.of_nat N)%Z) zs.
Proof.
  intros N zs H.
  set (S := filter (fun q => zmem (Z.of_nat q) zs) (seq 0 N)).
  assert (length S = length zs) as HS.
  { pose proof (filter_partition_length (fun q => zmem (Z.of_nat q) zs) (seq 0 N)) as P.
    rewrite seq_length in P. fold S in P. unfold rest_pos in H. lia. }
  assert (NoDup (map Z.of_nat S)) as Hnd.
  { apply FinFun.Injective_map_NoDup.
    - intros a b E. apply Nat2Z.inj. exact E.
    - apply NoDup_filter. apply seq_NoDup. }
  assert (incl (map Z.of_nat S) zs) as Hincl.
  { intros z Hz. apply in_map_iff in Hz as [q [Hq Hin]]. subst.
    apply filter_In in Hin as [_ Hm]. unfold zmem in Hm.
    apply existsb_exists in Hm as [t [Ht E]]. apply Z.eqb_eq in E. subst. exact Ht. }
  assert (length zs <= length (map Z.of_nat S)) as Hlen by (rewrite map_length; lia).
  split.
  - apply (@NoDup_incl_NoDup _ (map Z.of_nat S) zs); assumption.
  - apply Forall_forall. intros t Ht.
    apply (@NoDup_length_incl _ (map Z.of_nat S) zs Hnd Hlen Hincl) in Ht.
    apply in_map_iff in Ht as [q [Hq Hin]]. subst.
    apply filter_In in Hin as [Hin _]. apply in_seq in Hin. lia.
Qed.

(* ------------------------------------------------------------------------------------------ *)
(* Accepted  <->  valid                                                                        *)
(* ------------------------------------------------------------------------------------------ *)

Lemma expand_plan_ok_valid : forall dims orow ocol l p,
  expand_plan dims orow ocol (TsList l) = Ok p ->
  exists ts, l = tz ts /\ valid_targets dims orow ocol ts.
Proof.
  intros dims orow ocol l p H. unfold expand_plan in H.
  set (N := length dims) in *.
  destruct (targets_to_list (length orow) N (TsList l)) as [zs|] eqn:E1; cbn [bind] in H; try discriminate.
  destruct (check_oper_dims orow ocol dims zs) as [u|] eqn:E2; cbn [bind] in H; try discriminate.
  destruct (new_order N zs) as [order|] eqn:E3; cbn [bind] in H; try discriminate.
  destruct (map_opt (nth_error dims) (rest_pos N zs)) as [iddims|] eqn:E4; try discriminate.
  destruct (perm_valid order (length (orow ++ iddims))) eqn:E5; try discriminate.
  apply targets_to_list_inv in E1 as [Hl [Hk Hrange]].
  apply check_oper_dims_inv in E2 as [Hsq Hdims].
  apply new_order_inv in E3 as [Holen Hrest].
  apply map_opt_length in E4.
  unfold perm_valid in E5. apply andb_true_iff in E5 as [E5 _]. apply andb_true_iff in E5 as [E5 _].
  apply Nat.eqb_eq in E5. rewrite app_length in E5.
  assert (length (rest_pos N zs) + length zs = N) as Hcount by lia.
  apply targets_distinct_in_range in Hcount as [Hnd Hin].
  exists (map Z.to_nat zs).
  assert (map Z.of_nat (map Z.to_nat zs) = zs) as Hback.
  { rewrite map_map. rewrite <- (map_id zs) at 2. apply map_ext_in. intros t Ht.
    rewrite Forall_forall in Hin. apply Hin in Ht. apply Z2Nat.id. lia. }
  assert (Forall (fun t => t < N) (map Z.to_nat zs)) as Hlt.
  { apply Forall_forall. intros q Hq. apply in_map_iff in Hq as [t [Ht Hq]]. subst.
    rewrite Forall_forall in Hin. apply Hin in Hq. lia. }
  split.
  - subst l. unfold tz. rewrite <- (map_map Z.of_nat TInt). rewrite Hback. reflexivity.
  - split; [|split; [exact Hlt|split; [|congruence]]].
    + apply (NoDup_map_inv Z.of_nat). rewrite Hback. exact Hnd.
    + rewrite <- Hback in Hdims.
      rewrite (map_opt_some (py_get dims) (fun z => nth (Z.to_nat z) dims 0)) in Hdims.
      * inversion Hdims as [Hd]. unfold digits_at. rewrite map_map.
        apply map_ext. intro q. rewrite Nat2Z.id. reflexivity.
      * intros z Hz. apply in_map_iff in Hz as [q [Hq Hz]]. subst. rewrite Nat2Z.id.
        apply py_get_nat. rewrite Forall_forall in Hlt. apply Hlt. exact Hz.
Qed.

Theorem expand_ok_iff_lemma : forall dims orow ocol l,
  is_ok (expand_plan dims orow ocol (TsList l)) = true <->
  exists ts, l = tz ts /\ valid_targets dims orow ocol ts.
Proof.
  intros dims orow ocol l. split.
  - destruct (expand_plan dims orow ocol (TsList l)) as [p|e] eqn:E; cbn; try discriminate.
    intros _. eapply expand_plan_ok_valid. eassumption.
  - intros [ts [Hl Hv]]. subst l. rewrite (expand_plan_valid _ _ _ _ Hv). reflexivity.
Qed.

(* the other two forms of the `targets` argument are lists in disguise *)
Lemma expand_plan_none : forall dims orow ocol,
  expand_plan dims orow ocol TsNone = expand_plan dims orow ocol (TsList (tz (seq 0 (length orow)))).
Proof. reflexivity. Qed.

Lemma expand_plan_scalar : forall dims orow ocol t,
  expand_plan dims orow ocol (TsScalar t) = expand_plan dims orow ocol (TsList [t]).
Proof. reflexivity. Qed.

(* ------------------------------------------------------------------------------------------ *)
(* The rejection clauses, one by one                                                           *)
(* ------------------------------------------------------------------------------------------ *)

Lemma tz_inj : forall a b, tz a = tz b -> a = b.
Proof.
  induction a as [|x a IH]; destruct b as [|y b]; cbn; intro H; try discriminate; auto.
  inversion H as [[H1 H2]]. apply Nat2Z.inj in H1. subst. f_equal. apply IH. exact H2.
Qed.

Lemma not_ok_false : forall dims orow ocol l,
  ~ (exists ts, l = tz ts /\ valid_targets dims orow ocol ts) ->
  is_ok (expand_plan dims orow ocol (TsList l)) = false.
Proof.
  intros dims orow ocol l H. destruct (is_ok _) eqn:E; auto.
  apply expand_ok_iff_lemma in E. contradiction.
Qed.

Lemma rejects_wrong_count : forall dims orow ocol l,
  length l <> length orow -> is_ok (expand_plan dims orow ocol (TsList l)) = false.
Proof.
  intros dims orow ocol l H. apply not_ok_false. intros [ts [Hl [_ [_ [Hrow _]]]]]. subst.
  apply H. unfold tz, digits_at. rewrite !map_length. reflexivity.
Qed.

Lemma rejects_out_of_range : forall dims orow ocol l t,
  In (TInt t) l -> (t < 0 \/ Z.of_nat (length dims) <= t)%Z ->
  is_ok (expand_plan dims orow ocol (TsList l)) = false.
Proof.
  intros dims orow ocol l t Hin Ht. apply not_ok_false. intros [ts [Hl [_ [Hlt _]]]]. subst.
  unfold tz in Hin. apply in_map_iff in Hin as [q [Hq Hin]]. inversion Hq; subst.
  rewrite Forall_forall in Hlt. apply Hlt in Hin. lia.
Qed.

Lemma rejects_non_integer : forall dims orow ocol l,
  In TOther l -> is_ok (expand_plan dims orow ocol (TsList l)) = false.
Proof.
  intros dims orow ocol l Hin. apply not_ok_false. intros [ts [Hl _]]. subst.
  unfold tz in Hin. apply in_map_iff in Hin as [q [Hq _]]. discriminate.
Qed.

Lemma rejects_duplicates : forall dims orow ocol ts,
  ~ NoDup ts -> is_ok (expand_plan dims orow ocol (TsList (tz ts))) = false.
Proof.
  intros dims orow ocol ts H. apply not_ok_false. intros [ts' [Hl [Hnd _]]].
  apply tz_inj in Hl. subst. contradiction.
Qed.

Lemma rejects_dims_mismatch : forall dims orow ocol ts,
  orow <> digits_at dims ts -> is_ok (expand_plan dims orow ocol (TsList (tz ts))) = false.
Proof.
  intros dims orow ocol ts H. apply not_ok_false. intros [ts' [Hl [_ [_ [Hrow _]]]]].
  apply tz_inj in Hl. subst. contradiction.
Qed.

Lemma rejects_non_square : forall dims orow ocol l,
  ocol <> orow -> is_ok (expand_plan dims orow ocol (TsList l)) = false.
Proof.
  intros dims orow ocol l H. apply not_ok_false. intros [ts [_ [_ [_ [_ Hcol]]]]]. contradiction.
Qed.

(* a rejected call has no entries *)
Lemma rejected_no_entry : forall dims orow ocol ts x y,
  is_ok (expand_plan dims orow ocol ts) = false -> is_ok (expand_elem dims orow ocol ts x y) = false.
Proof.
  intros dims orow ocol ts x y H. unfold expand_elem.
  destruct (expand_plan dims orow ocol ts); cbn in *; congruence.
Qed.

(* ------------------------------------------------------------------------------------------ *)
(* Entries for an arbitrary operator, the None / scalar forms, and the qubit bridge             *)
(* ------------------------------------------------------------------------------------------ *)

Lemma expand_entry_lemma : forall (A : Type) (zero : A) (op : list nat -> list nat -> A) dims orow ocol ts x y,
  valid_targets dims orow ocol ts -> length x = length dims -> length y = length dims ->
  expand_entry zero op dims orow ocol (TsList (tz ts)) x y =
    Ok (if rest_agree (length dims) ts x y then op (digits_at x ts) (digits_at y ts) else zero).
Proof.
  intros A zero op dims orow ocol ts x y Hv Hx Hy. unfold expand_entry.
  rewrite (expand_element_lemma _ _ _ _ _ _ Hv Hx Hy).
  destruct (rest_agree (length dims) ts x y); reflexivity.
Qed.

Lemma expand_elem_none : forall dims orow ocol x y,
  expand_elem dims orow ocol TsNone x y = expand_elem dims orow ocol (TsList (tz (seq 0 (length orow)))) x y.
Proof. reflexivity. Qed.

Lemma expand_elem_scalar : forall dims orow ocol t x y,
  expand_elem dims orow ocol (TsScalar (TInt (Z.of_nat t))) x y = expand_elem dims orow ocol (TsList (tz [t])) x y.
Proof. reflexivity. Qed.

(* qubits: all dimensions 2, basis labels as bit lists *)
Definition b2n (b : bool) : nat := if b then 1 else 0.
Definition n2b (n : nat) : bool := negb (Nat.eqb n 0).
Definition bits_at (x : list bool) (ts : list nat) : list bool := map (fun t => nth t x false) ts.
Definition rest_agree_bits (N : nat) (ts : list nat) (x y : list bool) : bool :=
  forallb (fun q => existsb (Nat.eqb q) ts || Bool.eqb (nth q x false) (nth q y false)) (seq 0 N).

Lemma n2b_b2n : forall b, n2b (b2n b) = b.
Proof. destruct b; reflexivity. Qed.

Lemma nth_map_b2n : forall x q, nth q (map b2n x) 0 = b2n (nth q x false).
Proof. intros x q. change 0 with (b2n false). apply map_nth. Qed.

Lemma digits_bits : forall x ts, map n2b (digits_at (map b2n x) ts) = bits_at x ts.
Proof.
  intros x ts. unfold digits_at, bits_at. rewrite map_map. apply map_ext. intro t.
  rewrite nth_map_b2n. apply n2b_b2n.
Qed.

Lemma forallb_ext' {A} (f g : A -> bool) : forall l, (forall a, f a = g a) -> forallb f l = forallb g l.
Proof. induction l as [|a l IH]; intro H; cbn; auto. rewrite H, IH; auto. Qed.

Lemma rest_agree_bits_eq : forall N ts x y,
  rest_agree N ts (map b2n x) (map b2n y) = rest_agree_bits N ts x y.
Proof.
  intros N ts x y. unfold rest_agree, rest_agree_bits. apply forallb_ext'. intro q. f_equal.
  rewrite !nth_map_b2n. destruct (nth q x false), (nth q y false); reflexivity.
Qed.

Lemma repeat_digits : forall N ts, Forall (fun t => t < N) ts -> digits_at (repeat 2 N) ts = repeat 2 (length ts).
Proof.
  intros N ts H. induction ts as [|t ts IH]; cbn; auto. inversion H; subst. f_equal; auto.
  apply (repeat_spec N 2). apply nth_In. rewrite repeat_length. assumption.
Qed.

Lemma expand_qubits_lemma : forall (A : Type) (zero : A) (M : list bool -> list bool -> A) N ts x y,
  NoDup ts -> Forall (fun t => t < N) ts -> length x = N -> length y = N ->
  expand_entry zero (fun r c => M (map n2b r) (map n2b c))
               (repeat 2 N) (repeat 2 (length ts)) (repeat 2 (length ts)) (TsList (tz ts))
               (map b2n x) (map b2n y) =
    Ok (if rest_agree_bits N ts x y then M (bits_at x ts) (bits_at y ts) else zero).
Proof.
  intros A zero M N ts x y Hnd Hlt Hx Hy.
  rewrite expand_entry_lemma.
  - rewrite repeat_length, rest_agree_bits_eq, !digits_bits. reflexivity.
  - split; [exact Hnd|]. rewrite repeat_length. split; [exact Hlt|]. split; [|reflexivity].
    symmetry. apply repeat_digits. exact Hlt.
  - rewrite map_length, repeat_length. exact Hx.
  - rewrite map_length, repeat_length. exact Hy.
Qed.
