(* C03: structural lemmas about Model/Resolve.v - the result monad, naturality of the rule interpreter under
   relabelling of qubits, and fusion of the three passes into a gate-wise rewriting. *)
From Coq Require Import List String Bool Arith Lia.
From QV Require Import Found.Base Found.Lemmas Found.Sym Found.SymProofs Model.ResolveTypes Gen.Decompose Gen.Gates Model.Resolve.
Import ListNotations.

(* ---- result monad ------------------------------------------------------------------------------------------------ *)
Definition rmap {A B} (h : A -> B) (r : result A) : result B := match r with Ok a => Ok (h a) | Error => Error end.

Lemma rbind_ret {A} (r : result A) : rbind r Ok = r.
Proof. destruct r; reflexivity. Qed.

Lemma rmapM_cons {A B} (f : A -> result B) a l :
  rmapM f (a :: l) = rbind (f a) (fun b => rbind (rmapM f l) (fun bs => Ok (b :: bs))).
Proof. reflexivity. Qed.

Lemma rflat_nil {A B} (f : A -> result (list B)) : rflat f [] = Ok [].
Proof. reflexivity. Qed.

Lemma rflat_cons {A B} (f : A -> result (list B)) a l :
  rflat f (a :: l) = rbind (f a) (fun x => rbind (rflat f l) (fun y => Ok (x ++ y))).
Proof.
  unfold rflat. simpl. destruct (f a) as [x|]; simpl; [|reflexivity].
  destruct (rmapM f l) as [ls|]; reflexivity.
Qed.

Lemma rflat_ext {A B} (f g : A -> result (list B)) l : (forall a, f a = g a) -> rflat f l = rflat g l.
Proof.
  intros H. induction l as [|a l IH]; [reflexivity|]. rewrite !rflat_cons, H, IH. reflexivity.
Qed.

Lemma rflat_single {A B} (f : A -> result (list B)) a : rflat f [a] = f a.
Proof. rewrite rflat_cons, rflat_nil. destruct (f a) as [x|]; simpl; [rewrite app_nil_r|]; reflexivity. Qed.

Lemma rflat_ok_cons {A B} (f : A -> result (list B)) a l r :
  rflat f (a :: l) = Ok r -> exists x y, f a = Ok x /\ rflat f l = Ok y /\ r = x ++ y.
Proof.
  rewrite rflat_cons. destruct (f a) as [x|]; simpl; [|discriminate].
  destruct (rflat f l) as [y|]; simpl; [|discriminate]. intros H. injection H as <-. eauto.
Qed.

Lemma rflat_error_in {A B} (f : A -> result (list B)) a l : In a l -> f a = Error -> rflat f l = Error.
Proof.
  induction l as [|b l IH]; intros Hin He; [destruct Hin|]. rewrite rflat_cons.
  destruct Hin as [->|Hin]; [rewrite He; reflexivity|].
  rewrite (IH Hin He). destruct (f b); reflexivity.
Qed.

Lemma rmapM_rmap {A B C} (f : A -> result B) (m : B -> C) l :
  rmapM (fun a => rmap m (f a)) l = rmap (map m) (rmapM f l).
Proof.
  induction l as [|a l IH]; [reflexivity|]. simpl. destruct (f a) as [b|]; simpl; [|reflexivity].
  rewrite IH. destruct (rmapM f l); reflexivity.
Qed.

(* naturality of the traversals *)
Lemma rmapM_nat {A A' B B'} (F : A -> result B) (F' : A' -> result B') (h : A -> A') (h' : B -> B') l :
  (forall a, F' (h a) = rmap h' (F a)) -> rmapM F' (map h l) = rmap (map h') (rmapM F l).
Proof.
  intros H. induction l as [|a l IH]; [reflexivity|]. simpl. rewrite H. destruct (F a) as [b|]; simpl; [|reflexivity].
  rewrite IH. destruct (rmapM F l); reflexivity.
Qed.

Lemma rflat_nat {A A' B B'} (F : A -> result (list B)) (F' : A' -> result (list B')) (h : A -> A') (h' : B -> B') l :
  (forall a, F' (h a) = rmap (map h') (F a)) -> rflat F' (map h l) = rmap (map h') (rflat F l).
Proof.
  intros H. unfold rflat. rewrite (rmapM_nat F F' h (map h') l H).
  destruct (rmapM F l) as [ls|]; simpl; [|reflexivity]. rewrite concat_map. reflexivity.
Qed.

(* ---- additive list transformers and fusion ------------------------------------------------------------------------ *)
Definition additive {B C} (H : list B -> result (list C)) : Prop :=
  H [] = Ok [] /\ forall x y, H (x ++ y) = rbind (H x) (fun a => rbind (H y) (fun b => Ok (a ++ b))).

Lemma additive_ok {B} : additive (@Ok (list B)).
Proof. split; reflexivity. Qed.

Lemma additive_rflat {B C} (k : B -> result (list C)) : additive (rflat k).
Proof.
  split; [reflexivity|]. intros x y. induction x as [|a x IH]; simpl.
  - destruct (rflat k y); reflexivity.
  - rewrite !rflat_cons. destruct (k a) as [u|]; simpl; [|reflexivity]. rewrite IH.
    destruct (rflat k x) as [v|]; simpl; [|reflexivity].
    destruct (rflat k y) as [w|]; simpl; [|reflexivity]. rewrite app_assoc. reflexivity.
Qed.

Lemma additive_comp {B C D} (H1 : list B -> result (list C)) (H2 : list C -> result (list D)) :
  additive H1 -> additive H2 -> additive (fun t => rbind (H1 t) H2).
Proof.
  intros [A0 A1] [B0 B1]. split; [rewrite A0; simpl; exact B0|].
  intros x y. rewrite A1. destruct (H1 x) as [u|]; simpl; [|reflexivity].
  destruct (H1 y) as [v|]; simpl; [|destruct (H2 u); reflexivity].
  apply B1.
Qed.

Lemma fuse {A B C} (S : A -> result (list B)) (H : list B -> result (list C)) l :
  additive H -> rbind (rflat S l) H = rflat (fun a => rbind (S a) H) l.
Proof.
  intros [H0 H1]. induction l as [|a l IH]; [simpl; exact H0|].
  rewrite !rflat_cons. destruct (S a) as [x|]; simpl; [|reflexivity].
  rewrite <- IH. destruct (rflat S l) as [y|]; simpl; [apply H1|].
  destruct (H x); reflexivity.
Qed.

Lemma rmapM_merge {A P B C} (F : A -> result P) (m : P -> list B) (K : list B -> result C) l :
  rbind (rmapM F l) (fun parts => K (concat (map m parts))) = rbind (rflat (fun g => rmap m (F g)) l) K.
Proof.
  unfold rflat. rewrite rmapM_rmap. destruct (rmapM F l); reflexivity.
Qed.

(* ---- association lists -------------------------------------------------------------------------------------------- *)
Lemma assoc_in {A} k (l : list (string * A)) v : assoc k l = Some v -> In (k, v) l.
Proof.
  induction l as [|[k' v'] l IH]; simpl; [discriminate|].
  destruct (String.eqb k k') eqn:E; [apply String.eqb_eq in E; subst; intros H; injection H as ->; left; reflexivity|].
  intros H. right. exact (IH H).
Qed.

Lemma mem_in s l : mem s l = true <-> In s l.
Proof.
  unfold mem. rewrite existsb_exists. split.
  - intros [x [Hx E]]. apply String.eqb_eq in E. subst. exact Hx.
  - intros H. exists s. split; [exact H|apply String.eqb_refl].
Qed.

(* ---- relabelling of qubits (and of the source tag) ---------------------------------------------------------------- *)
Definition retag (f : nat -> nat) (s : nat) (g : mgate) : mgate :=
  MG (gname g) (map f (gtargets g)) (map f (gcontrols g)) (gargs g) s.

Lemma nth_error_map' {A B} (f : A -> B) l i : nth_error (map f l) i = option_map f (nth_error l i).
Proof. revert i. induction l; destruct i; simpl; auto. Qed.

Lemma role_qubits_nat f s g r : role_qubits (retag f s g) r = rmap (map f) (role_qubits g r).
Proof.
  destruct r; simpl; try reflexivity; rewrite nth_error_map'.
  - destruct (nth_error (gtargets g) i); reflexivity.
  - destruct (nth_error (gcontrols g) i); reflexivity.
Qed.

Lemma roles_qubits_nat f s g rs : roles_qubits (retag f s g) rs = rmap (map f) (roles_qubits g rs).
Proof.
  unfold roles_qubits. rewrite <- (map_id rs) at 1.
  apply (rflat_nat (role_qubits g) (role_qubits (retag f s g)) (fun r => r) f). intros r. apply role_qubits_nat.
Qed.

Lemma emit_gate_nat f s g e : emit_gate (retag f s g) e = rmap (retag f s) (emit_gate g e).
Proof.
  destruct e as [|n t c a]; [reflexivity|]. simpl. rewrite !roles_qubits_nat.
  destruct (roles_qubits g t) as [ts|]; simpl; [|reflexivity].
  destruct (roles_qubits g c) as [cs|]; simpl; [|reflexivity].
  assert (Ha : emit_arg (retag f s g) a = emit_arg g a) by (destruct a; reflexivity). rewrite Ha.
  destruct (emit_arg g a) as [ar|]; simpl; [|reflexivity].
  assert (Hn : emit_name (retag f s g) n = emit_name g n) by (destruct n; reflexivity). rewrite Hn. reflexivity.
Qed.

Lemma apply_emits_nat f s g es : apply_emits (retag f s g) es = rmap (map (retag f s)) (apply_emits g es).
Proof.
  unfold apply_emits. rewrite <- (map_id es) at 1.
  apply (rmapM_nat (emit_gate g) (emit_gate (retag f s g)) (fun e => e) (retag f s)). intros e. apply emit_gate_nat.
Qed.

Lemma run_rule_nat f s r g : run_rule r (retag f s g) = rmap (map (retag f s)) (run_rule r g).
Proof. destruct r as [[|es]|]; simpl; try reflexivity. apply apply_emits_nat. Qed.

Lemma to_universal_nat f s c keep g : to_universal c keep (retag f s g) = rmap (map (retag f s)) (to_universal c keep g).
Proof.
  unfold to_universal. change (gname (retag f s g)) with (gname g).
  destruct (mem (gname g) (c2q c)); [apply run_rule_nat|].
  destruct ((gname g =? "SWAP")%string && mem "ISWAP" (c2q c)); [apply run_rule_nat|].
  destruct (find_rule (gname g)) as [r|]; [apply run_rule_nat|].
  destruct (keep (gname g)); reflexivity.
Qed.

Lemma stage1_nat f s c keep g :
  stage1 c keep (retag f s g) = rmap (fun p => (map (retag f s) (fst p), map (retag f s) (snd p))) (stage1 c keep g).
Proof.
  unfold stage1, pauli. change (gname (retag f s g)) with (gname g).
  destruct (mem (gname g) pauli_names).
  - rewrite !emit_gate_nat. destruct (emit_gate g pauli_marker) as [m|]; cbn [rbind rmap]; [|reflexivity].
    destruct (emit_gate g pauli_subst) as [g'|]; cbn [rbind rmap fst snd]; [|reflexivity].
    rewrite to_universal_nat. destruct (to_universal c keep g'); reflexivity.
  - cbn [rbind rmap fst snd]. rewrite to_universal_nat. destruct (to_universal c keep g); reflexivity.
Qed.

Lemma pass_gate_nat f s br g : pass_gate br (retag f s g) = rmap (map (retag f s)) (pass_gate br g).
Proof.
  unfold pass_gate. change (gname (retag f s g)) with (gname g).
  destruct (assoc (gname g) br); [apply apply_emits_nat|reflexivity].
Qed.

Lemma stage2_nat f s c l : stage2 c (map (retag f s) l) = rmap (map (retag f s)) (stage2 c l).
Proof.
  unfold stage2. destruct (first_2q c) as [u|]; [|reflexivity].
  destruct (assoc u basis_passes) as [br|]; [|reflexivity].
  apply rflat_nat. intros g. apply pass_gate_nat.
Qed.

Lemma elim_gate_nat f s c g : elim_gate c (retag f s g) = rmap (map (retag f s)) (elim_gate c g).
Proof.
  unfold elim_gate. change (gname (retag f s g)) with (gname g).
  destruct (assoc (gname g) elim_rules); [|reflexivity].
  destruct (mem (gname g) (crot c)); [reflexivity|apply apply_emits_nat].
Qed.

Lemma stage3_nat f s c l : stage3 c (map (retag f s) l) = rmap (map (retag f s)) (stage3 c l).
Proof.
  unfold stage3. destruct (celim c); [|reflexivity]. apply rflat_nat. intros g. apply elim_gate_nat.
Qed.

Theorem resolve_gate_nat f s c keep g :
  resolve_gate c keep (retag f s g) = rmap (map (retag f s)) (resolve_gate c keep g).
Proof.
  unfold resolve_gate. rewrite stage1_nat. destruct (stage1 c keep g) as [[ms gs]|]; simpl; [|reflexivity].
  rewrite <- map_app, stage2_nat. destruct (stage2 c (ms ++ gs)) as [q|]; simpl; [|reflexivity].
  apply stage3_nat.
Qed.

(* ---- the keep test is consulted for one name only ----------------------------------------------------------------- *)
Lemma to_universal_keep c keep keep' g :
  find_rule (gname g) <> None -> to_universal c keep g = to_universal c keep' g.
Proof.
  intros H. unfold to_universal. destruct (find_rule (gname g)); [reflexivity|contradiction].
Qed.

(* ---- fusion: with the markers in temp_resolved, resolve_gates is a gate-wise rewriting ----------------------------- *)
Definition passes_complete : bool :=
  forallb (fun u => match assoc u basis_passes with Some _ => true | None => false end) basis_2q_order.

Lemma stage2_additive c : passes_complete = true -> additive (stage2 c).
Proof.
  intros PC. unfold stage2. destruct (first_2q c) as [u|] eqn:E; [|apply additive_ok].
  unfold first_2q in E. apply find_some in E. destruct E as [Hin _].
  unfold passes_complete in PC. rewrite forallb_forall in PC. specialize (PC u Hin).
  destruct (assoc u basis_passes); [apply additive_rflat|discriminate].
Qed.

Lemma stage3_additive c : additive (stage3 c).
Proof. unfold stage3. destruct (celim c); [apply additive_rflat|apply additive_ok]. Qed.

Theorem resolve_gen_fused fl b circ : passes_complete = true ->
  resolve_gen true fl basis_2q_order b circ =
  rbind (parse_basis_gen fl b) (fun ck => rflat (resolve_gate (fst ck) (snd ck)) circ).
Proof.
  intros PC. unfold resolve_gen. change (first_2q_o basis_2q_order) with first_2q. change (stage2_o basis_2q_order) with stage2.
  destruct (parse_basis_gen fl b) as [[c keep]|]; simpl; [|reflexivity].
  set (H := fun t => rbind (stage2 c t) (stage3 c)).
  assert (HA : additive H) by (apply additive_comp; [apply stage2_additive; exact PC|apply stage3_additive]).
  transitivity (rbind (rmapM (stage1 c keep) circ) (fun parts => H (concat (map (fun p => fst p ++ snd p) parts)))).
  - destruct (rmapM (stage1 c keep) circ) as [parts|]; simpl; [|reflexivity]. unfold H.
    unfold stage2 at 1. destruct (first_2q c) as [u|] eqn:E.
    + unfold stage2. rewrite E. destruct (assoc u basis_passes) as [br|]; simpl; [|reflexivity].
      destruct (rflat (pass_gate br) _); reflexivity.
    + unfold stage2. rewrite E. reflexivity.
  - rewrite (rmapM_merge (stage1 c keep) (fun p => fst p ++ snd p) H circ).
    rewrite (fuse _ H circ HA). apply rflat_ext. intros g. unfold resolve_gate, H.
    destruct (stage1 c keep g); reflexivity.
Qed.

(* ---- placing the generic instance of a kind ---------------------------------------------------------------------- *)
Lemma map_pl_middle (pre mid suf : list nat) :
  map (pl (pre ++ mid ++ suf)) (seq (length pre) (length mid)) = mid.
Proof.
  revert pre. induction mid as [|b m IH]; intros pre; [reflexivity|].
  simpl. f_equal.
  - unfold pl. apply nth_middle.
  - replace (pre ++ b :: m ++ suf) with ((pre ++ [b]) ++ m ++ suf) by (rewrite <- app_assoc; reflexivity).
    replace (S (length pre)) with (length (pre ++ [b])) by (rewrite app_length; simpl; lia).
    apply IH.
Qed.

Lemma map_pl_controls (cs ts : list nat) : map (pl (cs ++ ts)) (seq 0 (length cs)) = cs.
Proof. exact (map_pl_middle [] cs ts). Qed.

Lemma map_pl_targets (cs ts : list nat) : map (pl (cs ++ ts)) (seq (length cs) (length ts)) = ts.
Proof. pose proof (map_pl_middle cs ts []) as H. rewrite app_nil_r in H. exact H. Qed.
