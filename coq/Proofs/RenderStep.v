(* C20 -- what one loop iteration of layout() does to each wire *)
From Coq Require Import List NArith Arith Bool Lia.
Import ListNotations.
From QV Require Import Model.Render Spec.RenderSpec Proofs.RenderBase.

(* ------------------------------------------------------------------------------------------ *)
(* step = place ; op_apply                                                                     *)
(* ------------------------------------------------------------------------------------------ *)
Lemma step_shape fx sty nq nc st o :
  step fx sty nq nc st o =
  match place sty nq st (op_wl nq nc o) (op_width fx (padw sty) nq o) with
  | None => None
  | Some (st1, x) => Some (op_apply fx (padw sty) nq nc o st1, x)
  end.
Proof.
  destruct o as [name al targets controls | t c].
  - unfold step, op_wl, op_width, op_apply, is_single.
    destruct ((length targets =? 1) && is_none controls) eqn:E1.
    + destruct (draw_singleq (padw sty) (gate_text name al)) as [parts width]. simpl fst. simpl snd.
      destruct (place sty nq st targets width) as [[st1 x]|]; reflexivity.
    + destruct (str_eqb name sSWAP) eqn:E2.
      * unfold op_wl, is_single. rewrite E1, E2.
        destruct (place sty nq st (range (lmin targets) (lmax targets + 1)) (4 * padw sty + 1)) as [[st1 x]|]; reflexivity.
      * destruct (draw_multiq fx (padw sty) (gate_text name al) targets controls) as [parts width].
        simpl fst. simpl snd.
        destruct (place sty nq st _ width) as [[st1 x]|]; [|reflexivity].
        destruct (has_controls controls); reflexivity.
  - unfold step, op_wl, op_width, op_apply.
    destruct (draw_meas (padw sty) nq t c) as [parts width]. simpl fst. simpl snd.
    destruct (place sty nq st _ width) as [[st1 x]|]; reflexivity.
Qed.

(* ------------------------------------------------------------------------------------------ *)
(* consequences of wf_op                                                                       *)
(* ------------------------------------------------------------------------------------------ *)
Lemma wf_gate nq nc name al targets controls :
  wf_op nq nc (Gate name al targets controls) = true ->
  targets <> [] /\ NoDup (targets ++ ctl_list controls) /\
  (forall v, In v (targets ++ ctl_list controls) -> v < nq).
Proof.
  simpl. intro H. apply andb_true_iff in H. destruct H as [H H3].
  apply andb_true_iff in H. destruct H as [H1 H2]. split; [|split].
  - destruct targets; [discriminate|discriminate].
  - apply nodupb_true. exact H2.
  - intros v Hv. rewrite forallb_forall in H3. specialize (H3 v Hv). apply Nat.ltb_lt. exact H3.
Qed.

Lemma wf_meas nq nc t c : wf_op nq nc (Meas t c) = true -> t < nq /\ c < nc.
Proof.
  simpl. intro H. apply andb_true_iff in H. destruct H as [H1 H2].
  apply Nat.ltb_lt in H1. apply Nat.ltb_lt in H2. auto.
Qed.

Lemma NoDup_len1 (l : list nat) : length l = 1 -> NoDup l.
Proof.
  destruct l as [|a [|b r]]; simpl; intro H; try discriminate.
  constructor; [intros []|constructor].
Qed.

Lemma NoDup_app_disj {A} (a b : list A) :
  NoDup a -> NoDup b -> (forall x, In x a -> ~ In x b) -> NoDup (a ++ b).
Proof.
  induction a as [|x r IH]; simpl; intros Ha Hb Hd; auto.
  inversion Ha; subst. constructor.
  - rewrite in_app_iff. intros [H|H]; [contradiction|]. apply (Hd x); auto.
  - apply IH; auto.
Qed.

Lemma meas_wl_nodup nq nc t c : t < nq -> NoDup (range 0 (t + 1) ++ range (c + nq) (nq + nc)).
Proof.
  intro H. apply NoDup_app_disj; try apply range_nodup.
  intros x H1 H2. apply in_range in H1. apply in_range in H2. lia.
Qed.

Lemma op_wl_nodup nq nc o : wf_op nq nc o = true -> NoDup (op_wl nq nc o).
Proof.
  destruct o as [name al targets controls | t c]; intro W.
  - unfold op_wl. destruct (is_single targets controls) eqn:E.
    + unfold is_single in E. apply andb_true_iff in E. destruct E as [E _].
      apply Nat.eqb_eq in E. apply NoDup_len1. exact E.
    + destruct (str_eqb name sSWAP); apply range_nodup.
  - apply wf_meas in W. destruct W. apply meas_wl_nodup. assumption.
Qed.

(* ------------------------------------------------------------------------------------------ *)
(* op_apply, wire by wire                                                                      *)
(* ------------------------------------------------------------------------------------------ *)
Lemma wire_of_emit_w F wl st w :
  NoDup wl -> w < length st -> wire_of (emit F wl st) w = emit_w F wl w (wire_of st w).
Proof.
  intros ND L. rewrite wire_of_emit by exact ND. unfold emit_w.
  assert (E : (w <? length st) = true) by (apply Nat.ltb_lt; exact L).
  rewrite E, andb_true_r. reflexivity.
Qed.

Lemma op_apply_length fx P nq nc o st : length (op_apply fx P nq nc o st) = length st.
Proof.
  destruct o as [name al targets controls | t c]; unfold op_apply.
  - destruct (is_single targets controls).
    + unfold update_singleq. destruct (fst (draw_singleq P (gate_text name al))) as [[a b] c0].
      apply emit_length.
    + destruct (str_eqb name sSWAP).
      * unfold update_swap. apply emit_length.
      * destruct (has_controls controls).
        -- destruct (is_top fx targets (ctl_list controls)); destruct (is_bot fx targets (ctl_list controls));
             unfold update_qbridge, update_target_multiq; rewrite ?emit_length; reflexivity.
        -- unfold update_target_multiq. apply emit_length.
  - unfold update_cbridge, update_singleq. destruct (fst (draw_meas P nq t c)) as [[a b] c0].
    rewrite !emit_length. reflexivity.
Qed.

Lemma op_apply_wire fx P nq nc o st w :
  wf_op nq nc o = true -> w < length st ->
  wire_of (op_apply fx P nq nc o st) w = op_emit fx P nq nc o w (wire_of st w).
Proof.
  intros W L.
  destruct o as [name al targets controls | t c]; unfold op_apply, op_emit.
  - pose proof (op_wl_nodup nq nc _ W) as ND. unfold op_wl in ND.
    destruct (is_single targets controls) eqn:E1.
    + unfold update_singleq, app3p. destruct (fst (draw_singleq P (gate_text name al))) as [[a b] c0].
      apply wire_of_emit_w; assumption.
    + destruct (str_eqb name sSWAP) eqn:E2.
      * unfold update_swap, op_wl. rewrite E1, E2. apply wire_of_emit_w; assumption.
      * unfold update_qbridge, update_target_multiq.
        destruct (has_controls controls).
        -- destruct (is_top fx targets (ctl_list controls)); destruct (is_bot fx targets (ctl_list controls));
             repeat (rewrite wire_of_emit_w; [| apply range_nodup | rewrite ?emit_length; exact L ]);
             reflexivity.
        -- rewrite wire_of_emit_w; [reflexivity | apply range_nodup | exact L].
  - pose proof (op_wl_nodup nq nc _ W) as ND.
    unfold update_cbridge, update_singleq, app3p. destruct (fst (draw_meas P nq t c)) as [[a b] c0].
    rewrite wire_of_emit_w; [| exact ND | rewrite emit_length; exact L].
    rewrite wire_of_emit_w; [reflexivity | apply NoDup_len1; reflexivity | exact L].
Qed.

(* ------------------------------------------------------------------------------------------ *)
(* place, wire by wire                                                                         *)
(* ------------------------------------------------------------------------------------------ *)
Lemma place_wire sty nq st wl width st1 x :
  NoDup wl -> place sty nq st wl width = Some (st1, x) ->
  x = place_x sty nq st wl /\ length st1 = length st /\
  neg_temp st wl (place_layer st wl) x = false /\
  forall w, w < length st ->
    wire_of st1 w = if mem w wl
                    then manage_wire width (place_layer st wl) x w (pad_wire nq x w (wire_of st w))
                    else wire_of st w.
Proof.
  intros ND H. unfold place in H. fold (place_layer st wl) in H. fold (place_x sty nq st wl) in H.
  destruct (neg_temp st wl (place_layer st wl) (place_x sty nq st wl)) eqn:EN; [discriminate|].
  inversion H; subst; clear H. split; [reflexivity|]. split; [|split].
  - unfold adjust_layer_pad. rewrite !emit_length. reflexivity.
  - exact EN.
  - intros w L. unfold adjust_layer_pad.
    rewrite wire_of_emit_w; [| exact ND | rewrite emit_length; exact L].
    rewrite wire_of_emit_w; [| exact ND | exact L].
    unfold emit_w. destruct (mem w wl); reflexivity.
Qed.

(* ------------------------------------------------------------------------------------------ *)
(* every per-wire emission only appends                                                        *)
(* ------------------------------------------------------------------------------------------ *)
Definition appender (E : wire -> wire) : Prop :=
  forall x, E x = app3 (top (E emptyW)) (mid (E emptyW)) (bot (E emptyW)) x.

Lemma appender_id : appender (fun x => x).
Proof. intro x. destruct x. unfold app3. simpl. rewrite !app_nil_r. reflexivity. Qed.

Lemma appender_app3 a b c : appender (app3 a b c).
Proof. intro x. unfold app3. simpl. reflexivity. Qed.

Lemma appender_comp E1 E2 : appender E1 -> appender E2 -> appender (fun x => E1 (E2 x)).
Proof.
  intros H1 H2 x. rewrite (H1 (E2 x)). rewrite (H2 x).
  rewrite (H1 (E2 emptyW)). rewrite (H2 emptyW) at 1 2 3.
  unfold app3. simpl. rewrite !app_assoc. reflexivity.
Qed.

Lemma appender_emit_w F wl w : appender (F w) -> appender (emit_w F wl w).
Proof. intro H. unfold emit_w. destruct (mem w wl); [exact H | apply appender_id]. Qed.

Lemma appender_app3p p : appender (app3p p).
Proof. destruct p as [[a b] c]. apply appender_app3. Qed.

Lemma appender_cbridge nq t c width w : appender (cbridge_wire nq t c width w).
Proof.
  unfold cbridge_wire. destruct (w =? t); [apply appender_id|].
  destruct (w =? nq + c); apply appender_app3.
Qed.

Lemma appender_target fx targets controls p w : appender (target_wire fx targets controls p w).
Proof.
  unfold target_wire. destruct (length targets =? 1); [apply appender_app3|].
  destruct ((w =? lmin targets) && mem w targets); [apply appender_app3|].
  destruct ((w =? lmax targets) && mem w targets); [apply appender_app3|].
  destruct (fx && has_controls controls && mem w (ctl_list controls)); apply appender_app3.
Qed.

Lemma appender_qbridge fx targets cs f l width it w : appender (qbridge_wire fx targets cs f l width it w).
Proof.
  unfold qbridge_wire.
  destruct (if fx then (lmin targets <=? w) && (w <=? lmax targets) else mem w targets); [apply appender_id|].
  destruct (mem w cs); [|apply appender_app3].
  destruct ((w =? f) || (w =? l)); apply appender_app3.
Qed.

Lemma appender_swap P f l w : appender (swap_wire P f l w).
Proof.
  unfold swap_wire. destruct (w =? l); [apply appender_app3|].
  destruct (w =? f); apply appender_app3.
Qed.

Lemma op_emit_appender fx P nq nc o w : appender (op_emit fx P nq nc o w).
Proof.
  destruct o as [name al targets controls | t c]; unfold op_emit.
  - destruct (is_single targets controls).
    + apply appender_emit_w. apply appender_app3p.
    + destruct (str_eqb name sSWAP).
      * apply appender_emit_w. apply appender_swap.
      * destruct (has_controls controls).
        -- destruct (is_top fx targets (ctl_list controls)); destruct (is_bot fx targets (ctl_list controls)).
           ++ apply (appender_comp (emit_w _ _ w)); [apply appender_emit_w, appender_qbridge|].
              apply (appender_comp (emit_w _ _ w)); [apply appender_emit_w, appender_qbridge|].
              apply appender_emit_w, appender_target.
           ++ apply (appender_comp (emit_w _ _ w)); [apply appender_emit_w, appender_qbridge|].
              apply appender_emit_w, appender_target.
           ++ apply (appender_comp (emit_w _ _ w)); [apply appender_emit_w, appender_qbridge|].
              apply appender_emit_w, appender_target.
           ++ apply appender_emit_w, appender_target.
        -- apply appender_emit_w, appender_target.
  - apply (appender_comp (emit_w _ _ w)); [apply appender_emit_w, appender_cbridge|].
    apply appender_emit_w. apply appender_app3p.
Qed.

Lemma op_emit_seg fx P nq nc o w x :
  op_emit fx P nq nc o w x =
  let '(a, b, c) := op_seg fx P nq nc o w in app3 a b c x.
Proof. unfold op_seg. apply op_emit_appender. Qed.
