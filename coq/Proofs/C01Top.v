(* C01 - statements against the specification [sem] on the unbounded register, compute_unitary, and the general
   density-matrix conjugation. *)
From Coq Require Import List Arith Bool Lia FunctionalExtensionality Ring.
Import ListNotations.
From QV Require Import Found.Base Found.Lemmas Found.Table Model.Einsum Model.GateSim Proofs.EinsumProofs Proofs.GateSimProofs.

Section Top.
Variable O : Ops.
Hypothesis Kring : ring_theory (k0 O) (k1 O) (kadd O) (kmul O) (ksub O) (kopp O) eq.
Add Ring KrT : Kring.
Notation kz := (k0 O). Notation ko := (k1 O).
Infix "+" := (kadd O). Infix "*" := (kmul O).
Notation fvec := (fvec O). Notation sgate := (sgate O). Notation dmat := (dmat O).

Lemma wf_local nq (c : list sgate) : Forall (wf_gate O nq) c -> local nq (circ_of c).
Proof.
  induction 1 as [|g c Hg _ IH]; [constructor|]. constructor; [|exact IH].
  destruct g as [s|M ts]; simpl; [constructor| exact (proj2 Hg)].
Qed.

(* state-vector evolution of a ket = the ordered application of the gates' matrices on the qubits they name;
   the register may be a window of any larger register (x = the bits of the other qubits) *)
Theorem run_ket_correct nq c (psi : state O) (x : asg) : Forall (wf_gate O nq) c ->
  exists w, ket_run O nq c (fun r => psi (overlay nq r x)) = Some w /\
    forall r, length r = nq -> w r = sem (circ_of c) psi (overlay nq r x).
Proof.
  intros Hwf. destruct (ket_run_correct O Kring nq c Hwf (fun r => psi (overlay nq r x))) as [w [E H]].
  exists w. split; [exact E|]. intros r Hr. rewrite (H r Hr).
  pose proof (sem_window O nq (circ_of c) (wf_local nq c Hwf) psi x) as W.
  apply (f_equal (fun f => f r)) in W. symmetry. exact W.
Qed.

(* compute_unitary: evolve the identity operator with an ancillary column axis; column a of the result is the
   circuit applied to the basis vector a *)
Definition id_tensor : otensor O (list bool) :=
  fun vs => match last vs (inl false) with
            | inr a => delta a (map (unb (list bool)) (removelast vs))
            | inl _ => kz
            end.

Lemma col_id_tensor a r : col O (list bool) id_tensor a r = delta a r.
Proof.
  unfold col, id_tensor. rewrite last_last, removelast_last, map_map. f_equal.
  rewrite <- (map_id r) at 2. apply map_ext. reflexivity.
Qed.

Theorem compute_unitary_correct nq c : Forall (wf_gate O nq) c ->
  exists W, oper_run O (list bool) (all_bits nq) nq c id_tensor = Some W /\
    forall a r, length r = nq -> col O (list bool) W a r = fsem nq (circ_of c) (delta a) r.
Proof.
  intros Hwf. destruct (oper_run_correct O Kring (list bool) (all_bits nq) nq c Hwf id_tensor) as [W [E H]].
  exists W. split; [exact E|]. intros a r Hr. rewrite (H a r Hr).
  apply (fsem_ext O); [|exact Hr]. intros r' _. apply col_id_tensor.
Qed.

(* ---------------- density matrices: U rho U^dagger for any rho ---------------- *)
Section Conj.
Variable cj : O -> O.
Hypothesis cj_add : forall a b, cj (a + b) = cj a + cj b.
Hypothesis cj_mul : forall a b, cj (a * b) = cj a * cj b.
Hypothesis cj_0 : cj kz = kz.
Notation ksum_scale := (Lemmas.ksum_scale O Kring). Notation ksum_scale_r := (Lemmas.ksum_scale_r O Kring).
Notation ksum_swap := (Lemmas.ksum_swap O Kring). Notation ksum_map_ext := (Lemmas.ksum_map_ext O).

Definition conjby (N : nat) (A rho : dmat) : dmat := dmm N (dmm N A rho) (dadj cj A).

Lemma dmm_assoc N (A B C : dmat) : dmm N (dmm N A B) C = dmm N A (dmm N B C).
Proof.
  apply functional_extensionality; intro r. apply functional_extensionality; intro c. unfold dmm.
  rewrite (ksum_map_ext _ (fun m => ksum (map (fun k => A r k * B k m * C m c) (all_bits N)))).
  2:{ intros m _. rewrite ksum_scale_r, map_map. reflexivity. }
  rewrite ksum_swap. apply ksum_map_ext. intros k _. rewrite ksum_scale, map_map.
  apply ksum_map_ext. intros; ring.
Qed.

Lemma dadj_dmm N (A B : dmat) : dadj cj (dmm N A B) = dmm N (dadj cj B) (dadj cj A).
Proof.
  apply functional_extensionality; intro r. apply functional_extensionality; intro c. unfold dadj, dmm.
  rewrite (cj_ksum O cj cj_add cj_0), map_map. apply ksum_map_ext. intros m _. rewrite cj_mul. ring.
Qed.

Lemma dm_step_conj N g (acc rho : dmat) :
  dm_step cj N g (conjby N acc rho) = conjby N (dmm N (prop_expand N g) acc) rho.
Proof.
  unfold dm_step, conjby. set (U := prop_expand N g). rewrite dadj_dmm.
  rewrite <- (dmm_assoc N U (dmm N acc rho) (dadj cj acc)).
  rewrite <- (dmm_assoc N U acc rho).
  rewrite (dmm_assoc N (dmm N (dmm N U acc) rho) (dadj cj acc) (dadj cj U)). reflexivity.
Qed.

(* if the current density matrix is A rho A^dagger, after the gates c it is (U_k ... U_1 A) rho (U_k ... U_1 A)^dagger,
   U_i the expanded propagators (whose product acts as the circuit: gsp_expanded_acc / propagators_expand_correct) *)
Theorem dm_run_conj N c : forall acc rho : dmat,
  dm_run cj N c (conjby N acc rho) =
  conjby N (fold_left (fun a U => dmm N U a) (map (prop_expand N) c) acc) rho.
Proof.
  induction c as [|g c IH]; intros acc rho; [reflexivity|].
  change (dm_run cj N (g :: c) (conjby N acc rho)) with (dm_run cj N c (dm_step cj N g (conjby N acc rho))).
  rewrite dm_step_conj. apply IH.
Qed.
End Conj.
End Top.
