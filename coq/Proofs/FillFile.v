(* C14 -- save_coeff / read_coeff: header and column bookkeeping round-trips *)
From Coq Require Import String Ascii.
From Coq Require Import List QArith Bool Arith Lia.
From QV Require Import Model.Fill Spec.FillSpec.
Import ListNotations.
Open Scope Q_scope.

(* ---------- strings ---------- *)
Lemma sapp_nil_r (s : string) : (s ++ "")%string = s.
Proof. induction s as [|c s IH]; cbn; [reflexivity|rewrite IH; reflexivity]. Qed.
Lemma sapp_assoc (a b c : string) : ((a ++ b) ++ c)%string = (a ++ (b ++ c))%string.
Proof. induction a as [|x a IH]; cbn; [reflexivity|rewrite IH; reflexivity]. Qed.

Lemma split_aux_nosemi s : nosemib s = true ->
  forall rest acc, split_semi_aux (s ++ rest) acc = split_semi_aux rest (acc ++ s).
Proof.
  induction s as [|c s IH]; intros H rest acc.
  - cbn. rewrite sapp_nil_r. reflexivity.
  - cbn [nosemib] in H. apply andb_true_iff in H. destruct H as [Hc Hs].
    apply negb_true_iff in Hc. cbn [append split_semi_aux]. rewrite Hc.
    rewrite (IH Hs). rewrite sapp_assoc. reflexivity.
Qed.

Lemma split_join labels : labels <> [] -> forallb nosemib labels = true ->
  split_semi (join_semi labels) = labels.
Proof.
  unfold split_semi. induction labels as [|l ls IH]; intros Hne Hall; [congruence|].
  cbn [forallb] in Hall. apply andb_true_iff in Hall. destruct Hall as [Hl Hls].
  destruct ls as [|l2 ls'].
  - cbn [join_semi]. rewrite <- (sapp_nil_r l) at 1.
    rewrite (split_aux_nosemi l Hl). cbn. reflexivity.
  - change (join_semi (l :: l2 :: ls')) with (l ++ (semi ++ join_semi (l2 :: ls')))%string.
    rewrite (split_aux_nosemi l Hl). cbn [semi append split_semi_aux].
    cbn [Ascii.eqb Bool.eqb]. cbn [append]. f_equal. apply IH; [discriminate|exact Hls].
Qed.

Lemma split_semi_join labels : labels <> [] -> forallb nosemib labels = true ->
  split_semi (semi ++ join_semi labels) = EmptyString :: labels.
Proof.
  intros Hne Hall. unfold split_semi. cbn [semi append split_semi_aux].
  cbn [Ascii.eqb Bool.eqb]. f_equal. apply split_join; assumption.
Qed.

(* ---------- transposition ---------- *)
Fixpoint zipcons (c : list Q) (rows : list (list Q)) : list (list Q) :=
  match c, rows with
  | x :: c', r :: rows' => (x :: r) :: zipcons c' rows'
  | _, _ => []
  end.

Lemma transpose_length n : forall rows, length (transpose n rows) = n.
Proof. induction n as [|n IH]; intros rows; cbn; [reflexivity|rewrite IH; reflexivity]. Qed.

Lemma transpose_cons n : forall c cols, length c = n ->
  transpose n (c :: cols) = zipcons c (transpose n cols).
Proof.
  induction n as [|n IH]; intros c cols Hc.
  - destruct c; [reflexivity|discriminate].
  - destruct c as [|x c']; [discriminate|]. cbn [transpose map hd tl zipcons].
    f_equal. apply IH. cbn in Hc. lia.
Qed.

Lemma zipcons_hd c : forall rows, length c = length rows -> map (hd 0) (zipcons c rows) = c.
Proof.
  induction c as [|x c IH]; intros rows H; [reflexivity|].
  destruct rows as [|r rows]; [discriminate|]. cbn. f_equal. apply IH. cbn in H. lia.
Qed.
Lemma zipcons_tl c : forall rows, length c = length rows -> map (@tl Q) (zipcons c rows) = rows.
Proof.
  induction c as [|x c IH]; intros rows H.
  - destruct rows; [reflexivity|discriminate].
  - destruct rows as [|r rows]; [discriminate|]. cbn. f_equal. apply IH. cbn in H. lia.
Qed.

Lemma transpose_involutive n : forall cols, (forall c, In c cols -> length c = n) ->
  transpose (length cols) (transpose n cols) = cols.
Proof.
  induction cols as [|c cols IH]; intros H; [reflexivity|].
  assert (Hc : length c = n) by (apply H; left; reflexivity).
  rewrite transpose_cons by exact Hc. cbn [length transpose].
  assert (Hl : length c = length (transpose n cols)) by (rewrite transpose_length; exact Hc).
  rewrite zipcons_hd, zipcons_tl by exact Hl. f_equal.
  apply IH. intros d Hd. apply H. right; exact Hd.
Qed.

Lemma transpose_first_row n cols : (1 <= n)%nat ->
  match transpose n cols with [] => O | r :: _ => length r end = length cols.
Proof.
  destruct n as [|n]; [lia|]. intros _. cbn [transpose]. apply map_length.
Qed.

(* ---------- round trip ---------- *)
Lemma roundtrip inctime labels full rows :
  file_okb labels full rows = true ->
  read_file inctime (save_file inctime labels full rows)
  = Some (if inctime then Some full else None, combine labels rows).
Proof.
  unfold file_okb. intros H.
  apply andb_true_iff in H. destruct H as [H H5].
  apply andb_true_iff in H. destruct H as [H H4].
  apply andb_true_iff in H. destruct H as [H H3].
  apply andb_true_iff in H. destruct H as [H1 H2].
  assert (Hne : labels <> []) by (destruct labels; [discriminate|discriminate]).
  apply Nat.leb_le in H3. apply Nat.eqb_eq in H4.
  assert (Hrows : forall c, In c rows -> length c = length full).
  { intros c Hc. rewrite forallb_forall in H5. apply Nat.eqb_eq. auto. }
  unfold save_file, read_file. destruct inctime.
  - rewrite split_semi_join by assumption.
    rewrite (transpose_first_row (length full) (full :: rows) H3).
    rewrite transpose_involutive.
    2:{ intros c [<-|Hc]; [reflexivity|auto]. }
    cbn [List.tl]. rewrite H4, Nat.leb_refl. reflexivity.
  - rewrite split_join by assumption.
    rewrite (transpose_first_row (length full) rows H3).
    rewrite transpose_involutive by exact Hrows.
    rewrite H4, Nat.leb_refl. reflexivity.
Qed.
