(* C11: the pulse timetable computed by Scheduler.schedule -- assembling graph, list scheduling and distances. *)
From Coq Require Import String Ascii.
From Coq Require Import List Arith Bool QArith PeanoNat Lia Lqa Permutation.
From QV Require Import Model.Sched Proofs.SchedBase Proofs.SchedList Proofs.SchedGraph Proofs.SchedDist.
Import ListNotations.
Open Scope nat_scope.

Definition stt (st : list Q) (i : nat) : Q := nth i st 0%Q.

Lemma stt_map_seq : forall (f : nat -> Q) n i, i < n -> stt (map f (seq 0 n)) i = f i.
Proof.
  intros f n i Hi. unfold stt.
  rewrite (nth_indep _ 0%Q (f 0)) by (rewrite map_length, seq_length; exact Hi).
  rewrite map_nth. rewrite seq_nth by exact Hi. reflexivity.
Qed.

Lemma schedule_pulse_unfold : forall n used dur comm alap random sh so fixed ks ko, 0 < n ->
  schedule_pulse n used dur comm alap random sh so fixed ks ko =
  match core n used dur comm alap random sh so ks ko with
  | None => None
  | Some r =>
      let EF := cr_graph r ++ cr_conf r ++ (if fixed then fix_edges (shares used) (cr_cycles r) [] else []) in
      match compute_distance n EF dur (cr_cycles r) with
      | None => None
      | Some (ds, de) => Some (map (fun v => (getd (if alap then de else ds) v - dur v)%Q) (seq 0 n))
      end
  end.
Proof. intros. destruct n; [lia | reflexivity]. Qed.

Lemma schedule_cycles_unfold : forall n used dur comm alap random sh so ks ko, 0 < n ->
  schedule_cycles n used dur comm alap random sh so ks ko =
  match core n used dur comm alap random sh so ks ko with
  | None => None
  | Some r => Some (if alap then rev (cr_cycles r) else cr_cycles r, cr_ks r, cr_ko r)
  end.
Proof. intros. destruct n; [lia | reflexivity]. Qed.

(* ---------- the ordering edges added by the fix ---------- *)
Section Fix.
  Variable conf : nat -> nat -> bool.

  Lemma concat_snoc : forall (pre : list (list nat)) c, concat (pre ++ [c]) = concat pre ++ c.
  Proof. intros. rewrite concat_app. simpl. rewrite app_nil_r. reflexivity. Qed.

  Lemma fix_edges_sound : forall cs pre a b, NoDup (concat (pre ++ cs)) ->
    In (a, b) (fix_edges conf cs (concat pre)) -> beforeC (pre ++ cs) a b /\ conf b a = true.
  Proof.
    induction cs as [|c r IH]; intros pre a b Hnd H; simpl in H; [contradiction|].
    apply in_app_iff in H. destruct H as [H|H].
    - apply in_flat_map in H. destruct H as [b' [Hb H]]. apply in_map_iff in H. destruct H as [a' [He Ha]].
      inversion He; subst a' b'. apply filter_In in Ha. destruct Ha as [Ha Hc]. split; [|exact Hc].
      rewrite concat_app in Hnd. simpl in Hnd.
      assert (Hbn : ~ In b (concat pre)).
      { intros Hx. apply (NoDup_app_disj _ _ b Hnd Hx). apply in_app_iff. left. exact Hb. }
      unfold beforeC. rewrite concat_app. simpl. rewrite !in_app_iff. splits; [tauto | tauto |].
      rewrite cidx_app_in by exact Ha. rewrite cidx_app_notin by exact Hbn. simpl.
      assert (Hm : memb b c = true) by (apply memb_In; exact Hb). rewrite Hm.
      apply cidx_lt_len in Ha. lia.
    - rewrite <- concat_snoc in H.
      replace (pre ++ c :: r) with ((pre ++ [c]) ++ r) in * by (rewrite <- app_assoc; reflexivity).
      apply IH; assumption.
  Qed.

  Lemma fix_edges_complete : forall cs pre a b, NoDup (concat (pre ++ cs)) ->
    beforeC (pre ++ cs) a b -> In b (concat cs) -> conf b a = true ->
    In (a, b) (fix_edges conf cs (concat pre)).
  Proof.
    induction cs as [|c r IH]; intros pre a b Hnd Hbc Hb Hc; simpl in *; [contradiction|].
    apply in_app_iff.
    assert (Hnd2 := Hnd). rewrite concat_app in Hnd2. simpl in Hnd2.
    assert (Hbn : ~ In b (concat pre)).
    { intros Hx. apply (NoDup_app_disj _ _ b Hnd2 Hx). exact Hb. }
    destruct (memb b c) eqn:Hm.
    - left. apply memb_In in Hm as Hbc'. apply in_flat_map. exists b. split; [exact Hbc'|].
      apply in_map_iff. exists a. split; [reflexivity|]. apply filter_In. split; [|exact Hc].
      destruct Hbc as (Ha & _ & Hlt).
      rewrite (cidx_app_notin pre (c :: r) b Hbn) in Hlt. simpl in Hlt. rewrite Hm in Hlt.
      destruct (in_dec Nat.eq_dec a (concat pre)) as [Hi|Hni]; [exact Hi|].
      rewrite (cidx_app_notin pre (c :: r) a Hni) in Hlt. lia.
    - right. apply memb_false in Hm. apply in_app_iff in Hb. destruct Hb as [Hb|Hb]; [contradiction|].
      rewrite <- concat_snoc.
      replace (pre ++ c :: r) with ((pre ++ [c]) ++ r) in * by (rewrite <- app_assoc; reflexivity).
      apply IH; assumption.
  Qed.
End Fix.

Lemma same_cycle : forall cs a b, In a (concat cs) -> In b (concat cs) -> cidx cs a = cidx cs b ->
  exists c, In c cs /\ In a c /\ In b c.
Proof.
  induction cs as [|c r IH]; intros a b Ha Hb He; simpl in *; [contradiction|].
  destruct (memb a c) eqn:Hma; destruct (memb b c) eqn:Hmb; try discriminate.
  - exists c. apply memb_In in Hma. apply memb_In in Hmb. tauto.
  - apply memb_false in Hma. apply memb_false in Hmb.
    apply in_app_iff in Ha. apply in_app_iff in Hb.
    destruct (IH a b) as (c' & H1 & H2 & H3); try tauto; [lia|]. exists c'. tauto.
Qed.

Lemma swapE_invol : forall E u v, In (u, v) (swapE (swapE E)) <-> In (u, v) E.
Proof. intros. rewrite swapE_In, swapE_In. tauto. Qed.

(* ---------- the scheduler core ---------- *)
Section C11.
  Variable n : nat.
  Variable used : nat -> list nat.
  Variable dur : nat -> Q.
  Variable comm : nat -> nat -> bool.
  Variable alap random : bool.
  Variables sh so : nat -> list nat -> list nat.
  Hypothesis dur_nonneg : forall v, (0 <= dur v)%Q.
  Hypothesis Hn : 0 < n.
  Hypothesis Hq : exists i q, i < n /\ In q (used i).

  Definition RR (a b : nat) : Prop := shares used b a = false.

  Lemma core_spec : forall ks ko, exists r nq,
    num_qubits n used = Some nq /\
    core n used dur comm alap random sh so ks ko = Some r /\
    cr_graph r = (if alap then swapE (dep_edges n used comm nq) else dep_edges n used comm nq) /\
    Permutation (concat (cr_cycles r)) (seq 0 n) /\
    (forall u v, In (u, v) (cr_graph r) -> beforeC (cr_cycles r) u v) /\
    (forall a b, In (a, b) (cr_conf r) -> beforeC (cr_cycles r) a b) /\
    Forall (ForallOrdPairs RR) (cr_cycles r).
  Proof.
    intros ks ko. destruct Hq as (i0 & q0 & Hi0 & Hq0).
    destruct (num_qubits_some n used i0 q0 Hi0 Hq0) as [nq Hnq].
    set (G := dep_edges n used comm nq).
    set (W := if alap then swapE G else G).
    assert (HW : exists rk, (forall u v, In (u, v) W -> u < n /\ v < n) /\ (forall u v, In (u, v) W -> rk u < rk v)).
    { unfold W. destruct alap.
      - exists (fun x => n - x). split; intros u v H; apply (proj1 (swapE_In _ _ _)) in H; apply dep_edges_spec in H; lia.
      - exists (fun x => x). split; intros u v H; apply dep_edges_spec in H; lia. }
    destruct HW as (rk & Hrange & Hrank).
    destruct (find_topological_order_spec n W (shares used) sh so random false false (fun _ _ => false) Hrange rk Hrank ks ko)
      as (cyc1 & ec1 & ks1 & ko1 & Hf1 & Hp1 & Ht1 & _ & _).
    destruct (compute_distance_spec n dur dur_nonneg W cyc1 Hp1 Ht1) as (ds & de & Hcd & _).
    destruct (find_topological_order_spec n W (shares used) sh so random true true (prio ds de) Hrange rk Hrank ks1 ko1)
      as (cyc2 & ec2 & ks2 & ko2 & Hf2 & Hp2 & Ht2 & He2 & Hfop).
    exists (mkCore W cyc2 ec2 ks2 ko2), nq. unfold core. rewrite Hnq. fold G. fold W.
    rewrite Hf1. cbv beta iota. rewrite Hcd. cbv beta iota. rewrite Hf2. cbv beta iota. simpl.
    splits; try assumption; try reflexivity.
    - intros a b H. apply (He2 a b H).
    - apply Hfop. reflexivity.
  Qed.

  (* the timetable *)
  Theorem pulse_spec : forall fixed ks ko, exists st,
    schedule_pulse n used dur comm alap random sh so fixed ks ko = Some st /\
    length st = n /\
    (forall i, i < n -> (0 <= stt st i)%Q) /\
    (exists i, i < n /\ (stt st i == 0)%Q) /\
    (forall i j, i < j -> j < n -> shares used i j = true -> comm j i = false ->
                 (stt st i + dur i <= stt st j)%Q) /\
    (forall i, i < n -> (stt st i + dur i <= sumk dur (seq 0 n))%Q) /\
    (fixed = true -> forall i j, i < n -> j < n -> i <> j -> shares used i j = true ->
                 (stt st i + dur i <= stt st j)%Q \/ (stt st j + dur j <= stt st i)%Q).
  Proof.
    intros fixed ks ko.
    destruct (core_spec ks ko) as (r & nq & Hnq & Hcore & Hgraph & Hperm & HtW & Htc & Hfop).
    rewrite schedule_pulse_unfold by exact Hn. rewrite Hcore. cbv zeta.
    set (cycles := cr_cycles r) in *.
    set (FX := if fixed then fix_edges (shares used) cycles [] else []).
    set (EF := cr_graph r ++ cr_conf r ++ FX).
    assert (Hnd : NoDup (concat cycles)) by (eapply Permutation_NoDup; [apply Permutation_sym; exact Hperm | apply seq_NoDup]).
    assert (Hin_n : forall v, In v (concat cycles) <-> v < n).
    { intros v. split; intros H.
      - apply (Permutation_in _ Hperm) in H. apply in_seq in H. lia.
      - apply (Permutation_in _ (Permutation_sym Hperm)). apply in_seq. lia. }
    assert (HtEF : forall u v, In (u, v) EF -> beforeC cycles u v).
    { intros u v H. unfold EF in H. rewrite !in_app_iff in H. destruct H as [H|[H|H]].
      - apply HtW. exact H.
      - apply Htc. exact H.
      - unfold FX in H. destruct fixed; [|contradiction].
        apply (fix_edges_sound (shares used) cycles [] u v Hnd H). }
    destruct (compute_distance_spec n dur dur_nonneg EF cycles Hperm HtEF)
      as (ds & de & Hcd & Gs & Bs & Ks & Ge & Be & Ke).
    rewrite Hcd. cbv beta iota.
    set (D := if alap then de else ds).
    set (RT := if alap then swapE EF else EF).
    set (ordD := if alap then concat (rev cycles) else concat cycles).
    assert (KG : good (preds RT) dur D) by (unfold RT, D; destruct alap; assumption).
    assert (KB : bounded dur D) by (unfold D; destruct alap; assumption).
    assert (KK : keys D = rev ordD) by (unfold D, ordD; destruct alap; assumption).
    assert (KP : Permutation ordD (seq 0 n)).
    { unfold ordD. destruct alap; [eapply perm_trans; [apply concat_rev_perm | exact Hperm] | exact Hperm]. }
    assert (Kin : forall v, v < n -> In v (keys D)).
    { intros v Hv. rewrite KK. apply -> in_rev. apply (Permutation_in _ (Permutation_sym KP)). apply in_seq. lia. }
    assert (Ktopo : forall l1 v l2, ordD = l1 ++ v :: l2 -> forall u, In (u, v) RT -> In u l1).
    { intros l1 v l2 He u Hu. unfold ordD, RT in *. destruct alap.
      - apply (proj1 (swapE_In _ _ _)) in Hu.
        eapply beforeC_prefix; [apply beforeC_rev; [exact Hnd | apply HtEF; exact Hu] | exact He].
      - eapply beforeC_prefix; [apply HtEF; exact Hu | exact He]. }
    assert (KRT_n : forall a b, In (a, b) RT -> a < n /\ b < n).
    { intros a b H.
      assert (H' : beforeC cycles a b \/ beforeC cycles b a).
      { unfold RT in H. destruct alap; [right; apply HtEF; apply (proj1 (swapE_In _ _ _)); exact H | left; apply HtEF; exact H]. }
      destruct H' as [(H1 & H2 & _)|(H1 & H2 & _)]; apply Hin_n in H1; apply Hin_n in H2; tauto. }
    assert (KGsub : forall a b, In (a, b) (dep_edges n used comm nq) -> In (a, b) RT).
    { intros a b H. unfold RT, EF. rewrite Hgraph. destruct alap.
      - apply (proj2 (swapE_In _ _ _)). rewrite !in_app_iff. left. apply (proj2 (swapE_In _ _ _)). exact H.
      - rewrite !in_app_iff. left. exact H. }
    (* facts about D *)
    assert (Hlk : forall v, v < n -> lookup v D = Some (getd D v)) by (intros v Hv; apply getd_lookup; apply Kin; exact Hv).
    assert (F1 : forall v, v < n -> (dur v <= getd D v)%Q).
    { intros v Hv. apply (KG v _ (Hlk v Hv)). }
    assert (F2 : forall a b, In (a, b) RT -> (getd D a + dur b <= getd D b)%Q).
    { intros a b H. destruct (KRT_n a b H) as [Ha Hb].
      destruct (KG b _ (Hlk b Hb)) as (_ & _ & G3 & _).
      destruct (G3 a) as (y & Hy & Hle); [apply preds_In; exact H|].
      unfold getd at 1. rewrite Hy. exact Hle. }
    assert (F3 : forall v, v < n -> (getd D v <= sumk dur (seq 0 n))%Q).
    { intros v Hv. pose proof (KB v _ (Hlk v Hv)) as H. rewrite KK in H.
      assert (Hs : (sumk dur (rev ordD) == sumk dur (seq 0 n))%Q).
      { apply sumk_perm. eapply perm_trans; [apply Permutation_sym; apply Permutation_rev | exact KP]. }
      lra. }
    assert (F4 : exists v, v < n /\ getd D v = dur v).
    { destruct ordD as [|v0 rest] eqn:Ho.
      - exfalso. apply Permutation_nil in KP. destruct n; [lia | discriminate].
      - assert (Hv0 : v0 < n).
        { assert (H : In v0 (seq 0 n)) by (apply (Permutation_in _ KP); left; reflexivity). apply in_seq in H. lia. }
        exists v0. split; [exact Hv0|].
        destruct (KG v0 _ (Hlk v0 Hv0)) as (_ & G2 & _). apply G2.
        destruct (preds RT v0) as [|u pr] eqn:Hp; [reflexivity|]. exfalso.
        assert (Hu : In u (preds RT v0)) by (rewrite Hp; left; reflexivity).
        apply preds_In in Hu. apply (Ktopo [] v0 rest eq_refl u Hu). }
    eexists. split; [reflexivity|].
    assert (Hst : forall i, i < n -> stt (map (fun v => (getd D v - dur v)%Q) (seq 0 n)) i = (getd D i - dur i)%Q).
    { intros i Hi. apply (stt_map_seq (fun v => (getd D v - dur v)%Q)). exact Hi. }
    split; [rewrite map_length, seq_length; reflexivity|].
    split; [|split; [|split; [|split]]].
    - intros i Hi. rewrite (Hst i Hi). specialize (F1 i Hi). lra.
    - destruct F4 as (v & Hv & He). exists v. split; [exact Hv|]. rewrite (Hst v Hv). rewrite He. lra.
    - intros i j Hij Hj Hs Hc.
      assert (Hi : i < n) by lia.
      apply shares_spec in Hs. destruct Hs as (q & Hqi & Hqj).
      pose proof (num_qubits_bound n used nq Hnq i q Hi Hqi) as Hqn.
      pose proof (dep_edges_D1 n used comm nq q i j Hqn Hij Hj Hqi Hqj Hc) as Hpath.
      assert (Hrel : i < n /\ j < n /\ (getd D i + dur j <= getd D j)%Q).
      { apply (path_rel (fun a b => a < n /\ b < n /\ (getd D a + dur b <= getd D b)%Q) (dep_edges n used comm nq)); [| |exact Hpath].
        - intros a b c (Ha & Hb & H1) (_ & Hc' & H2). splits; try assumption. specialize (dur_nonneg b). lra.
        - intros u v Huv. apply KGsub in Huv. destruct (KRT_n u v Huv). splits; try assumption. apply F2. exact Huv. }
      destruct Hrel as (_ & _ & Hle). rewrite (Hst i Hi), (Hst j Hj). lra.
    - intros i Hi. rewrite (Hst i Hi). specialize (F3 i Hi). lra.
    - intros Hfx i j Hi Hj Hne Hs. rewrite (Hst i Hi), (Hst j Hj).
      assert (Hci : In i (concat cycles)) by (apply Hin_n; exact Hi).
      assert (Hcj : In j (concat cycles)) by (apply Hin_n; exact Hj).
      assert (Hedge : forall a b, beforeC cycles a b -> shares used b a = true -> In (a, b) EF).
      { intros a b Hb Hc. unfold EF, FX. rewrite Hfx. rewrite !in_app_iff. right. right.
        apply (fix_edges_complete (shares used) cycles [] a b Hnd Hb); [apply Hb | exact Hc]. }
      assert (Hlr : forall a b, a < n -> b < n -> In (a, b) EF ->
                 (getd D a - dur a + dur a <= getd D b - dur b)%Q \/ (getd D b - dur b + dur b <= getd D a - dur a)%Q).
      { intros a b Ha Hb H. unfold RT in F2. destruct alap.
        - right. assert (H' : In (b, a) (swapE EF)) by (apply (proj2 (swapE_In _ _ _)); exact H). specialize (F2 b a H'). lra.
        - left. specialize (F2 a b H). lra. }
      destruct (Nat.lt_trichotomy (cidx cycles i) (cidx cycles j)) as [Hlt|[Heq|Hgt]].
      + apply Hlr; try assumption. apply Hedge; [unfold beforeC; tauto | rewrite shares_sym; exact Hs].
      + exfalso. destruct (same_cycle cycles i j Hci Hcj Heq) as (c & Hc & Hic & Hjc).
        rewrite Forall_forall in Hfop. specialize (Hfop c Hc).
        destruct (ForallOrdPairs_In Hfop i j Hic Hjc) as [H|[H|H]]; [congruence | |]; unfold RR in H.
        * rewrite shares_sym in H. congruence.
        * congruence.
      + assert (H : (getd D j - dur j + dur j <= getd D i - dur i)%Q \/ (getd D i - dur i + dur i <= getd D j - dur j)%Q).
        { apply Hlr; try assumption. apply Hedge; [unfold beforeC; tauto | exact Hs]. }
        tauto.
  Qed.
End C11.
