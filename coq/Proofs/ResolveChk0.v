(* C03: semantic obligations for basis configurations 0 .. 63 of all_cfgs (20 gate kinds each) *)
From QV Require Import Model.Resolve Proofs.ResolveChkDefs.
Lemma chk_sem_0 : sem_ok (slice 0) = true.
Proof. vm_compute. reflexivity. Qed.
