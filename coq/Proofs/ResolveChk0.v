(* C03: semantic obligations (every canonical basis configuration) for the gate kinds of slice 0 *)
From QV Require Import Model.Resolve Proofs.ResolveChkDefs.
Lemma chk_sem_0 : obls_ok (kslice 0) = true.
Proof. vm_compute. reflexivity. Qed.
