(* C07 - meaning, adjacency and index range of the routed circuit, for every register size.

   Gate semantics is abstract: a state type S and act : gate -> S -> S with three hypotheses
   (Section variables, i.e. premises of every theorem after the Section is closed):
     conj_c : SWAP(p,q) ; G(c,t) ; SWAP(p,q) = G(tau c, tau t)   for G in CNOT, CSIGN
     conj_s : the same for the swap-type gates (any arg_value)
     sym_s  : swap-type gates are symmetric in their two targets
   with tau the transposition (p q). *)
From Coq Require Import ZArith List String Bool Lia.
Import ListNotations.
From QV Require Import Model.Route Proofs.RouteLoop.
Local Open Scope Z_scope.

(* ------------------------------------------------------------------------------------------ *)
(* arithmetic on the ring                                                                      *)
(* ------------------------------------------------------------------------------------------ *)
Lemma tau_l : forall p q, tau p q p = q.
Proof. intros. unfold tau. rewrite Z.eqb_refl. reflexivity. Qed.

Lemma tau_r : forall p q, tau p q q = p.
Proof.
  intros. unfold tau. destruct (q =? p) eqn:E.
  - apply Z.eqb_eq in E. congruence.
  - rewrite Z.eqb_refl. reflexivity.
Qed.

Lemma tau_other : forall p q x, x <> p -> x <> q -> tau p q x = x.
Proof.
  intros p q x H1 H2. unfold tau.
  apply Z.eqb_neq in H1. apply Z.eqb_neq in H2. rewrite H1, H2. reflexivity.
Qed.

Lemma tau_inj : forall p q x y, tau p q x = tau p q y -> x = y.
Proof.
  intros p q x y. unfold tau.
  destruct (x =? p) eqn:E1; destruct (y =? p) eqn:E2;
  destruct (x =? q) eqn:E3; destruct (y =? q) eqn:E4;
  rewrite ?Z.eqb_eq, ?Z.eqb_neq in *; intros; subst; try congruence; try lia.
Qed.

Lemma mod_shift_inj : forall N e x y,
  0 < N -> 0 <= x < N -> 0 <= y < N -> (e + x) mod N = (e + y) mod N -> x = y.
Proof.
  intros N e x y HN Hx Hy H.
  assert (Hd : (x - y) mod N = 0).
  { replace (x - y) with ((e + x) - (e + y)) by lia.
    rewrite Zminus_mod, H, Z.sub_diag. apply Z.mod_0_l. lia. }
  apply Z.mod_divide in Hd; [|lia].
  destruct Hd as [q Hq].
  assert (q = 0) by nia. subst q. lia.
Qed.

Lemma mod_succ : forall N a, 0 < N -> ((a mod N) + 1) mod N = (a + 1) mod N.
Proof. intros. apply Z.add_mod_idemp_l. lia. Qed.

(* ------------------------------------------------------------------------------------------ *)
(* adjacency / range of gates sitting on edges of a path                                       *)
(* ------------------------------------------------------------------------------------------ *)
Definition two_sided (c : Z -> Z -> gate) : Prop :=
  forall x y, qubits (c x y) = [x; y] \/ qubits (c x y) = [y; x].

Lemma two_sided_ccore : forall n b, two_sided (ccore n b).
Proof. intros n b x y. unfold ccore. destruct b; cbn; auto. Qed.

Lemma two_sided_SWg : forall n a, two_sided (SWg n a).
Proof. intros n a x y. left. reflexivity. Qed.

Definition edge_ok (tp : topo) (N : Z) (a b : Z) : Prop :=
  adjb tp N a b = true /\ adjb tp N b a = true /\ 0 <= a < N /\ 0 <= b < N.

Lemma edge_ok_gate : forall tp N g a b,
  edge_ok tp N a b -> (qubits g = [a; b] \/ qubits g = [b; a]) ->
  adj2b tp N g = true /\ in_rangeb N g = true.
Proof.
  intros tp N g a b [H1 [H2 [Ha Hb]]] Hq.
  unfold adj2b, in_rangeb.
  assert (Ra : (0 <=? a) && (a <? N) = true)
    by (apply andb_true_iff; split; [apply Z.leb_le | apply Z.ltb_lt]; lia).
  assert (Rb : (0 <=? b) && (b <? N) = true)
    by (apply andb_true_iff; split; [apply Z.leb_le | apply Z.ltb_lt]; lia).
  destruct Hq as [Hq|Hq]; rewrite Hq; cbn [forallb]; rewrite Ra, Rb; auto.
Qed.

Lemma edge_linear : forall tp N j, 0 <= j -> j + 1 < N -> edge_ok tp N j (j + 1).
Proof.
  intros tp N j H0 H1. unfold edge_ok, adjb. destruct tp.
  - rewrite Z.eqb_refl. rewrite orb_true_r. cbn [orb]. repeat split; lia.
  - rewrite (Z.mod_small (j + 1) N) by lia. rewrite Z.eqb_refl.
    rewrite orb_true_r. cbn [orb]. repeat split; lia.
Qed.

Lemma edge_ring : forall N e j, 0 < N ->
  edge_ok Circular N ((e + j) mod N) ((e + (j + 1)) mod N).
Proof.
  intros N e j HN. unfold edge_ok, adjb.
  assert (H : ((e + j) mod N + 1) mod N = (e + (j + 1)) mod N).
  { rewrite mod_succ by lia. f_equal. lia. }
  rewrite H, Z.eqb_refl. rewrite orb_true_r. cbn [orb].
  pose proof (Z.mod_pos_bound (e + j) N HN).
  pose proof (Z.mod_pos_bound (e + (j + 1)) N HN).
  repeat split; lia.
Qed.

Lemma relab_SWAPg : forall rho p q, relab rho (SWAPg p q) = SWAPg (rho p) (rho q).
Proof. reflexivity. Qed.

Lemma qubits_relab : forall rho g, qubits (relab rho g) = map rho (qubits g).
Proof. intros. unfold qubits, relab. cbn. rewrite map_app. reflexivity. Qed.

Lemma relab_id : forall l, map (relab (fun x => x)) l = l.
Proof.
  induction l as [|g l IH]; [reflexivity|].
  cbn [map]. rewrite IH. f_equal.
  destruct g as [n t c a]. unfold relab. cbn. rewrite !map_id. reflexivity.
Qed.

(* all gates of a relabelled network are adjacent and in range when the path edges are *)
Lemma net_edges : forall tp N rho k cA cB s e,
  (e - s = 2 * Z.of_nat k + 1 \/ e - s = 2 * Z.of_nat k + 2) ->
  two_sided cA -> two_sided cB ->
  (forall j, s <= j -> j + 1 <= e -> edge_ok tp N (rho j) (rho (j + 1))) ->
  forallb (adj2b tp N) (map (relab rho) (net k cA cB s e)) = true /\
  forallb (in_rangeb N) (map (relab rho) (net k cA cB s e)) = true.
Proof.
  intros tp N rho k cA cB s e Hk HA HB Hedge.
  pose proof (net_on_path k cA cB s e Hk) as HF.
  induction HF as [|g l Hg HF IH]; [split; reflexivity|].
  destruct IH as [IH1 IH2].
  cbn [map forallb].
  destruct Hg as [j [j' [H1 [H2 [H3 H4]]]]]. subst j'.
  assert (Hq : qubits (relab rho g) = [rho j; rho (j + 1)] \/
               qubits (relab rho g) = [rho (j + 1); rho j]).
  { rewrite qubits_relab.
    destruct H4 as [->|[->| ->]].
    - left. reflexivity.
    - destruct (HA j (j + 1)) as [E|E]; rewrite E; cbn; auto.
    - destruct (HB j (j + 1)) as [E|E]; rewrite E; cbn; auto. }
  destruct (edge_ok_gate tp N (relab rho g) _ _ (Hedge j H1 H2) Hq) as [Ga Gr].
  rewrite Ga, Gr, IH1, IH2. split; reflexivity.
Qed.

(* ------------------------------------------------------------------------------------------ *)
(* shapes, for the re-indexing step                                                            *)
(* ------------------------------------------------------------------------------------------ *)
Lemma swapk_not_ctrl : forall n, is_swapk n = true -> is_ctrl n = false.
Proof.
  intros n H. unfold is_swapk, swap_gates in H. cbn [existsb] in H.
  repeat (apply orb_true_iff in H; destruct H as [H|H];
          [apply String.eqb_eq in H; subst n; reflexivity|]).
  discriminate.
Qed.

Definition shape2 (g : gate) : Prop :=
  (exists n c t, is_ctrl n = true /\ g = Cg n c t) \/
  (exists n a p q, is_ctrl n = false /\ g = SWg n a p q).

Lemma shape2_SWAPg : forall p q, shape2 (SWAPg p q).
Proof. intros. right. exists "SWAP"%string, None, p, q. split; reflexivity. Qed.

Lemma reindex_mod_relab : forall N e l,
  Forall shape2 l ->
  reindex_mod true N e l = Some (map (relab (fun x => (e + x) mod N)) l).
Proof.
  intros N e l H. induction H as [|g l Hg HF IH]; [reflexivity|].
  cbn [reindex_mod map]. rewrite IH.
  destruct Hg as [[n [c [t [Hn ->]]]] | [n [a [p [q [Hn ->]]]]]]; cbn; rewrite Hn; reflexivity.
Qed.

Definition core_shape (c : Z -> Z -> gate) : Prop := forall x y, shape2 (c x y).

Lemma core_shape_ccore : forall n b, is_ctrl n = true -> core_shape (ccore n b).
Proof.
  intros n b Hn x y. left. unfold ccore. destruct b.
  - exists n, y, x. auto.
  - exists n, x, y. auto.
Qed.

Lemma core_shape_SWg : forall n a, is_swapk n = true -> core_shape (SWg n a).
Proof.
  intros n a Hn x y. right. exists n, a, x, y. split; [apply swapk_not_ctrl; exact Hn | reflexivity].
Qed.

Lemma net_shape2 : forall k cA cB s e,
  (e - s = 2 * Z.of_nat k + 1 \/ e - s = 2 * Z.of_nat k + 2) ->
  core_shape cA -> core_shape cB -> Forall shape2 (net k cA cB s e).
Proof.
  intros k cA cB s e Hk HA HB.
  eapply Forall_impl; [|apply net_on_path; exact Hk].
  intros g [j [j' [_ [_ [_ [->|[->| ->]]]]]]].
  - apply shape2_SWAPg.
  - apply HA.
  - apply HB.
Qed.

(* ------------------------------------------------------------------------------------------ *)
(* input gates                                                                                 *)
(* ------------------------------------------------------------------------------------------ *)
Lemma wf_ctrl_inv : forall g, wf_ctrl g = true ->
  exists n c t, is_ctrl n = true /\ c <> t /\ g = Cg n c t.
Proof.
  intros [n ts cs a] H. unfold wf_ctrl in H. cbn in H.
  apply andb_true_iff in H. destruct H as [Hn H].
  destruct ts as [|t [|? ?]]; try discriminate.
  destruct cs as [|c [|? ?]]; try discriminate.
  destruct a; try discriminate.
  apply negb_true_iff in H. apply Z.eqb_neq in H.
  exists n, c, t. repeat split; auto.
Qed.

Lemma wf_swapk_inv : forall g, wf_swapk g = true ->
  exists n a x y, is_swapk n = true /\ x <> y /\ g = SWg n a x y.
Proof.
  intros [n ts cs a] H. unfold wf_swapk in H. cbn in H.
  apply andb_true_iff in H. destruct H as [Hn H].
  destruct ts as [|x [|y [|? ?]]]; try discriminate.
  destruct cs; try discriminate.
  apply negb_true_iff in H. apply Z.eqb_neq in H.
  exists n, a, x, y. repeat split; auto.
Qed.

Lemma in_range_Cg : forall N n c t, in_rangeb N (Cg n c t) = true -> 0 <= c < N /\ 0 <= t < N.
Proof.
  intros N n c t H. unfold in_rangeb in H. cbn in H.
  rewrite !andb_true_iff in H. rewrite !Z.leb_le, !Z.ltb_lt in H. lia.
Qed.

Lemma in_range_SWg : forall N n a x y, in_rangeb N (SWg n a x y) = true -> 0 <= x < N /\ 0 <= y < N.
Proof.
  intros N n a x y H. unfold in_rangeb in H. cbn in H.
  rewrite !andb_true_iff in H. rewrite !Z.leb_le, !Z.ltb_lt in H. lia.
Qed.

(* ------------------------------------------------------------------------------------------ *)
(* semantics                                                                                   *)
(* ------------------------------------------------------------------------------------------ *)
Section Sem.
  Variable S : Type.
  Variable act : gate -> S -> S.

  Definition run (l : list gate) (st : S) : S := fold_left (fun st g => act g st) l st.

  Definition conj_law (c : Z -> Z -> gate) : Prop :=
    forall p q x y st, p <> q -> x <> y ->
      act (SWAPg p q) (act (c x y) (act (SWAPg p q) st)) = act (c (tau p q x) (tau p q y)) st.

  Hypothesis conj_c : forall n, is_ctrl n = true -> conj_law (Cg n).
  Hypothesis conj_s : forall n a, is_swapk n = true -> conj_law (SWg n a).
  Hypothesis sym_s : forall n a x y st, is_swapk n = true ->
      act (SWg n a x y) st = act (SWg n a y x) st.

  Lemma run_app : forall l1 l2 st, run (l1 ++ l2) st = run l2 (run l1 st).
  Proof. intros. unfold run. apply fold_left_app. Qed.

  Lemma run_cons : forall g l st, run (g :: l) st = run l (act g st).
  Proof. reflexivity. Qed.

  Lemma run_nil : forall st, run [] st = st.
  Proof. reflexivity. Qed.

  (* a core constructor that commutes with relabelling and obeys the conjugation law *)
  Definition good (c : Z -> Z -> gate) : Prop :=
    (forall rho x y, relab rho (c x y) = c (rho x) (rho y)) /\ conj_law c.

  Lemma good_ccore : forall n b, is_ctrl n = true -> good (ccore n b).
  Proof.
    intros n b Hn. split.
    - intros rho x y. unfold ccore. destruct b; reflexivity.
    - unfold ccore. destruct b.
      + intros p q x y st Hpq Hxy. apply (conj_c n Hn p q y x st); auto.
      + apply conj_c. exact Hn.
  Qed.

  Lemma good_SWg : forall n a, is_swapk n = true -> good (SWg n a).
  Proof.
    intros n a Hn. split.
    - reflexivity.
    - apply conj_s. exact Hn.
  Qed.

  (* one SWAP pair at each end moves the gate one step outwards on both sides *)
  Lemma wrap_sem : forall c rho s e mid st,
    good c -> e - s >= 3 ->
    (forall x y, s <= x <= e -> s <= y <= e -> rho x = rho y -> x = y) ->
    (forall st', run (map (relab rho) mid) st' = act (c (rho (s + 1)) (rho (e - 1))) st') ->
    run (map (relab rho)
           (SWAPg s (s + 1) :: SWAPg (e - 1) e :: mid ++ [SWAPg (e - 1) e; SWAPg s (s + 1)])) st
    = act (c (rho s) (rho e)) st.
  Proof.
    intros c rho s e mid st [_ Hc] Hd Hinj Hmid.
    assert (Hne : forall x y, s <= x <= e -> s <= y <= e -> x <> y -> rho x <> rho y).
    { intros x y Hx Hy Hxy E. apply Hinj in E; auto. }
    cbn [map]. rewrite map_app. cbn [map]. rewrite !relab_SWAPg.
    rewrite !run_cons, run_app, Hmid, !run_cons, run_nil.
    rewrite Hc; [| apply Hne; lia | apply Hne; lia].
    rewrite (tau_other _ _ (rho (s + 1))); [| apply Hne; lia | apply Hne; lia].
    rewrite tau_l.
    rewrite Hc; [| apply Hne; lia | apply Hne; lia].
    rewrite tau_r.
    rewrite (tau_other _ _ (rho e)); [| apply Hne; lia | apply Hne; lia].
    reflexivity.
  Qed.

  Lemma net_sem_odd : forall k cA cB rho s e st,
    e - s = 2 * Z.of_nat k + 1 -> good cA ->
    (forall x y, s <= x <= e -> s <= y <= e -> rho x = rho y -> x = y) ->
    run (map (relab rho) (net k cA cB s e)) st = act (cA (rho s) (rho e)) st.
  Proof.
    induction k as [|k IH]; intros cA cB rho s e st Hk HA Hinj.
    - cbn [net]. assert (E : (e - s =? 1) = true) by (apply Z.eqb_eq; lia). rewrite E.
      cbn [map]. destruct HA as [HA _]. rewrite HA. rewrite run_cons, run_nil.
      replace (s + 1) with e by lia. reflexivity.
    - cbn [net]. apply wrap_sem; auto; [lia|].
      intros st'. replace (rho (s + 1)) with (rho (s + 1)) by reflexivity.
      apply IH; auto; [lia|].
      intros x y Hx Hy. apply Hinj; lia.
  Qed.

  Lemma net_sem_even : forall k cA cB rho s e st,
    e - s = 2 * Z.of_nat k + 2 -> good cB ->
    (forall x y, s <= x <= e -> s <= y <= e -> rho x = rho y -> x = y) ->
    run (map (relab rho) (net k cA cB s e)) st = act (cB (rho s) (rho e)) st.
  Proof.
    induction k as [|k IH]; intros cA cB rho s e st Hk HB Hinj.
    - cbn [net]. assert (E : (e - s =? 1) = false) by (apply Z.eqb_neq; lia). rewrite E.
      assert (Hne : forall x y, s <= x <= e -> s <= y <= e -> x <> y -> rho x <> rho y).
      { intros x y Hx Hy Hxy E'. apply Hinj in E'; auto. }
      cbn [map]. destruct HB as [HB Hc]. rewrite HB, !relab_SWAPg.
      rewrite !run_cons, run_nil.
      rewrite Hc; [| apply Hne; lia | apply Hne; lia].
      rewrite tau_r.
      rewrite (tau_other _ _ (rho (s + 2))); [| apply Hne; lia | apply Hne; lia].
      replace (s + 2) with e by lia. reflexivity.
    - cbn [net]. apply wrap_sem; auto; [lia|].
      intros st'. apply IH; auto; [lia|].
      intros x y Hx Hy. apply Hinj; lia.
  Qed.

  Lemma net_sem : forall k c rho s e st,
    (e - s = 2 * Z.of_nat k + 1 \/ e - s = 2 * Z.of_nat k + 2) -> good c ->
    (forall x y, s <= x <= e -> s <= y <= e -> rho x = rho y -> x = y) ->
    run (map (relab rho) (net k c c s e)) st = act (c (rho s) (rho e)) st.
  Proof.
    intros k c rho s e st [H|H] Hc Hinj.
    - apply net_sem_odd; auto.
    - apply net_sem_even; auto.
  Qed.

  (* ---------------------------------------------------------------------------------------- *)
  (* the three clauses for one routed gate                                                    *)
  (* ---------------------------------------------------------------------------------------- *)
  Definition routed_ok (tp : topo) (N : Z) (g : gate) (out : list gate) : Prop :=
    (forall st, run out st = act g st) /\
    forallb (adj2b tp N) out = true /\
    forallb (in_rangeb N) out = true.

  (* forward path, any topology *)
  Lemma forward_ok : forall tp N c s e g,
    0 <= s -> s < e -> e < N -> good c -> two_sided c ->
    (forall st, act (c s e) st = act g st) ->
    exists out, forward c s e = Some out /\ routed_ok tp N g out.
  Proof.
    intros tp N c s e g Hs Hse HeN Hc H2 Hg.
    destruct (forward_net c s e Hse) as [k [Hk Hf]].
    exists (net k c c s e). split; [exact Hf|].
    unfold routed_ok. rewrite <- (relab_id (net k c c s e)). split; [|].
    - intros st. rewrite (net_sem k c (fun x => x) s e st Hk Hc); [apply Hg|].
      intros x y _ _ E. exact E.
    - apply net_edges; auto.
      intros j Hj1 Hj2. apply edge_linear; lia.
  Qed.

  (* backward path around the ring, fixed code *)
  Lemma backward_ok : forall N c s e g,
    0 <= s -> s < e -> e < N -> good c -> two_sided c -> core_shape c ->
    (forall st, act (c e s) st = act g st) ->
    exists out, obind (backward_temp c c N s e) (reindex fixed N e) = Some out /\
                routed_ok Circular N g out.
  Proof.
    intros N c s e g Hs Hse HeN Hc H2 Hsh Hg.
    assert (HM : 0 < N - e + s) by lia.
    destruct (backward_temp_net c c N s e HM) as [k [Hk Hf]].
    set (rho := fun x => (e + x) mod N).
    exists (map (relab rho) (net k c c 0 (N - e + s))). split.
    - rewrite Hf. cbn [obind]. unfold reindex. cbn [fix_mod fix_arg fixed].
      apply reindex_mod_relab. apply net_shape2; auto. lia.
    - unfold routed_ok. split.
      + intros st. rewrite (net_sem k c rho 0 (N - e + s) st); auto; [| lia |].
        * unfold rho. replace (e + 0) with e by lia.
          replace (e + (N - e + s)) with (s + 1 * N) by lia.
          rewrite Z.mod_add by lia.
          rewrite !Z.mod_small by lia. apply Hg.
        * intros x y Hx Hy E. unfold rho in E.
          apply (mod_shift_inj N e x y); auto; lia.
      + apply net_edges; auto; [lia|].
        intros j Hj1 Hj2. unfold rho. apply edge_ring. lia.
  Qed.

  Lemma minmax_cases : forall a b, a <> b ->
    (Z.min a b = a /\ Z.max a b = b /\ a < b) \/ (Z.min a b = b /\ Z.max a b = a /\ b < a).
  Proof. intros. lia. Qed.

  (* ---- to_chain_structure, one handled gate --------------------------------------------- *)
  Theorem route1_ctrl_ok : forall tp N n c t,
    is_ctrl n = true -> c <> t -> 0 <= c < N -> 0 <= t < N ->
    exists out, route1 fixed tp N (Cg n c t) = Some out /\ routed_ok tp N (Cg n c t) out.
  Proof.
    intros tp N n c t Hn Hct Hc Ht.
    unfold route1. cbn [gname gtargets gcontrols Cg]. rewrite Hn.
    set (s := Z.min t c). set (e := Z.max t c).
    assert (Hcases : (s = t /\ e = c /\ t < c) \/ (s = c /\ e = t /\ c < t))
      by (subst s e; lia).
    assert (HF : forall st, act (ccore n (e =? c) s e) st = act (Cg n c t) st).
    { intros st. unfold ccore. destruct Hcases as [[-> [-> H]]|[-> [-> H]]].
      - rewrite Z.eqb_refl. reflexivity.
      - assert (E : (t =? c) = false) by (apply Z.eqb_neq; lia). rewrite E. reflexivity. }
    assert (HB : forall st, act (ccore n (negb (e =? c)) e s) st = act (Cg n c t) st).
    { intros st. unfold ccore. destruct Hcases as [[-> [-> H]]|[-> [-> H]]].
      - rewrite Z.eqb_refl. reflexivity.
      - assert (E : (t =? c) = false) by (apply Z.eqb_neq; lia). rewrite E. reflexivity. }
    assert (Hs : 0 <= s) by (subst s; lia).
    assert (Hse : s < e) by (subst s e; lia).
    assert (He : e < N) by (subst e; lia).
    destruct (forward_cond tp N s e) eqn:FC.
    - apply forward_ok; auto using good_ccore, two_sided_ccore.
    - destruct tp; [discriminate|]. cbn [fix_ctrl fixed].
      destruct (e - s <? N - 1) eqn:E1.
      + apply backward_ok; auto using good_ccore, two_sided_ccore, core_shape_ccore.
      + apply Z.ltb_ge in E1.
        assert (E2 : (e - s =? N - 1) = true) by (apply Z.eqb_eq; lia). rewrite E2.
        exists [Cg n c t]. split; [reflexivity|].
        unfold routed_ok. split; [reflexivity|].
        assert (Hedge : edge_ok Circular N c t).
        { unfold edge_ok, adjb.
          destruct Hcases as [[Hs' [He' H]]|[Hs' [He' H]]].
          - assert (Hc1 : c = N - 1) by lia. assert (Ht0 : t = 0) by lia. rewrite Hc1, Ht0.
            replace (N - 1 + 1) with N by lia. rewrite Z.mod_same by lia.
            rewrite Z.eqb_refl. rewrite (Z.mod_small (0 + 1) N) by lia.
            cbn [orb]. rewrite orb_true_r. repeat split; lia.
          - assert (Ht1 : t = N - 1) by lia. assert (Hc0 : c = 0) by lia. rewrite Ht1, Hc0.
            replace (N - 1 + 1) with N by lia. rewrite Z.mod_same by lia.
            rewrite Z.eqb_refl. rewrite (Z.mod_small (0 + 1) N) by lia.
            cbn [orb]. rewrite orb_true_r. repeat split; lia. }
        destruct (edge_ok_gate Circular N (Cg n c t) c t Hedge) as [Ga Gr]; [left; reflexivity|].
        cbn [forallb]. rewrite Ga, Gr. split; reflexivity.
  Qed.

  Theorem route1_swapk_ok : forall tp N n a x y,
    is_swapk n = true -> x <> y -> 0 <= x < N -> 0 <= y < N ->
    exists out, route1 fixed tp N (SWg n a x y) = Some out /\ routed_ok tp N (SWg n a x y) out.
  Proof.
    intros tp N n a x y Hn Hxy Hx Hy.
    unfold route1. cbn [gname gtargets gcontrols garg SWg].
    rewrite (swapk_not_ctrl n Hn), Hn. cbn [fix_arg fixed].
    set (s := Z.min x y). set (e := Z.max x y).
    assert (Hcases : (s = x /\ e = y /\ x < y) \/ (s = y /\ e = x /\ y < x))
      by (subst s e; lia).
    assert (HF : forall st, act (SWg n a s e) st = act (SWg n a x y) st).
    { intros st. destruct Hcases as [[-> [-> H]]|[-> [-> H]]]; [reflexivity | apply sym_s; exact Hn]. }
    assert (HB : forall st, act (SWg n a e s) st = act (SWg n a x y) st).
    { intros st. destruct Hcases as [[-> [-> H]]|[-> [-> H]]]; [apply sym_s; exact Hn | reflexivity]. }
    assert (Hs : 0 <= s) by (subst s; lia).
    assert (Hse : s < e) by (subst s e; lia).
    assert (He : e < N) by (subst e; lia).
    destruct (forward_cond tp N s e) eqn:FC.
    - apply forward_ok; auto using good_SWg, two_sided_SWg.
    - destruct tp; [discriminate|].
      apply backward_ok; auto using good_SWg, two_sided_SWg, core_shape_SWg.
  Qed.

  Theorem route1_handled_ok : forall tp N g,
    wf_handled g = true -> in_rangeb N g = true ->
    exists out, route1 fixed tp N g = Some out /\ routed_ok tp N g out.
  Proof.
    intros tp N g Hwf Hr. unfold wf_handled in Hwf. apply orb_true_iff in Hwf.
    destruct Hwf as [H|H].
    - destruct (wf_ctrl_inv g H) as [n [c [t [Hn [Hct ->]]]]].
      destruct (in_range_Cg N n c t Hr). apply route1_ctrl_ok; auto.
    - destruct (wf_swapk_inv g H) as [n [a [x [y [Hn [Hxy ->]]]]]].
      destruct (in_range_SWg N n a x y Hr). apply route1_swapk_ok; auto.
  Qed.

  Theorem route1_passthrough : forall c tp N g, handledb g = false -> route1 c tp N g = Some [g].
  Proof.
    intros c tp N g H. unfold handledb in H. apply orb_false_iff in H. destruct H as [H1 H2].
    unfold route1. rewrite H1, H2. reflexivity.
  Qed.

  (* ---- circuits of many gates -------------------------------------------------------------- *)
  Definition gate_ok (N : Z) (g : gate) : Prop :=
    handledb g = false \/ (wf_handled g = true /\ in_rangeb N g = true).

  Definition piece_ok (tp : topo) (N : Z) (g : gate) (o : list gate) : Prop :=
    (handledb g = false /\ o = [g]) \/ (handledb g = true /\ routed_ok tp N g o).

  Lemma wf_handled_handledb : forall g, wf_handled g = true -> handledb g = true.
  Proof.
    intros g H. unfold wf_handled, wf_ctrl, wf_swapk in H. unfold handledb.
    apply orb_true_iff in H. apply orb_true_iff.
    destruct H as [H|H]; apply andb_true_iff in H; destruct H as [H _]; auto.
  Qed.

  Lemma run_concat : forall tp N gs outs,
    Forall2 (piece_ok tp N) gs outs -> forall st, run (List.concat outs) st = run gs st.
  Proof.
    intros tp N gs outs H. induction H as [|g o gs outs Hp HF IH]; intros st; [reflexivity|].
    cbn [List.concat]. rewrite run_app, run_cons, IH.
    destruct Hp as [[_ ->]|[_ [Hr _]]].
    - reflexivity.
    - rewrite Hr. reflexivity.
  Qed.

  Theorem route_many_ok : forall tp N gs,
    Forall (gate_ok N) gs ->
    exists outs, route fixed tp N gs = Some (List.concat outs) /\
                 Forall2 (piece_ok tp N) gs outs /\
                 forall st, run (List.concat outs) st = run gs st.
  Proof.
    intros tp N gs H.
    assert (G : exists outs, route fixed tp N gs = Some (List.concat outs) /\ Forall2 (piece_ok tp N) gs outs).
    { induction H as [|g gs Hg HF IH].
      - exists []. split; [reflexivity | constructor].
      - destruct IH as [outs [IH1 IH2]].
        destruct Hg as [Hg|[Hw Hr]].
        + exists ([g] :: outs). split.
          * cbn [route]. rewrite route1_passthrough by exact Hg. cbn [obind]. rewrite IH1. reflexivity.
          * constructor; [left; auto | exact IH2].
        + destruct (route1_handled_ok tp N g Hw Hr) as [o [Ho Hok]].
          exists (o :: outs). split.
          * cbn [route]. rewrite Ho. cbn [obind]. rewrite IH1. reflexivity.
          * constructor; [right; split; [apply wf_handled_handledb; exact Hw | exact Hok] | exact IH2]. }
    destruct G as [outs [G1 G2]]. exists outs. repeat split; auto.
    apply (run_concat tp N). exact G2.
  Qed.

  (* ---- QubitCircuit.adjacent_gates ---------------------------------------------------------- *)
  Theorem adj1_handled_ok : forall N g,
    wf_handled g = true -> in_rangeb N g = true ->
    exists out, adj1 fixed g = Some out /\ routed_ok Linear N g out.
  Proof.
    intros N g Hwf Hr.
    destruct (route1_handled_ok Linear N g Hwf Hr) as [out [Ho Hok]].
    exists out. split; [|exact Hok].
    rewrite <- Ho. unfold wf_handled in Hwf. apply orb_true_iff in Hwf.
    destruct Hwf as [H|H].
    - destruct (wf_ctrl_inv g H) as [n [c [t [Hn [_ ->]]]]].
      unfold adj1, route1, forward_cond. cbn [gname gtargets gcontrols garg Cg]. rewrite Hn. reflexivity.
    - destruct (wf_swapk_inv g H) as [n [a [x [y [Hn [_ ->]]]]]].
      unfold adj1, route1, forward_cond. cbn [gname gtargets gcontrols garg SWg].
      rewrite (swapk_not_ctrl n Hn), Hn. reflexivity.
  Qed.

  Lemma run_concat_routed : forall N gs outs,
    Forall2 (fun g o => routed_ok Linear N g o) gs outs ->
    forall st, run (List.concat outs) st = run gs st.
  Proof.
    intros N gs outs H. induction H as [|g o gs outs Hp HF IH]; intros st; [reflexivity|].
    cbn [List.concat]. rewrite run_app, run_cons, IH.
    destruct Hp as [Hr _]. rewrite Hr. reflexivity.
  Qed.

  Theorem adjacent_gates_many_ok : forall N gs,
    Forall (fun g => wf_handled g = true /\ in_rangeb N g = true) gs ->
    exists outs, adjacent_gates fixed gs = Some (List.concat outs) /\
                 Forall2 (fun g o => routed_ok Linear N g o) gs outs /\
                 forall st, run (List.concat outs) st = run gs st.
  Proof.
    intros N gs H.
    assert (G : exists outs, adjacent_gates fixed gs = Some (List.concat outs) /\
                             Forall2 (fun g o => routed_ok Linear N g o) gs outs).
    { induction H as [|g gs [Hw Hr] HF IH].
      - exists []. split; [reflexivity | constructor].
      - destruct IH as [outs [IH1 IH2]].
        destruct (adj1_handled_ok N g Hw Hr) as [o [Ho Hok]].
        exists (o :: outs). split.
        + cbn [adjacent_gates]. rewrite Ho. cbn [obind]. rewrite IH1. reflexivity.
        + constructor; auto. }
    destruct G as [outs [G1 G2]]. exists outs. split; [exact G1|]. split; [exact G2|].
    apply (run_concat_routed N). exact G2.
  Qed.

  (* before C07-adjacent-gates-passthrough: adjacent_gates refuses every circuit that contains a
     gate it does not route *)
  Theorem adjacent_gates_rejects : forall c gs g,
    fix_adjpass c = false -> In g gs -> handledb g = false -> adjacent_gates c gs = None.
  Proof.
    intros c gs g Hc Hin Hh. induction gs as [|g0 gs IH]; [destruct Hin|].
    cbn [adjacent_gates]. destruct Hin as [->|Hin].
    - unfold handledb in Hh. apply orb_false_iff in Hh. destruct Hh as [H1 H2].
      unfold adj1. rewrite H1, H2, Hc. reflexivity.
    - rewrite (IH Hin). destruct (adj1 c g0); reflexivity.
  Qed.

  (* with the fix: kept unchanged *)
  Theorem adj1_passthrough : forall c g,
    fix_adjpass c = true -> handledb g = false -> adj1 c g = Some [g].
  Proof.
    intros c g Hc H. unfold handledb in H. apply orb_false_iff in H. destruct H as [H1 H2].
    unfold adj1. rewrite H1, H2, Hc. reflexivity.
  Qed.

  Theorem adjacent_gates_mixed_ok : forall N gs,
    Forall (gate_ok N) gs ->
    exists outs, adjacent_gates fixed gs = Some (List.concat outs) /\
                 Forall2 (piece_ok Linear N) gs outs /\
                 forall st, run (List.concat outs) st = run gs st.
  Proof.
    intros N gs H.
    assert (G : exists outs, adjacent_gates fixed gs = Some (List.concat outs) /\
                             Forall2 (piece_ok Linear N) gs outs).
    { induction H as [|g gs Hg HF IH].
      - exists []. split; [reflexivity | constructor].
      - destruct IH as [outs [IH1 IH2]].
        destruct Hg as [Hg|[Hw Hr]].
        + exists ([g] :: outs). split.
          * cbn [adjacent_gates]. rewrite adj1_passthrough by (auto; reflexivity).
            cbn [obind]. rewrite IH1. reflexivity.
          * constructor; [left; auto | exact IH2].
        + destruct (adj1_handled_ok N g Hw Hr) as [o [Ho Hok]].
          exists (o :: outs). split.
          * cbn [adjacent_gates]. rewrite Ho. cbn [obind]. rewrite IH1. reflexivity.
          * constructor; [right; split; [apply wf_handled_handledb; exact Hw | exact Hok] | exact IH2]. }
    destruct G as [outs [G1 G2]]. exists outs. split; [exact G1|]. split; [exact G2|].
    apply (run_concat Linear N). exact G2.
  Qed.

  (* ---- permutation tracking is sound -------------------------------------------------------- *)
  Lemma Z_list_eqb_eq : forall a b, Z_list_eqb a b = true -> a = b.
  Proof.
    induction a as [|x a IH]; intros [|y b] H; try reflexivity; try discriminate.
    unfold Z_list_eqb in *. cbn in H. apply andb_true_iff in H. destruct H as [Hl H].
    apply andb_true_iff in H. destruct H as [Hxy H]. apply Z.eqb_eq in Hxy. subst y.
    f_equal. apply IH. apply andb_true_iff. split; auto.
  Qed.

  Lemma gate_eqb_eq : forall a b, gate_eqb a b = true -> a = b.
  Proof.
    intros [n1 t1 c1 a1] [n2 t2 c2 a2] H. unfold gate_eqb in H. cbn in H.
    rewrite !andb_true_iff in H. destruct H as [[[Hn Ht] Hc] Ha].
    apply String.eqb_eq in Hn. apply Z_list_eqb_eq in Ht. apply Z_list_eqb_eq in Hc.
    subst. f_equal.
    destruct a1, a2; try discriminate; try reflexivity.
    apply Z.eqb_eq in Ha. subst. reflexivity.
  Qed.

  Lemma gates_eqb_eq : forall a b, gates_eqb a b = true -> a = b.
  Proof.
    induction a as [|x a IH]; intros [|y b] H; try reflexivity; try discriminate.
    unfold gates_eqb in *. cbn in H. apply andb_true_iff in H. destruct H as [Hl H].
    apply andb_true_iff in H. destruct H as [Hxy H]. apply gate_eqb_eq in Hxy. subst y.
    f_equal. apply IH. apply andb_true_iff. split; auto.
  Qed.

  Lemma is_swap_pq_inv : forall g p q, is_swap_pq g = Some (p, q) -> g = SWAPg p q /\ p <> q.
  Proof.
    intros [n ts cs a] p q H. unfold is_swap_pq in H. cbn in H.
    destruct (String.eqb n "SWAP") eqn:En; [|discriminate]. apply String.eqb_eq in En. subst n.
    destruct ts as [|p' [|q' [|? ?]]]; try discriminate.
    destruct cs; try discriminate. destruct a; try discriminate.
    destruct (p' =? q') eqn:E; [discriminate|]. apply Z.eqb_neq in E.
    inversion H; subst. split; [reflexivity | exact E].
  Qed.

  Lemma conj_wf : forall p q g, p <> q -> wf_handled g = true ->
    wf_handled (relab (tau p q) g) = true /\
    forall st, act (SWAPg p q) (act g (act (SWAPg p q) st)) = act (relab (tau p q) g) st.
  Proof.
    intros p q g Hpq Hwf. unfold wf_handled in Hwf. apply orb_true_iff in Hwf.
    destruct Hwf as [H|H].
    - destruct (wf_ctrl_inv g H) as [n [c [t [Hn [Hct ->]]]]]. split.
      + unfold wf_handled, wf_ctrl. cbn. rewrite Hn. cbn.
        assert (E : (tau p q t =? tau p q c) = false).
        { apply Z.eqb_neq. intro E. apply tau_inj in E. congruence. }
        rewrite E. reflexivity.
      + intros st. apply (conj_c n Hn); auto.
    - destruct (wf_swapk_inv g H) as [n [a [x [y [Hn [Hxy ->]]]]]]. split.
      + unfold wf_handled, wf_swapk. cbn [gname gtargets gcontrols relab SWg map]. rewrite Hn.
        assert (E : (tau p q x =? tau p q y) = false).
        { apply Z.eqb_neq. intro E. apply tau_inj in E. congruence. }
        rewrite E. apply orb_true_r.
      + intros st. apply (conj_s n a Hn); auto.
  Qed.

  Lemma palindrome_sem : forall pre core,
    forallb (fun g => match is_swap_pq g with Some _ => true | None => false end) pre = true ->
    wf_handled core = true ->
    wf_handled (fold_right conj_by core pre) = true /\
    forall st, run (pre ++ core :: rev pre) st = act (fold_right conj_by core pre) st.
  Proof.
    induction pre as [|sw pre IH]; intros core Hpre Hwf.
    - split; [exact Hwf | reflexivity].
    - cbn [forallb] in Hpre. apply andb_true_iff in Hpre. destruct Hpre as [Hsw Hpre].
      destruct (IH core Hpre Hwf) as [IHw IHs].
      destruct (is_swap_pq sw) as [[p q]|] eqn:Esw; [|discriminate].
      destruct (is_swap_pq_inv sw p q Esw) as [-> Hpq].
      assert (Hcb : forall g0, conj_by (SWAPg p q) g0 = relab (tau p q) g0)
        by (intro g0; unfold conj_by; rewrite Esw; reflexivity).
      cbn [fold_right]. rewrite Hcb.
      destruct (conj_wf p q _ Hpq IHw) as [Cw Cs].
      split; [exact Cw|].
      intros st. cbn [rev app].
      rewrite run_cons.
      replace (pre ++ core :: rev pre ++ [SWAPg p q]) with ((pre ++ core :: rev pre) ++ [SWAPg p q])
        by (rewrite <- app_assoc; reflexivity).
      rewrite run_app, IHs, run_cons, run_nil. apply Cs.
  Qed.

  Theorem track_sound : forall l g, track l = Some g ->
    wf_handled g = true /\ forall st, run l st = act g st.
  Proof.
    intros l g H. unfold track in H.
    set (n := Nat.div (List.length l) 2) in *.
    destruct (skipn n l) as [|core post] eqn:Esk; [discriminate|].
    destruct (gates_eqb post (rev (firstn n l)) &&
              forallb (fun g0 => match is_swap_pq g0 with Some _ => true | None => false end) (firstn n l) &&
              wf_handled core) eqn:C; [|discriminate].
    inversion H; subst g. clear H.
    rewrite !andb_true_iff in C. destruct C as [[C1 C2] C3].
    apply gates_eqb_eq in C1.
    destruct (palindrome_sem (firstn n l) core C2 C3) as [Pw Ps].
    split; [exact Pw|].
    intros st. rewrite <- Ps. f_equal.
    rewrite <- (firstn_skipn n l) at 1. rewrite Esk, C1. reflexivity.
  Qed.

End Sem.
