(* C10 export_valid, lexer half, part 5: the tokens of every number, parameter list and gate statement line the exporter
   prints, as explicit FUNCTIONS of the Python values (QasmLex3 gives them existentially), and the expressions they stand for. *)
From Coq Require Import Lia Ascii String ZArith.
From QV Require Import Spec.QasmStrict Model.QasmImport Model.QasmExport Proofs.QasmLex Proofs.QasmLex2 Proofs.QasmLex3.
Local Open Scope nat_scope.
Local Open Scope list_scope.

(* ---- boolean form of the shape condition on repr(float) (the oracle supplied by the harness) ---- *)
Definition digsb (s : string) : bool := match la s with [] => false | _ => forallb is_digit (la s) end.
Definition shape_okb (x : pynum) : bool :=
  match x with
  | NInt _ _ => true
  | NFloat (FDec _ ip fp) => digsb ip && digsb fp
  | NFloat (FExp _ ip fp _ ed) => digsb ip && (match fp with Some d => digsb d | None => true end) && digsb ed
  | NFloat _ => true
  end.
Definition shape_ok_valb (a : pyval) : bool :=
  match a with PNone => true | PNum x => shape_okb x | PList l | PTuple l | PArray l => forallb shape_okb l end.
Lemma digsb_sound s : digsb s = true -> digs s.
Proof. unfold digsb, digs, digits. destruct (la s); [discriminate|]. intros H. split; [discriminate|exact H]. Qed.
Lemma shape_okb_sound x : shape_okb x = true -> shape_ok x.
Proof.
  destruct x as [neg n|[neg ip fp|neg ip fp eneg ed|b|]]; cbn [shape_okb shape_ok]; intros H; try exact I.
  - apply andb_prop in H. destruct H. split; apply digsb_sound; assumption.
  - apply andb_prop in H. destruct H as [H H3]. apply andb_prop in H. destruct H as [H1 H2].
    split; [apply digsb_sound; exact H1|]. split; [destruct fp; [apply digsb_sound; exact H2|exact I]|apply digsb_sound; exact H3].
Qed.
Lemma shape_ok_valb_sound a : shape_ok_valb a = true -> shape_ok_val a.
Proof.
  destruct a as [|x|l|l|l]; cbn [shape_ok_valb shape_ok_val]; intros H; try exact I; try (apply shape_okb_sound; exact H);
    (apply Forall_forall; intros x Hx; apply shape_okb_sound; rewrite forallb_forall in H; exact (H x Hx)).
Qed.

(* ---- tokens and expression of one printed number ---- *)
Definition itok (n : nat) : tok := TInt (digits_val 0%Z (la (str_nat n))).
Definition sgt (neg : bool) : list tok := if neg then [TSym "-"%string] else [].
Definition abstok (x : pynum) : tok :=
  match x with
  | NInt _ n => itok n
  | NFloat (FDec _ ip fp) => TReal (real_val (la ip) (la fp) false [])
  | NFloat (FExp _ ip fp eneg ed) => TReal (real_val (la ip) (la (match fp with Some d => d | None => "0"%string end)) eneg (la ed))
  | NFloat _ => TInt 0
  end.
Definition isneg (x : pynum) : bool :=
  match x with NInt neg _ => neg | NFloat (FDec neg _ _) => neg | NFloat (FExp neg _ _ _ _) => neg | NFloat (FInf neg) => neg | NFloat FNan => false end.
Definition numtok (x : pynum) : list tok := sgt (isneg x) ++ [abstok x].
(* what the strict parser makes of these tokens *)
Definition tokexpr (t : tok) : expr := match t with TReal q => ENum q | TInt n => ENum (inject_Z n) | _ => EPi end.
Definition numexpr (x : pynum) : expr := if isneg x then ENeg (tokexpr (abstok x)) else tokexpr (abstok x).

Lemma signed' (neg : bool) num t : (exists d r, num = d :: r /\ is_digit d = true) -> LXc num [t] -> LXc (la (sgn neg) ++ num) (sgt neg ++ [t]).
Proof.
  intros [d [r [-> Hd]]] H. destruct neg; cbn [sgn la app sgt].
  - apply (LXc_minus d r [t] Hd H).
  - exact H.
Qed.
Lemma numtok_num_toks x : qasm_number x <> None -> num_toks (numtok x).
Proof.
  intros Hq. unfold numtok. exists (abstok x). split.
  - destruct x as [neg n|[neg ip fp|neg ip fp eneg ed|b|]]; cbn [abstok num_tok itok]; try exact I; exfalso; apply Hq; reflexivity.
  - destruct (isneg x); cbn [sgt app]; auto.
Qed.
Lemma number_lx' x t : shape_ok x -> qasm_number x = Some t -> LXc (la t) (numtok x).
Proof.
  intros Hs Hq. unfold numtok. destruct x as [neg n|[neg ip fp|neg ip fp eneg ed|b|]]; cbn [qasm_number shape_ok isneg abstok] in *; try discriminate; injection Hq as <-.
  - rewrite la_app. destruct (str_nat_digits n) as [Hd Hz]. apply (signed' neg _ _ (digits_head _ Hd)). apply LXc_int; assumption.
  - destruct Hs as [Hi Hf]. rewrite !la_app. cbn [la app]. apply (signed' neg).
    + destruct (digits_head _ Hi) as [d [r [E Hd]]]. rewrite E. cbn [app]. eauto.
    + apply (LXc_real_dec (la ip) (la fp) Hi Hf).
  - destruct Hs as [Hi [Hf He]].
    set (fp' := match fp with Some d => d | None => "0"%string end).
    assert (Hf' : digits (la fp')) by (subst fp'; destruct fp; [exact Hf|exact digits_zero]).
    destruct (digits_head _ Hi) as [d [r [E Hd]]].
    destruct eneg; rewrite !la_app; cbn [la app]; rewrite ?la_app; cbn [la app].
    + apply (signed' neg); [rewrite E; cbn [app]; eauto|]. exact (LXc_real_exp (la ip) (la fp') true (la ed) Hi Hf' He).
    + apply (signed' neg); [rewrite E; cbn [app]; eauto|]. exact (LXc_real_exp (la ip) (la fp') false (la ed) Hi Hf' He).
Qed.

Lemma args_lx' l : l <> [] -> Forall shape_ok l -> forall ts, omap qasm_number l = Some ts ->
  LXc (la (join "," ts)) (sep_toks (map numtok l)) /\ Forall num_toks (map numtok l).
Proof.
  induction l as [|x l IH]; intros Hne Hs ts Ho; [contradiction|]. inversion Hs as [|? ? Hx Hl]; subst.
  cbn [omap] in Ho. destruct (qasm_number x) as [tx|] eqn:Ex; [|discriminate]. destruct (omap qasm_number l) as [tl|] eqn:El; [|discriminate].
  injection Ho as <-. pose proof (number_lx' x tx Hx Ex) as Hk.
  assert (Hn : num_toks (numtok x)) by (apply numtok_num_toks; rewrite Ex; discriminate).
  destruct l as [|y l'].
  - injection El as <-. split; [exact Hk|constructor; [exact Hn|constructor]].
  - destruct tl as [|ty tl']; [cbn [omap] in El; destruct (qasm_number y); [destruct (omap qasm_number l')|]; discriminate|].
    destruct (IH ltac:(discriminate) Hl (ty :: tl') eq_refl) as [Hlx Hf].
    split; [|cbn [map]; constructor; assumption].
    rewrite join_cons, !la_app. cbn [la app]. cbn [map] in *.
    change (sep_toks (numtok x :: numtok y :: map numtok l')) with (numtok x ++ TSym ","%string :: sep_toks (numtok y :: map numtok l')).
    apply (LXc_LXc _ _ (chr 44)); [closer_tac|exact Hk|].
    apply (LX_LXc [chr 44] [TSym ","%string] (la (join "," (ty :: tl'))) (sep_toks (numtok y :: map numtok l')));
      [apply (LX_sym (chr 44)); sym_tac|exact Hlx].
Qed.

(* the parameters of a gate as a list of numbers: what is printed between the parentheses *)
Definition arg_nums (a : pyval) : list pynum := match a with PNone => [] | PNum x => [x] | PList l | PTuple l | PArray l => l end.
Definition argtoks (a : pyval) : list tok := sep_toks (map numtok (arg_nums a)).
Lemma shape_ok_nums a : shape_ok_val a -> Forall shape_ok (arg_nums a).
Proof. destruct a; cbn [shape_ok_val arg_nums]; intros H; try exact H; [constructor|constructor; [exact H|constructor]]. Qed.
Lemma args_text_nums a t : args_text a = Some t -> exists ts, omap qasm_number (arg_nums a) = Some ts /\ t = join "," ts.
Proof.
  destruct a as [|x|l|l|l]; cbn [args_text arg_nums]; intros H.
  - injection H as <-. exists []. split; reflexivity.
  - exists [t]. cbn [omap]. rewrite H. split; reflexivity.
  - destruct (omap qasm_number l) as [ts|]; [|discriminate]. injection H as <-. eauto.
  - destruct (omap qasm_number l) as [ts|]; [|discriminate]. injection H as <-. eauto.
  - destruct (omap qasm_number l) as [ts|]; [|discriminate]. injection H as <-. eauto.
Qed.
Lemma args_text_lx' a t : shape_ok_val a -> args_text a = Some t ->
  (arg_nums a = [] /\ t = EmptyString) \/
  (arg_nums a <> [] /\ la t <> [] /\ Forall num_toks (map numtok (arg_nums a)) /\ LXc (la t) (argtoks a)).
Proof.
  intros Hs Ht. destruct (args_text_nums a t Ht) as [ts [Ho ->]]. pose proof (shape_ok_nums a Hs) as Hf.
  unfold argtoks. destruct (arg_nums a) as [|x l] eqn:E.
  - left. injection Ho as <-. split; reflexivity.
  - right. split; [discriminate|]. split; [apply (join_nonempty x l ts Hf Ho)|].
    destruct (args_lx' (x :: l) ltac:(discriminate) Hf ts Ho) as [H1 H2]. split; assumption.
Qed.

(* every statement line (followed by a newline) is read as these tokens *)
Theorem stmt_lx' q controls targets a line :
  ident_chars (la q) -> shape_ok_val a -> qasm_str q controls targets a = Some line ->
  LX (la line ++ [chr 10]) (stmt_toks (str_of (la q)) (argtoks a) (controls ++ targets)).
Proof.
  intros Hq Hs Hl. unfold qasm_str in Hl. destruct targets as [|t0 targets']; [discriminate|].
  set (qs := controls ++ t0 :: targets') in *. assert (Hqs : qs <> []) by (subst qs; destruct controls; discriminate).
  destruct (args_text a) as [t|] eqn:Ea; [|discriminate].
  pose proof (qubits_lx qs Hqs) as Lq.
  assert (Ltail : LX (la (join "," (map qreg_text qs)) ++ [chr 59; chr 10]) (sep_toks (map qtoks qs) ++ [TSym ";"%string])).
  { apply LX_app; [exact Lq|]. change [chr 59; chr 10] with ([chr 59] ++ [chr 10]). rewrite <- (app_nil_r [TSym ";"%string]).
    apply LX_app; [apply (LX_sym (chr 59)); sym_tac|apply (LX_space (chr 10)); reflexivity]. }
  destruct (args_text_lx' a t Hs Ea) as [[En ->]|[Hne [Hnon [Hf Hx]]]].
  - injection Hl as <-. unfold argtoks. rewrite En. cbn [map sep_toks].
    rewrite !la_app. cbn [la app]. rewrite <- !app_assoc. cbn [app]. unfold stmt_toks. cbn [app].
    change (TId (str_of (la q)) :: sep_toks (map qtoks qs) ++ [TSym ";"%string]) with ([TId (str_of (la q))] ++ ([] ++ (sep_toks (map qtoks qs) ++ [TSym ";"%string]))).
    apply (LXc_LX (la q) _ (chr 32)); [closer_tac|apply LXc_ident; exact Hq|].
    apply (LX_app [chr 32] [] _ _); [apply (LX_space (chr 32)); reflexivity|first [exact Ltail | rewrite ?la_app; cbn [la app]; rewrite <- ?app_assoc; exact Ltail]].
  - destruct t as [|c0 t'] eqn:Et.
    + exfalso. apply Hnon. reflexivity.
    + rewrite <- Et in Hl, Hx, Hnon. injection Hl as <-.
      rewrite !la_app. cbn [la app]. rewrite <- !app_assoc. cbn [app]. unfold stmt_toks.
      assert (Hnn : argtoks a <> []).
      { unfold argtoks. apply sep_toks_nonnil; [|exact Hf]. destruct (arg_nums a); [contradiction|discriminate]. }
      destruct (argtoks a) as [|s0 sl] eqn:Es; [contradiction|].
      cbn [app]. rewrite <- app_assoc.
      apply (LXc_LX (la q) [TId (str_of (la q))] (chr 40) _
               (TSym "("%string :: s0 :: sl ++ [TSym ")"%string] ++ sep_toks (map qtoks qs) ++ [TSym ";"%string]));
        [closer_tac|apply LXc_ident; exact Hq|].
      apply (LX_app [chr 40] [TSym "("%string] _ (s0 :: sl ++ [TSym ")"%string] ++ sep_toks (map qtoks qs) ++ [TSym ";"%string]));
        [apply (LX_sym (chr 40)); sym_tac|].
      rewrite ?la_app; cbn [la app]; rewrite <- ?app_assoc; cbn [app].
      apply (LXc_LX (la t) (s0 :: sl) (chr 41) _ (TSym ")"%string :: sep_toks (map qtoks qs) ++ [TSym ";"%string])); [closer_tac|exact Hx|].
      apply (LX_app [chr 41] [TSym ")"%string] _ (sep_toks (map qtoks qs) ++ [TSym ";"%string])); [apply (LX_sym (chr 41)); sym_tac|].
      apply (LX_app [chr 32] [] _ _); [apply (LX_space (chr 32)); reflexivity|].
      first [exact Ltail | rewrite ?la_app; cbn [la app]; rewrite <- ?app_assoc; exact Ltail].
Qed.

(* ---- str(n) is read back as n ---- *)
Lemma digits_val_app l1 : forall acc l2, digits_val acc (l1 ++ l2) = digits_val (digits_val acc l1) l2.
Proof. induction l1 as [|c l1 IH]; intros acc l2; [reflexivity|]. cbn [app digits_val]. apply IH. Qed.
Lemma dec_val f : forall n, n < f -> digits_val 0%Z (la (dec_fuel f n)) = Z.of_nat n.
Proof.
  induction f as [|f IH]; intros n Hn; [lia|]. cbn [dec_fuel]. destruct (Nat.ltb_spec n 10) as [H10|H10].
  - destruct (digit_char n H10) as [E [_ C]]. rewrite E. cbn [digits_val]. rewrite C. lia.
  - assert (Hq : n / 10 < f). { assert (n / 10 < n) by (apply Nat.div_lt; lia). lia. }
    destruct (digit_char (n mod 10) (Nat.mod_upper_bound n 10 ltac:(lia))) as [E2 [_ C2]].
    rewrite la_app, E2, digits_val_app, (IH _ Hq). cbn [digits_val]. rewrite C2.
    pose proof (Nat.div_mod n 10 ltac:(lia)) as D. lia.
Qed.
Lemma str_nat_val n : Z.to_nat (digits_val 0%Z (la (str_nat n))) = n.
Proof. unfold str_nat. rewrite dec_val by lia. apply Nat2Z.id. Qed.
