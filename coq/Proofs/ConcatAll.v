(* C12: all channels together (_concatenate_pulses with final padding) and compile *)
From Coq Require Import List QArith Qabs Qround ZArith Bool Lia Lqa.
From QV Require Import Model.Concat Proofs.ConcatBasics Proofs.ConcatGrid Proofs.ConcatWave.
Import ListNotations.
Open Scope Q_scope.

(* result of the inner loop for one channel, for some values of the threaded variables *)
Definition chan_res (gtl : Q -> Q) (l : list pinstr) (o : list Q * list Q) : Prop :=
  exists ms md ms' md', concat_chan true gtl true 0 ms md l = Some (fst o, snd o, ms', md').

Lemma concat_all_F2 gtl chs : forall ms md out ms' md',
  concat_all true gtl ms md chs = Some (out, ms', md') -> Forall2 (chan_res gtl) chs out.
Proof.
  induction chs as [|c r IH]; intros ms md out ms' md' H.
  - cbn in H. inversion H; subst. constructor.
  - cbn [concat_all] in H.
    destruct (concat_chan true gtl true 0 ms md c) as [[[[ts cs] ms1] md1]|] eqn:E1; [|discriminate].
    destruct (concat_all true gtl ms1 md1 r) as [[[out1 ms2] md2]|] eqn:E2; [|discriminate].
    inversion H; subst. constructor; [|eapply IH; exact E2].
    exists ms, md, ms1, md1. exact E1.
Qed.

Lemma concat_all_grid gtl chs : (forall s, 0 < s -> 0 <= gtl s) -> forall ms md out ms' md',
  Forall (fun l => l <> [] /\ chain_ord 0 l) chs -> ms_pos ms ->
  concat_all true gtl ms md chs = Some (out, ms', md') ->
  Forall (fun o => strictly_increasing (fst o)) out /\ ms_pos ms'.
Proof.
  intro Hgt. induction chs as [|c r IH]; intros ms md out ms' md' HF Hms H.
  - cbn in H. inversion H; subst. split; [constructor|exact Hms].
  - cbn [concat_all] in H.
    destruct (concat_chan true gtl true 0 ms md c) as [[[[ts cs] ms1] md1]|] eqn:E1; [|discriminate].
    destruct (concat_all true gtl ms1 md1 r) as [[[out1 ms2] md2]|] eqn:E2; [|discriminate].
    inversion H; subst. destruct (Forall_inv HF) as [Hne HC]. apply Forall_inv_tail in HF.
    destruct (chan_grid _ _ _ _ _ _ _ _ Hgt Hne HC Hms E1) as (_ & Hinc & Hp & _).
    destruct (IH _ _ _ _ _ HF Hp E2) as [A B]. split; [|exact B].
    constructor; [exact Hinc|exact A].
Qed.

Lemma all_some_F2 {A B} (f : A -> option B) l : forall r,
  all_some (map f l) = Some r -> Forall2 (fun x y => f x = Some y) l r.
Proof.
  induction l as [|x l IH]; intros r H.
  - cbn in H. inversion H. constructor.
  - cbn in H. destruct (f x) as [y|] eqn:E; [|discriminate].
    destruct (all_some (map f l)) as [r'|] eqn:E2; [|discriminate].
    inversion H; subst. constructor; [exact E|apply IH; reflexivity].
Qed.

Lemma qmax_list_ge l : forall m x, qmax_list l = Some m -> In x l -> x <= m.
Proof.
  induction l as [|y l IH]; intros m x H HI; [destruct HI|].
  cbn in H. destruct (qmax_list l) as [m'|] eqn:E.
  - destruct (Qlt_b y m') eqn:E1; inversion H; subst; qb; destruct HI as [->|HI].
    + lra.
    + exact (IH _ _ eq_refl HI).
    + lra.
    + pose proof (IH _ _ eq_refl HI). lra.
  - inversion H; subst. destruct HI as [->|HI]; [lra|].
    destruct l; [destruct HI|]. cbn in E. destruct (qmax_list l); [destruct (Qlt_b q q0)|]; discriminate.
Qed.

Lemma pad_inv ms md final ts cs ts2 cs2 :
  pad ms md final (ts, cs) = Some (ts2, cs2) ->
  exists idl, ts2 = ts ++ idl /\ cs2 = cs ++ zeros idl /\
              (idl = [] \/ exists lv, last_opt ts = Some lv /\ ms * tol < Qabs (final - lv) /\
                                      idle_tlist md final lv ms = Some idl).
Proof.
  unfold pad. destruct (last_opt ts) as [lv|] eqn:EL.
  - destruct (Qlt_b (ms * tol) (Qabs (final - lv))) eqn:E1.
    + destruct (idle_tlist md final lv ms) as [idl|] eqn:E2; [|discriminate].
      intro H. inversion H; subst. exists idl. split; [reflexivity|]. split; [reflexivity|].
      right. exists lv. qb. auto.
    + intro H. inversion H; subst. exists []. rewrite !app_nil_r. cbn. auto.
  - intro H. inversion H; subst. exists []. rewrite !app_nil_r. cbn. auto.
Qed.

(* inversion of _concatenate_pulses *)
Lemma concatenate_inv chs outs :
  concatenate_pulses true true chs = Some outs ->
  exists res out0 ms md final,
    resolution chs = Some res /\
    concat_all true (gap_tol true res) None None chs = Some (out0, Some ms, Some md) /\
    Forall (fun o => exists lv, last_opt (fst o) = Some lv /\ lv <= final) out0 /\
    Forall2 (fun o0 o => pad ms md final o0 = Some o) out0 outs.
Proof.
  unfold concatenate_pulses.
  destruct (resolution chs) as [res|] eqn:ER; [|discriminate].
  destruct (concat_all true (gap_tol true res) None None chs) as [[[out0 ms] md]|] eqn:E1; [|discriminate].
  destruct (all_some (map (fun tc => last_opt (fst tc)) out0)) as [lasts|] eqn:E2; [|discriminate].
  destruct (qmax_list lasts) as [final|] eqn:E3; [|discriminate].
  destruct ms as [ms|]; [|discriminate]. destruct md as [md|]; [|discriminate].
  intro H. exists res, out0, ms, md, final. split; [reflexivity|]. split; [exact E1|]. split.
  - apply all_some_F2 in E2. clear - E2 E3.
    assert (G : forall x, In x lasts -> x <= final) by (intros x; apply qmax_list_ge; exact E3).
    clear E3. induction E2 as [|o lv out0 lasts E _ IH]; constructor.
    + exists lv. split; [exact E|]. apply G. left. reflexivity.
    + apply IH. intros x Hx. apply G. right. exact Hx.
  - apply all_some_F2 in H. exact H.
Qed.

Lemma F2_nth {A B} (R : A -> B -> Prop) l1 l2 : Forall2 R l1 l2 ->
  forall k a b, nth_error l1 k = Some a -> nth_error l2 k = Some b -> R a b.
Proof.
  induction 1 as [|x y l1 l2 Hxy _ IH]; intros k a b H1 H2.
  - destruct k; discriminate.
  - destruct k; cbn in *; [congruence|]. eapply IH; eassumption.
Qed.

Lemma F2_nth_ex {A B} (R : A -> B -> Prop) l1 l2 : Forall2 R l1 l2 ->
  forall k b, nth_error l2 k = Some b -> exists a, nth_error l1 k = Some a /\ R a b.
Proof.
  induction 1 as [|x y l1 l2 Hxy _ IH]; intros k b H2.
  - destruct k; discriminate.
  - destruct k; cbn in *; [inversion H2; subst; eauto|]. eapply IH; eassumption.
Qed.

Lemma chain_ord_starts l : forall a i, chain_ord a l -> In i l -> a <= p_start i.
Proof.
  induction l as [|j rest IH]; intros a i HC HI; [destruct HI|].
  destruct HC as (Hw & Hle & HC). destruct HI as [<-|HI]; [exact Hle|].
  pose proof (IH _ _ HC HI). pose proof (wf_wave_end_pos _ Hw). unfold p_end in *. lra.
Qed.

(* ---------- the time resolution of a schedule ---------- *)
Lemma entry_end_p_end p e : entry_end p = Some e -> e = p_end p.
Proof.
  unfold entry_end, p_end, wave_end. destruct (p_wave p) as [d c|ts cs]; cbn.
  - intro H. inversion H. reflexivity.
  - destruct (last_opt ts) as [e'|] eqn:E; [|discriminate]. intro H. inversion H.
    rewrite (last_opt_last ts 0) in E by (eapply last_opt_some_ne; exact E). congruence.
Qed.

Lemma all_some_in {A B} (f : A -> option B) l : forall r x,
  all_some (map f l) = Some r -> In x l -> exists y, f x = Some y /\ In y r.
Proof.
  induction l as [|a l IH]; intros r x H HI; [destruct HI|].
  cbn in H. destruct (f a) as [y|] eqn:E; [|discriminate].
  destruct (all_some (map f l)) as [r'|] eqn:E2; [|discriminate]. inversion H; subst.
  destruct HI as [<-|HI]; [exists y; split; [exact E|left; reflexivity]|].
  destruct (IH _ _ eq_refl HI) as (y' & A1 & A2). exists y'. split; [exact A1|right; exact A2].
Qed.

Lemma resolution_ge chs r l i :
  resolution chs = Some r -> In l chs -> In i l -> (1 # 100000000000000) * p_end i <= r.
Proof.
  unfold resolution. destruct (all_some (map entry_end (concat chs))) as [ends|] eqn:E; [|discriminate].
  intros H Hl Hi. inversion H; subst. clear H.
  assert (HI : In i (concat chs)) by (apply in_concat; exists l; split; assumption).
  destruct (all_some_in _ _ _ _ E HI) as (y & Ey & Iy). apply entry_end_p_end in Ey. subst y.
  destruct (qmax_list ends) as [m|] eqn:EM.
  - pose proof (qmax_list_ge _ _ _ EM Iy). lra.
  - destruct ends; [destruct Iy|]. cbn in EM. destruct (qmax_list ends); [destruct (Qlt_b q q0)|]; discriminate.
Qed.

Lemma res_pos chs r l :
  resolution chs = Some r -> In l chs -> l <> [] -> chain_ord 0 l -> 0 < r.
Proof.
  intros H Hl Hne HC. destruct l as [|i rest]; [congruence|].
  pose proof (resolution_ge _ _ _ i H Hl (or_introl eq_refl)) as G.
  destruct HC as (Hw & Hle & _). pose proof (wf_wave_end_pos _ Hw). unfold p_end in G. lra.
Qed.

Lemma gap_tol_true_nonneg res : 0 <= res -> forall s : Q, 0 < s -> 0 <= gap_tol true res s.
Proof. intros H s _. exact H. Qed.

Lemma gap_tol_false_nonneg res : forall s : Q, 0 < s -> 0 <= gap_tol false res s.
Proof. intros s Hs. unfold gap_tol. pose proof tol_pos. apply Qmult_le_0_compat; lra. Qed.

(* a channel of a successful concatenation, looked at alone *)
Lemma channel_inv chs outs k l ts cs :
  concatenate_pulses true true chs = Some outs ->
  nth_error chs k = Some l -> nth_error outs k = Some (ts, cs) ->
  exists ts0 cs0 idl, chan_res (gap_tol true (res_of chs)) l (ts0, cs0) /\
                      ts = ts0 ++ idl /\ cs = cs0 ++ zeros idl /\ l <> [] /\
                      resolution chs = Some (res_of chs).
Proof.
  intros H Hl Ho. apply concatenate_inv in H.
  destruct H as (res & out0 & ms & md & final & ER & E1 & EL & EP).
  unfold res_of. rewrite ER.
  apply concat_all_F2 in E1.
  destruct (F2_nth_ex _ _ _ EP k _ Ho) as ([ts0 cs0] & Hk0 & Hpad).
  pose proof (F2_nth _ _ _ E1 k _ _ Hl Hk0) as HR.
  apply pad_inv in Hpad. destruct Hpad as (idl & -> & -> & _).
  exists ts0, cs0, idl. repeat split; try assumption.
  intros ->. destruct HR as (a & b & c & d & HR). cbn [fst snd] in HR. inversion HR; subst.
  rewrite Forall_forall in EL. apply nth_error_In in Hk0. destruct (EL _ Hk0) as (lv & E & _).
  cbn in E. discriminate.
Qed.

(* ---------- clause 1: every grid starts at zero ---------- *)
Lemma all_start_zero chs outs k ts cs :
  concatenate_pulses true true chs = Some outs -> nth_error outs k = Some (ts, cs) ->
  exists r, ts = 0 :: r.
Proof.
  intros H Ho.
  assert (exists l, nth_error chs k = Some l) as [l Hl].
  { pose proof H as H'. apply concatenate_inv in H'. destruct H' as (res & out0 & ms & md & final & ER & E1 & _ & EP).
    apply concat_all_F2 in E1.
    destruct (F2_nth_ex _ _ _ EP k _ Ho) as (o0 & Hk0 & _).
    destruct (F2_nth_ex _ _ _ E1 k _ Hk0) as (l & Hl & _). eauto. }
  destruct (channel_inv _ _ _ _ _ _ H Hl Ho) as (ts0 & cs0 & idl & HR & -> & _ & Hne & _).
  destruct l as [|i rest]; [congruence|].
  destruct HR as (a & b & c & d & HR). cbn [fst snd] in HR.
  apply chan_starts_zero in HR. destruct HR as [r ->]. exists (r ++ idl). reflexivity.
Qed.

(* ---------- clause 2: coefficient length fits the grid ---------- *)
Lemma all_lengths chs outs k i rest ts cs :
  concatenate_pulses true true chs = Some outs ->
  nth_error chs k = Some (i :: rest) -> nth_error outs k = Some (ts, cs) ->
  (is_discrete (p_wave i) /\ length ts = S (length cs)) \/
  (is_continuous (p_wave i) /\ ~ is_discrete (p_wave i) /\ length ts = length cs).
Proof.
  intros H Hl Ho.
  destruct (channel_inv _ _ _ _ _ _ H Hl Ho) as (ts0 & cs0 & idl & HR & -> & -> & _).
  destruct HR as (a & b & c & d & HR). cbn [fst snd] in HR.
  apply chan_lengths_first in HR. rewrite !app_length, zeros_length.
  destruct HR as [[A B]|[A [B C]]]; [left|right]; repeat split; try assumption; lia.
Qed.

(* ---------- clause 3: every grid increases strictly ---------- *)
Lemma channels_nonempty chs outs :
  concatenate_pulses true true chs = Some outs -> Forall (fun l => l <> []) chs.
Proof.
  intro H. rewrite Forall_forall. intros l Hl. apply In_nth_error in Hl. destruct Hl as [k Hl].
  pose proof H as H'. apply concatenate_inv in H'. destruct H' as (res & out0 & ms & md & final & ER & E1 & _ & EP).
  apply concat_all_F2 in E1.
  assert (exists o, nth_error outs k = Some o) as [[ts cs] Ho].
  { clear - E1 EP Hl. revert k out0 outs E1 EP Hl. induction chs as [|c r IH]; intros k out0 outs E1 EP Hl.
    - destruct k; discriminate.
    - inversion E1; subst. inversion EP; subst. destruct k; cbn in *; [eauto|]. eapply IH; eassumption. }
  destruct (channel_inv _ _ _ _ _ _ H Hl Ho) as (_ & _ & _ & _ & _ & _ & Hne & _). exact Hne.
Qed.

Lemma last_opt_cons0 (r : list Q) : last_opt (0 :: r) = Some (last r 0).
Proof.
  rewrite (last_opt_last (0 :: r) 0) by congruence. destruct r; reflexivity.
Qed.

Lemma all_increasing chs outs :
  Forall (chain_ord 0) chs ->
  concatenate_pulses true true chs = Some outs ->
  Forall (fun o => strictly_increasing (fst o)) outs.
Proof.
  intros HC H. pose proof (channels_nonempty _ _ H) as Hne.
  apply concatenate_inv in H. destruct H as (res & out0 & ms & md & final & ER & E1 & EL & EP).
  assert (HF : Forall (fun l => l <> [] /\ chain_ord 0 l) chs).
  { rewrite Forall_forall in *. intros l Hl. split; auto. }
  assert (Hres : 0 <= res).
  { destruct chs as [|l0 chs']; [cbn in E1; discriminate|].
    apply Qlt_le_weak. apply (res_pos _ _ l0 ER); [left; reflexivity|exact (Forall_inv Hne)|exact (Forall_inv HC)]. }
  pose proof (concat_all_F2 _ _ _ _ _ _ _ E1) as F2.
  destruct (concat_all_grid _ chs (gap_tol_true_nonneg res Hres) None None out0 (Some ms) (Some md) HF I E1) as [Hinc Hms]. cbn in Hms.
  clear E1 HC Hne HF ER.
  revert outs EP. induction F2 as [|l o0 chs out0 HR _ IH]; intros outs EP.
  - inversion EP. constructor.
  - inversion EP as [|? o ? outs' Hp EP']; subst.
    constructor.
    + destruct o0 as [ts0 cs0]. destruct o as [ts cs]. cbn [fst].
      apply pad_inv in Hp. destruct Hp as (idl & -> & -> & Hidl).
      pose proof (Forall_inv Hinc) as Hi0. cbn [fst] in Hi0.
      destruct Hidl as [->|(lv & ELv & Hgap & Hidle)]; [rewrite app_nil_r; exact Hi0|].
      destruct (Forall_inv EL) as (lv' & ELv' & Hle). cbn [fst] in ELv'.
      assert (lv' = lv) by congruence. subst lv'.
      assert (Hlt : lv < final).
      { pose proof tol_pos. assert (0 < ms * tol) by (apply Qmult_lt_0_compat; assumption).
        destruct (Qlt_le_dec lv final) as [A|A]; [exact A|].
        assert (final == lv) by lra. rewrite Qabs_pos in Hgap by lra. lra. }
      destruct (idle_incr _ _ _ _ _ Hms Hlt Hidle) as [Hii _].
      destruct ts0 as [|t0 r]; [discriminate|].
      cbn [strictly_increasing] in *. change ((t0 :: r) ++ idl) with (t0 :: (r ++ idl)). cbn [strictly_increasing].
      apply incr_app; [exact Hi0|].
      rewrite (last_opt_last (t0 :: r) t0) in ELv by congruence. inversion ELv; subst.
      destruct r; exact Hii.
    + apply IH; [exact (Forall_inv_tail EL)|exact (Forall_inv_tail Hinc)|exact EP'].
Qed.

(* ---------- clauses 4 and 5: the compiled discrete channel is the scheduled waveform ---------- *)
Lemma all_waveform chs outs k l ts cs :
  concatenate_pulses true true chs = Some outs ->
  nth_error chs k = Some l -> nth_error outs k = Some (ts, cs) ->
  chain_ord 0 l -> gaps_ok (gap_tol true (res_of chs)) 0 l -> Forall (fun i => is_discrete (p_wave i)) l ->
  forall t, eval_step ts cs t = spec_eval l t.
Proof.
  intros H Hl Ho HC HG HD t.
  destruct (channel_inv _ _ _ _ _ _ H Hl Ho) as (ts0 & cs0 & idl & HR & -> & -> & Hne & ER).
  destruct HR as (a & b & c & d & HR). cbn [fst snd] in HR.
  assert (Hres : 0 <= res_of chs).
  { apply Qlt_le_weak. apply (res_pos _ _ l ER); [eapply nth_error_In; exact Hl|exact Hne|exact HC]. }
  rewrite <- (chan_eval _ _ _ _ _ _ _ _ (gap_tol_true_nonneg _ Hres) HC HG HD HR t).
  destruct l as [|i rest]; [congruence|].
  pose proof (chan_lengths_first _ _ _ _ _ _ _ _ _ _ HR) as HL.
  destruct HL as [[_ HL]|[_ [Hnd _]]]; [|exfalso; apply Hnd; exact (Forall_inv HD)].
  destruct ts0 as [|t0 r]; [discriminate|]. cbn [app eval_step].
  apply eval_app_zeros. cbn in HL. lia.
Qed.

Lemma spec_in_window l : forall a i t,
  chain_ord a l -> In i l -> p_start i <= t -> t < p_end i ->
  spec_eval l t = eval_step (w_ts (p_wave i)) (w_cs (p_wave i)) (t - p_start i).
Proof.
  induction l as [|j rest IH]; intros a i t HC HI H1 H2; [destruct HI|].
  destruct HC as (Hw & Hle & HC). cbn [spec_eval].
  destruct (Qle_bool (p_start j) t && Qlt_b t (p_start j + wave_end (p_wave j))) eqn:E.
  - apply andb_prop in E. destruct E as [E1 E2]. qb.
    destruct HI as [<-|HI]; [reflexivity|].
    pose proof (chain_ord_starts _ _ _ HC HI). unfold p_end in *. lra.
  - destruct HI as [<-|HI].
    + apply andb_false_iff in E. unfold p_end in H2. destruct E as [E|E]; qb; lra.
    + exact (IH _ _ _ HC HI H1 H2).
Qed.

Lemma spec_outside l : forall t,
  (forall i, In i l -> ~ (p_start i <= t /\ t < p_end i)) -> spec_eval l t = 0.
Proof.
  induction l as [|j rest IH]; intros t H; [reflexivity|]. cbn [spec_eval].
  destruct (Qle_bool (p_start j) t && Qlt_b t (p_start j + wave_end (p_wave j))) eqn:E.
  - apply andb_prop in E. destruct E as [E1 E2]. qb. exfalso.
    apply (H j); [left; reflexivity|]. unfold p_end. split; assumption.
  - apply IH. intros i Hi. apply H. right. exact Hi.
Qed.

(* ---------- continuous channels ---------- *)
Lemma all_samples chs outs k l ts cs :
  concatenate_pulses true true chs = Some outs ->
  nth_error chs k = Some l -> nth_error outs k = Some (ts, cs) ->
  Forall wf_cont l ->
  length ts = length cs /\
  (forall i, In i l -> incl (samples i) (combine ts cs)) /\
  (forall t c, In (t, c) (combine ts cs) -> c = 0 \/ exists i, In i l /\ In (t, c) (samples i)).
Proof.
  intros H Hl Ho HW.
  destruct (channel_inv _ _ _ _ _ _ H Hl Ho) as (ts0 & cs0 & idl & HR & -> & -> & Hne & _).
  destruct HR as (a & b & c & d & HR). cbn [fst snd] in HR.
  destruct (chan_samples _ _ _ _ _ _ _ _ Hne HW HR) as (HL & IA & IB).
  rewrite (combine_app _ _ _ _ HL). split; [rewrite !app_length, zeros_length; lia|]. split.
  - intros i Hi x Hx. apply in_or_app. left. exact (IA i Hi x Hx).
  - intros t c0 HI. apply in_app_or in HI. destruct HI as [HI|HI]; [exact (IB t c0 HI)|].
    left. exact (combine_zeros _ _ _ HI).
Qed.

(* ---------- compile = ordering + channel bookkeeping + _concatenate_pulses ---------- *)
Definition scheduled (sched : option (list Q)) (il : list instr) : option (list (Q * instr)) :=
  match all_some (map (fun i => duration (i_tl i)) il) with
  | None => None
  | Some durs => Some match sched with
                      | None => combine (starts_from 0 durs) il
                      | Some st => order_by_start (combine st il)
                      end
  end.

Lemma compile_decompose fx gx sched il out :
  il <> [] -> compile fx gx sched il = Some out ->
  exists sil chs outs,
    scheduled sched il = Some sil /\ build_channels sil = Some chs /\
    concatenate_pulses fx gx (map snd chs) = Some outs /\ out = combine (map fst chs) outs.
Proof.
  intros Hne. unfold compile, scheduled. destruct il as [|i0 il]; [congruence|].
  destruct (all_some (map (fun i => duration (i_tl i)) (i0 :: il))) as [durs|]; [|discriminate].
  match goal with |- context [build_channels ?s] => destruct (build_channels s) as [chs|] eqn:EB end; [|discriminate].
  destruct (concatenate_pulses fx gx (map snd chs)) as [outs|] eqn:EC; [|discriminate].
  intro H. inversion H; subst. eexists _, chs, outs. repeat split; assumption || reflexivity.
Qed.

(* np.argsort as stable insertion sort: the result is ordered by start time *)
Fixpoint sorted_starts {A} (l : list (Q * A)) : Prop :=
  match l with
  | [] => True
  | x :: r => (forall y, In y r -> fst x <= fst y) /\ sorted_starts r
  end.

Lemma insert_in {A} (x : Q * A) l y : In y (insert_by_start x l) <-> y = x \/ In y l.
Proof.
  induction l as [|z l IH]; cbn; [intuition congruence|].
  destruct (Qle_bool (fst x) (fst z)); cbn; [intuition congruence|]. rewrite IH. intuition congruence.
Qed.

Lemma insert_sorted {A} (x : Q * A) l : sorted_starts l -> sorted_starts (insert_by_start x l).
Proof.
  induction l as [|z l IH]; intro H; [cbn; tauto|].
  cbn [insert_by_start]. destruct (Qle_bool (fst x) (fst z)) eqn:E; qb.
  - split; [|exact H]. intros y [<-|Hy]; [exact E|]. destruct H as [H _]. pose proof (H y Hy). lra.
  - destruct H as [H1 H2]. split; [|exact (IH H2)].
    intros y Hy. apply insert_in in Hy. destruct Hy as [->|Hy]; [lra|exact (H1 y Hy)].
Qed.

Lemma order_by_start_sorted {A} (l : list (Q * A)) : sorted_starts (order_by_start l).
Proof.
  induction l as [|x l IH]; [exact I|]. cbn. apply insert_sorted. exact IH.
Qed.

Lemma order_by_start_in {A} (l : list (Q * A)) y : In y (order_by_start l) <-> In y l.
Proof.
  induction l as [|x l IH]; [tauto|]. cbn. rewrite insert_in, IH. intuition congruence.
Qed.
