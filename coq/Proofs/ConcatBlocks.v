(* C12: positional bookkeeping of the concatenation -- which stretch of the compiled arrays belongs to
   which instruction (both pulse modes; the statement that matters for continuous / spline channels) *)
From Coq Require Import List QArith Qabs Qround ZArith Bool Lia Lqa.
From QV Require Import Model.Concat Proofs.ConcatBasics Proofs.ConcatGrid Proofs.ConcatWave Proofs.ConcatAll
     Proofs.ConcatTop.
Import ListNotations.
Open Scope Q_scope.

(* the time points / coefficients that _concatenate_pulses appends for one instruction
   (execution_time = gate_tlist + start_time, coeffs), as returned by _process_gate_pulse *)
Definition exec_times (i : pinstr) : list Q :=
  map (fun x => x + p_start i) (tl (w_ts (p_wave i))).

Definition exec_coeffs (i : pinstr) : list Q :=
  match process_gate_pulse (p_wave i) with
  | Some (_, co, _, _) => co
  | None => []
  end.

Lemma exec_coeffs_continuous i :
  wf_wave (p_wave i) -> is_continuous (p_wave i) -> exec_coeffs i = tl (w_cs (p_wave i)).
Proof. intros Hw Hc. unfold exec_coeffs. rewrite (pgp_continuous _ Hw Hc). reflexivity. Qed.

Lemma exec_coeffs_discrete i :
  wf_wave (p_wave i) -> is_discrete (p_wave i) -> exec_coeffs i = w_cs (p_wave i).
Proof. intros Hw Hc. unfold exec_coeffs. rewrite (pgp_discrete _ Hw Hc). reflexivity. Qed.

Lemma samples_exec i :
  wf_wave (p_wave i) -> is_continuous (p_wave i) -> samples i = combine (exec_times i) (exec_coeffs i).
Proof. intros Hw Hc. unfold samples, exec_times. rewrite (exec_coeffs_continuous _ Hw Hc). reflexivity. Qed.

Lemma exec_lengths i : wf_wave (p_wave i) -> length (exec_times i) = length (exec_coeffs i).
Proof.
  intro Hw. unfold exec_times, exec_coeffs. destruct (pgp_wf _ Hw) as (co & m & EP & _).
  rewrite EP, map_length. exact (pgp_lengths _ _ _ _ _ EP).
Qed.

(* ---------- increasing lists, inverse direction ---------- *)
Lemma incr_all_gt a l x : incr_from a l -> In x l -> a < x.
Proof.
  revert a. induction l as [|y l IH]; intros a H HI; [destruct HI|].
  destruct H as [H H']. destruct HI as [->|HI]; [exact H|].
  pose proof (IH _ H' HI). lra.
Qed.

Lemma incr_app_inv a l1 l2 :
  incr_from a (l1 ++ l2) -> incr_from a l1 /\ incr_from (last l1 a) l2.
Proof.
  revert a. induction l1 as [|x l1 IH]; intros a H; [split; [exact I|exact H]|].
  destruct H as [H H']. destruct (IH _ H') as [A B]. split; [split; assumption|].
  destruct l1 as [|y l1]; [exact B|].
  change (last (x :: y :: l1) a) with (last (y :: l1) a).
  rewrite (last_default_irrel (y :: l1) a x) by congruence. exact B.
Qed.

(* in a strictly increasing list P ++ M ++ S every element of S lies above the last element of M *)
Lemma after_block_gt P M S x d :
  strictly_increasing (P ++ M ++ S) -> M <> [] -> In x S -> last M d < x.
Proof.
  intros H Hne HI. destruct P as [|p P].
  - cbn [app] in H. destruct M as [|m M]; [congruence|]. cbn [app strictly_increasing] in H.
    destruct (incr_app_inv _ _ _ H) as [_ B].
    destruct M as [|m' M].
    + cbn in *. exact (incr_all_gt _ _ _ B HI).
    + change (last (m :: m' :: M) d) with (last (m' :: M) d).
      rewrite (last_default_irrel (m' :: M) d m) by congruence. exact (incr_all_gt _ _ _ B HI).
  - cbn [app strictly_increasing] in H. destruct (incr_app_inv _ _ _ H) as [_ B].
    destruct (incr_app_inv _ _ _ B) as [_ C].
    rewrite (last_default_irrel M d (last P p)) by exact Hne. exact (incr_all_gt _ _ _ C HI).
Qed.

(* ---------- the split, inside one channel ---------- *)
Lemma chan_split_nf gtl l : (forall s, 0 < s -> 0 <= gtl s) ->
  forall lst ms md ts cs ms' md',
  chain_ord lst l -> concat_chan true gtl false lst ms md l = Some (ts, cs, ms', md') ->
  forall i, In i l ->
  exists A B cA cB,
    ts = A ++ exec_times i ++ B /\ cs = cA ++ exec_coeffs i ++ cB /\ length A = length cA /\
    (forall x, In x A -> x <= p_start i) /\ (forall x, In x B -> p_end i < x).
Proof.
  intro Hgt. induction l as [|j rest IH]; intros lst ms md ts cs ms' md' HC H i HI; [destruct HI|].
  destruct HC as (Hw & Hle & HC).
  apply concat_chan_inv in H.
  destruct H as (gt & co & step & m & idl & lst' & ts' & cs' & EP & EI & EL & ER & Ets & Ecs).
  cbn in Ets, Ecs. subst ts cs.
  destruct (wf_pgp_inv _ _ _ _ _ Hw EP) as [-> ->].
  pose proof (wf_step_pos _ Hw) as Hs.
  destruct (wf_exec (p_wave j) (p_start j) Hw) as (Ene & Einc & Elast).
  fold (exec_times j) in *.
  rewrite (last_opt_last (exec_times j) (p_start j) Ene) in EL. injection EL as <-.
  set (L := last (exec_times j) (p_start j)) in *.
  assert (EL : L == p_end j) by (unfold p_end; lra).
  assert (HC' : chain_ord L rest) by (apply chain_ord_eq with (a := p_end j); [lra|exact HC]).
  assert (Eco : exec_coeffs j = co) by (unfold exec_coeffs; rewrite EP; reflexivity).
  (* the idle block lies at or before the start of j *)
  assert (Hidl : forall x, In x idl -> x <= p_start j).
  { destruct (Qlt_b (gtl (step_of (p_wave j))) (Qabs (p_start j - lst))) eqn:EG.
    - qb. rewrite Qabs_pos in EG by lra. pose proof (Hgt _ Hs).
      assert (Hlt : lst < p_start j) by lra.
      destruct (idle_incr _ _ _ _ _ Hs Hlt EI) as [_ Hb]. exact Hb.
    - injection EI as <-. intros x []. }
  destruct HI as [<-|HI].
  - exists idl, ts', (zeros idl), cs'. rewrite Eco.
    split; [reflexivity|]. split; [reflexivity|]. split; [symmetry; apply zeros_length|].
    split; [exact Hidl|].
    intros x Hx. pose proof (chan_incr_nf _ _ _ _ _ _ _ _ _ Hgt HC' ER) as Hinc.
    pose proof (incr_all_gt _ _ _ Hinc Hx). lra.
  - destruct (IH _ _ _ _ _ _ _ HC' ER i HI) as (A & B & cA & cB & E1 & E2 & E3 & E4 & E5).
    exists (idl ++ exec_times j ++ A), B, (zeros idl ++ co ++ cA), cB.
    split; [rewrite E1; repeat rewrite <- app_assoc; reflexivity|].
    split; [rewrite E2; repeat rewrite <- app_assoc; reflexivity|].
    split.
    { rewrite !app_length, zeros_length. pose proof (exec_lengths j Hw) as EL'. rewrite Eco in EL'. lia. }
    split; [|exact E5].
    pose proof (chain_ord_starts _ _ _ HC HI) as Hji.
    pose proof (wf_wave_end_pos _ Hw) as Hwe. unfold p_end in Hji.
    intros x Hx. apply in_app_or in Hx. destruct Hx as [Hx|Hx].
    + pose proof (Hidl x Hx). lra.
    + apply in_app_or in Hx. destruct Hx as [Hx|Hx]; [|exact (E4 x Hx)].
      pose proof (incr_all_le _ _ _ Einc Hx). fold L in H. unfold p_end in EL. lra.
Qed.

(* ---------- the split, in the arrays returned for a channel ---------- *)
Lemma all_split chs outs k l ts cs :
  Forall (chain_ord 0) chs ->
  concatenate_pulses true true chs = Some outs ->
  nth_error chs k = Some l -> nth_error outs k = Some (ts, cs) ->
  forall i, In i l ->
  exists A B cA cB,
    ts = A ++ exec_times i ++ B /\ cs = cA ++ exec_coeffs i ++ cB /\
    match l with
    | j :: _ => (is_discrete (p_wave j) /\ length A = S (length cA)) \/
                (is_continuous (p_wave j) /\ ~ is_discrete (p_wave j) /\ length A = length cA)
    | [] => False
    end /\
    (forall x, In x A -> x <= p_start i) /\ (forall x, In x B -> p_end i < x).
Proof.
  intros HCs H Hl Ho i Hi.
  pose proof (all_increasing _ _ HCs H) as Hinc.
  assert (HC : chain_ord 0 l).
  { rewrite Forall_forall in HCs. apply HCs. eapply nth_error_In. exact Hl. }
  assert (Hts : strictly_increasing ts).
  { rewrite Forall_forall in Hinc. apply (Hinc (ts, cs)). eapply nth_error_In. exact Ho. }
  destruct (channel_inv _ _ _ _ _ _ H Hl Ho) as (ts0 & cs0 & idl & HR & -> & -> & Hne & ER).
  destruct HR as (a & b & c & d & HR). cbn [fst snd] in HR.
  assert (Hres : 0 <= res_of chs).
  { apply Qlt_le_weak. apply (res_pos _ _ l ER); [eapply nth_error_In; exact Hl|exact Hne|exact HC]. }
  destruct l as [|j rest]; [congruence|].
  apply concat_first in HR. destruct HR as (ts1 & cs1 & HR & -> & Hcs).
  destruct (chan_split_nf _ _ (gap_tol_true_nonneg _ Hres) _ _ _ _ _ _ _ HC HR i Hi)
    as (A & B & cA & cB & E1 & E2 & E3 & E4 & E5).
  assert (Hw : wf_wave (p_wave i)).
  { clear - HC Hi. revert HC. generalize 0. induction (j :: rest) as [|q r IHr]; intros a HC; [destruct Hi|].
    destruct HC as (Hw & _ & HC). destruct Hi as [<-|Hi]; [exact Hw|]. exact (IHr Hi _ HC). }
  assert (Hexne : exec_times i <> []) by (destruct (wf_exec (p_wave i) (p_start i) Hw) as (E & _); exact E).
  exists (0 :: A), (B ++ idl).
  destruct Hcs as [[Hdj ->]|[Hcj [Hndj ->]]].
  - exists cA, (cB ++ zeros idl).
    split; [rewrite E1; cbn [app]; repeat rewrite <- app_assoc; reflexivity|].
    split; [rewrite E2; repeat rewrite <- app_assoc; reflexivity|].
    split; [left; split; [exact Hdj|cbn; lia]|]. split.
    + intros x [<-|Hx]; [exact (chain_ord_starts _ _ _ HC Hi)|exact (E4 x Hx)].
    + intros x Hx.
      assert (G : last (exec_times i) (p_start i) < x).
      { apply (after_block_gt (0 :: A) (exec_times i) (B ++ idl)); [|exact Hexne|exact Hx].
        rewrite E1 in Hts. cbn [app] in Hts. repeat rewrite <- app_assoc in Hts. exact Hts. }
      destruct (wf_exec (p_wave i) (p_start i) Hw) as (_ & _ & EL). fold (exec_times i) in EL.
      unfold p_end. lra.
  - exists (0 :: cA), (cB ++ zeros idl).
    split; [rewrite E1; cbn [app]; repeat rewrite <- app_assoc; reflexivity|].
    split; [rewrite E2; cbn [app]; repeat rewrite <- app_assoc; reflexivity|].
    split; [right; split; [exact Hcj|split; [exact Hndj|cbn; lia]]|]. split.
    + intros x [<-|Hx]; [exact (chain_ord_starts _ _ _ HC Hi)|exact (E4 x Hx)].
    + intros x Hx.
      assert (G : last (exec_times i) (p_start i) < x).
      { apply (after_block_gt (0 :: A) (exec_times i) (B ++ idl)); [|exact Hexne|exact Hx].
        rewrite E1 in Hts. cbn [app] in Hts. repeat rewrite <- app_assoc in Hts. exact Hts. }
      destruct (wf_exec (p_wave i) (p_start i) Hw) as (_ & _ & EL). fold (exec_times i) in EL.
      unfold p_end. lra.
Qed.

(* ---------- consequences ---------- *)
(* the grid points inside the window (start, end] of an instruction are exactly its own sample times *)
Lemma window_grid chs outs k l ts cs :
  Forall (chain_ord 0) chs ->
  concatenate_pulses true true chs = Some outs ->
  nth_error chs k = Some l -> nth_error outs k = Some (ts, cs) ->
  forall i t, In i l -> In t ts -> p_start i < t -> t <= p_end i -> In t (exec_times i).
Proof.
  intros HCs H Hl Ho i t Hi Ht H1 H2.
  destruct (all_split _ _ _ _ _ _ HCs H Hl Ho i Hi) as (A & B & cA & cB & E1 & _ & _ & E4 & E5).
  rewrite E1 in Ht. apply in_app_or in Ht. destruct Ht as [Ht|Ht].
  - pose proof (E4 _ Ht). lra.
  - apply in_app_or in Ht. destruct Ht as [Ht|Ht]; [exact Ht|]. pose proof (E5 _ Ht). lra.
Qed.

Lemma nth_error_block {A} (P M S : list A) n : (n < length M)%nat ->
  nth_error (P ++ M ++ S) (length P + n) = nth_error M n.
Proof.
  intro H. rewrite nth_error_app2 by lia.
  replace (length P + n - length P)%nat with n by lia. apply nth_error_app1. exact H.
Qed.

(* continuous channel: sample n of instruction i sits at ONE index of both arrays *)
Lemma continuous_aligned chs outs k l ts cs :
  Forall (chain_ord 0) chs ->
  concatenate_pulses true true chs = Some outs ->
  nth_error chs k = Some l -> nth_error outs k = Some (ts, cs) ->
  Forall wf_cont l ->
  forall i, In i l ->
  exists off,
    forall n, (n < length (exec_times i))%nat ->
      nth_error ts (off + n) = nth_error (exec_times i) n /\
      nth_error cs (off + n) = nth_error (tl (w_cs (p_wave i))) n.
Proof.
  intros HCs H Hl Ho HW i Hi.
  destruct (all_split _ _ _ _ _ _ HCs H Hl Ho i Hi) as (A & B & cA & cB & E1 & E2 & E3 & _ & _).
  rewrite Forall_forall in HW. destruct (HW i Hi) as [Hw Hc].
  pose proof (exec_lengths i Hw) as EL.
  assert (E3' : length A = length cA).
  { destruct l as [|j rest]; [destruct E3|]. destruct (HW j (or_introl eq_refl)) as [_ Hcj].
    destruct E3 as [[Hd _]|[_ [_ E3]]]; [unfold is_discrete, is_continuous in *; lia|exact E3]. }
  exists (length A). intros n Hn. split.
  - rewrite E1. apply nth_error_block. exact Hn.
  - rewrite E2, <- (exec_coeffs_continuous i Hw Hc), E3'. apply nth_error_block. rewrite <- EL. exact Hn.
Qed.

(* ---------- every grid point of a continuous channel, classified ---------- *)
Lemma incr_from_strict z r : incr_from z r -> strictly_increasing r.
Proof. destruct r as [|w r]; [exact (fun _ => I)|]. intros [_ H]. exact H. Qed.

Lemma incr_nth_lt l : forall a b x y,
  strictly_increasing l -> (a < b)%nat ->
  nth_error l a = Some x -> nth_error l b = Some y -> x < y.
Proof.
  induction l as [|z r IH]; intros a b x y HS Hab Ha Hb; [destruct a; discriminate|].
  cbn [strictly_increasing] in HS. destruct b as [|b']; [lia|]. cbn in Hb.
  destruct a as [|a'].
  - cbn in Ha. inversion Ha; subst. apply nth_error_In in Hb. exact (incr_all_gt _ _ _ HS Hb).
  - cbn in Ha. apply (IH a' b'); [exact (incr_from_strict _ _ HS)|lia|exact Ha|exact Hb].
Qed.

Lemma incr_nth_inj l a b x :
  strictly_increasing l -> nth_error l a = Some x -> nth_error l b = Some x -> a = b.
Proof.
  intros HS Ha Hb. destruct (Nat.lt_trichotomy a b) as [H|[H|H]]; [|exact H|].
  - pose proof (incr_nth_lt _ _ _ _ _ HS H Ha Hb). lra.
  - pose proof (incr_nth_lt _ _ _ _ _ HS H Hb Ha). lra.
Qed.

Lemma nth_error_combine_In {A B} (l1 : list A) : forall (l2 : list B) n x y,
  nth_error l1 n = Some x -> nth_error l2 n = Some y -> In (x, y) (combine l1 l2).
Proof.
  induction l1 as [|a l1 IH]; intros l2 n x y H1 H2; [destruct n; discriminate|].
  destruct l2 as [|b l2]; [destruct n; discriminate|].
  destruct n as [|n]; cbn in *; [left; congruence|right; eapply IH; eassumption].
Qed.

(* Every grid point of a continuous channel is EITHER sample number n+1 of the one instruction whose
   window (start, end] contains it -- found at the same index of the time and of the coefficient array --
   OR it carries the coefficient 0 and lies in no window (start_i, end_i]. *)
Lemma continuous_points chs outs k l ts cs :
  Forall (chain_ord 0) chs ->
  concatenate_pulses true true chs = Some outs ->
  nth_error chs k = Some l -> nth_error outs k = Some (ts, cs) ->
  Forall wf_cont l ->
  forall p t c, nth_error ts p = Some t -> nth_error cs p = Some c ->
  (exists i n, In i l /\ p_start i < t /\ t <= p_end i /\
               nth_error (exec_times i) n = Some t /\ nth_error (tl (w_cs (p_wave i))) n = Some c) \/
  (c = 0 /\ forall i, In i l -> ~ (p_start i < t /\ t <= p_end i)).
Proof.
  intros HCs H Hl Ho HW p t c Ht Hc.
  pose proof (all_increasing _ _ HCs H) as Hinc.
  assert (Hts : strictly_increasing ts).
  { rewrite Forall_forall in Hinc. apply (Hinc (ts, cs)). eapply nth_error_In. exact Ho. }
  assert (HC : chain_ord 0 l).
  { rewrite Forall_forall in HCs. apply HCs. eapply nth_error_In. exact Hl. }
  (* a point inside the window of i is a sample of i, at the aligned index *)
  assert (Inside : forall i, In i l -> p_start i < t -> t <= p_end i ->
            exists n, nth_error (exec_times i) n = Some t /\ nth_error (tl (w_cs (p_wave i))) n = Some c).
  { intros i Hi H1 H2.
    pose proof (window_grid _ _ _ _ _ _ HCs H Hl Ho i t Hi (nth_error_In _ _ Ht) H1 H2) as Hin.
    apply In_nth_error in Hin. destruct Hin as [n Hn].
    destruct (continuous_aligned _ _ _ _ _ _ HCs H Hl Ho HW i Hi) as [off Hoff].
    assert (Hlt : (n < length (exec_times i))%nat) by (apply nth_error_Some; congruence).
    destruct (Hoff n Hlt) as [A1 A2]. rewrite Hn in A1.
    pose proof (incr_nth_inj _ _ _ _ Hts Ht A1) as ->.
    exists n. split; [exact Hn|]. rewrite <- A2. exact Hc. }
  destruct (all_samples _ _ _ _ _ _ H Hl Ho HW) as (_ & _ & HB).
  destruct (HB t c (nth_error_combine_In _ _ _ _ _ Ht Hc)) as [Z|(i & Hi & Hs)].
  - (* coefficient 0 *)
    subst c.
    assert (Dec : (exists i, In i l /\ p_start i < t /\ t <= p_end i) \/
                  (forall i, In i l -> ~ (p_start i < t /\ t <= p_end i))).
    { clear. induction l as [|j r IH]; [right; intros i []|].
      destruct (Qlt_le_dec (p_start j) t) as [A|A].
      - destruct (Qlt_le_dec (p_end j) t) as [B|B].
        + destruct IH as [(i & Hi & Hx)|IH]; [left; exists i; split; [right; exact Hi|exact Hx]|].
          right. intros i [<-|Hi]; [intros [_ C]; lra|exact (IH i Hi)].
        + left. exists j. split; [left; reflexivity|split; assumption].
      - destruct IH as [(i & Hi & Hx)|IH]; [left; exists i; split; [right; exact Hi|exact Hx]|].
        right. intros i [<-|Hi]; [intros [C _]; lra|exact (IH i Hi)]. }
    destruct Dec as [(i & Hi & H1 & H2)|Dec]; [|right; split; [reflexivity|exact Dec]].
    left. destruct (Inside i Hi H1 H2) as (n & A1 & A2). exists i, n. repeat split; assumption.
  - (* a sample of i: it lies in the window of i *)
    left. rewrite Forall_forall in HW. destruct (HW i Hi) as [Hw Hcn].
    rewrite (samples_exec i Hw Hcn) in Hs.
    pose proof (in_combine_l _ _ _ _ Hs) as Hin.
    destruct (wf_exec (p_wave i) (p_start i) Hw) as (Ene & Einc & Elast). fold (exec_times i) in *.
    pose proof (incr_all_gt _ _ _ Einc Hin) as H1.
    pose proof (incr_all_le _ _ _ Einc Hin) as H2.
    assert (H2' : t <= p_end i) by (unfold p_end; lra).
    rewrite <- Forall_forall in HW.
    destruct (Inside i Hi H1 H2') as (n & A1 & A2). exists i, n. repeat split; assumption.
Qed.

(* ---------- the grid concatenation law: what stands immediately in front of an instruction's block ---------- *)
(* end of the window that precedes position |l1| on the channel (lst for the first instruction) *)
Definition prev_end (lst : Q) (l1 : list pinstr) : Q := last (map p_end l1) lst.

Definition mode_of (i : pinstr) : mode :=
  match process_gate_pulse (p_wave i) with
  | Some (_, _, _, m) => m
  | None => Discrete
  end.

(* the idle grid the code inserts in front of instruction i when the previous window ended at prev *)
Definition idle_before (gtl : Q -> Q) (i : pinstr) (prev : Q) : option (list Q) :=
  if Qlt_b (gtl (step_of (p_wave i))) (Qabs (p_start i - prev))
  then idle_tlist (mode_of i) (p_start i) prev (step_of (p_wave i))
  else Some [].

Lemma chan_idle_nf gtl l1 : forall i l2 lst ms md ts cs ms' md',
  chain_ord lst (l1 ++ i :: l2) ->
  concat_chan true gtl false lst ms md (l1 ++ i :: l2) = Some (ts, cs, ms', md') ->
  exists A0 cA0 idl B cB prev,
    prev == prev_end lst l1 /\ idle_before gtl i prev = Some idl /\
    ts = A0 ++ idl ++ exec_times i ++ B /\ cs = cA0 ++ zeros idl ++ exec_coeffs i ++ cB /\
    length A0 = length cA0.
Proof.
  induction l1 as [|j l1 IH]; intros i l2 lst ms md ts cs ms' md' HC H.
  - cbn [app] in *. destruct HC as (Hw & Hle & HC).
    apply concat_chan_inv in H.
    destruct H as (gt & co & step & m & idl & lst' & ts' & cs' & EP & EI & EL & ER & Ets & Ecs).
    cbn in Ets, Ecs. subst ts cs.
    destruct (wf_pgp_inv _ _ _ _ _ Hw EP) as [-> ->].
    exists [], [], idl, ts', cs', lst.
    split; [reflexivity|]. split.
    + unfold idle_before, mode_of. rewrite EP. exact EI.
    + split; [reflexivity|]. split; [|reflexivity].
      unfold exec_coeffs. rewrite EP. reflexivity.
  - cbn [app] in *. destruct HC as (Hw & Hle & HC).
    apply concat_chan_inv in H.
    destruct H as (gt & co & step & m & idl & lst' & ts' & cs' & EP & EI & EL & ER & Ets & Ecs).
    cbn in Ets, Ecs. subst ts cs.
    destruct (wf_pgp_inv _ _ _ _ _ Hw EP) as [-> ->].
    destruct (wf_exec (p_wave j) (p_start j) Hw) as (Ene & Einc & Elast).
    fold (exec_times j) in *.
    rewrite (last_opt_last (exec_times j) (p_start j) Ene) in EL. injection EL as <-.
    set (L := last (exec_times j) (p_start j)) in *.
    assert (EL : L == p_end j) by (unfold p_end; lra).
    assert (HC' : chain_ord L (l1 ++ i :: l2)) by (apply chain_ord_eq with (a := p_end j); [lra|exact HC]).
    destruct (IH _ _ _ _ _ _ _ _ _ HC' ER) as (A0 & cA0 & idl' & B & cB & prev & P1 & P2 & P3 & P4 & P5).
    exists (idl ++ exec_times j ++ A0), (zeros idl ++ co ++ cA0), idl', B, cB, prev.
    split.
    { unfold prev_end in *. cbn [map]. destruct l1 as [|j' l1]; [cbn in *; lra|].
      cbn [map] in *. change (last (p_end j :: p_end j' :: map p_end l1) lst) with (last (p_end j' :: map p_end l1) lst).
      rewrite (last_default_irrel (p_end j' :: map p_end l1) lst L) by congruence. exact P1. }
    split; [exact P2|].
    split; [rewrite P3; repeat rewrite <- app_assoc; reflexivity|].
    split; [rewrite P4; repeat rewrite <- app_assoc; reflexivity|].
    rewrite !app_length, zeros_length.
    pose proof (exec_lengths j Hw) as EL'. unfold exec_coeffs in EL'. rewrite EP in EL'. lia.
Qed.

(* in the returned arrays: [0] / what precedes / idle grid / the instruction's block / the rest *)
Lemma grid_concatenation chs outs k l1 i l2 ts cs :
  Forall (chain_ord 0) chs ->
  concatenate_pulses true true chs = Some outs ->
  nth_error chs k = Some (l1 ++ i :: l2) -> nth_error outs k = Some (ts, cs) ->
  exists A0 idl B prev,
    prev == prev_end 0 l1 /\
    idle_before (gap_tol true (res_of chs)) i prev = Some idl /\
    ts = 0 :: A0 ++ idl ++ exec_times i ++ B /\
    exists cA0 cB, cs = cA0 ++ zeros idl ++ exec_coeffs i ++ cB /\
                   (length (0 :: A0) = S (length cA0) \/ length (0 :: A0) = length cA0).
Proof.
  intros HCs H Hl Ho.
  assert (HC : chain_ord 0 (l1 ++ i :: l2)).
  { rewrite Forall_forall in HCs. apply HCs. eapply nth_error_In. exact Hl. }
  destruct (channel_inv _ _ _ _ _ _ H Hl Ho) as (ts0 & cs0 & pad & HR & -> & -> & Hne & ER).
  destruct HR as (a & b & c & d & HR). cbn [fst snd] in HR.
  destruct (l1 ++ i :: l2) as [|j rest] eqn:EQ; [congruence|].
  apply concat_first in HR. destruct HR as (ts1 & cs1 & HR & -> & Hcs).
  rewrite <- EQ in HR, HC.
  destruct (chan_idle_nf _ _ _ _ _ _ _ _ _ _ _ HC HR) as (A0 & cA0 & idl & B & cB & prev & P1 & P2 & P3 & P4 & P5).
  exists A0, idl, (B ++ pad), prev. split; [exact P1|]. split; [exact P2|].
  split; [rewrite P3; cbn [app]; repeat rewrite <- app_assoc; reflexivity|].
  destruct Hcs as [[_ ->]|[_ [_ ->]]].
  - exists cA0, (cB ++ zeros pad). split; [rewrite P4; repeat rewrite <- app_assoc; reflexivity|].
    left. cbn. lia.
  - exists (0 :: cA0), (cB ++ zeros pad). split; [rewrite P4; cbn [app]; repeat rewrite <- app_assoc; reflexivity|].
    right. cbn. lia.
Qed.

(* the idle grid of a continuous instruction, spelled out *)
Lemma idle_before_continuous gtl i prev :
  mode_of i = Continuous ->
  idle_before gtl i prev =
  let s := p_start i in let h := step_of (p_wave i) in
  if Qlt_b (gtl h) (Qabs (s - prev)) then
    if Qlt_b (3 * h) (s - prev)
    then Some (linspace10 (prev + h / 5) (prev + h) ++ linspace10 (s - h) s)
    else if Qeq_bool h 0 then None else Some (arange (prev + h) s h)
  else Some [].
Proof. intro E. unfold idle_before. rewrite E. reflexivity. Qed.

Lemma mode_of_continuous i : wf_wave (p_wave i) -> is_continuous (p_wave i) -> mode_of i = Continuous.
Proof. intros Hw Hc. unfold mode_of. rewrite (pgp_continuous _ Hw Hc). reflexivity. Qed.

(* ---------- the example channel of ConcatTop: the second continuous pulse sits at offset 3 ---------- *)
Lemma ex_blocks :
  exists oA oB i1 i2,
    concatenate_pulses true true ex_chs = Some [oA; oB] /\ ex_chB = [i1; i2] /\
    exec_times i2 = [(1 # 2) + 2; 1 + 2] /\
    nth_error (fst oB) 3 = nth_error (exec_times i2) 0 /\ nth_error (snd oB) 3 = Some 6 /\
    nth_error (fst oB) 4 = nth_error (exec_times i2) 1 /\ nth_error (snd oB) 4 = Some 0 /\
    idle_before (gap_tol true (res_of ex_chs)) i2 (p_end i1) = Some [].
Proof. do 4 eexists. split; [vm_compute; reflexivity|]. split; [reflexivity|]. vm_compute. repeat split; reflexivity. Qed.
