(* C12: basic lemmas about the model of pulse concatenation (Model/Concat.v) *)
From Coq Require Import List QArith Qabs Qround ZArith Bool Lia Lqa.
From QV Require Import Model.Concat.
Import ListNotations.
Open Scope Q_scope.

(* ---------- booleans ---------- *)
Lemma Qlt_b_true x y : Qlt_b x y = true <-> x < y.
Proof.
  unfold Qlt_b. rewrite negb_true_iff. split; intro H.
  - destruct (Qlt_le_dec x y) as [L|L]; [exact L|].
    apply Qle_bool_iff in L. congruence.
  - destruct (Qle_bool y x) eqn:E; [|reflexivity].
    apply Qle_bool_iff in E. lra.
Qed.

Lemma Qlt_b_false x y : Qlt_b x y = false <-> y <= x.
Proof.
  unfold Qlt_b. rewrite negb_false_iff. apply Qle_bool_iff.
Qed.

Lemma Qle_bool_false x y : Qle_bool x y = false <-> y < x.
Proof.
  split; intro H.
  - destruct (Qlt_le_dec y x) as [L|L]; [exact L|]. apply Qle_bool_iff in L. congruence.
  - destruct (Qle_bool x y) eqn:E; [|reflexivity]. apply Qle_bool_iff in E. lra.
Qed.

Ltac qb :=
  repeat match goal with
         | H : Qlt_b _ _ = true |- _ => apply Qlt_b_true in H
         | H : Qlt_b _ _ = false |- _ => apply Qlt_b_false in H
         | H : Qle_bool _ _ = true |- _ => apply Qle_bool_iff in H
         | H : Qle_bool _ _ = false |- _ => apply Qle_bool_false in H
         end.

Lemma tol_pos : 0 < tol.
Proof. reflexivity. Qed.

(* ---------- lists ---------- *)
Lemma last_opt_app_ne (l1 l2 : list Q) : l2 <> [] -> last_opt (l1 ++ l2) = last_opt l2.
Proof.
  intro H. induction l1 as [|x l1 IH]; [reflexivity|].
  cbn [app]. destruct (l1 ++ l2) eqn:E.
  - destruct l1; destruct l2; cbn in E; congruence.
  - exact IH.
Qed.

Lemma last_opt_last (l : list Q) d : l <> [] -> last_opt l = Some (last l d).
Proof.
  induction l as [|x l IH]; [congruence|]. intros _.
  destruct l as [|y l]; [reflexivity|].
  change (last_opt (y :: l) = Some (last (y :: l) d)). apply IH. congruence.
Qed.

Lemma last_opt_some_ne (l : list Q) x : last_opt l = Some x -> l <> [].
Proof. destruct l; cbn; congruence. Qed.

Lemma last_opt_none (l : list Q) : last_opt l = None -> l = [].
Proof.
  induction l as [|x l IH]; [reflexivity|]. destruct l as [|y l]; [cbn; congruence|].
  intro H. change (last_opt (y :: l) = None) in H. apply IH in H. congruence.
Qed.

Lemma last_opt_app_nil (l : list Q) : last_opt (l ++ []) = last_opt l.
Proof. now rewrite app_nil_r. Qed.

(* ---------- increasing lists ---------- *)
Lemma incr_from_weaken a b l : b <= a -> incr_from a l -> incr_from b l.
Proof. destruct l; cbn; [tauto|]. intros H [H1 H2]. split; [lra|exact H2]. Qed.

Lemma incr_from_eq a b l : a == b -> incr_from a l -> incr_from b l.
Proof. intros E. apply incr_from_weaken. lra. Qed.

Lemma last_default_irrel (l : list Q) a b : l <> [] -> last l a = last l b.
Proof.
  induction l as [|x l IH]; [congruence|]. intros _.
  destruct l as [|y l]; [reflexivity|]. cbn [last]. apply IH. congruence.
Qed.

Lemma incr_app a l1 l2 :
  incr_from a l1 -> incr_from (last l1 a) l2 -> incr_from a (l1 ++ l2).
Proof.
  revert a. induction l1 as [|x l1 IH]; intros a H1 H2; [exact H2|].
  destruct H1 as [H1 H1']. split; [exact H1|]. apply IH; [exact H1'|].
  destruct l1 as [|q l1]; [exact H2|].
  change (last (x :: q :: l1) a) with (last (q :: l1) a) in H2.
  rewrite (last_default_irrel (q :: l1) a x) in H2 by congruence. exact H2.
Qed.

Lemma incr_last_ge a l : incr_from a l -> a <= last l a.
Proof.
  revert a. induction l as [|x l IH]; intros a H; [cbn; lra|].
  destruct H as [H H']. specialize (IH x H').
  destruct l as [|y l]; [cbn; lra|].
  change (a <= last (y :: l) a).
  rewrite (last_default_irrel (y :: l) a x) by congruence. lra.
Qed.

Lemma incr_last_gt a l : l <> [] -> incr_from a l -> a < last l a.
Proof.
  destruct l as [|x l]; [congruence|]. intros _ [H H'].
  pose proof (incr_last_ge x l H') as G.
  destruct l as [|y l]; [cbn; lra|].
  change (a < last (y :: l) a). rewrite (last_default_irrel (y :: l) a x) by congruence. lra.
Qed.

Lemma incr_all_le a l x : incr_from a l -> In x l -> x <= last l a.
Proof.
  revert a. induction l as [|y l IH]; intros a H HI; [destruct HI|].
  destruct H as [H H']. destruct HI as [->|HI].
  - pose proof (incr_last_ge x l H') as G. destruct l as [|z l]; [cbn; lra|].
    change (x <= last (z :: l) a). rewrite (last_default_irrel (z :: l) a x) by congruence. exact G.
  - destruct l as [|z l]; [destruct HI|].
    change (x <= last (z :: l) a). rewrite (last_default_irrel (z :: l) a y) by congruence.
    apply IH; assumption.
Qed.

Lemma incr_map_shift a s l :
  incr_from a l -> incr_from (a + s) (map (fun x => x + s) l).
Proof.
  revert a. induction l as [|x l IH]; intros a H; [exact I|].
  destruct H as [H H']. split; [lra|]. apply IH. exact H'.
Qed.

Lemma last_map_shift s (l : list Q) d : last (map (fun x => x + s) l) (d + s) = last l d + s.
Proof.
  induction l as [|x l IH]; [reflexivity|]. destruct l as [|y l]; [reflexivity|].
  exact IH.
Qed.

(* ---------- np.linspace(a, b, 10) and np.arange ---------- *)
Lemma linspace10_incr x a b :
  x < a -> a < b -> incr_from x (linspace10 a b) /\ last (linspace10 a b) x == b.
Proof.
  intros H1 H2. unfold linspace10. cbn [seq map Z.of_nat Pos.of_succ_nat Pos.succ inject_Z incr_from last].
  set (d := (b - a) / 9).
  assert (E : 9 * d == b - a) by (unfold d; field).
  clearbody d. unfold inject_Z.
  repeat split; lra.
Qed.

Lemma arange_seq_incr a step x k0 n :
  0 < step -> x < a + inject_Z (Z.of_nat k0) * step ->
  incr_from x (map (fun k => a + inject_Z (Z.of_nat k) * step) (seq k0 n)).
Proof.
  intros Hs. revert x k0. induction n as [|n IH]; intros x k0 Hx; [exact I|].
  cbn [seq map incr_from]. split; [exact Hx|]. apply IH.
  rewrite Nat2Z.inj_succ, <- Z.add_1_r, inject_Z_plus. change (inject_Z 1) with 1. lra.
Qed.

Lemma arange_bound a b step y :
  0 < step -> In y (arange a b step) -> y < b.
Proof.
  intros Hs HI. unfold arange in HI. apply in_map_iff in HI. destruct HI as [k [<- HI]].
  apply in_seq in HI. destruct HI as [_ HI]. cbn in HI.
  set (q := (b - a) / step) in *.
  pose proof (Qceiling_lt q) as HC.
  assert (Hk : (Z.of_nat k <= Qceiling q - 1)%Z) by lia.
  assert (Hk' : inject_Z (Z.of_nat k) <= inject_Z (Qceiling q - 1)).
  { rewrite <- Zle_Qle. exact Hk. }
  assert (Hq : inject_Z (Z.of_nat k) < q) by lra.
  assert (E : q * step == b - a) by (unfold q; field; lra).
  assert (inject_Z (Z.of_nat k) * step < q * step).
  { apply Qmult_lt_compat_r; assumption. }
  lra.
Qed.

Lemma arange_incr x a b step :
  0 < step -> x < a -> incr_from x (arange a b step).
Proof.
  intros Hs Hx. unfold arange. apply arange_seq_incr; [exact Hs|].
  change (Z.of_nat 0) with 0%Z. unfold inject_Z. lra.
Qed.

(* idle filling: strictly increasing, above [lst], not beyond [start] *)
Lemma linspace10_ne a b : linspace10 a b <> [].
Proof. unfold linspace10. cbn. congruence. Qed.

Lemma idle_incr m start lst step idl :
  0 < step -> lst < start -> idle_tlist m start lst step = Some idl ->
  incr_from lst idl /\ (forall y, In y idl -> y <= start).
Proof.
  intros Hs Hl. unfold idle_tlist. destruct m.
  - intro H. injection H as <-. split; [cbn; tauto|]. intros y [<-|[]]. lra.
  - destruct (Qlt_b (3 * step) (start - lst)) eqn:E3.
    + intro H.
      assert (EI : idl = linspace10 (lst + step / 5) (lst + step) ++ linspace10 (start - step) start) by congruence.
      subst idl. clear H. qb.
      assert (E5 : 5 * (step / 5) == step) by field.
      destruct (linspace10_incr lst (lst + step / 5) (lst + step)) as [A1 A2]; [lra|lra|].
      destruct (linspace10_incr (lst + step) (start - step) start) as [B1 B2]; [lra|lra|].
      set (l1 := linspace10 (lst + step / 5) (lst + step)) in *.
      set (l2 := linspace10 (start - step) start) in *.
      assert (N1 : l1 <> []) by apply linspace10_ne.
      assert (N2 : l2 <> []) by apply linspace10_ne.
      clearbody l1 l2.
      split.
      * apply incr_app; [exact A1|]. apply incr_from_eq with (a := lst + step); [lra|exact B1].
      * intros y HI. apply in_app_iff in HI. destruct HI as [HI|HI].
        -- pose proof (incr_all_le _ _ _ A1 HI). lra.
        -- pose proof (incr_all_le _ _ _ B1 HI). lra.
    + destruct (Qeq_bool step 0); [discriminate|]. intro H.
      assert (EI : idl = arange (lst + step) start step) by congruence. subst idl. clear H.
      split.
      * apply arange_incr; lra.
      * intros y HI. apply arange_bound in HI; [lra|exact Hs].
Qed.

(* ---------- process_gate_pulse on well-formed waves ---------- *)
Lemma wf_step_pos w : wf_wave w -> 0 < step_of w.
Proof.
  intros (t0 & r & E & E0 & Hr & Hi & _). destruct w as [d c|ts cs]; cbn in *.
  - injection E as <- <-. cbn in Hi. lra.
  - unfold w_ts in E. cbn in E. subst ts. destruct r as [|t1 r]; [congruence|]. cbn in Hi. lra.
Qed.

Lemma pgp_discrete w :
  wf_wave w -> is_discrete w ->
  process_gate_pulse w = Some (tl (w_ts w), w_cs w, step_of w, Discrete).
Proof.
  intros (t0 & r & E & E0 & Hr & Hi & _) Hd. destruct w as [d c|ts cs]; [reflexivity|].
  unfold is_discrete, w_ts, w_cs in *. cbn in *. subst ts.
  rewrite Hd, Nat.eqb_refl. destruct r; [congruence|reflexivity].
Qed.

Lemma pgp_continuous w :
  wf_wave w -> is_continuous w ->
  process_gate_pulse w = Some (tl (w_ts w), tl (w_cs w), step_of w, Continuous).
Proof.
  intros (t0 & r & E & E0 & Hr & Hi & _) Hd. destruct w as [d c|ts cs].
  - unfold is_continuous in Hd. cbn in Hd. discriminate.
  - unfold is_continuous, w_ts, w_cs in *. cbn in *. subst ts.
    destruct (Nat.eqb (length (t0 :: r)) (S (length cs))) eqn:E1.
    + apply Nat.eqb_eq in E1. lia.
    + rewrite Hd, Nat.eqb_refl. destruct r; [congruence|reflexivity].
Qed.

(* whatever the input, a successful classification returns as many coefficients as time points *)
Lemma pgp_lengths w gt co step m :
  process_gate_pulse w = Some (gt, co, step, m) -> length gt = length co.
Proof.
  destruct w as [d c|ts cs]; cbn.
  - intro H. injection H as <- <- _ _. reflexivity.
  - destruct (Nat.eqb (length ts) (S (length cs))) eqn:E1.
    + apply Nat.eqb_eq in E1. destruct ts as [|t0 [|t1 ts]]; try discriminate.
      intro H. injection H as <- <- _ _. cbn in *. lia.
    + destruct (Nat.eqb (length ts) (length cs)) eqn:E2; [|discriminate].
      apply Nat.eqb_eq in E2. destruct ts as [|t0 [|t1 ts]]; try discriminate.
      intro H. injection H as <- <- _ _. destruct cs; cbn in *; lia.
Qed.

Lemma pgp_wf w :
  wf_wave w ->
  exists co m, process_gate_pulse w = Some (tl (w_ts w), co, step_of w, m) /\
               (m = Discrete /\ co = w_cs w /\ is_discrete w \/
                m = Continuous /\ co = tl (w_cs w) /\ is_continuous w).
Proof.
  intros H. pose proof H as (t0 & r & E & E0 & Hr & Hi & [Hd|Hc]).
  - exists (w_cs w), Discrete. split; [apply pgp_discrete; assumption|left; auto].
  - exists (tl (w_cs w)), Continuous. split; [apply pgp_continuous; assumption|right; auto].
Qed.

(* the grid of a well-formed wave, shifted to its start *)
Lemma wf_exec w s :
  wf_wave w ->
  let ex := map (fun x => x + s) (tl (w_ts w)) in
  ex <> [] /\ incr_from s ex /\ last ex s == s + wave_end w.
Proof.
  intros (t0 & r & E & E0 & Hr & Hi & _). unfold wave_end. fold (w_ts w). rewrite E. cbn [tl].
  split; [destruct r; cbn; congruence|]. split.
  - apply incr_from_eq with (a := t0 + s); [lra|]. apply incr_map_shift. exact Hi.
  - assert (L : last (map (fun x => x + s) r) s = last (map (fun x => x + s) r) (0 + s)).
    { apply last_default_irrel. destruct r; cbn; congruence. }
    rewrite L, last_map_shift.
    assert (L2 : last (t0 :: r) 0 = last r 0).
    { destruct r; [congruence|reflexivity]. }
    rewrite L2. lra.
Qed.
