(* C12: the compiled channel, read as a function of time, is the scheduled waveform *)
From Coq Require Import List QArith Qabs Qround ZArith Bool Lia Lqa.
From QV Require Import Model.Concat Proofs.ConcatBasics Proofs.ConcatGrid.
Import ListNotations.
Open Scope Q_scope.

Lemma Qlt_b_ext x y x' y' : (x < y <-> x' < y') -> Qlt_b x y = Qlt_b x' y'.
Proof.
  intro H. destruct (Qlt_b x y) eqn:E1; destruct (Qlt_b x' y') eqn:E2; try reflexivity; qb.
  - apply H in E1. lra.
  - apply H in E2. lra.
Qed.

Lemma Qle_bool_ext x y x' y' : (x <= y <-> x' <= y') -> Qle_bool x y = Qle_bool x' y'.
Proof.
  intro H. destruct (Qle_bool x y) eqn:E1; destruct (Qle_bool x' y') eqn:E2; try reflexivity; qb.
  - apply H in E1. lra.
  - apply H in E2. lra.
Qed.

(* ---------- step functions ---------- *)
Lemma eval_segs_t0_eq a b ts cs t : a == b -> eval_segs a ts cs t = eval_segs b ts cs t.
Proof.
  intro E. destruct ts as [|e ts]; destruct cs as [|c cs]; try reflexivity. cbn [eval_segs].
  rewrite (Qle_bool_ext a t b t); [reflexivity|]. split; intro; lra.
Qed.

Lemma eval_segs_below t0 ts cs t : t < t0 -> incr_from t0 ts -> eval_segs t0 ts cs t = 0.
Proof.
  intros H Hi. destruct ts as [|e ts]; destruct cs as [|c cs]; try reflexivity. cbn [eval_segs].
  destruct Hi as [Hi _].
  destruct (Qlt_b t e) eqn:E1; qb; [|lra].
  destruct (Qle_bool t0 t) eqn:E2; qb; [lra|reflexivity].
Qed.

Lemma eval_segs_zeros t0 ts t : eval_segs t0 ts (zeros ts) t = 0.
Proof.
  revert t0. induction ts as [|e ts IH]; intro t0; [reflexivity|].
  cbn [zeros map eval_segs]. destruct (Qlt_b t e); [destruct (Qle_bool t0 t); reflexivity|].
  apply IH.
Qed.

Lemma eval_segs_cons t0 e ts c cs t :
  eval_segs t0 (e :: ts) (c :: cs) t =
  if Qlt_b t e then (if Qle_bool t0 t then c else 0) else eval_segs e ts cs t.
Proof. reflexivity. Qed.

Lemma eval_app ts1 : forall t0 cs1 ts2 cs2 t,
  length ts1 = length cs1 -> ts1 <> [] -> incr_from t0 ts1 ->
  eval_segs t0 (ts1 ++ ts2) (cs1 ++ cs2) t =
  if Qlt_b t (last ts1 t0) then eval_segs t0 ts1 cs1 t else eval_segs (last ts1 t0) ts2 cs2 t.
Proof.
  induction ts1 as [|e ts1 IH]; intros t0 cs1 ts2 cs2 t HL Hne Hi; [congruence|].
  destruct cs1 as [|c cs1]; [discriminate|]. destruct Hi as [H0 Hi].
  destruct ts1 as [|e' ts1].
  - destruct cs1; [|discriminate]. cbn [app last eval_segs].
    destruct (Qlt_b t e); reflexivity.
  - change (last (e :: e' :: ts1) t0) with (last (e' :: ts1) t0).
    rewrite (last_default_irrel (e' :: ts1) t0 e) by congruence.
    change ((e :: e' :: ts1) ++ ts2) with (e :: ((e' :: ts1) ++ ts2)).
    change ((c :: cs1) ++ cs2) with (c :: (cs1 ++ cs2)).
    rewrite (eval_segs_cons t0 e ((e' :: ts1) ++ ts2) c (cs1 ++ cs2) t).
    rewrite (eval_segs_cons t0 e (e' :: ts1) c cs1 t).
    assert (HL' : length (e' :: ts1) = length cs1) by (cbn in *; lia).
    rewrite (IH e cs1 ts2 cs2 t HL' ltac:(congruence) Hi).
    pose proof (incr_last_ge e (e' :: ts1) Hi) as HG.
    destruct (Qlt_b t e) eqn:E1; [|reflexivity].
    destruct (Qlt_b t (last (e' :: ts1) e)) eqn:E2; [reflexivity|]. qb. lra.
Qed.

(* padding with zeros changes nothing *)
Lemma eval_app_zeros ts1 : forall t0 cs1 ts2 t,
  length ts1 = length cs1 ->
  eval_segs t0 (ts1 ++ ts2) (cs1 ++ zeros ts2) t = eval_segs t0 ts1 cs1 t.
Proof.
  induction ts1 as [|e ts1 IH]; intros t0 cs1 ts2 t HL.
  - destruct cs1; [|discriminate]. cbn [app]. rewrite eval_segs_zeros. reflexivity.
  - destruct cs1 as [|c cs1]; [discriminate|]. cbn [app eval_segs].
    destruct (Qlt_b t e); [reflexivity|]. apply IH. cbn in HL. lia.
Qed.

Lemma eval_shift r : forall a s cs t,
  eval_segs (a + s) (map (fun x => x + s) r) cs t = eval_segs a r cs (t - s).
Proof.
  induction r as [|e r IH]; intros a s cs t; [reflexivity|].
  destruct cs as [|c cs]; [reflexivity|]. cbn [map eval_segs].
  rewrite (Qlt_b_ext t (e + s) (t - s) e) by (split; intro; lra).
  rewrite (Qle_bool_ext (a + s) t a (t - s)) by (split; intro; lra).
  rewrite IH. reflexivity.
Qed.

(* ---------- the specification ---------- *)
Lemma wf_wave_end_pos w : wf_wave w -> 0 < wave_end w.
Proof.
  intro Hw. destruct (wf_exec w 0 Hw) as (Ene & Einc & Elast).
  pose proof (incr_last_gt _ _ Ene Einc). lra.
Qed.

Lemma spec_before l : forall a t, chain_ord a l -> t < a -> spec_eval l t = 0.
Proof.
  induction l as [|i rest IH]; intros a t HC Ht; [reflexivity|].
  destruct HC as (Hw & Hle & HC). cbn [spec_eval].
  destruct (Qle_bool (p_start i) t) eqn:E1; qb; [lra|]. cbn [andb].
  apply (IH (p_end i)); [exact HC|]. pose proof (wf_wave_end_pos _ Hw). unfold p_end. lra.
Qed.

Lemma gaps_ok_eq gtl a b l : a == b -> gaps_ok gtl a l -> gaps_ok gtl b l.
Proof.
  intro E. destruct l as [|j l]; [tauto|]. intros [A B]. split; [|exact B].
  destruct A as [A|A]; [left|right]; lra.
Qed.

(* ---------- discrete channels: compiled step function = specification ---------- *)
Lemma chan_eval_nf gtl l : (forall s, 0 < s -> 0 <= gtl s) -> forall lst ms md ts cs ms' md',
  chain_ord lst l -> gaps_ok gtl lst l -> Forall (fun i => is_discrete (p_wave i)) l ->
  concat_chan true gtl false lst ms md l = Some (ts, cs, ms', md') ->
  forall t, eval_segs lst ts cs t = if Qle_bool lst t then spec_eval l t else 0.
Proof.
  intro Hgt. induction l as [|i rest IH]; intros lst ms md ts cs ms' md' HC HG HD H t.
  - cbn in H. injection H as <- <- _ _. cbn. destruct (Qle_bool lst t); reflexivity.
  - destruct HC as (Hw & Hle & HC). destruct HG as [HG0 HG].
    pose proof (Forall_inv HD) as Hd. cbn beta in Hd. apply Forall_inv_tail in HD.
    apply concat_chan_inv in H.
    destruct H as (gt & co & step & m & idl & lst' & ts' & cs' & EP & EI & EL & ER & Ets & Ecs).
    cbn in Ets, Ecs. subst ts cs.
    rewrite (pgp_discrete _ Hw Hd) in EP.
    assert (gt = tl (w_ts (p_wave i))) by congruence.
    assert (co = w_cs (p_wave i)) by congruence.
    assert (step = step_of (p_wave i)) by congruence.
    assert (m = Discrete) by congruence. subst gt co step m. clear EP.
    pose proof (wf_step_pos _ Hw) as Hs.
    destruct (wf_exec (p_wave i) (p_start i) Hw) as (Ene & Einc & Elast).
    set (s := p_start i) in *.
    set (ex := map (fun x => x + s) (tl (w_ts (p_wave i)))) in *.
    rewrite (last_opt_last ex s Ene) in EL. injection EL as <-.
    set (L := last ex s) in *.
    assert (EL : L == p_end i) by (unfold p_end; fold s; lra).
    assert (HC' : chain_ord L rest) by (apply chain_ord_eq with (a := p_end i); [lra|exact HC]).
    assert (HG' : gaps_ok gtl L rest) by (apply gaps_ok_eq with (a := p_end i); [lra|exact HG]).
    pose proof (IH _ _ _ _ _ _ _ HC' HG' HD ER) as IHt. clear IH.
    (* lengths of the executed block *)
    assert (Hlen : length ex = length (w_cs (p_wave i))).
    { unfold ex. rewrite map_length. unfold is_discrete in Hd.
      destruct (w_ts (p_wave i)); cbn in *; lia. }
    (* the core: from the start of the window on *)
    assert (Core : s <= t ->
                   eval_segs s (ex ++ ts') (w_cs (p_wave i) ++ cs') t = spec_eval (i :: rest) t).
    { intro Hst. rewrite (eval_app ex s _ ts' cs' t Hlen Ene Einc). fold L.
      cbn [spec_eval]. fold s.
      destruct (Qlt_b t L) eqn:E1; qb.
      - assert (E2 : Qle_bool s t = true) by (apply Qle_bool_iff; exact Hst).
        assert (E3 : Qlt_b t (s + wave_end (p_wave i)) = true) by (apply Qlt_b_true; lra).
        rewrite E2, E3. cbn [andb].
        destruct Hw as (t0 & r & Ew & E0 & Hr & Hi & _).
        unfold eval_step. fold (w_ts (p_wave i)) (w_cs (p_wave i)). unfold ex. rewrite Ew. cbn [tl].
        rewrite (eval_segs_t0_eq s (t0 + s)) by lra. apply eval_shift.
      - assert (E3 : Qlt_b t (s + wave_end (p_wave i)) = false) by (apply Qlt_b_false; lra).
        rewrite E3, andb_false_r. rewrite IHt.
        assert (E4 : Qle_bool L t = true) by (apply Qle_bool_iff; exact E1).
        rewrite E4. reflexivity. }
    assert (Hinc : incr_from s (ex ++ ts')).
    { apply incr_app; [exact Einc|]. exact (chan_incr_nf _ _ _ _ _ _ _ _ _ Hgt HC' ER). }
    destruct (Qlt_b (gtl (step_of (p_wave i))) (Qabs (s - lst))) eqn:EGap.
    + (* idle gap *)
      cbn in EI. injection EI as <-. qb. rewrite Qabs_pos in EGap by lra.
      assert (Hlt : lst < s).
      { pose proof (Hgt _ Hs). lra. }
      cbn [app zeros map eval_segs].
      destruct (Qlt_b t s) eqn:E1; qb.
      * assert (Z : spec_eval (i :: rest) t = 0).
        { apply (spec_before (i :: rest) s); [|exact E1]. split; [exact Hw|]. split; [fold s; lra|exact HC]. }
        rewrite Z. destruct (Qle_bool lst t); reflexivity.
      * rewrite (Core E1).
        assert (E2 : Qle_bool lst t = true) by (apply Qle_bool_iff; lra).
        rewrite E2. reflexivity.
    + (* no idle gap: the guard says the start coincides with the end of the previous window *)
      injection EI as <-. cbn [app zeros map]. qb. rewrite Qabs_pos in EGap by lra.
      assert (Eq : s == lst) by (destruct HG0 as [A|A]; [exact A|lra]).
      rewrite (eval_segs_t0_eq lst s) by lra.
      destruct (Qle_bool lst t) eqn:E1; qb.
      * apply Core. lra.
      * apply eval_segs_below; [lra|exact Hinc].
Qed.

(* the whole discrete channel *)
Lemma chan_eval gtl l ms md ts cs ms' md' :
  (forall s, 0 < s -> 0 <= gtl s) ->
  chain_ord 0 l -> gaps_ok gtl 0 l -> Forall (fun i => is_discrete (p_wave i)) l ->
  concat_chan true gtl true 0 ms md l = Some (ts, cs, ms', md') ->
  forall t, eval_step ts cs t = spec_eval l t.
Proof.
  intros Hgt HC HG HD H t. destruct l as [|i rest].
  - cbn in H. injection H as <- <- _ _. reflexivity.
  - apply concat_first in H. destruct H as (ts0 & cs0 & H & -> & Hcs).
    destruct Hcs as [[_ ->]|[_ [Hnd _]]].
    2:{ exfalso. apply Hnd. exact (Forall_inv HD). }
    cbn [eval_step]. rewrite (chan_eval_nf _ _ Hgt _ _ _ _ _ _ _ HC HG HD H t).
    destruct (Qle_bool 0 t) eqn:E; [reflexivity|]. qb.
    symmetry. apply (spec_before _ 0); assumption.
Qed.

(* ---------- continuous channels: which samples the compiled arrays contain ---------- *)
(* the samples k >= 1 of an instruction, at their absolute times (sample 0 is dropped by the code) *)
Definition samples (i : pinstr) : list (Q * Q) :=
  combine (map (fun x => x + p_start i) (tl (w_ts (p_wave i)))) (tl (w_cs (p_wave i))).

Lemma combine_app {A B} (a b : list A) (c d : list B) :
  length a = length c -> combine (a ++ b) (c ++ d) = combine a c ++ combine b d.
Proof.
  revert c. induction a as [|x a IH]; intros [|y c] H; try discriminate; [reflexivity|].
  cbn. f_equal. apply IH. cbn in H. lia.
Qed.

Lemma combine_zeros l t c : In (t, c) (combine l (zeros l)) -> c = 0.
Proof.
  induction l as [|x l IH]; [intros []|]. cbn. intros [H|H]; [congruence|auto].
Qed.

Definition wf_cont (i : pinstr) : Prop := wf_wave (p_wave i) /\ is_continuous (p_wave i).

Lemma chan_samples_nf gtl l : forall lst ms md ts cs ms' md',
  Forall wf_cont l ->
  concat_chan true gtl false lst ms md l = Some (ts, cs, ms', md') ->
  (forall i, In i l -> incl (samples i) (combine ts cs)) /\
  (forall t c, In (t, c) (combine ts cs) -> c = 0 \/ exists i, In i l /\ In (t, c) (samples i)).
Proof.
  induction l as [|i rest IH]; intros lst ms md ts cs ms' md' HW H.
  - cbn in H. injection H as <- <- _ _. split; [intros i []|intros t c []].
  - pose proof (Forall_inv HW) as [Hw Hc]. apply Forall_inv_tail in HW.
    apply concat_chan_inv in H.
    destruct H as (gt & co & step & m & idl & lst' & ts' & cs' & EP & EI & EL & ER & Ets & Ecs).
    cbn in Ets, Ecs. subst ts cs.
    rewrite (pgp_continuous _ Hw Hc) in EP.
    assert (gt = tl (w_ts (p_wave i))) by congruence.
    assert (co = tl (w_cs (p_wave i))) by congruence. subst gt co. clear EP.
    destruct (IH _ _ _ _ _ _ _ HW ER) as [IA IB]. clear IH.
    assert (L1 : length idl = length (zeros idl)) by (symmetry; apply zeros_length).
    assert (L2 : length (map (fun x => x + p_start i) (tl (w_ts (p_wave i)))) = length (tl (w_cs (p_wave i)))).
    { rewrite map_length. unfold is_continuous in Hc.
      destruct (w_ts (p_wave i)); destruct (w_cs (p_wave i)); cbn in *; lia. }
    rewrite (combine_app _ _ _ _ L1), (combine_app _ _ _ _ L2). fold (samples i).
    split.
    + intros j [<-|Hj] x Hx.
      * apply in_or_app. right. apply in_or_app. left. exact Hx.
      * apply in_or_app. right. apply in_or_app. right. exact (IA j Hj x Hx).
    + intros t c HI. apply in_app_or in HI. destruct HI as [HI|HI].
      * left. exact (combine_zeros _ _ _ HI).
      * apply in_app_or in HI. destruct HI as [HI|HI].
        -- right. exists i. split; [left; reflexivity|exact HI].
        -- destruct (IB t c HI) as [Z|(j & Hj & Hs)]; [left; exact Z|].
           right. exists j. split; [right; exact Hj|exact Hs].
Qed.

Lemma chan_samples gtl l ms md ts cs ms' md' :
  l <> [] -> Forall wf_cont l ->
  concat_chan true gtl true 0 ms md l = Some (ts, cs, ms', md') ->
  length ts = length cs /\
  (forall i, In i l -> incl (samples i) (combine ts cs)) /\
  (forall t c, In (t, c) (combine ts cs) -> c = 0 \/ exists i, In i l /\ In (t, c) (samples i)).
Proof.
  intros Hne HW H. destruct l as [|i rest]; [congruence|].
  pose proof (chan_lengths_first _ _ _ _ _ _ _ _ _ _ H) as HL.
  apply concat_first in H. destruct H as (ts0 & cs0 & H & -> & Hcs).
  pose proof (Forall_inv HW) as [Hw Hc].
  destruct Hcs as [[Hd _]|[_ [_ ->]]].
  { exfalso. unfold is_discrete, is_continuous in *. lia. }
  destruct (chan_samples_nf _ _ _ _ _ _ _ _ _ HW H) as [IA IB].
  split.
  - destruct HL as [[Hd _]|[_ [_ HL]]]; [|exact HL].
    exfalso. unfold is_discrete, is_continuous in *. lia.
  - cbn [combine]. split.
    + intros j Hj x Hx. right. exact (IA j Hj x Hx).
    + intros t c [HI|HI]; [left; congruence|exact (IB t c HI)].
Qed.
