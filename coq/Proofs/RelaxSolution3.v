(* C15 - closed-form solution of the master equation for one idle THREE-level subsystem (qutip.destroy(3)/num(3)
   truncation), ARBITRARY 3x3 initial table.  With p = 1/t1 (population rate), c = 1/t2 (coherence rate),
   e = e^{-p t}:
     rho_22 = r22 e^2                rho_11 = e (r11 + 2 r22 (1 - e))         rho_00 = r00 + r11 (1-e) + r22 (1-e)^2
     rho_12 = r12 e^{-c t} e^{-p t}      rho_01 = e^{-c t} (r01 + sqrt2 r12 (1 - e))   rho_02 = r02 e^{-(4c - p) t}
   (and the transposed entries).  It satisfies d/dt rho = sum_k D[C_k] rho entrywise for every t, starts at the given
   table, keeps the trace and maps Hermitian tables to Hermitian tables.  Positive semidefiniteness of the 3x3 closed
   form: Proofs/RelaxPhysical3.v (two-level: Proofs/RelaxPhysical.v). *)
From Coq Require Import Reals Lra QArith Qreals List.
From Coquelicot Require Import Coquelicot.
From QV Require Import Model.Relax Model.Lindblad Gen.Noise Proofs.Relax Proofs.Lindblad Proofs.Lindblad3 Proofs.RelaxLaw
                       Proofs.LindbladC Proofs.RelaxSolution.
Import ListNotations.
Local Open Scope R_scope.

Definition sc (x : R) (z : C) : C := Cmult (RtoC x) z.

Ltac ceq := repeat match goal with
                   | |- cons _ _ = cons _ _ => apply f_equal2
                   | |- @nil _ = @nil _ => reflexivity
                   end; try (apply injective_projections; simpl; ring).

Definition sol3full (a b : option Q) (r00 r01 r02 r10 r11 r12 r20 r21 r22 : C) (t : R) : mat CC :=
  let p := gp a in let c := gc a b in
  let e := exp (- p * t) in let f := exp (- c * t) in
  gen3 CC
    (Cplus r00 (Cplus (sc (1 - e) r11) (sc ((1 - e) * (1 - e)) r22)))
    (sc f (Cplus r01 (sc (sqrt 2 * (1 - e)) r12)))
    (sc (exp (- (4 * c - p) * t)) r02)
    (sc f (Cplus r10 (sc (sqrt 2 * (1 - e)) r21)))
    (sc e (Cplus r11 (sc (2 * (1 - e)) r22)))
    (sc (f * e) r12)
    (sc (exp (- (4 * c - p) * t)) r20)
    (sc (f * e) r21)
    (sc (e * e) r22).

Lemma law_real3 a b gd gn : valid a -> valid b -> law CC CC_hom a b gd gn ->
  gd = RtoC (gp a) /\ gn = RtoC (2 * gc a b - gp a).
Proof.
  intros Va Vb L. destruct (law_real a b gd gn Va Vb L) as [Hd Hc]. split; [exact Hd|].
  subst gd. destruct gn as [u v]. unfold Cmult, Cplus, RtoC in Hc. simpl in Hc.
  injection Hc as H1 H2. unfold RtoC. f_equal; lra.
Qed.

Lemma rhs3_full a b r00 r01 r02 r10 r11 r12 r20 r21 r22 : valid a -> valid b -> compat a b ->
  rhs3 a b (gen3 CC r00 r01 r02 r10 r11 r12 r20 r21 r22)
  = let p := RtoC (gp a) in let c := RtoC (gc a b) in let w := RtoC (sqrt 2) in
    gen3 CC
      (Cmult p r11)
      (Cminus (Cmult p (Cmult w r12)) (Cmult c r01))
      (Copp (Cmult (RtoC (4 * gc a b - gp a)) r02))
      (Cminus (Cmult p (Cmult w r21)) (Cmult c r10))
      (Cminus (Cmult (RtoC (2 * gp a)) r22) (Cmult p r11))
      (Copp (Cmult (RtoC (gc a b + gp a)) r12))
      (Copp (Cmult (RtoC (4 * gc a b - gp a)) r20))
      (Copp (Cmult (RtoC (gc a b + gp a)) r21))
      (Copp (Cmult (RtoC (2 * gp a)) r22)).
Proof.
  intros Va Vb Vc. unfold rhs3. rewrite gen_terms3_total, relax3_generator.
  pose proof (rates_law CC CC_hom a b _ (spec_ops_rates a b Va Vb Vc)) as L.
  destruct (law_real a b _ _ Va Vb L) as [_ Hc]. destruct (law_real3 a b _ _ Va Vb L) as [Hd Hn].
  cbn [kadd kmul kopp ksub half s2 CC] in *. unfold two. cbn [kadd k1 CC].
  rewrite Hc. rewrite Hd, Hn. cbv zeta.
  destruct r00, r01, r02, r10, r11, r12, r20, r21, r22.
  unfold gen3, Cmult, Cplus, Cminus, Copp, RtoC. ceq.
Qed.

Ltac dentry3 := apply derC_intro; unfold sc, Cmult, Cplus, Cminus, Copp, RtoC; simpl; dreal.

Theorem sol3full_master_equation a b r00 r01 r02 r10 r11 r12 r20 r21 r22 : valid a -> valid b -> compat a b ->
  forall (t : R) (i j : nat), (i < 3)%nat -> (j < 3)%nat ->
  derC (fun s => entry CC (sol3full a b r00 r01 r02 r10 r11 r12 r20 r21 r22 s) i j) t
       (entry CC (rhs3 a b (sol3full a b r00 r01 r02 r10 r11 r12 r20 r21 r22 t)) i j).
Proof.
  intros Va Vb Vc t i j Hi Hj. unfold sol3full. cbv zeta. rewrite rhs3_full by assumption. cbv zeta.
  destruct r00 as [x00 y00], r01 as [x01 y01], r02 as [x02 y02], r10 as [x10 y10], r11 as [x11 y11], r12 as [x12 y12],
           r20 as [x20 y20], r21 as [x21 y21], r22 as [x22 y22].
  generalize (gp a) (gc a b) (sqrt 2). intros p c w.
  destruct i as [|[|[|i]]]; [| | |exfalso; do 3 apply Nat.succ_lt_mono in Hi; inversion Hi];
  (destruct j as [|[|[|j]]]; [| | |exfalso; do 3 apply Nat.succ_lt_mono in Hj; inversion Hj]);
  cbn [entry gen3 nth]; dentry3.
Qed.

Theorem sol3full_initial a b r00 r01 r02 r10 r11 r12 r20 r21 r22 :
  sol3full a b r00 r01 r02 r10 r11 r12 r20 r21 r22 0 = gen3 CC r00 r01 r02 r10 r11 r12 r20 r21 r22.
Proof.
  unfold sol3full. cbv zeta. rewrite !Rmult_0_r, exp_0.
  destruct r00, r01, r02, r10, r11, r12, r20, r21, r22. unfold gen3, sc, Cmult, Cplus, RtoC. ceq.
Qed.

Theorem sol3full_trace a b r00 r01 r02 r10 r11 r12 r20 r21 r22 t :
  trace CC 3 (sol3full a b r00 r01 r02 r10 r11 r12 r20 r21 r22 t) = Cplus r00 (Cplus r11 r22).
Proof.
  unfold sol3full, trace, sumn. cbv zeta. cbn [seq map ksum entry gen3 nth kadd k0 CC].
  destruct r00, r11, r22. unfold sc, Cmult, Cplus, RtoC. simpl. f_equal; ring.
Qed.

Definition herm3 (m : mat CC) : Prop :=
  entry CC m 1 0 = Cconj (entry CC m 0 1) /\ entry CC m 2 0 = Cconj (entry CC m 0 2) /\ entry CC m 2 1 = Cconj (entry CC m 1 2) /\
  snd (entry CC m 0 0) = 0 /\ snd (entry CC m 1 1) = 0 /\ snd (entry CC m 2 2) = 0.

Theorem sol3full_hermitian a b r00 r01 r02 r10 r11 r12 r20 r21 r22 t :
  herm3 (gen3 CC r00 r01 r02 r10 r11 r12 r20 r21 r22) -> herm3 (sol3full a b r00 r01 r02 r10 r11 r12 r20 r21 r22 t).
Proof.
  unfold herm3, sol3full. cbv zeta. cbn [entry gen3 nth]. intros [H10 [H20 [H21 [I0 [I1 I2]]]]]. subst r10 r20 r21.
  generalize (exp (- gp a * t)) (exp (- gc a b * t)) (exp (- (4 * gc a b - gp a) * t)) (sqrt 2). intros e f g w.
  destruct r00 as [x00 y00], r01 as [x01 y01], r02 as [x02 y02], r11 as [x11 y11], r12 as [x12 y12], r22 as [x22 y22].
  simpl in I0, I1, I2. subst y00 y11 y22.
  unfold sc, Cmult, Cplus, Cconj, RtoC. simpl.
  repeat split; try (apply injective_projections; simpl; ring); ring.
Qed.

(* populations stay non-negative for t >= 0 (diagonal of a positive semidefinite table) *)
Theorem sol3full_populations a b r00 r01 r02 r10 r11 r12 r20 r21 r22 t : valid a -> 0 <= t ->
  0 <= fst r00 -> 0 <= fst r11 -> 0 <= fst r22 -> snd r11 = 0 -> snd r22 = 0 ->
  let m := sol3full a b r00 r01 r02 r10 r11 r12 r20 r21 r22 t in
  0 <= fst (entry CC m 0 0) /\ 0 <= fst (entry CC m 1 1) /\ 0 <= fst (entry CC m 2 2).
Proof.
  intros Va Ht P0 P1 P2 I1 I2. cbv zeta. unfold sol3full. cbv zeta. cbn [entry gen3 nth].
  assert (E : 0 < exp (- gp a * t) <= 1).
  { split; [apply exp_pos|]. rewrite <- exp_0. apply exp_le.
    assert (G : 0 <= gp a) by (destruct a as [t1|]; simpl; [left; apply Rinv_0_lt_compat, Q2R_pos, Va | lra]). nra. }
  revert E. generalize (exp (- gp a * t)). intros e [E0 E1].
  destruct r00 as [x00 y00], r11 as [x11 y11], r22 as [x22 y22]. simpl in *. subst y11 y22.
  unfold sc, Cmult, Cplus, RtoC. simpl.
  assert (0 <= 1 - e) by lra.
  assert (0 <= (1 - e) * x11) by (apply Rmult_le_pos; lra).
  assert (0 <= (1 - e) * (1 - e) * x22) by (apply Rmult_le_pos; [apply Rmult_le_pos|]; lra).
  assert (0 <= 2 * (1 - e) * x22) by (apply Rmult_le_pos; lra).
  assert (0 <= e * (x11 + 2 * (1 - e) * x22)) by (apply Rmult_le_pos; lra).
  assert (0 <= e * e * x22) by (apply Rmult_le_pos; [apply Rmult_le_pos|]; lra).
  repeat split; nra.
Qed.
