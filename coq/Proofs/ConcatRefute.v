(* C12: the unchanged first-pulse test (fx = false): refutation witnesses, and agreement with the
   repaired code whenever the duration ratios are moderate; necessity of the idle-gap guard *)
From Coq Require Import List QArith Qabs Qround ZArith Bool Lia Lqa.
From QV Require Import Model.Concat Proofs.ConcatBasics Proofs.ConcatGrid Proofs.ConcatWave Proofs.ConcatAll.
Import ListNotations.
Open Scope Q_scope.

(* durations 1e-9 then 1e4 on one channel *)
Definition wit_ratio : list (list pinstr) :=
  [[mkP 0 (Scalar (1 # 1000000000) 1); mkP (1 # 1000000000) (Scalar 10000 2)]].

Lemma wf_scalar d c : 0 < d -> wf_wave (Scalar d c).
Proof.
  intro H. exists 0, [d]. split; [reflexivity|]. split; [reflexivity|]. split; [congruence|].
  split; [cbn; split; [exact H|exact I]|]. left. reflexivity.
Qed.

Lemma wit_ratio_ok : Forall (chain_ord 0) wit_ratio /\ Forall (gaps_ok 0) wit_ratio.
Proof.
  unfold wit_ratio. split; (apply Forall_cons; [|apply Forall_nil]).
  - split; [apply wf_scalar; reflexivity|]. split; [cbn; lra|].
    split; [apply wf_scalar; reflexivity|]. split; [|exact I].
    unfold p_end, wave_end. cbn. unfold Qle. cbn. lia.
  - split; [left; reflexivity|]. split; [|exact I]. left.
    unfold p_end, wave_end. cbn. unfold Qeq. cbn. lia.
Qed.

Lemma unfixed_grid_refuted :
  exists chs outs, Forall (chain_ord 0) chs /\ Forall (gaps_ok 0) chs /\
                   concatenate_pulses false chs = Some outs /\
                   ~ Forall (fun o => strictly_increasing (fst o)) outs.
Proof.
  exists wit_ratio. eexists. destruct wit_ratio_ok as [A B].
  split; [exact A|]. split; [exact B|]. split; [vm_compute; reflexivity|].
  intro H. apply Forall_inv in H. cbn in H. destruct H as (_ & H & _).
  unfold Qlt in H. cbn in H. lia.
Qed.

Lemma unfixed_length_refuted :
  exists chs outs i rest ts cs,
    Forall (chain_ord 0) chs /\ Forall (gaps_ok 0) chs /\
    concatenate_pulses false chs = Some outs /\
    nth_error chs 0 = Some (i :: rest) /\ nth_error outs 0 = Some (ts, cs) /\
    is_discrete (p_wave i) /\ length ts <> S (length cs).
Proof.
  exists wit_ratio. do 5 eexists. destruct wit_ratio_ok as [A B].
  split; [exact A|]. split; [exact B|]. split; [vm_compute; reflexivity|].
  split; [reflexivity|]. split; [reflexivity|]. split; [reflexivity|]. cbn. lia.
Qed.

(* the repaired code on the same input *)
Example fixed_on_witness :
  concatenate_pulses true wit_ratio =
  Some [([0; (1 # 1000000000) + 0; 10000 + (1 # 1000000000)], [1; 2])].
Proof. reflexivity. Qed.

(* ---------- necessity of the guard gaps_ok (repaired code) ---------- *)
Definition wit_gap : list pinstr :=
  [mkP 0 (Scalar 16777216 1); mkP 16777217 (Scalar 16777216 2)].

Lemma gap_guard_needed_refuted :
  exists chs outs l ts cs t,
    concatenate_pulses true chs = Some outs /\
    nth_error chs 0 = Some l /\ nth_error outs 0 = Some (ts, cs) /\
    chain_ord 0 l /\ Forall (fun i => is_discrete (p_wave i)) l /\
    (forall i, In i l -> ~ (p_start i <= t /\ t < p_end i)) /\
    ~ eval_step ts cs t == 0.
Proof.
  exists [wit_gap]. eexists. exists wit_gap. eexists. eexists. exists (33554433 # 2).
  split; [vm_compute; reflexivity|]. split; [reflexivity|]. split; [reflexivity|].
  split; [|split; [|split]].
  - split; [apply wf_scalar; reflexivity|]. split; [cbn; lra|].
    split; [apply wf_scalar; reflexivity|]. split; [|exact I].
    unfold p_end, wave_end. cbn. unfold Qle. cbn. lia.
  - repeat constructor.
  - intros i [<-|[<-|[]]]; unfold p_end, wave_end; cbn; intros [H1 H2];
      unfold Qle, Qlt in *; cbn in *; lia.
  - vm_compute. discriminate.
Qed.

(* ---------- the unchanged test is right when ratio_ok holds ---------- *)
Lemma ratio_ok_eq a b l : a == b -> ratio_ok a l -> ratio_ok b l.
Proof.
  intro E. destruct l as [|j l]; [tauto|]. intros [A B]. split; [lra|exact B].
Qed.

Lemma unfixed_nf l : forall b lst ms md,
  0 <= lst -> chain_ord lst l -> ratio_ok lst l ->
  concat_chan false b lst ms md l = concat_chan true false lst ms md l.
Proof.
  induction l as [|i rest IH]; intros b lst ms md H0 HC HR; [reflexivity|].
  destruct HC as (Hw & Hle & HC). destruct HR as [HR0 HR].
  cbn [concat_chan].
  destruct (pgp_wf _ Hw) as (co & m & EP & _). rewrite EP.
  assert (E : Qlt_b (Qabs lst) (step_of (p_wave i) * tol) = false).
  { apply Qlt_b_false. rewrite Qabs_pos by exact H0. exact HR0. }
  rewrite E.
  destruct (if Qlt_b (step_of (p_wave i) * tol) (Qabs (p_start i - lst))
            then idle_tlist m (p_start i) lst (step_of (p_wave i)) else Some []) as [idl|]; [|reflexivity].
  destruct (wf_exec (p_wave i) (p_start i) Hw) as (Ene & Einc & Elast).
  rewrite (last_opt_last _ (p_start i) Ene).
  set (L := last (map (fun x => x + p_start i) (tl (w_ts (p_wave i)))) (p_start i)) in *.
  assert (EL : p_end i == L) by (unfold p_end; lra).
  rewrite (IH false L).
  - reflexivity.
  - pose proof (wf_wave_end_pos _ Hw). lra.
  - apply chain_ord_eq with (a := p_end i); assumption.
  - apply ratio_ok_eq with (a := p_end i); assumption.
Qed.

Definition moderate (l : list pinstr) : Prop :=
  match l with
  | [] => True
  | i :: rest => chain_ord 0 l /\ ratio_ok (p_end i) rest
  end.

Lemma unfixed_chan l ms md :
  moderate l -> concat_chan false true 0 ms md l = concat_chan true true 0 ms md l.
Proof.
  destruct l as [|i rest]; [reflexivity|]. intros [HC HR].
  destruct HC as (Hw & Hle & HC).
  cbn [concat_chan].
  destruct (pgp_wf _ Hw) as (co & m & EP & _). rewrite EP.
  assert (E : Qlt_b (Qabs 0) (step_of (p_wave i) * tol) = true).
  { apply Qlt_b_true. pose proof (wf_step_pos _ Hw). pose proof tol_pos.
    assert (0 < step_of (p_wave i) * tol) by (apply Qmult_lt_0_compat; assumption).
    rewrite Qabs_pos by lra. assumption. }
  rewrite E.
  destruct (if Qlt_b (step_of (p_wave i) * tol) (Qabs (p_start i - 0))
            then idle_tlist m (p_start i) 0 (step_of (p_wave i)) else Some []) as [idl|]; [|reflexivity].
  destruct (wf_exec (p_wave i) (p_start i) Hw) as (Ene & Einc & Elast).
  rewrite (last_opt_last _ (p_start i) Ene).
  set (L := last (map (fun x => x + p_start i) (tl (w_ts (p_wave i)))) (p_start i)) in *.
  assert (EL : p_end i == L) by (unfold p_end; lra).
  rewrite (unfixed_nf rest false L).
  - reflexivity.
  - pose proof (wf_wave_end_pos _ Hw). lra.
  - apply chain_ord_eq with (a := p_end i); assumption.
  - apply ratio_ok_eq with (a := p_end i); assumption.
Qed.

Lemma unfixed_all chs : forall ms md,
  Forall moderate chs -> concat_all false ms md chs = concat_all true ms md chs.
Proof.
  induction chs as [|c r IH]; intros ms md HF; [reflexivity|].
  cbn [concat_all]. rewrite (unfixed_chan c ms md (Forall_inv HF)).
  destruct (concat_chan true true 0 ms md c) as [[[[ts cs] ms1] md1]|]; [|reflexivity].
  rewrite (IH ms1 md1 (Forall_inv_tail HF)). reflexivity.
Qed.

(* the proposed fix does not change the output on inputs with moderate duration ratios *)
Lemma fix_is_conservative chs :
  Forall moderate chs -> concatenate_pulses false chs = concatenate_pulses true chs.
Proof.
  intro HF. unfold concatenate_pulses. rewrite (unfixed_all chs None None HF). reflexivity.
Qed.

(* moderate is satisfiable *)
Definition wit_mod : list (list pinstr) := [[mkP 0 (Scalar 1 3); mkP 3 (Scalar 2 5)]].
Lemma wit_mod_ok : Forall moderate wit_mod.
Proof.
  unfold wit_mod. apply Forall_cons; [|apply Forall_nil]. split.
  - split; [apply wf_scalar; reflexivity|]. split; [cbn; lra|].
    split; [apply wf_scalar; reflexivity|]. split; [unfold p_end, wave_end; cbn; lra|exact I].
  - split; [|exact I]. unfold p_end, wave_end, tol. cbn. lra.
Qed.
