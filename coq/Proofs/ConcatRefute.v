(* C12: the unchanged first-pulse test (fx = false) and the unchanged idle-gap test (gx = false):
   refutation witnesses, agreement with the repaired code on ordinary inputs, and the residual
   float-resolution guard of the repaired idle-gap test *)
From Coq Require Import List QArith Qabs Qround ZArith Bool Lia Lqa.
From QV Require Import Model.Concat Proofs.ConcatBasics Proofs.ConcatGrid Proofs.ConcatWave Proofs.ConcatAll.
Import ListNotations.
Open Scope Q_scope.

(* durations 1e-9 then 1e4 on one channel *)
Definition wit_ratio : list (list pinstr) :=
  [[mkP 0 (Scalar (1 # 1000000000) 1); mkP (1 # 1000000000) (Scalar 10000 2)]].

Lemma wf_scalar d c : 0 < d -> wf_wave (Scalar d c).
Proof.
  intro H. exists 0, [d]. split; [reflexivity|]. split; [reflexivity|]. split; [congruence|].
  split; [cbn; split; [exact H|exact I]|]. left. reflexivity.
Qed.

Lemma wit_ratio_ok : Forall (chain_ord 0) wit_ratio /\ Forall (gaps_ok (gap_tol false 0) 0) wit_ratio.
Proof.
  unfold wit_ratio. split; (apply Forall_cons; [|apply Forall_nil]).
  - split; [apply wf_scalar; reflexivity|]. split; [cbn; lra|].
    split; [apply wf_scalar; reflexivity|]. split; [|exact I].
    unfold p_end, wave_end. cbn. unfold Qle. cbn. lia.
  - split; [left; reflexivity|]. split; [|exact I]. left.
    unfold p_end, wave_end. cbn. unfold Qeq. cbn. lia.
Qed.

Lemma unfixed_grid_refuted :
  exists chs outs, Forall (chain_ord 0) chs /\ Forall (gaps_ok (gap_tol false 0) 0) chs /\
                   concatenate_pulses false false chs = Some outs /\
                   ~ Forall (fun o => strictly_increasing (fst o)) outs.
Proof.
  exists wit_ratio. eexists. destruct wit_ratio_ok as [A B].
  split; [exact A|]. split; [exact B|]. split; [vm_compute; reflexivity|].
  intro H. apply Forall_inv in H. cbn in H. destruct H as (_ & H & _).
  unfold Qlt in H. cbn in H. lia.
Qed.

Lemma unfixed_length_refuted :
  exists chs outs i rest ts cs,
    Forall (chain_ord 0) chs /\ Forall (gaps_ok (gap_tol false 0) 0) chs /\
    concatenate_pulses false false chs = Some outs /\
    nth_error chs 0 = Some (i :: rest) /\ nth_error outs 0 = Some (ts, cs) /\
    is_discrete (p_wave i) /\ length ts <> S (length cs).
Proof.
  exists wit_ratio. do 5 eexists. destruct wit_ratio_ok as [A B].
  split; [exact A|]. split; [exact B|]. split; [vm_compute; reflexivity|].
  split; [reflexivity|]. split; [reflexivity|]. split; [reflexivity|]. cbn. lia.
Qed.

(* the repaired code on the same input *)
Example fixed_on_witness :
  concatenate_pulses true true wit_ratio =
  Some [([0; (1 # 1000000000) + 0; 10000 + (1 # 1000000000)], [1; 2])].
Proof. vm_compute. reflexivity. Qed.

(* ---------- the step-size tolerance of the idle-gap test swallows real gaps (gx = false) ---------- *)
Definition wit_gap : list pinstr :=
  [mkP 0 (Scalar 16777216 1); mkP 16777217 (Scalar 16777216 2)].

Lemma step_tolerance_gap_refuted :
  exists chs outs l ts cs t,
    concatenate_pulses true false chs = Some outs /\
    nth_error chs 0 = Some l /\ nth_error outs 0 = Some (ts, cs) /\
    chain_ord 0 l /\ Forall (fun i => is_discrete (p_wave i)) l /\
    (forall i, In i l -> ~ (p_start i <= t /\ t < p_end i)) /\
    ~ eval_step ts cs t == 0.
Proof.
  exists [wit_gap]. eexists. exists wit_gap. eexists. eexists. exists (33554433 # 2).
  split; [vm_compute; reflexivity|]. split; [reflexivity|]. split; [reflexivity|].
  split; [|split; [|split]].
  - split; [apply wf_scalar; reflexivity|]. split; [cbn; lra|].
    split; [apply wf_scalar; reflexivity|]. split; [|exact I].
    unfold p_end, wave_end. cbn. unfold Qle. cbn. lia.
  - repeat constructor.
  - intros i [<-|[<-|[]]]; unfold p_end, wave_end; cbn; intros [H1 H2];
      unfold Qle, Qlt in *; cbn in *; lia.
  - vm_compute. discriminate.
Qed.

(* ---------- the unchanged test is right when ratio_ok holds ---------- *)
Lemma ratio_ok_eq a b l : a == b -> ratio_ok a l -> ratio_ok b l.
Proof.
  intro E. destruct l as [|j l]; [tauto|]. intros [A B]. split; [lra|exact B].
Qed.

Lemma unfixed_nf gtl l : forall b lst ms md,
  0 <= lst -> chain_ord lst l -> ratio_ok lst l ->
  concat_chan false gtl b lst ms md l = concat_chan true gtl false lst ms md l.
Proof.
  induction l as [|i rest IH]; intros b lst ms md H0 HC HR; [reflexivity|].
  destruct HC as (Hw & Hle & HC). destruct HR as [HR0 HR].
  cbn [concat_chan].
  destruct (pgp_wf _ Hw) as (co & m & EP & _). rewrite EP.
  assert (E : Qlt_b (Qabs lst) (step_of (p_wave i) * tol) = false).
  { apply Qlt_b_false. rewrite Qabs_pos by exact H0. exact HR0. }
  rewrite E.
  destruct (if Qlt_b (gtl (step_of (p_wave i))) (Qabs (p_start i - lst))
            then idle_tlist m (p_start i) lst (step_of (p_wave i)) else Some []) as [idl|]; [|reflexivity].
  destruct (wf_exec (p_wave i) (p_start i) Hw) as (Ene & Einc & Elast).
  rewrite (last_opt_last _ (p_start i) Ene).
  set (L := last (map (fun x => x + p_start i) (tl (w_ts (p_wave i)))) (p_start i)) in *.
  assert (EL : p_end i == L) by (unfold p_end; lra).
  rewrite (IH false L).
  - reflexivity.
  - pose proof (wf_wave_end_pos _ Hw). lra.
  - apply chain_ord_eq with (a := p_end i); assumption.
  - apply ratio_ok_eq with (a := p_end i); assumption.
Qed.

Definition moderate (l : list pinstr) : Prop :=
  match l with
  | [] => True
  | i :: rest => chain_ord 0 l /\ ratio_ok (p_end i) rest
  end.

Lemma unfixed_chan gtl l ms md :
  moderate l -> concat_chan false gtl true 0 ms md l = concat_chan true gtl true 0 ms md l.
Proof.
  destruct l as [|i rest]; [reflexivity|]. intros [HC HR].
  destruct HC as (Hw & Hle & HC).
  cbn [concat_chan].
  destruct (pgp_wf _ Hw) as (co & m & EP & _). rewrite EP.
  assert (E : Qlt_b (Qabs 0) (step_of (p_wave i) * tol) = true).
  { apply Qlt_b_true. pose proof (wf_step_pos _ Hw). pose proof tol_pos.
    assert (0 < step_of (p_wave i) * tol) by (apply Qmult_lt_0_compat; assumption).
    rewrite Qabs_pos by lra. assumption. }
  rewrite E.
  destruct (if Qlt_b (gtl (step_of (p_wave i))) (Qabs (p_start i - 0))
            then idle_tlist m (p_start i) 0 (step_of (p_wave i)) else Some []) as [idl|]; [|reflexivity].
  destruct (wf_exec (p_wave i) (p_start i) Hw) as (Ene & Einc & Elast).
  rewrite (last_opt_last _ (p_start i) Ene).
  set (L := last (map (fun x => x + p_start i) (tl (w_ts (p_wave i)))) (p_start i)) in *.
  assert (EL : p_end i == L) by (unfold p_end; lra).
  rewrite (unfixed_nf gtl rest false L).
  - reflexivity.
  - pose proof (wf_wave_end_pos _ Hw). lra.
  - apply chain_ord_eq with (a := p_end i); assumption.
  - apply ratio_ok_eq with (a := p_end i); assumption.
Qed.

Lemma unfixed_all gtl chs : forall ms md,
  Forall moderate chs -> concat_all false gtl ms md chs = concat_all true gtl ms md chs.
Proof.
  induction chs as [|c r IH]; intros ms md HF; [reflexivity|].
  cbn [concat_all]. rewrite (unfixed_chan gtl c ms md (Forall_inv HF)).
  destruct (concat_chan true gtl true 0 ms md c) as [[[[ts cs] ms1] md1]|]; [|reflexivity].
  rewrite (IH ms1 md1 (Forall_inv_tail HF)). reflexivity.
Qed.

(* the proposed fix does not change the output on inputs with moderate duration ratios *)
Lemma fix_is_conservative gx chs :
  Forall moderate chs -> concatenate_pulses false gx chs = concatenate_pulses true gx chs.
Proof.
  intro HF. unfold concatenate_pulses.
  destruct (if gx then resolution chs else Some 0) as [res|]; [|reflexivity].
  rewrite (unfixed_all (gap_tol gx res) chs None None HF). reflexivity.
Qed.

(* ---------- the idle-gap repair: conservative, and its residual float-resolution guard ---------- *)
Lemma gap_test_eq g1 g2 s lst :
  lst <= s -> 0 <= g1 -> 0 <= g2 ->
  (s == lst \/ g1 < s - lst) -> (s == lst \/ g2 < s - lst) ->
  Qlt_b g1 (Qabs (s - lst)) = Qlt_b g2 (Qabs (s - lst)).
Proof.
  intros Hle H1 H2 A B.
  assert (E : Qabs (s - lst) == s - lst) by (apply Qabs_pos; lra).
  apply Qlt_b_ext. split; intro; destruct A as [A|A]; destruct B as [B|B]; lra.
Qed.

Lemma idle_fix_nf fx gtl1 gtl2 l :
  (forall s, 0 < s -> 0 <= gtl1 s) -> (forall s, 0 < s -> 0 <= gtl2 s) ->
  forall first lst ms md,
  chain_ord lst l -> gaps_ok gtl1 lst l -> gaps_ok gtl2 lst l ->
  concat_chan fx gtl1 first lst ms md l = concat_chan fx gtl2 first lst ms md l.
Proof.
  intros P1 P2. induction l as [|i rest IH]; intros first lst ms md HC G1 G2; [reflexivity|].
  destruct HC as (Hw & Hle & HC). destruct G1 as [G1 G1']. destruct G2 as [G2 G2'].
  cbn [concat_chan].
  destruct (pgp_wf _ Hw) as (co & m & EP & _). rewrite EP.
  pose proof (wf_step_pos _ Hw) as Hs.
  rewrite (gap_test_eq _ _ _ _ Hle (P1 _ Hs) (P2 _ Hs) G1 G2).
  destruct (if Qlt_b (gtl2 (step_of (p_wave i))) (Qabs (p_start i - lst))
            then idle_tlist m (p_start i) lst (step_of (p_wave i)) else Some []) as [idl|]; [|reflexivity].
  destruct (wf_exec (p_wave i) (p_start i) Hw) as (Ene & Einc & Elast).
  rewrite (last_opt_last _ (p_start i) Ene).
  set (L := last (map (fun x => x + p_start i) (tl (w_ts (p_wave i)))) (p_start i)) in *.
  assert (EL : p_end i == L) by (unfold p_end; lra).
  rewrite (IH false L).
  - reflexivity.
  - apply chain_ord_eq with (a := p_end i); assumption.
  - apply gaps_ok_eq with (a := p_end i); assumption.
  - apply gaps_ok_eq with (a := p_end i); assumption.
Qed.

Lemma idle_fix_all fx gtl1 gtl2 chs :
  (forall s, 0 < s -> 0 <= gtl1 s) -> (forall s, 0 < s -> 0 <= gtl2 s) ->
  Forall (chain_ord 0) chs -> Forall (gaps_ok gtl1 0) chs -> Forall (gaps_ok gtl2 0) chs ->
  forall ms md, concat_all fx gtl1 ms md chs = concat_all fx gtl2 ms md chs.
Proof.
  intros P1 P2. induction chs as [|c r IH]; intros HC G1 G2 ms md; [reflexivity|].
  cbn [concat_all].
  rewrite (idle_fix_nf fx gtl1 gtl2 c P1 P2 true 0 ms md (Forall_inv HC) (Forall_inv G1) (Forall_inv G2)).
  destruct (concat_chan fx gtl2 true 0 ms md c) as [[[[ts cs] ms1] md1]|]; [|reflexivity].
  rewrite (IH (Forall_inv_tail HC) (Forall_inv_tail G1) (Forall_inv_tail G2) ms1 md1). reflexivity.
Qed.

(* when every idle gap is absent or above both thresholds, the repaired idle-gap test gives the same arrays *)
Lemma idle_fix_is_conservative fx chs r :
  resolution chs = Some r -> 0 <= r ->
  Forall (chain_ord 0) chs ->
  Forall (gaps_ok (gap_tol false r) 0) chs -> Forall (gaps_ok (gap_tol true r) 0) chs ->
  concatenate_pulses fx false chs = concatenate_pulses fx true chs.
Proof.
  intros ER Hr HC G1 G2. unfold concatenate_pulses. rewrite ER.
  rewrite (idle_fix_all fx (gap_tol false 0) (gap_tol true r) chs
             (gap_tol_false_nonneg 0) (gap_tol_true_nonneg r Hr) HC G1 G2 None None).
  reflexivity.
Qed.

(* the repaired test still has a threshold: 1e-14 of the total duration (float resolution). A gap below it
   is swallowed, so the guard of the waveform theorems cannot be dropped entirely in exact arithmetic *)
Definition wit_res : list pinstr :=
  [mkP 0 (Scalar 1 1); mkP (1 + (1 # 1000000000000000)) (Scalar 1 2)].

Lemma resolution_guard_needed_refuted :
  exists chs outs l ts cs t,
    concatenate_pulses true true chs = Some outs /\
    nth_error chs 0 = Some l /\ nth_error outs 0 = Some (ts, cs) /\
    chain_ord 0 l /\ Forall (fun i => is_discrete (p_wave i)) l /\
    (forall i, In i l -> ~ (p_start i <= t /\ t < p_end i)) /\
    ~ eval_step ts cs t == 0.
Proof.
  exists [wit_res]. eexists. exists wit_res. eexists. eexists. exists (1 + (1 # 2000000000000000)).
  split; [vm_compute; reflexivity|]. split; [reflexivity|]. split; [reflexivity|].
  split; [|split; [|split]].
  - split; [apply wf_scalar; reflexivity|]. split; [cbn; lra|].
    split; [apply wf_scalar; reflexivity|]. split; [|exact I].
    unfold p_end, wave_end. cbn. unfold Qle. cbn. lia.
  - repeat constructor.
  - intros i [<-|[<-|[]]]; unfold p_end, wave_end; cbn; intros [H1 H2];
      unfold Qle, Qlt in *; cbn in *; lia.
  - vm_compute. discriminate.
Qed.

(* the repaired code on the witness of step_tolerance_gap_refuted: the gap is honoured *)
Example idle_fix_on_witness :
  exists ts cs, concatenate_pulses true true [wit_gap] = Some [(ts, cs)] /\
                eval_step ts cs (33554433 # 2) == 0.
Proof. do 2 eexists. split; vm_compute; reflexivity. Qed.

(* moderate is satisfiable *)
Definition wit_mod : list (list pinstr) := [[mkP 0 (Scalar 1 3); mkP 3 (Scalar 2 5)]].
Lemma wit_mod_ok : Forall moderate wit_mod.
Proof.
  unfold wit_mod. apply Forall_cons; [|apply Forall_nil]. split.
  - split; [apply wf_scalar; reflexivity|]. split; [cbn; lra|].
    split; [apply wf_scalar; reflexivity|]. split; [unfold p_end, wave_end; cbn; lra|exact I].
  - split; [|exact I]. unfold p_end, wave_end, tol. cbn. lra.
Qed.
