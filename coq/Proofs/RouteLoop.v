(* C07 - closed form of the routing loop: the emitted list is a symmetric SWAP network
   around one core gate (net), for every distance. *)
From Coq Require Import ZArith List String Bool Lia.
Import ListNotations.
From QV Require Import Model.Route.
Local Open Scope Z_scope.

Ltac Zify.zify_post_hook ::= Z.div_mod_to_equations.

(* pre ++ core ++ rev pre, written as the recursion that peels one SWAP pair off each end *)
Fixpoint net (k : nat) (cA cB : Z -> Z -> gate) (s e : Z) : list gate :=
  match k with
  | O => if e - s =? 1 then [cA s (s + 1)]
         else [SWAPg s (s + 1); cB (s + 1) (s + 2); SWAPg s (s + 1)]
  | S k' => SWAPg s (s + 1) :: SWAPg (e - 1) e ::
            net k' cA cB (s + 1) (e - 1) ++ [SWAPg (e - 1) e; SWAPg s (s + 1)]
  end.

Lemma floop_S : forall f cA cB s e i,
  floop (S f) cA cB s e i =
  if i <? e then
      if (s + e - i - i =? 1) && ((e - s + 1) mod 2 =? 0) then
        option_map (fun r => cA i (i + 1) :: r) (floop f cA cB s e (i + 1))
      else if (s + e - i - i =? 2) && ((e - s + 1) mod 2 =? 1) then
        option_map (fun r => SWAPg i (i + 1) :: cB (i + 1) (i + 2) :: SWAPg i (i + 1) :: r)
                   (floop f cA cB s e (i + 1 + 1))
      else
        option_map (fun r => SWAPg i (i + 1) :: SWAPg (s + e - i - 1) (s + e - i) :: r)
                   (floop f cA cB s e (i + 1))
  else Some [].
Proof. reflexivity. Qed.

Lemma floop_done : forall f cA cB s e i, e <= i -> floop f cA cB s e i = Some [].
Proof.
  intros f cA cB s e i H.
  assert (Hlt : (i <? e) = false) by (apply Z.ltb_ge; lia).
  destruct f as [|f]; [simpl | rewrite floop_S]; rewrite Hlt; reflexivity.
Qed.

(* the loop for (s, e), entered strictly inside, is the loop for (s+1, e-1) plus one last
   iteration at i = e-1 that emits the closing SWAP pair *)
Lemma floop_shrink : forall f cA cB s e i,
  s + 1 <= i <= e - 1 -> (Z.to_nat (e - 1 - i) <= f)%nat ->
  exists l, floop f cA cB (s + 1) (e - 1) i = Some l /\
            floop (S f) cA cB s e i = Some (l ++ [SWAPg (e - 1) e; SWAPg s (s + 1)]).
Proof.
  induction f as [|f IH]; intros cA cB s e i Hi Hf.
  - assert (i = e - 1) by lia. subst i.
    exists []. split.
    + apply floop_done. lia.
    + rewrite floop_S.
      assert (H1 : (e - 1 <? e) = true) by (apply Z.ltb_lt; lia). rewrite H1.
      assert (H2 : (s + e - (e - 1) - (e - 1) =? 1) = false) by (apply Z.eqb_neq; lia).
      assert (H3 : (s + e - (e - 1) - (e - 1) =? 2) = false) by (apply Z.eqb_neq; lia).
      rewrite H2, H3. cbn [andb].
      rewrite floop_done by lia. cbn [option_map app].
      replace (e - 1 + 1) with e by lia.
      replace (s + e - (e - 1) - 1) with s by lia.
      replace (s + e - (e - 1)) with (s + 1) by lia. reflexivity.
  - destruct (Z.eq_dec i (e - 1)) as [->|Hne].
    + exists []. split.
      * apply floop_done. lia.
      * rewrite floop_S.
        assert (H1 : (e - 1 <? e) = true) by (apply Z.ltb_lt; lia). rewrite H1.
        assert (H2 : (s + e - (e - 1) - (e - 1) =? 1) = false) by (apply Z.eqb_neq; lia).
        assert (H3 : (s + e - (e - 1) - (e - 1) =? 2) = false) by (apply Z.eqb_neq; lia).
        rewrite H2, H3. cbn [andb].
        rewrite floop_done by lia. cbn [option_map app].
        replace (e - 1 + 1) with e by lia.
        replace (s + e - (e - 1) - 1) with s by lia.
        replace (s + e - (e - 1)) with (s + 1) by lia. reflexivity.
    + rewrite (floop_S f), (floop_S (S f)).
      assert (H1 : (i <? e - 1) = true) by (apply Z.ltb_lt; lia).
      assert (H1' : (i <? e) = true) by (apply Z.ltb_lt; lia).
      rewrite H1, H1'.
      replace (s + 1 + (e - 1) - i - i) with (s + e - i - i) by lia.
      replace ((e - 1 - (s + 1) + 1) mod 2) with ((e - s + 1) mod 2) by lia.
      replace (s + 1 + (e - 1) - i - 1) with (s + e - i - 1) by lia.
      replace (s + 1 + (e - 1) - i) with (s + e - i) by lia.
      destruct ((s + e - i - i =? 1) && ((e - s + 1) mod 2 =? 0)) eqn:C1.
      * destruct (IH cA cB s e (i + 1)) as [l [Ha Hb]]; [lia | lia |].
        rewrite Ha, Hb. exists (cA i (i + 1) :: l). split; reflexivity.
      * destruct ((s + e - i - i =? 2) && ((e - s + 1) mod 2 =? 1)) eqn:C2.
        -- apply andb_true_iff in C2. destruct C2 as [C2 _]. apply Z.eqb_eq in C2.
           destruct (IH cA cB s e (i + 1 + 1)) as [l [Ha Hb]]; [lia | lia |].
           rewrite Ha, Hb.
           exists (SWAPg i (i + 1) :: cB (i + 1) (i + 2) :: SWAPg i (i + 1) :: l).
           split; reflexivity.
        -- destruct (IH cA cB s e (i + 1)) as [l [Ha Hb]]; [lia | lia |].
           rewrite Ha, Hb.
           exists (SWAPg i (i + 1) :: SWAPg (s + e - i - 1) (s + e - i) :: l).
           split; reflexivity.
Qed.

Lemma floop_net : forall k cA cB s e,
  (e - s = 2 * Z.of_nat k + 1 \/ e - s = 2 * Z.of_nat k + 2) ->
  floop (Z.to_nat (e - s)) cA cB s e s = Some (net k cA cB s e).
Proof.
  induction k as [|k IH]; intros cA cB s e H.
  - destruct H as [H|H].
    + replace (Z.to_nat (e - s)) with 1%nat by lia.
      rewrite floop_S.
      assert (H1 : (s <? e) = true) by (apply Z.ltb_lt; lia). rewrite H1.
      assert (H2 : (s + e - s - s =? 1) = true) by (apply Z.eqb_eq; lia). rewrite H2.
      replace (e - s + 1) with 2 by lia. cbn [andb Z.modulo Z.div_eucl Z.eqb Z.pos_div_eucl Z.leb Z.compare Pos.compare Z.ltb Z.sub Z.add Z.mul Z.opp Pos.mul Pos.add Z.pos_sub Z.succ_double Z.double Z.pred_double].
      change (2 mod 2 =? 0) with true. cbn [andb].
      rewrite floop_done by lia. cbn [option_map net].
      assert (H3 : (e - s =? 1) = true) by (apply Z.eqb_eq; lia).
      replace (2 - 1 =? 1) with true by reflexivity.
      rewrite ?H3. reflexivity.
    + replace (Z.to_nat (e - s)) with 2%nat by lia.
      rewrite floop_S.
      assert (H1 : (s <? e) = true) by (apply Z.ltb_lt; lia). rewrite H1.
      assert (H2 : (s + e - s - s =? 1) = false) by (apply Z.eqb_neq; lia). rewrite H2.
      assert (H2' : (s + e - s - s =? 2) = true) by (apply Z.eqb_eq; lia). rewrite H2'.
      replace (e - s + 1) with 3 by lia.
      change (3 mod 2 =? 1) with true. cbn [andb].
      rewrite floop_done by lia. cbn [option_map net].
      assert (H3 : (e - s =? 1) = false) by (apply Z.eqb_neq; lia).
      rewrite H3. reflexivity.
  - assert (Hd : e - s >= 3) by lia.
    replace (Z.to_nat (e - s)) with (S (S (Z.to_nat (e - 1 - (s + 1))))) by lia.
    rewrite floop_S.
    assert (H1 : (s <? e) = true) by (apply Z.ltb_lt; lia). rewrite H1.
    assert (H2 : (s + e - s - s =? 1) = false) by (apply Z.eqb_neq; lia).
    assert (H3 : (s + e - s - s =? 2) = false) by (apply Z.eqb_neq; lia).
    rewrite H2, H3. cbn [andb].
    destruct (floop_shrink (Z.to_nat (e - 1 - (s + 1))) cA cB s e (s + 1)) as [l [Ha Hb]]; [lia | lia |].
    rewrite IH in Ha by lia. inversion Ha; subst l.
    rewrite Hb. cbn [option_map net].
    replace (s + e - s - 1) with (e - 1) by lia.
    replace (s + e - s) with e by lia.
    reflexivity.
Qed.

Lemma dist_split : forall s e, s < e ->
  exists k, e - s = 2 * Z.of_nat k + 1 \/ e - s = 2 * Z.of_nat k + 2.
Proof.
  intros s e H. exists (Z.to_nat ((e - s - 1) / 2)).
  rewrite Z2Nat.id by (apply Z.div_pos; lia). lia.
Qed.

(* fuel = distance always suffices *)
Lemma forward_net : forall c s e, s < e ->
  exists k, (e - s = 2 * Z.of_nat k + 1 \/ e - s = 2 * Z.of_nat k + 2) /\
            forward c s e = Some (net k c c s e).
Proof.
  intros c s e H. destruct (dist_split s e H) as [k Hk].
  exists k. split; [exact Hk|]. unfold forward. apply floop_net. exact Hk.
Qed.

Lemma backward_temp_net : forall cA cB N s e, 0 < N - e + s ->
  exists k, (N - e + s = 2 * Z.of_nat k + 1 \/ N - e + s = 2 * Z.of_nat k + 2) /\
            backward_temp cA cB N s e = Some (net k cA cB 0 (N - e + s)).
Proof.
  intros cA cB N s e H. destruct (dist_split 0 (N - e + s) H) as [k Hk].
  exists k. split; [lia|]. unfold backward_temp.
  replace (Z.to_nat (N - e + s)) with (Z.to_nat (N - e + s - 0)) by (f_equal; lia).
  apply floop_net. exact Hk.
Qed.

(* every gate of the network sits on an edge (j, j+1) of the path s..e *)
Definition on_path (cA cB : Z -> Z -> gate) (s e : Z) (g : gate) : Prop :=
  exists j j', s <= j /\ j' <= e /\ j' = j + 1 /\
               (g = SWAPg j j' \/ g = cA j j' \/ g = cB j j').

Lemma on_path_weaken : forall cA cB s e s' e' g,
  s' <= s -> e <= e' -> on_path cA cB s e g -> on_path cA cB s' e' g.
Proof.
  intros cA cB s e s' e' g Hs He [j [j' [H1 [H2 [H3 H4]]]]].
  exists j, j'. repeat split; try lia. exact H4.
Qed.

Lemma net_on_path : forall k cA cB s e,
  (e - s = 2 * Z.of_nat k + 1 \/ e - s = 2 * Z.of_nat k + 2) ->
  Forall (on_path cA cB s e) (net k cA cB s e).
Proof.
  induction k as [|k IH]; intros cA cB s e H.
  - cbn [net]. destruct (e - s =? 1) eqn:E.
    + apply Z.eqb_eq in E. constructor; [|constructor].
      exists s, (s + 1). repeat split; try lia. right; left; reflexivity.
    + apply Z.eqb_neq in E.
      repeat constructor.
      * exists s, (s + 1). repeat split; try lia. left; reflexivity.
      * exists (s + 1), (s + 2). repeat split; try lia. right; right; reflexivity.
      * exists s, (s + 1). repeat split; try lia. left; reflexivity.
  - cbn [net].
    constructor; [exists s, (s + 1); repeat split; try lia; left; reflexivity|].
    constructor; [exists (e - 1), e; repeat split; try lia; left; reflexivity|].
    apply Forall_app. split.
    + eapply Forall_impl; [|apply IH; lia].
      intros g Hg. eapply on_path_weaken; [| |exact Hg]; lia.
    + constructor; [exists (e - 1), e; repeat split; try lia; left; reflexivity|].
      constructor; [exists s, (s + 1); repeat split; try lia; left; reflexivity|].
      constructor.
Qed.
