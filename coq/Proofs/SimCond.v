(* C02 -- the classical-condition test of the simulator (_decimal_to_binary + the matching loop) decides
   "the listed classical bits, first listed most significant, spell the control value". *)
From Coq Require Import List Arith NArith Bool Lia.
From QV Require Import Model.Sim Spec.Branch.
Import ListNotations.

Fixpoint bval_from (acc : N) (bs : list bool) : N :=
  match bs with [] => acc | b :: tl => bval_from (2 * acc + N.b2n b)%N tl end.

Lemma bval_from_snoc : forall l acc b, bval_from acc (l ++ [b]) = (2 * bval_from acc l + N.b2n b)%N.
Proof. induction l as [|c l IH]; intros; cbn [app bval_from]; [reflexivity|apply IH]. Qed.

Lemma bval_pos_digits : forall p, bval_from 0 (pos_digits p) = Npos p.
Proof.
  induction p as [p IH|p IH|]; cbn [pos_digits].
  - rewrite bval_from_snoc, IH. reflexivity.
  - rewrite bval_from_snoc, IH. reflexivity.
  - reflexivity.
Qed.

Lemma bval_bin_digits : forall v, bval_from 0 (bin_digits v) = v.
Proof. destruct v; [reflexivity|apply bval_pos_digits]. Qed.

Lemma bval_repeat_false : forall k l, bval_from 0 (repeat false k ++ l) = bval_from 0 l.
Proof. induction k; intros; [reflexivity|cbn; apply IHk]. Qed.

Lemma len_pos_digits : forall p n, (Npos p < 2 ^ N.of_nat n)%N -> length (pos_digits p) <= n.
Proof.
  induction p as [p IH|p IH|]; intros n H; cbn [pos_digits].
  - rewrite app_length; cbn [length]. destruct n as [|n]; [cbn in H; lia|].
    rewrite Nat2N.inj_succ, N.pow_succ_r' in H. specialize (IH n). lia.
  - rewrite app_length; cbn [length]. destruct n as [|n]; [cbn in H; lia|].
    rewrite Nat2N.inj_succ, N.pow_succ_r' in H. specialize (IH n). lia.
  - destruct n; [cbn in H; lia|cbn; lia].
Qed.

Lemma len_bin_digits : forall v n, n <> 0 \/ v = 0%N -> (v < 2 ^ N.of_nat n)%N -> length (bin_digits v) <= Nat.max n 1.
Proof.
  intros v n _ H. destruct v; cbn [bin_digits length]; [lia|].
  pose proof (len_pos_digits p n H). lia.
Qed.

(* for v < 2^len the digit list has length exactly max len 1 and spells v *)
Lemma dec_to_bin_spec : forall v len, (v < 2 ^ N.of_nat len)%N ->
  bval_from 0 (dec_to_bin v len) = v /\ length (dec_to_bin v len) = Nat.max len 1.
Proof.
  intros v len H. unfold dec_to_bin. split.
  - rewrite bval_repeat_false. apply bval_bin_digits.
  - rewrite app_length, repeat_length.
    assert (length (bin_digits v) <= Nat.max len 1) by (apply len_bin_digits; [destruct len; [right; cbn in H; lia|left; lia]|exact H]).
    assert (1 <= length (bin_digits v)).
    { destruct v; cbn; [lia|]. destruct p; cbn; rewrite ?app_length; cbn; lia. }
    destruct len; cbn [Nat.max] in *; lia.
Qed.

Lemma bval_from_inj : forall l1 l2 a1 a2, length l1 = length l2 ->
  bval_from a1 l1 = bval_from a2 l2 -> a1 = a2 /\ l1 = l2.
Proof.
  induction l1 as [|b1 l1 IH]; intros [|b2 l2] a1 a2 Hl H; cbn in Hl; try discriminate.
  - cbn in H. auto.
  - cbn [bval_from] in H. injection Hl as Hl. destruct (IH _ _ _ Hl H) as [A B].
    subst l2. destruct b1, b2; unfold N.b2n in A; try (exfalso; lia); (split; [lia|reflexivity]).
Qed.

Definition bit_at (cb : list nat) (i : nat) (c : bool) : Prop := nth_error cb i = Some (Nat.b2n c).

Lemma Forall2_len : forall {A B} (R : A -> B -> Prop) l m, Forall2 R l m -> length l = length m.
Proof. induction 1; cbn; congruence. Qed.

Lemma cval_from_spec : forall cc cb acc x,
  cval_from acc cc cb = Some x <-> exists bits, Forall2 (bit_at cb) cc bits /\ x = bval_from acc bits.
Proof.
  induction cc as [|i cc IH]; intros cb acc x; cbn [cval_from].
  - split.
    + intros H. injection H as <-. exists []. split; [constructor|reflexivity].
    + intros [bits [H E]]. inversion H; subst. reflexivity.
  - unfold bit_at at 1. destruct (nth_error cb i) as [[|[|k]]|] eqn:E.
    + rewrite IH. split.
      * intros [bits [H Ex]]. exists (false :: bits). split; [constructor; [exact E|exact H]|].
        cbn [bval_from N.b2n]. rewrite N.add_0_r. exact Ex.
      * intros [bits [H Ex]]. inversion H as [|? c ? bits' Hc Hr]; subst. unfold bit_at in Hc. rewrite E in Hc.
        destruct c; [discriminate|]. exists bits'. split; [exact Hr|]. cbn [bval_from N.b2n]. rewrite N.add_0_r. reflexivity.
    + rewrite IH. split.
      * intros [bits [H Ex]]. exists (true :: bits). split; [constructor; [exact E|exact H]|exact Ex].
      * intros [bits [H Ex]]. inversion H as [|? c ? bits' Hc Hr]; subst. unfold bit_at in Hc. rewrite E in Hc.
        destruct c; [|discriminate]. exists bits'. split; [exact Hr|]. reflexivity.
    + split; [discriminate|]. intros [bits [H Ex]]. inversion H as [|? c ? bits' Hc Hr]; subst.
      unfold bit_at in Hc. rewrite E in Hc. destruct c; discriminate.
    + split; [discriminate|]. intros [bits [H Ex]]. inversion H as [|? c ? bits' Hc Hr]; subst.
      unfold bit_at in Hc. rewrite E in Hc. discriminate.
Qed.

Lemma matched_spec : forall cc conds cb, length cc <= length conds -> (forall i, In i cc -> i < length cb) ->
  exists l, matched cc conds (Some cb) = Ok l /\
            (forallb (fun b => b) l = true <-> Forall2 (bit_at cb) cc (firstn (length cc) conds)).
Proof.
  induction cc as [|i cc IH]; intros conds cb Hl Hin; cbn [matched].
  - exists []. split; [reflexivity|]. cbn. split; intros; [constructor|reflexivity].
  - destruct conds as [|c conds]; [cbn in Hl; lia|]. cbn [length] in Hl.
    destruct (nth_error cb i) as [x|] eqn:E.
    2:{ apply nth_error_None in E. specialize (Hin i (or_introl eq_refl)). lia. }
    destruct (IH conds cb) as [l [Hm Hf]]; [lia|intros; apply Hin; right; assumption|].
    rewrite Hm. eexists. split; [reflexivity|]. cbn [forallb length firstn].
    rewrite andb_true_iff, Hf, Nat.eqb_eq. split.
    + intros [A B]. constructor; [unfold bit_at; rewrite E, A; reflexivity|exact B].
    + intros H. inversion H as [|? ? ? ? Hc Hr]; subst. unfold bit_at in Hc. rewrite E in Hc. injection Hc as ->. split; [reflexivity|exact Hr].
Qed.

(* cond_gate_iff: the test of the simulator is the numeric condition of the specification *)
Lemma check_cc_spec : forall cc v cb,
  (forall i, In i cc -> i < length cb) -> (v < 2 ^ N.of_nat (length cc))%N ->
  check_cc cc v (Some cb) = Ok (cond_true cc v cb).
Proof.
  intros cc v cb Hin Hv. unfold check_cc.
  destruct (dec_to_bin_spec v (length cc) Hv) as [Hval Hlen].
  destruct (matched_spec cc (dec_to_bin v (length cc)) cb) as [l [Hm Hf]]; [lia|exact Hin|].
  rewrite Hm. f_equal. unfold cond_true, cval.
  destruct cc as [|i0 cc0] eqn:Ecc.
  - (* no classical control listed: v = 0, always fires *)
    cbn in Hm. injection Hm as <-. cbn. cbn in Hv. destruct v; [reflexivity|lia].
  - rewrite <- Ecc in *. assert (Hlen' : length (dec_to_bin v (length cc)) = length cc) by (rewrite Hlen, Ecc; cbn; lia).
    rewrite firstn_all2 in Hf by lia.
    destruct (cval_from 0 cc cb) as [x|] eqn:E.
    + apply cval_from_spec in E. destruct E as [bits [HF Ex]].
      destruct (N.eqb x v) eqn:Exv.
      * apply N.eqb_eq in Exv. apply Hf.
        assert (bits = dec_to_bin v (length cc)).
        { apply (bval_from_inj bits _ 0%N 0%N); [rewrite Hlen'; symmetry; eapply Forall2_len; exact HF|congruence]. }
        subst bits. exact HF.
      * destruct (forallb (fun b => b) l) eqn:Efa; [|reflexivity].
        exfalso. apply N.eqb_neq in Exv. apply Exv.
        assert (HF2 : Forall2 (bit_at cb) cc (dec_to_bin v (length cc))) by (apply Hf; reflexivity).
        assert (E2 : cval_from 0 cc cb = Some (bval_from 0 (dec_to_bin v (length cc))))
          by (apply cval_from_spec; eexists; split; [exact HF2|reflexivity]).
        assert (E1 : cval_from 0 cc cb = Some x) by (apply cval_from_spec; eexists; split; [exact HF|exact Ex]).
        congruence.
    + destruct (forallb (fun b => b) l) eqn:Efa; [|reflexivity].
      exfalso. assert (HF2 : Forall2 (bit_at cb) cc (dec_to_bin v (length cc))) by (apply Hf; reflexivity).
      assert (cval_from 0 cc cb = Some (bval_from 0 (dec_to_bin v (length cc)))) by (apply cval_from_spec; eexists; split; [exact HF2|reflexivity]).
      congruence.
Qed.

(* the condition only depends on the bits it reads *)
Lemma cval_from_agree : forall cc cb cb' acc, (forall i, In i cc -> nth_error cb i = nth_error cb' i) ->
  cval_from acc cc cb = cval_from acc cc cb'.
Proof.
  induction cc as [|i cc IH]; intros cb cb' acc H; cbn [cval_from]; [reflexivity|].
  rewrite <- (H i (or_introl eq_refl)).
  destruct (nth_error cb i) as [[|[|k]]|]; try reflexivity; apply IH; intros; apply H; right; assumption.
Qed.

Lemma cond_true_agree : forall cc v cb cb', (forall i, In i cc -> nth_error cb i = nth_error cb' i) ->
  cond_true cc v cb = cond_true cc v cb'.
Proof. intros. unfold cond_true, cval. rewrite (cval_from_agree cc cb cb' 0%N H). reflexivity. Qed.

(* the specification in words: the gate condition holds iff every listed bit holds 0/1 and the bits,
   first listed most significant, are the binary digits of the control value *)
Lemma cond_true_iff : forall cc v cb,
  cond_true cc v cb = true <-> exists bits, Forall2 (bit_at cb) cc bits /\ bval_from 0 bits = v.
Proof.
  intros. unfold cond_true, cval. destruct (cval_from 0 cc cb) as [x|] eqn:E.
  - rewrite N.eqb_eq. apply cval_from_spec in E. destruct E as [bits [HF Ex]]. split.
    + intros <-. exists bits. auto.
    + intros [bits' [HF' <-]]. subst x.
      assert (cval_from 0 cc cb = Some (bval_from 0 bits')) by (apply cval_from_spec; eauto).
      assert (cval_from 0 cc cb = Some (bval_from 0 bits)) by (apply cval_from_spec; eauto). congruence.
  - split; [discriminate|]. intros [bits [HF Ex]].
    assert (cval_from 0 cc cb = Some (bval_from 0 bits)) by (apply cval_from_spec; eauto). congruence.
Qed.
